#!/bin/bash
# Regenerates everything that is derived (Generated/*.lean from /repo, MANIFEST.json, the generated DESIGN block)
# and rewrites every evidence file with a clean quick run (VERIF_SEED=1, as `vp check` does). Run before committing.
cd /verif
(cd harness && /venv/bin/python translate.py 2>&1 | grep -v Warn)
python3 tools/mkmanifest.py
rc=0
for i in $(seq 1 19); do
  id=$(printf "C%02d" $i)
  out=$(VERIF_SEED=1 /venv/bin/python harness/vcheck.py $id --tier quick 2>&1 | grep -v "^Warn\|KNOWN-FINDING" | tail -2 | tr '\n' ' ')
  echo "$out"
  case "$out" in *"exit 0"*) ;; *) rc=1;; esac
done
/venv/bin/python tools/mkdesign.py 2>&1 | grep -v Warn | tail -1
git -C /verif status --short lean/TddaVerif/Generated
exit $rc
