#!/bin/bash
# usage: tools/evalseed.sh ID [seeds...]  - runs the check of ID against the scratch worktree /tmp/mut/ID for several seeds
ID=$1; shift; seeds=${@:-0 1 2}
cd /verif
for sd in $seeds; do
  out=$(TDDA_REPO=/tmp/mut/$ID VERIF_SEED=$sd /venv/bin/python harness/vcheck.py $ID --tier quick 2>&1 | grep "^VIOLATION\|^$ID quick\|BROKEN" | tr '\n' ' ')
  echo "seed $sd: ${out:0:330}"
done
(cd /verif/harness && /venv/bin/python translate.py >/dev/null 2>&1)
