#!/bin/bash
# usage: tools/evalseed.sh ID [seeds...]  - runs the check of ID against the scratch worktree /tmp/mut/ID for several seeds;
# with ADD_CORPUS=<label> the failing inputs found are added to the regression corpus (after validation on the clean tree)
ID=$1; shift; seeds=${@:-0 1 2}
cd /verif
for sd in $seeds; do
  out=$(TDDA_REPO=/tmp/mut/$ID VERIF_SEED=$sd /venv/bin/python harness/vcheck.py $ID --tier quick 2>&1 | grep "^VIOLATION\|^$ID quick\|BROKEN" | tr '\n' ' ')
  echo "seed $sd: ${out:0:330}"
  if [ -n "$ADD_CORPUS" ] && [[ "$out" == *VIOLATION* ]] && [[ "$out" != *no-failing-input-found* ]]; then
    cp replays/${ID}_quick_$sd.json /tmp/evalseed_replay_$ID.json
    /venv/bin/python tools/addcorpus.py $ID /tmp/evalseed_replay_$ID.json "$ADD_CORPUS" 3 2>&1 | grep -v "^Warn" | tail -3
    rm -f /tmp/evalseed_replay_$ID.json
  fi
done
(cd /verif/harness && /venv/bin/python translate.py >/dev/null 2>&1)
