#!/bin/bash
# usage: tools/thorough.sh [parallel jobs] [ids...]  - the thorough tier of every check on the unchanged tree; output per check
# in /tmp/thorough_<id>.out, one summary line each (evidence files are rewritten by these runs: run tools/refresh.sh afterwards)
cd /verif
P=${1:-4}; shift
ids=${@:-C01 C02 C03 C04 C05 C06 C07 C08 C09 C10 C11 C12 C13 C14 C15 C16 C17 C18 C19}
echo $ids | tr ' ' '\n' | xargs -P $P -I{} sh -c 'VERIF_SEED=${VERIF_SEED:-1} /venv/bin/python harness/vcheck.py {} --tier thorough > /tmp/thorough_{}.out 2>&1; echo "{} rc=$? $(grep "^{} thorough" /tmp/thorough_{}.out | cut -c1-220)"'
echo thorough-done
