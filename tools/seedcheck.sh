#!/bin/bash
# usage: tools/seedcheck.sh <Cxx> <worktree> <outdir> [checks...]
# confirms a seeded change (demo fails with it / passes without it, baseline still passes) and runs checks against it
ID=$1; WT=$2; OUT=$3; shift 3
CHECKS=${@:-$ID}
echo "== patch applies to /repo HEAD?"; git -C /repo apply --check $OUT/patch.diff && echo yes
echo "== demo with change (expect non-zero)"; (cd $WT && PYTHONPATH=$WT /venv/bin/python $OUT/demo.py >/dev/null 2>&1; echo rc=$?)
echo "== demo without change (expect 0)"; (cd $WT && git apply -R $OUT/patch.diff && PYTHONPATH=$WT /venv/bin/python $OUT/demo.py >/dev/null 2>&1; echo rc=$?; git apply $OUT/patch.diff)
echo "== baseline with change"; python3 /verif/tools/baseline.py $WT 2>&1 | grep -v conda; git -C $WT checkout -- tdda/constraints/testdata/accounts25k.csv 2>/dev/null
for c in $CHECKS; do
  echo "== check $c against the change"; TDDA_REPO=$WT /venv/bin/python /verif/harness/vcheck.py $c 2>&1 | grep -v "conda\|KNOWN-FINDING" | tail -4
done
echo "== restoring Generated/*.lean from /repo"; (cd /verif/harness && /venv/bin/python translate.py 2>&1 | grep -v Warn)
