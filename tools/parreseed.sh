#!/bin/bash
# usage: tools/parreseed.sh   - tools/reseed.sh over all stored seeded changes, six workers on scratch copies of /verif
cd /verif
groups=("C17 C01" "C12 C18 C16" "C02 C03 C04 C15" "C11 C05 C07 C13" "C19 C06 C08" "C09 C10 C14")
k=0
for g in "${groups[@]}"; do
  k=$((k+1)); rm -rf /tmp/vpar_$k; cp -a /verif /tmp/vpar_$k
  ids=""
  for p in $g; do ids="$ids $(ls seeded | grep "^$p" | tr '\n' ' ')"; done
  VERIF_ROOT=/tmp/vpar_$k /tmp/vpar_$k/tools/reseed.sh $ids > /tmp/parreseed_$k.log 2>&1 &
done
wait      # (the workers are jobs of this shell)
rm -rf /tmp/vpar_*
git -C /repo worktree prune
cat /tmp/parreseed_*.log | grep -c "CAUGHT with failing input"
cat /tmp/parreseed_*.log | grep -v "CAUGHT with failing input\|reseed-done"
echo parreseed-done
