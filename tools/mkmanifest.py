#!/usr/bin/env python3
"""Regenerates /verif/MANIFEST.json from the table below (run after adding a check)."""
import json
import os

VERIF = os.path.dirname(os.path.dirname(os.path.abspath(__file__)))

PY = '/venv/bin/python harness/vcheck.py'

# property id -> (technique, level text, level note, design ref)
CHECKS = {
    'C01': ('Lean 4 theorems over the shared constraint model + model/implementation correspondence',
            'Kernel-checked theorems: discovery never fails on a well-typed column (zero rows, all-null, ... included); '
            'every constraint discovered from a well-typed column is reported satisfied when that column is verified, '
            'for every epsilon >= 0, strict or sloppy typing, verification or detection mode, with rexpy entering '
            'through the hypothesis RexSound (what C03 establishes); for a frame of columns with distinct names the '
            'verification of its own constraints has 0 failures, every constraint passes and detection flags no '
            'record. Built on the C07 exactness lemmas and C02 verify_eq_spec. The model is tied to the code through '
            'the discover / calc / verify ops; the closure itself is exercised on the public API over 16 combinations '
            '(rex x dict/.tdda file x verify/detect x repair) per generated frame.',
            'Trusted: Lean kernel; pandas / numpy internals, float rounding and the .tdda file leg (C09) are outside '
            'the model. Three known findings (timezone-aware columns).',
            'DESIGN.md 4 C01'),
    'C02': ('Lean 4 theorems over the shared constraint model + model/implementation correspondence',
            'Kernel-checked theorem verify_eq_spec: on every well-typed column, for every constraint kind, precision, '
            'epsilon, strict or sloppy typing, in verification or detection mode, the model of the verifier returns '
            'true exactly when the independently stated documented meaning (quantified over the non-null cells, never '
            'through the aggregates) holds; plus: verdict independent of the detect flag, missing field fails, null '
            'value passes, totals are the verdict counts, a null-valued constraint is inert; the printed report '
            '(Verification.__str__ in every report mode, both mark sets) is modelled down to the text: the mark printed for a '
            'constraint determines its verdict (mark sets regenerated from base.py and proved pairwise distinct), mode all '
            'shows every field, fields / records exactly those with failures. The model is tied to the '
            'code by running verify_df and the Lean model on generated boundary-directed (frame, constraint-set) '
            'pairs; the documented meaning is also recomputed in Python on the cells as the oracle, incl. to_frame() '
            'and str(); the model\'s report text is compared with str(verification) in five mode / mark-set combinations per case.',
            'Trusted: Lean kernel; pandas aggregates (tied by cx.calc in the C07 check); reals are exact rationals '
            '(epsilon and bounds generated dyadic); re.match as a table. Two known findings (categorical columns).',
            'DESIGN.md 4 C02'),
    'C03': ('Lean 4 theorems over a model of the rexpy batch pipeline + model/implementation correspondence',
            'Kernel-checked theorems over a hand translation of Extractor\'s batch path (clean, coarse classification, '
            'run-length encoding, merging, alignment, refinement of fragments, pruning): for every character table '
            'consistent with re\'s \\w / \\d / \\s, every option record and every list of examples, every kept example '
            'is matched in full (Matches, an independent denotation of pattern ASTs) by one of the returned patterns '
            '(extract_sound); the same holds UNDER SAMPLING for every Size setting and whatever random.sample returns '
            '(extract_sampled_sound over a model of the first sample and the extract / check / extend loop), the loop always '
            'terminates (extract_sampled_terminates) and coincides with the batch result below the threshold; the fragment '
            'matcher is sound and complete; the coarse classes are sound. The *_every_size theorems state all this with no '
            'condition on the sizes (the code reads the cap on remembered strings as max(cap, 1), the model as Opts.norm; the '
            'hypothesis 1 <= cap the proofs had forced exposed a defect at cap 0, fixed in 286f565). Constants, category '
            'tables and class order are regenerated from the source on every run and tied by tie_* theorems; the model '
            'reproduces rexpy.extract\'s output text exactly on every generated case (all dialects, tagging, extra letters, '
            'variable-length fragments; for cases that sample the model replays the recorded random.sample results of the '
            'run it is compared with). The rendering and the Python reading of '
            'the text are decided by the oracle (re.fullmatch of every example against every returned expression) over '
            'exotic alphabets, all option subsets, tiny Size settings and seeds.',
            'Trusted: Lean kernel; CPython re (character classes enter as a table, matching of rendered text is oracle-only); '
            'random.sample as far as PickOK. Two known findings (non-ASCII decimal digits under portable / grep).',
            'DESIGN.md 4 C03'),
    'C11': ('Lean 4 theorems over a model of the generator\'s decision logic + model/implementation correspondence (partial: running commands, files and Python text are runtime, decided by the oracle)',
            'Kernel-checked theorems: the generated script contains the two fixed tests, the stream tests asked for and exactly '
            'one test per reference file, in order, with the comparison its type asks for, and all test names are pairwise '
            'distinct for every list of file names (the qualifier loop always finds a free name: pigeonhole over injective '
            'decimal numerals), so no test silently replaces another; the date detector is a total function of the numbers it '
            'finds and flags exactly the triples one of whose readings is a real calendar date in range (31/02/2020 or 1.2.0 '
            'cannot crash generation); every comparison in the script is check_strings (C04) and passes on content identical '
            'to its reference whatever exclusions were generated. The model is tied to test_name, to the def test_ lines of '
            'really generated scripts and to is_date_like / possible_date. PARTIAL: that generation completes, the script '
            'compiles, passes when run straight afterwards and leaves every existing file alone is decided by the oracle, which '
            'runs `python -m tdda.referencetest.gentest` and the generated script as real processes over generated commands.',
            'Trusted: Lean kernel; shell, file system, chardet, Python compiler, unittest. No open findings; five fixed.',
            'DESIGN.md 4 C11'),
    'C12': ('Lean 4 theorems (C04 comparison rule, C11 test plan) + model/implementation correspondence (partial: detection of each change is runtime, decided by the oracle)',
            'Kernel-checked theorems: every stream asked for and every reference file has a test of its own under a name no '
            'other test has; each such test is a check_strings comparison that passes exactly when the stated rule holds, so a '
            'changed line that no generated exclusion excuses, or an added / removed line, makes it fail. Which lines the '
            'generator excuses for a repeatable command is modelled too (check_for_specific_references / '
            'update_exclusions_with_specifics; the date detectors\' answers are inputs): every generated ignore-substring is a '
            'machine-specific string that some line holds or a date found in a line with a date within a day of the run, a '
            'single run generates none, dates outside the window exclude nothing, and a changed line that holds none of the '
            'ignore-substrings makes the generated comparison fail (changed_unexcluded_line_fails, through C04). The constants and '
            'the shape of the rule are regenerated from gentest.py on every run and tied (tie_exclusion_rule). The plan is tied to '
            'the def test_ lines of really generated scripts, the exclusion rule to the real functions run on a bare generator '
            'object. PARTIAL: the regular expressions of the date detectors, binary comparison, '
            'deleted files and exit status are runtime: the oracle generates a script as a real process, then changes the '
            'command\'s behaviour one output at a time (a character, a line added or removed, a byte, a file no longer produced, '
            'another exit status), re-runs the script as a real process and demands that the test of that stream / file / status '
            'fails, and that the script passes again when the change is reverted.',
            'Trusted: Lean kernel; shell, file system, unittest. No open findings; one fixed.',
            'DESIGN.md 4 C12'),
    'C13': ('Lean 4 theorems over a model of the rexpy batch pipeline + model/implementation correspondence',
            'Kernel-checked theorems over the same model as C03: every pattern of a batch extraction matches at least one '
            'kept example; there are never more patterns than distinct examples; an input with nothing kept gives no '
            'pattern; max_patterns / min_strings_per_pattern only delete patterns of the batch result; every rendered '
            'expression starts with ^ and ends with $. Tagging is not part of the pattern AST (only of its rendering), so '
            'the same patterns are found either way; that the tagged text matches the same examples, compiles, and is not '
            'repeated is decided by re.compile / re.fullmatch in the oracle. Model tied to rexpy.extract with pruning options '
            'and both tag settings on every non-sampling case.',
            'Trusted: Lean kernel; CPython re; the sampling loop (oracle only).',
            'DESIGN.md 4 C13'),
    'C14': ('Lean 4 theorems over a model of the rexpy batch pipeline + model/implementation correspondence (partial: sampling, seeds, PRNG and memo are runtime)',
            'Kernel-checked theorems (batch path, i.e. below the sampling threshold): order_independent - for every character '
            'table, option record (with or without pruning options) and every two orderings of the same examples the whole '
            'result is equal (patterns in order, extra letters, whitespace wrapping), proved stage by stage (cleaning, coarse '
            'classes, grouping, sorting, fine analysis, refinement, frequencies); a frequency dictionary and the list it '
            'stands for give the same result; without pruning options frequencies are irrelevant and repeating an example is '
            'a no-op; the pandas-column form (pdextract: per column the distinct non-null values, columns concatenated) gives '
            'the result of the plain list of all values (series_eq_list); the model is a pure function of (table, options, '
            'examples) so a call cannot depend on history. The model is tied to rexpy.extract on the given order, a '
            'permutation and the dictionary form of every non-sampling case, and to pdextract on two object columns (the '
            'strings it hands to extract are spied on). PARTIAL: behaviour under sampling, seeds, the global PRNG state, hash order and the regex memo are runtime: '
            'the oracle compares 5 permutations, the dictionary form, object / str / categorical (also with unused categories) '
            'columns, a repeat, a repeated example and a call after an '
            'unrelated extraction on the real code, repeats seeded calls from other PRNG states, compares the PRNG state '
            'before / after, and re-evaluates every deterministic case alone in a freshly forked interpreter under another '
            'PYTHONHASHSEED.',
            'Trusted: Lean kernel; CPython set / dict iteration order; PRNG; sampling loop not modelled. One fixed finding '
            '(first sample drawn before seeding).',
            'DESIGN.md 4 C14'),
    'C04': ('Lean 4 theorems over a line-by-line model of check_strings + model/implementation correspondence',
            'Kernel-checked theorem check_pass_iff: for every pair of line lists, every option record and every match '
            'relation for the ignore-patterns, the model of FilesComparison.check_strings passes exactly when the '
            'independently stated rule Agree holds (same number of kept lines; every pair equal after stripping, or '
            'reference line contains an ignore-substring, or pattern-equivalent; or the unexcused pairs are a '
            'permutation within max_permutation_cases); corollaries: identical content always passes, different '
            'lengths always fail, an unexcused difference fails. The model is tied to the code by running both on '
            'generated near-miss inputs through all three entry points and diffing failures, first-error, '
            'reconstruction and files written; the property itself (with a documentation-level reading of '
            'ignore_patterns) is evaluated on the public assertions.',
            'Trusted: Lean kernel; CPython re enters as the table of re.match results; file decoding. Two known '
            'findings (trailing empty line normalisation).',
            'DESIGN.md 4 C04'),
    'C05': ('Lean 4 theorems over a model of the DataFrame structure checks and verdict + model/implementation correspondence',
            'Kernel-checked theorem check_iff_agree: for every pair of column lists (names, dtypes), row counts, option '
            'flags (None / False / list / function result for check_data, check_types, check_extra_cols, check_order), '
            'type-matching level and value-comparison outcome, the model of check_dataframe passes exactly when the '
            'independently stated rule Agree holds (selected columns present in both frames with types agreeing at the '
            'level, no selected extra column, same relative order, same row count, selected values equal); types_match '
            'is the documented relation of the three levels, reflexive, symmetric and monotone in the level; a copy '
            'passes; a changed row count, dropped / renamed / added / retyped / moved column or a value difference fails; '
            'rounding to p decimals (half to even, on exact values) moves a value by at most half a unit, leaves grid '
            'values alone, makes values within half a unit of the same grid point equal, and two values more than one '
            'unit apart never compare equal (changing a checked value by more than the precision always fails); nulls '
            'equal only nulls. '
            'The model is tied to the code on all pairs of 18 dtype names x levels and, through spied reporters, on the '
            'structure lists and the verdict of every generated pair of frames; value equality after rounding enters the '
            'model as a parameter and is recomputed cell by cell (on the precision grid) by the oracle through '
            'assertDataFramesEqual / assertDataFrameCorrect on memory, parquet and CSV entry points.',
            'Trusted: Lean kernel; DataFrame.round / equals, sort_values, condition filtering, parquet / CSV readers not '
            'modelled (oracle only). No open findings; four fixed.',
            'DESIGN.md 4 C05'),
    'C06': ('Lean 4 theorems over the shared constraint model + model/implementation correspondence',
            'Kernel-checked theorems over the model of the detect_* record predicates and the failure counting: '
            'constraint verdicts under detection equal plain verification; for record-wise kinds (min, max, lengths, '
            'sign, allowed values, rex) a null record is flagged null and a non-null record is flagged true exactly '
            'when it meets the documented meaning on its own; type failures and wrong-typed bounds flag every record; '
            'a null-count failure flags exactly the null records; a duplicates failure every member of a duplicated '
            'group; each record\'s failure count is its number of false flags; passing + failing = rows. Tied to the '
            'code by the cx.detect op (flags, n_failures, counts per column); output rows, files (absent / stale), '
            'input-unchanged and option handling are decided by the oracle.',
            'Trusted: Lean kernel; pandas column operations and CSV / parquet writers not modelled. Three known '
            'findings (date objects, float32 bound rounding).',
            'DESIGN.md 4 C06'),
    'C07': ('Lean 4 theorems over the shared constraint model + model/implementation correspondence',
            'Kernel-checked theorems over the model of discover_field_constraints for every well-typed column: type is '
            'the column type; min / max are attained by a record and extremal; min / max length attained and extremal '
            'in characters; sign is the strongest class all values share (none when mixed); max_nulls present iff the '
            'null count is < 2 and equals it; no_duplicates iff non-real field with > 1 non-null values all distinct; '
            'allowed_values iff 1..20 distinct strings and equals their sorted list; only the type for absent data. '
            'Tied to the code by running discover_df and the pandas aggregates, and discover_db_table on generated SQLite '
            'tables, against the model on generated columns of every family; statistics are also recomputed from the cells '
            'as the oracle for both back ends.',
            'Trusted: Lean kernel; pandas aggregates (tied by cx.calc); rexpy output replaced by indices. Two known '
            'findings (no_duplicates for bool / date fields). SQLite tables are discovered through discover_db_table in this check too (same model, same clause-by-clause oracle).',
            'DESIGN.md 4 C07'),
    'C09': ('Lean 4 theorems over a dictionary-level model of to_dict / initialize_from_dict + correspondence',
            'Kernel-checked theorems: str(datetime) is re-read as the same datetime by get_date (with and without '
            'fractional seconds, naive or with a UTC offset of whole seconds of either sign, +HH:MM or +HH:MM:SS, as written for timezone-aware '
            'columns); loading the dictionary of a well-formed constraint set gives back the same '
            'constraints (every kind, precision-qualified and date-valued bounds, any names / strings), with no warning '
            'or error, and the reloaded set serialises to the identical dictionary for any number of cycles; the same '
            'constraint is held for every (field, kind), hence identical verdicts; entries of unknown kinds and # keys '
            'do not affect the loaded constraints; strip_lines leaves no trailing whitespace, is the identity on text '
            'without any, and keeps the line structure. The model (from_dict, to_dict, get_date, strip_lines) is tied to '
            'the code by differential runs; valid UTF-8 JSON, text identity over write/load cycles through real files, '
            'the three entry points and verdict preservation on generated frames are the oracle.',
            'Trusted: Lean kernel; json.dumps / json.loads are not modelled (contract loads(dumps x) = x); UTC offsets '
            'with a fraction of a second stay text in code and model.',
            'DESIGN.md 4 C09'),
    'C08': ('Lean 4 theorems over a model of the SQL text and the shared constraint model + model/implementation correspondence',
            'Kernel-checked theorems: (a) the SQL text built for SQLite - quoted column names, string literals and the '
            'REGEXP predicate, whose formats are regenerated from drivers.py on every run and tied by tie_* theorems - reads '
            'back through a SQL tokenizer (a doubled quote stands for one) as exactly the column name and the expressions '
            'it was built from, for every name and expression (quotes, backslashes, unicode, SQL fragments); quoting is '
            'injective; (b) over the shared model of baseconstraints.py: constraints discovered from a column verify against '
            'it (C01 closure) and, for each perturbation the property lists (below min, above max, shorter, longer, new '
            'category, duplicate, extra null, unmatched string, wrong sign), the table with the added row fails that '
            'constraint. The database calculator (aggregates evaluated by SQLite) is tied by running discover_db_table and '
            'verify_db_table on generated SQLite tables, original and perturbed, against the model; the tokenizer model is '
            'tied by letting SQLite read every generated name and literal back. The property itself is evaluated on the '
            'public API for every generated table and up to four perturbations each.',
            'Trusted: Lean kernel; SQLite (aggregates, tokenizer) not modelled; only the sqlite branches are exercised. '
            'No open findings; three fixed.',
            'DESIGN.md 4 C08'),
    'C10': ('Lean 4 theorems over a model of the regeneration decision + model/implementation correspondence',
            'Kernel-checked theorems: over every history of set_regeneration calls the decision for a kind is the last '
            'setting for it, else the last setting for all kinds, else no; kinds named on a command line (C19 meaning) '
            'are exactly the kinds regenerated, also for the pytest spellings (ref_table_spec: after referencepytest.ref a '
            'kind is regenerated iff --write-all was given or the kind is a comma-separated part of a --write parameter); an '
            'assertion that is not selected leaves its reference unchanged; '
            'regenerate-then-check passes for strings, text files (universal newlines: splitlines(universal s) = '
            'splitlines s) and binary files for every content and option record (via C04 identical_passes). Tied to '
            'the code by running op histories on real ReferenceTest objects; file effects and the parquet leg are '
            'decided by the oracle with directory snapshots.',
            'Trusted: Lean kernel; OS file semantics; pandas/pyarrow parquet round trip not modelled (one known finding).',
            'DESIGN.md 4 C10'),
    'C15': ('Lean 4 theorems over the model of check_strings artefacts + model/implementation correspondence',
            'Kernel-checked theorems: a passing comparison plans no file; the reconstructed (post-processed) pair has '
            'equal length and differs exactly on the unexcused pairs, in order, for every input incl. removals; the '
            'binary first-difference offset is exact; the diff marker is maximal-common-prefix ( left | right ) '
            'maximal-common-suffix; the raw actual file holds the compared lines joined by newlines. The model (incl. '
            'files written) is tied to the code by differential runs; existence of the named files, writes outside the '
            'temporary directory and exact raw content are decided by the oracle with directory snapshots.',
            'Trusted: Lean kernel; message wording parsed by regex in the harness; file encodings. Two known findings '
            '(raw actual content).',
            'DESIGN.md 4 C15'),
    'C16': ('Lean 4 theorems over the regenerated replacement chain + model/implementation correspondence',
            'Kernel-checked theorems: for every pattern of documented CSVW date/time fields joined by documented separators '
            '(any length) the replacement chain extracted from the source yields the field-by-field strptime format; ISO '
            'collapse sound; type tables total. The chain and tables are regenerated from /repo on every run, the rest of '
            'the function is tied by differential testing against the Lean model; reading instants back and the full '
            'CSV+CSVW table round trip are decided by the oracle on the real pandas path.',
            'Trusted: Lean kernel; translator (ast walk); pandas read_csv/to_datetime not modelled (oracle only).',
            'DESIGN.md 4 C16'),
    'C17': ('Lean 4 theorems over a model of the command-line scanner and flag translation + model/implementation correspondence (partial: the agreement with the library on files is runtime, decided by the oracle)',
            'Kernel-checked theorems over a scanner that is parametric in the option and positional tables regenerated from '
            'flags.py and pd/{discover,verify,detect}.py on every run: for every command line written the documented way (any '
            'number of options in any order, short or long spelling, values, lists, files before or after the options) the '
            'scanner returns exactly the options and files written; a command line with an unknown option, no input, too many '
            'files or contradictory options (rex/norex, all/fields, per-constraint/no-per-constraint, output-fields/'
            'no-output-fields) never runs the command; an accepted discover / verify / detect invocation passes exactly the '
            'documented keywords (each present iff its option was given); the generated tables are well formed and contain '
            'every destination the translation reads, including the documented spelling --no-original-fields; the dispatch test '
            '(which invocations the pandas front-end takes: some argument is - or has a flat-file extension, extensions '
            'regenerated from pd/extension.py) is a disjunction over the arguments, so it does not depend on where flags, their '
            'values and the files stand (applicable_perm, applicable_append). The model is '
            'tied to pd_*_params and to TDDAPandasExtension.applicable / os.path.splitext on every generated command line. PARTIAL: that the command line then produces the same '
            'constraints, counts, report text and detection output as the library on the loaded DataFrame, that constraints '
            'discovered from a file verify against it, and that failing invocations leave no output file is decided by the '
            'oracle: every generated CSV / parquet file is discovered (to a file, to -, to nothing, from standard input), '
            'verified and detected through console.main_with_argv under random documented flag sets and compared with direct '
            'library calls; corpus cases also as real processes.',
            'Trusted: Lean kernel; argparse beyond the documented way of writing options; pandas, file system, process exit. '
            'No open findings; two fixed.',
            'DESIGN.md 4 C17'),
    'C18': ('Lean 4 theorems over a model of the coverage functions + model/implementation correspondence',
            'Kernel-checked theorems over a line-by-line model of rex_coverage / coverage_matrices / '
            'matrices2incremental_coverage for every pattern list, example multiset and match relation: termination, '
            'exact coverage, incremental counts sum to the examples explained (each credited once), non-increasing '
            'order, exact n / n_uniq fields. The model is tied to the code by running both on generated inputs; the '
            'property is also evaluated as an oracle on Extractor results.',
            'Trusted: Lean kernel; re.match enters as a Boolean matrix computed by the real re; Extractor sampling is '
            'outside the model (oracle only; two known findings).',
            'DESIGN.md 4 C18'),
    'C19': ('Lean 4 theorems over a model of the argv scanner and the tagged loader + model/implementation correspondence',
            'Kernel-checked theorems: on every well-formed command line (any number of single-dash clusters mixing '
            'unittest letters with W/1/0, long tdda options in either spelling, class names and foreign options in any '
            'order, an optional write option followed by kinds) the scanner returns exactly the command line\'s meaning '
            '(flags recognised, tdda arguments removed, everything else in place, kinds registered); under the tagged '
            'option the tests selected from a class are exactly the visible tests that carry the tag themselves or '
            'through (an ancestor of) their class, each once; without it all; with the list option nothing runs and '
            'exactly the classes containing a tagged test are listed; the same four statements for the pytest collection filter '
            '(referencepytest.tagged: methods tagged themselves or through their class and tagged module-level functions stay, '
            'each once; the list option leaves nothing to run and names each class with a tagged test once). Tied to the code by '
            'running scanner, loader and collection filter (on stand-ins for pytest items holding real bound methods) '
            'on generated inputs; whole runs (python module.py argv, side-effect log; tests named as Class.method; tagged '
            'tests under other decorators) and pytest runs through the library\'s collection filter (module-level test '
            'functions among the classes; --tagged, --istagged) are the oracle.',
            'Trusted: Lean kernel; unittest and pytest themselves (loader, option parsing, name narrowing, collection) not '
            'modelled; single inheritance only in the loader model.',
            'DESIGN.md 4 C19'),
}

NOT_BUILT = 'check not built yet in this round (see DESIGN.md section 4 for the planned model and theorems)'

ALL = ['C%02d' % i for i in range(1, 20)]


def findings_note(pid):
    import re
    kf = json.load(open(os.path.join(VERIF, 'known_findings.json')))
    kf = kf['findings'] if isinstance(kf, dict) else kf
    known = [f['key'] for f in kf if f['property'] == pid and f['status'] == 'known']
    fixed = [f for f in kf if f['property'] == pid and f['status'] == 'fixed']
    if known:
        return ' Open findings (KNOWN-FINDING lines, known_findings.json): %s. Fixed in /repo: %d.' % ('; '.join(known), len(fixed))
    return ' No open findings. Fixed in /repo: %d.' % len(fixed)


def strip_findings(note):
    import re
    note = re.sub(r'\s*No open findings[^.]*\.', '', note)
    return re.sub(r'\s*(One|Two|Three|Four|Five|Six|\d+) [^.]*finding[^.]*\.(\s*(One|Two|Three|Four|Five|\w+) fixed\.)?', '', note).rstrip()


# theorems added after the first texts were written (one sentence each)
MORE = {
    'C02': ' Also: the printed report (Model/Report.lean) shows each verdict by the mark its set assigns, in every mode.',
    'C04': ' Also: the encoding files are read in (Model/Encoding.lean: UTF-8 unless given, PDF apart; an encoding given is used '
           'whatever the files are called), constants and helper bodies regenerated from utils.py (tie_guess_encoding).',
    'C06': ' Also: the file of detected records (Model/DetectOut.lean): every row written carries the position of its record, only '
           'failing records are written without write_all, every failing record is, in input order.',
    'C09': ' Also: creation metadata (Model/TddaMeta.lean): what is written after loading what was written is what was written, falsy '
           'values included, over the METADATA_KEYS of the source (keys and both guards regenerated: tie_meta_guards).',
    'C11': ' Also: the class body of the script template is well ordered (every class-level name is defined before it is read), over '
           'the order regenerated from gentest_boilerplate.py (class_body_well_ordered, tie_script_template).',
    'C15': ' Also: where the files go (Model/TmpDir.lean): the configured directory wins over TDDA_FAIL_DIR and the system directory, '
           'every path add_failures writes is a direct child of it, and no two of one failure coincide.',
    'C16': ' Also: the header rule of the dialect (Model/CsvwDialect.lean): no header row exactly when header is false / 0 or '
           'headerRowCount is 0; expression, keys and test regenerated from csvw.py / pandasio.py (tie_header_rule).',
    'C17': ' Also: which invocations the pandas front end takes (Model/Applicable.lean, extensions regenerated from pd/extension.py).',
}


def main():
    checks = []
    for pid in ALL:
        if pid not in CHECKS:
            continue
        tech, text, note, ref = CHECKS[pid]
        text = text + MORE.get(pid, '')
        checks.append({
            'property_id': pid,
            'quick_cmd': '%s %s --tier quick' % (PY, pid),
            'thorough_cmd': '%s %s --tier thorough' % (PY, pid),
            'evidence_file': 'evidence/%s.json' % pid,
            'replay_cmd_template': '%s %s --replay {path}' % (PY, pid),
            'engine': 'lean4-model+correspondence',
            'level_claimed': {'category': 'proof', 'text': text, 'design_ref': ref},
            'level_note': strip_findings(note) + findings_note(pid),
            'technique': tech,
        })
    na = [{'property_id': pid, 'reason': NOT_BUILT} for pid in ALL if pid not in CHECKS]
    m = {
        'version': 1,
        'setup_cmd': '(/venv/bin/python harness/translate.py || true) && cd lean && lake build tddadriver',
        'hooks': {
            'guard': 'TDDA_VERIF',
            'enable': 'no source hooks are needed: every observable the properties name is reachable through the public API; checks import /repo\'s working tree in-process (PYTHONPATH=/repo) and set TDDA_VERIF=1',
            'baseline_off_cmd': 'cd /repo && /venv/bin/python -m pytest -ra -q -p no:cacheprovider --timeout=900 --continue-on-collection-errors',
            'source_commits': [],
            'add_only': True,
        },
        'engines': [{
            'name': 'lean4-model+correspondence',
            'path': 'lean/ (lake project TddaVerif) + harness/ (vcheck.py)',
            'serves_properties': [c['property_id'] for c in checks],
            'kind_free_text': 'Lean 4.33 theorems over hand-written executable models (lean/TddaVerif/Model, Props); '
                              'constant translator regenerating lean/TddaVerif/Generated from /repo on every run; '
                              'compiled Lean driver run against the real implementation on generated inputs '
                              '(correspondence); property oracles on the real code for replays',
        }],
        'checks': checks,
        'not_applicable': na,
        'notes': 'Every check: translator -> lake build of the property theorems -> axiom/forbidden-token audit -> '
                 'model-vs-implementation correspondence via the compiled Lean driver -> oracle search on the real '
                 'code -> verdict. known_findings.json lists recorded genuine defects (KNOWN-FINDING lines).',
    }
    with open(os.path.join(VERIF, 'MANIFEST.json'), 'w') as f:
        json.dump(m, f, indent=1)
        f.write('\n')


if __name__ == '__main__':
    main()
