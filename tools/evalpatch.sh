#!/bin/bash
# usage: tools/evalpatch.sh PID PATCHFILE LABEL [seeds...]  - applies a patch to a scratch worktree of /repo HEAD and runs the check
# of property PID against it for several seeds; with ADD_CORPUS=1 the failing inputs found are added to the regression corpus
# under LABEL
pid=$1; patch=$2; label=$3; shift 3; seeds=${@:-0 1 2}
V=${VERIF_ROOT:-/verif}      # (a scratch copy of /verif when several evaluations run side by side)
cd $V
WT=/tmp/evalpatch_wt_$$
git -C /repo worktree add -q --detach $WT HEAD || exit 2
if ! git -C $WT apply $patch 2>/dev/null; then echo "$label: patch does not apply"; git -C /repo worktree remove --force $WT; exit 0; fi
for sd in $seeds; do
  out=$(TDDA_REPO=$WT VERIF_SEED=$sd /venv/bin/python harness/vcheck.py $pid --tier quick 2>&1 | grep "^VIOLATION\|^$pid quick\|BROKEN" | tr '\n' ' ')
  echo "$label seed $sd: ${out:0:300}"
  if [ -n "$ADD_CORPUS" ] && [[ "$out" == *VIOLATION* ]] && [[ "$out" != *no-failing-input-found* ]]; then
    cp replays/${pid}_quick_$sd.json /tmp/evalpatch_replay_$$.json
    /venv/bin/python tools/addcorpus.py $pid /tmp/evalpatch_replay_$$.json "$label" 3 2>&1 | grep -v "^Warn" | tail -2
    rm -f /tmp/evalpatch_replay_$$.json
  fi
done
git -C /repo worktree remove --force $WT 2>/dev/null; rm -rf $WT
(cd $V/harness && /venv/bin/python translate.py >/dev/null 2>&1)
