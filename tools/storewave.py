#!/usr/bin/env python3
"""Stores the seeded changes of a wave with three changes per property (SRC/<id>/{a,b,c}, default /tmp/mutout, WAVE default 7)
under seeded/<id>_<WAVE>{a,b,c}, runs the check of the property against each (tools/evalpatch.sh, seeds 0 1 2, failing inputs
added to the regression corpus) and records the outcome in meta.json; with STORE=0 it only evaluates and prints.
Notes on the changes missed at first are read from tools/wave<WAVE>_notes.json when present.
usage: [WAVE=8 SRC=/tmp/mutout8 STORE=0 VERIF_ROOT=<scratch copy>] tools/storewave7.py [ids...]"""
import json
import os
import shutil
import subprocess
import sys

V = '/verif'
ROOT = os.environ.get('VERIF_ROOT', V)     # where the checks run (a scratch copy of /verif for parallel workers)
SRC = os.environ.get('SRC', '/tmp/mutout')
WAVE = os.environ.get('WAVE', '7')
STORE = os.environ.get('STORE', '1') == '1'

# what was missing when the change was written, and what was strengthened (only for those missed at first)
NOTES = {
    'C01a': 'no string held a Unicode line-boundary character; strengthened: U+2028 / U+2029 / U+0085 strings in the frame pool',
    'C01c': 'no family of codes in which the shortest shape ends at the common fixed fragment; strengthened: the "codes" and '
            '"continuing shapes" families of frames (id:, id:1 ...)',
    'C02c': 'the tabular form was only compared on present kinds; strengthened: null-cell clause of to_frame for kinds a field '
            'has no constraint of',
    'C05a': 'no text cell spelt like one of pandas\' default null markers; strengthened: NA / n/a / null / None cells and a forced '
            'na-text family through the file entry points',
    'C05c': 'no reference file was rewritten and read again at the same path in one process; strengthened: stable reference '
            'directory and a second comparison after the file changes',
    'C06c': 'failing column always last; strengthened: clean last column after a failing one, stale detection file must go',
    'C08b': 'each verification used a fresh connector; strengthened: the table is changed through another connection and verified '
            'again with the same connector',
    'C09a': 'each round trip wrote to a fresh path; strengthened: stable working directory, same path rewritten and verified again',
    'C09c': 'all names and values were in NFC; strengthened: decomposed accents and singleton code points in names and strings',
    'C10a': 'no regenerated text had leading / trailing blank lines with lstrip / rstrip; strengthened: blank-line texts',
    'C10c': 'the pytest options went straight into ref(); strengthened: a stand-in parser applies the registered type= of each '
            'option, kinds with capitals (Graph, CSV)',
    'C11a': 'no command printed $TMPDIR; strengthened: a line holding $TMPDIR/x (two or more runs, printable stream)',
    'C11b': 'no text output undecodable in the detected encoding; strengthened: byte-order mark followed by latin-1 bytes in a '
            '.txt output',
    'C11c': 'fewer than five plausible dates of one shape in a repeatable output; strengthened: six {TODAY} lines',
    'C12a': 'no output file name began with a dot; strengthened: dot files written into watched directories',
    'C12c': 'no alteration touched trailing blanks only; strengthened: trailing-blank alterations of stream lines',
    'C14c': 'bytes examples came as lists only; strengthened: dictionaries of encoded strings with counts (bytes-dict clause)',
    'C15a': 'removals shifted both sides alike; strengthened: the "shift" family (lines removed on one side, then excused and '
            'unexcused pairs)',
    'C15c': 'the temporary directory always existed before the test object; strengthened: in a quarter of the cases it is created '
            'only afterwards',
    'C16b': 'found while evaluating: the unchanged code read headerRowCount into `header` (genuine defect, fix d919626); the change '
            'no longer applies after the fix; header-less dialects (headerRowCount 0, header false, both) are generated',
    'C17a': 'epsilon values above 1 were rare; strengthened: 1.5, 2, 3; reported through the tie of verify_flags (c17.params): '
            'no-failing-input-found under one seed, failing input under the others',
    'C18a': 'bytes examples were not repeated; strengthened: as_bytes cases with repeated examples (counts and coverage clauses)',
    'C19b': 'every name given on the command line resolved; strengthened: missing-name cases (the run must not report success)',
}


def main():
    notes = NOTES
    np_ = os.path.join(V, 'tools', 'wave%s_notes.json' % WAVE)
    if WAVE != '7':
        notes = json.load(open(np_)) if os.path.exists(np_) else {}
    ids = sys.argv[1:] or ['C%02d' % i for i in range(1, 20)]
    for pid in ids:
        for x in 'abc':
            src = os.path.join(SRC, pid, x)
            if not os.path.exists(os.path.join(src, 'patch.diff')):
                print(pid, x, 'no patch')
                continue
            sid = '%s_%s%s' % (pid, WAVE, x)
            dst = os.path.join(V, 'seeded', sid) if STORE else os.path.join('/tmp', 'wave_eval', sid)
            os.makedirs(dst, exist_ok=True)
            for fn in ('patch.diff', 'demo.py'):
                if os.path.exists(os.path.join(src, fn)):
                    shutil.copy(os.path.join(src, fn), os.path.join(dst, fn))
            meta = json.load(open(os.path.join(src, 'meta.json')))
            env = dict(os.environ, ADD_CORPUS='seeded/' + sid) if STORE else dict(os.environ)
            out = subprocess.run([os.path.join(ROOT, 'tools/evalpatch.sh'), pid, os.path.join(dst, 'patch.diff'), sid, '0', '1', '2'],
                                 env=env, capture_output=True, text=True).stdout
            lines = [l for l in out.splitlines() if l.startswith(sid)]
            applies = not any('does not apply' in l for l in lines)
            caught = [l for l in lines if 'VIOLATION' in l]
            nofail = [l for l in caught if 'no-failing-input-found' in l]
            key = pid + x
            meta.update({'breaks_property': pid, 'wave': int(WAVE),
                         'what_i_ran': 'tools/evalpatch.sh %s seeded/%s/patch.diff %s 0 1 2 (scratch worktree of HEAD)' % (pid, sid, sid),
                         'eval': {'applies_to_head': applies, 'seeds': 3, 'violation_under': len(caught),
                                  'no_failing_input_under': len(nofail)}})
            if not applies:
                res = 'not applicable any more: ' + notes.get(key, 'the code changed since')
            elif key in notes:
                res = ('not caught by the checks as they stood when the change was written: ' + notes[key] +
                       '; now VIOLATION under %d of 3 seeds before its failing inputs joined the regression corpus' % len(caught))
            else:
                res = 'caught by the checks as they stood: VIOLATION under %d of 3 seeds' % len(caught)
            meta['result'] = res
            meta['caught_by'] = [pid] if caught else []
            json.dump(meta, open(os.path.join(dst, 'meta.json'), 'w'), indent=1, ensure_ascii=False)
            if not STORE:
                for l in lines:
                    print('   ', l[:330], flush=True)
            print(sid, 'applies' if applies else 'NOAPPLY', 'caught %d/3' % len(caught), 'nofail %d' % len(nofail), flush=True)
            for l in out.splitlines():
                if 'corpus' in l.lower():
                    print('   ', l[:200], flush=True)


if __name__ == '__main__':
    main()
