#!/bin/bash
# usage: tools/sweep.sh [first seed] [last seed] [ids...]  - all quick checks on the unchanged tree for a range of seeds;
# prints only the runs that do not exit 0 (there should be none)
cd /verif
a=${1:-0}; b=${2:-7}; shift 2 2>/dev/null
ids=${@:-C01 C02 C03 C04 C05 C06 C07 C08 C09 C10 C11 C12 C13 C14 C15 C16 C17 C18 C19}
for sd in $(seq $a $b); do
  for c in $ids; do
    out=$(VERIF_SEED=$sd /venv/bin/python harness/vcheck.py $c --tier quick 2>&1); rc=$?
    if [ $rc -ne 0 ]; then echo "seed $sd $c rc=$rc"; echo "$out" | grep "^VIOLATION\|BROKEN\|HARNESS\|$c quick" | cut -c1-400; cp replays/${c}_quick_$sd.json /tmp/sweepfail_${c}_$sd.json 2>/dev/null; fi
  done
  echo "seed $sd done"
done
echo sweep-done
