#!/venv/bin/python
"""For every listed (status known) finding whose recorded input is missing, unusable or no longer failing,
search the property's own generator for a case that fails with that key and record it (smallest found)."""
import importlib, json, os, random, sys
VERIF = os.path.dirname(os.path.dirname(os.path.abspath(__file__)))
sys.path.insert(0, os.path.join(VERIF, 'harness'))
import core
core.setup_repo_path()
p = os.path.join(VERIF, 'known_findings.json')
d = json.load(open(p))
lst = d['findings'] if isinstance(d, dict) else d
for f in lst:
    if f['status'] != 'known':
        continue
    mod = importlib.import_module('props.' + f['property'].lower())
    prop = mod.PROP('quick', 0)
    def fails(case):
        try:
            prop.prepare([case])
            return any(x.key == f['key'] for x in prop.oracle(case))
        except Exception:
            return False
    if isinstance(f.get("input"), dict) and fails(prop.revive(f["input"])):
        print(f['property'], f['key'], 'recorded input ok')
        continue
    best = None
    cands = list(prop.corpus())
    rng = random.Random(12345)
    for i in range(4000):
        if i < len(cands):
            c = cands[i]
        else:
            c = prop.gen_case(rng, i)
        if fails(c):
            size = len(json.dumps(c, default=str))
            if best is None or size < best[0]:
                best = (size, c)
                if size < 600:
                    break
    if best:
        f['input'] = json.loads(json.dumps(best[1], default=str))
        print(f['property'], f['key'], 'recorded new input of', best[0], 'chars')
    else:
        print(f['property'], f['key'], 'NO failing input found by the generator')
json.dump(d, open(p, 'w'), indent=1, ensure_ascii=False)
