#!/bin/bash
# usage: WAVE=8 SRC=/tmp/mutout8 STORE=0|1 tools/parwave.sh   - evaluates (and with STORE=1 stores) a wave of seeded changes with
# six workers, each on its own scratch copy of /verif (removed afterwards); corpus additions of the copies are merged back.
cd /verif
groups=("C17 C01" "C12 C18 C16" "C02 C03 C04 C15" "C11 C05 C07 C13" "C19 C06 C08" "C09 C10 C14")
k=0
for g in "${groups[@]}"; do
  k=$((k+1)); rm -rf /tmp/vpar_$k; cp -a /verif /tmp/vpar_$k
  VERIF_ROOT=/tmp/vpar_$k python3 /tmp/vpar_$k/tools/storewave.py $g > /tmp/parwave_$k.log 2>&1 &
done
wait      # (the workers are jobs of this shell)
python3 - <<'PY'
import json, glob, os
tot = 0
for k in range(1, 7):
    for f in glob.glob('/tmp/vpar_%d/corpus/*.jsonl' % k):
        dst = '/verif/corpus/' + os.path.basename(f)
        have = set()
        if os.path.exists(dst):
            have = {json.dumps(json.loads(l)['case'], sort_keys=True, default=str) for l in open(dst) if l.strip()}
        add = []
        for l in open(f):
            if l.strip():
                key = json.dumps(json.loads(l)['case'], sort_keys=True, default=str)
                if key not in have:
                    have.add(key); add.append(l if l.endswith('\n') else l + '\n')
        if add:
            open(dst, 'a').writelines(add); tot += len(add)
print('corpus entries merged:', tot)
PY
rm -rf /tmp/vpar_*
git -C /repo worktree prune
cat /tmp/parwave_*.log | grep -v "^    "
echo parwave-done
