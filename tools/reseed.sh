#!/bin/bash
# Regression suite for the checks themselves: every stored seeded change that still applies to /repo HEAD is applied
# in a scratch worktree and the check of its property is run against it; it must report a VIOLATION.
# usage: tools/reseed.sh [ids...]     (default: all of seeded/*)
V=${VERIF_ROOT:-/verif}
cd $V
ids=${@:-$(ls seeded)}
WT=/tmp/reseed_wt_$$
for sid in $ids; do
  pid=${sid%%_*}
  git -C /repo worktree remove --force $WT 2>/dev/null; rm -rf $WT
  git -C /repo worktree add -q --detach $WT HEAD || { echo "$sid: cannot create worktree"; continue; }
  if ! git -C $WT apply --check $V/seeded/$sid/patch.diff 2>/dev/null; then
    echo "$sid: patch no longer applies to HEAD (code changed since) - skipped"; continue
  fi
  git -C $WT apply $V/seeded/$sid/patch.diff
  out=$(TDDA_REPO=$WT /venv/bin/python harness/vcheck.py $pid --tier quick 2>&1 | grep "^VIOLATION\|^$pid quick" | tr '\n' ' ')
  case "$out" in
    *"no-failing-input-found"*) echo "$sid: CAUGHT (no failing input) :: ${out:0:200}";;
    *"VIOLATION"*) echo "$sid: CAUGHT with failing input";;
    *) echo "$sid: MISSED :: ${out:0:300}";;
  esac
done
git -C /repo worktree remove --force $WT 2>/dev/null; rm -rf $WT
(cd $V/harness && /venv/bin/python translate.py >/dev/null 2>&1)
echo reseed-done
