#!/bin/bash
# usage: tools/evalstored.sh SID [seeds...]   - applies seeded/SID/patch.diff to a scratch worktree of /repo HEAD and runs
# the check of its property for several seeds; with ADD_CORPUS=1 the failing inputs found are added to the regression corpus
SID=$1; shift; seeds=${@:-0 1 2}
pid=${SID%%_*}
cd /verif
WT=/tmp/evalstored_wt_$SID
git -C /repo worktree remove --force $WT 2>/dev/null; rm -rf $WT
git -C /repo worktree add -q --detach $WT HEAD || exit 2
if ! git -C $WT apply /verif/seeded/$SID/patch.diff 2>/dev/null; then echo "$SID: patch does not apply"; git -C /repo worktree remove --force $WT; exit 0; fi
for sd in $seeds; do
  out=$(TDDA_REPO=$WT VERIF_SEED=$sd /venv/bin/python harness/vcheck.py $pid --tier quick 2>&1 | grep "^VIOLATION\|^$pid quick\|BROKEN" | tr '\n' ' ')
  echo "$SID seed $sd: ${out:0:330}"
  if [ -n "$ADD_CORPUS" ] && [[ "$out" == *VIOLATION* ]] && [[ "$out" != *no-failing-input-found* ]]; then
    cp replays/${pid}_quick_$sd.json /tmp/evalstored_replay_$SID.json
    /venv/bin/python tools/addcorpus.py $pid /tmp/evalstored_replay_$SID.json seeded/$SID 3 2>&1 | grep -v "^Warn" | tail -3
    rm -f /tmp/evalstored_replay_$SID.json
  fi
done
git -C /repo worktree remove --force $WT 2>/dev/null; rm -rf $WT
(cd /verif/harness && /venv/bin/python translate.py >/dev/null 2>&1)
