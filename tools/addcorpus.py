#!/venv/bin/python
"""Add the failing input(s) of a replay file to the committed regression corpus of a property.
usage: tools/addcorpus.py <Cxx> <replay.json> <source label> [max]
An entry is added only if, on the unchanged /repo, the property's oracle accepts it (no failure, no crash):
the corpus never makes the clean tree alarm.  Duplicates are skipped."""
import json
import os
import sys

sys.path.insert(0, os.path.join(os.path.dirname(os.path.abspath(__file__)), '..', 'harness'))
os.environ.pop('TDDA_REPO', None)
import core  # noqa: E402
import importlib  # noqa: E402


def main():
    pid, replay, label = sys.argv[1:4]
    mx = int(sys.argv[4]) if len(sys.argv) > 4 else 2
    with open(replay) as f:
        rj = json.load(f)
    cases = []
    if 'case' in rj:
        cases.append(rj['case'])
    cases += [x['case'] for x in rj.get('failures', []) if 'case' in x]
    fd = rj.get('first_disagreement')
    if fd and 'case' in fd:
        cases.append(fd['case'])
    if not cases:
        print('%s: no case in %s' % (pid, replay))
        return 0
    mod = importlib.import_module('props.' + pid.lower())
    prop = mod.PROP('quick', 0)
    path = os.path.join(core.CORPUS_DIR, pid + '.jsonl')
    os.makedirs(core.CORPUS_DIR, exist_ok=True)
    have = set()
    if os.path.exists(path):
        have = {json.dumps(json.loads(l)['case'], sort_keys=True, default=str) for l in open(path) if l.strip()}
    added = 0
    for c in cases:
        if added >= mx:
            break
        key = json.dumps(c, sort_keys=True, default=str)
        if key in have:
            continue
        try:
            rc = prop.revive(json.loads(json.dumps(c, default=str)))
            prop.prepare([rc])
            fs = [f for f in prop.oracle(rc)]
            known = {k['key'] for k in core.load_known() if k.get('property') == pid and k.get('status') == 'known'}
            fs = [f for f in fs if f.key not in known]
        except Exception as e:   # noqa
            print('%s: case not usable on the clean tree (%r) - skipped' % (pid, e))
            continue
        if fs:
            print('%s: case fails on the clean tree (%s) - NOT added; look at it' % (pid, fs[0].key))
            continue
        with open(path, 'a') as f:
            f.write(json.dumps({'case': json.loads(json.dumps(c, default=str)), 'from': label}, sort_keys=True, ensure_ascii=False) + '\n')
        have.add(key)
        added += 1
    print('%s: %d case(s) added from %s' % (pid, added, label))
    return 0


if __name__ == '__main__':
    sys.exit(main())
