#!/usr/bin/env python3
"""Runs the pinned test suite in /repo (guard off) and compares with BASELINE.json stable_pass."""
import json, subprocess, sys, tempfile, os, xml.etree.ElementTree as ET
repo = sys.argv[1] if len(sys.argv) > 1 else '/repo'
b = json.load(open('/root/.vp/BASELINE.json'))
with tempfile.TemporaryDirectory() as d:
    x = os.path.join(d, 'j.xml')
    env = dict(os.environ); env.pop('TDDA_VERIF', None)
    subprocess.run(['/venv/bin/python', '-m', 'pytest', '-ra', '-q', '-p', 'no:cacheprovider', '--timeout=900',
                    '--continue-on-collection-errors', '--junitxml=' + x], cwd=repo, stdout=subprocess.DEVNULL,
                   stderr=subprocess.DEVNULL, env=env)
    passed = set()
    for tc in ET.parse(x).getroot().iter('testcase'):
        if not any(c.tag in ('failure', 'error', 'skipped') for c in tc):
            passed.add('%s::%s' % (tc.get('classname'), tc.get('name')))
missing = [t for t in b['stable_pass'] if t not in passed]
print('passed %d, stable baseline %d, missing %d' % (len(passed), len(b['stable_pass']), len(missing)))
for t in missing: print('  MISSING', t)
sys.exit(1 if missing else 0)
