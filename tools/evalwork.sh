#!/bin/bash
# usage: tools/evalwork.sh PID SRCDIR-OR-PATCH LABEL [seeds...]  - evalpatch on a scratch copy of /verif (/tmp/vwork, synced first),
# so that evaluations never touch lean/Generated of /verif itself
rsync -a --delete --exclude .git /verif/ /tmp/vwork/
pid=$1; patch=$2; label=$3; shift 3
VERIF_ROOT=/tmp/vwork /tmp/vwork/tools/evalpatch.sh $pid $patch $label "$@"
