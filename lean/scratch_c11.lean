import TddaVerif.Model.Gentest
open TddaVerif.Gentest
#eval [0,9,10,100,1234567890].map (fun n => String.ofList (natText n))
def tn (l : List String) := (testNames isAsciiAlnum {} (l.map String.toList)).map String.ofList
#eval tn ["stdout","stdout","a.b","a_b","a_b2","a_b", "", "", "stdout2", "stdout", "stdout3","stdout"]
#eval tn ["a_b2","a.b","a_b","a_b"]
#eval (plan isAsciiAlnum true false [("stdout".toList,true),("a.b".toList,false),("a_b".toList,true)]).map (fun t => (String.ofList t.name, t.kind, String.ofList t.subject))
#eval [possibleDate 2000 2 29, possibleDate 1900 2 29, possibleDate 2004 2 29, possibleDate 2001 2 29, possibleDate 0 1 1, possibleDate 10000 1 1, possibleDate 2000 13 1, possibleDate 2000 1 0, possibleDate 2000 4 31, possibleDate 400 2 29]
#eval bump "a".toList ["a1".toList,"a2".toList] 3 0
#eval bump "a".toList ["a1".toList,"a2".toList, "a3".toList, "a4".toList] 5 0
