import TddaVerif.Drv.Util
import TddaVerif.Drv.C18
import TddaVerif.Drv.C16
import TddaVerif.Drv.C04
import TddaVerif.Drv.C19
import TddaVerif.Drv.Cx
import TddaVerif.Drv.C09
import TddaVerif.Drv.Rx
import TddaVerif.Drv.C05
import TddaVerif.Drv.Sql
import TddaVerif.Drv.C17
import TddaVerif.Drv.Gt
import TddaVerif.Drv.Report
import TddaVerif.Drv.TmpDir
open Lean TddaVerif.Drv

def handlers : List (String → Json → Option (R Json)) :=
  [TddaVerif.Drv.C18.handle, TddaVerif.Drv.C16.handle, TddaVerif.Drv.C04.handle, TddaVerif.Drv.C19.handle, TddaVerif.Drv.Cx.handle, TddaVerif.Drv.C09.handle, TddaVerif.Drv.Rx.handle, TddaVerif.Drv.C05.handle, TddaVerif.Drv.Sql.handle, TddaVerif.Drv.C17.handle, TddaVerif.Drv.Gt.handle, TddaVerif.Drv.Report.handle, TddaVerif.Drv.TmpDir.handle]

def dispatch (j : Json) : Json :=
  match j.getObjVal? "op" >>= Json.getStr? with
  | .error e => exc s!"bad-op: {e}"
  | .ok op =>
    match handlers.findSome? (fun h => h op j) with
    | none => exc s!"unknown-op: {op}"
    | some (.ok r) => ok r
    | some (.error e) => exc e

partial def loop (h : IO.FS.Stream) (out : IO.FS.Stream) : IO Unit := do
  let line ← h.getLine
  if line.isEmpty then return ()
  match Json.parse line with
  | .ok j => out.putStrLn (dispatch j).compress
  | .error e => out.putStrLn (exc s!"parse: {e}").compress
  loop h out

def main : IO Unit := do
  loop (← IO.getStdin) (← IO.getStdout)
