-- Root of the `TddaVerif` library: models, property theorems, driver handlers.
import TddaVerif.Model.Coverage
import TddaVerif.Drv.C18
import TddaVerif.Py.Str
import TddaVerif.Model.Csvw
import TddaVerif.Generated.Csvw
import TddaVerif.Drv.C16
import TddaVerif.Props.C16
import TddaVerif.Py.Text
import TddaVerif.Model.CheckStrings
import TddaVerif.Drv.C04
import TddaVerif.Model.RefTestCase
import TddaVerif.Drv.C19
import TddaVerif.Model.Regen
import TddaVerif.Model.Constraints
import TddaVerif.Drv.Cx
import TddaVerif.Model.TddaFile
import TddaVerif.Drv.C09
