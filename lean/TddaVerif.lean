-- Root of the `TddaVerif` library: models, property theorems, driver handlers.
import TddaVerif.Model.Coverage
import TddaVerif.Drv.C18
