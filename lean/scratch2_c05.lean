import TddaVerif.Model.CheckPandas
import TddaVerif.Props.C05Spec
namespace TddaVerif.Props.C05.Lemmas
open TddaVerif.Py TddaVerif.CheckPandas TddaVerif.Props.C05

theorem typesMatch_iff (a b : Line) (level : Level) : typesMatch a b level = true ↔ TypesAgree a b level := by
  unfold typesMatch TypesAgree
  by_cases hab : a = b
  · subst hab; simp
  · cases level <;> simp [hab, or_assoc]

theorem eraseDups_eq_nil {α} [BEq α] (l : List α) : l.eraseDups = [] ↔ l = [] := by
  cases l with
  | nil => simp
  | cons a as => simp [List.eraseDups_cons]

theorem map_name_cat (l : List Col) : (l.map catAsString).map (·.name) = l.map (·.name) := by
  rw [List.map_map]
  apply List.map_congr_left
  intro c _
  simp only [Function.comp, catAsString]
  split <;> rfl


theorem same_iff (act ref : List Col) (ct ce : Flag) (co : Option Flag) (level : Level) :
    (structureOf act ref ct ce co level).same = true ↔
      (∀ c ∈ resolve ct (ref.map (·.name)), c ∈ act.map (·.name) ∧ c ∈ ref.map (·.name) ∧
            ∀ ta tr, dtypeC act c = some ta → dtypeC ref c = some tr → TypesAgree ta tr level) ∧
      (∀ c ∈ resolve ce (act.map (·.name)), c ∈ ref.map (·.name)) ∧
      (∀ f, co = some f →
        (act.map (·.name)).filter (fun c => (resolve f (ref.map (·.name))).contains c && (ref.map (·.name)).contains c)
        = (ref.map (·.name)).filter (fun c => (resolve f (ref.map (·.name))).contains c && (act.map (·.name)).contains c)) := by
  unfold Structure.same structureOf
  simp only [map_name_cat, Bool.and_eq_true, List.isEmpty_iff, List.filter_eq_nil_iff, eraseDups_eq_nil,
    List.append_eq_nil_iff, ← typesMatch_iff, dtypeC]
  generalize List.map (fun x => x.name) act = an
  generalize List.map (fun x => x.name) ref = rn
  generalize resolve ct rn = CT
  generalize resolve ce an = CE
  generalize dtypeOf (List.map catAsString act) = A
  generalize dtypeOf (List.map catAsString ref) = R
  constructor
  · rintro ⟨⟨⟨hmiss, hextra, hunexp⟩, hwrong⟩, hord⟩
    have hmiss' : ∀ a ∈ CT, a ∈ an := fun a ha => by simpa using hmiss a ha
    have hnil : List.filter (fun c => !an.contains c) CT = [] := by
      simp only [List.filter_eq_nil_iff]; exact hmiss
    refine ⟨fun c hc => ⟨hmiss' c hc, ?_, ?_⟩, ?_, ?_⟩
    · have := hunexp c hc
      simpa [hmiss' c hc] using this
    · intro ta tr hta htr
      have := hwrong c hc
      simpa [hmiss' c hc, hta, htr] using this
    · intro c hc; simpa using hextra c hc
    · intro f hf
      subst hf
      simpa [hnil] using hord
  · rintro ⟨htypes, hextra, hord⟩
    have hnil : List.filter (fun c => !an.contains c) CT = [] := by
      simp only [List.filter_eq_nil_iff]
      intro a ha; simp [(htypes a ha).1]
    refine ⟨⟨⟨?_, ?_, ?_⟩, ?_⟩, ?_⟩
    · intro a ha; simp [(htypes a ha).1]
    · intro a ha; simp [hextra a ha]
    · intro a ha; simp [(htypes a ha).2.1]
    · intro a ha
      have h3 := (htypes a ha).2.2
      cases hA : A a <;> cases hR : R a <;> simp
      rename_i ta tr
      intro _
      exact h3 ta tr hA hR
    · cases co with
      | none => simp
      | some f => simpa [hnil] using hord f rfl

end TddaVerif.Props.C05.Lemmas
