/-
Model of the regeneration decision in tdda/referencetest/referencetest.py:
every assertion first asks `_should_regenerate(kind)` (:941-948); if so it writes the
reference (`_write_reference_result` :976-989, `_write_reference_file` :950-962) and
performs no comparison; otherwise it compares and never touches the reference.
Text files are read with universal newlines (open(..., 'r')).
-/
import TddaVerif.Model.RefTestCase
import TddaVerif.Model.CheckStrings
namespace TddaVerif.Regen
open TddaVerif.Py TddaVerif.RefTestCase TddaVerif.CheckStrings

/-- what `open(path).read()` returns for the bytes of `s` (universal newlines) -/
def universal : Line → Line
  | [] => []
  | '\r' :: '\n' :: cs => '\n' :: universal cs
  | c :: cs => (if c == '\r' then '\n' else c) :: universal cs

inductive Outcome | regenerated | passed | failed
deriving Repr, DecidableEq

structure Step where
  /-- content of the reference file afterwards (`none` = absent) -/
  ref : Option Line
  outcome : Outcome
deriving Repr, DecidableEq

/-- assertStringCorrect (:659-761): `actual` is the string, `ref` the reference file content -/
def assertString (t : RegenTable) (kind : Option Arg) (o : Opts) (pat : PatFn)
    (actual : Line) (ref : Option Line) : Step :=
  if shouldRegenerate t kind then { ref := some actual, outcome := .regenerated }
  else match ref with
    | none => { ref := none, outcome := .failed }
    | some r =>
      { ref := some r,
        outcome := if (checkStrings { o with actualPath := false } pat (splitlines actual)
                        (splitlines (universal r))).failures == 0 then .passed else .failed }

/-- assertTextFileCorrect (:763-826): the actual is a file; regeneration copies its text
    as read with universal newlines -/
def assertTextFile (t : RegenTable) (kind : Option Arg) (o : Opts) (pat : PatFn)
    (actualFile : Line) (ref : Option Line) : Step :=
  if shouldRegenerate t kind then { ref := some (universal actualFile), outcome := .regenerated }
  else match ref with
    | none => { ref := none, outcome := .failed }
    | some r =>
      { ref := some r,
        outcome := if (checkStrings { o with actualPath := true } pat (splitlines (universal actualFile))
                        (splitlines (universal r))).failures == 0 then .passed else .failed }

/-- assertBinaryFileCorrect (:895-918), contents as byte lists -/
structure BStep where
  ref : Option (List Nat)
  outcome : Outcome
deriving Repr, DecidableEq

def assertBinaryFile (t : RegenTable) (kind : Option Arg) (actual : List Nat) (ref : Option (List Nat)) : BStep :=
  if shouldRegenerate t kind then { ref := some actual, outcome := .regenerated }
  else match ref with
    | none => { ref := none, outcome := .failed }
    | some r => { ref := some r, outcome := if r == actual then .passed else .failed }

/-- the table after a history of `set_regeneration(kind, value)` calls -/
def applySets (t : RegenTable) (ops : List (Option Arg × Bool)) : RegenTable :=
  ops.foldl (fun t op => setRegeneration t op.1 op.2) t

end TddaVerif.Regen
