/-
Model of the exclusion rule of tdda/referencetest/gentest.py for a command that gives the same output on every run:
check_for_specific_references (:400-433) and update_exclusions_with_specifics (:331-399). The date detectors
(is_date_like with the window of the run, is_datetime_like, find_specific_dates_in_line, find_specific_datetimes_in_line)
are inputs: their regular expressions are not modelled, what is modelled is what the generator does with their answers.
-/
import TddaVerif.Py.Text
namespace TddaVerif.Gentest
open TddaVerif.Py

/-- what the generator knows about the machine, the user and the run (TestGenerator.__init__ :154-162) -/
structure Env where
  host : Line
  /-- `ip_address`; `none` when the host name does not resolve (an empty string is never looked for either) -/
  ip : Option Line
  cwd : Line
  homedir : Line
  user : Line
  /-- `TMPDIR` when the shell variable is in use (`tmp_dir_shell_var`) -/
  tmpdir : Option Line
  /-- `self.user in self.homedir` -/
  userInHome : Bool
  /-- `self.cwd.startswith(self.homedir)` -/
  cwdInHome : Bool

/-- one line of a reference file with what the date detectors report about it (their answers are inputs of the
    model: the regular expressions behind them are not modelled) -/
structure LineInfo where
  text : Line
  /-- `is_date_like(line, plausible=True)`: the line holds a date within a day of the generation run -/
  plausibleDate : Bool
  /-- `is_datetime_like(line)` -/
  dtLike : Bool
  /-- `find_specific_dates_in_line(line)` -/
  dates : List Line
  /-- `find_specific_datetimes_in_line(line)` -/
  dts : List Line

/-- Specifics (:89-110) of a line that check_for_specific_references (:400-433) keeps -/
structure Spec where
  host : Bool
  ip : Bool
  cwd : Bool
  homedir : Bool
  tmpdir : Bool
  user : Bool
  datelike : Bool
  dtlike : Bool
  info : LineInfo

/-- check_for_specific_references on one line: `none` when nothing about the line is specific -/
def specOf (env : Env) (l : LineInfo) : Option Spec :=
  let dtlike := l.plausibleDate && l.dtLike
  let datelike := l.plausibleDate && !dtlike
  let host := contains l.text env.host
  let ip := match env.ip with
    | some a => !a.isEmpty && contains l.text a
    | none => false
  let cwd := contains l.text env.cwd
  let homedir := contains l.text env.homedir
  let tmpdir := match env.tmpdir with
    | some t => contains l.text t
    | none => false
  let user := contains l.text env.user && !(homedir && env.userInHome)
  if datelike || dtlike || host || ip || cwd || homedir || tmpdir || user then
    some { host, ip, cwd, homedir, tmpdir, user, datelike, dtlike, info := l }
  else none

/-- MAX_SPECIFIC_DATE_VARIANTS -/
def maxDateVariants : Nat := 5

structure Excl where
  /-- `ignore_substrings` of the generated test -/
  substrings : List Line
  /-- the dates found were too many to list: they go through rexpy into `ignore_patterns` instead -/
  datesToRex : List Line
deriving Repr, DecidableEq

/-- update_exclusions_with_specifics (:331-399) for a command that gives the same output on every run
    (no differing lines: `common`, `removals` and the per-line `rex_inputs` / `remove` / `substring` are all empty) -/
def exclusionsOfSpecs (env : Env) (specs : List Spec) : Excl :=
  let tok (flag : Spec → Bool) (v : Option Line) : List Line :=
    match v with
    | some s => if specs.any flag then [s] else []
    | none => []
  let tokens :=
    tok (·.host) (some env.host) ++ tok (·.ip) env.ip ++ tok (·.cwd) (some env.cwd) ++ tok (·.user) (some env.user) ++
    -- ('homedir' only produces a warning)
    tok (·.tmpdir) env.tmpdir
  let extradates := (specs.filter (·.datelike)).flatMap (·.info.dates)
  let extradts := (specs.filter (·.dtlike)).flatMap (·.info.dts)
  if extradates.length + extradts.length < maxDateVariants then
    { substrings := tokens ++ extradates ++ extradts, datesToRex := [] }
  else
    { substrings := tokens, datesToRex := extradates ++ extradts }

/-- generate_exclusions (:237-256) for one text reference file of a repeatable command: nothing at all with a
    single run -/
def exclusions (env : Env) (iterations : Nat) (lines : List LineInfo) : Excl :=
  if iterations < 2 then { substrings := [], datesToRex := [] }
  else exclusionsOfSpecs env (lines.filterMap (specOf env))

end TddaVerif.Gentest
