/-
Model of the rexpy extraction pipeline (tdda/rexpy/rexpy.py), batch path:
  Extractor.clean (:633-665), coarse classification and run-length encoding (:733-760, :1775-1795),
  to_vrles (:1807-1850), analyse_fragments / refine_fragments / rle_fc_c / fine_class (:1000-1190),
  expand_or_falsify_vrle (:2404-2478), plusify (:1858-1873), merge_patterns (net effect: stable sort
  by length, :761-777 / :896-902), find_non_matches / find_bad_patterns (:957-982, :592-614),
  Categories (:233-330) as semantic character classes.

The regular-expression engine is NOT trusted blindly: the three Unicode-dependent classes \w, \d, \s
are a parameter (`CharTable`), everything else about matching is defined here (`Frag`, `matchCap`).
Patterns are kept as ASTs; the text rendering lives in Model/RexpyRender.lean.
-/
import TddaVerif.Py.Text
namespace TddaVerif.Rexpy
open TddaVerif.Py

/-- the Unicode-dependent character classes of Python's `re` (str patterns): `\w`, `\d`, `\s` -/
structure CharTable where
  w : Char → Bool
  d : Char → Bool
  s : Char → Bool

def asciiUpper (c : Char) : Bool := 'A' ≤ c && c ≤ 'Z'
def asciiLower (c : Char) : Bool := 'a' ≤ c && c ≤ 'z'
def asciiDigit (c : Char) : Bool := '0' ≤ c && c ≤ '9'
def hexLower (c : Char) : Bool := asciiDigit c || ('a' ≤ c && c ≤ 'f')
def hexUpper (c : Char) : Bool := asciiDigit c || ('A' ≤ c && c ≤ 'F')

/-- category codes (rexpy.py:251-296) -/
def cLETTER : Char := 'A'
def cletter : Char := 'a'
def cLetter : Char := 'L'
def cULetter : Char := 'Ḹ'
def cLETTER_ : Char := 'B'
def cletter_ : Char := 'b'
def cLetter_ : Char := 'M'
def cULetter_ : Char := 'Ṃ'
def cDigit : Char := 'D'
def chex : Char := 'h'
def cHEX : Char := 'H'
def cHex : Char := 'X'
def cALPHANUMERIC : Char := 'N'
def calphanumeric : Char := 'n'
def cAlphaNumeric : Char := 'C'
def cUAlpha : Char := 'Ḉ'
def cWhite : Char := ' '
def cPunc : Char := '.'
def cOther : Char := '*'
def cAny : Char := '?'

/-- `extra_letters` as normalised by Categories.__init__: the members of `_.-` present, in that order -/
def normExtras (e : List Char) : List Char := ['_', '.', '-'].filter (fun c => e.contains c)

/-- membership in the category with the given code, for (normalised) extra letters `E`,
    as Python's `re` reads the category's `re_string` under UNICODE|DOTALL -/
def inCat (T : CharTable) (E : List Char) (code c : Char) : Bool :=
  let inc := E.filter (· != '_')
  let us := E.contains '_'
  if code == cLETTER then asciiUpper c
  else if code == cletter then asciiLower c
  else if code == cLetter then asciiUpper c || asciiLower c
  else if code == cULetter then T.w c && !asciiDigit c && c != '_'
  else if code == cLETTER_ then asciiUpper c || E.contains c
  else if code == cletter_ then asciiLower c || E.contains c
  else if code == cLetter_ then asciiUpper c || asciiLower c || E.contains c
  else if code == cULetter_ then (T.w c && !asciiDigit c && (c != '_' || us)) || inc.contains c
  else if code == cDigit then T.d c
  else if code == chex then hexLower c
  else if code == cHEX then hexUpper c
  else if code == cHex then hexLower c || hexUpper c
  else if code == cALPHANUMERIC then asciiUpper c || asciiDigit c || E.contains c
  else if code == calphanumeric then asciiLower c || asciiDigit c || E.contains c
  else if code == cAlphaNumeric then asciiUpper c || asciiLower c || asciiDigit c || E.contains c
  else if code == cUAlpha then (T.w c && (c != '_' || us)) || inc.contains c
  else if code == cWhite then T.s c
  else if code == cPunc then
    32 ≤ c.toNat && c.toNat ≤ 126 &&
      !(asciiUpper c || asciiLower c || asciiDigit c || T.s c || E.contains c)
  else if code == cOther then !(33 ≤ c.toNat && c.toNat ≤ 126) && !T.s c
  else if code == cAny then true
  else false

/-- coarse_classify_char (:739-748) -/
def coarse (T : CharTable) (E : List Char) (c : Char) : Char :=
  if inCat T E cUAlpha c then cUAlpha
  else if inCat T E cWhite c then cWhite
  else if inCat T E cPunc c then cPunc
  else cOther

/-- run_length_encode (:1775-1795) -/
def rleAux : List Char → Char → Nat → List (Char × Nat)
  | [], last, n => [(last, n)]
  | c :: cs, last, n => if c == last then rleAux cs last (n + 1) else (last, n) :: rleAux cs c 1

def rle : List Char → List (Char × Nat)
  | [] => []
  | c :: cs => rleAux cs c 1

def maxGroups : Nat := 99
def maxVrleRange : Nat := 2

/-- run_length_encode_coarse_classes (:750-759) -/
def coarseRle (T : CharTable) (E : List Char) (s : Line) : List (Char × Nat) :=
  let r := rle (s.map (coarse T E))
  if r.length ≤ maxGroups then r else rle (s.map (fun _ => cAny))

def sigOf {β} (r : List (Char × β)) : List Char := r.map (·.1)

/-! ### patterns -/

/-- what a fragment matches one character (or one string) against -/
inductive Atom
  /-- a category, by code -/
  | code (k : Char)
  /-- `escape(s)` of one whole string (used with m = M = 1) -/
  | escStr (s : Line)
  /-- `escape(c)` of one character -/
  | escChar (c : Char)
  /-- a character used as a regex as it stands (from the same-characters analysis) -/
  | rawChar (c : Char)
  /-- `escaped_bracket` of a set of punctuation characters -/
  | bracket (cs : List Char)
deriving DecidableEq, Repr

/-- (atom, m, M[, 'fixed']) -/
structure Frag where
  atom : Atom
  m : Nat
  M : Option Nat
  fixed : Bool
deriving DecidableEq, Repr

abbrev Pattern := List Frag

/-- the lower bound the rendered quantifier really imposes: with `M = None` the text is `*` / `+` -/
def Frag.lo (f : Frag) : Nat := match f.M with | none => min f.m 1 | some _ => f.m

/-- does the atom accept this one character? (`escStr` is handled separately) -/
def atomChar (T : CharTable) (E : List Char) : Atom → Char → Bool
  | .code k, c => inCat T E k c
  | .escStr _, _ => false
  | .escChar x, c => x == c
  | .rawChar x, c => x == '.' || x == c
  | .bracket cs, c => cs.contains c

/-- greedy, backtracking match of a list of fragments against a string, returning what each
    fragment captured — the way `re.match` treats `(a{m,M})(b{m,M})…$`.
    `k` counts down the number of characters the current fragment still tries to take. -/
def takeUpTo (p : Char → Bool) : Nat → Line → Nat
  | 0, _ => 0
  | _ + 1, [] => 0
  | n + 1, c :: cs => if p c then takeUpTo p n cs + 1 else 0

def isPrefixStr : Line → Line → Bool := isPrefix

mutual
  /-- match fragments `fs` against `s` -/
  def matchCap (T : CharTable) (E : List Char) : List Frag → Line → Option (List Line)
    | [], s => if s.isEmpty then some [] else none
    | f :: fs, s =>
      match f.atom with
      | .escStr lit =>
        -- a literal string, taken whole (its own quantifier is {1,1})
        if isPrefixStr lit s then (matchCap T E fs (s.drop lit.length)).map (fun r => lit :: r) else none
      | a =>
        let avail := takeUpTo (atomChar T E a) (match f.M with | some M => M | none => s.length) s
        tryCounts T E f fs s avail
  /-- try to let fragment `f` take `k`, `k-1`, …, `f.m` characters -/
  def tryCounts (T : CharTable) (E : List Char) (f : Frag) (fs : List Frag) (s : Line) : Nat → Option (List Line)
    | 0 => if f.lo == 0 then (matchCap T E fs s).map (fun r => [] :: r) else none
    | k + 1 =>
      if k + 1 < f.lo then none
      else match matchCap T E fs (s.drop (k + 1)) with
        | some r => some (s.take (k + 1) :: r)
        | none => tryCounts T E f fs s k
end

/-- does the pattern match the whole string? -/
def matchB (T : CharTable) (E : List Char) (p : Pattern) (s : Line) : Bool := (matchCap T E p s).isSome

/-! ### cleaning -/

structure Cleaned where
  strings : List Line
  freqs : List Nat
  nStripped : Nat
deriving Repr, DecidableEq

def bump (k : Line) (n : Nat) : List (Line × Nat) → List (Line × Nat)
  | [] => [(k, n)]
  | (k', m) :: rest => if k' == k then (k', m + n) :: rest else (k', m) :: bump k n rest

/-- Extractor.clean (:633-665): a Counter in first-occurrence order -/
def clean (stripOpt removeEmpties : Bool) (items : List (Option Line × Nat)) : Cleaned :=
  let (acc, ns) := items.foldl (fun (st : List (Line × Nat) × Nat) it =>
    match it.1 with
    | none => st
    | some s =>
      if it.2 == 0 then st
      else
        let t := if stripOpt then strip s else s
        if removeEmpties && t.isEmpty then st
        else (bump t it.2 st.1, if t.length != s.length then st.2 + it.2 else st.2)) ([], 0)
  { strings := acc.map (·.1), freqs := acc.map (·.2), nStripped := ns }

/-- thin_extras (:624-631) followed by the normalisation of Categories.__init__ -/
def thinExtras (extras : List Char) (strings : List Line) : List Char :=
  if extras.length ≤ 1 then normExtras extras
  else normExtras (extras.filter (fun l => strings.any (fun s => s.contains l)))

/-! ### variable run-length encodings -/

abbrev Vrle := List (Char × Nat × Option Nat)

def groupBySig : List (List (Char × Nat)) → List (List Char × List (List (Char × Nat)))
  | [] => []
  | r :: rs =>
    let rest := groupBySig rs
    let sg := sigOf r
    -- keep first-occurrence order: put r's group first, followed by the others
    (sg, r :: ((rest.find? (fun g => g.1 == sg)).map (·.2)).getD []) :: rest.filter (fun g => g.1 != sg)

def listMinNat : List Nat → Nat
  | [] => 0
  | [x] => x
  | x :: xs => min x (listMinNat xs)

def listMaxNat : List Nat → Nat
  | [] => 0
  | x :: xs => max x (listMaxNat xs)

def vrleOfGroup (sg : List Char) (rs : List (List (Char × Nat))) : Vrle :=
  (List.range sg.length).map (fun i =>
    let ns := rs.map (fun r => (r.getD i ('?', 0)).2)
    let m := listMinNat ns
    let M := listMaxNat ns
    if M - m ≤ maxVrleRange then (sg.getD i '?', m, some M) else (sg.getD i '?', 1, none))

/-- comparison key of none_to_m1: (cat, m, M or -1), lexicographic over the fragments -/
def fragKeyLt (a b : Char × Nat × Option Nat) : Bool :=
  if a.1.toNat != b.1.toNat then a.1.toNat < b.1.toNat
  else if a.2.1 != b.2.1 then a.2.1 < b.2.1
  else
    let x : Int := match a.2.2 with | some v => v | none => -1
    let y : Int := match b.2.2 with | some v => v | none => -1
    x < y

def vrleLt : Vrle → Vrle → Bool
  | [], [] => false
  | [], _ :: _ => true
  | _ :: _, [] => false
  | a :: as, b :: bs => if fragKeyLt a b then true else if fragKeyLt b a then false else vrleLt as bs

def insertVrle (x : Vrle) : List Vrle → List Vrle
  | [] => [x]
  | y :: ys => if vrleLt y x then y :: insertVrle x ys else x :: y :: ys

/-- to_vrles (:1807-1850): one VRLE per signature, de-duplicated and sorted -/
def toVrles (rles : List (List (Char × Nat))) : List Vrle :=
  ((groupBySig rles).map (fun g => vrleOfGroup g.1 g.2)).eraseDups.foldr insertVrle []

/-! ### fine analysis of alphanumeric fragments -/

/-- fine_class (:1177-1190) -/
def fineClass (T : CharTable) (E : List Char) (c : Char) : Char :=
  if T.d c then cDigit
  else if asciiLower c then cletter
  else if asciiUpper c then cLETTER
  else if E.contains c then cLETTER_
  else cULetter_

/-- state of the analysis: not started / failed / a VRLE so far (entries carry the `fixed` mark) -/
inductive Ana
  | notYet
  | failed
  | so (v : List (Char × Nat × Option Nat))
deriving DecidableEq, Repr

def widen (n : Nat) (v : Char × Nat × Option Nat) : Char × Nat × Option Nat :=
  match v.2.2 with
  | some M => if v.2.1 ≤ n && n ≤ M then v else if n < v.2.1 then (v.1, n, some M) else (v.1, v.2.1, some n)
  | none => if v.2.1 ≤ n then v else (v.1, n, none)

/-- the zip loop of expand_or_falsify_vrle: `none` = a category differs -/
def expandZip : List (Char × Nat) → List (Char × Nat × Option Nat) → Option (List (Char × Nat × Option Nat))
  | r :: rs, v :: vs => if r.1 == v.1 then (expandZip rs vs).map (fun t => widen r.2 v :: t) else none
  | _, _ => some []

/-- expand_or_falsify_vrle (:2404-2478) -/
def expandOrFalsify (vlf : Bool) (r : List (Char × Nat)) : Ana → Ana
  | .failed => .failed
  | .notYet => .so (r.map (fun x => (x.1, x.2, some x.2)))
  | .so v =>
    if r.length == v.length then
      match expandZip r v with | some o => .so o | none => .failed
    else if !vlf then .failed
    else
      let lc := min r.length v.length
      match expandZip (r.take lc) (v.take lc) with
      | none => .failed
      | some o =>
        if v.length == lc then .so (o ++ (r.drop lc).map (fun x => (x.1, 0, some x.2)))
        else .so (o ++ (v.drop lc).map (fun x => (x.1, 0, x.2.2)))

/-- plusify_vrle (:1858-1869) -/
def plusify (v : Char × Nat × Option Nat) : Char × Nat × Option Nat :=
  match v.2.2 with
  | none => v
  | some M => if M - v.2.1 ≤ maxVrleRange then v else (v.1, v.2.1, none)

/-- rle_fc_c (:1111-1175) for one captured string of an alphanumeric fragment -/
def rleFcC (T : CharTable) (E : List Char) (vlf : Bool) (g : Line) (fc ch : Ana) : Ana × Ana :=
  if fc == .failed && ch == .failed then (.failed, .failed)
  else (expandOrFalsify vlf (rle (g.map (fineClass T E))) fc, expandOrFalsify vlf (rle g) ch)

/-! ### refinement -/

def insertChar (x : Char) : List Char → List Char
  | [] => [x]
  | y :: ys => if y.toNat < x.toNat then y :: insertChar x ys else if y == x then y :: ys else x :: y :: ys

/-- sorted distinct characters -/
def charSet (ls : List Line) : List Char := ls.flatten.foldr insertChar []

def generalAlnums (E : List Char) : List Char :=
  [cDigit, cLETTER, cletter, cLetter, cULetter] ++
  (if E.isEmpty then [] else [cLETTER_, cletter_, cLetter_, cULetter_]) ++
  [cHEX, chex, cHex, cALPHANUMERIC, calphanumeric, cAlphaNumeric, cUAlpha]

structure Sizes where
  maxPuncInGroup : Nat := 5
  maxStringsInGroup : Nat := 10
deriving Repr

/-- the distinct captured strings, capped as in analyse_fragments (:1040-1042) -/
def cappedStrings (cap : Nat) (gs : List Line) : List Line :=
  gs.foldl (fun acc g => if acc.length ≤ cap && !acc.contains g then acc ++ [g] else acc) []

/-- refine one fragment from the strings it captured (refine_fragments :1063-1109).
    `nGroups` is the running group count used for the MAX_GROUPS test. -/
def refineFrag (T : CharTable) (E : List Char) (vlf : Bool) (sz : Sizes)
    (fr : Char × Nat × Option Nat) (caps : List Line) (nGroups : Nat) : List Frag × Nat :=
  let c := fr.1
  let m := fr.2.1
  let M := fr.2.2
  let chars := charSet caps
  let strings := cappedStrings sz.maxStringsInGroup caps
  let (fc, ch) := if c == cUAlpha then
      caps.foldl (fun (st : Ana × Ana) g => rleFcC T E vlf g st.1 st.2) (Ana.notYet, Ana.notYet)
    else (Ana.failed, Ana.failed)
  match strings with
  | [s] => ([{ atom := .escStr s, m := 1, M := some 1, fixed := true }], nGroups)
  | _ =>
    match chars with
    | [x] => ([{ atom := .escChar x, m := m, M := M, fixed := true }], nGroups)
    | _ =>
      if c == cUAlpha then
        match ch, fc with
        | .so v, _ =>
          if !v.isEmpty then
            ((v.map plusify).map (fun e => { atom := .rawChar e.1, m := e.2.1, M := e.2.2, fixed := true }), nGroups)
          else generalise T E c m M chars nGroups
        | _, .so v =>
          if !v.isEmpty && nGroups + v.length - 1 ≤ maxGroups then
            ((v.map plusify).map (fun e => { atom := .code e.1, m := e.2.1, M := e.2.2, fixed := false }),
             nGroups + v.length - 1)
          else generalise T E c m M chars nGroups
        | _, _ => generalise T E c m M chars nGroups
      else if c == cPunc && chars.length ≤ sz.maxPuncInGroup then
        ([{ atom := .bracket chars, m := m, M := M, fixed := true }], nGroups)
      else ([{ atom := .code c, m := m, M := M, fixed := false }], nGroups)
where
  generalise (T : CharTable) (E : List Char) (c : Char) (m : Nat) (M : Option Nat) (chars : List Char)
      (nGroups : Nat) : List Frag × Nat :=
    match (generalAlnums E).find? (fun k => !chars.isEmpty && chars.all (inCat T E k)) with
    | some k => ([{ atom := .code k, m := m, M := M, fixed := false }], nGroups)
    | none => ([{ atom := .code c, m := m, M := M, fixed := false }], nGroups)

/-- the i-th captures of a list of capture lists -/
def column (caps : List (List Line)) (i : Nat) : List Line := caps.map (fun r => r.getD i [])

/-- refine_fragments for one VRLE and the examples of its signature group.
    `none` = the `assert m is not None` would fail. -/
def refineVrle (T : CharTable) (E : List Char) (vlf : Bool) (sz : Sizes) (wsWrap : Bool)
    (v : Vrle) (examples : List Line) : Option Pattern :=
  let frags : List Frag := v.map (fun f => { atom := .code f.1, m := f.2.1, M := f.2.2, fixed := false })
  let ws : Frag := { atom := .code cWhite, m := 0, M := none, fixed := false }
  let full := if wsWrap then [ws] ++ frags ++ [ws] else frags
  let capsOpt := examples.mapM (fun e => (matchCap T E full e).map
      (fun r => if wsWrap then (r.drop 1).take v.length else r))
  capsOpt.map (fun caps =>
    ((List.range v.length).foldl (fun (st : List Frag × Nat) i =>
        let (fs, n) := refineFrag T E vlf sz (v.getD i ('?', 0, none)) (column caps i) st.2
        (st.1 ++ fs, n)) ([], v.length)).1)

/-- sort_by_length (:896-902): stable -/
def insertByLen (x : Pattern) : List Pattern → List Pattern
  | [] => [x]
  | y :: ys => if y.length ≤ x.length then y :: insertByLen x ys else x :: y :: ys

def sortByLength (ps : List Pattern) : List Pattern := ps.foldl (fun acc p => insertByLen p acc) []

structure Opts where
  stripOpt : Bool := false
  removeEmpties : Bool := false
  vlf : Bool := false
  extras : List Char := []
  maxPatterns : Option Nat := none
  minStrings : Nat := 1
  sizes : Sizes := {}
deriving Repr

/-- Size as analyse_fragments reads it (:1063, `max(size.max_strings_in_group, 1)`): at least two strings are kept
    per fragment whatever the cap says (two are needed to tell a varying fragment from a constant one) -/
def Sizes.norm (sz : Sizes) : Sizes := { sz with maxStringsInGroup := max sz.maxStringsInGroup 1 }

/-- the options as the code reads them: `extract T o.norm` is what rexpy computes for the options `o` -/
def Opts.norm (o : Opts) : Opts := { o with sizes := o.sizes.norm }

/-- batch_extract (:667-721) on the cleaned examples: the refined, merged patterns.
    `none` = an internal assertion of the real code would fail. -/
def batchExtract (T : CharTable) (o : Opts) (cl : Cleaned) : Option (List Pattern × List Char) :=
  let E := thinExtras o.extras cl.strings
  let rles := cl.strings.map (coarseRle T E)
  let vrles := toVrles rles.eraseDups
  let refined := vrles.mapM (fun v =>
    refineVrle T E o.vlf o.sizes (cl.nStripped > 0) v
      ((cl.strings.zip rles).filterMap (fun sr => if sigOf sr.2 == sigOf v then some sr.1 else none)))
  refined.map (fun ps => (if ps.length == 1 then ps else sortByLength ps, E))

/-- find_non_matches (:957-982): frequency of the examples first matched by each pattern -/
def reFreqs (T : CharTable) (E : List Char) (wsWrap : Bool) (ps : List Pattern) (cl : Cleaned) : List Nat :=
  let ws : Frag := { atom := .code cWhite, m := 0, M := none, fixed := false }
  let full (p : Pattern) : Pattern := if wsWrap then [ws] ++ p ++ [ws] else p
  let ex := cl.strings.zip cl.freqs
  (ps.foldl (fun (st : List Nat × List (Line × Nat)) p =>
      let (hit, miss) := st.2.partition (fun e => matchB T E (full p) e.1)
      (st.1 ++ [(hit.map (·.2)).sum], miss)) ([], ex)).1

def insertIdxByFreq (freqs : List Nat) (i : Nat) : List Nat → List Nat
  | [] => [i]
  | j :: js => if freqs.getD j 0 ≥ freqs.getD i 0 then j :: insertIdxByFreq freqs i js else i :: j :: js

/-- find_bad_patterns (:592-614): indexes to delete -/
def badPatterns (o : Opts) (freqs : List Nat) : List Nat :=
  let byFreq := (List.range freqs.length).foldl (fun acc i => insertIdxByFreq freqs i acc) []
  let d1 := match o.maxPatterns with
    | some M => if freqs.length > M then byFreq.drop M else []
    | none => []
  let d2 := if o.minStrings > 1 then (List.range freqs.length).filter (fun i => freqs.getD i 0 < o.minStrings) else []
  d1 ++ d2

/-- Extractor(...).results for an input without sampling: the final patterns (ASTs), the
    normalised extra letters, and whether the whitespace wrap is in force -/
def extract (T : CharTable) (o : Opts) (items : List (Option Line × Nat)) :
    Option (List Pattern × List Char × Bool) :=
  let cl := clean o.stripOpt o.removeEmpties items
  if cl.strings.isEmpty then some ([], [], false)
  else
    match batchExtract T o cl with
    | none => none
    | some (ps, E) =>
      let wsWrap := cl.nStripped > 0
      let bad := badPatterns o (reFreqs T E wsWrap ps cl)
      some ((List.range ps.length).filterMap (fun i => if bad.contains i then none else ps[i]?), E, wsWrap)

end TddaVerif.Rexpy
