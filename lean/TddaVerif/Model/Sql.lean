/-
Model of the SQL text tdda/constraints/db/drivers.py builds for SQLite:
  quoted (:468-478), string_literal, get_database_rex_match (:743-768),
and of the reader on the other side: how a SQL tokenizer reads a quoted identifier / string literal
(the opening quote, then characters, a doubled quote standing for one quote, up to the closing quote).
-/
namespace TddaVerif.Sql

abbrev Text := List Char

/-- `s.replace(q, q q)` -/
def dbl (q : Char) (s : Text) : Text := s.flatMap (fun c => if c == q then [q, q] else [c])

/-- `q + s.replace(q, qq) + q` -/
def quote (q : Char) (s : Text) : Text := q :: (dbl q s ++ [q])

/-- DatabaseHandler.quoted for sqlite / postgres -/
def quoteIdent (name : Text) : Text := quote '"' name
/-- DatabaseHandler.string_literal -/
def stringLiteral (s : Text) : Text := quote '\'' s

/-- the tokenizer after the opening quote: content and what follows the closing quote; `none` = unterminated -/
def lexBody (q : Char) : Text → Option (Text × Text)
  | [] => none
  | [c] => if c == q then some ([], []) else none
  | c :: c2 :: cs =>
    if c == q then
      if c2 == q then (lexBody q cs).map (fun p => (q :: p.1, p.2))
      else some ([], c2 :: cs)
    else (lexBody q (c2 :: cs)).map (fun p => (c :: p.1, p.2))

/-- a quoted token at the start of the text -/
def lexQuoted (q : Char) : Text → Option (Text × Text)
  | [] => none
  | c :: cs => if c == q then lexBody q cs else none

def intercalate (sep : Text) : List Text → Text
  | [] => []
  | [x] => x
  | x :: y :: rest => x ++ sep ++ intercalate sep (y :: rest)

/-- one `("col" REGEXP 'rex')` term -/
def rexTerm (name r : Text) : Text :=
  "(".toList ++ quoteIdent name ++ " REGEXP ".toList ++ stringLiteral r ++ ")".toList

def rexDisj (name : Text) (rs : List Text) : Text := intercalate " OR ".toList (rs.map (rexTerm name))

/-- the statement get_database_rex_match executes (for a non-empty list of expressions) -/
def rexSql (table name : Text) (rs : List Text) : Text :=
  "SELECT COUNT(*) FROM ".toList ++ table ++ " WHERE ".toList ++ quoteIdent name ++
  " IS NOT NULL AND NOT(".toList ++ rexDisj name rs ++ ")".toList

def dropPrefix (p : Text) (s : Text) : Option Text :=
  match p, s with
  | [], s => some s
  | _ :: _, [] => none
  | a :: p', b :: s' => if a == b then dropPrefix p' s' else none

/-- reads one term back: (column, expression, rest) -/
def parseTerm (s : Text) : Option (Text × Text × Text) := do
  let s1 ← dropPrefix "(".toList s
  let (name, s2) ← lexQuoted '"' s1
  let s3 ← dropPrefix " REGEXP ".toList s2
  let (r, s4) ← lexQuoted '\'' s3
  let s5 ← dropPrefix ")".toList s4
  pure (name, r, s5)

/-- reads a disjunction of terms back (fuel = an upper bound on the number of terms) -/
def parseDisj : Nat → Text → Option (List (Text × Text) × Text)
  | 0, _ => none
  | fuel + 1, s =>
    match parseTerm s with
    | none => none
    | some (name, r, rest) =>
      match dropPrefix " OR ".toList rest with
      | some rest' => (parseDisj fuel rest').map (fun p => ((name, r) :: p.1, p.2))
      | none => some ([(name, r)], rest)

/-- Python's `format % (args...)` for formats that only use `%s` -/
def fmt : Text → List Text → Text
  | [], _ => []
  | [c], _ => [c]
  | c :: d :: rest, args =>
    if c == '%' && d == 's' then
      match args with
      | a :: as => a ++ fmt rest as
      | [] => c :: d :: fmt rest []
    else c :: fmt (d :: rest) args

def lookup (tbl : List (Text × Text)) (k : Text) : Option Text :=
  (tbl.find? (fun kv => kv.1 == k)).map (·.2)

end TddaVerif.Sql
