/-
Model of how a CSVW dialect says whether the file has a header row:
  tdda/serial/csvw.py process_dialect (:326-328)  header_rows = 0 if header == False else nvl(headerRowCount, 1)
  tdda/serial/pandasio.py to_pandas_read_csv_args (:62-65)  header_rows == 0 -> header=None, names = the declared names
pandas.read_csv itself is not modelled.
-/
namespace TddaVerif.CsvwDialect

/-- a JSON value as `get_val(dialect, key)` returns it (`absent`: the key is not there; get_val then returns None) -/
inductive JV where
  | absent | null
  | bool (b : Bool)
  | num (n : Nat)
  | other
deriving DecidableEq, Repr

/-- Python `v == False` (and, alike, `v == 0`): true of False and of 0 -/
def JV.eqZero : JV → Bool
  | .bool false => true
  | .num 0 => true
  | _ => false

/-- nvl(v, 1) -/
def nvl1 : JV → JV
  | .absent => .num 1
  | .null => .num 1
  | v => v

/-- csvw.py:328 -/
def headerRows (header count : JV) : JV :=
  if header.eqZero then .num 0 else nvl1 count

/-- pandasio.py:62: the file is read without a header row -/
def headerless (header count : JV) : Bool := (headerRows header count).eqZero

/-- what to_pandas_read_csv_args adds for the header: `some names` = (header=None, names=names) -/
def headerKw (header count : JV) (names : List (List Char)) : Option (List (List Char)) :=
  if headerless header count then some names else none

end TddaVerif.CsvwDialect
