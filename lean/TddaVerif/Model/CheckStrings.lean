/-
Model of tdda/referencetest/checkfiles.py FilesComparison:
  check_strings (:31-282), wrong_content (:284-334), wrong_number (:336-405),
  can_ignore / check_patterns (:417-493), reconstruct (:495-567),
  diff_marker / format_marker (:569-612), check_for_permutation_failures (:878-891),
  normalize_function (:893-906), the file-writing plan of add_failures (:908-1009),
  write_file (:1039-1055) and the byte scan of check_binary_file (:853-863).

Ignore-patterns: Python's `re` is a parameter.  `pat p line` is the result of
`re.match(compiled_patterns[p], line)`: `none` if no match, else the number of
groups of the anchored pattern, the text of group(1) and group(groups), and whether
the anchored pattern text starts with `(` (the ignore-pattern began with `^`).
Lines are `List Char`.  Import-free apart from TddaVerif.Py.
-/
import TddaVerif.Py.Text
namespace TddaVerif.CheckStrings
open TddaVerif.Py

structure PatRes where
  groups : Nat
  /-- group(1) -/
  left : Line
  /-- group(groups) -/
  right : Line
  /-- `pattern.pattern.startswith('(')`: the ignore-pattern itself began with `^` -/
  startParen : Bool := false
deriving Repr, DecidableEq

abbrev PatFn := Nat → Line → Option PatRes

structure Opts where
  lstrip : Bool := false
  rstrip : Bool := false
  ignoreSubstrings : List Line := []
  npats : Nat := 0
  removeLines : List Line := []
  maxPerm : Nat := 0
  /-- a `preprocess` function was given (it has already been applied to both sides) -/
  preprocess : Bool := false
  /-- `actual_path is not None` -/
  actualPath : Bool := false
  createTemporaries : Bool := true
deriving Repr

/-- normalize_function (:893-906) -/
def normalize (o : Opts) (s : Line) : Line :=
  if o.lstrip && o.rstrip then strip s
  else if o.lstrip then lstrip s
  else if o.rstrip then rstrip s
  else s

/-- check_patterns (:442-493).  `fuel` bounds the recursion depth; the real code
    has no bound (it raises RecursionError when a pattern matches empty text). -/
def checkPatterns (npats : Nat) (pat : PatFn) : Nat → Line → Line → Bool
  | 0, a, e => a == e
  | fuel + 1, a, e =>
    a == e ||
    (List.range npats).any (fun p =>
      match pat p e with
      | none => false
      | some me =>
        match pat p a with
        | none => false
        | some ma =>
          if me.groups == 1 then true
          else if me.groups == 2 then
            (if me.startParen then checkPatterns npats pat fuel ma.right me.right
             else checkPatterns npats pat fuel ma.left me.left)
          else checkPatterns npats pat fuel ma.left me.left &&
               checkPatterns npats pat fuel ma.right me.right)

def patFuel (a e : Line) : Nat := a.length + e.length + 1

/-- can_ignore (:417-440) as check_strings calls it: on the lines as compared (after the stripping requested);
    substrings are looked for in the *expected* line only. -/
def canIgnore (o : Opts) (pat : PatFn) (a e : Line) : Bool :=
  o.ignoreSubstrings.any (fun s => contains (normalize o e) s) ||
  checkPatterns o.npats pat (patFuel (normalize o a) (normalize o e)) (normalize o a) (normalize o e)

/-- `if xs and len(xs[-1]) == 0: xs = xs[:-1]` -/
def dropTrailingEmpty (l : List Line) : List Line :=
  match l.getLast? with
  | some [] => l.dropLast
  | _ => l

def removable (o : Opts) (l : Line) : Bool := o.removeLines.any (fun r => contains l r)

/-- indices (into the original list) of the removed lines -/
def removalIdx (o : Opts) (l : List Line) : List Nat :=
  (List.range l.length).filter (fun i => removable o (l.getD i []))

/-- indices of the surviving lines, in order -/
def survivorIdx (o : Opts) (l : List Line) : List Nat :=
  (List.range l.length).filter (fun i => !removable o (l.getD i []))

inductive Where | line (n : Nat) | endOfReference | endOfActual
deriving Repr, DecidableEq

inductive FirstError
  | content (ndiffs : Nat) (firstLine : Nat)
  | number (isFile : Bool) (w : Where)
deriving Repr, DecidableEq

structure WC where
  ndiffs : Nat
  firstLine : Option Nat
  cases : List (Nat × Line × Line)
  aIgn : List Nat
  eIgn : List Nat

/-- wrong_content (:284-334): `diffs` are indices into the after-removal lists. -/
def wrongContent (o : Opts) (pat : PatFn) (actual expected : List Line)
    (aMap eMap : Nat → Nat) (diffs : List Nat) : WC :=
  diffs.foldl (fun st i =>
    let a := actual.getD i []
    let e := expected.getD i []
    if canIgnore o pat a e then
      { st with ndiffs := st.ndiffs - 1, aIgn := st.aIgn ++ [aMap i], eIgn := st.eIgn ++ [eMap i] }
    else
      { st with firstLine := (match st.firstLine with | none => some (i + 1) | some l => some l),
                cases := if st.cases.length < o.maxPerm then st.cases ++ [(i, a, e)] else st.cases })
    { ndiffs := diffs.length, firstLine := none, cases := [], aIgn := [], eIgn := [] }

structure WN where
  ia : Nat
  ie : Nat
  firstLine : Option Nat
  aIgn : List Nat
  eIgn : List Nat

/-- the loop of wrong_number (:364-392) -/
def wrongNumberLoop (o : Opts) (pat : PatFn) (oa oe : List Line) (aRem eRem : List Nat)
    (aMap eMap : Nat → Nat) : WN :=
  (List.range (min oa.length oe.length)).foldl (fun st i =>
    let remA := aRem.contains st.ia
    let ia1 := if remA then st.ia + 1 else st.ia
    let remE := eRem.contains st.ie
    let ie1 := if remE then st.ie + 1 else st.ie
    if remA || remE then { st with ia := ia1, ie := ie1 }
    else
      let al := oa.getD st.ia []
      let el := oe.getD st.ie []
      if normalize o al == normalize o el then { st with ia := st.ia + 1, ie := st.ie + 1 }
      else if canIgnore o pat al el then
        { st with ia := st.ia + 1, ie := st.ie + 1, aIgn := st.aIgn ++ [aMap i], eIgn := st.eIgn ++ [eMap i] }
      else { st with firstLine := some (st.ia + 1) })
    { ia := 0, ie := 0, firstLine := none, aIgn := [], eIgn := [] }

def commonPrefixLen : Line → Line → Nat
  | a :: as, b :: bs => if a == b then commonPrefixLen as bs + 1 else 0
  | _, _ => 0

/-- diff_marker (:569-603): COMMON-PREFIX ( ONLY-IN-LEFT | ONLY-IN-RIGHT ) COMMON-SUFFIX -/
def diffMarker (left right : Line) : Line :=
  if left == right then left
  else
    let pre := commonPrefixLen left right
    let l' := left.drop pre
    let r' := right.drop pre
    let post := commonPrefixLen l'.reverse r'.reverse
    left.take pre ++ ['('] ++ l'.take (l'.length - post) ++ ['|'] ++ r'.take (r'.length - post) ++ [')']
      ++ (if post > 0 then left.drop (left.length - post) else [])

/-- format_marker (:605-612) -/
def formatMarker (m : Line) : Line := ['*', '*', '*', ' '] ++ m

/-- reconstruct (:495-567); inputs are the normalized original lines. -/
def reconstructLoop (na ne : List Line) (aRem eRem aIgn eIgn : List Nat) :
    Nat → Nat → Nat → List Line → List Line → List Line × List Line
  | 0, _, _, ra, re => (ra, re)
  | fuel + 1, ia, ie, ra, re =>
    if ia < na.length || ie < ne.length then
      let la := na.getD ia []
      let le := ne.getD ie []
      if aRem.contains ia && eRem.contains ie then
        let m := formatMarker (diffMarker la le)
        reconstructLoop na ne aRem eRem aIgn eIgn fuel (ia + 1) (ie + 1) (ra ++ [m]) (re ++ [m])
      else if aRem.contains ia then
        let m := formatMarker (diffMarker la [])
        reconstructLoop na ne aRem eRem aIgn eIgn fuel (ia + 1) ie (ra ++ [m]) (re ++ [m])
      else if eRem.contains ie then
        let m := formatMarker (diffMarker [] le)
        reconstructLoop na ne aRem eRem aIgn eIgn fuel ia (ie + 1) (ra ++ [m]) (re ++ [m])
      else if ia ≥ na.length then
        reconstructLoop na ne aRem eRem aIgn eIgn fuel ia (ie + 1) ra (re ++ [le])
      else if ie ≥ ne.length then
        reconstructLoop na ne aRem eRem aIgn eIgn fuel (ia + 1) ie (ra ++ [la]) re
      else if la == le then
        reconstructLoop na ne aRem eRem aIgn eIgn fuel (ia + 1) (ie + 1) (ra ++ [la]) (re ++ [le])
      else if aIgn.contains ia || eIgn.contains ie then
        let m := formatMarker (diffMarker la le)
        reconstructLoop na ne aRem eRem aIgn eIgn fuel (ia + 1) (ie + 1) (ra ++ [m]) (re ++ [m])
      else
        reconstructLoop na ne aRem eRem aIgn eIgn fuel (ia + 1) (ie + 1) (ra ++ [la]) (re ++ [le])
    else (ra, re)

def reconstruct (na ne : List Line) (aRem eRem aIgn eIgn : List Nat) : List Line × List Line :=
  reconstructLoop na ne aRem eRem aIgn eIgn (na.length + ne.length + 1) 0 0 [] []

/-- check_for_permutation_failures (:878-891) -/
def permutationFailures (cases : List (Nat × Line × Line)) : Nat :=
  if sortLines (cases.map (·.2.1)) == sortLines (cases.map (·.2.2)) then 0 else cases.length

structure Result where
  failures : Nat
  ndiffs : Nat
  firstError : Option FirstError
  reconstruction : Option (List Line × List Line)
  /-- the after-removal lists handed to add_failures -/
  actualAfter : List Line
  expectedAfter : List Line
  aIgn : List Nat
  eIgn : List Nat
  aRem : List Nat
  eRem : List Nat
deriving Repr

/-- check_strings (:31-282), after `preprocess` has been applied by the caller. -/
def checkStrings (o : Opts) (pat : PatFn) (actual0 expected0 : List Line) : Result :=
  let oa := dropTrailingEmpty actual0
  let oe := dropTrailingEmpty expected0
  let doRemove := !o.removeLines.isEmpty
  let aRem := if doRemove then removalIdx o oa else []
  let eRem := if doRemove then removalIdx o oe else []
  let aSurv := survivorIdx o oa
  let eSurv := survivorIdx o oe
  let actual := if doRemove then aSurv.map (fun i => oa.getD i []) else oa
  let expected := if doRemove then eSurv.map (fun i => oe.getD i []) else oe
  -- the two index maps as built at :148-190: after-removal position -> original position
  let aMap : Nat → Nat := fun k => if doRemove then aSurv.getD k k else k
  let eMap : Nat → Nat := fun k => if doRemove then eSurv.getD k k else k
  let (firstError, ndiffs0, cases, aIgn, eIgn, permutable) :=
    if actual.length == expected.length then
      let diffs := (List.range actual.length).filter
        (fun i => normalize o (actual.getD i []) != normalize o (expected.getD i []))
      if diffs.isEmpty then (none, 0, [], [], [], true)
      else
        let wc := wrongContent o pat actual expected aMap eMap diffs
        ((wc.firstLine.map (fun l => FirstError.content wc.ndiffs l)), wc.ndiffs, wc.cases, wc.aIgn, wc.eIgn, true)
    else
      let wn := wrongNumberLoop o pat oa oe aRem eRem aMap eMap
      let w := match wn.firstLine with
        | some l => Where.line l
        | none => if oa.length > oe.length then Where.endOfReference else Where.endOfActual
      (some (FirstError.number o.actualPath w), max oa.length oe.length, [], wn.aIgn, wn.eIgn, false)
  let needRecon := o.preprocess || !aIgn.isEmpty || !eIgn.isEmpty || !aRem.isEmpty || !eRem.isEmpty
                    || (!o.actualPath && ndiffs0 > 0)
  let recon := if needRecon then
      some (reconstruct (oa.map (normalize o)) (oe.map (normalize o)) aRem eRem aIgn eIgn)
    else none
  let ndiffs := if permutable && ndiffs0 > 0 && ndiffs0 ≤ o.maxPerm then
      permutationFailures (cases.map (fun c => (c.1, normalize o c.2.1, normalize o c.2.2))) else ndiffs0
  { failures := if ndiffs > 0 then 1 else 0, ndiffs := ndiffs,
    firstError := if ndiffs > 0 then firstError else none,
    reconstruction := recon, actualAfter := actual, expectedAfter := expected,
    aIgn := aIgn, eIgn := eIgn, aRem := aRem, eRem := eRem }

/-- Files written by add_failures (:908-1009) on behalf of check_strings, when the
    expected side is a file (`expected_path` given): the raw actual (only when the
    actual was a string) and the post-processed pair (only with a reconstruction).
    Contents are what `write_file` writes, without the "Compare with" header that
    precedes the post-processed text; `guideNl` = the reference file ends in a newline;
    `rawText` = the actual content as it was given (check_strings' `raw_actual`: the string, or the
    given lines joined by newlines). -/
structure Plan where
  rawActual : Option Line
  diffActual : Option Line
  diffExpected : Option Line
deriving Repr, DecidableEq

def plan (o : Opts) (r : Result) (guideNl : Bool) (rawText : Line) : Plan :=
  if r.failures == 0 then { rawActual := none, diffActual := none, diffExpected := none }
  else
    let raw := if o.createTemporaries && !o.actualPath then some rawText else none
    let nl : Line := if guideNl then ['\n'] else []
    match r.reconstruction, o.createTemporaries with
    | some (ra, re), true =>
      { rawActual := raw, diffActual := some (joinNl ra ++ nl), diffExpected := some (joinNl re ++ nl) }
    | _, _ => { rawActual := raw, diffActual := none, diffExpected := none }

/-- check_binary_file (:853-863): byte offset of the first difference. -/
def firstDiff : List Nat → List Nat → Nat
  | a :: as, b :: bs => if a == b then firstDiff as bs + 1 else 0
  | _, _ => 0

end TddaVerif.CheckStrings
