/-
Text rendering of rexpy patterns (tdda/rexpy/rexpy.py): escape (:2483-2487), escaped_bracket
(:2490-2524, for the internal dialect), fragment2re / vrle2re (:1192-1231), capture_group (:2533-2538).
Category regex strings come from the regenerated tables (Generated/Rexpy.lean).
-/
import TddaVerif.Model.Rexpy
import TddaVerif.Generated.Rexpy
namespace TddaVerif.Rexpy
open TddaVerif.Py

/-- `Cats[code].re_string` for normalised extras `E` and dialect (0 perl/None, 1 portable, 2 grep) -/
def reString (E : List Char) (dialect : Nat) (code : Char) : List Char :=
  match Generated.Rexpy.catTables.find? (fun t => t.1.1 == E && t.1.2 == dialect) with
  | some t => ((t.2.find? (fun kv => kv.1 == code)).map (·.2)).getD [code]
  | none => [code]

def escapeChar (c : Char) : List Char :=
  if Generated.Rexpy.unescapes.contains c then [c]
  else if Generated.Rexpy.reEscapeSpecials.contains c then ['\\', c]
  else [c]

def escapeStr (s : Line) : List Char := (s.map escapeChar).flatten

/-- escaped_bracket(chars) (dialect None, inner False) -/
def escapedBracket (chars : List Char) : List Char :=
  let pre : List Char := if chars.contains ']' then [']'] else []
  let suf0 : List Char := (if chars.contains '\\' then ['\\', '\\'] else []) ++
                          (if chars.contains '^' then ['^'] else []) ++
                          (if chars.contains '-' then ['-'] else [])
  let mains := chars.filter (fun c => !(c == ']' || c == '\\' || c == '-' || c == '^'))
  let suf := if pre.isEmpty && mains.isEmpty && suf0.head? == some '^'
             then (if suf0.length > 1 then suf0.drop 1 ++ ['^'] else ['\\', '^']) else suf0
  ['['] ++ pre ++ mains ++ suf ++ [']']

def atomText (E : List Char) (dialect : Nat) : Atom → List Char
  | .code k => reString E dialect k
  | .escStr s => escapeStr s
  | .escChar c => escapeChar c
  | .rawChar c => [c]
  | .bracket cs => escapedBracket cs

def natText (n : Nat) : List Char := (toString n).toList

def captureGroup (s : List Char) : List Char :=
  if s.head? == some '(' && s.getLast? == some ')' then s else ['('] ++ s ++ [')']

/-- fragment2re -/
def fragText (E : List Char) (dialect : Nat) (tagged : Bool) (f : Frag) : List Char :=
  let regex := atomText E dialect f.atom
  let part : List Char :=
    match f.M with
    | none => if f.m == 0 then regex ++ ['*'] else regex ++ ['+']
    | some M =>
      if f.m == 1 && M == 1 then regex
      else if f.m == 2 && M == 2 && regex.length == 1 then regex ++ regex
      else if f.m == M then regex ++ ['{'] ++ natText f.m ++ ['}']
      else if f.m == 0 && M == 1 then regex ++ ['?']
      else regex ++ ['{'] ++ natText f.m ++ [','] ++ natText M ++ ['}']
  if tagged && !f.fixed then captureGroup part else part

/-- vrle2re -/
def patternText (E : List Char) (dialect : Nat) (tagged wsWrap : Bool) (p : Pattern) : List Char :=
  let ws : List Char := reString E dialect cWhite ++ ['*']
  let body := (p.map (fragText E dialect tagged)).flatten
  ['^'] ++ (if wsWrap then ws ++ body ++ ws else body) ++ ['$']

end TddaVerif.Rexpy
