/-
Model of the rows and row numbers of the file write_detected_records writes (tdda/constraints/pd/constraints.py:408-443).
-/
namespace TddaVerif.DetectOut

/-- rows numbered from `k` on: (row number, n_failures) -/
def numberFrom (k : Nat) : List Nat → List (Nat × Nat)
  | [] => []
  | x :: xs => (k, x) :: numberFrom (k + 1) xs

/-- write_detected_records (pd/constraints.py:408-443) with add_index and rownumber_is_index=False: the RowNumber column is
    RangeIndex(1, n+1) over all records, added before the records that pass are dropped -/
def written (nf : List Nat) (writeAll : Bool) : List (Nat × Nat) :=
  if writeAll then numberFrom 1 nf else (numberFrom 1 nf).filter (fun p => decide (p.2 > 0))

end TddaVerif.DetectOut
