/-
Model of tdda/referencetest/referencetestcase.py:
  _set_flags_from_argv (:185-270) — argv scanning and removal of tdda flags,
  TaggedTestLoader (:273-319)     — selection of tagged tests / listing of classes,
and of the regeneration table of tdda/referencetest/referencetest.py
  set_regeneration (:121-132), _should_regenerate (:941-948).
Arguments are `List Char`.  Import-free apart from TddaVerif.Py.
-/
import TddaVerif.Py.Text
namespace TddaVerif.RefTestCase
open TddaVerif.Py

abbrev Arg := List Char

/-- `arg.startswith('-') and not arg.startswith('--')` -/
def isSingleDash (a : Arg) : Bool :=
  match a with
  | '-' :: '-' :: _ => false
  | '-' :: _ => true
  | _ => false

structure Flags where
  tagged : Bool := false
  check : Bool := false
  regenerate : Bool := false
deriving Repr, DecidableEq

/-- the inner `for flag in arg[1:]` loop: which of W / 1 / 0 occur after the first character -/
def clusterFlags (a : Arg) (f : Flags) : Flags :=
  let t := a.drop 1
  { tagged := f.tagged || t.contains '1',
    check := f.check || t.contains '0',
    regenerate := f.regenerate || t.contains 'W' }

/-- the argument after `arg.replace('W','')`, `.replace('1','')`, `.replace('0','')` for the
    letters that occur after the first character (the first character is `-`, so removing
    from the whole string is the same) -/
def stripCluster (a : Arg) : Arg :=
  let t := a.drop 1
  a.filter (fun c => !((c == 'W' && t.contains 'W') || (c == '1' && t.contains '1') || (c == '0' && t.contains '0')))

/-- the first loop (:215-229): every single-dash argument of `argv[1:]` is replaced by its
    stripped form, or by `''` if only `-` is left; other arguments are left alone. -/
def scanLeading : List Arg → Flags → List Arg × Flags
  | [], f => ([], f)
  | a :: rest, f =>
    if isSingleDash a then
      let s := stripCluster a
      let s' : Arg := if s == ['-'] then [] else s
      let (rest', f') := scanLeading rest (clusterFlags a f)
      (s' :: rest', f')
    else
      let (rest', f') := scanLeading rest f
      (a :: rest', f')

def indexOf? (x : Arg) : List Arg → Option Nat
  | [] => none
  | a :: as => if a == x then some 0 else (indexOf? x as).map (· + 1)

def removeAt (l : List Arg) (i : Nat) : List Arg := l.take i ++ l.drop (i + 1)

/-- `','.split` -/
def splitComma : Arg → Arg → List Arg
  | [], cur => [cur.reverse]
  | c :: cs, cur => if c == ',' then cur.reverse :: splitComma cs [] else splitComma cs (c :: cur)

structure Parsed where
  argv : List Arg
  tagged : Bool
  check : Bool
  quiet : Bool
  /-- calls of `set_regeneration(kind)` in order; `none` = all kinds -/
  regen : List (Option Arg)
deriving Repr, DecidableEq

inductive ArgvErr | writeNeedsParams
deriving Repr, DecidableEq

def sOf (s : String) : Arg := s.toList

def wquiet1 : Arg := ['-', 'w', 'q', 'u', 'i', 'e', 't']
def wquiet2 : Arg := ['-', '-', 'w', 'q', 'u', 'i', 'e', 't']
def writeAll1 : Arg := ['-', '-', 'W']
def writeAll2 : Arg := ['-', '-', 'w', 'r', 'i', 't', 'e', '-', 'a', 'l', 'l']
def write1 : Arg := ['-', 'w']
def write2 : Arg := ['-', '-', 'w']
def write3 : Arg := ['-', '-', 'w', 'r', 'i', 't', 'e']
def taggedOpt : Arg := ['-', '-', 't', 'a', 'g', 'g', 'e', 'd']
def istaggedOpt : Arg := ['-', '-', 'i', 's', 't', 'a', 'g', 'g', 'e', 'd']

/-- remove the first occurrence of `flag` (at any index) -/
def dropQuiet (flag : Arg) (st : List Arg × Bool) : List Arg × Bool :=
  match indexOf? flag st.1 with
  | some i => (removeAt st.1 i, true)
  | none => st

/-- `for writeflag in ('--W', '--write-all')` (:239-245) -/
def writeAllPhase (argv : List Arg) (regen : Bool) : List Arg × Bool :=
  match indexOf? writeAll1 argv with
  | some (i + 1) => (removeAt argv (i + 1), true)
  | _ =>
    match indexOf? writeAll2 argv with
    | some (i + 1) => (removeAt argv (i + 1), true)
    | _ => (argv, regen)

/-- what one spelling of `--write` does once found at `idx` (:249-259) -/
def writeAt (argv : List Arg) (idx : Nat) : Except ArgvErr (List Arg × List (Option Arg)) :=
  if idx == 0 then .ok ([], [])
  else if idx < argv.length - 1 then
    .ok (argv.take idx, ((argv.drop (idx + 1)).map (fun r => splitComma r [])).flatten.map some)
  else .error .writeNeedsParams

/-- `for writeflag in ('-w', '--w', '--write')`: the first spelling present wins -/
def writePhase (argv : List Arg) : Except ArgvErr (List Arg × List (Option Arg)) :=
  match indexOf? write1 argv with
  | some i => writeAt argv i
  | none =>
    match indexOf? write2 argv with
    | some i => writeAt argv i
    | none =>
      match indexOf? write3 argv with
      | some i => writeAt argv i
      | none => .ok (argv, [])

/-- one option of `for option in ('--tagged', '--istagged')` (:261-268) -/
def tagPhase (opt : Arg) (argv : List Arg) : List Arg × Bool :=
  match indexOf? opt argv with
  | some (i + 1) => (removeAt argv (i + 1), true)
  | _ => (argv, false)

/-- _set_flags_from_argv -/
def parseArgv (argv : List Arg) : Except ArgvErr Parsed :=
  let (tail, f) := scanLeading (argv.drop 1) {}
  let argv1 := ((argv.take 1) ++ tail).filter (fun a => !a.isEmpty)
  let (argv2, quiet) := dropQuiet wquiet2 (dropQuiet wquiet1 (argv1, false))
  let (argv3, regen) := writeAllPhase argv2 f.regenerate
  match writePhase argv3 with
  | .error e => .error e
  | .ok (argv4, kinds) =>
    let (argv5, t) := tagPhase taggedOpt argv4
    let (argv6, c) := tagPhase istaggedOpt argv5
    .ok { argv := argv6, tagged := f.tagged || t, check := f.check || c, quiet := quiet,
          regen := kinds ++ (if regen then [none] else []) }

/-! ### Regeneration table -/

/-- `ReferenceTest.regenerate`: kind -> bool, as an association list, last write wins -/
abbrev RegenTable := List (Option Arg × Bool)

def setRegeneration (t : RegenTable) (kind : Option Arg) (v : Bool) : RegenTable :=
  (kind, v) :: t.filter (fun kv => kv.1 != kind)

def lookupKind (t : RegenTable) (kind : Option Arg) : Option Bool :=
  (t.find? (fun kv => kv.1 == kind)).map (·.2)

/-- _should_regenerate (:941-948) -/
def shouldRegenerate (t : RegenTable) (kind : Option Arg) : Bool :=
  let k := if (lookupKind t kind).isSome then kind else none
  (lookupKind t k).getD false

/-! ### Tagged test loader -/

structure TestClass where
  name : Arg
  /-- index of the (single) base class among the earlier classes, if it is a test class -/
  base : Option Nat
  ownTag : Bool
  /-- test methods defined in the class body: (name, decorated with @tag) -/
  own : List (Arg × Bool)
deriving Repr

/-- `hasattr(cls, '_tagged')`: the class or an ancestor is decorated -/
def classTagged (cs : List TestClass) : Nat → Nat → Bool
  | 0, _ => false
  | fuel + 1, i =>
    match cs[i]? with
    | none => false
    | some c => c.ownTag || (match c.base with | some b => classTagged cs fuel b | none => false)

/-- all test methods visible on the class (own definitions override inherited ones) -/
def classMethods (cs : List TestClass) : Nat → Nat → List (Arg × Bool)
  | 0, _ => []
  | fuel + 1, i =>
    match cs[i]? with
    | none => []
    | some c =>
      let inh := match c.base with | some b => classMethods cs fuel b | none => []
      c.own ++ inh.filter (fun m => !(c.own.map (·.1)).contains m.1)

/-- TaggedTestLoader.getTestCaseNames (:311-318), names in sorted order -/
def testNames (cs : List TestClass) (i : Nat) (taggedOnly : Bool) : List Arg :=
  let ms := classMethods cs (cs.length + 1) i
  let sel := if !taggedOnly || classTagged cs (cs.length + 1) i then ms else ms.filter (·.2)
  sortLines (sel.map (·.1))

/-- tests run: (class name, method) pairs; in check mode nothing runs -/
def selectTests (cs : List TestClass) (tagged check : Bool) : List (Arg × Arg) :=
  if check then []
  else ((List.range cs.length).map (fun i =>
          (testNames cs i tagged).map (fun m => ((cs.getD i ⟨[], none, false, []⟩).name, m)))).flatten

/-- classes listed in check mode: those with at least one tagged test -/
def listedClasses (cs : List TestClass) (check : Bool) : List Arg :=
  if check then
    ((List.range cs.length).filter (fun i => !(testNames cs i true).isEmpty)).map
      (fun i => (cs.getD i ⟨[], none, false, []⟩).name)
  else []

end TddaVerif.RefTestCase
