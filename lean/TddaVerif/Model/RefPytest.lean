/-
Model of the pytest side of tdda/referencetest/referencepytest.py:
  tagged (:272-302), the collection filter behind --tagged / --istagged, and
  ref (:186-206), the translation of --write-all / --write KIND ... into the regeneration table.
pytest itself (collection, option parsing) is not modelled: an item is what the filter reads of it.
-/
import TddaVerif.Model.RefTestCase
namespace TddaVerif.RefPytest
open TddaVerif.RefTestCase

abbrev Name := List Char

/-- what `tagged` reads of a collected item `f` -/
structure Item where
  /-- `f.name` -/
  name : Name
  /-- the class of `f.obj.__self__` when the test is a method (`hasattr(f.obj, '__self__')`) -/
  cls : Option Name
  /-- `getattr(cls, '_tagged', None)` (Python resolves inheritance) -/
  clsTagged : Bool
  /-- `getattr(f.obj, '_tagged', None)` -/
  fnTagged : Bool
deriving DecidableEq, Repr

/-- the `tagged` local of the loop -/
def Item.tagged (i : Item) : Bool := (i.cls.isSome && i.clsTagged) || i.fnTagged

/-- the lines printed under --istagged: a class once (the first time one of its tagged tests is met), a tagged
    module-level function by its own name -/
def printed : List Item → List Name → List Name
  | [], _ => []
  | i :: rest, shown =>
    if i.tagged then
      match i.cls with
      | some c => if shown.contains c then printed rest shown else c :: printed rest (c :: shown)
      | none => i.name :: printed rest shown
    else printed rest shown

/-- tagged(config, items): the items left to run and the names printed -/
def filterItems (runTagged showTagged : Bool) (items : List Item) : List Item × List Name :=
  if !(runTagged || showTagged) then (items, [])
  else ((if showTagged then [] else items.filter (·.tagged)), (if showTagged then printed items [] else []))

/-- ref(request): the calls of set_regeneration made for the options, in order
    (`--write-all` wins; otherwise every comma-separated part of every `--write` parameter) -/
def refOps (writeAll : Bool) (write : Option (List Arg)) : List (Option Arg) :=
  if writeAll then [none]
  else match write with
    | none => []
    | some ps => (ps.flatMap (fun p => splitComma p [])).map some

/-- the regeneration table after ref(request), starting from an empty table -/
def refTable (writeAll : Bool) (write : Option (List Arg)) : RegenTable :=
  (refOps writeAll write).foldl (fun t k => setRegeneration t k true) []

end TddaVerif.RefPytest
