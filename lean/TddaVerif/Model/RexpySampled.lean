/-
Model of Extractor.__init__ / Extractor.extract (tdda/rexpy/rexpy.py :489-600) with sampling:
the first sample, the loop  batch_extract -> find_non_matches -> extend the working examples -> again,
and the pruning at the end.  `random.sample` is a parameter: `pick ev k l` is what the ev-th call,
asked for `k` of the elements of `l`, returned (any function; the correspondence replays the recorded calls).
-/
import TddaVerif.Model.Rexpy
namespace TddaVerif.Rexpy
open TddaVerif.Py

structure SampleCfg where
  doAll : Nat
  doAllExceptions : Nat
  maxAttempts : Nat
deriving Repr, DecidableEq

abbrev Pick := Nat → Nat → List (Line × Nat) → List (Line × Nat)

def wrapP (wsWrap : Bool) (p : Pattern) : Pattern :=
  let ws : Frag := { atom := .code cWhite, m := 0, M := none, fixed := false }
  if wsWrap then [ws] ++ p ++ [ws] else p

/-- find_non_matches: the examples (with frequencies) none of the patterns matches in full -/
def nonMatches (T : CharTable) (E : List Char) (wsWrap : Bool) (ps : List Pattern) (A : List (Line × Nat)) :
    List (Line × Nat) :=
  if ps.isEmpty then A
  else A.filter (fun e => !ps.any (fun p => matchB T E (wrapP wsWrap p) e.1))

/-- batch_extract with the extra letters fixed beforehand: Extractor.__init__ thins the extra letters once, against the
    first working examples (`self.Cats = Categories(self.thin_extras(extra_letters))`), not at every pass -/
def batchExtractE (T : CharTable) (o : Opts) (E : List Char) (cl : Cleaned) : Option (List Pattern) :=
  let rles := cl.strings.map (coarseRle T E)
  let vrles := toVrles rles.eraseDups
  let refined := vrles.mapM (fun v =>
    refineVrle T E o.vlf o.sizes (cl.nStripped > 0) v
      ((cl.strings.zip rles).filterMap (fun sr => if sigOf sr.2 == sigOf v then some sr.1 else none)))
  refined.map (fun ps => if ps.length == 1 then ps else sortByLength ps)

def addTo (W : Cleaned) (xs : List (Line × Nat)) : Cleaned :=
  { W with strings := W.strings ++ xs.map (·.1), freqs := W.freqs ++ xs.map (·.2) }

/-- the loop. State: fuel, attempt number, number of random.sample calls so far, working examples.
    Returns the patterns of the last pass, the extra letters and the sampling events used. -/
def sampledLoop (T : CharTable) (o : Opts) (cfg : SampleCfg) (pick : Pick) (A : Cleaned) (E : List Char) :
    Nat → Nat → Nat → Cleaned → Option (List Pattern)
  | 0, _, _, _ => none
  | fuel + 1, attempt, ev, W =>
    match batchExtractE T o E W with
    | none => none
    | some ps =>
      let F := nonMatches T E (A.nStripped > 0) ps (A.strings.zip A.freqs)
      let sampling := attempt ≤ cfg.maxAttempts
      -- sample_non_matches(rexes, maxN = do_all_exceptions while sampling)
      let s1 := sampling && F.length > cfg.doAllExceptions
      let failex := if s1 then pick ev (max 1 cfg.doAllExceptions) F else F
      let ev := if s1 then ev + 1 else ev
      if failex.all (fun e => W.strings.contains e.1) then some ps
      else if failex.length ≤ cfg.doAllExceptions || !sampling then
        sampledLoop T o cfg pick A E fuel (attempt + 1) ev (addTo W failex)
      else
        -- more failures than do_all_exceptions while sampling: a second sample
        sampledLoop T o cfg pick A E fuel (attempt + 1) (ev + 1) (addTo W (pick ev cfg.doAllExceptions failex))

/-- Extractor(examples, size=...).results: with the first sample, the loop and the pruning -/
def extractSampled (T : CharTable) (o : Opts) (cfg : SampleCfg) (pick : Pick) (items : List (Option Line × Nat)) :
    Option (List Pattern × List Char × Bool) :=
  let A := clean o.stripOpt o.removeEmpties items
  let ex := A.strings.zip A.freqs
  let s0 := ex.length > cfg.doAll && ex.length > cfg.doAllExceptions
  let first := if s0 then pick 0 (max 1 cfg.doAllExceptions) ex else ex
  let W0 : Cleaned := { strings := first.map (·.1), freqs := first.map (fun _ => 1), nStripped := A.nStripped }
  if W0.strings.isEmpty then some ([], [], false)
  else
    let E := thinExtras o.extras W0.strings
    match sampledLoop T o cfg pick A E (A.strings.length + cfg.maxAttempts + 2) 1 (if s0 then 1 else 0) W0 with
    | none => none
    | some ps =>
      let wsWrap := A.nStripped > 0
      let bad := badPatterns o (reFreqs T E wsWrap ps A)
      some ((List.range ps.length).filterMap (fun i => if bad.contains i then none else ps[i]?), E, wsWrap)

end TddaVerif.Rexpy
