/-
Model of the .tdda serialisation helpers of tdda/constraints/base.py:
  strip_lines (:768-780, after the fix that splits on '\n' only),
  to_preferred_order (:986-988), Constraint.to_dict_value (:447-451, :461-487),
  get_date (:988-1013) on the three naive date layouts and the UTC-offset layout RTZ (whole minutes, or with seconds).
-/
import TddaVerif.Py.Text
namespace TddaVerif.TddaFile
open TddaVerif.Py

/-- `s.split('\n')` -/
def splitNl : Line → Line → List Line
  | [], cur => [cur.reverse]
  | c :: cs, cur => if c == '\n' then cur.reverse :: splitNl cs [] else splitNl cs (c :: cur)

/-- strip_lines -/
def stripLines (s : Line) : Line :=
  if endsWithNl s then joinNl ((splitNl s.dropLast []).map rstrip) ++ ['\n']
  else joinNl ((splitNl s []).map rstrip)

/-- to_preferred_order(keys, preferred_order): the preferred ones first in their order, then the
    rest sorted -/
def toPreferredOrder (keys preferred : List Line) : List Line :=
  preferred.filter (fun k => keys.contains k) ++
    sortLines ((keys.filter (fun k => !preferred.contains k)).eraseDups)

end TddaVerif.TddaFile

/-! ### dictionary-level model of `to_dict` / `initialize_from_dict` -/
namespace TddaVerif.TddaFile
open TddaVerif.Py

/-- a naive datetime as its civil fields (what `datetime.datetime(...)` holds) -/
structure Naive where
  y : Nat
  mo : Nat
  d : Nat
  h : Nat
  mi : Nat
  s : Nat
  us : Nat
deriving DecidableEq, Repr

def isLeap (y : Nat) : Bool := (y % 4 == 0 && y % 100 != 0) || y % 400 == 0

def daysInMonth (y m : Nat) : Nat :=
  if m == 2 then (if isLeap y then 29 else 28)
  else if m == 4 || m == 6 || m == 9 || m == 11 then 30 else 31

/-- the argument check of `datetime.datetime(y, m, d, H, M, S, us)` -/
def Naive.valid (t : Naive) : Bool :=
  1 ≤ t.y && t.y ≤ 9999 && 1 ≤ t.mo && t.mo ≤ 12 && 1 ≤ t.d && t.d ≤ daysInMonth t.y t.mo &&
  t.h ≤ 23 && t.mi ≤ 59 && t.s ≤ 59 && t.us ≤ 999999

def digitChar (n : Nat) : Char := Char.ofNat (48 + n % 10)

/-- `'%0kd' % n` for n < 10^k -/
def pad : Nat → Nat → Line
  | 0, _ => []
  | k + 1, n => pad k (n / 10) ++ [digitChar n]

/-- `str(datetime)`: `YYYY-MM-DD HH:MM:SS` and `.ffffff` when the microsecond is not 0 -/
def strNaive (t : Naive) : Line :=
  pad 4 t.y ++ ['-'] ++ pad 2 t.mo ++ ['-'] ++ pad 2 t.d ++ [' '] ++
  pad 2 t.h ++ [':'] ++ pad 2 t.mi ++ [':'] ++ pad 2 t.s ++
  (if t.us == 0 then [] else '.' :: pad 6 t.us)

def isDigit (c : Char) : Bool := '0' ≤ c && c ≤ '9'

def natOfDigits (l : Line) : Nat := l.foldl (fun n c => 10 * n + (c.toNat - 48)) 0

/-- take a run of 1..maxN ASCII digits (greedy), return (value, rest) -/
def takeDigits (maxN : Nat) (l : Line) : Option (Nat × Line) :=
  let ds := (l.takeWhile isDigit).take maxN
  if ds.isEmpty then none else some (natOfDigits ds, l.drop ds.length)

/-- exactly n digits -/
def takeExact (n : Nat) (l : Line) : Option (Nat × Line) :=
  let ds := l.take n
  if ds.length == n && ds.all isDigit then some (natOfDigits ds, l.drop n) else none

def expectOneOf (cs : List Char) (l : Line) : Option Line :=
  match l with
  | c :: rest => if cs.contains c then some rest else none
  | [] => none

/-- the date part: 4 digits, `-` or `/`, 1-2 digits, `-` or `/`, 1-2 digits -/
def parseDatePart (l : Line) : Option (Nat × Nat × Nat × Line) := do
  let (y, r1) ← takeExact 4 l
  let r2 ← expectOneOf ['-', '/'] r1
  let (m, r3) ← takeDigits 2 r2
  let r4 ← expectOneOf ['-', '/'] r3
  let (d, r5) ← takeDigits 2 r4
  pure (y, m, d, r5)

/-- the time part: space or `T`, 1-2 digits, `:`, 2 digits, `:`, 2 digits -/
def parseTimePart (l : Line) : Option (Nat × Nat × Nat × Line) := do
  let r0 ← expectOneOf [' ', 'T'] l
  let (h, r1) ← takeDigits 2 r0
  let r2 ← expectOneOf [':'] r1
  let (mi, r3) ← takeExact 2 r2
  let r4 ← expectOneOf [':'] r3
  let (s, r5) ← takeExact 2 r4
  pure (h, mi, s, r5)

inductive NaiveParse
  | notDate
  /-- one of the three layouts matched but `datetime(...)` rejected the numbers: the string is kept -/
  | invalid
  | ok (t : Naive)
deriving DecidableEq, Repr

/-- the three naive layouts RD, RDT, RDTM in turn (`$` also accepts one final newline); the second component tells
    whether the date-only layout RD was the one that matched -/
def getNaiveL (s : Line) : NaiveParse × Bool :=
  let fin (rest : Line) : Bool := rest == [] || rest == ['\n']
  let mk (t : Naive) : NaiveParse := if t.valid then .ok t else .invalid
  match parseDatePart s with
  | none => (.notDate, false)
  | some (y, m, d, r) =>
    if fin r then (mk ⟨y, m, d, 0, 0, 0, 0⟩, true)
    else match parseTimePart r with
      | none => (.notDate, false)
      | some (h, mi, sec, r2) =>
        if fin r2 then (mk ⟨y, m, d, h, mi, sec, 0⟩, false)
        else match r2 with
          | '.' :: fr =>
            let ds := fr.takeWhile isDigit
            if !ds.isEmpty && fin (fr.drop ds.length) then (mk ⟨y, m, d, h, mi, sec, natOfDigits ds⟩, false)
            else (.notDate, false)
          | _ => (.notDate, false)

def getNaive (s : Line) : NaiveParse := (getNaiveL s).1

/-- a datetime as `datetime.datetime` holds it: the civil fields and, for an aware one, the UTC offset in seconds -/
structure Civil where
  naive : Naive
  off : Option Int := none
deriving DecidableEq, Repr

/-- the argument checks of `datetime.datetime(...)` and of `datetime.timezone(offset)` (strictly within a day) -/
def Civil.valid (t : Civil) : Bool :=
  t.naive.valid && (match t.off with
    | none => true
    | some o => decide (-86400 < o) && decide (o < 86400))

/-- the `+HH:MM` / `-HH:MM` suffix `str()` gives a UTC offset (in seconds), with `:SS` when it is not a whole minute -/
def strOffset (o : Int) : Line :=
  (if o < 0 then '-' else '+') :: (pad 2 (o.natAbs / 3600) ++ ':' :: pad 2 (o.natAbs / 60 % 60)) ++
    (if o.natAbs % 60 = 0 then [] else ':' :: pad 2 (o.natAbs % 60))

/-- `str(datetime)`: the naive text, followed by the offset for an aware one -/
def strDatetime (t : Civil) : Line :=
  strNaive t.naive ++ (match t.off with | none => [] | some o => strOffset o)

/-- does the text end with `:dd` or `:dd.d+` (what RTZ demands of the part before the offset)? -/
def endsWithSeconds (b : Line) : Bool :=
  let r := b.reverse
  let afterFrac : Line :=
    let ds := r.takeWhile isDigit
    match r.drop ds.length with
    | '.' :: rest => if ds.isEmpty then r else rest
    | _ => r
  let plain (q : Line) : Bool :=
    match q with
    | d2 :: d1 :: ':' :: _ => isDigit d2 && isDigit d1
    | _ => false
  plain r || plain afterFrac

/-- the `[+-]dd:dd` ending of RTZ (read from the end): the text before it and the offset in seconds -/
def splitOffset6 (s' : Line) : Option (Line × Int) :=
  match s'.reverse with
  | m2 :: m1 :: c :: h2 :: h1 :: sg :: rbody =>
    if (sg == '+' || sg == '-') && isDigit h1 && isDigit h2 && c == ':' && isDigit m1 && isDigit m2 &&
       endsWithSeconds rbody.reverse then
      let secs : Nat := natOfDigits [h1, h2] * 3600 + natOfDigits [m1, m2] * 60
      some (rbody.reverse, if sg == '-' then -(secs : Int) else (secs : Int))
    else none
  | _ => none

/-- the `[+-]dd:dd:dd` ending of RTZ (an offset that is not a whole minute) -/
def splitOffset9 (s' : Line) : Option (Line × Int) :=
  match s'.reverse with
  | s2 :: s1 :: c2 :: m2 :: m1 :: c :: h2 :: h1 :: sg :: rbody =>
    if (sg == '+' || sg == '-') && isDigit h1 && isDigit h2 && c == ':' && isDigit m1 && isDigit m2 && c2 == ':' &&
       isDigit s1 && isDigit s2 && endsWithSeconds rbody.reverse then
      let secs : Nat := natOfDigits [h1, h2] * 3600 + natOfDigits [m1, m2] * 60 + natOfDigits [s1, s2]
      some (rbody.reverse, if sg == '-' then -(secs : Int) else (secs : Int))
    else none
  | _ => none

/-- one of the two endings -/
def splitOffsetEnd (s' : Line) : Option (Line × Int) :=
  match splitOffset9 s' with
  | some r => some r
  | none => splitOffset6 s'

/-- RTZ `^(.*:\d{2}(?:\.\d+)?)([+-])(\d{2}):(\d{2})(?::(\d{2}))?$`: the text before the offset and the offset in seconds
    (the two endings exclude each other: the sixth character from the end is a sign in one and a colon in the other) -/
def splitOffset (s : Line) : Option (Line × Int) :=
  let s' := if s.getLast? == some '\n' then s.dropLast else s
  if s'.contains '\n' then none else splitOffsetEnd s'

inductive DateParse
  | notDate
  /-- a layout matched but `datetime(...)` / `timezone(...)` rejected the numbers: the string is kept -/
  | invalid
  | ok (t : Civil)
deriving DecidableEq, Repr

/-- get_date (:988-1012) on ASCII text: an optional UTC offset (RTZ) is split off, the rest is read by the naive
    layouts (the date-only layout is not accepted together with an offset) -/
def getDate (s : Line) : DateParse :=
  match splitOffset s with
  | none =>
    (match getNaive s with
     | .notDate => .notDate
     | .invalid => .invalid
     | .ok n => .ok ⟨n, none⟩)
  | some (body, off) =>
    (match getNaiveL body with
     | (_, true) => .notDate
     | (.notDate, _) => .notDate
     | (.invalid, _) => .invalid
     | (.ok n, _) => if decide (-86400 < off) && decide (off < 86400) then .ok ⟨n, some off⟩ else .invalid)

/-- scalar values of the dictionary / of constraint objects -/
inductive Atom
  | null
  | bool (b : Bool)
  | int (n : Int)
  /-- a float, by its `repr` text (never re-derived) -/
  | float (repr : Line)
  | str (s : Line)
  /-- only in memory: a `datetime.datetime` -/
  | datetime (t : Civil)
deriving DecidableEq, Repr

/-- a value in the dictionary under one constraint kind -/
inductive JVal
  | atom (a : Atom)
  | list (xs : List Atom)
  | dict (kvs : List (Line × Atom))
deriving DecidableEq, Repr

/-- an in-memory constraint object: kind, value (an atom or a list), precision (min / max only) -/
structure Con where
  kind : Line
  value : JVal
  precision : Option Line := none
deriving DecidableEq, Repr

def lit (s : String) : Line := s.toList

def standardKinds : List Line :=
  [lit "type", lit "min", lit "min_length", lit "max", lit "max_length", lit "sign", lit "max_nulls",
   lit "no_duplicates", lit "allowed_values", lit "rex", lit "transform"]

def precisions : List Line := [lit "open", lit "closed", lit "fuzzy"]
def signs : List Line := [lit "positive", lit "non-negative", lit "zero", lit "non-positive", lit "negative", lit "null"]
def types : List Line := [lit "bool", lit "int", lit "real", lit "date", lit "string"]

inductive LoadErr | typeError | invalidSpec
deriving DecidableEq, Repr

/-- Constraint.to_dict_value: datetimes are rendered with str() -/
def renderAtom : Atom → Atom
  | .datetime t => .str (strDatetime t)
  | a => a

def renderVal : JVal → JVal
  | .atom a => .atom (renderAtom a)
  | v => v

/-- to_dict_value of one constraint -/
def conToDict (c : Con) : JVal :=
  match c.precision with
  | some p =>
    (match renderVal c.value with
     | .atom a => .dict [(lit "value", a), (lit "precision", .str p)]
     | v => v)
  | none => renderVal c.value

/-- FieldConstraints.to_dict_value: kinds in preferred order -/
def fieldToDict (cs : List Con) : List (Line × JVal) :=
  (toPreferredOrder (cs.map (·.kind)) standardKinds).filterMap
    (fun k => (cs.find? (fun c => c.kind == k)).map (fun c => (k, conToDict c)))

def toDict (fields : List (Line × List Con)) : List (Line × List (Line × JVal)) :=
  fields.map (fun f => (f.1, fieldToDict f.2))

def lookupKw (kvs : List (Line × Atom)) (k : Line) : Option Atom :=
  (kvs.find? (fun kv => kv.1 == k)).map (·.2)

/-- which keyword arguments the constructor of a kind accepts (besides `value`) -/
def acceptsComment (kind : Line) : Bool := kind != lit "min_length" && kind != lit "transform"
def acceptsPrecision (kind : Line) : Bool := kind == lit "min" || kind == lit "max"

/-- `check_validity` for an enumerated atom: `value in [None] + allowed` -/
def validEnum (allowed : List Line) : Atom → Bool
  | .null => true
  | .str s => allowed.contains s
  | _ => false

/-- the constructor call for one (kind, value) pair of the dictionary -/
def construct (kind : Line) (v : JVal) : Except LoadErr Con :=
  -- unpack a dict-valued entry into (value, precision)
  let unpacked : Except LoadErr (JVal × Option Atom) :=
    match v with
    | .dict kvs =>
      if kvs.any (fun kv => !(kv.1 == lit "value" || (kv.1 == lit "comment" && acceptsComment kind) ||
                              (kv.1 == lit "precision" && acceptsPrecision kind))) then .error .typeError
      else match lookupKw kvs (lit "value") with
        | some a => .ok (.atom a, lookupKw kvs (lit "precision"))
        | none => if kind == lit "no_duplicates" then .ok (.atom (.bool true), none) else .error .typeError
    | other => .ok (other, none)
  match unpacked with
  | .error e => .error e
  | .ok (value, prec) =>
    if kind == lit "min" || kind == lit "max" then
      (match prec with
       | none | some .null => .ok { kind := kind, value := value, precision := none }
       | some (.str p) => if precisions.contains p then .ok { kind := kind, value := value, precision := some p }
                          else .error .invalidSpec
       | some _ => .error .invalidSpec)
    else if kind == lit "sign" then
      (match value with
       | .atom a => if validEnum signs a then .ok { kind := kind, value := value } else .error .invalidSpec
       | _ => .error .invalidSpec)
    else if kind == lit "type" then
      (match value with
       | .atom a => if validEnum types a then .ok { kind := kind, value := value } else .error .invalidSpec
       | .list xs => if xs.all (fun a => match a with | .str s => types.contains s | _ => false)
                     then .ok { kind := kind, value := value } else .error .invalidSpec
       | .dict _ => .error .invalidSpec)
    else if kind == lit "no_duplicates" then
      (match value with
       | .atom .null | .atom (.bool _) => .ok { kind := kind, value := value }
       | .atom (.int n) => if n == 0 || n == 1 then .ok { kind := kind, value := value } else .error .invalidSpec
       | _ => .error .invalidSpec)
    else if kind == lit "rex" then
      (match value with
       | .atom .null | .list _ => .ok { kind := kind, value := value }
       | _ => .error .typeError)
    else .ok { kind := kind, value := value }

/-- the date re-parse applied to min / max of a field whose `type` is the string `date` -/
def reparseDate (c : Con) : Con :=
  match c.value with
  | .atom (.str s) => (match getDate s with
                        | .ok t => { c with value := .atom (.datetime t) }
                        | _ => c)
  | _ => c

structure Loaded where
  fields : List (Line × List Con)
  /-- kinds that produced the "unknown constraint kind" warning -/
  warnings : List (Line × Line)
deriving DecidableEq, Repr

/-- insert into an insertion-ordered dict keyed by kind (a later duplicate replaces the value in place) -/
def putCon (cs : List Con) (c : Con) : List Con :=
  if cs.any (fun x => x.kind == c.kind) then cs.map (fun x => if x.kind == c.kind then c else x) else cs ++ [c]

/-- one field of initialize_from_dict (:173-191) -/
def loadField (name : Line) (c : List (Line × JVal)) : Except LoadErr (List Con × List (Line × Line)) :=
  let isDate := lookupKindVal c == some (JVal.atom (.str (lit "date")))
  c.foldlM (fun (acc : List Con × List (Line × Line)) kv =>
    if standardKinds.contains kv.1 then
      match construct kv.1 kv.2 with
      | .error e => .error e
      | .ok con =>
        let con := if isDate && (kv.1 == lit "min" || kv.1 == lit "max") then reparseDate con else con
        .ok (putCon acc.1 con, acc.2)
    else if kv.1.head? == some '#' then .ok acc
    else .ok (acc.1, acc.2 ++ [(name, kv.1)])) ([], [])
where
  lookupKindVal (c : List (Line × JVal)) : Option JVal := (c.find? (fun kv => kv.1 == lit "type")).map (·.2)

/-- insert into the insertion-ordered `fields` dict -/
def putField (fs : List (Line × List Con)) (name : Line) (cs : List Con) : List (Line × List Con) :=
  if fs.any (fun f => f.1 == name) then fs.map (fun f => if f.1 == name then (name, cs) else f)
  else fs ++ [(name, cs)]

/-- initialize_from_dict on the `fields` dictionary -/
def fromDict (fields : List (Line × List (Line × JVal))) : Except LoadErr Loaded :=
  fields.foldlM (fun (acc : Loaded) f =>
    match loadField f.1 f.2 with
    | .error e => .error e
    | .ok (cs, ws) =>
      .ok { fields := if cs.isEmpty then acc.fields else putField acc.fields f.1 cs,
            warnings := acc.warnings ++ ws }) { fields := [], warnings := [] }

end TddaVerif.TddaFile
