/-
Model of the command-line handling of `tdda discover | verify | detect` for files:
  tdda/constraints/flags.py  (discover_flags :89-96, verify_flags :174-195, detect_flags :198-245)
  tdda/constraints/pd/{discover,verify,detect}.py  (pd_*_params)
The parsers themselves (the add_argument calls) are not written here: the option and positional
tables are regenerated from the source (Generated/Flags.lean) and the scanner below is parametric in them.
The scanner models argparse on the documented way of writing options: exact spellings, a value in the
next token, `nargs='*'` lists up to the next option-like token; abbreviations, clusters of short
options and `--opt=value` are outside the model (the correspondence does not generate them).
-/
namespace TddaVerif.Flags

abbrev Tok := List Char

structure Opt where
  spellings : List Tok
  dest : Tok
  kind : Nat                 -- 0 store_true, 1 one value, 2 list, 3 help
  choices : List Tok
  type : Tok
deriving Repr, DecidableEq

def Opt.ofRow (r : List Tok × Tok × Nat × List Tok × Tok) : Opt :=
  { spellings := r.1, dest := r.2.1, kind := r.2.2.1, choices := r.2.2.2.1, type := r.2.2.2.2 }

/-- a token argparse takes for an option rather than an argument (the parsers register `-7`, so
    negative-number-like tokens count as well) -/
def looksLikeOption (t : Tok) : Bool := t.head? == some '-' && t.length ≥ 2

def findOpt (opts : List Opt) (t : Tok) : Option Opt := opts.find? (fun o => o.spellings.contains t)

def isDigit (c : Char) : Bool := '0' ≤ c && c ≤ '9'

/-- the simple decimal float syntax: digits [. digits] [e[+-]digits] | . digits ... -/
def isFloatTok (t : Tok) : Bool :=
  let (mant, exp) := (t.takeWhile (fun c => c != 'e' && c != 'E'), t.dropWhile (fun c => c != 'e' && c != 'E'))
  let ip := mant.takeWhile isDigit
  let rest := mant.dropWhile isDigit
  let mantOk := match rest with
    | [] => !ip.isEmpty
    | '.' :: fr => fr.all isDigit && (!ip.isEmpty || !fr.isEmpty)
    | _ => false
  let expOk := match exp with
    | [] => true
    | _ :: e =>
      let d := match e with
        | '+' :: d => d
        | '-' :: d => d
        | d => d
      !d.isEmpty && d.all isDigit
  mantOk && expOk

structure Parsed where
  bools : List Tok := []                  -- dests of the store_true options seen
  values : List (Tok × Tok) := []         -- (dest, value), latest first
  lists : List (Tok × List Tok) := []     -- (dest, items), latest first
  positionals : List Tok := []
  unknown : List Tok := []                -- option-like tokens no parser entry names
deriving Repr, DecidableEq

inductive Outcome
  | help                                   -- argparse prints help, exit 0
  | usage                                  -- argparse error, exit 2
  | ok (p : Parsed)
deriving Repr, DecidableEq

/-- left-to-right scan; `fuel` bounds the recursion (argv.length + 1 suffices) -/
def scan (opts : List Opt) : Nat → List Tok → Parsed → Outcome
  | 0, _, _ => .usage
  | _ + 1, [], p => .ok p
  | fuel + 1, t :: rest, p =>
    if looksLikeOption t then
      match findOpt opts t with
      | none => scan opts fuel rest { p with unknown := p.unknown ++ [t] }
      | some o =>
        if o.kind == 0 then scan opts fuel rest { p with bools := p.bools ++ [o.dest] }
        else if o.kind == 3 then .help
        else if o.kind == 1 then
          match rest with
          | [] => .usage
          | v :: rest' =>
            if looksLikeOption v then .usage
            else if !o.choices.isEmpty && !o.choices.contains v then .usage
            else if o.type == "float".toList && !isFloatTok v then .usage
            else scan opts fuel rest' { p with values := (o.dest, v) :: p.values }
        else
          let items := rest.takeWhile (fun x => !looksLikeOption x)
          let rest' := rest.dropWhile (fun x => !looksLikeOption x)
          scan opts fuel rest' { p with lists := (o.dest, items) :: p.lists }
    else scan opts fuel rest { p with positionals := p.positionals ++ [t] }

def Parsed.flag (p : Parsed) (d : String) : Bool := p.bools.contains d.toList
def Parsed.value (p : Parsed) (d : String) : Option Tok := (p.values.find? (fun kv => kv.1 == d.toList)).map (·.2)
def Parsed.list (p : Parsed) (d : String) : Option (List Tok) := (p.lists.find? (fun kv => kv.1 == d.toList)).map (·.2)

inductive PVal
  | b (v : Bool) | s (v : Tok) | f (raw : Tok) | l (v : List Tok) | none
deriving Repr, DecidableEq

abbrev Params := List (String × PVal)

inductive Result
  | exit0                                   -- help
  | reject                                  -- non-zero exit
  | run (params : Params)
deriving Repr, DecidableEq

def optS (o : Option Tok) : PVal := match o with | some t => .s t | none => .none

/-- positional arity: too few -> argparse usage error; too many -> left over, "unexpected arguments" -/
def arityOk (required max : Nat) (p : Parsed) : Bool :=
  required ≤ p.positionals.length && p.positionals.length ≤ max && p.unknown.isEmpty

def discoverParams (p : Parsed) : Result :=
  if !arityOk 1 2 p then .reject
  else if p.flag "rex" && p.flag "norex" then .reject
  else .run [("inc_rex", .b (p.flag "rex")),
             ("df_path", optS p.positionals[0]?), ("constraints_path", optS p.positionals[1]?)]

def verifyParams (p : Parsed) : Result :=
  if !arityOk 1 2 p then .reject
  else if p.flag "all" && p.flag "fields" then .reject
  else .run ([("report", .s (if p.flag "all" then "all".toList else if p.flag "fields" then "fields".toList else "all".toList)),
              ("ascii", .b (p.flag "ascii"))] ++
             (match p.value "type_checking" with | some v => [("type_checking", .s v)] | none => []) ++
             (match p.value "epsilon" with | some v => [("epsilon", .f v)] | none => []) ++
             [("df_path", optS p.positionals[0]?), ("constraints_path", optS p.positionals[1]?)])

def detectParams (p : Parsed) : Result :=
  if !arityOk 1 3 p then .reject
  else if p.flag "all" && p.flag "fields" then .reject
  else if p.flag "per_constraint" && p.flag "no_per_constraint" then .reject
  else if (p.list "output_fields").isSome && p.flag "no_output_fields" then .reject
  else .run ([("report", .s "records".toList), ("ascii", .b (p.flag "ascii"))] ++
             (match p.value "type_checking" with | some v => [("type_checking", .s v)] | none => []) ++
             (match p.value "epsilon" with | some v => [("epsilon", .f v)] | none => []) ++
             (if p.flag "write_all" then [("write_all", .b true)] else []) ++
             (if !p.flag "no_per_constraint" then [("per_constraint", .b true)] else []) ++
             (if p.flag "index" then [("index", .b true)] else []) ++
             (if p.flag "boolean_ints" then [("boolean_ints", .b true)] else []) ++
             (match p.list "output_fields" with
              | some l => [("output_fields", .l l)]
              | none => if !p.flag "no_output_fields" then [("output_fields", .l [])] else []) ++
             (if p.flag "interleave" then [("interleave", .b true)] else []) ++
             [("in_place", .b false),
              ("df_path", optS p.positionals[0]?), ("constraints_path", optS p.positionals[1]?),
              ("outpath", optS p.positionals[2]?)])

inductive Cmd | discover | verify | detect
deriving Repr, DecidableEq

def paramsOf (cmd : Cmd) (p : Parsed) : Result :=
  match cmd with
  | .discover => discoverParams p
  | .verify => verifyParams p
  | .detect => detectParams p

/-- `pd_<cmd>_params(args)` as far as its caller can tell -/
def run (cmd : Cmd) (opts : List Opt) (argv : List Tok) : Result :=
  match scan opts (argv.length + 1) argv {} with
  | .help => .exit0
  | .usage => .reject
  | .ok p => paramsOf cmd p

end TddaVerif.Flags
