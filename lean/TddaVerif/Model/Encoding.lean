/-
Model of the encoding a text comparison reads and writes files in: tdda/referencetest/utils.py
  get_short_ext (:84-86), guess_encoding (:66-70), normalize_encoding (:73-75), get_encoding (:78-82).
The constants of guess_encoding are parameters here; Generated/Utils.lean holds the ones of the source.
-/
import TddaVerif.Model.Applicable
namespace TddaVerif.Encoding
open TddaVerif.Applicable TddaVerif.Py

abbrev Enc := List Char

/-- `os.path.splitext(path)[1].lower()[1:]` (ASCII lower-casing) -/
def shortExt (path : Line) : Line := ((splitextExt path).map Char.toLower).drop 1

structure Consts where
  specialExt : Line
  specialEnc : Enc
  dflt : Enc

def guessEncoding (k : Consts) (path : Line) : Enc :=
  if shortExt path = k.specialExt then k.specialEnc else k.dflt

/-- normalize_encoding: lower case, and `utf8` spelled `utf-8` -/
def normalizeEncoding (e : Enc) : Enc :=
  let lc := e.map Char.toLower
  if lc = "utf8".toList then "utf-8".toList else lc

/-- get_encoding(path, encoding) -/
def getEncoding (k : Consts) (path : Line) (enc : Option Enc) : Enc :=
  match enc with
  | none => guessEncoding k path
  | some e => normalizeEncoding e

end TddaVerif.Encoding
