/-
Model of the value comparison of same_structure_ddiff (tdda/referencetest/checkpandas.py :257-289) on one pair of
numeric cells: both frames are rounded to `precision` decimals (DataFrame.round = numpy.round: round half to even
of x * 10^p, divided by 10^p) and compared; nulls equal nulls only. Values are the exact rationals of the floats.
-/
namespace TddaVerif.Round

/-- round half to even -/
def rint (q : Rat) : Int :=
  let f := q.floor
  let d := q - f
  if d < 1 / 2 then f
  else if d > 1 / 2 then f + 1
  else if f % 2 == 0 then f else f + 1

def pow10 (p : Nat) : Rat := (10 ^ p : Nat)

/-- numpy.round(x, p) on exact values -/
def roundTo (p : Nat) (x : Rat) : Rat := (rint (x * pow10 p) : Rat) / pow10 p

/-- two corresponding cells compare equal -/
def cellsEqual (p : Nat) : Option Rat → Option Rat → Bool
  | none, none => true
  | some a, some b => roundTo p a == roundTo p b
  | _, _ => false

end TddaVerif.Round
