/-
Model of the decision logic of tdda/referencetest/gentest.py that does not need a shell:
  test_name (:773-783)      one test name per reference file, made distinct
  write_script (:666-743)   which tests a generated script contains
  is_date_like (:976-1040)  which number triples count as dates (numeric branch) / possible_date
Running commands, copying files, detecting file types and rendering Python text are not modelled.
-/
namespace TddaVerif.Gentest

abbrev Name := List Char

def isAsciiAlnum (c : Char) : Bool := ('a' ≤ c && c ≤ 'z') || ('A' ≤ c && c ≤ 'Z') || ('0' ≤ c && c ≤ '9')

/-- `''.join(c if c.isalnum() else '_' for c in name)`; `alnum` stands for `str.isalnum` -/
def sanitize (alnum : Char → Bool) (name : Name) : Name := name.map (fun c => if alnum c then c else '_')

/-- decimal digits of a number, most significant first (`str(n)`) -/
def digitsAux : Nat → Nat → List Char → List Char
  | 0, _, acc => acc
  | fuel + 1, n, acc =>
    let acc' := Char.ofNat (48 + n % 10) :: acc
    if n / 10 = 0 then acc' else digitsAux fuel (n / 10) acc'

def natText (n : Nat) : List Char := digitsAux (n + 1) n []

/-- names taken by the tests every script has -/
def reserved : List Name := ["no_exception".toList, "exit_code".toList, "stdout".toList, "stderr".toList]

structure NameState where
  taken : List Name := reserved
  qualifier : Nat := 1
deriving Repr, DecidableEq

/-- the `while testname in self.test_names` loop; the fuel `taken.length + 1` always suffices -/
def bump (base : Name) (taken : List Name) : Nat → Nat → Name × Nat
  | 0, q => (base ++ natText (q + 1), q + 1)
  | fuel + 1, q =>
    let cand := base ++ natText (q + 1)
    if taken.contains cand then bump base taken fuel (q + 1) else (cand, q + 1)

/-- TestGenerator.test_name on a file's base name -/
def testName (alnum : Char → Bool) (st : NameState) (basename : Name) : Name × NameState :=
  let base := sanitize alnum basename
  if st.taken.contains base then
    let r := bump base st.taken (st.taken.length + 1) st.qualifier
    (r.1, { taken := r.1 :: st.taken, qualifier := r.2 })
  else (base, { st with taken := base :: st.taken })

def testNames (alnum : Char → Bool) : NameState → List Name → List Name
  | _, [] => []
  | st, b :: bs => let r := testName alnum st b; r.1 :: testNames alnum r.2 bs

inductive Kind | string | textFile | binaryFile
deriving Repr, DecidableEq

structure TestDef where
  name : Name
  kind : Option Kind          -- none: the two fixed tests (no exception, exit code)
  subject : Name              -- "stdout" / "stderr" / the file's base name
deriving Repr, DecidableEq

/-- the tests written to the script, in order: the two fixed ones, the stream tests that were asked for,
    one per reference file (text or binary) -/
def plan (alnum : Char → Bool) (checkStdout checkStderr : Bool) (files : List (Name × Bool)) : List TestDef :=
  [{ name := "no_exception".toList, kind := none, subject := [] },
   { name := "exit_code".toList, kind := none, subject := [] }] ++
  (if checkStdout then [{ name := "stdout".toList, kind := some .string, subject := "stdout".toList }] else []) ++
  (if checkStderr then [{ name := "stderr".toList, kind := some .string, subject := "stderr".toList }] else []) ++
  (List.zipWith (fun (f : Name × Bool) n => { name := n, kind := some (if f.2 then Kind.textFile else Kind.binaryFile), subject := f.1 })
    files (testNames alnum {} (files.map (·.1))))

/-! ### dates -/

def isLeap (y : Nat) : Bool := (y % 4 == 0 && y % 100 != 0) || y % 400 == 0

def daysInMonth (y m : Nat) : Nat :=
  if m == 2 then (if isLeap y then 29 else 28)
  else if m == 4 || m == 6 || m == 9 || m == 11 then 30 else 31

/-- `datetime.datetime(y, m, d)` succeeds -/
def possibleDate (y m d : Nat) : Bool :=
  1 ≤ y && y ≤ 9999 && 1 ≤ m && m ≤ 12 && 1 ≤ d && d ≤ daysInMonth y m

/-- the numeric branch of is_date_like for the numbers found; `inRange y m d` = within the plausible
    window (always true when no window is given) -/
def numDateLike (n1 n2 n3 : Nat) (inRange : Nat → Nat → Nat → Bool) : Bool :=
  let n1Day := 1 ≤ n1 && n1 ≤ 31
  let n1Month := 1 ≤ n1 && n1 ≤ 12
  let n2Day := 1 ≤ n2 && n2 ≤ 31
  let n2Month := 1 ≤ n2 && n2 ≤ 12
  let n3Day := 1 ≤ n3 && n3 ≤ 31
  (n1Day && n2Month && possibleDate n3 n2 n1 && inRange n3 n2 n1) ||
  (n3Day && n2Month && possibleDate n1 n2 n3 && inRange n1 n2 n3) ||
  (n2Day && n1Month && possibleDate n3 n1 n2 && inRange n3 n1 n2)

end TddaVerif.Gentest
