/-
Model of the structure checks of tdda/referencetest/checkpandas.py:
  loosen_type / types_match (:830-861), resolve_option_flag (:801-820),
  the column-structure part of check_dataframe (:140-175) and its pass/fail decision (:176-207).
Value comparison (`DataFrame.round` / `equals`, sorting, the condition filter) is a parameter.
Dtype names are ASCII texts.
-/
import TddaVerif.Py.Text
namespace TddaVerif.CheckPandas
open TddaVerif.Py

def lowerAscii (c : Char) : Char := if 'A' ≤ c && c ≤ 'Z' then Char.ofNat (c.toNat + 32) else c

def untilBracket : Line → Line
  | [] => []
  | c :: cs => if c == '[' then [] else c :: untilBracket cs

/-- loosen_type: drop digits, lower-case, cut at `[`, `boolean` is `bool` -/
def loosenType (t : Line) : Line :=
  let name := untilBracket ((t.filter (fun c => !('0' ≤ c && c ≤ '9'))).map lowerAscii)
  if name == "boolean".toList then "bool".toList else name

inductive Level | strict | medium | permissive
deriving DecidableEq, Repr

def objectTypes : List Line := ["string".toList, "boolean".toList, "datetime".toList, "bool".toList]
def numericTypes : List Line := ["bool".toList, "boolean".toList, "int".toList, "float".toList]

/-- types_match(t1, t2, level) on dtype names -/
def typesMatch (t1 t2 : Line) (level : Level) : Bool :=
  if level == .strict || t1 == t2 then t1 == t2
  else
    let a := loosenType t1
    let b := loosenType t2
    if a == b || (a == "object".toList && objectTypes.contains b) || (b == "object".toList && objectTypes.contains a)
    then true
    else if level == .permissive && numericTypes.contains a && numericTypes.contains b then true
    else false

/-- an option flag after `resolve_option_flag`: `none` = None / True (all columns of the frame it is
    resolved against), `some l` = False (`[]`), a list, or the list a function returned -/
abbrev Flag := Option (List Line)

def resolve (f : Flag) (cols : List Line) : List Line := f.getD cols

structure Col where
  name : Line
  dtype : Line
deriving DecidableEq, Repr

/-- replace_cats: categoricals are compared as strings -/
def catAsString (c : Col) : Col := if c.dtype == "category".toList then { c with dtype := "string".toList } else c

def dtypeOf (cols : List Col) (n : Line) : Option Line := (cols.find? (fun c => c.name == n)).map (·.dtype)

structure Structure where
  missing : List Line
  extra : List Line
  wrongTypes : List Line
  wrongOrdering : Bool
deriving DecidableEq, Repr

/-- the column-structure checks of check_dataframe. `checkOrder = none` stands for
    `check_order=False` (skipped), `some f` for the flag `f` (`some none` = all columns).
    Frames with duplicated column names are outside the model (pandas raises on `df[c].dtype`). -/
def structureOf (act ref : List Col) (checkTypes checkExtra : Flag) (checkOrder : Option Flag) (level : Level) :
    Structure :=
  let act := act.map catAsString
  let ref := ref.map catAsString
  let an := act.map (·.name)
  let rn := ref.map (·.name)
  let ct := resolve checkTypes rn
  let ce := resolve checkExtra an
  let missing := ct.filter (fun c => !an.contains c)
  let wrong := ct.filter (fun c => an.contains c &&
    (match dtypeOf act c, dtypeOf ref c with
     | some ta, some tr => !typesMatch ta tr level
     | _, _ => false))
  let unexpected := ct.filter (fun c => an.contains c && !rn.contains c)
  let extra := (ce.filter (fun c => !rn.contains c) ++ unexpected).eraseDups
  let wrongOrdering := match checkOrder with
    | none => false
    | some f =>
      if !missing.isEmpty then false
      else
        let co := resolve f rn
        (an.filter (fun c => co.contains c && rn.contains c)) != (rn.filter (fun c => co.contains c && an.contains c))
  { missing := missing, extra := extra, wrongTypes := wrong, wrongOrdering := wrongOrdering }

def Structure.same (s : Structure) : Bool :=
  s.missing.isEmpty && s.extra.isEmpty && s.wrongTypes.isEmpty && !s.wrongOrdering

/-- check_dataframe's verdict: `valuesEqual cols` = the value comparison of the selected columns passes -/
def checkDataframe (act ref : List Col) (nact nref : Nat) (checkData checkTypes checkExtra : Flag)
    (checkOrder : Option Flag) (level : Level) (valuesEqual : List Line → Bool) : Bool :=
  let st := structureOf act ref checkTypes checkExtra checkOrder level
  if !st.same then false
  else if nact != nref then false
  else
    let cd := resolve checkData (ref.map (·.name))
    let an := act.map (·.name)
    let rn := ref.map (·.name)
    let absent := cd.filter (fun c => !st.missing.contains c && (!an.contains c || !rn.contains c))
    if !absent.isEmpty then false
    else if cd.isEmpty then true
    else valuesEqual (cd.filter (fun c => !st.missing.contains c))

end TddaVerif.CheckPandas
