/-
Model of where failing assertions write their files:
  tdda/referencetest/referencetest.py:17 (DEFAULT_FAIL_DIR), :61 (class attribute), :116-117 (set_defaults), :204
  tdda/referencetest/basecomparison.py:47 (`tmp_dir or tempfile.gettempdir()`), :75-76 (tmp_path_for)
  tdda/referencetest/checkfiles.py:959-1030 (add_failures: which files are written, and under which names)
posixpath.join / posixpath.split are modelled for two parts; the file system is not modelled.
-/
namespace TddaVerif.TmpDir

abbrev Path := List Char

/-- Python truthiness of a `str | None` -/
def truthy : Option Path → Bool
  | some (_ :: _) => true
  | _ => false

/-- referencetest.py:17  `os.environ.get('TDDA_FAIL_DIR', tempfile.gettempdir())` (read once, at import) -/
def defaultFailDir (env : Option Path) (sys : Path) : Path := env.getD sys

/-- the class attribute `tmp_dir` after an optional `set_defaults(tmp_dir=v)` (v may be None) -/
def classTmpDir (setd : Option (Option Path)) (env : Option Path) (sys : Path) : Option Path :=
  match setd with
  | none => some (defaultFailDir env sys)
  | some v => v

/-- basecomparison.py:47  `tmp_dir or tempfile.gettempdir()` -/
def comparisonTmpDir (t : Option Path) (sys : Path) : Path :=
  match t with
  | some (c :: cs) => c :: cs
  | _ => sys

/-- the directory a comparison object writes to -/
def tmpDir (setd : Option (Option Path)) (env : Option Path) (sys : Path) : Path :=
  comparisonTmpDir (classTmpDir setd env sys) sys

/-- posixpath.split(p)[1] = posixpath.basename(p): what follows the last '/' -/
def basename (p : Path) : Path := (p.reverse.takeWhile (· != '/')).reverse

/-- posixpath.join(a, b) -/
def join (a b : Path) : Path :=
  if b.head? = some '/' then b
  else if a = [] ∨ a.getLast? = some '/' then a ++ b
  else a ++ '/' :: b

/-- what add_failures is given -/
structure Call where
  actualPath : Option Path
  expectedPath : Option Path
  /-- `actual is not None` (the actual text as a string) -/
  hasActualText : Bool
  /-- `expected is not None` -/
  hasExpectedText : Bool
  /-- a reconstruction was produced -/
  reconstruction : Bool
  createTemporaries : Bool
deriving Repr, DecidableEq

/-- checkfiles.py:964-972 -/
def commonName (c : Call) : Path :=
  if truthy c.actualPath && truthy c.expectedPath then basename (c.actualPath.getD [])
  else if truthy c.actualPath then basename (c.actualPath.getD [])
  else if truthy c.expectedPath then basename (c.expectedPath.getD [])
  else "file".toList

/-- the names (inside the temporary directory) of the files add_failures writes, in order -/
def writtenNames (c : Call) : List Path :=
  if !c.createTemporaries then []
  else
    let cn := commonName c
    (if truthy c.actualPath && truthy c.expectedPath then []
     else (if c.hasExpectedText && !truthy c.expectedPath then ["expected-raw-".toList ++ cn] else [])
       ++ (if c.hasActualText && !truthy c.actualPath then ["actual-raw-".toList ++ cn] else []))
    ++ (if c.reconstruction then ["actual-".toList ++ cn, "expected-".toList ++ cn] else [])

/-- the paths add_failures writes, in order -/
def written (d : Path) (c : Call) : List Path := (writtenNames c).map (join d)

/-- direct child of a directory: the directory, one separator if it does not end in one, and a name without separator -/
def ChildOf (d p : Path) : Prop :=
  ∃ name, name ≠ [] ∧ '/' ∉ name ∧ (p = d ++ '/' :: name ∨ (p = d ++ name ∧ (d = [] ∨ d.getLast? = some '/')))

end TddaVerif.TmpDir
