/-
Model of tdda/serial/csvw.py csvw_date_format_to_md_date_format (:418-435) and the
CSVW type -> metadata type -> pandas dtype tables (csvw.py:16-79, pandasio.py:5-13).

The replacement chain itself is NOT written here: it is a parameter, instantiated
by the driver and by the theorems with `Generated.Csvw.chain`, which the translator
regenerates from the source on every run.
-/
import TddaVerif.Py.Str
namespace TddaVerif.Csvw
open TddaVerif.Py

abbrev Chain := List (List Char × List Char)

/-- `fmt.replace(o1, n1).replace(o2, n2)…` -/
def applyChain (ch : Chain) (s : List Char) : List Char :=
  ch.foldl (fun s on => replace on.1 on.2 s) s

/-- What `re.match(RE_ISO8601, outfmt)` accepts, for
    RE_ISO8601 = `^%Y-%m-%d([T ]%H:%M:%S(\.%f)?)?$` : five literal strings, each
    optionally followed by one newline (`$` matches before a final newline). -/
def isoDate : List Char := ['%', 'Y', '-', '%', 'm', '-', '%', 'd']
def isoTime : List Char := ['%', 'H', ':', '%', 'M', ':', '%', 'S']
def isoFrac : List Char := ['.', '%', 'f']

def isoForms : List (List Char) :=
  let base := [isoDate,
               isoDate ++ 'T' :: isoTime, isoDate ++ ' ' :: isoTime,
               isoDate ++ 'T' :: isoTime ++ isoFrac, isoDate ++ ' ' :: isoTime ++ isoFrac]
  base ++ base.map (· ++ ['\n'])

def isIso (s : List Char) : Bool := isoForms.contains s

def iso8601 : List Char := ['I', 'S', 'O', '8', '6', '0', '1']

/-- csvw_date_format_to_md_date_format(fmt, extensions) -/
def translate (ch ext : Chain) (extensions : Bool) (fmt : List Char) : List Char :=
  if fmt.contains '%' then fmt
  else
    let out := applyChain ch fmt
    let out := if extensions then applyChain ext out else out
    if isIso out || fmt.isEmpty then iso8601 else out

/-- The documented CSVW date/time pattern fields. -/
inductive Tok | d | dd | M | MM | yy | yyyy | HH | mm | ss | S | SS | SSS
deriving DecidableEq, Repr

def Tok.text : Tok → List Char
  | .d => ['d'] | .dd => ['d', 'd'] | .M => ['M'] | .MM => ['M', 'M']
  | .yy => ['y', 'y'] | .yyyy => ['y', 'y', 'y', 'y'] | .HH => ['H', 'H']
  | .mm => ['m', 'm'] | .ss => ['s', 's']
  | .S => ['S'] | .SS => ['S', 'S'] | .SSS => ['S', 'S', 'S']

/-- the strptime directive that reads the field back -/
def Tok.directive : Tok → List Char
  | .d => ['%', 'd'] | .dd => ['%', 'd'] | .M => ['%', 'm'] | .MM => ['%', 'm']
  | .yy => ['%', 'y'] | .yyyy => ['%', 'Y'] | .HH => ['%', 'H']
  | .mm => ['%', 'M'] | .ss => ['%', 'S']
  | .S => ['%', 'f'] | .SS => ['%', 'f'] | .SSS => ['%', 'f']

def allToks : List Tok := [.d, .dd, .M, .MM, .yy, .yyyy, .HH, .mm, .ss, .S, .SS, .SSS]

/-- The documented separators. -/
inductive Sep | dash | slash | dot | colon | space | T
deriving DecidableEq, Repr

def Sep.char : Sep → Char
  | .dash => '-' | .slash => '/' | .dot => '.' | .colon => ':' | .space => ' ' | .T => 'T'

def allSeps : List Sep := [.dash, .slash, .dot, .colon, .space, .T]

/-- a separated pattern `t0 s1 t1 … sn tn` as CSVW text -/
def render : Tok → List (Sep × Tok) → List Char
  | t, [] => t.text
  | t, (s, t') :: rest => t.text ++ s.char :: render t' rest

/-- the same pattern with every field replaced by its strptime directive -/
def directives : Tok → List (Sep × Tok) → List Char
  | t, [] => t.directive
  | t, (s, t') :: rest => t.directive ++ s.char :: directives t' rest

/-- dict lookup in a generated table -/
def lookup (tbl : List (List Char × List Char)) (k : List Char) : Option (List Char) :=
  (tbl.find? (fun kv => kv.1 == k)).map (·.2)

end TddaVerif.Csvw
