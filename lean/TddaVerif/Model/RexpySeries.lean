/-
Model of rexpy.pdextract (rexpy.py:2123-2163): for every column the distinct non-null values in order of first
occurrence (`c.dropna().drop_duplicates()`), the columns concatenated, then `extract(strings)` with default options.
-/
import TddaVerif.Model.Rexpy
namespace TddaVerif.Rexpy
open TddaVerif.Py

/-- pdextract (rexpy.py: `strings.extend(list(c.dropna().drop_duplicates()))` for each column, then `extract(strings)`):
    the distinct non-null values of each column in order of first occurrence, each once, columns concatenated -/
def pdextractItems (cols : List (List (Option Line))) : List (Option Line × Nat) :=
  (cols.flatMap (fun c => (c.filterMap id).eraseDups)).map (fun s => (some s, 1))

end TddaVerif.Rexpy
