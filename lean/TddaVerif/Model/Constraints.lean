/-
Shared model of tdda's constraint logic:
  tdda/constraints/baseconstraints.py  verify_* (:138-433), discover_field_constraints (:538-633)
  tdda/constraints/base.py             verify() aggregation (:778-856), fuzzy helpers (:992-1045)
  tdda/constraints/pd/constraints.py   detect_* (:229-319), detection_field (:1221-1229),
                                       n_failures arithmetic of write_detected_records (:344-353),
                                       pandas_coarse_type / types_compatible (:576-601)
A column is a list of optional cells; the pandas / SQL aggregates (calc_*) are the
reference aggregates below, tied to the real calc_* methods by the `c02.calc` op.
Reals are exact rationals (binary floating point is not modelled); dates are integer
microseconds; regular expressions are a parameter `rx : Nat → List Char → Bool`
(`re.match` of expression number n under UNICODE|DOTALL).  Core Lean only.
-/
namespace TddaVerif.Constraints

inductive Val
  | b (x : Bool)
  | i (x : Int)
  | r (x : Rat)
  | s (x : List Char)
  | d (micros : Int)
deriving DecidableEq, Repr

inductive FType | bool | int | real | string | date | other
deriving DecidableEq, Repr

inductive Coarse | number | string | date
deriving DecidableEq, Repr

def Val.coarse : Val → Coarse
  | .b _ | .i _ | .r _ => .number
  | .s _ => .string
  | .d _ => .date

def Val.ftype : Val → FType
  | .b _ => .bool | .i _ => .int | .r _ => .real | .s _ => .string | .d _ => .date

/-- numeric view (bool is 0 / 1, as in Python) -/
def Val.num : Val → Option Rat
  | .b x => some (if x then 1 else 0)
  | .i x => some (x : Rat)
  | .r x => some x
  | _ => none

def ltChars : List Char → List Char → Bool
  | [], [] => false
  | [], _ :: _ => true
  | _ :: _, [] => false
  | a :: as, b :: bs => if a.toNat < b.toNat then true else if b.toNat < a.toNat then false else ltChars as bs

/-- `x < y` for two values of the same coarse type (false otherwise) -/
def Val.lt (x y : Val) : Bool :=
  match x.num, y.num with
  | some p, some q => p < q
  | _, _ =>
    match x, y with
    | .s p, .s q => ltChars p q
    | .d p, .d q => p < q
    | _, _ => false

/-- Python `==` between cell values / bounds -/
def Val.eqv (x y : Val) : Bool :=
  match x.num, y.num with
  | some p, some q => p == q
  | _, _ =>
    match x, y with
    | .s p, .s q => p == q
    | .d p, .d q => p == q
    | _, _ => false

def Val.le (x y : Val) : Bool := x.lt y || x.eqv y

structure Column where
  name : List Char
  ftype : FType
  cells : List (Option Val)
deriving Repr

def Column.nonNull (c : Column) : List Val := c.cells.filterMap id

/-- every non-null cell has the constructor the field type says -/
def Column.WF (c : Column) : Bool :=
  c.ftype != .other && c.nonNull.all (fun v => v.ftype == c.ftype)

/-! ### reference aggregates (the calc_* contract) -/

def minOf : List Val → Option Val
  | [] => none
  | v :: vs => match minOf vs with
    | none => some v
    | some m => if v.lt m then some v else some m

def maxOf : List Val → Option Val
  | [] => none
  | v :: vs => match maxOf vs with
    | none => some v
    | some m => if m.lt v then some v else some m

def calcMin (c : Column) : Option Val := minOf c.nonNull
def calcMax (c : Column) : Option Val := maxOf c.nonNull
def calcNullCount (c : Column) : Nat := c.cells.length - c.nonNull.length
def calcNonNullCount (c : Column) : Nat := c.nonNull.length

def dedup : List Val → List Val
  | [] => []
  | v :: vs => if (dedup vs).any (fun w => w.eqv v) then dedup vs else v :: dedup vs

def calcNunique (c : Column) : Nat := (dedup c.nonNull).length

def strLens (c : Column) : List Nat :=
  c.nonNull.filterMap (fun v => match v with | .s x => some x.length | _ => none)

def listMin : List Nat → Option Nat
  | [] => none
  | x :: xs => match listMin xs with | none => some x | some m => some (min x m)

def listMax : List Nat → Option Nat
  | [] => none
  | x :: xs => match listMax xs with | none => some x | some m => some (max x m)

def calcMinLength (c : Column) : Option Nat := listMin (strLens c)
def calcMaxLength (c : Column) : Option Nat := listMax (strLens c)

def insertVal (x : Val) : List Val → List Val
  | [] => [x]
  | y :: ys => if y.lt x then y :: insertVal x ys else x :: y :: ys

def sortVals (l : List Val) : List Val := l.foldr insertVal []

/-- calc_unique_values(include_nulls=False): sorted distinct non-null values -/
def calcUniques (c : Column) : List Val := sortVals (dedup c.nonNull)

def Rat.isWhole (q : Rat) : Bool := q.den == 1

/-- calc_non_integer_values_count on a real column -/
def calcNonIntegerCount (c : Column) : Nat :=
  (c.nonNull.filter (fun v => match v with | .r q => !Rat.isWhole q | _ => false)).length

def calcAllNonNullsBoolean (c : Column) : Bool :=
  c.nonNull.all (fun v => match v with | .b _ => true | _ => false)

/-! ### constraints -/

inductive Precision | closed | open_ | fuzzy
deriving DecidableEq, Repr

inductive Sign | positive | nonNegative | zero | nonPositive | negative | null
deriving DecidableEq, Repr

inductive Constraint
  | type (ts : Option (List FType))
  | min (v : Option Val) (p : Precision)
  | max (v : Option Val) (p : Precision)
  | minLength (n : Option Int)
  | maxLength (n : Option Int)
  | sign (s : Option Sign)
  | maxNulls (n : Option Int)
  | noDuplicates (v : Option Bool)
  | allowedValues (vs : Option (List Val))
  | rex (rs : Option (List Nat))
deriving Repr

structure Cfg where
  epsilon : Rat
  strict : Bool
  /-- `re.match(rexes[n], s)` -/
  rx : Nat → List Char → Bool

/-- fuzz_down / fuzz_up (:1012-1045), on numbers -/
def fuzzDown (v eps : Rat) : Rat := v * (if v ≥ 0 then 1 - eps else 1 + eps)
def fuzzUp (v eps : Rat) : Rat := v * (if v ≥ 0 then 1 + eps else 1 - eps)

/-- fuzzy_greater_than(a, b, epsilon): dates are never fuzzed -/
def fuzzyGe (a b : Val) (eps : Rat) : Bool :=
  b.le a || (match a.num, b.num with
             | some x, some y => fuzzDown y eps ≤ x
             | _, _ => false)

def fuzzyLe (a b : Val) (eps : Rat) : Bool :=
  a.le b || (match a.num, b.num with
             | some x, some y => x ≤ fuzzUp y eps
             | _, _ => false)

/-- the comparison verify_min applies to the column minimum `m` and the bound `v` -/
def minOk (cfg : Cfg) (p : Precision) (m v : Val) : Bool :=
  if m.coarse != v.coarse then false
  else if p == .closed || v.coarse == .date then v.le m
  else if p == .open_ then v.lt m
  else fuzzyGe m v cfg.epsilon

def maxOk (cfg : Cfg) (p : Precision) (M v : Val) : Bool :=
  if M.coarse != v.coarse then false
  else if p == .closed || v.coarse == .date then M.le v
  else if p == .open_ then M.lt v
  else fuzzyLe M v cfg.epsilon

def signOk (s : Sign) (m M : Val) : Bool :=
  match m.num, M.num with
  | some a, some b =>
    (match s with
     | .null => false
     | .positive => a > 0
     | .nonNegative => a ≥ 0
     | .zero => a == 0 && b == 0
     | .nonPositive => b ≤ 0
     | .negative => b < 0)
  | _, _ => false

/-- one verifier call on an existing column (verify_*_constraint after the column_exists test);
    `detect` only matters for the allowed_values shortcut -/
def verifyOn (cfg : Cfg) (c : Column) (detect : Bool) : Constraint → Bool
  | .type none => true
  | .type (some ts) =>
    if ts.contains c.ftype then true
    else if cfg.strict then false
    else if ts.contains .int && c.ftype == .real then calcNonIntegerCount c == 0
    else if ts.contains .bool && c.ftype == .real then calcNonIntegerCount c == 0
    else if ts.contains .bool && c.ftype == .string then calcAllNonNullsBoolean c
    else false
  | .min none _ => true
  | .min (some v) p => match calcMin c with | none => true | some m => minOk cfg p m v
  | .max none _ => true
  | .max (some v) p => match calcMax c with | none => true | some M => maxOk cfg p M v
  | .minLength none => true
  | .minLength (some n) =>
    if c.ftype != .string then false
    else match calcMinLength c with | none => true | some m => n ≤ (m : Int)
  | .maxLength none => true
  | .maxLength (some n) =>
    if c.ftype != .string then false
    else match calcMaxLength c with | none => true | some M => (M : Int) ≤ n
  | .sign none => true
  | .sign (some s) =>
    (match calcMin c, calcMax c with
     | some m, some M => signOk s m M
     | _, _ => true)
  | .maxNulls none => true
  | .maxNulls (some n) => (calcNullCount c : Int) ≤ n
  | .noDuplicates none => true
  | .noDuplicates (some false) => true
  | .noDuplicates (some true) => calcNunique c == calcNonNullCount c
  | .allowedValues none => true
  | .allowedValues (some vs) =>
    if !detect && calcNunique c > vs.length then false
    else (dedup c.nonNull).all (fun u => vs.any (fun a => a.eqv u))
  | .rex none => true
  | .rex (some rs) =>
    if c.ftype != .string then false
    else c.nonNull.all (fun v => match v with
                                  | .s x => rs.any (fun r => cfg.rx r x)
                                  | _ => false)

def findCol (frame : List Column) (name : List Char) : Option Column :=
  frame.find? (fun c => c.name == name)

/-- verifier call including the `column_exists` test -/
def verifyOne (cfg : Cfg) (frame : List Column) (field : List Char) (detect : Bool) (k : Constraint) : Bool :=
  match findCol frame field with
  | none => false
  | some c => verifyOn cfg c detect k

structure FieldResult where
  field : List Char
  verdicts : List Bool
  passes : Nat
  failures : Nat
deriving Repr, DecidableEq

structure Verification where
  fields : List FieldResult
  passes : Nat
  failures : Nat
deriving Repr, DecidableEq

def countTrue (l : List Bool) : Nat := (l.filter id).length
def countFalse (l : List Bool) : Nat := (l.filter (!·)).length

/-- verify() (:778-856): per-field and overall totals -/
def verifyAll (cfg : Cfg) (frame : List Column) (detect : Bool)
    (cs : List (List Char × List Constraint)) : Verification :=
  let frs := cs.map (fun fc =>
    let vs := fc.2.map (verifyOne cfg frame fc.1 detect)
    ({ field := fc.1, verdicts := vs, passes := countTrue vs, failures := countFalse vs } : FieldResult))
  { fields := frs, passes := (frs.map (·.passes)).sum, failures := (frs.map (·.failures)).sum }

/-! ### discovery -/

def maxCategories : Nat := 20

inductive DiscErr | unboundLocal
deriving Repr, DecidableEq

/-- discover_field_constraints (:538-633). `rexOf` = find_rexes on the unique values;
    `nrec` = get_nrecords().  Returns `none` for an unrecognised type. -/
def discoverField (incRex : Bool) (rexOf : List Val → List Nat) (c : Column) (nrec : Nat) :
    Except DiscErr (Option (List Constraint)) :=
  if c.ftype == .other then .ok none
  else
    let typeC := [Constraint.type (some [c.ftype])]
    if nrec == 0 then
      .ok (some (typeC ++ (if c.ftype == .string && incRex then [Constraint.rex (some (rexOf []))] else [])))
    else
      let nNull := calcNullCount c
      let nNonNull := calcNonNullCount c
      let maxNullsC := if nNull < 2 then [Constraint.maxNulls (some nNull)] else []
      let nUnique : Int := if c.ftype != .real then calcNunique c else -1
      let uniqs0 : Option (List Val) :=
        if c.ftype == .string && nUnique ≤ maxCategories then some (calcUniques c) else none
      let allowedC := match uniqs0 with
        | some (u :: us) => [Constraint.allowedValues (some (u :: us))]
        | _ => []
      let uniqs : Option (List Val) :=
        if nNonNull > 0 && c.ftype == .string && uniqs0.isNone && nUnique > 0 then some (calcUniques c)
        else uniqs0
      let lengthCs := if nNonNull > 0 && c.ftype == .string then
          (match uniqs with
           | some (u :: us) =>
             let ls := (u :: us).filterMap (fun v => match v with | .s x => some x.length | _ => none)
             (match listMin ls, listMax ls with
              | some m, some M => [Constraint.minLength (some m), Constraint.maxLength (some M)]
              | _, _ => [])
           | _ => [])
        else []
      let m := calcMin c
      let M := calcMax c
      let nonString := nNonNull > 0 && c.ftype != .string
      let minC := if nonString then (match m with | some v => [Constraint.min (some v) .fuzzy] | none => []) else []
      let maxC := if nonString then (match M with | some v => [Constraint.max (some v) .fuzzy] | none => []) else []
      let signC := if nonString && c.ftype != .date then
          (match m, M with
           | some a, some b =>
             (match a.num, b.num with
              | some x, some y =>
                if x == 0 && y == 0 then [Constraint.sign (some .zero)]
                else if x ≥ 0 then [Constraint.sign (some (if x > 0 then .positive else .nonNegative))]
                else if y ≤ 0 then [Constraint.sign (some (if y < 0 then .negative else .nonPositive))]
                else []
              | _, _ => [])
           | none, _ => [Constraint.sign (some .null)]
           | _, _ => [])
        else []
      let noDupC := if nUnique == (nNonNull : Int) && nUnique > 1 && c.ftype != .real
                    then [Constraint.noDuplicates (some true)] else []
      let rexC := if c.ftype == .string && incRex then [Constraint.rex (some (rexOf ((uniqs.getD []))))] else []
      .ok (some (typeC ++ minC ++ maxC ++ lengthCs ++ signC ++ maxNullsC ++ noDupC ++ allowedC ++ rexC))

/-! ### detection: per-record flags -/

/-- detection_field: a null record gets `none` unless a default is given -/
def detField (cells : List (Option Val)) (default : Option Bool) (p : Val → Bool) : List (Option Bool) :=
  if cells.all (·.isSome) then cells.map (fun c => match c with | some v => some (p v) | none => none)
  else cells.map (fun c => match c with | some v => some (p v) | none => default)

def constFlags (c : Column) (b : Bool) : List (Option Bool) := c.cells.map (fun _ => some b)

def isDuplicated (c : Column) (v : Val) : Bool :=
  (c.nonNull.filter (fun w => w.eqv v)).length > 1

/-- the column written by detect_*_constraint for a constraint that failed verification;
    `none` = no column is written -/
def detectFlags (cfg : Cfg) (c : Column) : Constraint → Option (List (Option Bool))
  | .type _ => some (constFlags c false)
  | .min (some v) p =>
    let colCoarse : Option Coarse := match c.ftype with
      | .bool | .int | .real => some .number | .string => some .string | .date => some .date | .other => none
    if colCoarse != some v.coarse then some (constFlags c false)
    else if p == .closed || c.ftype == .date then some (detField c.cells none (fun x => v.le x))
    else if p == .open_ then some (detField c.cells none (fun x => v.lt x))
    else some (detField c.cells none (fun x => fuzzyGe x v cfg.epsilon))
  | .max (some v) p =>
    let colCoarse : Option Coarse := match c.ftype with
      | .bool | .int | .real => some .number | .string => some .string | .date => some .date | .other => none
    if colCoarse != some v.coarse then some (constFlags c false)
    else if p == .closed || c.ftype == .date then some (detField c.cells none (fun x => x.le v))
    else if p == .open_ then some (detField c.cells none (fun x => x.lt v))
    else some (detField c.cells none (fun x => fuzzyLe x v cfg.epsilon))
  | .minLength (some n) =>
    if c.ftype != .string then some (constFlags c false)
    else some (detField c.cells none (fun x => match x with | .s t => n ≤ (t.length : Int) | _ => false))
  | .maxLength (some n) =>
    if c.ftype != .string then some (constFlags c false)
    else some (detField c.cells none (fun x => match x with | .s t => (t.length : Int) ≤ n | _ => false))
  | .sign (some s) =>
    if !(c.ftype == .bool || c.ftype == .int || c.ftype == .real) then some (constFlags c false)
    else match s with
      | .null => some (constFlags c false)
      | .positive => some (detField c.cells none (fun x => match x.num with | some q => q > 0 | none => false))
      | .nonNegative => some (detField c.cells none (fun x => match x.num with | some q => q ≥ 0 | none => false))
      | .zero => some (detField c.cells none (fun x => match x.num with | some q => q == 0 | none => false))
      | .nonPositive => some (detField c.cells none (fun x => match x.num with | some q => q ≤ 0 | none => false))
      | .negative => some (detField c.cells none (fun x => match x.num with | some q => q < 0 | none => false))
  | .maxNulls (some _) => some (c.cells.map (fun x => some x.isSome))
  | .noDuplicates (some true) => some (detField c.cells (some true) (fun x => !isDuplicated c x))
  | .allowedValues (some vs) => some (detField c.cells none (fun x => vs.any (fun a => a.eqv x)))
  | .rex (some rs) =>
    if c.ftype != .string then some (constFlags c false)
    else some (detField c.cells none (fun x => match x with | .s t => rs.any (fun r => cfg.rx r t) | _ => false))
  | _ => none

/-- `n_failures` per record (:347-351): number of flag columns minus the true ones minus the null ones -/
def nFailures (flagCols : List (List (Option Bool))) (nrows : Nat) : List Nat :=
  (List.range nrows).map (fun i =>
    let row := flagCols.map (fun col => col.getD i none)
    row.length - (row.filter (· == some true)).length - (row.filter (· == none)).length)

def nFailing (nf : List Nat) : Nat := (nf.filter (· > 0)).length
def nPassing (nf : List Nat) : Nat := nf.length - nFailing nf

end TddaVerif.Constraints
