/-
Model of rexpy's coverage accounting (tdda/rexpy/rexpy.py):
  rex_coverage (:1539-1563), terminate_patterns_and_sort (:1602-1614),
  coverage_matrices (:1694-1708), matrices2incremental_coverage (:1711-1772),
  Extractor.n_examples (:1362-1372).

The regular-expression engine is a parameter: a Boolean match relation
`m : pattern → example → Bool` (the correspondence harness supplies it by
calling the real `re.match` on the terminated pattern under RE_FLAGS).
Import-free (core Lean only) so that it can be linked into the driver.
-/
namespace TddaVerif.Coverage

/-- `Coverage` namedtuple (:403). -/
structure Cov where
  n : Nat
  nUniq : Nat
  incr : Nat
  incrUniq : Nat
  index : Nat
deriving Repr, DecidableEq

/-- rex_coverage for one pattern: `sum(n if match else 0 for (k, n) in zip(strings, freqs))`
    or with `dedup` `sum(1 if match else 0 for k in strings)`. -/
def rexCoverage1 (dedup : Bool) (row : List (Bool × Nat)) : Nat :=
  (row.map (fun (b, n) => if b then (if dedup then 1 else n) else 0)).sum

/-- rex_coverage: one figure per pattern, in pattern order.
    `ms[j]` is the list over examples of (does pattern j match example i, freq i). -/
def rexCoverage (dedup : Bool) (ms : List (List (Bool × Nat))) : List Nat :=
  ms.map (rexCoverage1 dedup)

/-- coverage_matrices: one row per example, `n if match else 0` per pattern,
    and the deduped version `1 if r else 0`.  `bs[i][j]` = pattern j matches example i. -/
def matrixOf (bs : List (List Bool)) (freqs : List Nat) : List (List Nat) :=
  (bs.zip freqs).map (fun (row, n) => row.map (fun b => if b then n else 0))

/-- the Boolean part of coverage_matrices: `bs[i][j] = re.match(rexes[j], strings[i])`,
    for a match relation `m`. -/
def bsOf {α ε} (m : α → ε → Bool) (pats : List α) (exs : List ε) : List (List Bool) :=
  exs.map (fun x => pats.map (fun p => m p x))

def dedupOf (mx : List (List Nat)) : List (List Nat) :=
  mx.map (fun row => row.map (fun r => if r ≠ 0 then 1 else 0))

def colSum (mx : List (List Nat)) (j : Nat) : Nat :=
  (mx.map (fun row => row.getD j 0)).sum

/-- `[sum(row[i] for row in matrix) for i in range(np)]` -/
def totals (mx : List (List Nat)) (np : Nat) : List Nat :=
  (List.range np).map (colSum mx)

/-- Python `max` on a non-empty list of non-negative ints. -/
def listMax (l : List Nat) : Nat := l.foldl max 0

/-- `p = 0; while sort_totals[p] < target: p += 1` (the caller guarantees some
    element reaches the target, so the index stays in range). -/
def firstGE : List Nat → Nat → Nat
  | [], _ => 0
  | x :: xs, t => if x < t then firstGE xs t + 1 else 0

/-- the `for i in range(n_uniqs): if matrix[i][p]: matrix[i] = zeros; deduped[i] = zeros` loop;
    the test is on `matrix` for both. -/
def zeroRows (test : List (List Nat)) (mx : List (List Nat)) (p np : Nat) : List (List Nat) :=
  (test.zip mx).map (fun (t, row) => if t.getD p 0 ≠ 0 then List.replicate np 0 else row)

def keys {α β} (res : List (α × β)) : List α := res.map Prod.fst

/-- The `while some_left and len(results) < np` loop of matrices2incremental_coverage.
    `none` = out of fuel.  The only way to run out of fuel with `fuel > np` is the
    `in_results` branch, which in the Python leaves the state unchanged and so
    loops forever. -/
def incrLoop {α} [DecidableEq α] (pats : List α) (idx pf pu : List Nat) (sortDedup : Bool) :
    Nat → List (List Nat) → List (List Nat) → List (α × Cov) → Option (List (α × Cov))
  | 0, _, _, _ => none
  | fuel + 1, mx, dd, res =>
    let np := pats.length
    if res.length < np then
      let tot := totals mx np
      let utot := totals dd np
      let st := if sortDedup then utot else tot
      let target := listMax st
      if 0 < target then
        let p := firstGE st target
        match pats[p]? with
        | none => none
        | some rex =>
          if rex ∈ keys res then
            incrLoop pats idx pf pu sortDedup fuel mx dd res
          else
            incrLoop pats idx pf pu sortDedup fuel (zeroRows mx mx p np) (zeroRows mx dd p np)
              (res ++ [(rex, { n := pf.getD p 0, nUniq := pu.getD p 0, incr := tot.getD p 0,
                               incrUniq := utot.getD p 0, index := idx.getD p 0 })])
      else some res
    else some res

/-- matrices2incremental_coverage (:1711-1772).  The trailing block at :1764-1771
    is unreachable (the loop exits only when `some_left` is false or
    `len(results) >= np`), so it does not appear. -/
def matrices2incr {α} [DecidableEq α] (pats : List α) (mx dd : List (List Nat)) (idx : List Nat)
    (sortDedup : Bool) : Option (List (α × Cov)) :=
  let np := pats.length
  incrLoop pats idx (totals mx np) (totals dd np) sortDedup (np + 1) mx dd []

/-- rex_full_incremental_coverage after pattern termination and sorting:
    `pats` are the sorted terminated patterns, `idx` their original positions,
    `bs[i][j]` says whether sorted pattern j matches example i. -/
def fullIncr {α} [DecidableEq α] (pats : List α) (idx : List Nat) (bs : List (List Bool))
    (freqs : List Nat) (sortDedup : Bool) : Option (List (α × Cov)) :=
  let mx := matrixOf bs freqs
  matrices2incr pats mx (dedupOf mx) idx sortDedup

/-- rex_incremental_coverage (:1685-1691). -/
def incr {α} [DecidableEq α] (pats : List α) (idx : List Nat) (bs : List (List Bool))
    (freqs : List Nat) (sortDedup : Bool) : Option (List (α × Nat)) :=
  (fullIncr pats idx bs freqs sortDedup).map
    (fun r => r.map (fun (k, c) => (k, if sortDedup then c.incrUniq else c.incr)))

/-- Extractor.n_examples: `examples.n_uniqs` / `examples.n_strings`. -/
def nExamples (dedup : Bool) (freqs : List Nat) : Nat :=
  if dedup then freqs.length else freqs.sum

/-- insertion sort on (pattern, index) pairs, lexicographic: `z.sort()` in
    terminate_patterns_and_sort.  Patterns are compared as code-point lists. -/
def ltCP : List Nat → List Nat → Bool
  | [], [] => false
  | [], _ :: _ => true
  | _ :: _, [] => false
  | a :: as, b :: bs => if a < b then true else if b < a then false else ltCP as bs

def leKey (a b : List Nat × Nat) : Bool :=
  if ltCP a.1 b.1 then true else if ltCP b.1 a.1 then false else a.2 ≤ b.2

def insertKey (x : List Nat × Nat) : List (List Nat × Nat) → List (List Nat × Nat)
  | [] => [x]
  | y :: ys => if leKey x y then x :: y :: ys else y :: insertKey x ys

def sortKeys (l : List (List Nat × Nat)) : List (List Nat × Nat) :=
  l.foldr insertKey []

/-- terminate one pattern: add `^` / `$` unless already there (code points 94 / 36). -/
def terminate (p : List Nat) : List Nat :=
  let p1 := if p.head? = some 94 then p else 94 :: p
  if p.getLast? = some 36 then p1 else p1 ++ [36]

/-- terminate_patterns_and_sort (:1602-1614). -/
def terminateAndSort (ps : List (List Nat)) : List (List Nat) × List Nat :=
  let z := sortKeys ((ps.map terminate).zip (List.range ps.length))
  (z.map Prod.fst, z.map Prod.snd)

end TddaVerif.Coverage
