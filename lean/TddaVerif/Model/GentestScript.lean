/-
Model of the class body of a generated test script (tdda/referencetest/gentest_boilerplate.py HEADER, filled in by
gentest.py write_script): the statements in order, with the class-level names each defines and each reads when the class
body runs.  Bodies of methods run later and read through `self` / `cls`; they are not part of the order.
-/
namespace TddaVerif.GentestScript

abbrev Name := List Char

structure Part where
  defines : List Name
  uses : List Name
deriving Repr, DecidableEq

/-- every name a statement reads was defined by an earlier statement of the class body -/
def wellOrderedFrom (defined : List Name) : List Part → Bool
  | [] => true
  | p :: ps => p.uses.all (fun u => defined.contains u) && wellOrderedFrom (defined ++ p.defines) ps

def wellOrdered (ps : List Part) : Bool := wellOrderedFrom [] ps

/-- what each line of the template's class body defines and reads (gentest.py:666-743: SET_TMPDIR defines `orig_tmpdir`
    and `tmpdir`; the entries of GENERATED_FILES are `os.path.join(cwd, ...)` or `os.path.join(tmpdir, ...)`) -/
def partOf (line : Name) : Part :=
  if line = "command".toList then ⟨["command".toList], []⟩
  else if line = "cwd".toList then ⟨["cwd".toList], []⟩
  else if line = "refdir".toList then ⟨["refdir".toList], ["cwd".toList]⟩
  else if line = "%SET_TMPDIR".toList then ⟨["orig_tmpdir".toList, "tmpdir".toList], []⟩
  else if line = "%GENERATED_FILES".toList then ⟨["generated_files".toList], ["cwd".toList, "tmpdir".toList]⟩
  else ⟨[line], []⟩          -- a method: defines its own name

end TddaVerif.GentestScript
