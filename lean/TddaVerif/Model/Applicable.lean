/-
Model of the dispatch test of the command line (tdda/constraints/pd/extension.py:22-30 TDDAPandasExtension.applicable,
used by console.py:175-233 to pick the first applicable extension): the pandas extension takes the command iff some
argument is `-` or has one of the flat-file extensions, wherever it stands among the arguments.
`os.path.splitext` is modelled for POSIX paths.
-/
import TddaVerif.Py.Text
namespace TddaVerif.Applicable
open TddaVerif.Py

/-- the part of a path after its last `/` -/
def basename (p : Line) : Line :=
  (p.reverse.takeWhile (fun c => c != '/')).reverse

/-- `os.path.splitext(p)[1]` (posixpath): the suffix of the last path component from its last dot on, unless that dot is
    one of the leading dots of the component (".bashrc" has no extension) or there is none -/
def splitextExt (p : Line) : Line :=
  let b := basename p
  let body := b.dropWhile (fun c => c == '.')          -- leading dots never start an extension
  let r := body.reverse
  let tail := r.takeWhile (fun c => c != '.')           -- (reversed) text after the last dot of the body
  if tail.length == r.length then []                    -- no dot in the body
  else '.' :: tail.reverse

/-- applicable(): some argument is `-` or a flat file by its extension -/
def applicable (exts : List Line) (argv : List Line) : Bool :=
  argv.any (fun a => a == ['-'] || exts.contains (splitextExt a))

end TddaVerif.Applicable
