/-
Model of the printed verification report (tdda/constraints/base.py): tcn (:885-891), plural (:911-922) and
Verification.__str__ (:700-735) for the report modes `all`, `fields` and `records` (without a detection object the
last prints what `fields` prints). The two mark sets (Marks / SafeMarks) are parameters: the translator reads them
from the source.
-/
import TddaVerif.Py.Text
import TddaVerif.Model.Gentest
namespace TddaVerif.Report
open TddaVerif.Py

inductive Mark | tick | cross | nothing
deriving DecidableEq, Repr

/-- tcn: the mark of a verdict (`None`: no verifier for the kind) -/
def tcn : Option Bool → Mark
  | none => .nothing
  | some true => .tick
  | some false => .cross

structure MarkSet where
  tick : Line
  cross : Line
  nothing : Line
deriving DecidableEq, Repr

def MarkSet.text (m : MarkSet) : Mark → Line
  | .tick => m.tick
  | .cross => m.cross
  | .nothing => m.nothing

/-- plural(n, s, pl) -/
def plural (n : Nat) (s pl : Line) : Line :=
  TddaVerif.Gentest.natText n ++ [' '] ++ s ++ (if n == 1 then [] else pl)

structure Field where
  name : Line
  failures : Nat
  passes : Nat
  /-- constraint kind and verdict, in the order the verification holds them -/
  verdicts : List (Line × Option Bool)
deriving Repr

inductive Mode | all | fields | records
deriving DecidableEq, Repr

/-- the fields a report shows: all of them, or those with failures -/
def shown (mode : Mode) (fs : List Field) : List Field :=
  match mode with
  | .all => fs
  | _ => fs.filter (fun f => decide (f.failures > 0))

/-- one field of the FIELDS part -/
def fieldText (m : MarkSet) (f : Field) : Line :=
  f.name ++ ": ".toList ++ plural f.failures "failure".toList "s".toList ++ "  ".toList ++
  plural f.passes "pass".toList "es".toList ++ "  ".toList ++
  joinSep "  ".toList (f.verdicts.map (fun kv => kv.1 ++ [' '] ++ m.text (tcn kv.2)))

/-- Verification.__str__ (no detection object) -/
def reportText (m : MarkSet) (mode : Mode) (fs : List Field) (passes failures : Nat) : Line :=
  let body := joinSep "\n\n".toList ((shown mode fs).map (fieldText m))
  (if body.isEmpty then [] else "FIELDS:\n\n".toList ++ body ++ "\n\n".toList) ++
  "SUMMARY:\n\nConstraints passing: ".toList ++ TddaVerif.Gentest.natText passes ++
  "\nConstraints failing: ".toList ++ TddaVerif.Gentest.natText failures

end TddaVerif.Report
