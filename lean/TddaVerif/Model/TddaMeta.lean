/-
Model of the creation metadata of a .tdda file: tdda/constraints/base.py initialize_from_dict (:196-199) and get_metadata (:223-226).
-/
namespace TddaVerif.TddaMeta

abbrev Key := List Char

/-- a metadata value: JSON null, or any other JSON value by its text (0, "", false ... are values) -/
inductive MV where
  | null
  | val (text : List Char)
deriving DecidableEq, Repr

/-- one step of the loop in initialize_from_dict (base.py:197-199): `if k in METADATA_KEYS and v is not None: self.__dict__[k] = v` -/
def assign (k : Key) (acc : MV) (e : Key × MV) : MV := if e.1 = k ∧ e.2 ≠ .null then e.2 else acc

/-- the attribute `k` of the object after loading `creation_metadata` = md (attributes start as None) -/
def loadMeta (keys : List Key) (md : List (Key × MV)) (k : Key) : MV :=
  if k ∈ keys then md.foldl (assign k) .null else .null

/-- get_metadata (base.py:223-226): the known keys, in their fixed order, whose attribute is not None -/
def getMeta (keys : List Key) (obj : Key → MV) : List (Key × MV) :=
  keys.filterMap (fun k => match obj k with | .null => none | v => some (k, v))

end TddaVerif.TddaMeta
