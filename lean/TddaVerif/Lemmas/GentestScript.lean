/- Proofs about Model/GentestScript.lean. -/
import TddaVerif.Model.GentestScript

namespace TddaVerif.GentestScript.Lemmas
open TddaVerif.GentestScript

theorem wellOrderedFrom_spec (defined : List Name) (ps : List Part) (h : wellOrderedFrom defined ps = true)
    (pre : List Part) (p : Part) (post : List Part) (hs : ps = pre ++ p :: post) (u : Name) (hu : u ∈ p.uses) :
    u ∈ defined ∨ ∃ q ∈ pre, u ∈ q.defines := by
  induction pre generalizing defined ps with
  | nil =>
    subst hs
    simp only [List.nil_append, wellOrderedFrom, Bool.and_eq_true, List.all_eq_true] at h
    left
    have := h.1 u hu
    simpa using this
  | cons a as ih =>
    subst hs
    simp only [List.cons_append, wellOrderedFrom, Bool.and_eq_true] at h
    rcases ih (defined ++ a.defines) (as ++ p :: post) h.2 rfl with h1 | ⟨q, hq, hqu⟩
    · rcases List.mem_append.mp h1 with h2 | h2
      · left; exact h2
      · right; exact ⟨a, List.mem_cons_self .., h2⟩
    · right; exact ⟨q, List.mem_cons_of_mem _ hq, hqu⟩

/-- in a well-ordered class body every name a statement reads is defined by a statement before it -/
theorem wellOrdered_spec (ps : List Part) (h : wellOrdered ps = true) (pre : List Part) (p : Part) (post : List Part)
    (hs : ps = pre ++ p :: post) (u : Name) (hu : u ∈ p.uses) : ∃ q ∈ pre, u ∈ q.defines := by
  rcases wellOrderedFrom_spec [] ps h pre p post hs u hu with h1 | h1
  · cases h1
  · exact h1

end TddaVerif.GentestScript.Lemmas
