/-
Proofs about the printed verification report (Model/Report.lean).
-/
import TddaVerif.Model.Report
import TddaVerif.Generated.Report
namespace TddaVerif.Props.C02.ReportLemmas
open TddaVerif.Py TddaVerif.Report

theorem tcn_injective (a b : Option Bool) (h : tcn a = tcn b) : a = b := by
  cases a with
  | none => cases b with
    | none => rfl
    | some y => cases y <;> simp [tcn] at h
  | some x => cases b with
    | none => cases x <;> simp [tcn] at h
    | some y => cases x <;> cases y <;> simp [tcn] at h <;> rfl

/-- a mark set whose three texts are pairwise different -/
def Distinct (m : MarkSet) : Prop := m.tick ≠ m.cross ∧ m.tick ≠ m.nothing ∧ m.cross ≠ m.nothing

theorem text_injective (m : MarkSet) (hd : Distinct m) (x y : Mark) (h : m.text x = m.text y) : x = y := by
  obtain ⟨h1, h2, h3⟩ := hd
  cases x <;> cases y <;> simp [MarkSet.text] at h <;> first | rfl | (exfalso; first | exact h1 h | exact h2 h | exact h3 h | exact h1 h.symm | exact h2 h.symm | exact h3 h.symm)

theorem mark_determines_verdict (m : MarkSet) (hd : Distinct m) (a b : Option Bool)
    (h : m.text (tcn a) = m.text (tcn b)) : a = b :=
  tcn_injective a b (text_injective m hd _ _ h)

theorem shown_all (fs : List Field) : shown .all fs = fs := rfl

theorem mem_shown_fields (fs : List Field) (f : Field) : f ∈ shown .fields fs ↔ f ∈ fs ∧ f.failures > 0 := by
  simp [shown, List.mem_filter]

theorem shown_records (fs : List Field) : shown .records fs = shown .fields fs := rfl

def markSetOf (t : List Char × List Char × List Char) : MarkSet := { tick := t.1, cross := t.2.1, nothing := t.2.2 }

theorem tie_marks_distinct :
    Distinct (markSetOf TddaVerif.Generated.Report.marks) ∧ Distinct (markSetOf TddaVerif.Generated.Report.safeMarks) := by
  unfold Distinct markSetOf
  decide

end TddaVerif.Props.C02.ReportLemmas
