/- Helper lemmas for C01 (closure). Statements mirror Props/C01.lean. -/
import TddaVerif.Model.Constraints
import TddaVerif.Props.C02Spec
import TddaVerif.Lemmas.Verify
import TddaVerif.Lemmas.Discover

namespace TddaVerif.Props.C01
open TddaVerif.Constraints TddaVerif.Props.C02

def RexSound' (cfg : Cfg) (rexOf : List Val → List Nat) (c : Column) : Prop :=
  ∀ x, Val.s x ∈ c.nonNull → ∃ r ∈ rexOf (calcUniques c), cfg.rx r x = true

def discoverFrame' (incRex : Bool) (rexOf : List Val → List Nat) (frame : List Column) :
    List (List Char × List Constraint) :=
  frame.filterMap (fun c => match discoverField incRex rexOf c c.cells.length with
                             | .ok (some ks) => some (c.name, ks)
                             | _ => none)

end TddaVerif.Props.C01

namespace TddaVerif.Props.C01.Lemmas
open TddaVerif.Constraints TddaVerif.Props.C02 TddaVerif.Props.C01
open TddaVerif.Constraints.DiscAux

/-! ### closure for one column -/

theorem mem_rex (incRex : Bool) (rexOf : List Val → List Nat) (c : Column) (v) :
    Constraint.rex v ∈ allParts incRex rexOf c ↔ Constraint.rex v ∈ rexPart incRex rexOf c := by
  rw [mem_allParts]; simp [kind]

theorem nonNull_nil_of_cells (c : Column) (h : c.cells.length = 0) : c.nonNull = [] := by
  unfold Column.nonNull
  rw [List.length_eq_zero_iff.mp h]; rfl

theorem str_of_wf (c : Column) (hwf : c.WF = true) (hs : c.ftype = .string) (v : Val)
    (hv : v ∈ c.nonNull) : ∃ x, v = .s x := by
  have h2 := wf_allT hwf v hv
  rw [hs] at h2
  cases v <;> simp [Val.ftype] at h2
  exact ⟨_, rfl⟩

/-- the case of a column without rows -/
theorem closure_empty (cfg : Cfg) (incRex : Bool) (rexOf : List Val → List Nat)
    (c : Column) (ks : List Constraint) (hn : c.cells.length = 0)
    (h : discoverField incRex rexOf c 0 = .ok (some ks)) :
    ∀ k ∈ ks, Sat cfg c k := by
  intro k hk
  have hks := C07.Lemmas.nothing_for_absent incRex rexOf c ks h
  have hnn := nonNull_nil_of_cells c hn
  subst hks
  rcases List.mem_cons.mp hk with rfl | hk
  · simp [Sat]
  · split at hk
    · rename_i hc
      simp only [Bool.and_eq_true, beq_iff_eq] at hc
      simp only [List.mem_singleton] at hk
      subst hk
      simp [Sat, hnn, hc.1]
    · simp at hk

theorem sat_min (cfg : Cfg) (c : Column) (hwf : c.WF = true) (v : Option Val) (p : Precision)
    (hk : Constraint.min v p ∈ minPart c) : Sat cfg c (.min v p) := by
  rw [C07.Lemmas.mem_minPart] at hk
  obtain ⟨_, _, m, hm, hk⟩ := hk
  injection hk with hv hp
  subst hv; subst hp
  obtain ⟨_, hle⟩ := minOf_spec _ m (wf_allT hwf) hm
  intro x hx
  have hl := hle x hx
  have hco := Order.le_coarse m x hl
  refine ⟨hco.symm, ?_⟩
  by_cases hd : m.coarse = .date
  · simp [hd, hl]
  · simp [hd, hl]

theorem sat_max (cfg : Cfg) (c : Column) (hwf : c.WF = true) (v : Option Val) (p : Precision)
    (hk : Constraint.max v p ∈ maxPart c) : Sat cfg c (.max v p) := by
  rw [C07.Lemmas.mem_maxPart] at hk
  obtain ⟨_, _, m, hm, hk⟩ := hk
  injection hk with hv hp
  subst hv; subst hp
  obtain ⟨_, hle⟩ := maxOf_spec _ m (wf_allT hwf) hm
  intro x hx
  have hl := hle x hx
  have hco := Order.le_coarse x m hl
  refine ⟨hco, ?_⟩
  by_cases hd : m.coarse = .date
  · simp [hd, hl]
  · simp [hd, hl]

/-- a sign constraint is only produced for a numeric column with values -/
theorem signPart_numeric (c : Column) (hwf : c.WF = true) (k : Constraint) (hk : k ∈ signPart c) :
    c.nonNull ≠ [] ∧ (c.ftype = .bool ∨ c.ftype = .int ∨ c.ftype = .real) := by
  unfold signPart at hk
  split at hk
  · rename_i hc
    simp only [Bool.and_eq_true, nonStr_iff, bne_iff_ne, ne_eq] at hc
    obtain ⟨⟨hne, hs⟩, hd⟩ := hc
    refine ⟨hne, ?_⟩
    have ho := wf_other hwf
    cases hft : c.ftype <;> simp_all
  · simp at hk

theorem closure (cfg : Cfg) (heps : 0 ≤ cfg.epsilon) (incRex : Bool) (rexOf : List Val → List Nat)
    (c : Column) (hwf : c.WF = true) (hrex : RexSound' cfg rexOf c) (ks : List Constraint)
    (h : discoverField incRex rexOf c c.cells.length = .ok (some ks)) (detect : Bool) :
    ∀ k ∈ ks, verifyOn cfg c detect k = true := by
  intro k hk
  rw [C02.Lemmas.verify_eq_spec cfg heps c hwf detect k]
  by_cases hn : c.cells.length = 0
  · rw [hn] at h
    exact closure_empty cfg incRex rexOf c ks hn h k hk
  · have hpos : 0 < c.cells.length := by omega
    have hks := C07.Lemmas.ks_eq (wf_other hwf) hpos h
    cases k with
    | type ts =>
      have := (C07.Lemmas.type_is_column_type incRex rexOf c _ ks h).2 ts hk
      subst this
      simp [Sat]
    | min v p =>
      rw [hks, C07.Lemmas.mem_min] at hk
      exact sat_min cfg c hwf v p hk
    | max v p =>
      rw [hks, C07.Lemmas.mem_max] at hk
      exact sat_max cfg c hwf v p hk
    | minLength v =>
      have hl := C07.Lemmas.length_exact incRex rexOf c hwf ks hpos h
      obtain ⟨m, rfl, _, hall⟩ := hl.1 v hk
      have hs := (hl.2.2.1.mp ⟨_, hk⟩).1
      refine ⟨hs, ?_⟩
      intro x hx y hy
      subst hy
      exact Int.ofNat_le.mpr (hall y hx)
    | maxLength v =>
      have hl := C07.Lemmas.length_exact incRex rexOf c hwf ks hpos h
      obtain ⟨m, rfl, _, hall⟩ := hl.2.1 v hk
      have hs := (hl.2.2.2.mp ⟨_, hk⟩).1
      refine ⟨hs, ?_⟩
      intro x hx y hy
      subst hy
      exact Int.ofNat_le.mpr (hall y hx)
    | sign s =>
      cases s with
      | none => simp [Sat]
      | some s =>
        have hk' := hk
        rw [hks, C07.Lemmas.mem_sign] at hk'
        obtain ⟨hne, hnum⟩ := signPart_numeric c hwf _ hk'
        exact ((C07.Lemmas.sign_strongest incRex rexOf c hwf ks hpos hne hnum h).1 s hk).1
    | maxNulls v =>
      obtain ⟨rfl, _⟩ := (C07.Lemmas.maxNulls_iff incRex rexOf c hwf ks hpos h v).mp hk
      simp [Sat]
    | noDuplicates v =>
      obtain ⟨rfl, _, _, hp⟩ := (C07.Lemmas.noDuplicates_iff incRex rexOf c hwf ks hpos h v).mp hk
      exact hp
    | allowedValues v =>
      obtain ⟨_, rfl, _, _⟩ := (C07.Lemmas.allowedValues_iff incRex rexOf c hwf ks hpos h v).mp hk
      intro x hx
      exact ⟨x, ((C07.Lemmas.uniques_exact c hwf).1 x).mpr hx, Order.eqv_refl x⟩
    | rex rs =>
      rw [hks, mem_rex] at hk
      unfold rexPart at hk
      split at hk
      · rename_i hc
        simp only [Bool.and_eq_true, beq_iff_eq] at hc
        simp only [List.mem_singleton] at hk
        injection hk with hk
        subst hk
        refine ⟨hc.1, ?_⟩
        intro v hv
        have hne : c.nonNull ≠ [] := List.ne_nil_of_mem hv
        obtain ⟨x, rfl⟩ := str_of_wf c hwf hc.1 v hv
        rw [C07.Lemmas.uniqs_string c hc.1 hne]
        exact ⟨x, rfl, hrex x hv⟩
      · simp at hk

theorem discover_total (incRex : Bool) (rexOf : List Val → List Nat) (c : Column) (hwf : c.WF = true) :
    ∃ ks, discoverField incRex rexOf c c.cells.length = .ok (some ks) :=
  C07.Lemmas.discover_total incRex rexOf c hwf

/-! ### closure for a frame -/

theorem findCol_of_mem : ∀ (frame : List Column), (frame.map (·.name)).Nodup →
    ∀ c ∈ frame, findCol frame c.name = some c
  | [], _, c, hc => by cases hc
  | a :: as, hnd, c, hc => by
    rw [List.map_cons, List.nodup_cons] at hnd
    unfold findCol
    rw [List.find?_cons]
    rcases List.mem_cons.mp hc with rfl | hc
    · simp
    · have hne : (a.name == c.name) = false := by
        rw [beq_eq_false_iff_ne]
        intro he
        exact hnd.1 (he ▸ List.mem_map_of_mem hc)
      rw [hne]
      exact findCol_of_mem as hnd.2 c hc

theorem mem_discoverFrame' (incRex : Bool) (rexOf : List Val → List Nat) (frame : List Column)
    (n : List Char) (ks : List Constraint) (h : (n, ks) ∈ discoverFrame' incRex rexOf frame) :
    ∃ c ∈ frame, c.name = n ∧ discoverField incRex rexOf c c.cells.length = .ok (some ks) := by
  unfold discoverFrame' at h
  rw [List.mem_filterMap] at h
  obtain ⟨c, hc, he⟩ := h
  refine ⟨c, hc, ?_⟩
  split at he
  · rename_i ks' hd
    injection he with he
    injection he with h1 h2
    subst h2
    exact ⟨h1, hd⟩
  · cases he

theorem count_all_true (l : List Bool) (h : ∀ b ∈ l, b = true) :
    countTrue l = l.length ∧ countFalse l = 0 := by
  induction l with
  | nil => exact ⟨rfl, rfl⟩
  | cons b bs ih =>
    have hb := h b List.mem_cons_self
    subst hb
    have := ih (fun b hb => h b (List.mem_cons_of_mem _ hb))
    simp [countTrue, countFalse] at this ⊢
    exact this

theorem verifyAll_all_pass (cfg : Cfg) (frame : List Column) (detect : Bool) :
    ∀ (cs : List (List Char × List Constraint)),
      (∀ fc ∈ cs, ∀ k ∈ fc.2, verifyOne cfg frame fc.1 detect k = true) →
      (verifyAll cfg frame detect cs).failures = 0 ∧
      (verifyAll cfg frame detect cs).passes = ((cs.map (·.2.length)).sum)
  | [], _ => by simp [verifyAll]
  | fc :: cs, hall => by
    have ih := verifyAll_all_pass cfg frame detect cs (fun fc' h => hall fc' (List.mem_cons_of_mem _ h))
    have hc := count_all_true (fc.2.map (verifyOne cfg frame fc.1 detect)) (by
      intro b hb
      obtain ⟨k, hk, rfl⟩ := List.mem_map.mp hb
      exact hall fc List.mem_cons_self k hk)
    simp only [verifyAll, List.map_cons, List.sum_cons, List.map_map] at ih ⊢
    rw [hc.1, hc.2, List.length_map]
    exact ⟨by rw [ih.1], by rw [ih.2]⟩

theorem closure_frame (cfg : Cfg) (heps : 0 ≤ cfg.epsilon) (incRex : Bool) (rexOf : List Val → List Nat)
    (frame : List Column) (hwf : ∀ c ∈ frame, c.WF = true) (hnames : (frame.map (·.name)).Nodup)
    (hrex : ∀ c ∈ frame, RexSound' cfg rexOf c) (detect : Bool) :
    let cs := discoverFrame' incRex rexOf frame
    (verifyAll cfg frame detect cs).failures = 0 ∧
    (verifyAll cfg frame detect cs).passes = ((cs.map (·.2.length)).sum) ∧
    ∀ c ∈ frame, ∀ ks, (c.name, ks) ∈ cs → ks.filter (fun k => !verifyOn cfg c true k) = [] := by
  intro cs
  have hall : ∀ fc ∈ cs, ∀ k ∈ fc.2, verifyOne cfg frame fc.1 detect k = true := by
    intro fc hfc k hk
    obtain ⟨c, hc, hname, hd⟩ := mem_discoverFrame' incRex rexOf frame fc.1 fc.2 hfc
    unfold verifyOne
    rw [← hname, findCol_of_mem frame hnames c hc]
    exact closure cfg heps incRex rexOf c (hwf c hc) (hrex c hc) fc.2 hd detect k hk
  obtain ⟨h1, h2⟩ := verifyAll_all_pass cfg frame detect cs hall
  refine ⟨h1, h2, ?_⟩
  intro c hc ks hks
  obtain ⟨c', hc', hname, hd⟩ := mem_discoverFrame' incRex rexOf frame c.name ks hks
  have heq : c' = c := by
    have e1 := findCol_of_mem frame hnames c' hc'
    have e2 := findCol_of_mem frame hnames c hc
    rw [hname, e2] at e1
    injection e1 with e1
    exact e1.symm
  subst heq
  rw [List.filter_eq_nil_iff]
  intro k hk
  simp [closure cfg heps incRex rexOf c' (hwf c' hc') (hrex c' hc') ks hd true k hk]

end TddaVerif.Props.C01.Lemmas
