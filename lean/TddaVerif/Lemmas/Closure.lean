/- Helper lemmas for C01 (closure). Statements mirror Props/C01.lean. -/
import TddaVerif.Model.Constraints
import TddaVerif.Props.C02Spec
import TddaVerif.Lemmas.Verify
import TddaVerif.Lemmas.Discover

namespace TddaVerif.Props.C01
open TddaVerif.Constraints TddaVerif.Props.C02

def RexSound' (cfg : Cfg) (rexOf : List Val → List Nat) (c : Column) : Prop :=
  ∀ x, Val.s x ∈ c.nonNull → ∃ r ∈ rexOf (calcUniques c), cfg.rx r x = true

def discoverFrame' (incRex : Bool) (rexOf : List Val → List Nat) (frame : List Column) :
    List (List Char × List Constraint) :=
  frame.filterMap (fun c => match discoverField incRex rexOf c c.cells.length with
                             | .ok (some ks) => some (c.name, ks)
                             | _ => none)

end TddaVerif.Props.C01

namespace TddaVerif.Props.C01.Lemmas
open TddaVerif.Constraints TddaVerif.Props.C02 TddaVerif.Props.C01

theorem closure (cfg : Cfg) (heps : 0 ≤ cfg.epsilon) (incRex : Bool) (rexOf : List Val → List Nat)
    (c : Column) (hwf : c.WF = true) (hrex : RexSound' cfg rexOf c) (ks : List Constraint)
    (h : discoverField incRex rexOf c c.cells.length = .ok (some ks)) (detect : Bool) :
    ∀ k ∈ ks, verifyOn cfg c detect k = true := by
  sorry

theorem discover_total (incRex : Bool) (rexOf : List Val → List Nat) (c : Column) (hwf : c.WF = true) :
    ∃ ks, discoverField incRex rexOf c c.cells.length = .ok (some ks) := by
  sorry

theorem closure_frame (cfg : Cfg) (heps : 0 ≤ cfg.epsilon) (incRex : Bool) (rexOf : List Val → List Nat)
    (frame : List Column) (hwf : ∀ c ∈ frame, c.WF = true) (hnames : (frame.map (·.name)).Nodup)
    (hrex : ∀ c ∈ frame, RexSound' cfg rexOf c) (detect : Bool) :
    let cs := discoverFrame' incRex rexOf frame
    (verifyAll cfg frame detect cs).failures = 0 ∧
    (verifyAll cfg frame detect cs).passes = ((cs.map (·.2.length)).sum) ∧
    ∀ c ∈ frame, ∀ ks, (c.name, ks) ∈ cs → ks.filter (fun k => !verifyOn cfg c true k) = [] := by
  sorry

end TddaVerif.Props.C01.Lemmas
