/-
C14 — order independence of the model of rexpy's batch extraction: permuting the supplied examples
does not change the result of `extract` (given `1 ≤ sizes.maxStringsInGroup`; with a cap of 0 the
model is order dependent, see the end of the file).  Main results: `extract_perm`, `batchExtract_perm`,
`toVrles_perm`, `refineVrle_perm`, `refineFrag_perm`, `analysis_perm`, `cleanFold_perm`.
-/
import TddaVerif.Model.Rexpy
import TddaVerif.Props.C03Spec
import TddaVerif.Lemmas.RexpyVrle
import TddaVerif.Lemmas.RexpyRefine
import TddaVerif.Lemmas.RexpyInvariance
import Mathlib.Data.List.Perm.Basic

namespace TddaVerif.Props.C14.PermLemmas
open TddaVerif.Py TddaVerif.Rexpy TddaVerif.Props.C03 TddaVerif.Props.C03.Lemmas
open TddaVerif.Props.C14.Lemmas

/-! ### folds over permuted lists -/

theorem foldl_rel_same {α σ : Type} (f : σ → α → σ) (R : σ → σ → Prop)
    (congr : ∀ s s' a, R s s' → R (f s a) (f s' a)) (l : List α) :
    ∀ s s', R s s' → R (l.foldl f s) (l.foldl f s') := by
  induction l with
  | nil => intro s s' h; exact h
  | cons a l ih => intro s s' h; exact ih _ _ (congr _ _ a h)

/-- a fold whose step respects a partial equivalence `R` and commutes up to `R` gives `R`-related
    results on permuted lists -/
theorem foldl_perm_rel {α σ : Type} (f : σ → α → σ) (R : σ → σ → Prop)
    (symm : ∀ s s', R s s' → R s' s) (trans : ∀ s s' s'', R s s' → R s' s'' → R s s'')
    (congr : ∀ s s' a, R s s' → R (f s a) (f s' a))
    (comm : ∀ s a b, R s s → R (f (f s a) b) (f (f s b) a))
    {l l' : List α} (h : l.Perm l') :
    ∀ s s', R s s' → R (l.foldl f s) (l'.foldl f s') := by
  induction h with
  | nil => intro s s' h; exact h
  | cons a _ ih => intro s s' h; exact ih _ _ (congr _ _ a h)
  | swap a b l =>
    intro s s' h
    simp only [List.foldl_cons]
    apply foldl_rel_same f R congr
    have h1 : R (f (f s b) a) (f (f s' b) a) := congr _ _ a (congr _ _ b h)
    have h2 : R (f (f s' b) a) (f (f s' a) b) := comm s' b a (trans _ _ _ (symm _ _ h) h)
    exact trans _ _ _ h1 h2
  | trans _ _ ih1 ih2 =>
    intro s s' h
    exact trans _ _ _ (ih1 s s' h) (ih2 s' s' (trans _ _ _ (symm _ _ h) h))

/-- a fold whose step commutes on the states satisfying an invariant gives equal results on
    permuted lists -/
theorem foldl_perm_inv {α σ : Type} (f : σ → α → σ) (P : σ → Prop)
    (pres : ∀ s a, P s → P (f s a))
    (comm : ∀ s a b, P s → f (f s a) b = f (f s b) a)
    {l l' : List α} (h : l.Perm l') (s : σ) (hs : P s) : l.foldl f s = l'.foldl f s := by
  have := foldl_perm_rel f (fun s s' => s = s' ∧ P s)
    (fun s s' h => ⟨h.1.symm, h.1 ▸ h.2⟩) (fun s s' s'' h1 h2 => ⟨h1.1.trans h2.1, h1.2⟩)
    (fun s s' a h => ⟨by rw [h.1], pres _ _ h.2⟩)
    (fun s a b h => ⟨comm s a b h.2, pres _ _ (pres _ _ h.2)⟩) h s s ⟨rfl, hs⟩
  exact this.1

/-! ### clean -/

/-- what an item contributes: the cleaned string, its count, and the count of stripped strings -/
def contrib (so re : Bool) (it : Option Line × Nat) : Option (Line × Nat × Nat) :=
  match it.1 with
  | none => none
  | some s =>
    if it.2 == 0 then none
    else
      let t := if so then strip s else s
      if re && t.isEmpty then none
      else some (t, it.2, if t.length != s.length then it.2 else 0)

theorem cleanStep_contrib (so re : Bool) (st : List (Line × Nat) × Nat) (it : Option Line × Nat) :
    cleanStep so re st it =
      match contrib so re it with
      | none => st
      | some (t, n, d) => (bump t n st.1, st.2 + d) := by
  obtain ⟨o, n⟩ := it
  cases o with
  | none => rfl
  | some s =>
    simp only [cleanStep, contrib]
    by_cases hn : (n == 0) = true
    · simp [hn]
    · by_cases hr : (re && (if so then strip s else s).isEmpty) = true
      · simp [hn, hr]
      · simp only [hn, hr, Bool.false_eq_true, if_false]
        generalize (if so then strip s else s) = t
        split <;> simp

theorem bump_comm (a b : Line) (n m : Nat) (acc : List (Line × Nat)) :
    (bump a n (bump b m acc)).Perm (bump b m (bump a n acc)) := by
  by_cases hab : a = b
  · subst hab
    rw [bump_bump, bump_bump, Nat.add_comm]
  · induction acc with
    | nil =>
      have h1 : (b == a) = false := by simpa using fun h => hab h.symm
      have h2 : (a == b) = false := by simpa using hab
      simp only [bump, h1, h2, Bool.false_eq_true, if_false]
      exact List.Perm.swap _ _ _
    | cons x acc ih =>
      obtain ⟨k, v⟩ := x
      by_cases hka : k = a
      · subst hka
        have h2 : (k == b) = false := by simpa using hab
        simp [bump, h2]
      · have h1 : (k == a) = false := by simpa using hka
        by_cases hkb : k = b
        · subst hkb
          simp [bump, h1]
        · have h2 : (k == b) = false := by simpa using hkb
          simp only [bump, h1, h2, Bool.false_eq_true, if_false]
          exact List.Perm.cons _ ih

/-- with distinct keys, `bump` adds to the one entry with the key or appends a new entry -/
theorem bump_eq (k : Line) (n : Nat) (acc : List (Line × Nat)) (hnd : (acc.map (·.1)).Nodup) :
    bump k n acc =
      if k ∈ acc.map (·.1) then acc.map (fun p => if p.1 == k then (p.1, p.2 + n) else p)
      else acc ++ [(k, n)] := by
  induction acc with
  | nil => simp [bump]
  | cons x acc ih =>
    obtain ⟨k', m⟩ := x
    simp only [List.map_cons, List.nodup_cons] at hnd
    by_cases hk : k' = k
    · subst hk
      have : acc.map (fun p : Line × Nat => if p.1 == k' then (p.1, p.2 + n) else p) = acc := by
        conv => rhs; rw [← List.map_id acc]
        apply List.map_congr_left
        intro p hp
        have : p.1 ≠ k' := by
          intro h; apply hnd.1; rw [← h]; exact List.mem_map_of_mem hp
        simp [this]
      simp only [bump, beq_self_eq_true, if_true, List.map_cons, List.mem_cons, true_or, this]
    · have hk' : (k' == k) = false := by simpa using hk
      have hk2 : ¬ k = k' := fun h => hk h.symm
      simp only [bump, hk', Bool.false_eq_true, if_false, ih hnd.2, List.map_cons, List.mem_cons, hk2,
        false_or]
      split <;> simp

theorem bump_perm (k : Line) (n : Nat) (acc acc' : List (Line × Nat)) (hnd : (acc.map (·.1)).Nodup)
    (h : acc.Perm acc') : (bump k n acc).Perm (bump k n acc') := by
  have hnd' : (acc'.map (·.1)).Nodup := (h.map _).nodup_iff.1 hnd
  rw [bump_eq k n acc hnd, bump_eq k n acc' hnd']
  have hm : k ∈ acc.map (·.1) ↔ k ∈ acc'.map (·.1) := (h.map _).mem_iff
  by_cases hk : k ∈ acc.map (·.1)
  · rw [if_pos hk, if_pos (hm.1 hk)]
    exact h.map _
  · rw [if_neg hk, if_neg (fun h' => hk (hm.2 h'))]
    exact h.append_right _

/-- the relation between the states of `clean` on permuted inputs -/
def CleanRel (s s' : List (Line × Nat) × Nat) : Prop :=
  s.1.Perm s'.1 ∧ (s.1.map (·.1)).Nodup ∧ s.2 = s'.2

theorem cleanFold_perm (so re : Bool) {items items' : List (Option Line × Nat)} (h : items.Perm items') :
    CleanRel (items.foldl (cleanStep so re) ([], 0)) (items'.foldl (cleanStep so re) ([], 0)) := by
  apply foldl_perm_rel (cleanStep so re) CleanRel _ _ _ _ h
  · exact ⟨List.Perm.refl _, by simp, rfl⟩
  · rintro s s' ⟨h1, h2, h3⟩
    exact ⟨h1.symm, (h1.map _).nodup_iff.1 h2, h3.symm⟩
  · rintro s s' s'' ⟨h1, h2, h3⟩ ⟨h1', _, h3'⟩
    exact ⟨h1.trans h1', h2, h3.trans h3'⟩
  · rintro s s' a ⟨h1, h2, h3⟩
    refine ⟨?_, cleanStep_nodup so re s a h2, ?_⟩
    · rw [cleanStep_contrib, cleanStep_contrib]
      cases contrib so re a with
      | none => exact h1
      | some c => exact bump_perm _ _ _ _ h2 h1
    · rw [cleanStep_contrib, cleanStep_contrib]
      cases contrib so re a with
      | none => exact h3
      | some c => simp [h3]
  · rintro s a b ⟨_, h2, _⟩
    refine ⟨?_, cleanStep_nodup so re _ b (cleanStep_nodup so re s a h2), ?_⟩
    · simp only [cleanStep_contrib]
      cases contrib so re a with
      | none => cases contrib so re b <;> exact List.Perm.refl _
      | some c =>
        cases contrib so re b with
        | none => exact List.Perm.refl _
        | some d => exact bump_comm _ _ _ _ _
    · simp only [cleanStep_contrib]
      cases contrib so re a with
      | none => cases contrib so re b <;> rfl
      | some c =>
        cases contrib so re b with
        | none => rfl
        | some d => simp only; omega

/-! ### the order on VRLEs is a strict total order, so sorting forgets the input order -/

def kM : Option Nat → Int
  | some v => v
  | none => -1

theorem kM_inj (a b : Option Nat) (h : kM a = kM b) : a = b := by
  cases a <;> cases b <;> simp [kM] at h ⊢
  all_goals omega

theorem fragKeyLt_iff (a b : Char × Nat × Option Nat) :
    fragKeyLt a b = true ↔
      a.1.toNat < b.1.toNat ∨ (a.1.toNat = b.1.toNat ∧
        (a.2.1 < b.2.1 ∨ (a.2.1 = b.2.1 ∧ kM a.2.2 < kM b.2.2))) := by
  obtain ⟨c, m, M⟩ := a
  obtain ⟨c', m', M'⟩ := b
  simp only [fragKeyLt]
  split
  · rename_i h
    have : c.toNat ≠ c'.toNat := by simpa using h
    simp only [decide_eq_true_eq]
    omega
  · rename_i h
    have h1 : c.toNat = c'.toNat := by simpa using h
    split
    · rename_i h
      have : m ≠ m' := by simpa using h
      simp only [decide_eq_true_eq]
      omega
    · rename_i h
      have h2 : m = m' := by simpa using h
      cases M <;> cases M' <;> simp [kM, h1, h2]

theorem fragKeyLt_iff_false (a b : Char × Nat × Option Nat) :
    fragKeyLt a b = false ↔
      ¬ (a.1.toNat < b.1.toNat ∨ (a.1.toNat = b.1.toNat ∧
        (a.2.1 < b.2.1 ∨ (a.2.1 = b.2.1 ∧ kM a.2.2 < kM b.2.2)))) := by
  rw [← fragKeyLt_iff]; simp

theorem fragKeyLt_irrefl (a : Char × Nat × Option Nat) : fragKeyLt a a = false := by
  rw [fragKeyLt_iff_false]; omega

theorem fragKeyLt_asymm (a b : Char × Nat × Option Nat) (h : fragKeyLt a b = true) : fragKeyLt b a = false := by
  rw [fragKeyLt_iff] at h; rw [fragKeyLt_iff_false]; omega

theorem fragKeyLt_trans (a b c : Char × Nat × Option Nat) (h1 : fragKeyLt a b = true)
    (h2 : fragKeyLt b c = true) : fragKeyLt a c = true := by
  rw [fragKeyLt_iff] at h1 h2 ⊢; omega

theorem fragKeyLt_tri (a b : Char × Nat × Option Nat) (h1 : fragKeyLt a b = false)
    (h2 : fragKeyLt b a = false) : a = b := by
  rw [fragKeyLt_iff_false] at h1 h2
  obtain ⟨c, m, M⟩ := a
  obtain ⟨c', m', M'⟩ := b
  simp only at h1 h2
  have e1 : c = c' := Char.toNat_inj.mp (by omega)
  have e2 : m = m' := by omega
  have e3 : M = M' := kM_inj _ _ (by omega)
  rw [e1, e2, e3]

theorem vrleLt_cons (a b : Char × Nat × Option Nat) (as bs : Vrle) :
    vrleLt (a :: as) (b :: bs) =
      if fragKeyLt a b then true else if fragKeyLt b a then false else vrleLt as bs := rfl

theorem vrleLt_irrefl : ∀ a : Vrle, vrleLt a a = false
  | [] => rfl
  | x :: xs => by simp [vrleLt_cons, fragKeyLt_irrefl, vrleLt_irrefl xs]

theorem vrleLt_asymm : ∀ a b : Vrle, vrleLt a b = true → vrleLt b a = false
  | [], [] => by simp [vrleLt]
  | [], _ :: _ => by simp [vrleLt]
  | _ :: _, [] => by simp [vrleLt]
  | x :: xs, y :: ys => by
    intro h
    rw [vrleLt_cons] at h ⊢
    by_cases hxy : fragKeyLt x y = true
    · simp [hxy, fragKeyLt_asymm x y hxy]
    · by_cases hyx : fragKeyLt y x = true
      · simp [hxy, hyx] at h
      · simp only [hxy, hyx, Bool.false_eq_true, if_false] at h ⊢
        exact vrleLt_asymm xs ys h

theorem vrleLt_tri : ∀ a b : Vrle, vrleLt a b = false → vrleLt b a = false → a = b
  | [], [] => by simp
  | [], _ :: _ => by simp [vrleLt]
  | _ :: _, [] => by simp [vrleLt]
  | x :: xs, y :: ys => by
    intro h1 h2
    rw [vrleLt_cons] at h1 h2
    by_cases hxy : fragKeyLt x y = true
    · simp [hxy] at h1
    · by_cases hyx : fragKeyLt y x = true
      · simp [hyx] at h2
      · simp only [hxy, hyx, Bool.false_eq_true, if_false] at h1 h2
        have e1 : x = y := fragKeyLt_tri x y (by simpa using hxy) (by simpa using hyx)
        rw [e1, vrleLt_tri xs ys h1 h2]

theorem vrleLt_trans : ∀ a b c : Vrle, vrleLt a b = true → vrleLt b c = true → vrleLt a c = true
  | [], [], _ => by simp [vrleLt]
  | [], _ :: _, [] => by simp [vrleLt]
  | [], _ :: _, _ :: _ => by simp [vrleLt]
  | _ :: _, [], _ => by simp [vrleLt]
  | _ :: _, _ :: _, [] => by simp [vrleLt]
  | x :: xs, y :: ys, z :: zs => by
    intro h1 h2
    rw [vrleLt_cons] at h1 h2 ⊢
    by_cases hxy : fragKeyLt x y = true
    · by_cases hyz : fragKeyLt y z = true
      · simp [fragKeyLt_trans x y z hxy hyz]
      · by_cases hzy : fragKeyLt z y = true
        · simp [hyz, hzy] at h2
        · have e : y = z := fragKeyLt_tri y z (by simpa using hyz) (by simpa using hzy)
          subst e
          simp [hxy]
    · by_cases hyx : fragKeyLt y x = true
      · simp [hxy, hyx] at h1
      · have e : x = y := fragKeyLt_tri x y (by simpa using hxy) (by simpa using hyx)
        subst e
        simp only [hxy, Bool.false_eq_true, if_false] at h1
        by_cases hyz : fragKeyLt x z = true
        · simp [hyz]
        · by_cases hzy : fragKeyLt z x = true
          · simp [hyz, hzy] at h2
          · simp only [hyz, hzy, Bool.false_eq_true, if_false] at h2 ⊢
            exact vrleLt_trans xs ys zs h1 h2

theorem vrleLt_of_not_lt_of_lt (y a b : Vrle) (h1 : vrleLt y b = false) (h2 : vrleLt y a = true) :
    vrleLt b a = true := by
  by_cases hby : vrleLt b y = true
  · exact vrleLt_trans b y a hby h2
  · have : y = b := vrleLt_tri y b h1 (by simpa using hby)
    rw [← this]; exact h2

theorem insertVrle_comm (a b : Vrle) (l : List Vrle) :
    insertVrle a (insertVrle b l) = insertVrle b (insertVrle a l) := by
  have base : ∀ t : List Vrle, (∀ y ∈ t.head?, vrleLt y a = false ∧ vrleLt y b = false) →
      insertVrle a (b :: t) = insertVrle b (a :: t) := by
    intro t ht
    have ha : insertVrle a t = a :: t := by
      cases t with
      | nil => rfl
      | cons y ys => simp [insertVrle, (ht y (by simp)).1]
    have hb : insertVrle b t = b :: t := by
      cases t with
      | nil => rfl
      | cons y ys => simp [insertVrle, (ht y (by simp)).2]
    by_cases hba : vrleLt b a = true
    · simp [insertVrle, hba, vrleLt_asymm b a hba, ha]
    · by_cases hab : vrleLt a b = true
      · simp [insertVrle, hba, hab, hb]
      · have : a = b := vrleLt_tri a b (by simpa using hab) (by simpa using hba)
        rw [this]
  induction l with
  | nil => exact base [] (by simp)
  | cons y ys ih =>
    by_cases hya : vrleLt y a = true
    · by_cases hyb : vrleLt y b = true
      · simp [insertVrle, hya, hyb, ih]
      · have hba := vrleLt_of_not_lt_of_lt y a b (by simpa using hyb) hya
        simp [insertVrle, hya, hyb, hba]
    · by_cases hyb : vrleLt y b = true
      · have hab := vrleLt_of_not_lt_of_lt y b a (by simpa using hya) hyb
        simp [insertVrle, hya, hyb, hab]
      · have := base (y :: ys) (by
          intro y' hy'
          simp only [List.head?_cons, Option.mem_def, Option.some.injEq] at hy'
          subst hy'
          exact ⟨by simpa using hya, by simpa using hyb⟩)
        simpa [insertVrle, hya, hyb] using this

/-- sorting VRLEs gives the same list whatever the order of the input -/
theorem foldr_insertVrle_perm {l l' : List Vrle} (h : l.Perm l') :
    l.foldr insertVrle [] = l'.foldr insertVrle [] := by
  induction h with
  | nil => rfl
  | cons a _ ih => simp only [List.foldr_cons, ih]
  | swap a b l => simp only [List.foldr_cons]; exact insertVrle_comm _ _ _
  | trans _ _ ih1 ih2 => exact ih1.trans ih2

/-! ### the set of characters -/

set_option linter.unusedSimpArgs false in
theorem insertChar_comm (a b : Char) (l : List Char) :
    insertChar a (insertChar b l) = insertChar b (insertChar a l) := by
  have e : ∀ x y : Char, (x == y) = decide (x.toNat = y.toNat) := by
    intro x y
    by_cases h : x = y
    · simp [h]
    · have : ¬ x.toNat = y.toNat := fun h' => h (Char.toNat_inj.mp h')
      simp [h, this]
  induction l with
  | nil =>
    by_cases h1 : a.toNat < b.toNat
    · have : ¬ b.toNat < a.toNat := by omega
      have : ¬ a.toNat = b.toNat := by omega
      have : ¬ b.toNat = a.toNat := by omega
      simp [insertChar, e, *]
    · by_cases h2 : b.toNat < a.toNat
      · have : ¬ b.toNat = a.toNat := by omega
        have : ¬ a.toNat = b.toNat := by omega
        simp [insertChar, e, *]
      · have : a = b := Char.toNat_inj.mp (by omega)
        rw [this]
  | cons y ys ih =>
    by_cases h1 : y.toNat < a.toNat <;> by_cases h2 : y.toNat < b.toNat <;>
      by_cases h3 : y.toNat = a.toNat <;> by_cases h4 : y.toNat = b.toNat <;>
      by_cases h5 : a.toNat < b.toNat <;> by_cases h6 : b.toNat < a.toNat <;>
      first
      | omega
      | (have h7 : a = b := Char.toNat_inj.mp (by omega); rw [h7])
      | (have h7 : ¬ a.toNat = b.toNat := by omega
         have h8 : ¬ b.toNat = a.toNat := by omega
         simp [insertChar, e, ih, *])

theorem charSet_perm {ls ls' : List Line} (h : ls.Perm ls') : charSet ls = charSet ls' := by
  unfold charSet
  have h' := h.flatten
  generalize ls.flatten = l at h'
  generalize ls'.flatten = l' at h'
  induction h' with
  | nil => rfl
  | cons a _ ih => simp only [List.foldr_cons, ih]
  | swap a b l => simp only [List.foldr_cons]; exact insertChar_comm _ _ _
  | trans _ _ ih1 ih2 => exact ih1.trans ih2

/-! ### the fine analysis (`expandOrFalsify`) does not depend on the order of the captures -/

abbrev Ent := Char × Nat × Option Nat

def init1 (x : Char × Nat) : Ent := (x.1, x.2, some x.2)
def init0 (x : Char × Nat) : Ent := (x.1, 0, some x.2)

/-- under `WF`, widening is min / max -/
theorem widen_eq (n : Nat) (e : Ent) (he : WF e) :
    widen n e = (e.1, min e.2.1 n, e.2.2.map (fun M => max M n)) := by
  obtain ⟨c, m, M⟩ := e
  cases M with
  | none =>
    simp only [widen, Option.map_none]
    split
    · rename_i h
      have h : m ≤ n := by simpa using h
      rw [Nat.min_eq_left h]
    · rename_i h
      have h : ¬ m ≤ n := by simpa using h
      rw [Nat.min_eq_right (by omega)]
  | some M =>
    have hm : m ≤ M := he M rfl
    simp only [widen, Option.map_some]
    split
    · rename_i h
      have h : m ≤ n ∧ n ≤ M := by simpa using h
      rw [Nat.min_eq_left h.1, Nat.max_eq_left h.2]
    · rename_i h
      have h : ¬ (m ≤ n ∧ n ≤ M) := by simpa using h
      split
      · rename_i h2
        have h2 : n < m := by simpa using h2
        rw [Nat.min_eq_right (by omega), Nat.max_eq_left (by omega)]
      · rename_i h2
        have h2 : ¬ n < m := by simpa using h2
        rw [Nat.min_eq_left (by omega), Nat.max_eq_right (by omega)]

theorem widen_comm (a b : Nat) (e : Ent) (he : WF e) : widen a (widen b e) = widen b (widen a e) := by
  rw [widen_eq a _ (widen_wf b e he), widen_eq b _ (widen_wf a e he), widen_eq b e he, widen_eq a e he]
  obtain ⟨c, m, M⟩ := e
  cases M with
  | none => simp only [Option.map_none, Nat.min_assoc, Nat.min_comm a b]
  | some M => simp only [Option.map_some, Nat.min_assoc, Nat.min_comm a b, Nat.max_assoc, Nat.max_comm a b]

theorem wf_zeroed (e : Ent) : WF (zeroed e) := by
  intro M _; exact Nat.zero_le _

theorem wf_init0 (x : Char × Nat) : WF (init0 x) := by
  intro M _; exact Nat.zero_le _

theorem wf_init1 (x : Char × Nat) : WF (init1 x) := by
  intro M h; simp only [init1, Option.some.injEq] at h; simp [init1, h]

theorem widen_zeroed (n : Nat) (e : Ent) (he : WF e) : widen n (zeroed e) = zeroed (widen n e) := by
  rw [widen_eq n _ (wf_zeroed e), widen_eq n e he]
  simp [zeroed]

theorem widen_init0_symm (x y : Char × Nat) (h : x.1 = y.1) : widen x.2 (init0 y) = widen y.2 (init0 x) := by
  rw [widen_eq _ _ (wf_init0 y), widen_eq _ _ (wf_init0 x)]
  simp [init0, h, Nat.max_comm]

theorem widen_init1_symm (x y : Char × Nat) (h : x.1 = y.1) : widen x.2 (init1 y) = widen y.2 (init1 x) := by
  rw [widen_eq _ _ (wf_init1 y), widen_eq _ _ (wf_init1 x)]
  simp [init1, h, Nat.max_comm, Nat.min_comm]

theorem zeroed_zeroed (e : Ent) : zeroed (zeroed e) = zeroed e := rfl
theorem zeroed_init0 (x : Char × Nat) : zeroed (init0 x) = init0 x := rfl
theorem zeroed_init1 (x : Char × Nat) : zeroed (init1 x) = init0 x := rfl
theorem zeroed_fst (e : Ent) : (zeroed e).1 = e.1 := rfl
theorem zeroed_comp_zeroed : zeroed ∘ zeroed = zeroed := rfl
theorem zeroed_comp_init0 : zeroed ∘ init0 = init0 := rfl
theorem zeroed_comp_init1 : zeroed ∘ init1 = init0 := rfl

/-- one step of `expandOrFalsify` from a VRLE so far, by structural recursion -/
def join (vlf : Bool) : List (Char × Nat) → List Ent → Option (List Ent)
  | [], [] => some []
  | [], v :: vs => if vlf then some ((v :: vs).map zeroed) else none
  | r :: rs, [] => if vlf then some ((r :: rs).map init0) else none
  | r :: rs, v :: vs => if r.1 == v.1 then (join vlf rs vs).map (fun t => widen r.2 v :: t) else none

def ofOpt : Option (List Ent) → Ana
  | some o => .so o
  | none => .failed

theorem expandZip_take (r : List (Char × Nat)) (v : List Ent) :
    expandZip (r.take (min r.length v.length)) (v.take (min r.length v.length)) = expandZip r v := by
  induction r generalizing v with
  | nil => cases v <;> simp [expandZip]
  | cons x xs ih =>
    cases v with
    | nil => simp [expandZip]
    | cons e es =>
      have : min (x :: xs).length (e :: es).length = min xs.length es.length + 1 := by
        simp only [List.length_cons]; omega
      rw [this, List.take_succ_cons, List.take_succ_cons, expandZip, expandZip, ih]

theorem join_eq_expandZip (vlf : Bool) (r : List (Char × Nat)) (v : List Ent) (h : r.length = v.length) :
    join vlf r v = expandZip r v := by
  induction r generalizing v with
  | nil =>
    cases v with
    | nil => rfl
    | cons e es => simp at h
  | cons x xs ih =>
    cases v with
    | nil => simp at h
    | cons e es => rw [join, expandZip, ih es (by simpa using h)]

theorem join_false_ne (r : List (Char × Nat)) (v : List Ent) (h : r.length ≠ v.length) :
    join false r v = none := by
  induction r generalizing v with
  | nil =>
    cases v with
    | nil => simp at h
    | cons e es => simp [join]
  | cons x xs ih =>
    cases v with
    | nil => simp [join]
    | cons e es =>
      rw [join, ih es (by simpa using h)]
      simp

theorem join_true_eq (r : List (Char × Nat)) (v : List Ent) :
    join true r v =
      (expandZip r v).map (fun o => o ++ (r.drop v.length).map init0 ++ (v.drop r.length).map zeroed) := by
  induction r generalizing v with
  | nil => cases v <;> simp [join, expandZip]
  | cons x xs ih =>
    cases v with
    | nil => simp [join, expandZip]
    | cons e es =>
      rw [join, expandZip, ih es]
      split
      · simp [Option.map_map, Function.comp_def]
      · rfl

theorem expandOrFalsify_so_eq (vlf : Bool) (r : List (Char × Nat)) (v : List Ent) :
    expandOrFalsify vlf r (.so v) = ofOpt (join vlf r v) := by
  simp only [expandOrFalsify]
  split
  · rename_i hl
    have hl : r.length = v.length := by simpa using hl
    rw [join_eq_expandZip vlf r v hl]
    cases expandZip r v <;> rfl
  · rename_i hl
    have hl : r.length ≠ v.length := by simpa using hl
    cases vlf with
    | false => simp [join_false_ne r v hl, ofOpt]
    | true =>
      simp only [Bool.not_true, Bool.false_eq_true, if_false]
      rw [expandZip_take, join_true_eq]
      cases expandZip r v with
      | none => rfl
      | some o =>
        simp only [Option.map_some, ofOpt]
        split
        · rename_i hlc
          have hlc : v.length ≤ r.length := by simp at hlc; omega
          have hmin : min r.length v.length = v.length := by omega
          rw [hmin, List.drop_eq_nil_of_le (by omega : v.length ≤ r.length)]
          simp only [List.map_nil, List.append_nil, List.map_drop]
          rfl
        · rename_i hlc
          have hlc : r.length < v.length := by simp at hlc; omega
          have hmin : min r.length v.length = r.length := by omega
          rw [hmin, List.drop_eq_nil_of_le (by omega : r.length ≤ v.length)]
          simp only [List.map_nil, List.append_nil, List.map_drop]
          rfl

theorem join_nil_left (vlf : Bool) (v : List Ent) :
    join vlf [] v = if vlf || v.isEmpty then some (v.map zeroed) else none := by
  cases v <;> cases vlf <;> simp [join]

theorem join_nil_right (vlf : Bool) (r : List (Char × Nat)) :
    join vlf r [] = if vlf || r.isEmpty then some (r.map init0) else none := by
  cases r <;> cases vlf <;> simp [join]

theorem join_init0_symm (vlf : Bool) (r r' : List (Char × Nat)) :
    join vlf r (r'.map init0) = join vlf r' (r.map init0) := by
  induction r generalizing r' with
  | nil =>
    rw [join_nil_left, List.map_nil, join_nil_right]
    simp [zeroed_comp_init0]
  | cons x xs ih =>
    cases r' with
    | nil =>
      rw [join_nil_left, List.map_nil, join_nil_right]
      simp [zeroed_comp_init0, zeroed_init0]
    | cons y ys =>
      simp only [List.map_cons, join]
      by_cases h : x.1 = y.1
      · have h1 : (x.1 == (init0 y).1) = true := by simpa [init0] using h
        have h2 : (y.1 == (init0 x).1) = true := by simpa [init0] using h.symm
        rw [if_pos h1, if_pos h2, ih ys, widen_init0_symm x y h]
      · have h1 : (x.1 == (init0 y).1) = false := by simpa [init0] using h
        have h2 : (y.1 == (init0 x).1) = false := by simpa [init0] using fun h' => h h'.symm
        simp [h1, h2]

theorem join_init1_symm (vlf : Bool) (r r' : List (Char × Nat)) :
    join vlf r (r'.map init1) = join vlf r' (r.map init1) := by
  induction r generalizing r' with
  | nil =>
    rw [join_nil_left, List.map_nil, join_nil_right]
    simp [zeroed_comp_init1]
  | cons x xs ih =>
    cases r' with
    | nil =>
      rw [join_nil_left, List.map_nil, join_nil_right]
      simp [zeroed_comp_init1, zeroed_init1]
    | cons y ys =>
      simp only [List.map_cons, join]
      by_cases h : x.1 = y.1
      · have h1 : (x.1 == (init1 y).1) = true := by simpa [init1] using h
        have h2 : (y.1 == (init1 x).1) = true := by simpa [init1] using h.symm
        rw [if_pos h1, if_pos h2, ih ys, widen_init1_symm x y h]
      · have h1 : (x.1 == (init1 y).1) = false := by simpa [init1] using h
        have h2 : (y.1 == (init1 x).1) = false := by simpa [init1] using fun h' => h h'.symm
        simp [h1, h2]

theorem allWF_cons {e : Ent} {vs : List Ent} (h : AllWF (e :: vs)) : WF e ∧ AllWF vs :=
  ⟨h e (by simp), fun e' he' => h e' (by simp [he'])⟩

theorem join_zeroed (vlf : Bool) (r : List (Char × Nat)) (v : List Ent) (hv : AllWF v) :
    join vlf r (v.map zeroed) = (join vlf r v).map (List.map zeroed) := by
  induction r generalizing v with
  | nil =>
    rw [join_nil_left, join_nil_left]
    cases v <;> cases vlf <;> simp [zeroed_comp_zeroed]
  | cons x xs ih =>
    cases v with
    | nil => cases vlf <;> simp [join, zeroed_comp_init0, zeroed_init0]
    | cons e es =>
      obtain ⟨he, hes⟩ := allWF_cons hv
      simp only [List.map_cons, join]
      by_cases h : (x.1 == e.1) = true
      · have h' : (x.1 == (zeroed e).1) = true := h
        rw [if_pos h', if_pos h, ih es hes, widen_zeroed _ _ he]
        simp [Option.map_map, Function.comp_def]
      · have h' : ¬ (x.1 == (zeroed e).1) = true := h
        rw [if_neg h', if_neg h]; rfl

/-- the case where one of the two new encodings is empty -/
theorem join_comm_nil (vlf : Bool) (v : List Ent) (hv : AllWF v) (r : List (Char × Nat)) :
    (join vlf [] v).bind (join vlf r) = (join vlf r v).bind (join vlf []) := by
  cases vlf with
  | true =>
    rw [join_nil_left]
    simp only [Bool.true_or, if_true, Option.bind_some, join_zeroed true r v hv]
    cases join true r v with
    | none => rfl
    | some w => simp [join_nil_left]
  | false =>
    cases v with
    | nil =>
      cases r with
      | nil => rfl
      | cons x xs => simp [join]
    | cons e es =>
      cases r with
      | nil => simp [join]
      | cons x xs =>
        simp only [join, Bool.false_eq_true, if_false, Option.bind_none]
        split
        · cases join false xs es <;> simp [join]
        · rfl

theorem join_comm (vlf : Bool) (v : List Ent) (hv : AllWF v) (r r' : List (Char × Nat)) :
    (join vlf r' v).bind (join vlf r) = (join vlf r v).bind (join vlf r') := by
  induction v generalizing r r' with
  | nil =>
    rw [join_nil_right, join_nil_right]
    cases vlf with
    | true => simp [join_init0_symm]
    | false =>
      cases r <;> cases r' <;> simp [join]
  | cons e es ih =>
    cases r' with
    | nil => exact join_comm_nil vlf _ hv r
    | cons y ys =>
      cases r with
      | nil => exact (join_comm_nil vlf _ hv _).symm
      | cons x xs =>
        obtain ⟨he, hes⟩ := allWF_cons hv
        simp only [join]
        by_cases hy : (y.1 == e.1) = true
        · by_cases hx : (x.1 == e.1) = true
          · have ih' := ih hes xs ys
            rw [if_pos hy, if_pos hx]
            cases hys : join vlf ys es with
            | none =>
              rw [hys] at ih'
              simp only [Option.bind_none] at ih'
              cases hxs : join vlf xs es with
              | none => rfl
              | some t' =>
                rw [hxs] at ih'
                simp only [Option.bind_some] at ih'
                simp [join, widen_fst, hy, ← ih']
            | some t =>
              rw [hys] at ih'
              simp only [Option.bind_some] at ih'
              cases hxs : join vlf xs es with
              | none =>
                rw [hxs] at ih'
                simp only [Option.bind_none] at ih'
                simp [join, widen_fst, hx, ih']
              | some t' =>
                rw [hxs] at ih'
                simp only [Option.bind_some] at ih'
                simp [join, widen_fst, hx, hy, ih', widen_comm x.2 y.2 e he]
          · rw [if_pos hy, if_neg hx]
            cases join vlf ys es <;> simp [join, widen_fst, hx]
        · by_cases hx : (x.1 == e.1) = true
          · rw [if_neg hy, if_pos hx]
            cases join vlf xs es <;> simp [join, widen_fst, hy]
          · rw [if_neg hy, if_neg hx]; rfl

/-- states of the analysis whose entries all have a non-empty range -/
def AnaWF : Ana → Prop
  | .so v => AllWF v
  | _ => True

theorem expandOrFalsify_ofOpt (vlf : Bool) (r : List (Char × Nat)) (x : Option (List Ent)) :
    expandOrFalsify vlf r (ofOpt x) = ofOpt (x.bind (join vlf r)) := by
  cases x with
  | none => rfl
  | some o => exact expandOrFalsify_so_eq vlf r o

theorem expandOrFalsify_wf (vlf : Bool) (r : List (Char × Nat)) (a : Ana) (ha : AnaWF a) :
    AnaWF (expandOrFalsify vlf r a) := by
  cases a with
  | failed => trivial
  | notYet => exact wf_init r
  | so v =>
    cases h : expandOrFalsify vlf r (.so v) with
    | failed => trivial
    | notYet => trivial
    | so v' => exact (expandOrFalsify_so vlf r v v' ha h).1

theorem expandOrFalsify_comm (vlf : Bool) (r r' : List (Char × Nat)) (a : Ana) (ha : AnaWF a) :
    expandOrFalsify vlf r (expandOrFalsify vlf r' a) = expandOrFalsify vlf r' (expandOrFalsify vlf r a) := by
  cases a with
  | failed => rfl
  | notYet =>
    show expandOrFalsify vlf r (.so (r'.map init1)) = expandOrFalsify vlf r' (.so (r.map init1))
    rw [expandOrFalsify_so_eq, expandOrFalsify_so_eq, join_init1_symm]
  | so v =>
    rw [expandOrFalsify_so_eq, expandOrFalsify_so_eq, expandOrFalsify_ofOpt, expandOrFalsify_ofOpt,
      join_comm vlf v ha]

/-- the analysis of a list of captured strings does not depend on their order -/
theorem analysis_perm (vlf : Bool) (h : Line → List (Char × Nat)) {caps caps' : List Line}
    (hp : caps.Perm caps') :
    caps.foldl (fun a g => expandOrFalsify vlf (h g) a) .notYet =
      caps'.foldl (fun a g => expandOrFalsify vlf (h g) a) .notYet :=
  foldl_perm_inv (fun a g => expandOrFalsify vlf (h g) a) AnaWF
    (fun a g ha => expandOrFalsify_wf vlf (h g) a ha)
    (fun a g g' ha => expandOrFalsify_comm vlf (h g') (h g) a ha) hp .notYet trivial

/-! ### refining one fragment, one VRLE -/

theorem cappedStrings_all_eq (cap : Nat) (s : Line) (gs : List Line) (h : ∀ g ∈ gs, g = s) :
    gs.foldl (fun acc g => if acc.length ≤ cap && !acc.contains g then acc ++ [g] else acc) [s] = [s] := by
  induction gs with
  | nil => rfl
  | cons g gs ih =>
    have hg : g = s := h g (by simp)
    subst hg
    simp only [List.foldl_cons]
    have : ([g].length ≤ cap && ![g].contains g) = false := by simp
    rw [this]
    exact ih (fun g' hg' => h g' (by simp [hg']))

theorem cappedStrings_single_iff (cap : Nat) (hcap : 1 ≤ cap) (s : Line) (gs : List Line) :
    cappedStrings cap gs = [s] ↔ gs ≠ [] ∧ ∀ g ∈ gs, g = s := by
  constructor
  · intro h
    refine ⟨?_, cappedStrings_single cap hcap s gs h⟩
    rintro rfl
    simp [cappedStrings] at h
  · rintro ⟨hne, hall⟩
    cases gs with
    | nil => exact absurd rfl hne
    | cons g gs =>
      have hg : g = s := hall g (by simp)
      subst hg
      unfold cappedStrings
      simp only [List.foldl_cons]
      have : (([] : List Line).length ≤ cap && !([] : List Line).contains g) = true := by simp
      rw [this]
      exact cappedStrings_all_eq cap g gs (fun g' hg' => hall g' (by simp [hg']))

theorem cappedStrings_single_perm (cap : Nat) (hcap : 1 ≤ cap) {gs gs' : List Line} (h : gs.Perm gs')
    (s : Line) : cappedStrings cap gs = [s] ↔ cappedStrings cap gs' = [s] := by
  rw [cappedStrings_single_iff cap hcap, cappedStrings_single_iff cap hcap]
  constructor
  · rintro ⟨h1, h2⟩
    exact ⟨fun h0 => h1 (by subst h0; exact h.eq_nil), fun g hg => h2 g (h.mem_iff.2 hg)⟩
  · rintro ⟨h1, h2⟩
    exact ⟨fun h0 => h1 (by subst h0; exact h.symm.eq_nil), fun g hg => h2 g (h.mem_iff.1 hg)⟩

/-- `refineFrag` as a function of the three things it computes from the captures -/
def refineCore (T : CharTable) (E : List Char) (sz : Sizes)
    (fr : Char × Nat × Option Nat) (nGroups : Nat)
    (strings : List Line) (chars : List Char) (an : Ana × Ana) : List Frag × Nat :=
  let c := fr.1
  let m := fr.2.1
  let M := fr.2.2
  let (fc, ch) := an
  match strings with
  | [s] => ([{ atom := .escStr s, m := 1, M := some 1, fixed := true }], nGroups)
  | _ =>
    match chars with
    | [x] => ([{ atom := .escChar x, m := m, M := M, fixed := true }], nGroups)
    | _ =>
      if c == cUAlpha then
        match ch, fc with
        | .so v, _ =>
          if !v.isEmpty then
            ((v.map plusify).map (fun e => { atom := .rawChar e.1, m := e.2.1, M := e.2.2, fixed := true }), nGroups)
          else refineFrag.generalise T E c m M chars nGroups
        | _, .so v =>
          if !v.isEmpty && nGroups + v.length - 1 ≤ maxGroups then
            ((v.map plusify).map (fun e => { atom := .code e.1, m := e.2.1, M := e.2.2, fixed := false }),
             nGroups + v.length - 1)
          else refineFrag.generalise T E c m M chars nGroups
        | _, _ => refineFrag.generalise T E c m M chars nGroups
      else if c == cPunc && chars.length ≤ sz.maxPuncInGroup then
        ([{ atom := .bracket chars, m := m, M := M, fixed := true }], nGroups)
      else ([{ atom := .code c, m := m, M := M, fixed := false }], nGroups)

theorem refineFrag_eq_core (T : CharTable) (E : List Char) (vlf : Bool) (sz : Sizes)
    (fr : Char × Nat × Option Nat) (caps : List Line) (nGroups : Nat) :
    refineFrag T E vlf sz fr caps nGroups =
      refineCore T E sz fr nGroups (cappedStrings sz.maxStringsInGroup caps) (charSet caps)
        (if fr.1 == cUAlpha then
          caps.foldl (fun (st : Ana × Ana) g => rleFcC T E vlf g st.1 st.2) (Ana.notYet, Ana.notYet)
         else (Ana.failed, Ana.failed)) := rfl

theorem refineCore_congr (T : CharTable) (E : List Char) (sz : Sizes)
    (fr : Char × Nat × Option Nat) (nGroups : Nat) (strings strings' : List Line) (chars : List Char)
    (an : Ana × Ana) (h : ∀ s, strings = [s] ↔ strings' = [s]) :
    refineCore T E sz fr nGroups strings chars an = refineCore T E sz fr nGroups strings' chars an := by
  match strings, strings', h with
  | [a], strings', h => rw [(h a).1 rfl]
  | strings, [b], h => rw [(h b).2 rfl]
  | [], [], _ => rfl
  | [], _ :: _ :: _, _ => rfl
  | _ :: _ :: _, [], _ => rfl
  | _ :: _ :: _, _ :: _ :: _, _ => rfl

/-- **refining a fragment does not depend on the order of the captured strings** -/
theorem refineFrag_perm (T : CharTable) (E : List Char) (vlf : Bool) (sz : Sizes)
    (hcap : 1 ≤ sz.maxStringsInGroup) (fr : Char × Nat × Option Nat) {caps caps' : List Line}
    (h : caps.Perm caps') (nGroups : Nat) :
    refineFrag T E vlf sz fr caps nGroups = refineFrag T E vlf sz fr caps' nGroups := by
  rw [refineFrag_eq_core, refineFrag_eq_core, charSet_perm h, fold_rleFcC, fold_rleFcC,
    analysis_perm vlf (fun g => rle (g.map (fineClass T E))) h, analysis_perm vlf (fun g => rle g) h]
  exact refineCore_congr T E sz fr nGroups _ _ _ _ (cappedStrings_single_perm _ hcap h)

theorem column_perm {caps caps' : List (List Line)} (h : caps.Perm caps') (i : Nat) :
    (column caps i).Perm (column caps' i) := h.map _

theorem blocks_perm (T : CharTable) (E : List Char) (vlf : Bool) (sz : Sizes)
    (hcap : 1 ≤ sz.maxStringsInGroup) (v : Vrle) {caps caps' : List (List Line)} (h : caps.Perm caps') :
    blocks T E vlf sz v caps = blocks T E vlf sz v caps' := by
  unfold blocks
  have : ∀ i n, refineFrag T E vlf sz (v.getD i ('?', 0, none)) (column caps i) n =
      refineFrag T E vlf sz (v.getD i ('?', 0, none)) (column caps' i) n :=
    fun i n => refineFrag_perm T E vlf sz hcap _ (column_perm h i) n
  simp only [this]

/-- two optional lists: both absent, or both present and permutations of each other -/
def OptPerm {β : Type} : Option (List β) → Option (List β) → Prop
  | none, none => True
  | some a, some b => a.Perm b
  | _, _ => False

theorem mapM_option_perm {α β : Type} (f : α → Option β) {l l' : List α} (h : l.Perm l') :
    OptPerm (l.mapM f) (l'.mapM f) := by
  induction h with
  | nil => simp [OptPerm]
  | @cons a l l' _ ih =>
    simp only [List.mapM_cons]
    cases f a with
    | none => trivial
    | some b =>
      cases h1 : l.mapM f <;> cases h2 : l'.mapM f <;> rw [h1, h2] at ih <;> simp_all [OptPerm]
  | swap a b l =>
    simp only [List.mapM_cons]
    cases f a <;> cases f b <;> cases l.mapM f <;> simp [OptPerm, List.Perm.swap]
  | @trans l1 l2 l3 _ _ ih1 ih2 =>
    cases h1 : l1.mapM f <;> cases h2 : l2.mapM f <;> cases h3 : l3.mapM f <;>
      rw [h1, h2] at ih1 <;> rw [h2, h3] at ih2 <;> simp_all [OptPerm]
    exact ih1.trans ih2

/-- **refining a VRLE does not depend on the order of its examples** -/
theorem refineVrle_perm (T : CharTable) (E : List Char) (vlf : Bool) (sz : Sizes)
    (hcap : 1 ≤ sz.maxStringsInGroup) (w : Bool) (v : Vrle) {examples examples' : List Line}
    (h : examples.Perm examples') :
    refineVrle T E vlf sz w v examples = refineVrle T E vlf sz w v examples' := by
  rw [refineVrle_eq, refineVrle_eq]
  have := mapM_option_perm (fun e => (matchCap T E (wrapWs w (fragsOfVrle v)) e).map
        (fun r => if w then (r.drop 1).take v.length else r)) h
  revert this
  generalize examples.mapM (fun e => (matchCap T E (wrapWs w (fragsOfVrle v)) e).map
        (fun r => if w then (r.drop 1).take v.length else r)) = x
  generalize examples'.mapM (fun e => (matchCap T E (wrapWs w (fragsOfVrle v)) e).map
        (fun r => if w then (r.drop 1).take v.length else r)) = y
  intro hxy
  match x, y, hxy with
  | none, none, _ => rfl
  | some a, some b, hab => simp only [Option.map_some, blocks_perm T E vlf sz hcap v hab]

/-! ### de-duplication, grouping, VRLEs -/

theorem nodup_eraseDups_aux {α : Type} [BEq α] [LawfulBEq α] :
    ∀ (n : Nat) (l : List α), l.length ≤ n → l.eraseDups.Nodup := by
  intro n
  induction n with
  | zero =>
    intro l hl
    have : l = [] := List.length_eq_zero_iff.1 (by omega)
    subst this
    simp
  | succ n ih =>
    intro l hl
    cases l with
    | nil => simp
    | cons a as =>
      rw [List.eraseDups_cons, List.nodup_cons]
      constructor
      · intro hmem
        rw [List.mem_eraseDups, List.mem_filter] at hmem
        simp at hmem
      · apply ih
        have := List.length_filter_le (fun b => !b == a) as
        simp only [List.length_cons] at hl
        omega

theorem nodup_eraseDups {α : Type} [BEq α] [LawfulBEq α] (l : List α) : l.eraseDups.Nodup :=
  nodup_eraseDups_aux l.length l (Nat.le_refl _)

theorem eraseDups_perm_of_mem {α : Type} [BEq α] [LawfulBEq α] {l l' : List α}
    (h : ∀ x, x ∈ l ↔ x ∈ l') : l.eraseDups.Perm l'.eraseDups := by
  rw [List.perm_ext_iff_of_nodup (nodup_eraseDups l) (nodup_eraseDups l')]
  intro x
  rw [List.mem_eraseDups, List.mem_eraseDups]
  exact h x

theorem eraseDups_perm {α : Type} [BEq α] [LawfulBEq α] {l l' : List α} (h : l.Perm l') :
    l.eraseDups.Perm l'.eraseDups :=
  eraseDups_perm_of_mem (fun _ => h.mem_iff)

theorem listMinNat_mem : ∀ (l : List Nat), l ≠ [] → listMinNat l ∈ l
  | [], h => absurd rfl h
  | [x], _ => by simp [listMinNat]
  | x :: y :: ys, _ => by
    have ih := listMinNat_mem (y :: ys) (by simp)
    have : listMinNat (x :: y :: ys) = min x (listMinNat (y :: ys)) := rfl
    rw [this]
    rcases Nat.le_total x (listMinNat (y :: ys)) with h | h
    · rw [Nat.min_eq_left h]; simp
    · rw [Nat.min_eq_right h]; exact List.mem_cons_of_mem _ ih

theorem listMaxNat_mem : ∀ (l : List Nat), l ≠ [] → listMaxNat l ∈ l
  | [], h => absurd rfl h
  | [x], _ => by simp [listMaxNat]
  | x :: y :: ys, _ => by
    have ih := listMaxNat_mem (y :: ys) (by simp)
    have : listMaxNat (x :: y :: ys) = max x (listMaxNat (y :: ys)) := rfl
    rw [this]
    rcases Nat.le_total x (listMaxNat (y :: ys)) with h | h
    · rw [Nat.max_eq_right h]; exact List.mem_cons_of_mem _ ih
    · rw [Nat.max_eq_left h]; simp

theorem listMinNat_perm {l l' : List Nat} (h : l.Perm l') : listMinNat l = listMinNat l' := by
  by_cases hl : l = []
  · subst hl; rw [h.nil_eq]
  · have hl' : l' ≠ [] := fun h0 => hl (by subst h0; exact h.eq_nil)
    have h1 := listMinNat_le (h.mem_iff.1 (listMinNat_mem l hl))
    have h2 := listMinNat_le (h.mem_iff.2 (listMinNat_mem l' hl'))
    omega

theorem listMaxNat_perm {l l' : List Nat} (h : l.Perm l') : listMaxNat l = listMaxNat l' := by
  by_cases hl : l = []
  · subst hl; rw [h.nil_eq]
  · have hl' : l' ≠ [] := fun h0 => hl (by subst h0; exact h.eq_nil)
    have h1 := le_listMaxNat (h.mem_iff.1 (listMaxNat_mem l hl))
    have h2 := le_listMaxNat (h.mem_iff.2 (listMaxNat_mem l' hl'))
    omega

theorem vrleOfGroup_perm (sg : List Char) {rs rs' : List (List (Char × Nat))} (h : rs.Perm rs') :
    vrleOfGroup sg rs = vrleOfGroup sg rs' := by
  unfold vrleOfGroup
  have h1 : ∀ i, listMinNat (rs.map (fun r => (r.getD i ('?', 0)).2)) =
      listMinNat (rs'.map (fun r => (r.getD i ('?', 0)).2)) := fun i => listMinNat_perm (h.map _)
  have h2 : ∀ i, listMaxNat (rs.map (fun r => (r.getD i ('?', 0)).2)) =
      listMaxNat (rs'.map (fun r => (r.getD i ('?', 0)).2)) := fun i => listMaxNat_perm (h.map _)
  simp only [h1, h2]

theorem groups_mem_of_perm {rles rles' : List (List (Char × Nat))} (h : rles.Perm rles') (x : Vrle)
    (hx : x ∈ (groupBySig rles).map (fun g => vrleOfGroup g.1 g.2)) :
    x ∈ (groupBySig rles').map (fun g => vrleOfGroup g.1 g.2) := by
  obtain ⟨g, hg, rfl⟩ := List.mem_map.1 hx
  obtain ⟨hg2, hne⟩ := (groupBySig_spec rles).2.1 g hg
  obtain ⟨r, hr⟩ := List.exists_mem_of_ne_nil _ hne
  obtain ⟨hr1, hr2⟩ := (groupBySig_mem_group hg).1 hr
  obtain ⟨g', hg', hg'1⟩ := (groupBySig_spec rles').2.2 r (h.mem_iff.1 hr1)
  have hsig : g'.1 = g.1 := hg'1.trans hr2
  refine List.mem_map.2 ⟨g', hg', ?_⟩
  rw [((groupBySig_spec rles').2.1 g' hg').1, hg2, hsig]
  exact vrleOfGroup_perm _ (h.symm.filter _)

/-- **the VRLEs do not depend on the order of the run-length encodings** -/
theorem toVrles_perm {rles rles' : List (List (Char × Nat))} (h : rles.Perm rles') :
    toVrles rles = toVrles rles' := by
  unfold toVrles
  apply foldr_insertVrle_perm
  apply eraseDups_perm_of_mem
  intro x
  exact ⟨groups_mem_of_perm h x, groups_mem_of_perm h.symm x⟩

/-! ### the batch extraction -/

theorem any_perm {α : Type} {l l' : List α} (h : l.Perm l') (p : α → Bool) : l.any p = l'.any p := by
  rw [Bool.eq_iff_iff, List.any_eq_true, List.any_eq_true]
  constructor
  · rintro ⟨x, hx, hp⟩; exact ⟨x, h.mem_iff.1 hx, hp⟩
  · rintro ⟨x, hx, hp⟩; exact ⟨x, h.mem_iff.2 hx, hp⟩

theorem thinExtras_perm (extras : List Char) {strings strings' : List Line} (h : strings.Perm strings') :
    thinExtras extras strings = thinExtras extras strings' := by
  unfold thinExtras
  have : ∀ l : Char, strings.any (fun s => s.contains l) = strings'.any (fun s => s.contains l) :=
    fun l => any_perm h _
  simp only [this]

theorem zip_map_self {α β : Type} (f : α → β) (l : List α) : l.zip (l.map f) = l.map (fun a => (a, f a)) := by
  induction l with
  | nil => rfl
  | cons a l ih => simp [ih]

/-- **the batch extraction depends only on the set of cleaned strings** (and on whether anything
    was stripped), not on their order -/
theorem batchExtract_perm (T : CharTable) (o : Opts) (hcap : 1 ≤ o.sizes.maxStringsInGroup)
    (cl cl' : Cleaned) (hs : cl.strings.Perm cl'.strings)
    (hn : decide (cl.nStripped > 0) = decide (cl'.nStripped > 0)) :
    batchExtract T o cl = batchExtract T o cl' := by
  unfold batchExtract
  simp only [← thinExtras_perm o.extras hs, ← hn, zip_map_self]
  generalize thinExtras o.extras cl.strings = E
  have hv : toVrles (cl.strings.map (coarseRle T E)).eraseDups =
      toVrles (cl'.strings.map (coarseRle T E)).eraseDups := toVrles_perm (eraseDups_perm (hs.map _))
  rw [← hv]
  have hF : (fun v => refineVrle T E o.vlf o.sizes (decide (cl.nStripped > 0)) v
        ((cl.strings.map (fun a => (a, coarseRle T E a))).filterMap
          (fun sr => if sigOf sr.2 == sigOf v then some sr.1 else none))) =
      (fun v => refineVrle T E o.vlf o.sizes (decide (cl.nStripped > 0)) v
        ((cl'.strings.map (fun a => (a, coarseRle T E a))).filterMap
          (fun sr => if sigOf sr.2 == sigOf v then some sr.1 else none))) := by
    funext v
    exact refineVrle_perm T E o.vlf o.sizes hcap _ v ((hs.map _).filterMap _)
  rw [hF]

/-! ### frequencies and the final result -/

theorem freqFold_perm (P : Pattern → Line × Nat → Bool) (ps : List Pattern) :
    ∀ (acc : List Nat) (ex ex' : List (Line × Nat)), ex.Perm ex' →
      (ps.foldl (fun (st : List Nat × List (Line × Nat)) p =>
          (st.1 ++ [(((st.2.partition (P p)).1).map (·.2)).sum], (st.2.partition (P p)).2)) (acc, ex)).1 =
      (ps.foldl (fun (st : List Nat × List (Line × Nat)) p =>
          (st.1 ++ [(((st.2.partition (P p)).1).map (·.2)).sum], (st.2.partition (P p)).2)) (acc, ex')).1 := by
  induction ps with
  | nil => intro acc ex ex' _; rfl
  | cons q qs ih =>
    intro acc ex ex' h
    simp only [List.foldl_cons, List.partition_eq_filter_filter]
    have hsum : ((ex.filter (P q)).map (·.2)).sum = ((ex'.filter (P q)).map (·.2)).sum :=
      ((h.filter _).map _).sum_nat
    rw [hsum]
    have := ih (acc ++ [((ex'.filter (P q)).map (·.2)).sum]) _ _ (h.filter (not ∘ P q))
    simpa only [List.partition_eq_filter_filter] using this

theorem reFreqs_perm (T : CharTable) (E : List Char) (w : Bool) (ps : List Pattern) (cl cl' : Cleaned)
    (h : (cl.strings.zip cl.freqs).Perm (cl'.strings.zip cl'.freqs)) :
    reFreqs T E w ps cl = reFreqs T E w ps cl' := by
  have := freqFold_perm (fun p e => matchB T E
    (if w then [({ atom := .code cWhite, m := 0, M := none, fixed := false } : Frag)] ++ p ++
      [({ atom := .code cWhite, m := 0, M := none, fixed := false } : Frag)] else p) e.1) ps [] _ _ h
  exact this

theorem zip_fst_snd {α β : Type} (l : List (α × β)) : (l.map (·.1)).zip (l.map (·.2)) = l := by
  induction l with
  | nil => rfl
  | cons a l ih => simp [ih]

/-- **Order independence**: permuting the supplied examples (with their counts) does not change the
    result of the extraction — the patterns (as a list, in order), the extra letters and the
    whitespace flag.  No assumption on the pruning options; the cap on the number of distinct strings
    per group must be at least 1 (the default is 10). -/
theorem extract_perm (T : CharTable) (o : Opts) (hcap : 1 ≤ o.sizes.maxStringsInGroup)
    (items items' : List (Option Line × Nat)) (h : items.Perm items') :
    extract T o items = extract T o items' := by
  obtain ⟨h1, _, h3⟩ := cleanFold_perm o.stripOpt o.removeEmpties h
  have hs : (clean o.stripOpt o.removeEmpties items).strings.Perm
      (clean o.stripOpt o.removeEmpties items').strings := by
    rw [clean_strings_eq, clean_strings_eq]; exact h1.map _
  have hn : (clean o.stripOpt o.removeEmpties items).nStripped =
      (clean o.stripOpt o.removeEmpties items').nStripped := by
    rw [clean_nStripped_eq, clean_nStripped_eq]; exact h3
  have hz : ((clean o.stripOpt o.removeEmpties items).strings.zip
        (clean o.stripOpt o.removeEmpties items).freqs).Perm
      ((clean o.stripOpt o.removeEmpties items').strings.zip
        (clean o.stripOpt o.removeEmpties items').freqs) := by
    rw [clean_eq_fold, clean_eq_fold]
    simp only [zip_fst_snd]
    exact h1
  have hb := batchExtract_perm T o hcap _ _ hs (by rw [hn])
  unfold extract
  simp only [hs.isEmpty_eq, hb, hn]
  split
  · rfl
  · cases batchExtract T o (clean o.stripOpt o.removeEmpties items') with
    | none => rfl
    | some r =>
      simp only [reFreqs_perm T r.2 _ r.1 _ _ hz]

/-- in the form asked for (the pruning hypothesis is not needed) -/
theorem extract_perm' (T : CharTable) (o : Opts) (items items' : List (Option Line × Nat))
    (h : items.Perm items') (_hprune : o.maxPatterns = none ∧ o.minStrings ≤ 1)
    (hcap : 1 ≤ o.sizes.maxStringsInGroup) : extract T o items = extract T o items' :=
  extract_perm T o hcap items items' h

/-! ### the hypothesis on the cap is needed

With `maxStringsInGroup = 0` the list of "distinct strings" of a fragment is always just the first
captured string, so the fragment is refined to that literal string and the result depends on the
order: e.g. `extract` with `sizes.maxStringsInGroup := 0` gives the pattern `ab` for the examples
`[ab, cd]` and the pattern `cd` for `[cd, ab]` (checked by evaluation).  At the level of one fragment: -/

theorem refineFrag_cap0_order_dependent :
    refineFrag ⟨fun _ => true, fun _ => false, fun _ => false⟩ [] false { maxStringsInGroup := 0 }
        (cPunc, 1, some 1) [['a'], ['b']] 1 ≠
    refineFrag ⟨fun _ => true, fun _ => false, fun _ => false⟩ [] false { maxStringsInGroup := 0 }
        (cPunc, 1, some 1) [['b'], ['a']] 1 := by
  decide

end TddaVerif.Props.C14.PermLemmas
