/-
pdextract = extract on the plain list of all the values: de-duplicating per column and dropping nulls first
changes nothing (default options: no stripping, no pruning).
-/
import TddaVerif.Model.RexpySeries
import TddaVerif.Lemmas.RexpyInvariance
import TddaVerif.Lemmas.RexpyVrle

namespace TddaVerif.Props.C03.Lemmas
open TddaVerif.Py TddaVerif.Rexpy

/-- one step on the key list of the Counter: a new key goes to the end, a known one changes nothing -/
def addKey (ks : List Line) (s : Line) : List Line := if s ∈ ks then ks else ks ++ [s]

/-- the strings of `ys` not in `seen`, each once, in order of first occurrence -/
def dedupFrom (seen : List Line) : List Line → List Line
  | [] => []
  | y :: ys => if y ∈ seen then dedupFrom seen ys else y :: dedupFrom (seen ++ [y]) ys

theorem foldl_addKey (ys : List Line) : ∀ ks : List Line, ys.foldl addKey ks = ks ++ dedupFrom ks ys := by
  induction ys with
  | nil => intro ks; simp [dedupFrom]
  | cons y ys ih =>
    intro ks
    rw [List.foldl_cons, ih]
    by_cases h : y ∈ ks <;> simp [addKey, dedupFrom, h]

theorem dedupFrom_eq_eraseDups (l : List Line) :
    ∀ ks : List Line, dedupFrom ks l = (l.filter (fun b => !ks.contains b)).eraseDups := by
  induction l with
  | nil => intro ks; simp [dedupFrom]
  | cons y l ih =>
    intro ks
    by_cases h : y ∈ ks
    · simp [dedupFrom, h, ih]
    · simp only [dedupFrom, h, if_false, ih]
      rw [List.filter_cons_of_pos (by simpa using h), List.eraseDups_cons, List.filter_filter]
      congr 2
      apply List.filter_congr
      intro b _
      by_cases hb : b = y <;> simp [hb]

theorem eraseDups_eq_dedupFrom (l : List Line) : l.eraseDups = dedupFrom [] l := by
  rw [dedupFrom_eq_eraseDups]; simp

/-- de-duplicating first (against a smaller set of seen strings) does not change the later de-duplication -/
theorem dedupFrom_dedupFrom (l : List Line) :
    ∀ ks ks' : List Line, (∀ x, x ∈ ks' → x ∈ ks) → dedupFrom ks (dedupFrom ks' l) = dedupFrom ks l := by
  induction l with
  | nil => intro ks ks' _; simp [dedupFrom]
  | cons y l ih =>
    intro ks ks' hsub
    by_cases h' : y ∈ ks'
    · have h : y ∈ ks := hsub y h'
      simp only [dedupFrom, h', h, if_true]
      exact ih ks ks' hsub
    · by_cases h : y ∈ ks
      · simp only [dedupFrom, h', h, if_true, if_false]
        apply ih
        intro x hx
        rcases List.mem_append.1 hx with hx | hx
        · exact hsub x hx
        · rw [List.mem_singleton.1 hx]; exact h
      · simp only [dedupFrom, h', h, if_false]
        congr 1
        apply ih
        intro x hx
        rcases List.mem_append.1 hx with hx | hx
        · exact List.mem_append_left _ (hsub x hx)
        · exact List.mem_append_right _ hx

theorem foldl_addKey_eraseDups (l ks : List Line) : l.eraseDups.foldl addKey ks = l.foldl addKey ks := by
  rw [foldl_addKey, foldl_addKey, eraseDups_eq_dedupFrom, dedupFrom_dedupFrom l ks [] (by simp)]

/-- per-column de-duplication is absorbed by the Counter -/
theorem foldl_addKey_flatMap_eraseDups (cols : List (List Line)) :
    ∀ ks : List Line, (cols.flatMap List.eraseDups).foldl addKey ks = cols.flatten.foldl addKey ks := by
  induction cols with
  | nil => intro ks; rfl
  | cons c cols ih =>
    intro ks
    rw [List.flatMap_cons, List.flatten_cons, List.foldl_append, List.foldl_append, foldl_addKey_eraseDups, ih]

/-- with no stripping and no removal of empties, and all counts 1: the keys of the Counter evolve by `addKey`
    over the non-null values, and nothing is ever counted as stripped -/
theorem cleanFold_ones (xs : List (Option Line)) :
    ∀ st : List (Line × Nat) × Nat,
      ((xs.map (fun s => (s, 1))).foldl (cleanStep false false) st).1.map (·.1)
          = (xs.filterMap id).foldl addKey (st.1.map (·.1)) ∧
      ((xs.map (fun s => (s, 1))).foldl (cleanStep false false) st).2 = st.2 := by
  induction xs with
  | nil => intro st; simp
  | cons x xs ih =>
    intro st
    rw [List.map_cons, List.foldl_cons]
    cases x with
    | none =>
      have h : cleanStep false false st (none, 1) = st := rfl
      rw [h]; simpa using ih st
    | some s =>
      have h : cleanStep false false st (some s, 1) = (bump s 1 st.1, st.2) := by
        simp [cleanStep]
      rw [h]
      obtain ⟨h1, h2⟩ := ih (bump s 1 st.1, st.2)
      refine ⟨?_, h2⟩
      rw [h1]
      simp [bump_keys, addKey]

theorem clean_ones_strings (xs : List (Option Line)) :
    (clean false false (xs.map (fun s => (s, 1)))).strings = (xs.filterMap id).eraseDups := by
  rw [clean_strings_eq, (cleanFold_ones xs ([], 0)).1, foldl_addKey, eraseDups_eq_dedupFrom]
  simp

theorem clean_ones_nStripped (xs : List (Option Line)) :
    (clean false false (xs.map (fun s => (s, 1)))).nStripped = 0 := by
  rw [clean_nStripped_eq, (cleanFold_ones xs ([], 0)).2]

theorem pdextractItems_eq (cols : List (List (Option Line))) :
    pdextractItems cols = ((cols.flatMap (fun c => (c.filterMap id).eraseDups)).map some).map (fun s => (s, 1)) := by
  simp [pdextractItems]

/-- the pandas-column form gives the same result as the plain list of all the values (nulls included, repeats included) -/
theorem series_eq_list (T : CharTable) (cols : List (List (Option Line))) :
    extract T {} (pdextractItems cols) = extract T {} (cols.flatten.map (fun s => (s, 1))) := by
  apply TddaVerif.Props.C14.Lemmas.extract_freq_irrelevant T {} ⟨rfl, Nat.le_refl 1⟩
  · show (clean false false _).strings = (clean false false _).strings
    rw [pdextractItems_eq, clean_ones_strings, clean_ones_strings]
    have hl : ((cols.flatMap (fun c => (c.filterMap id).eraseDups)).map some).filterMap id
        = (cols.map (fun c => c.filterMap id)).flatMap List.eraseDups := by
      simp [List.filterMap_map, List.flatMap_map]
    have hr : cols.flatten.filterMap id = (cols.map (fun c => c.filterMap id)).flatten := by
      simp [List.filterMap_flatten]
    rw [hl, hr, eraseDups_eq_dedupFrom, eraseDups_eq_dedupFrom]
    have := foldl_addKey_flatMap_eraseDups (cols.map (fun c => c.filterMap id)) []
    rw [foldl_addKey, foldl_addKey] at this
    simpa using this
  · show decide ((clean false false _).nStripped > 0) = decide ((clean false false _).nStripped > 0)
    rw [pdextractItems_eq, clean_ones_nStripped, clean_ones_nStripped]


end TddaVerif.Props.C03.Lemmas
