/- Lemmas for C17 (command-line flags). -/
import TddaVerif.Model.Flags
import TddaVerif.Generated.Flags
import TddaVerif.Props.C17Spec

namespace TddaVerif.Props.C17.Lemmas
open TddaVerif.Flags TddaVerif.Props.C17


/-! ### helpers -/

theorem findOpt_mem {opts : List Opt} {t : Tok} {o : Opt} (h : findOpt opts t = some o) :
    o ∈ opts ∧ t ∈ o.spellings := by
  unfold findOpt at h
  have h1 := List.mem_of_find?_eq_some h
  have h2 := List.find?_some h
  simp at h2
  exact ⟨h1, h2⟩

theorem spelling_optlike {opts : List Opt} (hT : TableWF opts) {t : Tok} {o : Opt}
    (h : findOpt opts t = some o) : looksLikeOption t = true :=
  hT o (findOpt_mem h).1 t (findOpt_mem h).2

theorem renderAll_cons (i : Item) (is : List Item) : renderAll (i :: is) = i.render ++ renderAll is := by
  simp [renderAll]

theorem length_le_renderAll (is : List Item) : is.length ≤ (renderAll is).length := by
  induction is with
  | nil => simp [renderAll]
  | cons i is ih =>
    rw [renderAll_cons]
    cases i <;> simp [Item.render] <;> omega

/-- the rendering of a non-empty documented item list starts with an option-like token -/
theorem renderAll_head {opts : List Opt} (hT : TableWF opts) (i : Item) (is : List Item) (hi : i.WF opts) :
    ∃ s tl, renderAll (i :: is) = s :: tl ∧ looksLikeOption s = true := by
  rw [renderAll_cons]
  cases i with
  | flag s => obtain ⟨o, ho, _⟩ := hi; exact ⟨s, _, rfl, spelling_optlike hT ho⟩
  | value s v => obtain ⟨o, ho, _⟩ := hi; exact ⟨s, _, rfl, spelling_optlike hT ho⟩
  | list s items => obtain ⟨o, ho, _⟩ := hi; exact ⟨s, _, rfl, spelling_optlike hT ho⟩

theorem takeWhile_items (items tl : List Tok) (hitems : ∀ x ∈ items, looksLikeOption x = false)
    (htl : ∀ t ∈ tl.head?, looksLikeOption t = true) :
    (items ++ tl).takeWhile (fun x => !looksLikeOption x) = items ∧
    (items ++ tl).dropWhile (fun x => !looksLikeOption x) = tl := by
  induction items with
  | nil =>
    cases tl with
    | nil => simp
    | cons t tl => simp at htl; simp [htl]
  | cons x xs ih =>
    have hx := hitems x (by simp)
    have := ih (fun y hy => hitems y (by simp [hy]))
    simp [hx, this]

theorem meaning_positionals (opts : List Opt) (is : List Item) (p : Parsed) :
    (meaning opts is p).positionals = p.positionals := by
  induction is generalizing p with
  | nil => rfl
  | cons i is ih => cases i <;> simp [meaning, ih]

theorem meaning_unknown (opts : List Opt) (is : List Item) (p : Parsed) :
    (meaning opts is p).unknown = p.unknown := by
  induction is generalizing p with
  | nil => rfl
  | cons i is ih => cases i <;> simp [meaning, ih]

theorem meaning_set_positionals (opts : List Opt) (is : List Item) (p : Parsed) (ps : List Tok) :
    { meaning opts is p with positionals := ps } = meaning opts is { p with positionals := ps } := by
  induction is generalizing p with
  | nil => rfl
  | cons i is ih => cases i <;> simp [meaning, ih]

/-- non-option-like tokens where a file argument may stand are collected as positionals -/
theorem scan_pos (opts : List Opt) (tail : List Tok) :
    ∀ (ps : List Tok) (f : Nat) (p : Parsed), (∀ t ∈ ps, looksLikeOption t = false) →
      scan opts (ps.length + f) (ps ++ tail) p = scan opts f tail { p with positionals := p.positionals ++ ps } := by
  intro ps
  induction ps with
  | nil => intro f p _; simp
  | cons t ps ih =>
    intro f p h
    have ht := h t (by simp)
    have e : (t :: ps).length + f = (ps.length + f) + 1 := by simp; omega
    rw [e, List.cons_append, scan]
    simp only [ht, Bool.false_eq_true, if_false]
    rw [ih f _ (fun y hy => h y (by simp [hy]))]
    simp

/-- documented items are read as what they mean; what follows a final list must not look like an item of it -/
theorem scan_items (opts : List Opt) (hT : TableWF opts) (tail : List Tok) :
    ∀ (is : List Item) (f : Nat) (p : Parsed), (∀ i ∈ is, i.WF opts) →
      (∀ i, is.getLast? = some i → isList i = true → ∀ t ∈ tail.head?, looksLikeOption t = true) →
      scan opts (is.length + f) (renderAll is ++ tail) p = scan opts f tail (meaning opts is p) := by
  intro is
  induction is with
  | nil => intro f p _ _; simp [renderAll, meaning]
  | cons i is ih =>
    intro f p his hlast
    have hi := his i (by simp)
    have his' : ∀ j ∈ is, j.WF opts := fun j hj => his j (by simp [hj])
    have hlast' : ∀ j, is.getLast? = some j → isList j = true → ∀ t ∈ tail.head?, looksLikeOption t = true := by
      intro j hj
      apply hlast j
      cases is with
      | nil => simp at hj
      | cons a as => simpa [List.getLast?_cons_cons] using hj
    have e : (i :: is).length + f = (is.length + f) + 1 := by simp; omega
    rw [e, renderAll_cons]
    cases i with
    | flag s =>
      obtain ⟨o, ho, hk⟩ := hi
      have hs := spelling_optlike hT ho
      simp only [Item.render, List.cons_append, List.nil_append, scan, hs, ho, hk, if_true, beq_self_eq_true]
      rw [ih f _ his' hlast']
      simp [meaning, destOf, ho]
    | value s v =>
      obtain ⟨o, ho, hk, hv, hch, hty⟩ := hi
      have hs := spelling_optlike hT ho
      have hc : (!o.choices.isEmpty && !o.choices.contains v) = false := by
        rcases hch with h | h <;> simp [h]
      have hf : (o.type == "float".toList && !isFloatTok v) = false := by
        by_cases h : o.type = "float".toList
        · rw [hty h]; simp
        · rw [beq_false_of_ne h]; rfl
      simp only [Item.render, List.cons_append, List.nil_append, scan, hs, ho, hk, hv, hc, hf]
      simp only [if_true, Nat.reduceBEq, Bool.false_eq_true, if_false]
      rw [ih f _ his' hlast']
      simp [meaning, destOf, ho]
    | list s items =>
      obtain ⟨o, ho, hk, hitems⟩ := hi
      have hs := spelling_optlike hT ho
      have htl : ∀ t ∈ (renderAll is ++ tail).head?, looksLikeOption t = true := by
        cases is with
        | nil => simpa [renderAll] using hlast (.list s items) (by simp) rfl
        | cons j js =>
          obtain ⟨s', tl', e', hs'⟩ := renderAll_head hT j js (his' j (by simp))
          simp [e', hs']
      obtain ⟨e1, e2⟩ := takeWhile_items items (renderAll is ++ tail) hitems htl
      simp only [Item.render, List.cons_append, List.append_assoc, scan, hs, ho, hk, e1, e2]
      simp only [if_true, Nat.reduceBEq, Bool.false_eq_true, if_false]
      rw [ih f _ his' hlast']
      simp [meaning, destOf, ho]

theorem of_mem_takeWhile {α : Type} (q : α → Bool) (l : List α) (x : α) (h : x ∈ l.takeWhile q) : q x = true := by
  induction l with
  | nil => simp at h
  | cons a l ih =>
    rw [List.takeWhile_cons] at h
    split at h
    · rcases List.mem_cons.1 h with e | e
      · subst e; assumption
      · exact ih e
    · simp at h

theorem scan_nil (opts : List Opt) (f : Nat) (p : Parsed) : scan opts (f + 1) [] p = .ok p := by
  simp [scan]

/-- once an unknown option has been seen the scan never forgets it -/
theorem unknown_mono (opts : List Opt) (fuel : Nat) (argv : List Tok) (p q : Parsed)
    (h : scan opts fuel argv p = .ok q) (hp : p.unknown ≠ []) : q.unknown ≠ [] := by
  fun_induction scan opts fuel argv p <;> simp_all

/-- positionals are only ever added -/
theorem pos_mono (opts : List Opt) (fuel : Nat) (argv : List Tok) (p q : Parsed)
    (h : scan opts fuel argv p = .ok q) : p.positionals.length ≤ q.positionals.length := by
  fun_induction scan opts fuel argv p <;> simp_all <;> omega

/-- general form: an option-like token no parser entry names, anywhere on the command line, is either recorded
    as unknown or the scan has stopped before (help / usage error) -/
theorem scan_unknown_anywhere (opts : List Opt) (u : Tok) (hu : looksLikeOption u = true) (hunk : findOpt opts u = none)
    (fuel : Nat) (argv : List Tok) (p q : Parsed) (hmem : u ∈ argv)
    (h : scan opts fuel argv p = .ok q) : q.unknown ≠ [] := by
  fun_induction scan opts fuel argv p with
  | case1 => simp at h
  | case2 => simp at hmem
  | case3 fuel t rest p ht hf ih => exact unknown_mono _ _ _ _ _ h (by simp)
  | case4 fuel t rest p ht o hf hk ih =>
    apply ih _ h
    rcases List.mem_cons.1 hmem with e | e
    · subst e; simp [hunk] at hf
    · exact e
  | case5 => simp at h
  | case6 => simp at h
  | case7 => simp at h
  | case8 => simp at h
  | case9 => simp at h
  | case10 fuel t p ht o hf hk0 hk3 hk1 v rest' hv hc hfl ih =>
    apply ih _ h
    rcases List.mem_cons.1 hmem with e | e
    · subst e; simp [hunk] at hf
    · rcases List.mem_cons.1 e with e | e
      · subst e; simp [hu] at hv
      · exact e
  | case11 fuel t rest p ht o hf hk0 hk3 hk1 items rest' ih =>
    apply ih _ h
    rcases List.mem_cons.1 hmem with e | e
    · subst e; simp [hunk] at hf
    · have := List.takeWhile_append_dropWhile (p := fun x => !looksLikeOption x) (l := rest)
      rw [← this] at e
      rcases List.mem_append.1 e with e | e
      · have := of_mem_takeWhile _ _ _ e
        simp [hu] at this
      · exact e
  | case12 fuel t rest p ht ih =>
    apply ih _ h
    rcases List.mem_cons.1 hmem with e | e
    · subst e; simp [hu] at ht
    · exact e

theorem paramsOf_unknown (cmd : Cmd) (p : Parsed) (h : p.unknown ≠ []) : ∀ params, paramsOf cmd p ≠ .run params := by
  intro params
  cases cmd <;> simp [paramsOf, discoverParams, verifyParams, detectParams, arityOk, h]

theorem paramsOf_no_pos (cmd : Cmd) (p : Parsed) (h : p.positionals = []) : paramsOf cmd p = .reject := by
  cases cmd <;> simp [paramsOf, discoverParams, verifyParams, detectParams, arityOk, h]

theorem paramsOf_many_pos (cmd : Cmd) (p : Parsed) (h : 3 < p.positionals.length) : paramsOf cmd p = .reject := by
  cases cmd <;> simp [paramsOf, discoverParams, verifyParams, detectParams, arityOk] <;> intros <;> omega

/-- a token that, where an option may stand, is not read as a help option -/
def NoHelp (opts : List Opt) (t : Tok) : Prop := ∀ o, findOpt opts t = some o → o.kind ≠ 3

theorem scan_no_help (opts : List Opt) (fuel : Nat) (argv : List Tok) (p : Parsed)
    (hgood : ∀ t ∈ argv, looksLikeOption t = true → NoHelp opts t) : scan opts fuel argv p ≠ .help := by
  fun_induction scan opts fuel argv p with
  | case1 => simp
  | case2 => simp
  | case3 fuel t rest p ht hf ih => exact ih (fun x hx => hgood x (by simp [hx]))
  | case4 fuel t rest p ht o hf hk ih => exact ih (fun x hx => hgood x (by simp [hx]))
  | case5 fuel t rest p ht o hf hk0 hk3 =>
    exact absurd (by simpa using hk3) (hgood t (by simp) ht o hf)
  | case6 => simp
  | case7 => simp
  | case8 => simp
  | case9 => simp
  | case10 fuel t p ht o hf hk0 hk3 hk1 v rest' hv hc hfl ih => exact ih (fun x hx => hgood x (by simp [hx]))
  | case11 fuel t rest p ht o hf hk0 hk3 hk1 items rest' ih =>
    exact ih (fun x hx => hgood x (List.mem_cons_of_mem _ ((List.dropWhile_sublist _).subset hx)))
  | case12 fuel t rest p ht ih => exact ih (fun x hx => hgood x (by simp [hx]))

theorem renderAll_no_help (opts : List Opt) (is : List Item) (his : ∀ i ∈ is, i.WF opts) :
    ∀ t ∈ renderAll is, looksLikeOption t = true → NoHelp opts t := by
  induction is with
  | nil => simp [renderAll]
  | cons i is ih =>
    intro t ht hl
    rw [renderAll_cons] at ht
    rcases List.mem_append.1 ht with ht | ht
    · have hi := his i (by simp)
      cases i with
      | flag s =>
        obtain ⟨o, ho, hk⟩ := hi
        simp [Item.render] at ht; subst ht
        intro o' ho'; rw [ho] at ho'; cases ho'; omega
      | value s v =>
        obtain ⟨o, ho, hk, hv, _⟩ := hi
        simp [Item.render] at ht
        rcases ht with ht | ht
        · subst ht; intro o' ho'; rw [ho] at ho'; cases ho'; omega
        · subst ht; simp [hv] at hl
      | list s items =>
        obtain ⟨o, ho, hk, hitems⟩ := hi
        simp [Item.render] at ht
        rcases ht with ht | ht
        · subst ht; intro o' ho'; rw [ho] at ho'; cases ho'; omega
        · simp [hitems t ht] at hl
    · exact ih (fun j hj => his j (by simp [hj])) t ht hl

/-- positionals first, then options written the documented way: the scanner returns exactly what was written -/
theorem scan_positionals_then_options (opts : List Opt) (ps : List Tok) (is : List Item) (fuel : Nat)
    (hT : TableWF opts)
    (hps : ∀ p ∈ ps, looksLikeOption p = false) (his : ∀ i ∈ is, i.WF opts)
    (hfuel : (ps ++ renderAll is).length < fuel) :
    scan opts fuel (ps ++ renderAll is) {} = .ok (meaning opts is { positionals := ps }) := by
  have hl := length_le_renderAll is
  obtain ⟨f, rfl⟩ : ∃ f, fuel = ps.length + (is.length + (f + 1)) := by
    refine ⟨fuel - ps.length - is.length - 1, ?_⟩
    simp at hfuel; omega
  rw [scan_pos opts _ ps _ _ hps]
  have := scan_items opts hT [] is (f + 1) { positionals := [] ++ ps } his (by simp)
  rw [List.append_nil] at this
  simp only [List.nil_append] at this ⊢
  rw [this, scan_nil]

/-- options first (the last one not a list, which would swallow what follows), then positionals -/
theorem scan_options_then_positionals (opts : List Opt) (ps : List Tok) (is : List Item) (fuel : Nat)
    (hT : TableWF opts)
    (hps : ∀ p ∈ ps, looksLikeOption p = false) (his : ∀ i ∈ is, i.WF opts)
    (hlast : ∀ i, is.getLast? = some i → isList i = false)
    (hfuel : (renderAll is ++ ps).length < fuel) :
    scan opts fuel (renderAll is ++ ps) {} = .ok { meaning opts is {} with positionals := ps } := by
  have hl := length_le_renderAll is
  obtain ⟨f, rfl⟩ : ∃ f, fuel = is.length + (ps.length + (f + 1)) := by
    refine ⟨fuel - ps.length - is.length - 1, ?_⟩
    simp at hfuel; omega
  rw [scan_items opts hT ps is _ _ his (fun i hi hli => by simp [hlast i hi] at hli)]
  have := scan_pos opts [] ps (f + 1) (meaning opts is {}) hps
  rw [List.append_nil] at this
  rw [this, scan_nil, meaning_positionals]
  simp

/-- an option-like token that no parser entry names, written where an option may stand, is never accepted:
    the command does not run.  (Holds for `u` anywhere on any command line: `scan_unknown_anywhere`;
    `hps` and `his` are not used.) -/
theorem unknown_option_never_runs (cmd : Cmd) (opts : List Opt) (ps : List Tok) (is : List Item) (u : Tok) (rest : List Tok)
    (_hps : ∀ p ∈ ps, looksLikeOption p = false) (_his : ∀ i ∈ is, i.WF opts)
    (hu : looksLikeOption u = true) (hunk : findOpt opts u = none) :
    ∀ params, run cmd opts (ps ++ renderAll is ++ u :: rest) ≠ .run params := by
  intro params
  unfold run
  split
  · simp
  · simp
  · next q hq =>
    exact paramsOf_unknown cmd q (scan_unknown_anywhere opts u hu hunk _ _ _ q (by simp) hq) params

/-- no input named: rejected -/
theorem no_input_rejected (cmd : Cmd) (opts : List Opt) (is : List Item) (hT : TableWF opts)
    (his : ∀ i ∈ is, i.WF opts) :
    run cmd opts (renderAll is) = .reject := by
  unfold run
  have := scan_positionals_then_options opts [] is ((renderAll is).length + 1) hT (by simp) his (by simp)
  rw [List.nil_append] at this
  rw [this]
  exact paramsOf_no_pos cmd _ (by rw [meaning_positionals])

/-- too many file arguments: rejected -/
theorem too_many_positionals_rejected (cmd : Cmd) (opts : List Opt) (ps : List Tok) (is : List Item)
    (hps : ∀ p ∈ ps, looksLikeOption p = false) (his : ∀ i ∈ is, i.WF opts) (hn : 3 < ps.length) :
    run cmd opts (ps ++ renderAll is) = .reject := by
  unfold run
  have e : (ps ++ renderAll is).length + 1 = ps.length + ((renderAll is).length + 1) := by simp; omega
  rw [e, scan_pos opts _ ps _ _ hps]
  split
  · next h => exact absurd h (scan_no_help opts _ _ _ (renderAll_no_help opts is his))
  · rfl
  · next q hq =>
    have := pos_mono _ _ _ _ _ hq
    exact paramsOf_many_pos cmd q (by simp at this; omega)

theorem rex_norex_rejected (p : Parsed) (h1 : p.flag "rex" = true) (h2 : p.flag "norex" = true) :
    discoverParams p = .reject := by
  simp [discoverParams, h1, h2]

theorem all_fields_rejected (p : Parsed) (h1 : p.flag "all" = true) (h2 : p.flag "fields" = true) :
    verifyParams p = .reject ∧ detectParams p = .reject := by
  simp [verifyParams, detectParams, h1, h2]

theorem per_constraint_contradiction_rejected (p : Parsed) (h1 : p.flag "per_constraint" = true)
    (h2 : p.flag "no_per_constraint" = true) : detectParams p = .reject := by
  simp [detectParams, h1, h2]

theorem output_fields_contradiction_rejected (p : Parsed) (l : List Tok) (h1 : p.list "output_fields" = some l)
    (h2 : p.flag "no_output_fields" = true) : detectParams p = .reject := by
  simp [detectParams, h1, h2]

/-- what an accepted `discover` invocation asks the library for -/
theorem discover_params_exact (p : Parsed) (ps : Params) (h : discoverParams p = .run ps) :
    ps = [("inc_rex", .b (p.flag "rex")), ("df_path", optS p.positionals[0]?), ("constraints_path", optS p.positionals[1]?)]
    ∧ 1 ≤ p.positionals.length ∧ p.positionals.length ≤ 2 ∧ p.unknown = [] ∧ ¬ (p.flag "rex" = true ∧ p.flag "norex" = true) := by
  unfold discoverParams at h
  split at h
  · simp at h
  · next ha =>
    split at h
    · simp at h
    · next hr =>
      simp [arityOk] at ha
      simp at hr
      simp at h
      refine ⟨h.symm, List.length_pos_iff.2 ha.1.1, ha.1.2, ha.2, ?_⟩
      simpa using hr

/-- the keywords an accepted `verify` invocation passes: each is present exactly when its option was given -/
theorem verify_params_exact (p : Parsed) (ps : Params) (h : verifyParams p = .run ps) :
    ps.lookup "report" = some (.s (if p.flag "fields" && !p.flag "all" then "fields".toList else "all".toList)) ∧
    ps.lookup "ascii" = some (.b (p.flag "ascii")) ∧
    ps.lookup "type_checking" = (p.value "type_checking").map PVal.s ∧
    ps.lookup "epsilon" = (p.value "epsilon").map PVal.f ∧
    ps.lookup "df_path" = some (optS p.positionals[0]?) ∧
    ps.lookup "constraints_path" = some (optS p.positionals[1]?) := by
  unfold verifyParams at h
  split at h
  · simp at h
  · split at h
    · simp at h
    · next hr =>
      injection h with h
      subst h
      simp only [Bool.and_eq_true, not_and, Bool.not_eq_true] at hr
      cases hv : p.value "type_checking" <;> cases he : p.value "epsilon" <;>
        cases ha : p.flag "all" <;> cases hf : p.flag "fields" <;>
        simp_all [List.lookup]

theorem lookup_ite (k : String) (c : Prop) [Decidable c] (a : String × PVal) :
    List.lookup k (if c then [a] else []) = if c then (if k == a.1 then some a.2 else none) else none := by
  split <;> simp [List.lookup]
  split <;> simp_all

theorem detect_params_exact (p : Parsed) (ps : Params) (h : detectParams p = .run ps) :
    ps.lookup "report" = some (.s "records".toList) ∧
    ps.lookup "ascii" = some (.b (p.flag "ascii")) ∧
    ps.lookup "type_checking" = (p.value "type_checking").map PVal.s ∧
    ps.lookup "epsilon" = (p.value "epsilon").map PVal.f ∧
    ps.lookup "write_all" = (if p.flag "write_all" then some (.b true) else none) ∧
    ps.lookup "per_constraint" = (if p.flag "no_per_constraint" then none else some (.b true)) ∧
    ps.lookup "index" = (if p.flag "index" then some (.b true) else none) ∧
    ps.lookup "boolean_ints" = (if p.flag "boolean_ints" then some (.b true) else none) ∧
    ps.lookup "interleave" = (if p.flag "interleave" then some (.b true) else none) ∧
    ps.lookup "output_fields" = (match p.list "output_fields" with
                                 | some l => some (.l l)
                                 | none => if p.flag "no_output_fields" then none else some (.l [])) ∧
    ps.lookup "in_place" = some (.b false) ∧
    ps.lookup "df_path" = some (optS p.positionals[0]?) ∧
    ps.lookup "constraints_path" = some (optS p.positionals[1]?) ∧
    ps.lookup "outpath" = some (optS p.positionals[2]?) := by
  unfold detectParams at h
  split at h
  · simp at h
  · split at h
    · simp at h
    · split at h
      · simp at h
      · split at h
        · simp at h
        · next hr =>
          injection h with h
          subst h
          simp only [List.lookup_append]
          cases hv : p.value "type_checking" <;> cases he : p.value "epsilon" <;>
            cases hl : p.list "output_fields" <;>
            cases hp : p.flag "no_per_constraint" <;> cases hn : p.flag "no_output_fields" <;>
            simp only [lookup_ite] <;> simp_all [List.lookup]

/-! ### ties: the tables regenerated from the source are well formed and contain what the mapping reads -/

def tableOf (rows : List Generated.Flags.OptRow) : List Opt := rows.map Opt.ofRow

theorem tie_tables_wf :
    TableWF (tableOf Generated.Flags.discoverOpts) ∧ TableWF (tableOf Generated.Flags.verifyOpts) ∧
    TableWF (tableOf Generated.Flags.detectOpts) := by
  simp [TableWF, tableOf, Generated.Flags.discoverOpts, Generated.Flags.verifyOpts, Generated.Flags.detectOpts,
    Opt.ofRow, looksLikeOption]

/-- the destinations the mapping functions read exist, with the kind they are read as -/
theorem tie_dests :
    (∀ d ∈ ["rex", "norex"], ∃ o ∈ tableOf Generated.Flags.discoverOpts, o.dest = d.toList ∧ o.kind = 0) ∧
    (∀ d ∈ ["all", "fields", "ascii"], ∃ o ∈ tableOf Generated.Flags.verifyOpts, o.dest = d.toList ∧ o.kind = 0) ∧
    (∀ d ∈ ["type_checking", "epsilon"], ∃ o ∈ tableOf Generated.Flags.verifyOpts, o.dest = d.toList ∧ o.kind = 1) ∧
    (∀ d ∈ ["all", "fields", "ascii", "write_all", "per_constraint", "no_per_constraint", "no_output_fields", "interleave",
            "index", "boolean_ints"], ∃ o ∈ tableOf Generated.Flags.detectOpts, o.dest = d.toList ∧ o.kind = 0) ∧
    (∀ d ∈ ["type_checking", "epsilon"], ∃ o ∈ tableOf Generated.Flags.detectOpts, o.dest = d.toList ∧ o.kind = 1) ∧
    (∃ o ∈ tableOf Generated.Flags.detectOpts, o.dest = "output_fields".toList ∧ o.kind = 2) := by
  simp [tableOf, Generated.Flags.discoverOpts, Generated.Flags.verifyOpts, Generated.Flags.detectOpts, Opt.ofRow]

/-- the documented spelling `--no-original-fields` is accepted by the detect parser -/
theorem tie_documented_spelling :
    (findOpt (tableOf Generated.Flags.detectOpts) "--no-original-fields".toList).map (·.dest) = some "no_output_fields".toList := by
  decide +kernel

/-- positional arities assumed by the mapping: discover / verify: input [constraints]; detect: input [constraints [outpath]] -/
theorem tie_positionals :
    Generated.Flags.discoverPositionals.map (·.2.1) = [true, false] ∧
    Generated.Flags.verifyPositionals.map (·.2.1) = [true, false] ∧
    Generated.Flags.detectPositionals.map (·.2.1) = [true, false, false] := by
  decide

end TddaVerif.Props.C17.Lemmas
