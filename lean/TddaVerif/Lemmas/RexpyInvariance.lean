/- Lemmas for C13 / C14 on top of the C03 stage lemmas. -/
import TddaVerif.Model.Rexpy
import TddaVerif.Model.RexpyRender
import TddaVerif.Props.C03Spec
import TddaVerif.Lemmas.RexpySound

namespace TddaVerif.Props.C14.Lemmas
open TddaVerif.Py TddaVerif.Rexpy TddaVerif.Props.C03

/-- a frequency dictionary, written out as the list it stands for (each string `n` times, in order) -/
def expand (items : List (Option Line × Nat)) : List (Option Line × Nat) :=
  (items.map (fun it => List.replicate it.2 (it.1, 1))).flatten

open TddaVerif.Props.C03.Lemmas in
theorem clean_eq_fold (so re : Bool) (items : List (Option Line × Nat)) :
    clean so re items =
      { strings := (items.foldl (cleanStep so re) ([], 0)).1.map (·.1),
        freqs := (items.foldl (cleanStep so re) ([], 0)).1.map (·.2),
        nStripped := (items.foldl (cleanStep so re) ([], 0)).2 } := rfl

theorem bump_bump (t : Line) (a b : Nat) (acc : List (Line × Nat)) :
    bump t a (bump t b acc) = bump t (b + a) acc := by
  induction acc with
  | nil => simp [bump]
  | cons x acc ih =>
    obtain ⟨k', m⟩ := x
    by_cases hk : k' = t
    · subst hk; simp [bump, Nat.add_assoc]
    · have hk' : (k' == t) = false := by simpa using hk
      simp [bump, hk', ih]

open TddaVerif.Props.C03.Lemmas in
/-- `n` copies of an example with count 1 act like the example with count `n` -/
theorem cleanFold_replicate (so re : Bool) (x : Option Line) (n : Nat) :
    ∀ st : List (Line × Nat) × Nat,
      (List.replicate n (x, 1)).foldl (cleanStep so re) st = cleanStep so re st (x, n) := by
  cases x with
  | none =>
    intro st
    induction n with
    | zero => rfl
    | succ n ih => rw [List.replicate_succ, List.foldl_cons]; exact ih
  | some s =>
    cases n with
    | zero => intro st; simp [cleanStep]
    | succ n =>
      by_cases hr : (re && (if so then strip s else s).isEmpty) = true
      · intro st
        have h1 : ∀ m, cleanStep so re st (some s, m) = st := by
          intro m
          by_cases hm : m = 0 <;> simp [cleanStep, hr, hm]
        rw [h1]
        generalize n + 1 = m
        induction m with
        | zero => rfl
        | succ m ih => rw [List.replicate_succ, List.foldl_cons, h1]; exact ih
      · have h1 : ∀ (st : List (Line × Nat) × Nat) (m : Nat),
            cleanStep so re st (some s, m + 1) =
              (bump (if so then strip s else s) (m + 1) st.1,
               if ((if so then strip s else s).length != s.length) = true then st.2 + (m + 1) else st.2) := by
          intro st m
          simp only [cleanStep, hr]
          simp
        induction n with
        | zero => intro st; simp
        | succ n ih =>
          intro st
          rw [List.replicate_succ, List.foldl_cons, ih, h1, h1, h1]
          simp only [bump_bump]
          refine Prod.ext ?_ ?_
          · simp only; rw [Nat.add_comm 1 (n + 1)]
          · simp only
            by_cases hl : ((if so then strip s else s).length != s.length) = true
            · simp only [hl, if_true]; omega
            · simp only [hl]; simp

open TddaVerif.Props.C03.Lemmas in
theorem cleanFold_expand (so re : Bool) (items : List (Option Line × Nat)) :
    ∀ st : List (Line × Nat) × Nat,
      (expand items).foldl (cleanStep so re) st = items.foldl (cleanStep so re) st := by
  induction items with
  | nil => intro st; rfl
  | cons it items ih =>
    intro st
    have : expand (it :: items) = List.replicate it.2 (it.1, 1) ++ expand items := by
      simp [expand]
    rw [this, List.foldl_append, cleanFold_replicate, ih, List.foldl_cons]

/-- supplying the examples as a list with repeats or as a frequency dictionary (keys in
    first-occurrence order) gives the same cleaned examples -/
theorem clean_expand (stripOpt removeEmpties : Bool) (items : List (Option Line × Nat)) :
    clean stripOpt removeEmpties (expand items) = clean stripOpt removeEmpties items := by
  rw [clean_eq_fold, clean_eq_fold, cleanFold_expand]

/-- hence the same result -/
theorem extract_dict_eq_list (T : CharTable) (o : Opts) (items : List (Option Line × Nat)) :
    extract T o (expand items) = extract T o items := by
  unfold extract
  rw [clean_expand]

/-- the batch extraction looks only at the strings and at whether anything was stripped -/
theorem batchExtract_congr (T : CharTable) (o : Opts) (cl cl' : Cleaned)
    (hs : cl.strings = cl'.strings)
    (hn : decide (cl.nStripped > 0) = decide (cl'.nStripped > 0)) :
    batchExtract T o cl = batchExtract T o cl' := by
  unfold batchExtract
  simp only [hs, hn]

/-- without pruning options the frequencies play no role: two inputs whose cleaned strings agree
    (and that agree on whether anything was stripped) give the same patterns -/
theorem extract_freq_irrelevant (T : CharTable) (o : Opts)
    (hprune : o.maxPatterns = none ∧ o.minStrings ≤ 1) (items items' : List (Option Line × Nat))
    (hs : (clean o.stripOpt o.removeEmpties items).strings = (clean o.stripOpt o.removeEmpties items').strings)
    (hn : decide ((clean o.stripOpt o.removeEmpties items).nStripped > 0)
            = decide ((clean o.stripOpt o.removeEmpties items').nStripped > 0)) :
    extract T o items = extract T o items' := by
  unfold extract
  simp only [C03.Lemmas.badPatterns_nil o hprune, batchExtract_congr T o _ _ hs hn, hs, hn]

open TddaVerif.Props.C03.Lemmas in
/-- repeating an example that is already there changes nothing (no pruning) -/
theorem repeat_is_noop (T : CharTable) (o : Opts)
    (hprune : o.maxPatterns = none ∧ o.minStrings ≤ 1) (items : List (Option Line × Nat)) (s : Line) (n k : Nat)
    (hin : (some s, n) ∈ items) (hn : n ≠ 0) :
    extract T o (items ++ [(some s, k)]) = extract T o items := by
  apply extract_freq_irrelevant T o hprune
  · rw [clean_strings_eq, clean_strings_eq, List.foldl_append, List.foldl_cons, List.foldl_nil]
    rcases cleanStep_keys o.stripOpt o.removeEmpties
        (items.foldl (cleanStep o.stripOpt o.removeEmpties) ([], 0)) (some s, k) with ⟨h1, _, _⟩ | ⟨t, hk, _, h3⟩
    · exact h1
    · rw [h3, if_pos]
      rw [cleanFold_mem]
      right
      obtain ⟨s', h1, _, h3, h4⟩ := hk
      cases h1
      exact ⟨(some s, n), hin, s, rfl, hn, h3, h4⟩
  · rw [clean_nStripped_eq, clean_nStripped_eq, List.foldl_append, List.foldl_cons, List.foldl_nil]
    by_cases hk : k = 0
    · simp [cleanStep, hk]
    · by_cases hr : (o.removeEmpties && (if o.stripOpt then strip s else s).isEmpty) = true
      · simp [cleanStep, hr]
      · by_cases hl : ((if o.stripOpt then strip s else s).length != s.length) = true
        · have hpos : 0 < (items.foldl (cleanStep o.stripOpt o.removeEmpties) ([], 0)).2 := by
            apply Nat.pos_of_ne_zero
            intro h0
            cases hso : o.stripOpt with
            | false => simp [hso] at hl
            | true =>
              rw [hso] at hl hr h0
              have := cleanFold_zero o.removeEmpties items s n hn
                (by simpa [List.isEmpty_iff] using hr) _ h0 hin
              simp [this] at hl
          simp only [cleanStep, beq_iff_eq, hk, if_false, hr, Bool.false_eq_true, hl, if_true]
          simp [hpos]
          omega
        · simp only [cleanStep, beq_iff_eq, hk, if_false, hr, Bool.false_eq_true, hl]

/-- every rendered expression is anchored -/
theorem patternText_anchored (E : List Char) (dialect : Nat) (tagged wsWrap : Bool) (p : Pattern) :
    (patternText E dialect tagged wsWrap p).head? = some '^' ∧
    (patternText E dialect tagged wsWrap p).getLast? = some '$' := by
  unfold patternText
  constructor
  · simp
  · simp only []
    exact List.getLast?_concat

end TddaVerif.Props.C14.Lemmas
