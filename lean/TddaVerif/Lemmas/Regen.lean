/- Helper lemmas for C10 (regeneration). Statements mirror Props/C10.lean. -/
import TddaVerif.Model.Regen
import TddaVerif.Props.C19Spec
import TddaVerif.Lemmas.CheckStrings

namespace TddaVerif.Props.C10.Lemmas
open TddaVerif.Py TddaVerif.RefTestCase TddaVerif.CheckStrings TddaVerif.Regen

/-! ### The regeneration table over histories -/

theorem lookupKind_set (t : RegenTable) (kind k : Option Arg) (v : Bool) :
    lookupKind (setRegeneration t kind v) k = if kind == k then some v else lookupKind t k := by
  unfold lookupKind setRegeneration
  by_cases h : kind = k
  · subst h; simp
  · have h' : (kind == k) = false := by simpa using h
    simp only [List.find?_cons, h', List.find?_filter]
    simp only [Bool.false_eq_true, if_false]
    congr 2
    funext kv
    by_cases h2 : kv.1 = k
    · subst h2; simp; exact fun h3 => h h3.symm
    · simp [h2]

theorem lookupKind_applySets (ops : List (Option Arg × Bool)) (k : Option Arg) :
    ∀ t : RegenTable, lookupKind (applySets t ops) k =
      match ops.reverse.find? (fun op => op.1 == k) with
      | some op => some op.2
      | none => lookupKind t k := by
  induction ops with
  | nil => intro t; simp [applySets]
  | cons op ops ih =>
    intro t
    have e : applySets t (op :: ops) = applySets (setRegeneration t op.1 op.2) ops := by
      simp [applySets]
    rw [e, ih, List.reverse_cons, List.find?_append]
    cases h : List.find? (fun op => op.1 == k) ops.reverse with
    | some x => simp
    | none =>
      simp only [Option.none_or, lookupKind_set, List.find?_cons]
      by_cases h2 : op.1 == k <;> simp [h2]

theorem shouldRegenerate_history (ops : List (Option Arg × Bool)) (kind : Option Arg) :
    shouldRegenerate (applySets [] ops) kind =
      match (ops.reverse.find? (fun op => op.1 == kind)) with
      | some op => op.2
      | none => match (ops.reverse.find? (fun op => op.1 == none)) with
                | some op => op.2
                | none => false := by
  have hl : ∀ k, lookupKind (applySets [] ops) k =
      (ops.reverse.find? (fun op => op.1 == k)).map (·.2) := by
    intro k
    rw [lookupKind_applySets]
    cases List.find? (fun op => op.1 == k) ops.reverse <;> simp [lookupKind]
  unfold shouldRegenerate
  simp only [hl]
  cases h1 : List.find? (fun op => op.1 == kind) ops.reverse with
  | some x => simp only [Option.map_some, Option.isSome_some, if_true, h1, Option.getD_some]
  | none =>
    simp only [Option.map_none, Option.isSome_none, Bool.false_eq_true, if_false]
    cases h2 : List.find? (fun op => op.1 == none) ops.reverse <;>
      simp only [Option.map_some, Option.map_none, Option.getD_some, Option.getD_none]

theorem find_all_true (r : List (Option Arg)) (kind : Option Arg) :
    ((r.map (fun x => (x, true))).reverse.find? (fun op => op.1 == kind))
      = if r.contains kind then some (kind, true) else none := by
  cases h : ((r.map (fun x => (x, true))).reverse.find? (fun op => op.1 == kind)) with
  | some op =>
    have h1 := List.find?_some h
    have h2 := List.mem_of_find?_eq_some h
    simp only [List.mem_reverse, List.mem_map] at h2
    obtain ⟨x, hx, rfl⟩ := h2
    have : x = kind := by simpa using h1
    subst this
    simp [hx]
  | none =>
    rw [List.find?_eq_none] at h
    have : r.contains kind = false := by
      rw [Bool.eq_false_iff]
      intro hc
      have hm : kind ∈ r := by simpa using hc
      have := h (kind, true) (by simp [hm])
      simp at this
    rw [this]; simp

theorem regen_all_true (r : List (Option Arg)) (kind : Option Arg) :
    shouldRegenerate (applySets [] (r.map (fun x => (x, true)))) kind
      = (r.contains kind || r.contains none) := by
  rw [shouldRegenerate_history, find_all_true, find_all_true]
  cases h1 : r.contains kind <;> cases h2 : r.contains none <;> simp

theorem write_only_named (kinds : List Arg) (k : Arg) :
    shouldRegenerate (applySets [] (kinds.map (fun x => (some x, true)))) (some k) = kinds.contains k := by
  have e : kinds.map (fun x => (some x, true)) = (kinds.map some).map (fun x => (x, true)) := by
    simp [List.map_map]
  rw [e, regen_all_true]
  have h1 : (kinds.map some).contains (none : Option Arg) = false := by
    rw [Bool.eq_false_iff]; simp
  have h2 : (kinds.map some).contains (some k) = kinds.contains k := by
    rw [Bool.eq_iff_iff]; simp
  rw [h1, h2]; simp

theorem regen_from_cmdline (c : Props.C19.Cmd) (k : Arg) :
    shouldRegenerate (applySets [] (c.meaning.regen.map (fun x => (x, true)))) (some k)
      = (c.meaning.regen.contains (some k) || c.meaning.regen.contains none) :=
  regen_all_true _ _

/-! ### Universal newlines, read-only normal mode, regenerate-then-pass -/

theorem universal_cons_ne (c : Char) (cs : Line) (h : c ≠ '\r') :
    universal (c :: cs) = c :: universal cs := by
  have h' : (c == '\r') = false := by simpa using h
  rw [universal]
  · simp [h']
  · intro cs' hc; exact absurd hc h

theorem universal_cr (cs : Line) (h : ∀ cs', cs ≠ '\n' :: cs') :
    universal ('\r' :: cs) = '\n' :: universal cs := by
  rw [universal]
  · simp
  · intro cs' _ hc; exact h cs' hc

theorem universal_crlf (cs : Line) : universal ('\r' :: '\n' :: cs) = '\n' :: universal cs := by
  rw [universal]

theorem aux_flag (cs cur : Line) (h : ∀ cs', cs ≠ '\n' :: cs') :
    splitlinesAux cs cur true = splitlinesAux cs cur false := by
  cases cs with
  | nil => simp [splitlinesAux]
  | cons c cs' =>
    have : c ≠ '\n' := fun hc => h cs' (by rw [hc])
    simp [splitlinesAux, this]

theorem aux_universal (s : Line) :
    ∀ cur, splitlinesAux (universal s) cur false = splitlinesAux s cur false := by
  fun_induction universal s with
  | case1 => intro cur; rfl
  | case2 cs ih =>
    intro cur
    have h1 : isLineBreak '\n' = true := by decide
    have h2 : isLineBreak '\r' = true := by decide
    simp [splitlinesAux, h1, h2, ih]
  | case3 c cs hne ih =>
    intro cur
    by_cases hc : c = '\r'
    · subst hc
      have hcs : ∀ cs', cs ≠ '\n' :: cs' := fun cs' h => hne cs' rfl h
      have h1 : isLineBreak '\n' = true := by decide
      have h2 : isLineBreak '\r' = true := by decide
      simp [splitlinesAux, h1, h2, ih, aux_flag _ _ hcs]
    · have h' : (c == '\r') = false := by simpa using hc
      simp [splitlinesAux, h', ih]

theorem splitlines_universal (s : Line) : splitlines (universal s) = splitlines s :=
  aux_universal s []

theorem universal_no_cr (s : Line) : ∀ c ∈ universal s, c ≠ '\r' := by
  fun_induction universal s with
  | case1 => simp
  | case2 cs ih =>
    intro c hc
    rcases List.mem_cons.1 hc with rfl | hc
    · decide
    · exact ih c hc
  | case3 c cs hne ih =>
    intro d hd
    rcases List.mem_cons.1 hd with rfl | hd
    · by_cases hc : c = '\r'
      · subst hc; decide
      · simp [hc]
    · exact ih d hd

theorem universal_of_no_cr (t : Line) (h : ∀ c ∈ t, c ≠ '\r') : universal t = t := by
  induction t with
  | nil => rfl
  | cons c cs ih =>
    rw [universal_cons_ne c cs (h c (by simp)), ih (fun d hd => h d (by simp [hd]))]

theorem universal_idem (s : Line) : universal (universal s) = universal s :=
  universal_of_no_cr _ (universal_no_cr s)

theorem normal_mode_readonly_string (t : RegenTable) (kind : Option Arg) (o : Opts) (pat : PatFn)
    (actual : Line) (ref : Option Line) (h : shouldRegenerate t kind = false) :
    (assertString t kind o pat actual ref).ref = ref ∧
    (assertString t kind o pat actual ref).outcome ≠ .regenerated := by
  unfold assertString
  cases ref with
  | none => simp [h]
  | some r => simp only [h, Bool.false_eq_true, if_false]; refine ⟨trivial, ?_⟩; split <;> simp

theorem normal_mode_readonly_textfile (t : RegenTable) (kind : Option Arg) (o : Opts) (pat : PatFn)
    (actual : Line) (ref : Option Line) (h : shouldRegenerate t kind = false) :
    (assertTextFile t kind o pat actual ref).ref = ref ∧
    (assertTextFile t kind o pat actual ref).outcome ≠ .regenerated := by
  unfold assertTextFile
  cases ref with
  | none => simp [h]
  | some r => simp only [h, Bool.false_eq_true, if_false]; refine ⟨trivial, ?_⟩; split <;> simp

theorem normal_mode_readonly_binary (t : RegenTable) (kind : Option Arg)
    (actual : List Nat) (ref : Option (List Nat)) (h : shouldRegenerate t kind = false) :
    (assertBinaryFile t kind actual ref).ref = ref ∧
    (assertBinaryFile t kind actual ref).outcome ≠ .regenerated := by
  unfold assertBinaryFile
  cases ref with
  | none => simp [h]
  | some r => simp only [h, Bool.false_eq_true, if_false]; refine ⟨trivial, ?_⟩; split <;> simp

theorem regenerate_then_pass_string (t t' : RegenTable) (kind : Option Arg) (o : Opts) (pat : PatFn)
    (actual : Line) (ref : Option Line)
    (h : shouldRegenerate t kind = true) (h' : shouldRegenerate t' kind = false) :
    (assertString t' kind o pat actual (assertString t kind o pat actual ref).ref).outcome = .passed := by
  have e : (assertString t kind o pat actual ref).ref = some actual := by
    simp [assertString, h]
  rw [e]
  simp only [assertString, h', Bool.false_eq_true, if_false, splitlines_universal,
    C04.Lemmas.identical_passes, beq_self_eq_true, if_true]

theorem regenerate_then_pass_textfile (t t' : RegenTable) (kind : Option Arg) (o : Opts) (pat : PatFn)
    (actual : Line) (ref : Option Line)
    (h : shouldRegenerate t kind = true) (h' : shouldRegenerate t' kind = false) :
    (assertTextFile t' kind o pat actual (assertTextFile t kind o pat actual ref).ref).outcome = .passed := by
  have e : (assertTextFile t kind o pat actual ref).ref = some (universal actual) := by
    simp [assertTextFile, h]
  rw [e]
  simp only [assertTextFile, h', Bool.false_eq_true, if_false, universal_idem,
    C04.Lemmas.identical_passes, beq_self_eq_true, if_true]

theorem regenerate_then_pass_binary (t t' : RegenTable) (kind : Option Arg)
    (actual : List Nat) (ref : Option (List Nat))
    (h : shouldRegenerate t kind = true) (h' : shouldRegenerate t' kind = false) :
    (assertBinaryFile t' kind actual (assertBinaryFile t kind actual ref).ref).outcome = .passed := by
  have e : (assertBinaryFile t kind actual ref).ref = some actual := by
    simp [assertBinaryFile, h]
  rw [e]
  simp [assertBinaryFile, h']

end TddaVerif.Props.C10.Lemmas
