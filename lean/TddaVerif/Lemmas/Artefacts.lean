/- Helper lemmas for C15 (artefacts of failed text assertions). Statements mirror Props/C15.lean. -/
import TddaVerif.Model.CheckStrings
import TddaVerif.Props.C04Spec

namespace TddaVerif.Props.C15.Lemmas
open TddaVerif.Py TddaVerif.CheckStrings TddaVerif.Props.C04

/-! ## the file plan -/

theorem pass_writes_nothing (o : Opts) (pat : PatFn) (a e : List Line) (gnl : Bool) (raw : Line)
    (h : (checkStrings o pat a e).failures = 0) :
    plan o (checkStrings o pat a e) gnl raw = { rawActual := none, diffActual := none, diffExpected := none } := by
  simp [plan, h]

theorem file_actual_not_rewritten (o : Opts) (pat : PatFn) (a e : List Line) (gnl : Bool) (raw : Line)
    (hs : o.actualPath = true) : (plan o (checkStrings o pat a e) gnl raw).rawActual = none := by
  unfold plan
  split
  · rfl
  · simp only [hs]
    split <;> simp

theorem binary_offset_exact (a e : List Nat) :
    firstDiff a e ≤ min a.length e.length ∧
    (∀ i, i < firstDiff a e → a[i]? = e[i]?) ∧
    (firstDiff a e = min a.length e.length ∨ a[firstDiff a e]? ≠ e[firstDiff a e]?) := by
  induction a generalizing e with
  | nil => simp [firstDiff]
  | cons x xs ih =>
    cases e with
    | nil => simp [firstDiff]
    | cons y ys =>
      by_cases hxy : x = y
      · subst hxy
        obtain ⟨h1, h2, h3⟩ := ih ys
        simp only [firstDiff, beq_self_eq_true, if_true, List.length_cons]
        refine ⟨by omega, ?_, ?_⟩
        · intro i hi
          cases i with
          | zero => simp
          | succ i => simpa using h2 i (by omega)
        · rcases h3 with h3 | h3
          · left; omega
          · right; simpa using h3
      · simp [firstDiff, hxy]

/-! ## diff markers -/

theorem diffMarker_self (l : Line) : diffMarker l l = l := by
  simp [diffMarker]

theorem cpl_le (a b : Line) : commonPrefixLen a b ≤ a.length ∧ commonPrefixLen a b ≤ b.length := by
  induction a generalizing b with
  | nil => simp [commonPrefixLen]
  | cons x xs ih =>
    cases b with
    | nil => simp [commonPrefixLen]
    | cons y ys =>
      simp only [commonPrefixLen]
      split
      · have := ih ys; simp; omega
      · simp

theorem cpl_take (a b : Line) : a.take (commonPrefixLen a b) = b.take (commonPrefixLen a b) := by
  induction a generalizing b with
  | nil => simp [commonPrefixLen]
  | cons x xs ih =>
    cases b with
    | nil => simp [commonPrefixLen]
    | cons y ys =>
      simp only [commonPrefixLen]
      split
      · rename_i h
        simp at h
        simp [h, ih ys]
      · simp

theorem cpl_next (a b : Line) :
    (a.drop (commonPrefixLen a b)).head? ≠ (b.drop (commonPrefixLen a b)).head? ∨
      a.drop (commonPrefixLen a b) = [] ∨ b.drop (commonPrefixLen a b) = [] := by
  induction a generalizing b with
  | nil => simp [commonPrefixLen]
  | cons x xs ih =>
    cases b with
    | nil => simp [commonPrefixLen]
    | cons y ys =>
      simp only [commonPrefixLen]
      split
      · simpa using ih ys
      · rename_i h
        simp at h
        simp [h]

theorem diffMarker_shape (l r : Line) (h : l ≠ r) :
    ∃ pre ml mr suf, l = pre ++ ml ++ suf ∧ r = pre ++ mr ++ suf ∧
      diffMarker l r = pre ++ ['('] ++ ml ++ ['|'] ++ mr ++ [')'] ++ suf ∧
      (ml.head? ≠ mr.head? ∨ ml = [] ∨ mr = []) ∧
      (ml.getLast? ≠ mr.getLast? ∨ ml = [] ∨ mr = []) := by
  generalize hpre : commonPrefixLen l r = pre
  generalize hl' : l.drop pre = l'
  generalize hr' : r.drop pre = r'
  generalize hpost : commonPrefixLen l'.reverse r'.reverse = post
  have hle := cpl_le l'.reverse r'.reverse
  rw [hpost] at hle
  simp only [List.length_reverse] at hle
  have htk := cpl_take l r
  rw [hpre] at htk
  have hsuf : l'.drop (l'.length - post) = r'.drop (r'.length - post) := by
    have := cpl_take l'.reverse r'.reverse
    rw [hpost, List.take_reverse, List.take_reverse] at this
    exact List.reverse_inj.mp this
  have hl : l = l.take pre ++ (l'.take (l'.length - post) ++ l'.drop (l'.length - post)) := by
    rw [List.take_append_drop, ← hl', List.take_append_drop]
  have hr : r = l.take pre ++ (r'.take (r'.length - post) ++ l'.drop (l'.length - post)) := by
    rw [hsuf, List.take_append_drop, ← hr', htk, List.take_append_drop]
  refine ⟨l.take pre, l'.take (l'.length - post), r'.take (r'.length - post),
    l'.drop (l'.length - post), ?_, ?_, ?_, ?_, ?_⟩
  · simpa using hl
  · simpa using hr
  · have hne : (l == r) = false := by simpa using h
    simp only [diffMarker, hne, hpre, hl', hr', hpost]
    simp only [Bool.false_eq_true, if_false]
    congr 1
    split
    · have hlen : l'.length = l.length - pre := by rw [← hl']; simp
      have : l.length - post = pre + (l'.length - post) := by
        have := (cpl_le l r).1; omega
      rw [this, ← List.drop_drop, hl']
    · have : post = 0 := by omega
      simp [this]
  · have := cpl_next l r
    rw [hpre, hl', hr'] at this
    rcases this with h1 | h1 | h1
    · by_cases hml : l'.length - post = 0
      · right; left; simp [hml]
      · by_cases hmr : r'.length - post = 0
        · right; right; simp [hmr]
        · left; simp [List.head?_take, hml, hmr, h1]
    · right; left; simp [h1]
    · right; right; simp [h1]
  · have := cpl_next l'.reverse r'.reverse
    rw [hpost, List.drop_reverse, List.drop_reverse] at this
    simpa using this

/-! ## index lists of filtered positions -/

section idx
variable {α : Type} (p : α → Bool) (d : α)

theorem map_getD_range (l : List α) : (List.range l.length).map (fun i => l.getD i d) = l := by
  apply List.ext_getElem
  · simp
  · intro i h1 h2
    simp [h2]

theorem filterIdx_map (l : List α) :
    ((List.range l.length).filter (fun i => p (l.getD i d))).map (fun i => l.getD i d) = l.filter p := by
  have := List.filter_map (f := fun i => l.getD i d) (p := p) (l := List.range l.length)
  rw [map_getD_range] at this
  rw [this]; rfl

theorem filterIdx_length_take (l : List α) (i : Nat) (hi : i ≤ l.length) :
    ((List.range i).filter (fun j => p (l.getD j d))).length = ((l.take i).filter p).length := by
  induction i with
  | zero => simp
  | succ i ih =>
    have hi' : i < l.length := by omega
    rw [List.range_succ, List.take_add_one, List.filter_append, List.filter_append,
      List.length_append, List.length_append, ih (by omega)]
    simp only [hi', List.filter_cons, List.getD_eq_getElem?_getD, List.getElem?_eq_getElem, Option.getD_some, List.filter_nil, Option.toList]
    split <;> simp

theorem split_at (l : List α) (i : Nat) (hi : i < l.length) :
    l = l.take i ++ l[i] :: l.drop (i+1) := by
  rw [← List.drop_eq_getElem_cons, List.take_append_drop]

theorem filter_getElem?_of_split (l : List α) (i : Nat) (hi : i < l.length) (hp : p l[i] = true) :
    (l.filter p)[((l.take i).filter p).length]? = some l[i] := by
  conv => lhs; rw [split_at l i hi]
  rw [List.filter_append, List.filter_cons, if_pos hp]
  simp

theorem filterIdx_getElem? (l : List α) (i : Nat) (hi : i < l.length) (hp : p l[i] = true) :
    ((List.range l.length).filter (fun j => p (l.getD j d)))[((l.take i).filter p).length]? = some i := by
  have h := filter_getElem?_of_split (fun j => p (l.getD j d)) (List.range l.length) i (by simpa using hi)
    (by simpa [hi] using hp)
  rw [List.take_range, Nat.min_eq_left (by omega), filterIdx_length_take p d l i (by omega)] at h
  simpa using h
end idx

/-! ## what `checkStrings` hands to `reconstruct` in the same-length case -/

/-- the after-removal list as computed by `checkStrings` -/
def after (o : Opts) (oa : List Line) : List Line :=
  if !o.removeLines.isEmpty then (survivorIdx o oa).map (fun i => oa.getD i []) else oa
def remIdx (o : Opts) (oa : List Line) : List Nat :=
  if !o.removeLines.isEmpty then removalIdx o oa else []
def idxMap (o : Opts) (oa : List Line) : Nat → Nat :=
  fun k => if !o.removeLines.isEmpty then (survivorIdx o oa).getD k k else k
def diffsOf (o : Opts) (actual expected : List Line) : List Nat :=
  (List.range actual.length).filter
        (fun i => normalize o (actual.getD i []) != normalize o (expected.getD i []))

theorem cs_actualAfter (o : Opts) (pat : PatFn) (a e : List Line) :
    (checkStrings o pat a e).actualAfter = after o (dropTrailingEmpty a) := rfl

theorem cs_recon (o : Opts) (pat : PatFn) (a e : List Line) (ra re : List Line)
    (hl : (after o (dropTrailingEmpty a)).length = (after o (dropTrailingEmpty e)).length)
    (hr : (checkStrings o pat a e).reconstruction = some (ra, re)) :
    (ra, re) = reconstruct ((dropTrailingEmpty a).map (normalize o)) ((dropTrailingEmpty e).map (normalize o))
      (remIdx o (dropTrailingEmpty a)) (remIdx o (dropTrailingEmpty e))
      (wrongContent o pat (after o (dropTrailingEmpty a)) (after o (dropTrailingEmpty e))
        (idxMap o (dropTrailingEmpty a)) (idxMap o (dropTrailingEmpty e))
        (diffsOf o (after o (dropTrailingEmpty a)) (after o (dropTrailingEmpty e)))).aIgn
      (wrongContent o pat (after o (dropTrailingEmpty a)) (after o (dropTrailingEmpty e))
        (idxMap o (dropTrailingEmpty a)) (idxMap o (dropTrailingEmpty e))
        (diffsOf o (after o (dropTrailingEmpty a)) (after o (dropTrailingEmpty e)))).eIgn := by
  generalize hoa : dropTrailingEmpty a = oa at *
  generalize hoe : dropTrailingEmpty e = oe at *
  have hl' : ((after o oa).length == (after o oe).length) = true := by simpa using hl
  by_cases hd : (diffsOf o (after o oa) (after o oe)).isEmpty = true
  · have hd' : diffsOf o (after o oa) (after o oe) = [] := by simpa using hd
    have : (checkStrings o pat a e).reconstruction =
        (if (o.preprocess || !([] : List Nat).isEmpty || !([] : List Nat).isEmpty || !(remIdx o oa).isEmpty || !(remIdx o oe).isEmpty
                    || (!o.actualPath && 0 > 0)) then
          some (reconstruct (oa.map (normalize o)) (oe.map (normalize o)) (remIdx o oa) (remIdx o oe) [] [])
         else none) := by
      unfold checkStrings
      simp only [hoa, hoe]
      unfold after at hl'
      unfold after diffsOf at hd
      simp only [hl', hd]
      rfl
    rw [this] at hr
    simp only [hd', wrongContent, List.foldl_nil]
    split at hr
    · exact (Option.some.inj hr).symm
    · cases hr
  · have hd' : (diffsOf o (after o oa) (after o oe)).isEmpty = false := by simpa using hd
    generalize hwc : wrongContent o pat (after o oa) (after o oe) (idxMap o oa) (idxMap o oe)
      (diffsOf o (after o oa) (after o oe)) = wc at *
    have : (checkStrings o pat a e).reconstruction =
        (if (o.preprocess || !wc.aIgn.isEmpty || !wc.eIgn.isEmpty || !(remIdx o oa).isEmpty || !(remIdx o oe).isEmpty
                    || (!o.actualPath && wc.ndiffs > 0)) then
          some (reconstruct (oa.map (normalize o)) (oe.map (normalize o)) (remIdx o oa) (remIdx o oe) wc.aIgn wc.eIgn)
         else none) := by
      unfold checkStrings
      simp only [hoa, hoe]
      unfold after at hl'
      unfold after diffsOf at hd'
      simp only [hl', hd']
      rw [← hwc]
      rfl
    rw [this] at hr
    split at hr
    · exact (Option.some.inj hr).symm
    · cases hr

/-! ## the reconstruction loop -/

abbrev nR (o : Opts) : Line → Bool := fun x => !removable o x
abbrev neP : Line × Line → Bool := fun p => p.1 != p.2
abbrev badP (o : Opts) (pat : PatFn) : Line × Line → Bool := fun p => !lineOKb o pat p.1 p.2
abbrev normP (o : Opts) : Line × Line → Line × Line := fun p => (normalize o p.1, normalize o p.2)

theorem zip_snoc_filter (ra re : List Line) (x y : Line) (h : ra.length = re.length) :
    ((ra ++ [x]).zip (re ++ [y])).filter neP = (ra.zip re).filter neP ++ (if x != y then [(x, y)] else []) := by
  rw [List.zip_append h, List.filter_append]
  simp [List.filter_cons]

theorem drop_filter_cons {α} (p : α → Bool) (l : List α) (i : Nat) (hi : i < l.length) :
    (l.drop i).filter p = if p l[i] then l[i] :: (l.drop (i+1)).filter p else (l.drop (i+1)).filter p := by
  rw [List.drop_eq_getElem_cons hi, List.filter_cons]

theorem loop_spec (o : Opts) (pat : PatFn) (oa oe : List Line) (aRem eRem aIgn eIgn : List Nat)
    (hRemA : ∀ i, aRem.contains i = (decide (i < oa.length) && removable o (oa.getD i [])))
    (hRemE : ∀ i, eRem.contains i = (decide (i < oe.length) && removable o (oe.getD i [])))
    (H : ∀ ia ie (ha : ia < oa.length) (he : ie < oe.length),
      removable o oa[ia] = false → removable o oe[ie] = false →
      ((oa.drop ia).filter (nR o)).length = ((oe.drop ie).filter (nR o)).length →
      normalize o oa[ia] ≠ normalize o oe[ie] →
      (aIgn.contains ia || eIgn.contains ie) = canIgnore o pat oa[ia] oe[ie]) :
    ∀ fuel ia ie ra re, ia ≤ oa.length → ie ≤ oe.length →
      (oa.length - ia) + (oe.length - ie) < fuel →
      ((oa.drop ia).filter (nR o)).length = ((oe.drop ie).filter (nR o)).length →
      ra.length = re.length →
      (reconstructLoop (oa.map (normalize o)) (oe.map (normalize o)) aRem eRem aIgn eIgn fuel ia ie ra re).1.length
        = (reconstructLoop (oa.map (normalize o)) (oe.map (normalize o)) aRem eRem aIgn eIgn fuel ia ie ra re).2.length ∧
      ((reconstructLoop (oa.map (normalize o)) (oe.map (normalize o)) aRem eRem aIgn eIgn fuel ia ie ra re).1.zip
        (reconstructLoop (oa.map (normalize o)) (oe.map (normalize o)) aRem eRem aIgn eIgn fuel ia ie ra re).2).filter neP
        = (ra.zip re).filter neP ++
          ((((oa.drop ia).filter (nR o)).zip ((oe.drop ie).filter (nR o))).filter (badP o pat)).map (normP o) := by
  intro fuel
  induction fuel with
  | zero => intro ia ie ra re _ _ hf; omega
  | succ fuel ih =>
    intro ia ie ra re hia hie hf hcnt hlen
    rw [reconstructLoop]
    simp only [List.length_map]
    by_cases hcond : (decide (ia < oa.length) || decide (ie < oe.length)) = true
    · rw [if_pos hcond]
      simp only [hRemA, hRemE]
      by_cases hE : (decide (ie < oe.length) && removable o (oe.getD ie [])) = true
      · -- the expected line is a removed one
        have he : ie < oe.length := by simp at hE; exact hE.1
        have hge : oe.getD ie [] = oe[ie] := by simp [he]
        have hRe : removable o oe[ie] = true := by rw [hge] at hE; simp at hE; exact hE.2
        have hde := drop_filter_cons (nR o) oe ie he
        simp only [nR, hRe, Bool.not_true, Bool.false_eq_true, if_false] at hde
        by_cases hA : (decide (ia < oa.length) && removable o (oa.getD ia [])) = true
        · have ha : ia < oa.length := by simp at hA; exact hA.1
          have hga : oa.getD ia [] = oa[ia] := by simp [ha]
          have hRa : removable o oa[ia] = true := by rw [hga] at hA; simp at hA; exact hA.2
          have hda := drop_filter_cons (nR o) oa ia ha
          simp only [nR, hRa, Bool.not_true, Bool.false_eq_true, if_false] at hda
          simp only [hA, hE, Bool.and_self, if_true]
          generalize formatMarker (diffMarker ((oa.map (normalize o)).getD ia []) ((oe.map (normalize o)).getD ie [])) = m
          have IH := ih (ia+1) (ie+1) (ra ++ [m]) (re ++ [m])
            (by omega) (by omega) (by omega) (by rw [← hda, ← hde]; exact hcnt) (by simp [hlen])
          rw [zip_snoc_filter _ _ _ _ hlen] at IH
          simp only [bne_self_eq_false, Bool.false_eq_true, if_false, List.append_nil] at IH
          rw [hda, hde]
          exact IH
        · have hA' : (decide (ia < oa.length) && removable o (oa.getD ia [])) = false := by simpa using hA
          simp only [hA', hE, Bool.false_and, Bool.false_eq_true, if_false, if_true]
          generalize formatMarker (diffMarker [] ((oe.map (normalize o)).getD ie [])) = m
          have IH := ih ia (ie+1) (ra ++ [m]) (re ++ [m])
            (by omega) (by omega) (by omega) (by rw [← hde]; exact hcnt) (by simp [hlen])
          rw [zip_snoc_filter _ _ _ _ hlen] at IH
          simp only [bne_self_eq_false, Bool.false_eq_true, if_false, List.append_nil] at IH
          rw [hde]
          exact IH
      · have hE' : (decide (ie < oe.length) && removable o (oe.getD ie [])) = false := by simpa using hE
        by_cases hA : (decide (ia < oa.length) && removable o (oa.getD ia [])) = true
        · have ha : ia < oa.length := by simp at hA; exact hA.1
          have hga : oa.getD ia [] = oa[ia] := by simp [ha]
          have hRa : removable o oa[ia] = true := by rw [hga] at hA; simp at hA; exact hA.2
          have hda := drop_filter_cons (nR o) oa ia ha
          simp only [nR, hRa, Bool.not_true, Bool.false_eq_true, if_false] at hda
          simp only [hA, hE', Bool.and_false, Bool.false_eq_true, if_false, if_true]
          generalize formatMarker (diffMarker ((oa.map (normalize o)).getD ia []) []) = m
          have IH := ih (ia+1) ie (ra ++ [m]) (re ++ [m])
            (by omega) (by omega) (by omega) (by rw [← hda]; exact hcnt) (by simp [hlen])
          rw [zip_snoc_filter _ _ _ _ hlen] at IH
          simp only [bne_self_eq_false, Bool.false_eq_true, if_false, List.append_nil] at IH
          rw [hda]
          exact IH
        · have hA' : (decide (ia < oa.length) && removable o (oa.getD ia [])) = false := by simpa using hA
          simp only [hA', hE', Bool.and_false, Bool.false_eq_true, if_false]
          by_cases ha : ia < oa.length
          · have hga : oa.getD ia [] = oa[ia] := by simp [ha]
            have hgna : (oa.map (normalize o)).getD ia [] = normalize o oa[ia] := by simp [ha]
            have hRa : removable o oa[ia] = false := by rw [hga] at hA'; simpa [ha] using hA'
            have hda := drop_filter_cons (nR o) oa ia ha
            simp only [nR, hRa, Bool.not_false, if_true] at hda
            by_cases he : ie < oe.length
            · have hge : oe.getD ie [] = oe[ie] := by simp [he]
              have hgne : (oe.map (normalize o)).getD ie [] = normalize o oe[ie] := by simp [he]
              have hRe : removable o oe[ie] = false := by rw [hge] at hE'; simpa [he] using hE'
              have hde := drop_filter_cons (nR o) oe ie he
              simp only [nR, hRe, Bool.not_false, if_true] at hde
              have hcnt' : ((oa.drop (ia+1)).filter (nR o)).length = ((oe.drop (ie+1)).filter (nR o)).length := by
                have := hcnt; rw [hda, hde] at this; simpa using this
              simp only [ge_iff_le, Nat.not_le.mpr ha, Nat.not_le.mpr he, if_false, hgna, hgne]
              rw [hda, hde]
              by_cases hn : normalize o oa[ia] = normalize o oe[ie]
              · have hbeq : (normalize o oa[ia] == normalize o oe[ie]) = true := by simpa using hn
                simp only [hbeq, if_true]
                have IH := ih (ia+1) (ie+1) (ra ++ [normalize o oa[ia]]) (re ++ [normalize o oe[ie]])
                  (by omega) (by omega) (by omega) hcnt' (by simp [hlen])
                rw [zip_snoc_filter _ _ _ _ hlen] at IH
                have hbne : (normalize o oa[ia] != normalize o oe[ie]) = false := by simp [hn]
                simp only [hbne, Bool.false_eq_true, if_false, List.append_nil] at IH
                refine ⟨IH.1, ?_⟩
                rw [IH.2]
                simp [lineOKb, hn]
              · have hbeq : (normalize o oa[ia] == normalize o oe[ie]) = false := by simpa using hn
                have hbne : (normalize o oa[ia] != normalize o oe[ie]) = true := by simp [hn]
                simp only [hbeq, Bool.false_eq_true, if_false]
                rw [H ia ie ha he hRa hRe hcnt hn]
                by_cases hci : canIgnore o pat oa[ia] oe[ie] = true
                · simp only [hci, if_true]
                  generalize formatMarker (diffMarker (normalize o oa[ia]) (normalize o oe[ie])) = m
                  have IH := ih (ia+1) (ie+1) (ra ++ [m]) (re ++ [m])
                    (by omega) (by omega) (by omega) hcnt' (by simp [hlen])
                  rw [zip_snoc_filter _ _ _ _ hlen] at IH
                  simp only [bne_self_eq_false, Bool.false_eq_true, if_false, List.append_nil] at IH
                  refine ⟨IH.1, ?_⟩
                  rw [IH.2]
                  simp [lineOKb, hci]
                · have hci' : canIgnore o pat oa[ia] oe[ie] = false := by simpa using hci
                  simp only [hci', Bool.false_eq_true, if_false]
                  have IH := ih (ia+1) (ie+1) (ra ++ [normalize o oa[ia]]) (re ++ [normalize o oe[ie]])
                    (by omega) (by omega) (by omega) hcnt' (by simp [hlen])
                  rw [zip_snoc_filter _ _ _ _ hlen] at IH
                  simp only [hbne, if_true] at IH
                  refine ⟨IH.1, ?_⟩
                  rw [IH.2]
                  simp [lineOKb, hci', hbeq]
            · exfalso
              have : oe.drop ie = [] := List.drop_eq_nil_of_le (by omega)
              rw [hda, this] at hcnt
              simp at hcnt
          · have he : ie < oe.length := by simp at hcond; omega
            have hge : oe.getD ie [] = oe[ie] := by simp [he]
            have hRe : removable o oe[ie] = false := by rw [hge] at hE'; simpa [he] using hE'
            have hde := drop_filter_cons (nR o) oe ie he
            simp only [nR, hRe, Bool.not_false, if_true] at hde
            exfalso
            have : oa.drop ia = [] := List.drop_eq_nil_of_le (by omega)
            rw [hde, this] at hcnt
            simp at hcnt
    · rw [if_neg hcond]
      have h1 : ia = oa.length := by simp at hcond; omega
      have h2 : ie = oe.length := by simp at hcond; omega
      subst h1 h2
      simp [hlen]

theorem wrongContent_ign (o : Opts) (pat : PatFn) (ac ex : List Line) (am em : Nat → Nat) (diffs : List Nat) :
    (wrongContent o pat ac ex am em diffs).aIgn
      = (diffs.filter (fun i => canIgnore o pat (ac.getD i []) (ex.getD i []))).map am ∧
    (wrongContent o pat ac ex am em diffs).eIgn
      = (diffs.filter (fun i => canIgnore o pat (ac.getD i []) (ex.getD i []))).map em := by
  unfold wrongContent
  generalize hst : ({ ndiffs := diffs.length, firstLine := none, cases := [], aIgn := [], eIgn := [] } : WC) = st
  have h0 : st.aIgn = [] ∧ st.eIgn = [] := by subst hst; simp
  suffices h : ∀ (ds : List Nat) (st : WC),
      (ds.foldl (fun st i =>
        let a := ac.getD i []
        let e := ex.getD i []
        if canIgnore o pat a e then
          { st with ndiffs := st.ndiffs - 1, aIgn := st.aIgn ++ [am i], eIgn := st.eIgn ++ [em i] }
        else
          { st with firstLine := (match st.firstLine with | none => some (i + 1) | some l => some l),
                    cases := if st.cases.length < o.maxPerm then st.cases ++ [(i, a, e)] else st.cases }) st).aIgn
        = st.aIgn ++ (ds.filter (fun i => canIgnore o pat (ac.getD i []) (ex.getD i []))).map am ∧
      (ds.foldl (fun st i =>
        let a := ac.getD i []
        let e := ex.getD i []
        if canIgnore o pat a e then
          { st with ndiffs := st.ndiffs - 1, aIgn := st.aIgn ++ [am i], eIgn := st.eIgn ++ [em i] }
        else
          { st with firstLine := (match st.firstLine with | none => some (i + 1) | some l => some l),
                    cases := if st.cases.length < o.maxPerm then st.cases ++ [(i, a, e)] else st.cases }) st).eIgn
        = st.eIgn ++ (ds.filter (fun i => canIgnore o pat (ac.getD i []) (ex.getD i []))).map em by
    have := h diffs st
    rw [h0.1, h0.2, List.nil_append, List.nil_append] at this
    exact this
  intro ds
  induction ds with
  | nil => intro st; simp
  | cons d ds ih =>
    intro st
    rw [List.foldl_cons]
    by_cases hc : canIgnore o pat (ac.getD d []) (ex.getD d []) = true
    · simp only [hc, if_true, List.filter_cons]
      have := ih { st with ndiffs := st.ndiffs - 1, aIgn := st.aIgn ++ [am d], eIgn := st.eIgn ++ [em d] }
      simp only [List.append_assoc] at this
      simpa using this
    · have hc' : canIgnore o pat (ac.getD d []) (ex.getD d []) = false := by simpa using hc
      simp only [hc', Bool.false_eq_true, if_false, List.filter_cons]
      exact ih _

/-! ## uniform description of the removal bookkeeping -/

theorem removable_of_nil (o : Opts) (h : o.removeLines.isEmpty = true) (x : Line) :
    removable o x = false := by
  have : o.removeLines = [] := by simpa using h
  simp [removable, this]

theorem after_eq (o : Opts) (oa : List Line) : after o oa = oa.filter (nR o) := by
  unfold after
  split
  · exact filterIdx_map (nR o) [] oa
  · rename_i h
    have h' : o.removeLines.isEmpty = true := by simpa using h
    symm
    rw [List.filter_eq_self]
    intro x _
    simp [nR, removable_of_nil o h']

theorem remIdx_contains (o : Opts) (oa : List Line) (i : Nat) :
    (remIdx o oa).contains i = (decide (i < oa.length) && removable o (oa.getD i [])) := by
  unfold remIdx
  split
  · rw [Bool.eq_iff_iff]
    simp [removalIdx]
  · rename_i h
    have h' : o.removeLines.isEmpty = true := by simpa using h
    simp [removable_of_nil o h']

theorem idxMap_eq (o : Opts) (oa : List Line) (k : Nat) :
    idxMap o oa k = (survivorIdx o oa).getD k k := by
  unfold idxMap
  split
  · rfl
  · rename_i h
    have h' : o.removeLines.isEmpty = true := by simpa using h
    have : survivorIdx o oa = List.range oa.length := by
      unfold survivorIdx
      rw [List.filter_eq_self]
      intro x _
      simp [removable_of_nil o h']
    rw [this]
    by_cases hk : k < oa.length
    · simp [hk]
    · simp [hk]

theorem survivorIdx_nodup (o : Opts) (oa : List Line) : (survivorIdx o oa).Nodup :=
  List.Pairwise.filter _ List.nodup_range

theorem nodup_getElem_inj {S : List Nat} (hS : S.Nodup) {i j : Nat} (hi : i < S.length) (hj : j < S.length)
    (h : S[i] = S[j]) : i = j := by
  have hp := List.pairwise_iff_getElem.mp hS
  rcases Nat.lt_trichotomy i j with hlt | heq | hgt
  · exact absurd h (hp i j hi hj hlt)
  · exact heq
  · exact absurd h.symm (hp j i hj hi hgt)

theorem survivorIdx_length (o : Opts) (oa : List Line) :
    (survivorIdx o oa).length = (oa.filter (nR o)).length := by
  rw [← filterIdx_map (nR o) [] oa, List.length_map]
  rfl

/-- membership in a list of mapped positions, for an injective position table -/
theorem mapped_contains (S : List Nat) (hS : S.Nodup) (k ia : Nat) (hk : S[k]? = some ia) (f : Nat → Bool) :
    (((List.range S.length).filter f).map (fun j => S.getD j j)).contains ia = f k := by
  have hk' : k < S.length := by
    rcases Nat.lt_or_ge k S.length with h | h
    · exact h
    · rw [List.getElem?_eq_none h] at hk; cases hk
  have hke : S[k] = ia := by
    rw [List.getElem?_eq_getElem hk'] at hk; exact Option.some.inj hk
  rw [Bool.eq_iff_iff]
  simp only [List.contains_iff_mem, List.mem_map, List.mem_filter, List.mem_range]
  constructor
  · rintro ⟨j, ⟨hj, hf⟩, he⟩
    have : S.getD j j = S[j] := by simp [hj]
    rw [this, ← hke] at he
    have := nodup_getElem_inj hS hj hk' he
    subst this
    exact hf
  · intro hf
    exact ⟨k, ⟨hk', hf⟩, by simp [hk', hke]⟩

theorem filter_length_take_drop {α} (p : α → Bool) (l : List α) (i : Nat) :
    (l.filter p).length = ((l.take i).filter p).length + ((l.drop i).filter p).length := by
  conv => lhs; rw [← List.take_append_drop i l]
  rw [List.filter_append, List.length_append]

/-- in the same-length case, a surviving pair of lines is marked as ignorable exactly when
    `canIgnore` holds for it -/
theorem ign_char (o : Opts) (pat : PatFn) (oa oe : List Line)
    (hl : (oa.filter (nR o)).length = (oe.filter (nR o)).length)
    (ia ie : Nat) (ha : ia < oa.length) (he : ie < oe.length)
    (hRa : removable o oa[ia] = false) (hRe : removable o oe[ie] = false)
    (hcnt : ((oa.drop ia).filter (nR o)).length = ((oe.drop ie).filter (nR o)).length)
    (hn : normalize o oa[ia] ≠ normalize o oe[ie]) :
    ((((List.range (oa.filter (nR o)).length).filter
        (fun i => normalize o ((oa.filter (nR o)).getD i []) != normalize o ((oe.filter (nR o)).getD i []))).filter
        (fun i => canIgnore o pat ((oa.filter (nR o)).getD i []) ((oe.filter (nR o)).getD i []))).map
        (fun j => (survivorIdx o oa).getD j j)).contains ia = canIgnore o pat oa[ia] oe[ie] ∧
    ((((List.range (oa.filter (nR o)).length).filter
        (fun i => normalize o ((oa.filter (nR o)).getD i []) != normalize o ((oe.filter (nR o)).getD i []))).filter
        (fun i => canIgnore o pat ((oa.filter (nR o)).getD i []) ((oe.filter (nR o)).getD i []))).map
        (fun j => (survivorIdx o oe).getD j j)).contains ie = canIgnore o pat oa[ia] oe[ie] := by
  have hpa : nR o oa[ia] = true := by simp [nR, hRa]
  have hpe : nR o oe[ie] = true := by simp [nR, hRe]
  have hk : ((oa.take ia).filter (nR o)).length = ((oe.take ie).filter (nR o)).length := by
    have h1 := filter_length_take_drop (nR o) oa ia
    have h2 := filter_length_take_drop (nR o) oe ie
    omega
  have hSa := filterIdx_getElem? (nR o) [] oa ia ha hpa
  have hSe := filterIdx_getElem? (nR o) [] oe ie he hpe
  have hAa := filter_getElem?_of_split (nR o) oa ia ha hpa
  have hAe := filter_getElem?_of_split (nR o) oe ie he hpe
  rw [← hk] at hSe hAe
  generalize ((oa.take ia).filter (nR o)).length = k at *
  have hga : (oa.filter (nR o)).getD k [] = oa[ia] := by simp [List.getD_eq_getElem?_getD, hAa]
  have hge : (oe.filter (nR o)).getD k [] = oe[ie] := by simp [List.getD_eq_getElem?_getD, hAe]
  rw [List.filter_filter]
  constructor
  · rw [← survivorIdx_length o oa]
    have := mapped_contains (survivorIdx o oa) (survivorIdx_nodup o oa) k ia hSa
      (fun i => canIgnore o pat ((oa.filter (nR o)).getD i []) ((oe.filter (nR o)).getD i []) &&
        (normalize o ((oa.filter (nR o)).getD i []) != normalize o ((oe.filter (nR o)).getD i [])))
    rw [this]
    simp only [hga, hge]
    simp [hn]
  · rw [hl, ← survivorIdx_length o oe]
    have := mapped_contains (survivorIdx o oe) (survivorIdx_nodup o oe) k ie hSe
      (fun i => canIgnore o pat ((oa.filter (nR o)).getD i []) ((oe.filter (nR o)).getD i []) &&
        (normalize o ((oa.filter (nR o)).getD i []) != normalize o ((oe.filter (nR o)).getD i [])))
    rw [this]
    simp only [hga, hge]
    simp [hn]

/-! ## the artefact theorems that need the above -/

theorem raw_actual_content (o : Opts) (pat : PatFn) (a e : List Line) (gnl : Bool) (raw : Line)
    (hf : (checkStrings o pat a e).failures = 1) (hc : o.createTemporaries = true)
    (hs : o.actualPath = false) :
    (plan o (checkStrings o pat a e) gnl raw).rawActual = some raw := by
  unfold plan
  simp only [hf, hc, hs]
  split
  · rename_i h
    exact absurd h (by decide)
  · split <;> rfl

theorem postprocessed_differ_exactly (o : Opts) (pat : PatFn) (a e : List Line)
    (ra re : List Line)
    (hl : (kept o a).length = (kept o e).length)
    (hr : (checkStrings o pat a e).reconstruction = some (ra, re)) :
    ra.length = re.length ∧
    (ra.zip re).filter (fun p => p.1 != p.2)
      = (badPairs o pat a e).map (fun p => (normalize o p.1, normalize o p.2)) := by
  have hl' : ((dropTrailingEmpty a).filter (nR o)).length = ((dropTrailingEmpty e).filter (nR o)).length := hl
  have hrec := cs_recon o pat a e ra re (by rw [after_eq, after_eq]; exact hl') hr
  unfold badPairs kept
  generalize dropTrailingEmpty a = oa at *
  generalize dropTrailingEmpty e = oe at *
  rw [(wrongContent_ign _ _ _ _ _ _ _).1, (wrongContent_ign _ _ _ _ _ _ _).2] at hrec
  have hma : idxMap o oa = fun j => (survivorIdx o oa).getD j j := funext (idxMap_eq o oa)
  have hme : idxMap o oe = fun j => (survivorIdx o oe).getD j j := funext (idxMap_eq o oe)
  rw [hma, hme, after_eq, after_eq] at hrec
  unfold diffsOf reconstruct at hrec
  have := loop_spec o pat oa oe _ _ _ _ (remIdx_contains o oa) (remIdx_contains o oe)
    (fun ia ie ha he hRa hRe hcnt hn => by
      have h := ign_char o pat oa oe hl' ia ie ha he hRa hRe hcnt hn
      rw [h.1, h.2, Bool.or_self])
    ((oa.map (normalize o)).length + (oe.map (normalize o)).length + 1) 0 0 [] []
    (by omega) (by omega) (by simp) (by simpa using hl') rfl
  rw [← hrec] at this
  simpa using this

end TddaVerif.Props.C15.Lemmas
