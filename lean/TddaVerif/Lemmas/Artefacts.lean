/- Helper lemmas for C15 (artefacts of failed text assertions). Statements mirror Props/C15.lean. -/
import TddaVerif.Model.CheckStrings
import TddaVerif.Props.C04Spec

namespace TddaVerif.Props.C15.Lemmas
open TddaVerif.Py TddaVerif.CheckStrings TddaVerif.Props.C04

theorem pass_writes_nothing (o : Opts) (pat : PatFn) (a e : List Line) (gnl : Bool)
    (h : (checkStrings o pat a e).failures = 0) :
    plan o (checkStrings o pat a e) gnl = { rawActual := none, diffActual := none, diffExpected := none } := by
  sorry

theorem raw_actual_content (o : Opts) (pat : PatFn) (a e : List Line) (gnl : Bool)
    (hf : (checkStrings o pat a e).failures = 1) (hc : o.createTemporaries = true)
    (hs : o.actualPath = false) :
    (plan o (checkStrings o pat a e) gnl).rawActual = some (joinNl (kept o a)) := by
  sorry

theorem file_actual_not_rewritten (o : Opts) (pat : PatFn) (a e : List Line) (gnl : Bool)
    (hs : o.actualPath = true) : (plan o (checkStrings o pat a e) gnl).rawActual = none := by
  sorry

theorem binary_offset_exact (a e : List Nat) :
    firstDiff a e ≤ min a.length e.length ∧
    (∀ i, i < firstDiff a e → a[i]? = e[i]?) ∧
    (firstDiff a e = min a.length e.length ∨ a[firstDiff a e]? ≠ e[firstDiff a e]?) := by
  sorry

theorem diffMarker_shape (l r : Line) (h : l ≠ r) :
    ∃ pre ml mr suf, l = pre ++ ml ++ suf ∧ r = pre ++ mr ++ suf ∧
      diffMarker l r = pre ++ ['('] ++ ml ++ ['|'] ++ mr ++ [')'] ++ suf ∧
      (ml.head? ≠ mr.head? ∨ ml = [] ∨ mr = []) ∧
      (ml.getLast? ≠ mr.getLast? ∨ ml = [] ∨ mr = []) := by
  sorry

theorem diffMarker_self (l : Line) : diffMarker l l = l := by
  sorry

theorem postprocessed_differ_exactly (o : Opts) (pat : PatFn) (a e : List Line)
    (ra re : List Line)
    (hl : (kept o a).length = (kept o e).length)
    (hr : (checkStrings o pat a e).reconstruction = some (ra, re)) :
    ra.length = re.length ∧
    (ra.zip re).filter (fun p => p.1 != p.2)
      = (badPairs o pat a e).map (fun p => (normalize o p.1, normalize o p.2)) := by
  sorry

end TddaVerif.Props.C15.Lemmas
