/- Auxiliary facts for C07 (Lemmas/Discover.lean): order on same-constructor values, aggregates. -/
import TddaVerif.Model.Constraints

namespace TddaVerif.Constraints.DiscAux
open TddaVerif.Constraints

/-! ### ltChars -/

theorem ltChars_irrefl : ∀ a, ltChars a a = false
  | [] => rfl
  | a :: as => by simp [ltChars, ltChars_irrefl as]

theorem ltChars_trans : ∀ a b c, ltChars a b = true → ltChars b c = true → ltChars a c = true
  | [], [], _ => by simp [ltChars]
  | [], _ :: _, [] => by simp [ltChars]
  | [], _ :: _, _ :: _ => by simp [ltChars]
  | _ :: _, [], _ => by simp [ltChars]
  | _ :: _, _ :: _, [] => by simp [ltChars]
  | a :: as, b :: bs, c :: cs => by
    have ih := ltChars_trans as bs cs
    simp only [ltChars]
    intro h1 h2
    split at h1
    · split at h2
      · rw [if_pos (by omega)]
      · split at h2
        · cases h2
        · rw [if_pos (by omega)]
    · split at h1
      · cases h1
      · split at h2
        · rw [if_pos (by omega)]
        · split at h2
          · cases h2
          · rw [if_neg (by omega), if_neg (by omega)]; exact ih h1 h2

theorem ltChars_total : ∀ a b, ltChars a b = true ∨ a = b ∨ ltChars b a = true
  | [], [] => by simp
  | [], _ :: _ => by simp [ltChars]
  | _ :: _, [] => by simp [ltChars]
  | a :: as, b :: bs => by
    simp only [ltChars]
    by_cases h1 : a.toNat < b.toNat
    · simp [h1]
    · by_cases h2 : b.toNat < a.toNat
      · simp [h2]
      · have : a = b := Char.toNat_inj.mp (by omega)
        subst this
        simp only [h1, if_false]
        rcases ltChars_total as bs with h | h | h
        · exact Or.inl h
        · exact Or.inr (Or.inl (by rw [h]))
        · exact Or.inr (Or.inr h)

/-! ### Val.lt / Val.eqv on one constructor -/

theorem bnum_lt (x y : Bool) :
    (decide ((if x then (1 : Rat) else 0) < (if y then (1 : Rat) else 0))) = (!x && y) := by
  cases x <;> cases y <;> simp <;> grind

theorem bnum_eq (x y : Bool) :
    ((if x then (1 : Rat) else 0) == (if y then (1 : Rat) else 0)) = (x == y) := by
  cases x <;> cases y <;> simp <;> grind

@[simp] theorem lt_b (x y : Bool) : (Val.b x).lt (Val.b y) = (!x && y) := by
  simp [Val.lt, Val.num, bnum_lt]
@[simp] theorem lt_i (x y : Int) : (Val.i x).lt (Val.i y) = decide (x < y) := by
  simp [Val.lt, Val.num, Rat.intCast_lt_intCast]
@[simp] theorem lt_r (x y : Rat) : (Val.r x).lt (Val.r y) = decide (x < y) := by
  simp [Val.lt, Val.num]
@[simp] theorem lt_s (x y : List Char) : (Val.s x).lt (Val.s y) = ltChars x y := by
  simp [Val.lt, Val.num]
@[simp] theorem lt_d (x y : Int) : (Val.d x).lt (Val.d y) = decide (x < y) := by
  simp [Val.lt, Val.num]

@[simp] theorem eqv_b (x y : Bool) : (Val.b x).eqv (Val.b y) = (x == y) := by
  simp [Val.eqv, Val.num, bnum_eq]
@[simp] theorem eqv_i (x y : Int) : (Val.i x).eqv (Val.i y) = (x == y) := by
  simp only [Val.eqv, Val.num]
  rw [Bool.eq_iff_iff]; simp [Rat.intCast_inj]
@[simp] theorem eqv_r (x y : Rat) : (Val.r x).eqv (Val.r y) = (x == y) := by
  simp [Val.eqv, Val.num]
@[simp] theorem eqv_s (x y : List Char) : (Val.s x).eqv (Val.s y) = (x == y) := by
  simp [Val.eqv, Val.num]
@[simp] theorem eqv_d (x y : Int) : (Val.d x).eqv (Val.d y) = (x == y) := by
  simp [Val.eqv, Val.num]

theorem eqv_iff_eq {a b : Val} (h : a.ftype = b.ftype) : a.eqv b = true ↔ a = b := by
  cases a <;> cases b <;> simp [Val.ftype] at h <;> simp

theorem eqv_false_iff_ne {a b : Val} (h : a.ftype = b.ftype) : a.eqv b = false ↔ a ≠ b := by
  have := eqv_iff_eq h
  cases hh : a.eqv b <;> simp_all

theorem eqv_symm (a b : Val) : a.eqv b = b.eqv a := by
  unfold Val.eqv
  cases a <;> cases b <;> simp [Val.num, Bool.beq_comm]

theorem lt_trans' {a b c : Val} (hab : a.ftype = b.ftype) (hbc : b.ftype = c.ftype)
    (h1 : a.lt b = true) (h2 : b.lt c = true) : a.lt c = true := by
  cases a <;> cases b <;> simp [Val.ftype] at hab <;> cases c <;> simp [Val.ftype] at hbc
  · simp at *; grind
  · simp at *; omega
  · simp at *; grind
  · simp at *; exact ltChars_trans _ _ _ h1 h2
  · simp at *; omega

theorem lt_total {a b : Val} (h : a.ftype = b.ftype) : a.lt b = true ∨ a = b ∨ b.lt a = true := by
  cases a <;> cases b <;> simp [Val.ftype] at h
  · rename_i x y; cases x <;> cases y <;> simp
  · simp; omega
  · simp; grind
  · simpa using ltChars_total _ _
  · simp; omega

theorem lt_irrefl (a : Val) : a.lt a = false := by
  cases a <;> simp [ltChars_irrefl, Rat.lt_irrefl]

theorem le_refl (a : Val) : a.le a = true := by
  simp [Val.le, (eqv_iff_eq (rfl : a.ftype = a.ftype)).mpr rfl]

theorem le_of_lt {a b : Val} (h : a.lt b = true) : a.le b = true := by simp [Val.le, h]

theorem le_iff {a b : Val} (h : a.ftype = b.ftype) : a.le b = true ↔ (a.lt b = true ∨ a = b) := by
  simp [Val.le, eqv_iff_eq h]

theorem le_of_not_lt {a b : Val} (h : a.ftype = b.ftype) (hn : b.lt a = false) : a.le b = true := by
  rw [le_iff h]
  rcases lt_total h with h1 | h1 | h1
  · exact Or.inl h1
  · exact Or.inr h1
  · rw [h1] at hn; cases hn

theorem lt_le_trans {a b c : Val} (hab : a.ftype = b.ftype) (hbc : b.ftype = c.ftype)
    (h1 : a.lt b = true) (h2 : b.le c = true) : a.le c = true := by
  rw [le_iff hbc] at h2
  rcases h2 with h2 | h2
  · exact le_of_lt (lt_trans' hab hbc h1 h2)
  · subst h2; exact le_of_lt h1

theorem le_lt_trans {a b c : Val} (hab : a.ftype = b.ftype) (hbc : b.ftype = c.ftype)
    (h1 : a.le b = true) (h2 : b.lt c = true) : a.le c = true := by
  rw [le_iff hab] at h1
  rcases h1 with h1 | h1
  · exact le_of_lt (lt_trans' hab hbc h1 h2)
  · subst h1; exact le_of_lt h2

/-! ### minOf / maxOf -/

/-- all values of the list have field type `t` -/
def AllT (t : FType) (l : List Val) : Prop := ∀ v ∈ l, v.ftype = t

theorem AllT.tail {t v l} (h : AllT t (v :: l)) : AllT t l := fun x hx => h x (List.mem_cons_of_mem _ hx)
theorem AllT.head {t v l} (h : AllT t (v :: l)) : v.ftype = t := h v List.mem_cons_self

theorem minOf_eq_none : ∀ l, minOf l = none ↔ l = []
  | [] => by simp [minOf]
  | v :: vs => by
    simp only [minOf]
    split
    · simp
    · split <;> simp

theorem maxOf_eq_none : ∀ l, maxOf l = none ↔ l = []
  | [] => by simp [maxOf]
  | v :: vs => by
    simp only [maxOf]
    split
    · simp
    · split <;> simp

theorem minOf_spec {t : FType} : ∀ (l : List Val) (m : Val), AllT t l → minOf l = some m →
    m ∈ l ∧ ∀ x ∈ l, m.le x = true
  | [], m, _, h => by simp [minOf] at h
  | v :: vs, m, ht, h => by
    simp only [minOf] at h
    split at h
    · rename_i hnone
      have : vs = [] := (minOf_eq_none vs).mp hnone
      subst this
      cases h
      simp [le_refl]
    · rename_i m' hm'
      have ih := minOf_spec vs m' ht.tail hm'
      have hvm' : v.ftype = m'.ftype := by rw [ht.head, ht.tail m' ih.1]
      split at h
      · rename_i hlt
        cases h
        refine ⟨List.mem_cons_self, ?_⟩
        intro x hx
        rcases List.mem_cons.mp hx with rfl | hx
        · exact le_refl _
        · exact lt_le_trans hvm' (by rw [ht.tail m' ih.1, ht.tail x hx]) hlt (ih.2 x hx)
      · rename_i hlt
        cases h
        refine ⟨List.mem_cons_of_mem _ ih.1, ?_⟩
        intro x hx
        rcases List.mem_cons.mp hx with rfl | hx
        · exact le_of_not_lt hvm'.symm (by simpa using hlt)
        · exact ih.2 x hx

theorem maxOf_spec {t : FType} : ∀ (l : List Val) (m : Val), AllT t l → maxOf l = some m →
    m ∈ l ∧ ∀ x ∈ l, x.le m = true
  | [], m, _, h => by simp [maxOf] at h
  | v :: vs, m, ht, h => by
    simp only [maxOf] at h
    split at h
    · rename_i hnone
      have : vs = [] := (maxOf_eq_none vs).mp hnone
      subst this
      cases h
      simp [le_refl]
    · rename_i m' hm'
      have ih := maxOf_spec vs m' ht.tail hm'
      have hvm' : v.ftype = m'.ftype := by rw [ht.head, ht.tail m' ih.1]
      split at h
      · rename_i hlt
        cases h
        refine ⟨List.mem_cons_self, ?_⟩
        intro x hx
        rcases List.mem_cons.mp hx with rfl | hx
        · exact le_refl _
        · exact le_lt_trans (by rw [ht.tail m' ih.1, ht.tail x hx]) hvm'.symm (ih.2 x hx) hlt
      · rename_i hlt
        cases h
        refine ⟨List.mem_cons_of_mem _ ih.1, ?_⟩
        intro x hx
        rcases List.mem_cons.mp hx with rfl | hx
        · exact le_of_not_lt hvm' (by simpa using hlt)
        · exact ih.2 x hx

/-! ### dedup -/

theorem dedup_sub : ∀ (l : List Val) (v : Val), v ∈ dedup l → v ∈ l
  | [], v, h => by simp [dedup] at h
  | w :: ws, v, h => by
    simp only [dedup] at h
    split at h
    · exact List.mem_cons_of_mem _ (dedup_sub ws v h)
    · rcases List.mem_cons.mp h with rfl | h
      · exact List.mem_cons_self
      · exact List.mem_cons_of_mem _ (dedup_sub ws v h)

theorem mem_dedup {t : FType} : ∀ (l : List Val), AllT t l → ∀ v, v ∈ dedup l ↔ v ∈ l
  | [], _, v => by simp [dedup]
  | w :: ws, ht, v => by
    have ih := mem_dedup ws ht.tail
    simp only [dedup]
    split
    · rename_i hany
      rw [ih, List.mem_cons]
      constructor
      · exact Or.inr
      · rintro (rfl | h)
        · obtain ⟨u, hu, huv⟩ := List.any_eq_true.mp hany
          have hu' : u ∈ ws := (ih u).mp hu
          have : u = v := (eqv_iff_eq (by rw [ht.tail u hu', ht.head])).mp huv
          subst this; exact hu'
        · exact h
    · simp [List.mem_cons, ih]

theorem dedup_length_le : ∀ (l : List Val), (dedup l).length ≤ l.length
  | [] => by simp [dedup]
  | w :: ws => by
    have := dedup_length_le ws
    simp only [dedup]
    split <;> simp <;> omega

theorem dedup_eq_self : ∀ (l : List Val), l.Pairwise (fun a b => a.eqv b = false) → dedup l = l
  | [], _ => rfl
  | w :: ws, h => by
    rw [List.pairwise_cons] at h
    simp only [dedup, dedup_eq_self ws h.2]
    rw [if_neg]
    intro hany
    obtain ⟨u, hu, huv⟩ := List.any_eq_true.mp hany
    have := h.1 u hu
    rw [eqv_symm] at this
    rw [this] at huv; cases huv

theorem dedup_pairwise : ∀ (l : List Val), (dedup l).Pairwise (fun a b => a.eqv b = false)
  | [] => by simp [dedup]
  | w :: ws => by
    have ih := dedup_pairwise ws
    simp only [dedup]
    split
    · exact ih
    · rename_i hany
      rw [List.pairwise_cons]
      refine ⟨?_, ih⟩
      intro u hu
      cases h : w.eqv u
      · rfl
      · exfalso; apply hany
        exact List.any_eq_true.mpr ⟨u, hu, by rw [eqv_symm]; exact h⟩

theorem dedup_length_eq_iff : ∀ (l : List Val),
    (dedup l).length = l.length ↔ l.Pairwise (fun a b => a.eqv b = false)
  | [] => by simp [dedup]
  | w :: ws => by
    constructor
    · intro h
      have hle := dedup_length_le ws
      simp only [dedup] at h
      split at h
      · simp at h; omega
      · rename_i hany
        simp at h
        have hp := (dedup_length_eq_iff ws).mp h
        rw [dedup_eq_self ws hp] at hany
        rw [List.pairwise_cons]
        refine ⟨?_, hp⟩
        intro u hu
        cases h : w.eqv u
        · rfl
        · exfalso; apply hany
          exact List.any_eq_true.mpr ⟨u, hu, by rw [eqv_symm]; exact h⟩
    · intro h; rw [dedup_eq_self _ h]

theorem dedup_eq_nil : ∀ (l : List Val), dedup l = [] ↔ l = []
  | [] => by simp [dedup]
  | w :: ws => by
    have ih := dedup_eq_nil ws
    simp only [dedup]
    split
    · rename_i hany
      simp only [reduceCtorEq, iff_false]
      intro h; rw [h] at hany; simp at hany
    · simp

/-! ### insertVal / sortVals -/

theorem mem_insertVal (x : Val) : ∀ (l : List Val) (v : Val), v ∈ insertVal x l ↔ v = x ∨ v ∈ l
  | [], v => by simp [insertVal]
  | y :: ys, v => by
    simp only [insertVal]
    split
    · simp only [List.mem_cons, mem_insertVal x ys v]
      constructor
      · rintro (h | h | h) <;> simp [h]
      · rintro (h | h | h) <;> simp [h]
    · simp [List.mem_cons]

theorem length_insertVal (x : Val) : ∀ (l : List Val), (insertVal x l).length = l.length + 1
  | [] => rfl
  | y :: ys => by
    simp only [insertVal]
    split <;> simp [length_insertVal x ys]

theorem mem_sortVals : ∀ (l : List Val) (v : Val), v ∈ sortVals l ↔ v ∈ l
  | [], v => by simp [sortVals]
  | x :: xs, v => by
    have ih := mem_sortVals xs v
    unfold sortVals at ih ⊢
    simp only [List.foldr_cons, mem_insertVal, ih, List.mem_cons]

theorem length_sortVals : ∀ (l : List Val), (sortVals l).length = l.length
  | [] => rfl
  | x :: xs => by
    have ih := length_sortVals xs
    unfold sortVals at ih ⊢
    simp only [List.foldr_cons, length_insertVal, ih, List.length_cons]

theorem insertVal_sorted {t : FType} (x : Val) (hx : x.ftype = t) : ∀ (l : List Val), AllT t l →
    (∀ y ∈ l, x ≠ y) → l.Pairwise (fun a b => a.lt b = true) →
    (insertVal x l).Pairwise (fun a b => a.lt b = true)
  | [], _, _, _ => by simp [insertVal]
  | y :: ys, ht, hne, hs => by
    rw [List.pairwise_cons] at hs
    simp only [insertVal]
    split
    · rename_i hyx
      rw [List.pairwise_cons]
      refine ⟨?_, insertVal_sorted x hx ys ht.tail (fun z hz => hne z (List.mem_cons_of_mem _ hz)) hs.2⟩
      intro z hz
      rcases (mem_insertVal x ys z).mp hz with rfl | hz
      · exact hyx
      · exact hs.1 z hz
    · rename_i hyx
      have hxy : x.lt y = true := by
        rcases lt_total (a := x) (b := y) (by rw [hx, ht.head]) with h | h | h
        · exact h
        · exact absurd h (hne y List.mem_cons_self)
        · exact absurd h hyx
      rw [List.pairwise_cons]
      refine ⟨?_, List.pairwise_cons.mpr hs⟩
      intro z hz
      rcases List.mem_cons.mp hz with rfl | hz
      · exact hxy
      · exact lt_trans' (by rw [hx, ht.head]) (by rw [ht.head, ht.tail z hz]) hxy (hs.1 z hz)

theorem sortVals_sorted {t : FType} : ∀ (l : List Val), AllT t l →
    l.Pairwise (fun a b => a.eqv b = false) → (sortVals l).Pairwise (fun a b => a.lt b = true)
  | [], _, _ => by simp [sortVals]
  | x :: xs, ht, hp => by
    rw [List.pairwise_cons] at hp
    have ih := sortVals_sorted xs ht.tail hp.2
    unfold sortVals at ih ⊢
    simp only [List.foldr_cons]
    refine insertVal_sorted x ht.head _ ?_ ?_ ih
    · intro v hv; exact ht.tail v ((mem_sortVals xs v).mp hv)
    · intro y hy
      have hy' : y ∈ xs := (mem_sortVals xs y).mp hy
      exact (eqv_false_iff_ne (by rw [ht.head, ht.tail y hy'])).mp (hp.1 y hy')

/-! ### listMin / listMax -/

theorem listMin_eq_none : ∀ l, listMin l = none ↔ l = []
  | [] => by simp [listMin]
  | x :: xs => by simp only [listMin]; split <;> simp

theorem listMax_eq_none : ∀ l, listMax l = none ↔ l = []
  | [] => by simp [listMax]
  | x :: xs => by simp only [listMax]; split <;> simp

theorem listMin_spec : ∀ (l : List Nat) (m : Nat), listMin l = some m → m ∈ l ∧ ∀ x ∈ l, m ≤ x
  | [], m, h => by simp [listMin] at h
  | x :: xs, m, h => by
    simp only [listMin] at h
    split at h
    · rename_i hn
      have := (listMin_eq_none xs).mp hn
      subst this; cases h; simp
    · rename_i m' hm'
      have ih := listMin_spec xs m' hm'
      cases h
      constructor
      · by_cases hxm : x ≤ m'
        · rw [Nat.min_eq_left hxm]; exact List.mem_cons_self
        · rw [Nat.min_eq_right (by omega)]; exact List.mem_cons_of_mem _ ih.1
      · intro y hy
        rcases List.mem_cons.mp hy with rfl | hy
        · exact Nat.min_le_left _ _
        · exact Nat.le_trans (Nat.min_le_right _ _) (ih.2 y hy)

theorem listMax_spec : ∀ (l : List Nat) (m : Nat), listMax l = some m → m ∈ l ∧ ∀ x ∈ l, x ≤ m
  | [], m, h => by simp [listMax] at h
  | x :: xs, m, h => by
    simp only [listMax] at h
    split at h
    · rename_i hn
      have := (listMax_eq_none xs).mp hn
      subst this; cases h; simp
    · rename_i m' hm'
      have ih := listMax_spec xs m' hm'
      cases h
      constructor
      · by_cases hxm : m' ≤ x
        · rw [Nat.max_eq_left hxm]; exact List.mem_cons_self
        · rw [Nat.max_eq_right (by omega)]; exact List.mem_cons_of_mem _ ih.1
      · intro y hy
        rcases List.mem_cons.mp hy with rfl | hy
        · exact Nat.le_max_left _ _
        · exact Nat.le_trans (ih.2 y hy) (Nat.le_max_right _ _)

/-! ### discoverField in parts -/

def nUniq (c : Column) : Int := if c.ftype != .real then calcNunique c else -1

def uniqs0 (c : Column) : Option (List Val) :=
  if c.ftype == .string && nUniq c ≤ maxCategories then some (calcUniques c) else none

def uniqs (c : Column) : Option (List Val) :=
  if calcNonNullCount c > 0 && c.ftype == .string && (uniqs0 c).isNone && nUniq c > 0 then some (calcUniques c)
  else uniqs0 c

def typePart (c : Column) : List Constraint := [Constraint.type (some [c.ftype])]

def nonStr (c : Column) : Bool := calcNonNullCount c > 0 && c.ftype != .string

def minPart (c : Column) : List Constraint :=
  if nonStr c then (match calcMin c with | some v => [Constraint.min (some v) .fuzzy] | none => []) else []

def maxPart (c : Column) : List Constraint :=
  if nonStr c then (match calcMax c with | some v => [Constraint.max (some v) .fuzzy] | none => []) else []

/-- string lengths of a value list -/
def lensOf (l : List Val) : List Nat :=
  l.filterMap (fun v => match v with | .s x => some x.length | _ => none)

def lengthPart (c : Column) : List Constraint :=
  if calcNonNullCount c > 0 && c.ftype == .string then
    (match uniqs c with
     | some (u :: us) =>
       (match listMin (lensOf (u :: us)), listMax (lensOf (u :: us)) with
        | some m, some M => [Constraint.minLength (some m), Constraint.maxLength (some M)]
        | _, _ => [])
     | _ => [])
  else []

def signPart (c : Column) : List Constraint :=
  if nonStr c && c.ftype != .date then
    (match calcMin c, calcMax c with
     | some a, some b =>
       (match a.num, b.num with
        | some x, some y =>
          if x == 0 && y == 0 then [Constraint.sign (some .zero)]
          else if x ≥ 0 then [Constraint.sign (some (if x > 0 then .positive else .nonNegative))]
          else if y ≤ 0 then [Constraint.sign (some (if y < 0 then .negative else .nonPositive))]
          else []
        | _, _ => [])
     | none, _ => [Constraint.sign (some .null)]
     | _, _ => [])
  else []

def maxNullsPart (c : Column) : List Constraint :=
  if calcNullCount c < 2 then [Constraint.maxNulls (some (calcNullCount c))] else []

def noDupPart (c : Column) : List Constraint :=
  if nUniq c == (calcNonNullCount c : Int) && nUniq c > 1 && c.ftype != .real
  then [Constraint.noDuplicates (some true)] else []

def allowedPart (c : Column) : List Constraint :=
  match uniqs0 c with
  | some (u :: us) => [Constraint.allowedValues (some (u :: us))]
  | _ => []

def rexPart (incRex : Bool) (rexOf : List Val → List Nat) (c : Column) : List Constraint :=
  if c.ftype == .string && incRex then [Constraint.rex (some (rexOf (((uniqs c).getD []))))] else []

theorem discover_nf (incRex : Bool) (rexOf : List Val → List Nat) (c : Column) (n : Nat)
    (ho : c.ftype ≠ .other) (hn : n ≠ 0) :
    discoverField incRex rexOf c n = .ok (some (typePart c ++ minPart c ++ maxPart c ++ lengthPart c ++
      signPart c ++ maxNullsPart c ++ noDupPart c ++ allowedPart c ++ rexPart incRex rexOf c)) := by
  unfold discoverField
  have h1 : (c.ftype == .other) = false := by simpa using ho
  have h2 : (n == 0) = false := by simpa using hn
  simp only [h1, h2, Bool.false_eq_true, if_false]
  rfl


def kind : Constraint → Nat
  | .type _ => 0 | .min _ _ => 1 | .max _ _ => 2 | .minLength _ => 3 | .maxLength _ => 4
  | .sign _ => 5 | .maxNulls _ => 6 | .noDuplicates _ => 7 | .allowedValues _ => 8 | .rex _ => 9

theorem kind_typePart (c : Column) (k : Constraint) (h : k ∈ typePart c) : kind k = 0 := by
  simp [typePart] at h; subst h; rfl

theorem kind_minPart (c : Column) (k : Constraint) (h : k ∈ minPart c) : kind k = 1 := by
  unfold minPart at h
  split at h
  · split at h <;> simp at h; subst h; rfl
  · simp at h

theorem kind_maxPart (c : Column) (k : Constraint) (h : k ∈ maxPart c) : kind k = 2 := by
  unfold maxPart at h
  split at h
  · split at h <;> simp at h; subst h; rfl
  · simp at h

theorem kind_lengthPart (c : Column) (k : Constraint) (h : k ∈ lengthPart c) : kind k = 3 ∨ kind k = 4 := by
  unfold lengthPart at h
  split at h
  · split at h
    · split at h
      · simp at h; rcases h with rfl | rfl <;> simp [kind]
      · simp at h
    · simp at h
  · simp at h

theorem kind_signPart (c : Column) (k : Constraint) (h : k ∈ signPart c) : kind k = 5 := by
  unfold signPart at h
  split at h
  · split at h
    · split at h
      · split at h
        · simp at h; subst h; rfl
        · split at h
          · simp at h; subst h; rfl
          · split at h
            · simp at h; subst h; rfl
            · simp at h
      · simp at h
    · simp at h; subst h; rfl
    · simp at h
  · simp at h

theorem kind_maxNullsPart (c : Column) (k : Constraint) (h : k ∈ maxNullsPart c) : kind k = 6 := by
  unfold maxNullsPart at h
  split at h <;> simp at h; subst h; rfl

theorem kind_noDupPart (c : Column) (k : Constraint) (h : k ∈ noDupPart c) : kind k = 7 := by
  unfold noDupPart at h
  split at h <;> simp at h; subst h; rfl

theorem kind_allowedPart (c : Column) (k : Constraint) (h : k ∈ allowedPart c) : kind k = 8 := by
  unfold allowedPart at h
  split at h <;> simp at h; subst h; rfl

theorem kind_rexPart (incRex : Bool) (rexOf : List Val → List Nat) (c : Column) (k : Constraint)
    (h : k ∈ rexPart incRex rexOf c) : kind k = 9 := by
  unfold rexPart at h
  split at h <;> simp at h; subst h; rfl

/-- all the constraints, as a list of parts -/
def allParts (incRex : Bool) (rexOf : List Val → List Nat) (c : Column) : List Constraint :=
  typePart c ++ minPart c ++ maxPart c ++ lengthPart c ++
      signPart c ++ maxNullsPart c ++ noDupPart c ++ allowedPart c ++ rexPart incRex rexOf c

theorem mem_allParts (incRex : Bool) (rexOf : List Val → List Nat) (c : Column) (k : Constraint) :
    k ∈ allParts incRex rexOf c ↔
      (kind k = 0 ∧ k ∈ typePart c) ∨ (kind k = 1 ∧ k ∈ minPart c) ∨ (kind k = 2 ∧ k ∈ maxPart c) ∨
      ((kind k = 3 ∨ kind k = 4) ∧ k ∈ lengthPart c) ∨ (kind k = 5 ∧ k ∈ signPart c) ∨
      (kind k = 6 ∧ k ∈ maxNullsPart c) ∨ (kind k = 7 ∧ k ∈ noDupPart c) ∨
      (kind k = 8 ∧ k ∈ allowedPart c) ∨ (kind k = 9 ∧ k ∈ rexPart incRex rexOf c) := by
  unfold allParts
  simp only [List.mem_append]
  constructor
  · rintro ((((((((h | h) | h) | h) | h) | h) | h) | h) | h)
    · exact Or.inl ⟨kind_typePart c k h, h⟩
    · exact Or.inr (Or.inl ⟨kind_minPart c k h, h⟩)
    · exact Or.inr (Or.inr (Or.inl ⟨kind_maxPart c k h, h⟩))
    · exact Or.inr (Or.inr (Or.inr (Or.inl ⟨kind_lengthPart c k h, h⟩)))
    · exact Or.inr (Or.inr (Or.inr (Or.inr (Or.inl ⟨kind_signPart c k h, h⟩))))
    · exact Or.inr (Or.inr (Or.inr (Or.inr (Or.inr (Or.inl ⟨kind_maxNullsPart c k h, h⟩)))))
    · exact Or.inr (Or.inr (Or.inr (Or.inr (Or.inr (Or.inr (Or.inl ⟨kind_noDupPart c k h, h⟩))))))
    · exact Or.inr (Or.inr (Or.inr (Or.inr (Or.inr (Or.inr (Or.inr (Or.inl ⟨kind_allowedPart c k h, h⟩)))))))
    · exact Or.inr (Or.inr (Or.inr (Or.inr (Or.inr (Or.inr (Or.inr (Or.inr ⟨kind_rexPart incRex rexOf c k h, h⟩)))))))
  · rintro (h | h | h | h | h | h | h | h | h) <;> simp [h.2]

theorem discover_nf' (incRex : Bool) (rexOf : List Val → List Nat) (c : Column) (n : Nat)
    (ho : c.ftype ≠ .other) (hn : n ≠ 0) :
    discoverField incRex rexOf c n = .ok (some (allParts incRex rexOf c)) :=
  discover_nf incRex rexOf c n ho hn

/-! ### well-formed columns -/

theorem wf_other {c : Column} (h : c.WF = true) : c.ftype ≠ .other := by
  simp [Column.WF] at h; exact h.1

theorem wf_allT {c : Column} (h : c.WF = true) : AllT c.ftype c.nonNull := by
  simp [Column.WF] at h; exact h.2

theorem nonNullCount_pos (c : Column) : calcNonNullCount c > 0 ↔ c.nonNull ≠ [] := by
  unfold calcNonNullCount
  cases c.nonNull <;> simp

theorem nonStr_iff (c : Column) : nonStr c = true ↔ c.nonNull ≠ [] ∧ c.ftype ≠ .string := by
  simp [nonStr, nonNullCount_pos]

end TddaVerif.Constraints.DiscAux
