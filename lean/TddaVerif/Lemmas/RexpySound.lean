/- Helper lemmas for C03 (rexpy soundness). Statements mirror Props/C03.lean. -/
import TddaVerif.Model.Rexpy
import TddaVerif.Props.C03Spec

namespace TddaVerif.Props.C03.Lemmas
open TddaVerif.Py TddaVerif.Rexpy TddaVerif.Props.C03

theorem matchCap_sound (T : CharTable) (E : List Char) (p : Pattern) (s : Line) (caps : List Line)
    (h : matchCap T E p s = some caps) :
    caps.flatten = s ∧ caps.length = p.length ∧
    (∀ i, i < p.length → fragAccepts T E (p.getD i ⟨.code ' ', 0, none, false⟩) (caps.getD i []) = true) ∧
    Matches T E p s := by
  sorry

theorem matchCap_complete (T : CharTable) (E : List Char) (p : Pattern) (s : Line)
    (h : Matches T E p s) : (matchCap T E p s).isSome = true := by
  sorry

theorem coarse_sound (T : CharTable) (hT : Consistent T) (E : List Char) (hE : E = normExtras E) (c : Char) :
    inCat T E (coarse T E c) c = true := by
  sorry

theorem batch_extract_sound (T : CharTable) (hT : Consistent T) (o : Opts) (cl : Cleaned) :
    ∃ ps E, batchExtract T o cl = some (ps, E) ∧
      ∀ s ∈ cl.strings, ∃ p ∈ ps, Matches T E (wrapWs (decide (cl.nStripped > 0)) p) s := by
  sorry

theorem extract_sound (T : CharTable) (hT : Consistent T) (o : Opts)
    (hprune : o.maxPatterns = none ∧ o.minStrings ≤ 1) (items : List (Option Line × Nat)) :
    ∃ ps E w, extract T o items = some (ps, E, w) ∧
      ∀ s ∈ keptExamples o items, ∃ p ∈ ps, Matches T E (wrapWs w p) s := by
  sorry

end TddaVerif.Props.C03.Lemmas
