/- Final assembly for C03 (rexpy soundness). Statements mirror Props/C03.lean. -/
import TddaVerif.Model.Rexpy
import TddaVerif.Props.C03Spec
import TddaVerif.Lemmas.RexpyMatch
import TddaVerif.Lemmas.RexpyVrle
import TddaVerif.Lemmas.RexpyRefine

namespace TddaVerif.Props.C03.Lemmas
open TddaVerif.Py TddaVerif.Rexpy TddaVerif.Props.C03

theorem batch_extract_sound (T : CharTable) (hT : Consistent T) (o : Opts)
    (hsz : 1 ≤ o.sizes.maxStringsInGroup) (cl : Cleaned) :
    ∃ ps E, batchExtract T o cl = some (ps, E) ∧
      ∀ s ∈ cl.strings, ∃ p ∈ ps, Matches T E (wrapWs (decide (cl.nStripped > 0)) p) s := by
  sorry

theorem extract_sound (T : CharTable) (hT : Consistent T) (o : Opts)
    (hsz : 1 ≤ o.sizes.maxStringsInGroup)
    (hprune : o.maxPatterns = none ∧ o.minStrings ≤ 1) (items : List (Option Line × Nat)) :
    ∃ ps E w, extract T o items = some (ps, E, w) ∧
      ∀ s ∈ keptExamples o items, ∃ p ∈ ps, Matches T E (wrapWs w p) s := by
  sorry

/-- every returned pattern comes from a signature group and matches all the (cleaned) examples of
    that group — in particular at least one example -/
theorem batch_pattern_has_witness (T : CharTable) (hT : Consistent T) (o : Opts)
    (hsz : 1 ≤ o.sizes.maxStringsInGroup) (cl : Cleaned) (ps : List Pattern) (E : List Char)
    (h : batchExtract T o cl = some (ps, E)) :
    ∀ p ∈ ps, ∃ s ∈ cl.strings, Matches T E (wrapWs (decide (cl.nStripped > 0)) p) s := by
  sorry

/-- there are never more patterns than distinct cleaned examples, and none for no examples -/
theorem batch_count_le (T : CharTable) (o : Opts) (cl : Cleaned) (ps : List Pattern) (E : List Char)
    (h : batchExtract T o cl = some (ps, E)) : ps.length ≤ cl.strings.eraseDups.length := by
  sorry

/-- pruning options only delete patterns -/
theorem extract_subset_batch (T : CharTable) (o : Opts) (items : List (Option Line × Nat))
    (ps : List Pattern) (E : List Char) (w : Bool) (h : extract T o items = some (ps, E, w))
    (hne : (clean o.stripOpt o.removeEmpties items).strings ≠ []) :
    ∃ qs, batchExtract T o (clean o.stripOpt o.removeEmpties items) = some (qs, E) ∧ ∀ p ∈ ps, p ∈ qs := by
  sorry

theorem extract_empty (T : CharTable) (o : Opts) (items : List (Option Line × Nat))
    (h : (clean o.stripOpt o.removeEmpties items).strings = []) : extract T o items = some ([], [], false) := by
  sorry

end TddaVerif.Props.C03.Lemmas
