/- Final assembly for C03 (rexpy soundness). Statements mirror Props/C03.lean. -/
import TddaVerif.Model.Rexpy
import TddaVerif.Props.C03Spec
import TddaVerif.Lemmas.RexpyMatch
import TddaVerif.Lemmas.RexpyVrle
import TddaVerif.Lemmas.RexpyRefine

namespace TddaVerif.Props.C03.Lemmas
open TddaVerif.Py TddaVerif.Rexpy TddaVerif.Props.C03

set_option linter.unusedSimpArgs false
set_option linter.unusedVariables false

/-! ### extra letters -/

theorem normExtras_idem (e : List Char) : normExtras (normExtras e) = normExtras e := by
  unfold normExtras
  apply List.filter_congr
  intro c hc
  rw [Bool.eq_iff_iff]
  simp only [List.contains_iff_mem, List.mem_filter]
  exact ⟨fun h => h.2, fun h => ⟨hc, h⟩⟩

theorem thinExtras_norm (extras : List Char) (strings : List Line) :
    thinExtras extras strings = normExtras (thinExtras extras strings) := by
  unfold thinExtras
  split <;> rw [normExtras_idem]

/-! ### from a covering VRLE to a match of its coarse pattern -/

theorem covers_length {v : Vrle} {r : List (Char × Nat)} (h : Covers v r) : v.length = r.length := by
  have := congrArg List.length h.1
  simpa [sigOf] using this

theorem covers_cons {e : Char × Nat × Option Nat} {es : Vrle} {x : Char × Nat} {xs : List (Char × Nat)}
    (h : Covers (e :: es) (x :: xs)) :
    e.1 = x.1 ∧ ((∀ M, e.2.2 = some M → e.2.1 ≤ x.2 ∧ x.2 ≤ M) ∧ (e.2.2 = none → min e.2.1 1 ≤ x.2)) ∧
      Covers es xs := by
  obtain ⟨h1, h2⟩ := h
  simp only [sigOf, List.map_cons, List.cons.injEq] at h1
  refine ⟨h1.1, ?_, h1.2, ?_⟩
  · have := h2 0 (by simp)
    rcases e with ⟨k, m, _ | M⟩
    · simpa using this
    · simpa using this
  · intro i hi
    have := h2 (i + 1) (by simpa using hi)
    simpa using this

theorem matches_of_covers (T : CharTable) (E : List Char) (f : Char → Char) (v : Vrle)
    (r : List (Char × Nat)) (s : Line) (hc : Covers v r) (hr : Runs f r s)
    (hs : ∀ c ∈ s, inCat T E (f c) c = true) : Matches T E (fragsOfVrle v) s := by
  induction v generalizing r s with
  | nil =>
    have hl := covers_length hc
    cases r with
    | nil => simp only [Runs] at hr; subst hr; exact Matches.nil
    | cons x xs => simp at hl
  | cons e es ih =>
    cases r with
    | nil => have hl := covers_length hc; simp at hl
    | cons x xs =>
      obtain ⟨p, q, rfl, hpl, hpf, hq⟩ := hr
      obtain ⟨h1, h2, h3⟩ := covers_cons hc
      have hrest := ih xs q h3 hq (fun c hc' => hs c (by simp [hc']))
      obtain ⟨k, m, M⟩ := e
      show Matches T E ({ atom := .code k, m := m, M := M, fixed := false } :: fragsOfVrle es) (p ++ q)
      refine Matches.cons _ _ p q ?_ hrest
      rw [fragAccepts_iff _ _ _ (by simp)]
      simp only at h1 h2
      refine ⟨?_, ?_, ?_⟩
      · cases M with
        | none => simpa [Frag.lo, hpl] using h2.2 rfl
        | some M => simpa [Frag.lo, hpl] using (h2.1 M rfl).1
      · intro M' hM'
        simp only at hM'
        rw [hpl]
        exact (h2.1 M' hM').2
      · intro c hc'
        have := hs c (by simp [hc'])
        rw [hpf c hc', ← h1] at this
        simpa [atomChar] using this

theorem coarseRle_runs (T : CharTable) (hT : Consistent T) (E : List Char) (hE : E = normExtras E) (s : Line) :
    ∃ f : Char → Char, Runs f (coarseRle T E s) s ∧ ∀ c, inCat T E (f c) c = true := by
  unfold coarseRle
  simp only
  split
  · exact ⟨coarse T E, runs_rle _ s, coarse_sound T hT E hE⟩
  · exact ⟨fun _ => cAny, runs_rle _ s, fun c => inCat_cAny T E c⟩

theorem coarseRle_pos (T : CharTable) (E : List Char) (s : Line) : ∀ x ∈ coarseRle T E s, 0 < x.2 := by
  unfold coarseRle
  simp only
  split
  · exact (rle_expand _).2
  · exact (rle_expand _).2

/-! ### the whitespace wrap -/

theorem fragAccepts_ws (T : CharTable) (E : List Char) (g : Line) :
    fragAccepts T E wsFrag g = true ↔ ∀ c ∈ g, T.s c = true := by
  rw [fragAccepts_iff _ _ _ (by simp [wsFrag])]
  simp [wsFrag, Frag.lo, atomChar, inCat_cWhite]

theorem matches_ws_iff (T : CharTable) (E : List Char) (g : Line) :
    Matches T E [wsFrag] g ↔ ∀ c ∈ g, T.s c = true := by
  constructor
  · intro h
    cases h with
    | cons _ _ g' rest hg hrest =>
      cases hrest
      simpa using (fragAccepts_ws T E g').1 hg
  · intro h
    simpa using Matches.cons wsFrag [] g [] ((fragAccepts_ws T E g).2 h) Matches.nil

theorem matches_wrap (T : CharTable) (E : List Char) (w : Bool) (p : Pattern) (s : Line)
    (h : Matches T E p s) : Matches T E (wrapWs w p) s := by
  rw [wrapWs_eq]
  cases w with
  | false => simpa [wsL] using h
  | true =>
    have hn : Matches T E [wsFrag] [] := (matches_ws_iff T E []).2 (by simp)
    simpa [wsL] using matches_append T E _ _ _ _ (matches_append T E _ _ _ _ hn h) hn

theorem matches_append_inv (T : CharTable) (E : List Char) (p q : Pattern) (s : Line)
    (h : Matches T E (p ++ q) s) : ∃ s1 s2, s = s1 ++ s2 ∧ Matches T E p s1 ∧ Matches T E q s2 := by
  induction p generalizing s with
  | nil => exact ⟨[], s, rfl, Matches.nil, h⟩
  | cons f fs ih =>
    rw [List.cons_append] at h
    cases h with
    | cons _ _ g rest hg hrest =>
      obtain ⟨s1, s2, rfl, h1, h2⟩ := ih rest hrest
      exact ⟨g ++ s1, s2, by simp, Matches.cons f fs g s1 hg h1, h2⟩

/-- a match of the (possibly wrapped) pattern on the stripped string is a match on the original -/
theorem matches_unstrip (T : CharTable) (hT : Consistent T) (E : List Char) (w : Bool) (p : Pattern) (s : Line)
    (hw : w = false → (strip s).length = s.length)
    (h : Matches T E (wrapWs w p) (strip s)) : Matches T E (wrapWs w p) s := by
  obtain ⟨pre, post, hdec, hpre, hpost⟩ := strip_decompose s
  cases w with
  | false =>
    have hl := hw rfl
    have hlen := congrArg List.length hdec
    simp only [List.length_append] at hlen
    have h1 : pre = [] := List.length_eq_zero_iff.1 (by omega)
    have h2 : post = [] := List.length_eq_zero_iff.1 (by omega)
    have hs : s = strip s := by
      rw [h1, h2] at hdec
      simpa using hdec
    rw [hs]
    exact h
  | true =>
    rw [wrapWs_eq] at h ⊢
    simp only [wsL, if_true] at h ⊢
    obtain ⟨ab, c, h0, hab, hc⟩ := matches_append_inv T E _ _ _ h
    obtain ⟨a, b, rfl, ha, hb⟩ := matches_append_inv T E _ _ _ hab
    have ha' : Matches T E [wsFrag] (pre ++ a) := by
      rw [matches_ws_iff] at ha ⊢
      intro x hx
      rcases List.mem_append.1 hx with hx | hx
      · exact hT.2.2 x (hpre x hx)
      · exact ha x hx
    have hc' : Matches T E [wsFrag] (c ++ post) := by
      rw [matches_ws_iff] at hc ⊢
      intro x hx
      rcases List.mem_append.1 hx with hx | hx
      · exact hc x hx
      · exact hT.2.2 x (hpost x hx)
    have := matches_append T E _ _ _ _ (matches_append T E _ _ _ _ ha' hb) hc'
    have hs : s = pre ++ a ++ b ++ (c ++ post) := by
      rw [hdec, h0]
      simp
    rw [hs]
    exact this

/-! ### `mapM` in `Option` -/

theorem mapM_length {α β : Type} (f : α → Option β) (l : List α) (bs : List β)
    (h : l.mapM f = some bs) : bs.length = l.length := by
  induction l generalizing bs with
  | nil => simp at h; subst h; rfl
  | cons a as ih =>
    rw [List.mapM_cons] at h
    cases hfa : f a with
    | none => simp [hfa] at h
    | some b =>
      cases hr : as.mapM f with
      | none => simp [hfa, hr] at h
      | some bs' =>
        simp [hfa, hr] at h
        subst h
        simp [ih bs' hr]

theorem mapM_mem {α β : Type} (f : α → Option β) (l : List α) (bs : List β)
    (h : l.mapM f = some bs) : ∀ b ∈ bs, ∃ a ∈ l, f a = some b := by
  induction l generalizing bs with
  | nil => simp at h; subst h; simp
  | cons a as ih =>
    rw [List.mapM_cons] at h
    cases hfa : f a with
    | none => simp [hfa] at h
    | some b =>
      cases hr : as.mapM f with
      | none => simp [hfa, hr] at h
      | some bs' =>
        simp [hfa, hr] at h
        subst h
        intro b' hb'
        rcases List.mem_cons.1 hb' with rfl | hb'
        · exact ⟨a, by simp, hfa⟩
        · obtain ⟨a', ha', hf⟩ := ih bs' hr b' hb'
          exact ⟨a', by simp [ha'], hf⟩

/-! ### `eraseDups` -/

theorem nodup_eraseDups {α} [BEq α] [LawfulBEq α] : ∀ (n : Nat) (l : List α), l.length ≤ n → l.eraseDups.Nodup := by
  intro n
  induction n with
  | zero =>
    intro l hl
    cases l with
    | nil => simp
    | cons a as => simp at hl
  | succ n ih =>
    intro l hl
    cases l with
    | nil => simp
    | cons a as =>
      rw [List.eraseDups_cons, List.nodup_cons]
      refine ⟨?_, ih _ ?_⟩
      · intro hmem
        have := (List.mem_filter.1 (List.mem_eraseDups.1 hmem)).2
        simp at this
      · simp only [List.length_cons, Nat.add_le_add_iff_right] at hl
        exact Nat.le_trans (List.length_filter_le _ _) hl

theorem eraseDups_map_length_le {α β} [BEq α] [LawfulBEq α] [BEq β] [LawfulBEq β] (f : α → β) (l : List α) :
    (l.map f).eraseDups.length ≤ l.eraseDups.length := by
  have hsub : (l.map f).eraseDups ⊆ l.eraseDups.map f := by
    intro b hb
    obtain ⟨a, ha, rfl⟩ := List.mem_map.1 (List.mem_eraseDups.1 hb)
    exact List.mem_map.2 ⟨a, List.mem_eraseDups.2 ha, rfl⟩
  have := ((nodup_eraseDups _ (l.map f) (Nat.le_refl _)).subperm hsub).length_le
  simpa using this

/-! ### the batch pipeline -/

/-- the (normalised, thinned) extra letters `batchExtract` works with -/
def bE (o : Opts) (cl : Cleaned) : List Char := thinExtras o.extras cl.strings

def bRles (T : CharTable) (o : Opts) (cl : Cleaned) : List (List (Char × Nat)) :=
  cl.strings.map (coarseRle T (bE o cl))

def bVrles (T : CharTable) (o : Opts) (cl : Cleaned) : List Vrle := toVrles (bRles T o cl).eraseDups

/-- the examples of the signature group of `v` -/
def bEx (T : CharTable) (o : Opts) (cl : Cleaned) (v : Vrle) : List Line :=
  (cl.strings.zip (bRles T o cl)).filterMap (fun sr => if sigOf sr.2 == sigOf v then some sr.1 else none)

def bF (T : CharTable) (o : Opts) (cl : Cleaned) (v : Vrle) : Option Pattern :=
  refineVrle T (bE o cl) o.vlf o.sizes (decide (cl.nStripped > 0)) v (bEx T o cl v)

def merged (ps : List Pattern) : List Pattern := if ps.length == 1 then ps else sortByLength ps

theorem batchExtract_eq (T : CharTable) (o : Opts) (cl : Cleaned) :
    batchExtract T o cl = ((bVrles T o cl).mapM (bF T o cl)).map (fun ps => (merged ps, bE o cl)) := rfl

theorem mem_merged (ps : List Pattern) (p : Pattern) : p ∈ merged ps ↔ p ∈ ps := by
  unfold merged
  split
  · exact Iff.rfl
  · exact (sortByLength_perm ps).mem_iff

theorem merged_length (ps : List Pattern) : (merged ps).length = ps.length := by
  unfold merged
  split
  · rfl
  · exact (sortByLength_perm ps).length_eq

theorem mem_zip_filterMap {α β : Type} (l : List α) (g : α → β) (P : β → Bool) (e : α) :
    e ∈ (l.zip (l.map g)).filterMap (fun sr => if P sr.2 then some sr.1 else none) ↔
      e ∈ l ∧ P (g e) = true := by
  induction l with
  | nil => simp
  | cons a as ih =>
    simp only [List.map_cons, List.zip_cons_cons, List.filterMap_cons, List.mem_cons]
    by_cases h : P (g a) = true
    · simp only [h, if_true, List.mem_cons, ih]
      constructor
      · rintro (rfl | h')
        · exact ⟨Or.inl rfl, h⟩
        · exact ⟨Or.inr h'.1, h'.2⟩
      · rintro ⟨rfl | h1, h2⟩
        · exact Or.inl rfl
        · exact Or.inr ⟨h1, h2⟩
    · simp only [h, if_false, ih, Bool.false_eq_true]
      constructor
      · rintro ⟨h1, h2⟩
        exact ⟨Or.inr h1, h2⟩
      · rintro ⟨rfl | h1, h2⟩
        · exact absurd h2 h
        · exact ⟨h1, h2⟩

theorem mem_bEx (T : CharTable) (o : Opts) (cl : Cleaned) (v : Vrle) (e : Line) :
    e ∈ bEx T o cl v ↔ e ∈ cl.strings ∧ sigOf (coarseRle T (bE o cl) e) = sigOf v := by
  have := mem_zip_filterMap cl.strings (coarseRle T (bE o cl)) (fun r => sigOf r == sigOf v) e
  simpa [bEx, bRles] using this

theorem bRles_pos (T : CharTable) (o : Opts) (cl : Cleaned) :
    ∀ r ∈ (bRles T o cl).eraseDups, ∀ x ∈ r, 0 < x.2 := by
  intro r hr
  obtain ⟨s, -, rfl⟩ := List.mem_map.1 (List.mem_eraseDups.1 hr)
  exact coarseRle_pos T _ s

/-- every cleaned string has a covering VRLE, whose coarse pattern matches it -/
theorem cover_of_string (T : CharTable) (hT : Consistent T) (o : Opts) (cl : Cleaned) (s : Line)
    (hs : s ∈ cl.strings) :
    ∃ v ∈ bVrles T o cl, sigOf v = sigOf (coarseRle T (bE o cl) s) ∧
      Matches T (bE o cl) (fragsOfVrle v) s := by
  have hr : coarseRle T (bE o cl) s ∈ (bRles T o cl).eraseDups :=
    List.mem_eraseDups.2 (List.mem_map.2 ⟨s, hs, rfl⟩)
  obtain ⟨v, hv, hcov⟩ := toVrles_covers _ (bRles_pos T o cl) _ hr
  obtain ⟨f, hruns, hf⟩ := coarseRle_runs T hT (bE o cl) (thinExtras_norm _ _) s
  exact ⟨v, hv, hcov.1, matches_of_covers T _ f v _ s hcov hruns (fun c _ => hf c)⟩

theorem bF_sound (T : CharTable) (hT : Consistent T) (o : Opts) (hsz : 1 ≤ o.sizes.maxStringsInGroup)
    (cl : Cleaned) (v : Vrle) (hv : v ∈ bVrles T o cl) :
    ∃ p, bF T o cl v = some p ∧
      ∀ e ∈ bEx T o cl v, Matches T (bE o cl) (wrapWs (decide (cl.nStripped > 0)) p) e := by
  apply refineVrle_sound T hT _ _ _ hsz
  intro e he
  obtain ⟨hes, hsig⟩ := (mem_bEx T o cl v e).1 he
  obtain ⟨v', hv', hsig', hm⟩ := cover_of_string T hT o cl e hes
  have : v' = v := toVrles_sig_unique _ v' v hv' hv (hsig'.trans hsig)
  subst this
  exact matches_wrap T _ _ _ e hm

theorem bEx_nonempty (T : CharTable) (o : Opts) (cl : Cleaned) (v : Vrle) (hv : v ∈ bVrles T o cl) :
    ∃ s, s ∈ bEx T o cl v := by
  obtain ⟨r, hr, hsig⟩ := toVrles_from _ v hv
  obtain ⟨s, hs, rfl⟩ := List.mem_map.1 (List.mem_eraseDups.1 hr)
  exact ⟨s, (mem_bEx T o cl v s).2 ⟨hs, hsig⟩⟩

theorem batch_extract_sound (T : CharTable) (hT : Consistent T) (o : Opts)
    (hsz : 1 ≤ o.sizes.maxStringsInGroup) (cl : Cleaned) :
    ∃ ps E, batchExtract T o cl = some (ps, E) ∧
      ∀ s ∈ cl.strings, ∃ p ∈ ps, Matches T E (wrapWs (decide (cl.nStripped > 0)) p) s := by
  obtain ⟨qs, hqs, h1, h2⟩ := mapM_some (bF T o cl) (bVrles T o cl) (fun v hv => by
    obtain ⟨p, hp, -⟩ := bF_sound T hT o hsz cl v hv
    exact ⟨p, hp⟩)
  refine ⟨merged qs, bE o cl, by rw [batchExtract_eq, hqs]; rfl, ?_⟩
  intro s hs
  obtain ⟨v, hv, hsig, -⟩ := cover_of_string T hT o cl s hs
  obtain ⟨p, hp, hpf⟩ := h1 v hv
  obtain ⟨p', hp', hm⟩ := bF_sound T hT o hsz cl v hv
  rw [hp'] at hpf
  have hpp : p' = p := Option.some.inj hpf
  rw [hpp] at hm
  exact ⟨p, (mem_merged qs p).2 hp, hm s ((mem_bEx T o cl v s).2 ⟨hs, hsig.symm⟩)⟩

/-- what a successful `batchExtract` consists of -/
theorem batchExtract_some (T : CharTable) (o : Opts) (cl : Cleaned) (ps : List Pattern) (E : List Char)
    (h : batchExtract T o cl = some (ps, E)) :
    ∃ qs, (bVrles T o cl).mapM (bF T o cl) = some qs ∧ ps = merged qs ∧ E = bE o cl := by
  rw [batchExtract_eq] at h
  cases hq : (bVrles T o cl).mapM (bF T o cl) with
  | none => simp [hq] at h
  | some qs =>
    simp only [hq, Option.map_some, Option.some.injEq, Prod.mk.injEq] at h
    exact ⟨qs, rfl, h.1.symm, h.2.symm⟩

/-- every returned pattern comes from a signature group and matches all the (cleaned) examples of
    that group — in particular at least one example -/
theorem batch_pattern_has_witness (T : CharTable) (hT : Consistent T) (o : Opts)
    (hsz : 1 ≤ o.sizes.maxStringsInGroup) (cl : Cleaned) (ps : List Pattern) (E : List Char)
    (h : batchExtract T o cl = some (ps, E)) :
    ∀ p ∈ ps, ∃ s ∈ cl.strings, Matches T E (wrapWs (decide (cl.nStripped > 0)) p) s := by
  obtain ⟨qs, hqs, rfl, rfl⟩ := batchExtract_some T o cl ps E h
  intro p hp
  obtain ⟨v, hv, hf⟩ := mapM_mem _ _ _ hqs p ((mem_merged qs p).1 hp)
  obtain ⟨p', hp', hm⟩ := bF_sound T hT o hsz cl v hv
  rw [hp'] at hf
  have hpp : p' = p := Option.some.inj hf
  rw [hpp] at hm
  obtain ⟨s, hs⟩ := bEx_nonempty T o cl v hv
  exact ⟨s, ((mem_bEx T o cl v s).1 hs).1, hm s hs⟩

/-- there are never more patterns than distinct cleaned examples, and none for no examples -/
theorem batch_count_le (T : CharTable) (o : Opts) (cl : Cleaned) (ps : List Pattern) (E : List Char)
    (h : batchExtract T o cl = some (ps, E)) : ps.length ≤ cl.strings.eraseDups.length := by
  obtain ⟨qs, hqs, rfl, rfl⟩ := batchExtract_some T o cl ps E h
  rw [merged_length, mapM_length _ _ _ hqs]
  refine Nat.le_trans (toVrles_length_le _) ?_
  refine Nat.le_trans (eraseDups_length_le _ _ (Nat.le_refl _)) ?_
  exact eraseDups_map_length_le _ _

/-! ### `extract` -/

theorem extract_empty (T : CharTable) (o : Opts) (items : List (Option Line × Nat))
    (h : (clean o.stripOpt o.removeEmpties items).strings = []) : extract T o items = some ([], [], false) := by
  unfold extract
  simp [h]

theorem extract_of_batch (T : CharTable) (o : Opts) (items : List (Option Line × Nat))
    (qs : List Pattern) (E : List Char)
    (hne : (clean o.stripOpt o.removeEmpties items).strings ≠ [])
    (hb : batchExtract T o (clean o.stripOpt o.removeEmpties items) = some (qs, E)) :
    extract T o items =
      some ((List.range qs.length).filterMap (fun i =>
          if (badPatterns o (reFreqs T E (decide ((clean o.stripOpt o.removeEmpties items).nStripped > 0)) qs
                (clean o.stripOpt o.removeEmpties items))).contains i then none else qs[i]?),
        E, decide ((clean o.stripOpt o.removeEmpties items).nStripped > 0)) := by
  unfold extract
  simp only [hb]
  rw [if_neg (by simpa [List.isEmpty_iff] using hne)]

/-- pruning options only delete patterns -/
theorem extract_subset_batch (T : CharTable) (o : Opts) (items : List (Option Line × Nat))
    (ps : List Pattern) (E : List Char) (w : Bool) (h : extract T o items = some (ps, E, w))
    (hne : (clean o.stripOpt o.removeEmpties items).strings ≠ []) :
    ∃ qs, batchExtract T o (clean o.stripOpt o.removeEmpties items) = some (qs, E) ∧ ∀ p ∈ ps, p ∈ qs := by
  cases hb : batchExtract T o (clean o.stripOpt o.removeEmpties items) with
  | none =>
    unfold extract at h
    simp only [hb] at h
    rw [if_neg (by simpa [List.isEmpty_iff] using hne)] at h
    cases h
  | some qe =>
    obtain ⟨qs, E'⟩ := qe
    rw [extract_of_batch T o items qs E' hne hb] at h
    simp only [Option.some.injEq, Prod.mk.injEq] at h
    obtain ⟨h1, h2, -⟩ := h
    subst h2
    refine ⟨qs, rfl, ?_⟩
    intro p hp
    rw [← h1, List.mem_filterMap] at hp
    obtain ⟨i, -, hi⟩ := hp
    split at hi
    · cases hi
    · exact List.mem_of_getElem? hi

theorem badPatterns_nil (o : Opts) (hprune : o.maxPatterns = none ∧ o.minStrings ≤ 1) (freqs : List Nat) :
    badPatterns o freqs = [] := by
  unfold badPatterns
  have : ¬ o.minStrings > 1 := by omega
  simp [hprune.1, this]

theorem range_filterMap_getElem? {α : Type} (ps : List α) :
    ∀ n, (List.range n).filterMap (fun i => ps[i]?) = ps.take n := by
  intro n
  induction n with
  | zero => simp
  | succ n ih =>
    rw [List.range_succ, List.filterMap_append, ih, List.take_add_one]
    cases h : ps[n]? <;> simp [h]

theorem mem_keptExamples (o : Opts) (items : List (Option Line × Nat)) (s : Line)
    (h : s ∈ keptExamples o items) :
    ∃ n, (some s, n) ∈ items ∧ n ≠ 0 ∧
      ¬ (o.removeEmpties = true ∧ (if o.stripOpt then strip s else s) = []) := by
  unfold keptExamples at h
  rw [List.mem_filterMap] at h
  obtain ⟨⟨x, n⟩, hit, hx⟩ := h
  cases x with
  | none => simp at hx
  | some s' =>
    simp only at hx
    by_cases hn : (n == 0) = true
    · rw [if_pos hn] at hx
      cases hx
    · rw [if_neg hn] at hx
      by_cases hre : (o.removeEmpties && (if o.stripOpt then strip s' else s').isEmpty) = true
      · rw [if_pos hre] at hx
        cases hx
      · rw [if_neg hre] at hx
        cases hx
        refine ⟨n, hit, by simpa using hn, ?_⟩
        simpa [List.isEmpty_iff] using hre

theorem extract_sound (T : CharTable) (hT : Consistent T) (o : Opts)
    (hsz : 1 ≤ o.sizes.maxStringsInGroup)
    (hprune : o.maxPatterns = none ∧ o.minStrings ≤ 1) (items : List (Option Line × Nat)) :
    ∃ ps E w, extract T o items = some (ps, E, w) ∧
      ∀ s ∈ keptExamples o items, ∃ p ∈ ps, Matches T E (wrapWs w p) s := by
  -- every kept example has its cleaned form among the cleaned strings
  have hkept : ∀ s ∈ keptExamples o items, ∃ n, (some s, n) ∈ items ∧ n ≠ 0 ∧
      ¬ (o.removeEmpties = true ∧ (if o.stripOpt then strip s else s) = []) ∧
      (if o.stripOpt then strip s else s) ∈ (clean o.stripOpt o.removeEmpties items).strings := by
    intro s hs
    obtain ⟨n, hit, hn, hre⟩ := mem_keptExamples o items s hs
    exact ⟨n, hit, hn, hre, (clean_strings _ _ items _).2 ⟨s, n, hit, hn, rfl, hre⟩⟩
  by_cases hemp : (clean o.stripOpt o.removeEmpties items).strings = []
  · refine ⟨[], [], false, extract_empty T o items hemp, ?_⟩
    intro s hs
    obtain ⟨n, -, -, -, hmem⟩ := hkept s hs
    rw [hemp] at hmem
    cases hmem
  · obtain ⟨ps, E, hb, hm⟩ := batch_extract_sound T hT o hsz (clean o.stripOpt o.removeEmpties items)
    refine ⟨ps, E, decide ((clean o.stripOpt o.removeEmpties items).nStripped > 0), ?_, ?_⟩
    · rw [extract_of_batch T o items ps E hemp hb, badPatterns_nil o hprune]
      simp [range_filterMap_getElem?]
    · intro s hs
      obtain ⟨n, hit, hn, hre, hmem⟩ := hkept s hs
      obtain ⟨p, hp, hmatch⟩ := hm _ hmem
      refine ⟨p, hp, ?_⟩
      by_cases hso : o.stripOpt = true
      · rw [if_pos hso] at hmatch hre
        apply matches_unstrip T hT E _ p s _ hmatch
        intro hw
        have h0 : (clean o.stripOpt o.removeEmpties items).nStripped = 0 := by
          have := of_decide_eq_false hw
          omega
        exact clean_nStripped_zero _ _ items h0 s n hit hn hso hre
      · rw [if_neg hso] at hmatch
        exact hmatch

end TddaVerif.Props.C03.Lemmas
