/- Order facts about `Val.lt / Val.le / Val.eqv`, `minOf / maxOf` and `dedup` (owner: C02 prover). -/
import TddaVerif.Model.Constraints

namespace TddaVerif.Constraints.Order
open TddaVerif.Constraints

/-! ### `ltChars` is a strict total order on code-point lists -/

theorem ltChars_irrefl : ∀ a, ltChars a a = false
  | [] => rfl
  | a :: as => by simp [ltChars, ltChars_irrefl as]

theorem ltChars_trans : ∀ a b c, ltChars a b = true → ltChars b c = true → ltChars a c = true
  | [], [], _ => by simp [ltChars]
  | [], _ :: _, [] => by simp [ltChars]
  | [], _ :: _, _ :: _ => by simp [ltChars]
  | _ :: _, [], _ => by simp [ltChars]
  | _ :: _, _ :: _, [] => by simp [ltChars]
  | a :: as, b :: bs, c :: cs => by
    have ih := ltChars_trans as bs cs
    simp only [ltChars]
    intro h1 h2
    by_cases hab : a.toNat < b.toNat
    · by_cases hbc : b.toNat < c.toNat
      · have : a.toNat < c.toNat := by omega
        simp [this]
      · by_cases hcb : c.toNat < b.toNat
        · simp [hbc, hcb] at h2
        · have : a.toNat < c.toNat := by omega
          simp [this]
    · by_cases hba : b.toNat < a.toNat
      · simp [hab, hba] at h1
      · simp only [hab, hba, if_false] at h1
        by_cases hbc : b.toNat < c.toNat
        · have : a.toNat < c.toNat := by omega
          simp [this]
        · by_cases hcb : c.toNat < b.toNat
          · simp [hbc, hcb] at h2
          · simp only [hbc, hcb, if_false] at h2
            have h3 : ¬ a.toNat < c.toNat := by omega
            have h4 : ¬ c.toNat < a.toNat := by omega
            simp only [h3, h4, if_false]
            exact ih h1 h2

theorem ltChars_asymm (a b : List Char) (h : ltChars a b = true) : ltChars b a = false := by
  cases h' : ltChars b a with
  | false => rfl
  | true =>
    have := ltChars_trans a b a h h'
    rw [ltChars_irrefl] at this
    exact absurd this (by simp)

theorem ltChars_tri : ∀ a b, ltChars a b = true ∨ a = b ∨ ltChars b a = true
  | [], [] => by simp
  | [], _ :: _ => by simp [ltChars]
  | _ :: _, [] => by simp [ltChars]
  | a :: as, b :: bs => by
    simp only [ltChars]
    by_cases hab : a.toNat < b.toNat
    · simp [hab]
    · by_cases hba : b.toNat < a.toNat
      · simp [hba]
      · have : a = b := Char.toNat_inj.mp (by omega)
        subst this
        simp only [hab, if_false]
        rcases ltChars_tri as bs with h | h | h
        · exact Or.inl h
        · exact Or.inr (Or.inl (by rw [h]))
        · exact Or.inr (Or.inr h)

/-! ### `Val.eqv` is an equivalence, `Val.lt` a strict order compatible with it -/

theorem eqv_refl (v : Val) : v.eqv v = true := by
  cases v <;> simp [Val.eqv, Val.num]

theorem eqv_symm (a b : Val) (h : a.eqv b = true) : b.eqv a = true := by
  cases a <;> cases b <;> simp [Val.eqv, Val.num] at * <;> grind

theorem eqv_comm (a b : Val) : a.eqv b = b.eqv a := by
  cases h : a.eqv b with
  | true => exact (eqv_symm a b h).symm
  | false =>
    cases h' : b.eqv a with
    | false => rfl
    | true => rw [eqv_symm b a h'] at h; exact absurd h (by simp)

theorem eqv_trans (a b c : Val) (h1 : a.eqv b = true) (h2 : b.eqv c = true) : a.eqv c = true := by
  cases a <;> cases b <;> cases c <;> simp [Val.eqv, Val.num, -Rat.intCast_inj] at * <;> grind

theorem lt_irrefl (v : Val) : v.lt v = false := by
  cases v <;> simp [Val.lt, Val.num, ltChars_irrefl, Rat.lt_irrefl]

theorem lt_trans (a b c : Val) (h1 : a.lt b = true) (h2 : b.lt c = true) : a.lt c = true := by
  cases a <;> cases b <;> cases c <;> simp [Val.lt, Val.num] at * <;>
    first | exact ltChars_trans _ _ _ h1 h2 | grind

theorem lt_asymm (a b : Val) (h : a.lt b = true) : b.lt a = false := by
  cases h' : b.lt a with
  | false => rfl
  | true =>
    have := lt_trans a b a h h'
    rw [lt_irrefl] at this
    exact absurd this (by simp)

theorem lt_of_lt_of_eqv (a b c : Val) (h1 : a.lt b = true) (h2 : b.eqv c = true) : a.lt c = true := by
  cases a <;> cases b <;> cases c <;> simp [Val.lt, Val.eqv, Val.num] at * <;> grind

theorem lt_of_eqv_of_lt (a b c : Val) (h1 : a.eqv b = true) (h2 : b.lt c = true) : a.lt c = true := by
  cases a <;> cases b <;> cases c <;> simp [Val.lt, Val.eqv, Val.num] at * <;> grind

theorem lt_eqv_false (a b : Val) (h : a.lt b = true) : a.eqv b = false := by
  cases h' : a.eqv b with
  | false => rfl
  | true =>
    have := lt_of_lt_of_eqv a b a h (eqv_symm _ _ h')
    rw [lt_irrefl] at this
    exact absurd this (by simp)

theorem lt_coarse (a b : Val) (h : a.lt b = true) : a.coarse = b.coarse := by
  cases a <;> cases b <;> simp [Val.lt, Val.num, Val.coarse] at *

theorem eqv_coarse (a b : Val) (h : a.eqv b = true) : a.coarse = b.coarse := by
  cases a <;> cases b <;> simp [Val.eqv, Val.num, Val.coarse] at *

theorem le_coarse (a b : Val) (h : a.le b = true) : a.coarse = b.coarse := by
  simp only [Val.le, Bool.or_eq_true] at h
  rcases h with h | h
  · exact lt_coarse a b h
  · exact eqv_coarse a b h

/-- trichotomy on values of one coarse type -/
theorem lt_tri (a b : Val) (h : a.coarse = b.coarse) :
    a.lt b = true ∨ a.eqv b = true ∨ b.lt a = true := by
  cases a <;> cases b <;> simp [Val.lt, Val.eqv, Val.num, Val.coarse, -Rat.intCast_inj] at * <;>
    first
    | grind
    | (rename_i p q; rcases ltChars_tri p q with h | h | h <;> simp [h])

theorem le_refl (v : Val) : v.le v = true := by simp [Val.le, eqv_refl]

theorem le_of_lt (a b : Val) (h : a.lt b = true) : a.le b = true := by simp [Val.le, h]

theorem le_of_eqv (a b : Val) (h : a.eqv b = true) : a.le b = true := by simp [Val.le, h]

theorem le_trans (a b c : Val) (h1 : a.le b = true) (h2 : b.le c = true) : a.le c = true := by
  simp only [Val.le, Bool.or_eq_true] at *
  rcases h1 with h1 | h1 <;> rcases h2 with h2 | h2
  · exact Or.inl (lt_trans _ _ _ h1 h2)
  · exact Or.inl (lt_of_lt_of_eqv _ _ _ h1 h2)
  · exact Or.inl (lt_of_eqv_of_lt _ _ _ h1 h2)
  · exact Or.inr (eqv_trans _ _ _ h1 h2)

theorem lt_of_lt_of_le (a b c : Val) (h1 : a.lt b = true) (h2 : b.le c = true) : a.lt c = true := by
  simp only [Val.le, Bool.or_eq_true] at h2
  rcases h2 with h2 | h2
  · exact lt_trans _ _ _ h1 h2
  · exact lt_of_lt_of_eqv _ _ _ h1 h2

theorem lt_of_le_of_lt (a b c : Val) (h1 : a.le b = true) (h2 : b.lt c = true) : a.lt c = true := by
  simp only [Val.le, Bool.or_eq_true] at h1
  rcases h1 with h1 | h1
  · exact lt_trans _ _ _ h1 h2
  · exact lt_of_eqv_of_lt _ _ _ h1 h2

/-- on one coarse type, `¬ a < b` is `b ≤ a` -/
theorem not_lt_iff_le (a b : Val) (h : a.coarse = b.coarse) : a.lt b = false ↔ b.le a = true := by
  constructor
  · intro hn
    rcases lt_tri a b h with h' | h' | h'
    · rw [hn] at h'; exact absurd h' (by simp)
    · exact le_of_eqv _ _ (eqv_symm _ _ h')
    · exact le_of_lt _ _ h'
  · intro hle
    cases hlt : a.lt b with
    | false => rfl
    | true =>
      have := lt_of_lt_of_le a b a hlt hle
      rw [lt_irrefl] at this
      exact absurd this (by simp)

theorem le_total (a b : Val) (h : a.coarse = b.coarse) : a.le b = true ∨ b.le a = true := by
  rcases lt_tri a b h with h' | h' | h'
  · exact Or.inl (le_of_lt _ _ h')
  · exact Or.inl (le_of_eqv _ _ h')
  · exact Or.inr (le_of_lt _ _ h')

theorem le_antisymm (a b : Val) (h1 : a.le b = true) (h2 : b.le a = true) : a.eqv b = true := by
  simp only [Val.le, Bool.or_eq_true] at h1
  rcases h1 with h1 | h1
  · have := lt_of_lt_of_le a b a h1 h2
    rw [lt_irrefl] at this
    exact absurd this (by simp)
  · exact h1

/-! ### numeric views -/

theorem num_isSome_iff_coarse (v : Val) : v.num.isSome = true ↔ v.coarse = .number := by
  cases v <;> simp [Val.num, Val.coarse]

theorem lt_num (a b : Val) (p q : Rat) (ha : a.num = some p) (hb : b.num = some q) :
    a.lt b = decide (p < q) := by
  simp [Val.lt, ha, hb]

theorem eqv_num (a b : Val) (p q : Rat) (ha : a.num = some p) (hb : b.num = some q) :
    a.eqv b = (p == q) := by
  simp [Val.eqv, ha, hb]

theorem le_num (a b : Val) (p q : Rat) (ha : a.num = some p) (hb : b.num = some q) :
    a.le b = true ↔ p ≤ q := by
  simp only [Val.le, lt_num a b p q ha hb, eqv_num a b p q ha hb, Bool.or_eq_true, decide_eq_true_eq,
    beq_iff_eq]
  grind

theorem num_of_coarse (a b : Val) (p : Rat) (h : a.coarse = b.coarse) (ha : a.num = some p) :
    ∃ q, b.num = some q := by
  cases a <;> cases b <;> simp [Val.num, Val.coarse] at *

/-! ### `minOf` / `maxOf` -/

theorem minOf_eq_none (l : List Val) : minOf l = none ↔ l = [] := by
  cases l with
  | nil => simp [minOf]
  | cons v vs =>
    simp only [minOf]
    split <;> (try split) <;> simp

theorem maxOf_eq_none (l : List Val) : maxOf l = none ↔ l = [] := by
  cases l with
  | nil => simp [maxOf]
  | cons v vs =>
    simp only [maxOf]
    split <;> (try split) <;> simp

theorem minOf_mem : ∀ (l : List Val) (m : Val), minOf l = some m → m ∈ l
  | [], _ => by simp [minOf]
  | v :: vs, m => by
    have ih := minOf_mem vs
    simp only [minOf]
    split
    · intro h; simp at h; simp [h]
    · rename_i m' hm'
      split
      · intro h; simp at h; simp [h]
      · intro h; simp at h; subst h; exact List.mem_cons_of_mem _ (ih _ hm')

theorem maxOf_mem : ∀ (l : List Val) (m : Val), maxOf l = some m → m ∈ l
  | [], _ => by simp [maxOf]
  | v :: vs, m => by
    have ih := maxOf_mem vs
    simp only [maxOf]
    split
    · intro h; simp at h; simp [h]
    · rename_i m' hm'
      split
      · intro h; simp at h; simp [h]
      · intro h; simp at h; subst h; exact List.mem_cons_of_mem _ (ih _ hm')

/-- all values of the list have one coarse type -/
def SameCoarse (l : List Val) : Prop := ∀ x ∈ l, ∀ y ∈ l, x.coarse = y.coarse

theorem SameCoarse.tail {v : Val} {vs : List Val} (h : SameCoarse (v :: vs)) : SameCoarse vs :=
  fun x hx y hy => h x (List.mem_cons_of_mem _ hx) y (List.mem_cons_of_mem _ hy)

theorem minOf_le : ∀ (l : List Val) (m : Val), SameCoarse l → minOf l = some m →
    ∀ x ∈ l, m.le x = true
  | [], _ => by simp [minOf]
  | v :: vs, m => by
    intro hs
    have ih := minOf_le vs
    simp only [minOf]
    split
    · rename_i hnone
      have : vs = [] := (minOf_eq_none vs).mp hnone
      subst this
      intro h; simp at h; subst h
      intro x hx; simp at hx; subst hx; exact le_refl _
    · rename_i m' hm'
      have hm'mem : m' ∈ vs := minOf_mem vs m' hm'
      have ih' := ih m' hs.tail hm'
      split
      · rename_i hlt
        intro h; simp at h; subst h
        intro x hx
        rcases List.mem_cons.mp hx with hx | hx
        · subst hx; exact le_refl _
        · exact le_of_lt _ _ (lt_of_lt_of_le _ _ _ hlt (ih' x hx))
      · rename_i hnlt
        intro h; simp at h; subst h
        intro x hx
        rcases List.mem_cons.mp hx with hx | hx
        · subst hx
          have hc : x.coarse = m'.coarse := hs x (List.mem_cons_self) m' (List.mem_cons_of_mem _ hm'mem)
          exact (not_lt_iff_le x m' hc).mp (by simpa using hnlt)
        · exact ih' x hx

theorem maxOf_ge : ∀ (l : List Val) (m : Val), SameCoarse l → maxOf l = some m →
    ∀ x ∈ l, x.le m = true
  | [], _ => by simp [maxOf]
  | v :: vs, m => by
    intro hs
    have ih := maxOf_ge vs
    simp only [maxOf]
    split
    · rename_i hnone
      have : vs = [] := (maxOf_eq_none vs).mp hnone
      subst this
      intro h; simp at h; subst h
      intro x hx; simp at hx; subst hx; exact le_refl _
    · rename_i m' hm'
      have hm'mem : m' ∈ vs := maxOf_mem vs m' hm'
      have ih' := ih m' hs.tail hm'
      split
      · rename_i hlt
        intro h; simp at h; subst h
        intro x hx
        rcases List.mem_cons.mp hx with hx | hx
        · subst hx; exact le_refl _
        · exact le_of_lt _ _ (lt_of_le_of_lt _ _ _ (ih' x hx) hlt)
      · rename_i hnlt
        intro h; simp at h; subst h
        intro x hx
        rcases List.mem_cons.mp hx with hx | hx
        · subst hx
          have hc : m'.coarse = x.coarse := hs m' (List.mem_cons_of_mem _ hm'mem) x (List.mem_cons_self)
          exact (not_lt_iff_le m' x hc).mp (by simpa using hnlt)
        · exact ih' x hx

theorem minOf_not_lt (l : List Val) (m : Val) (hs : SameCoarse l) (h : minOf l = some m) :
    ∀ x ∈ l, x.lt m = false := fun x hx =>
  (not_lt_iff_le x m (hs x hx m (minOf_mem l m h))).mpr (minOf_le l m hs h x hx)

theorem maxOf_not_lt (l : List Val) (m : Val) (hs : SameCoarse l) (h : maxOf l = some m) :
    ∀ x ∈ l, m.lt x = false := fun x hx =>
  (not_lt_iff_le m x (hs m (maxOf_mem l m h) x hx)).mpr (maxOf_ge l m hs h x hx)

theorem minOf_isSome_iff_maxOf (l : List Val) : (minOf l).isSome = (maxOf l).isSome := by
  cases l with
  | nil => simp [minOf, maxOf]
  | cons v vs =>
    have h1 : minOf (v :: vs) ≠ none := fun h => by simpa using (minOf_eq_none _).mp h
    have h2 : maxOf (v :: vs) ≠ none := fun h => by simpa using (maxOf_eq_none _).mp h
    cases h3 : minOf (v :: vs) <;> cases h4 : maxOf (v :: vs) <;> simp_all

/-! ### well-formed columns -/

theorem wf_ftype (c : Column) (hwf : c.WF = true) : ∀ v ∈ c.nonNull, v.ftype = c.ftype := by
  intro v hv
  simp only [Column.WF, Bool.and_eq_true, List.all_eq_true] at hwf
  simpa using hwf.2 v hv

theorem wf_ne_other (c : Column) (hwf : c.WF = true) : c.ftype ≠ .other := by
  simp only [Column.WF, Bool.and_eq_true] at hwf
  simpa using hwf.1

theorem coarse_of_ftype (a b : Val) (h : a.ftype = b.ftype) : a.coarse = b.coarse := by
  cases a <;> cases b <;> simp [Val.ftype, Val.coarse] at *

theorem wf_sameCoarse (c : Column) (hwf : c.WF = true) : SameCoarse c.nonNull := by
  intro x hx y hy
  apply coarse_of_ftype
  rw [wf_ftype c hwf x hx, wf_ftype c hwf y hy]

theorem mem_nonNull (c : Column) (v : Val) : v ∈ c.nonNull ↔ some v ∈ c.cells := by
  simp [Column.nonNull, List.mem_filterMap]

/-! ### `dedup` -/

theorem mem_of_mem_dedup : ∀ (l : List Val) (v : Val), v ∈ dedup l → v ∈ l
  | [], _ => by simp [dedup]
  | x :: xs, v => by
    have ih := mem_of_mem_dedup xs v
    simp only [dedup]
    split
    · intro h; exact List.mem_cons_of_mem _ (ih h)
    · intro h
      rcases List.mem_cons.mp h with h | h
      · simp [h]
      · exact List.mem_cons_of_mem _ (ih h)

/-- every value has a representative in `dedup` -/
theorem exists_dedup_eqv : ∀ (l : List Val) (v : Val), v ∈ l → ∃ w ∈ dedup l, w.eqv v = true
  | [], _ => by simp
  | x :: xs, v => by
    have ih := exists_dedup_eqv xs
    intro hv
    simp only [dedup]
    rcases List.mem_cons.mp hv with hv | hv
    · subst hv
      split
      · rename_i hany
        simpa [List.any_eq_true] using hany
      · exact ⟨v, List.mem_cons_self, eqv_refl v⟩
    · obtain ⟨w, hw, hwv⟩ := ih v hv
      split
      · exact ⟨w, hw, hwv⟩
      · exact ⟨w, List.mem_cons_of_mem _ hw, hwv⟩

theorem dedup_any_eqv (l : List Val) (v : Val) :
    (dedup l).any (fun w => w.eqv v) = l.any (fun w => w.eqv v) := by
  rw [Bool.eq_iff_iff]
  simp only [List.any_eq_true]
  constructor
  · rintro ⟨w, hw, h⟩; exact ⟨w, mem_of_mem_dedup l w hw, h⟩
  · rintro ⟨w, hw, h⟩
    obtain ⟨w', hw', h'⟩ := exists_dedup_eqv l w hw
    exact ⟨w', hw', eqv_trans _ _ _ h' h⟩

theorem dedup_length_le : ∀ l : List Val, (dedup l).length ≤ l.length
  | [] => by simp [dedup]
  | x :: xs => by
    have ih := dedup_length_le xs
    simp only [dedup]
    split <;> simp <;> omega

/-- `dedup` removes nothing exactly when no two values are equal -/
theorem dedup_length_eq_iff : ∀ l : List Val,
    (dedup l).length = l.length ↔ l.Pairwise (fun a b => a.eqv b = false)
  | [] => by simp [dedup]
  | x :: xs => by
    have ih := dedup_length_eq_iff xs
    have hle := dedup_length_le xs
    rw [List.pairwise_cons]
    simp only [dedup]
    split
    · rename_i hany
      rw [dedup_any_eqv] at hany
      simp only [List.any_eq_true] at hany
      obtain ⟨w, hw, hwx⟩ := hany
      constructor
      · intro h; simp at h; omega
      · rintro ⟨h, _⟩
        have := h w hw
        rw [eqv_comm, hwx] at this
        exact absurd this (by simp)
    · rename_i hany
      rw [dedup_any_eqv] at hany
      simp only [List.length_cons, Nat.add_right_cancel_iff]
      rw [ih]
      constructor
      · intro h
        refine ⟨fun w hw => ?_, h⟩
        cases hxw : x.eqv w with
        | false => rfl
        | true =>
          exfalso; apply hany
          simp only [List.any_eq_true]
          exact ⟨w, hw, eqv_symm _ _ hxw⟩
      · exact fun h => h.2

theorem dedup_pairwise : ∀ l : List Val, (dedup l).Pairwise (fun a b => a.eqv b = false)
  | [] => by simp [dedup]
  | x :: xs => by
    have ih := dedup_pairwise xs
    simp only [dedup]
    split
    · exact ih
    · rename_i hany
      rw [List.pairwise_cons]
      refine ⟨fun w hw => ?_, ih⟩
      cases hxw : x.eqv w with
      | false => rfl
      | true =>
        exfalso; apply hany
        simp only [List.any_eq_true]
        exact ⟨w, hw, eqv_symm _ _ hxw⟩

/-- a predicate that respects `eqv` holds on `dedup l` iff it holds on `l` -/
theorem dedup_all (p : Val → Bool) (hp : ∀ a b, a.eqv b = true → p a = true → p b = true)
    (l : List Val) : (dedup l).all p = l.all p := by
  rw [Bool.eq_iff_iff]
  simp only [List.all_eq_true]
  constructor
  · intro h v hv
    obtain ⟨w, hw, hwv⟩ := exists_dedup_eqv l v hv
    exact hp w v hwv (h w hw)
  · intro h v hv
    exact h v (mem_of_mem_dedup l v hv)

/-- pigeonhole: pairwise different values each matched by some element of `vs` -/
theorem length_le_of_matched : ∀ (l vs : List Val),
    l.Pairwise (fun a b => a.eqv b = false) → (∀ u ∈ l, ∃ a ∈ vs, a.eqv u = true) →
    l.length ≤ vs.length
  | [], _ => by simp
  | u :: us, vs => by
    intro hp hm
    rw [List.pairwise_cons] at hp
    obtain ⟨a, ha, hau⟩ := hm u List.mem_cons_self
    have ih := length_le_of_matched us (vs.erase a) hp.2 (by
      intro u' hu'
      obtain ⟨a', ha', hau'⟩ := hm u' (List.mem_cons_of_mem _ hu')
      refine ⟨a', ?_, hau'⟩
      have hne : a' ≠ a := by
        intro heq
        subst heq
        have := hp.1 u' hu'
        rw [eqv_trans _ _ _ (eqv_symm _ _ hau) hau'] at this
        exact absurd this (by simp)
      exact (List.mem_erase_of_ne hne).mpr ha')
    rw [List.length_erase_of_mem ha] at ih
    have : 0 < vs.length := List.length_pos_of_mem ha
    simp only [List.length_cons]
    omega

end TddaVerif.Constraints.Order
