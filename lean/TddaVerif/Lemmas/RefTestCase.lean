/- Helper lemmas for C19 / C10 (argv scanner, tagged loader, regeneration table).
   Proofs: argv scanner in Lemmas/Argv.lean, loader in Lemmas/Loader.lean. -/
import TddaVerif.Model.RefTestCase
import TddaVerif.Props.C19Spec
import TddaVerif.Lemmas.Argv
import TddaVerif.Lemmas.Loader

namespace TddaVerif.Props.C19.Lemmas
open TddaVerif.Py TddaVerif.RefTestCase TddaVerif.Props.C19

theorem parseArgv_spec (c : Cmd) (h : c.WF = true) : parseArgv c.render = .ok c.meaning :=
  parseArgv_spec' c h

theorem write_needs_kinds (prog : Arg) (toks : List Tok) (s : Nat)
    (h : (Cmd.mk prog toks none).WF = true) :
    parseArgv (prog :: toks.map Tok.render ++ [writeSpelling s]) = .error .writeNeedsParams :=
  write_needs_kinds' prog toks s h

theorem tagged_selects_exactly (cs : List TestClass) (hac : Acyclic cs)
    (hd : ∀ c ∈ cs, (c.own.map (·.1)).Nodup) (i : Nat) (hi : i < cs.length)
    (m : Arg) : m ∈ testNames cs i true ↔ CarriesTag cs i m :=
  tagged_selects_exactly' cs hac hd i hi m

theorem untagged_selects_all (cs : List TestClass) (hac : Acyclic cs) (i : Nat) (hi : i < cs.length)
    (m : Arg) : m ∈ testNames cs i false ↔ ∃ tg, Visible cs i m tg :=
  untagged_selects_all' cs hac i hi m

theorem selected_once (cs : List TestClass) (_hac : Acyclic cs)
    (hd : ∀ c ∈ cs, (c.own.map (·.1)).Nodup) (i : Nat) (_hi : i < cs.length) (tagged : Bool) :
    (testNames cs i tagged).Nodup :=
  selected_once' cs hd i tagged

theorem check_lists_exactly (cs : List TestClass) (hac : Acyclic cs)
    (hd : ∀ c ∈ cs, (c.own.map (·.1)).Nodup) (n : Arg) :
    n ∈ listedClasses cs true ↔
      ∃ i c, cs[i]? = some c ∧ c.name = n ∧ ∃ m, CarriesTag cs i m :=
  check_lists_exactly' cs hac hd n

theorem selectTests_mem (cs : List TestClass) (tagged : Bool) (n m : Arg) :
    (n, m) ∈ selectTests cs tagged false ↔
      ∃ i c, cs[i]? = some c ∧ c.name = n ∧ m ∈ testNames cs i tagged :=
  selectTests_mem' cs tagged n m

end TddaVerif.Props.C19.Lemmas
