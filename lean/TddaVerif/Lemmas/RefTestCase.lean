/- Helper lemmas for C19 / C10 (argv scanner, tagged loader, regeneration table). -/
import TddaVerif.Model.RefTestCase
import TddaVerif.Props.C19Spec

namespace TddaVerif.Props.C19.Lemmas
open TddaVerif.Py TddaVerif.RefTestCase TddaVerif.Props.C19

theorem parseArgv_spec (c : Cmd) (h : c.WF = true) : parseArgv c.render = .ok c.meaning := by
  sorry

theorem write_needs_kinds (prog : Arg) (toks : List Tok) (s : Nat)
    (h : (Cmd.mk prog toks none).WF = true) :
    parseArgv (prog :: toks.map Tok.render ++ [writeSpelling s]) = .error .writeNeedsParams := by
  sorry

theorem tagged_selects_exactly (cs : List TestClass) (hac : Acyclic cs)
    (hd : ∀ c ∈ cs, (c.own.map (·.1)).Nodup) (i : Nat) (hi : i < cs.length)
    (m : Arg) : m ∈ testNames cs i true ↔ CarriesTag cs i m := by
  sorry

theorem untagged_selects_all (cs : List TestClass) (hac : Acyclic cs) (i : Nat) (hi : i < cs.length)
    (m : Arg) : m ∈ testNames cs i false ↔ ∃ tg, Visible cs i m tg := by
  sorry

theorem selected_once (cs : List TestClass) (hac : Acyclic cs)
    (hd : ∀ c ∈ cs, (c.own.map (·.1)).Nodup) (i : Nat) (hi : i < cs.length) (tagged : Bool) :
    (testNames cs i tagged).Nodup := by
  sorry

theorem check_lists_exactly (cs : List TestClass) (hac : Acyclic cs)
    (hd : ∀ c ∈ cs, (c.own.map (·.1)).Nodup) (n : Arg) :
    n ∈ listedClasses cs true ↔
      ∃ i c, cs[i]? = some c ∧ c.name = n ∧ ∃ m, CarriesTag cs i m := by
  sorry

theorem selectTests_mem (cs : List TestClass) (tagged : Bool) (n m : Arg) :
    (n, m) ∈ selectTests cs tagged false ↔
      ∃ i c, cs[i]? = some c ∧ c.name = n ∧ m ∈ testNames cs i tagged := by
  sorry

end TddaVerif.Props.C19.Lemmas
