/- Stage lemmas for rexpy, part A: the backtracking matcher and the coarse classification. -/
import TddaVerif.Model.Rexpy
import TddaVerif.Props.C03Spec

namespace TddaVerif.Props.C03.Lemmas
open TddaVerif.Py TddaVerif.Rexpy TddaVerif.Props.C03

/-! ### pieces -/

/-- the pieces `caps` are accepted, one by one, by the fragments of `p` -/
def PiecesOK (T : CharTable) (E : List Char) : Pattern → List Line → Prop
  | [], [] => True
  | f :: fs, g :: gs => fragAccepts T E f g = true ∧ PiecesOK T E fs gs
  | _, _ => False

theorem piecesOK_iff (T : CharTable) (E : List Char) (p : Pattern) (caps : List Line) :
    PiecesOK T E p caps ↔ caps.length = p.length ∧
      ∀ i, i < p.length → fragAccepts T E (p.getD i ⟨.code ' ', 0, none, false⟩) (caps.getD i []) = true := by
  induction p generalizing caps with
  | nil => cases caps <;> simp [PiecesOK]
  | cons f fs ih =>
    cases caps with
    | nil => simp [PiecesOK]
    | cons g gs =>
      simp only [PiecesOK, ih, List.length_cons, Nat.add_right_cancel_iff]
      constructor
      · rintro ⟨h1, h2, h3⟩
        refine ⟨h2, fun i hi => ?_⟩
        cases i with
        | zero => simpa using h1
        | succ i => simpa using h3 i (by omega)
      · rintro ⟨h1, h2⟩
        refine ⟨by simpa using h2 0 (by omega), h1, fun i hi => ?_⟩
        simpa using h2 (i + 1) (by omega)

theorem matches_of_piecesOK (T : CharTable) (E : List Char) (p : Pattern) (caps : List Line)
    (h : PiecesOK T E p caps) : Matches T E p caps.flatten := by
  induction p generalizing caps with
  | nil => cases caps <;> simp [PiecesOK] at h ⊢; exact Matches.nil
  | cons f fs ih =>
    cases caps with
    | nil => simp [PiecesOK] at h
    | cons g gs =>
      simp only [PiecesOK] at h
      simp only [List.flatten_cons]
      exact Matches.cons f fs g gs.flatten h.1 (ih gs h.2)

theorem piecesOK_of_matches (T : CharTable) (E : List Char) (p : Pattern) (s : Line)
    (h : Matches T E p s) : ∃ caps : List Line, caps.flatten = s ∧ PiecesOK T E p caps := by
  induction h with
  | nil => exact ⟨[], rfl, trivial⟩
  | cons f fs g rest hacc _ ih =>
    obtain ⟨caps, hc, hp⟩ := ih
    exact ⟨g :: caps, by simp [hc], hacc, hp⟩

/-! ### the matcher -/

theorem fragAccepts_iff (T : CharTable) (E : List Char) (f : Frag) (hf : ∀ lit, f.atom ≠ .escStr lit)
    (g : Line) :
    fragAccepts T E f g = true ↔
      f.lo ≤ g.length ∧ (∀ M, f.M = some M → g.length ≤ M) ∧ ∀ c ∈ g, atomChar T E f.atom c = true := by
  unfold fragAccepts
  cases hfa : f.atom <;> cases hM : f.M <;> simp_all [and_assoc]

theorem takeUpTo_spec (p : Char → Bool) (Mx : Nat) (s : Line) (n : Nat) (h : n ≤ takeUpTo p Mx s) :
    n ≤ Mx ∧ n ≤ s.length ∧ ∀ c ∈ s.take n, p c = true := by
  induction Mx generalizing s n with
  | zero => simp [takeUpTo] at h; subst h; simp
  | succ Mx ih =>
    cases s with
    | nil => simp [takeUpTo] at h; subst h; simp
    | cons c cs =>
      cases n with
      | zero => simp
      | succ n =>
        simp only [takeUpTo] at h
        split at h
        · obtain ⟨h1, h2, h3⟩ := ih cs n (by omega)
          refine ⟨by omega, by simp; omega, ?_⟩
          intro x hx
          simp only [List.take_succ_cons, List.mem_cons] at hx
          rcases hx with rfl | hx
          · assumption
          · exact h3 x hx
        · omega

theorem takeUpTo_ge (p : Char → Bool) (Mx : Nat) (s : Line) (n : Nat) (h1 : n ≤ Mx) (h2 : n ≤ s.length)
    (h3 : ∀ c ∈ s.take n, p c = true) : n ≤ takeUpTo p Mx s := by
  induction Mx generalizing s n with
  | zero => omega
  | succ Mx ih =>
    cases n with
    | zero => omega
    | succ n =>
      cases s with
      | nil => simp at h2
      | cons c cs =>
        simp only [List.take_succ_cons, List.mem_cons, forall_eq_or_imp] at h3
        simp only [takeUpTo, h3.1, if_true]
        have := ih cs n (by omega) (by simpa using h2) h3.2
        omega

theorem isPrefix_eq (lit s : Line) (h : isPrefix lit s = true) : s = lit ++ s.drop lit.length := by
  induction lit generalizing s with
  | nil => simp
  | cons a as ih =>
    cases s with
    | nil => simp [isPrefix] at h
    | cons b bs =>
      simp only [isPrefix, Bool.and_eq_true, beq_iff_eq] at h
      obtain ⟨rfl, h⟩ := h
      simpa using ih bs h

theorem isPrefix_append (lit r : Line) : isPrefix lit (lit ++ r) = true := by
  induction lit with
  | nil => simp [isPrefix]
  | cons a as ih => simp [isPrefix, ih]

theorem tryCounts_sound (T : CharTable) (E : List Char) (f : Frag) (fs : List Frag) (s : Line)
    (ih : ∀ s caps, matchCap T E fs s = some caps → caps.flatten = s ∧ PiecesOK T E fs caps)
    (k : Nat) (caps : List Line) (h : tryCounts T E f fs s k = some caps) :
    ∃ j r, j ≤ k ∧ f.lo ≤ j ∧ caps = s.take j :: r ∧ r.flatten = s.drop j ∧ PiecesOK T E fs r := by
  induction k with
  | zero =>
    rw [tryCounts] at h
    split at h
    · rename_i hlo
      cases hm : matchCap T E fs s with
      | none => simp [hm] at h
      | some r =>
        simp [hm] at h
        obtain ⟨h1, h2⟩ := ih s r hm
        exact ⟨0, r, by omega, by simpa using hlo, by simp [h], by simpa using h1, h2⟩
    · simp at h
  | succ k ihk =>
    rw [tryCounts] at h
    split at h
    · simp at h
    · rename_i hlo
      split at h
      · rename_i r hm
        simp at h
        obtain ⟨h1, h2⟩ := ih _ r hm
        exact ⟨k + 1, r, by omega, by omega, h.symm, h1, h2⟩
      · obtain ⟨j, r, h1, h2⟩ := ihk h
        exact ⟨j, r, by omega, h2⟩

theorem matchCap_piecesOK (T : CharTable) (E : List Char) (p : Pattern) (s : Line) (caps : List Line)
    (h : matchCap T E p s = some caps) : caps.flatten = s ∧ PiecesOK T E p caps := by
  induction p generalizing s caps with
  | nil =>
    rw [matchCap] at h
    split at h
    · cases s <;> simp_all [PiecesOK]
    · simp at h
  | cons f fs ih =>
    rw [matchCap] at h
    split at h
    · rename_i lit hlit
      split at h
      · rename_i hpre
        cases hm : matchCap T E fs (s.drop lit.length) with
        | none => simp [hm] at h
        | some r =>
          simp [hm] at h
          obtain ⟨h1, h2⟩ := ih _ r hm
          subst h
          refine ⟨?_, ?_, h2⟩
          · simp only [List.flatten_cons, h1]
            exact (isPrefix_eq lit s hpre).symm
          · simp [fragAccepts, hlit]
      · simp at h
    · rename_i hne
      obtain ⟨j, r, h1, h2, h3, h4, h5⟩ := tryCounts_sound T E f fs s ih _ caps h
      subst h3
      refine ⟨by simp [h4], ?_, h5⟩
      obtain ⟨t1, t2, t3⟩ := takeUpTo_spec _ _ _ _ h1
      rw [fragAccepts_iff T E f (fun lit hl => hne lit hl)]
      refine ⟨by simp; omega, ?_, t3⟩
      intro M hM
      simp only [hM] at t1
      simp; omega

theorem tryCounts_complete (T : CharTable) (E : List Char) (f : Frag) (fs : List Frag) (s : Line) (j : Nat)
    (hlo : f.lo ≤ j) (hrest : (matchCap T E fs (s.drop j)).isSome = true) (k : Nat) (hk : j ≤ k) :
    (tryCounts T E f fs s k).isSome = true := by
  induction k with
  | zero =>
    obtain rfl : j = 0 := by omega
    rw [tryCounts]
    have : f.lo = 0 := by omega
    simpa [this] using hrest
  | succ k ih =>
    rw [tryCounts]
    rw [if_neg (by omega)]
    split
    · rfl
    · rename_i hm
      apply ih
      rcases Nat.lt_or_ge j (k + 1) with h | h
      · omega
      · obtain rfl : j = k + 1 := by omega
        simp [hm] at hrest

theorem matchCap_sound (T : CharTable) (E : List Char) (p : Pattern) (s : Line) (caps : List Line)
    (h : matchCap T E p s = some caps) :
    caps.flatten = s ∧ caps.length = p.length ∧
    (∀ i, i < p.length → fragAccepts T E (p.getD i ⟨.code ' ', 0, none, false⟩) (caps.getD i []) = true) ∧
    Matches T E p s := by
  obtain ⟨h1, h2⟩ := matchCap_piecesOK T E p s caps h
  obtain ⟨h3, h4⟩ := (piecesOK_iff T E p caps).1 h2
  exact ⟨h1, h3, h4, h1 ▸ matches_of_piecesOK T E p caps h2⟩

theorem matchCap_complete (T : CharTable) (E : List Char) (p : Pattern) (s : Line)
    (h : Matches T E p s) : (matchCap T E p s).isSome = true := by
  induction h with
  | nil => simp [matchCap]
  | cons f fs g rest hacc _ ih =>
    rw [matchCap]
    split
    · rename_i lit hlit
      simp only [fragAccepts, hlit, beq_iff_eq] at hacc
      subst hacc
      simp [isPrefixStr, isPrefix_append, ih]
    · rename_i hne
      rw [fragAccepts_iff T E f (fun lit hl => hne lit hl)] at hacc
      obtain ⟨a1, a2, a3⟩ := hacc
      apply tryCounts_complete T E f fs (g ++ rest) g.length a1 (by simpa using ih)
      apply takeUpTo_ge
      · split
        · rename_i M hM; exact a2 M hM
        · simp
      · simp
      · simpa using a3

/-- `Matches` from explicit pieces -/
theorem matches_of_pieces (T : CharTable) (E : List Char) (p : Pattern) (caps : List Line)
    (hl : caps.length = p.length)
    (h : ∀ i, i < p.length → fragAccepts T E (p.getD i ⟨.code ' ', 0, none, false⟩) (caps.getD i []) = true) :
    Matches T E p caps.flatten :=
  matches_of_piecesOK T E p caps ((piecesOK_iff T E p caps).2 ⟨hl, h⟩)

/-- and back: a match gives pieces -/
theorem pieces_of_matches (T : CharTable) (E : List Char) (p : Pattern) (s : Line) (h : Matches T E p s) :
    ∃ caps : List Line, caps.flatten = s ∧ caps.length = p.length ∧
      ∀ i, i < p.length → fragAccepts T E (p.getD i ⟨.code ' ', 0, none, false⟩) (caps.getD i []) = true := by
  obtain ⟨caps, h1, h2⟩ := piecesOK_of_matches T E p s h
  exact ⟨caps, h1, (piecesOK_iff T E p caps).1 h2⟩

/-- matching is compositional -/
theorem matches_append (T : CharTable) (E : List Char) (p q : Pattern) (s t : Line)
    (hp : Matches T E p s) (hq : Matches T E q t) : Matches T E (p ++ q) (s ++ t) := by
  induction hp with
  | nil => simpa using hq
  | cons f fs g rest hacc _ ih =>
    rw [List.cons_append, List.append_assoc]
    exact Matches.cons f (fs ++ q) g (rest ++ t) hacc ih

/-! ### categories -/

section cats
set_option linter.unusedSimpArgs false

local macro "cat_simp" : tactic =>
  `(tactic| simp [inCat, cLETTER, cletter, cLetter, cULetter, cLETTER_, cletter_, cLetter_, cULetter_, cDigit,
      chex, cHEX, cHex, cALPHANUMERIC, calphanumeric, cAlphaNumeric, cUAlpha, cWhite, cPunc, cOther, cAny])

variable (T : CharTable) (E : List Char) (c : Char)

theorem inCat_cLETTER : inCat T E cLETTER c = asciiUpper c := by cat_simp
theorem inCat_cletter : inCat T E cletter c = asciiLower c := by cat_simp
theorem inCat_cLETTER_ : inCat T E cLETTER_ c = (asciiUpper c || E.contains c) := by cat_simp
theorem inCat_cULetter_ : inCat T E cULetter_ c =
    ((T.w c && !asciiDigit c && (c != '_' || E.contains '_')) || (E.filter (· != '_')).contains c) := by
  cat_simp
theorem inCat_cDigit : inCat T E cDigit c = T.d c := by cat_simp
theorem inCat_cUAlpha : inCat T E cUAlpha c =
    ((T.w c && (c != '_' || E.contains '_')) || (E.filter (· != '_')).contains c) := by cat_simp
theorem inCat_cWhite : inCat T E cWhite c = T.s c := by cat_simp
theorem inCat_cPunc : inCat T E cPunc c =
    (32 ≤ c.toNat && c.toNat ≤ 126 &&
      !(asciiUpper c || asciiLower c || asciiDigit c || T.s c || E.contains c)) := by cat_simp
theorem inCat_cOther : inCat T E cOther c = (!(33 ≤ c.toNat && c.toNat ≤ 126) && !T.s c) := by cat_simp
theorem inCat_cAny : inCat T E cAny c = true := by cat_simp

end cats

theorem mem_normExtras (E : List Char) (hE : E = normExtras E) (c : Char) (h : c ∈ E) :
    c = '_' ∨ c = '.' ∨ c = '-' := by
  rw [hE] at h
  simp only [normExtras, List.mem_filter, List.mem_cons, List.not_mem_nil, or_false] at h
  exact h.1

theorem coarse_sound (T : CharTable) (hT : Consistent T) (E : List Char) (hE : E = normExtras E) (c : Char) :
    inCat T E (coarse T E c) c = true := by
  have _ := hE
  unfold coarse
  split
  · assumption
  · split
    · assumption
    · split
      · assumption
      · rename_i h1 h2 h3
        rw [inCat_cUAlpha] at h1
        rw [inCat_cWhite] at h2
        rw [inCat_cPunc] at h3
        rw [inCat_cOther]
        have h2' : T.s c = false := by simpa using h2
        simp only [h2', Bool.not_false, Bool.and_true, Bool.not_eq_true', Bool.and_eq_false_iff,
          decide_eq_false_iff_not]
        by_cases hr : 33 ≤ c.toNat ∧ c.toNat ≤ 126
        · exfalso
          obtain ⟨hr1, hr2⟩ := hr
          have hr0 : 32 ≤ c.toNat := by omega
          simp [h2', hr0, hr2] at h3
          simp at h1
          obtain ⟨hw, hin⟩ := h1
          by_cases hal : asciiUpper c = true ∨ asciiLower c = true ∨ asciiDigit c = true
          · have hwc : T.w c = true := hT.1 c (by rcases hal with h | h | h <;> simp [h])
            obtain ⟨rfl, -⟩ := hw hwc
            revert hal; decide
          · have hcE : c ∈ E := h3 (by simpa using fun h => hal (Or.inl h))
              (by simpa using fun h => hal (Or.inr (Or.inl h)))
              (by simpa using fun h => hal (Or.inr (Or.inr h)))
            have hc := hin hcE
            subst hc
            exact (hw (hT.1 '_' (by simp))).2 hcE
        · omega

/-- fine_class is sound for alphanumeric characters: the class it names accepts the character -/
theorem fineClass_sound (T : CharTable) (hT : Consistent T) (E : List Char) (hE : E = normExtras E) (c : Char)
    (hc : inCat T E cUAlpha c = true) : inCat T E (fineClass T E c) c = true := by
  have _ := hE
  unfold fineClass
  split
  · rw [inCat_cDigit]; assumption
  · split
    · rw [inCat_cletter]; assumption
    · split
      · rw [inCat_cLETTER]; assumption
      · split
        · rename_i hcE; rw [inCat_cLETTER_, hcE]; simp
        · rename_i hd _ _ _
          rw [inCat_cULetter_]
          rw [inCat_cUAlpha] at hc
          have hnd : asciiDigit c = false := by
            cases h : asciiDigit c with
            | false => rfl
            | true => exact absurd (hT.2.1 c h) hd
          simpa [hnd] using hc

end TddaVerif.Props.C03.Lemmas
