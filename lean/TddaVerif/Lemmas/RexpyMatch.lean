/- Stage lemmas for rexpy, part A: the backtracking matcher and the coarse classification. -/
import TddaVerif.Model.Rexpy
import TddaVerif.Props.C03Spec

namespace TddaVerif.Props.C03.Lemmas
open TddaVerif.Py TddaVerif.Rexpy TddaVerif.Props.C03

theorem matchCap_sound (T : CharTable) (E : List Char) (p : Pattern) (s : Line) (caps : List Line)
    (h : matchCap T E p s = some caps) :
    caps.flatten = s ∧ caps.length = p.length ∧
    (∀ i, i < p.length → fragAccepts T E (p.getD i ⟨.code ' ', 0, none, false⟩) (caps.getD i []) = true) ∧
    Matches T E p s := by
  sorry

theorem matchCap_complete (T : CharTable) (E : List Char) (p : Pattern) (s : Line)
    (h : Matches T E p s) : (matchCap T E p s).isSome = true := by
  sorry

theorem coarse_sound (T : CharTable) (hT : Consistent T) (E : List Char) (hE : E = normExtras E) (c : Char) :
    inCat T E (coarse T E c) c = true := by
  sorry

/-- `Matches` from explicit pieces -/
theorem matches_of_pieces (T : CharTable) (E : List Char) (p : Pattern) (caps : List Line)
    (hl : caps.length = p.length)
    (h : ∀ i, i < p.length → fragAccepts T E (p.getD i ⟨.code ' ', 0, none, false⟩) (caps.getD i []) = true) :
    Matches T E p caps.flatten := by
  sorry

/-- and back: a match gives pieces -/
theorem pieces_of_matches (T : CharTable) (E : List Char) (p : Pattern) (s : Line) (h : Matches T E p s) :
    ∃ caps : List Line, caps.flatten = s ∧ caps.length = p.length ∧
      ∀ i, i < p.length → fragAccepts T E (p.getD i ⟨.code ' ', 0, none, false⟩) (caps.getD i []) = true := by
  sorry

/-- matching is compositional -/
theorem matches_append (T : CharTable) (E : List Char) (p q : Pattern) (s t : Line)
    (hp : Matches T E p s) (hq : Matches T E q t) : Matches T E (p ++ q) (s ++ t) := by
  sorry

/-- fine_class is sound for alphanumeric characters: the class it names accepts the character -/
theorem fineClass_sound (T : CharTable) (hT : Consistent T) (E : List Char) (hE : E = normExtras E) (c : Char)
    (hc : inCat T E cUAlpha c = true) : inCat T E (fineClass T E c) c = true := by
  sorry

end TddaVerif.Props.C03.Lemmas
