/- Proofs about the temporary-directory model (Model/TmpDir.lean). -/
import TddaVerif.Model.TmpDir

namespace TddaVerif.TmpDir.Lemmas
open TddaVerif.TmpDir

theorem explicit_dir_wins (d : Path) (env : Option Path) (sys : Path) (h : d ≠ []) :
    tmpDir (some (some d)) env sys = d := by
  cases d with
  | nil => exact absurd rfl h
  | cons c cs => rfl

theorem env_dir_when_unset (d sys : Path) (h : d ≠ []) : tmpDir none (some d) sys = d := by
  cases d with
  | nil => exact absurd rfl h
  | cons c cs => rfl

theorem system_dir_otherwise (sys : Path) :
    tmpDir none none sys = sys ∧ tmpDir (some none) none sys = sys ∧ tmpDir (some (some [])) none sys = sys
    ∧ ∀ env, tmpDir (some none) env sys = sys := by
  refine ⟨?_, rfl, rfl, fun _ => rfl⟩
  cases sys <;> rfl

theorem mem_takeWhile_sat {α} (q : α → Bool) : ∀ (l : List α) (x : α), x ∈ l.takeWhile q → q x = true
  | [], _, h => by simp at h
  | a :: l, x, h => by
    rw [List.takeWhile_cons] at h
    split at h
    · rcases List.mem_cons.mp h with rfl | h'
      · assumption
      · exact mem_takeWhile_sat q l x h'
    · simp at h

theorem basename_no_sep (p : Path) : '/' ∉ basename p := by
  unfold basename
  intro h
  have h2 := List.mem_reverse.mp h
  have := mem_takeWhile_sat _ _ _ h2
  simp at this

theorem commonName_no_sep (c : Call) : '/' ∉ commonName c := by
  unfold commonName
  split
  · exact basename_no_sep _
  · split
    · exact basename_no_sep _
    · split
      · exact basename_no_sep _
      · decide

theorem writtenNames_shape (c : Call) : ∀ n ∈ writtenNames c,
    n = "expected-raw-".toList ++ commonName c ∨ n = "actual-raw-".toList ++ commonName c ∨
    n = "actual-".toList ++ commonName c ∨ n = "expected-".toList ++ commonName c := by
  intro n hn
  unfold writtenNames at hn
  split at hn
  · simp at hn
  · simp only [List.mem_append] at hn
    rcases hn with hn | hn
    · split at hn
      · simp at hn
      · simp only [List.mem_append] at hn
        rcases hn with hn | hn
        · split at hn
          · simp at hn; exact Or.inl hn
          · simp at hn
        · split at hn
          · simp at hn; exact Or.inr (Or.inl hn)
          · simp at hn
    · split at hn
      · simp at hn
        rcases hn with hn | hn
        · exact Or.inr (Or.inr (Or.inl hn))
        · exact Or.inr (Or.inr (Or.inr hn))
      · simp at hn

theorem join_child (d name : Path) (h0 : name ≠ []) (hs : '/' ∉ name) : ChildOf d (join d name) := by
  refine ⟨name, h0, hs, ?_⟩
  unfold join
  have hh : name.head? ≠ some '/' := by
    intro h
    cases name with
    | nil => exact h0 rfl
    | cons c cs => simp at h; subst h; simp at hs
  simp only [hh, if_false]
  split
  · right; exact ⟨rfl, by assumption⟩
  · left; rfl

theorem written_inside (d : Path) (c : Call) : ∀ p ∈ written d c, ChildOf d p := by
  intro p hp
  unfold written at hp
  obtain ⟨n, hn, rfl⟩ := List.mem_map.mp hp
  have hc := commonName_no_sep c
  apply join_child
  · rcases writtenNames_shape c n hn with h | h | h | h <;> subst h <;> simp
  · rcases writtenNames_shape c n hn with h | h | h | h <;> subst h <;>
      simp only [List.mem_append, not_or] <;> exact ⟨by decide, hc⟩

theorem no_temporaries_writes_nothing (d : Path) (c : Call) (h : c.createTemporaries = false) : written d c = [] := by
  simp [written, writtenNames, h]

theorem writtenNames_nodup (c : Call) : (writtenNames c).Nodup := by
  have l1 : "actual-raw-".toList ++ commonName c ≠ "actual-".toList ++ commonName c := by
    intro h; have := congrArg List.length h; simp at this; omega
  have l2 : "expected-raw-".toList ++ commonName c ≠ "expected-".toList ++ commonName c := by
    intro h; have := congrArg List.length h; simp at this; omega
  have l3 : "expected-raw-".toList ++ commonName c ≠ "actual-raw-".toList ++ commonName c := by
    intro h; have := congrArg List.head? h; simp at this
  have l4 : "expected-raw-".toList ++ commonName c ≠ "actual-".toList ++ commonName c := by
    intro h; have := congrArg List.head? h; simp at this
  have l5 : "actual-raw-".toList ++ commonName c ≠ "expected-".toList ++ commonName c := by
    intro h; have := congrArg List.head? h; simp at this
  have l6 : "actual-".toList ++ commonName c ≠ "expected-".toList ++ commonName c := by
    intro h; have := congrArg List.head? h; simp at this
  unfold writtenNames
  split
  · exact List.nodup_nil
  · split <;> split <;> (try split) <;> (try split) <;>
      simp_all [List.nodup_cons]

theorem join_injective (d a b : Path) (ha : '/' ∉ a) (hb : '/' ∉ b) (ha0 : a ≠ []) (hb0 : b ≠ [])
    (h : join d a = join d b) : a = b := by
  have hh : ∀ n : Path, n ≠ [] → '/' ∉ n → n.head? ≠ some '/' := by
    intro n h0 hs h
    cases n with
    | nil => exact h0 rfl
    | cons c cs => simp at h; subst h; simp at hs
  unfold join at h
  simp only [hh a ha0 ha, hh b hb0 hb, if_false] at h
  split at h
  · exact List.append_cancel_left h
  · have := List.append_cancel_left h
    exact (List.cons.inj this).2

theorem written_nodup (d : Path) (c : Call) : (written d c).Nodup := by
  unfold written
  have nd := writtenNames_nodup c
  unfold List.Nodup at *
  rw [List.pairwise_map]
  refine List.Pairwise.imp_of_mem ?_ nd
  intro a b ha hb hne h
  apply hne
  have hc := commonName_no_sep c
  have nos : ∀ n ∈ writtenNames c, '/' ∉ n ∧ n ≠ [] := by
    intro n hn
    rcases writtenNames_shape c n hn with h | h | h | h <;> subst h <;>
      refine ⟨?_, by simp⟩ <;> simp only [List.mem_append, not_or] <;> exact ⟨by decide, hc⟩
  exact join_injective d a b (nos a ha).1 (nos b hb).1 (nos a ha).2 (nos b hb).2 h

end TddaVerif.TmpDir.Lemmas
