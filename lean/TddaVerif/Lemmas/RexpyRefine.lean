/- Stage lemmas for rexpy, part C: refinement of one VRLE from the captures of its examples.

NOTE on `hcap0 : 1 ≤ sz.maxStringsInGroup`: without it both theorems are false.  With
`maxStringsInGroup = 0`, `cappedStrings 0 ["ab","cd"] = ["ab"]` (the second distinct string is not
recorded because the list already has length 1 > 0), so `refineFrag` answers the single literal `ab`,
which does not match the capture `cd`. -/
import TddaVerif.Model.Rexpy
import TddaVerif.Props.C03Spec
import TddaVerif.Lemmas.RexpyMatch

namespace TddaVerif.Props.C03.Lemmas
open TddaVerif.Py TddaVerif.Rexpy TddaVerif.Props.C03

/-- the code fragments of a VRLE -/
def fragsOfVrle (v : Vrle) : Pattern :=
  v.map (fun f => { atom := .code f.1, m := f.2.1, M := f.2.2, fixed := false })

set_option linter.unusedSimpArgs false
set_option linter.unusedVariables false

/-! ### ranges and coverage -/

/-- the count `n` lies in the range of the VRLE entry `v` -/
def InRange (n : Nat) (v : Char × Nat × Option Nat) : Prop :=
  v.2.1 ≤ n ∧ ∀ M, v.2.2 = some M → n ≤ M

/-- the entry's range is not empty -/
def WF (v : Char × Nat × Option Nat) : Prop := ∀ M, v.2.2 = some M → v.2.1 ≤ M

/-- the run-length encoding `r` is covered by the (fine) VRLE `v`: same classes, counts in range;
    `v` may be longer, the surplus entries then allow zero occurrences -/
def Cov : List (Char × Nat × Option Nat) → List (Char × Nat) → Prop
  | [], [] => True
  | [], _ :: _ => False
  | v :: vs, [] => v.2.1 = 0 ∧ Cov vs []
  | v :: vs, r :: rs => r.1 = v.1 ∧ InRange r.2 v ∧ Cov vs rs

theorem widen_fst (n : Nat) (v : Char × Nat × Option Nat) : (widen n v).1 = v.1 := by
  obtain ⟨c, m, M⟩ := v
  cases M <;> simp only [widen] <;> repeat' split
  all_goals rfl

theorem widen_inRange_self (n : Nat) (v : Char × Nat × Option Nat) (hv : WF v) : InRange n (widen n v) := by
  obtain ⟨c, m, M⟩ := v
  cases M <;> simp only [widen, InRange, WF] at hv ⊢ <;> repeat' split
  all_goals simp only [Bool.and_eq_true, decide_eq_true_eq, Option.some.injEq, forall_eq', reduceCtorEq, false_implies, implies_true, and_true] at *
  all_goals omega

theorem widen_wf (n : Nat) (v : Char × Nat × Option Nat) (hv : WF v) : WF (widen n v) := by
  obtain ⟨c, m, M⟩ := v
  cases M <;> simp only [widen, InRange, WF] at hv ⊢ <;> repeat' split
  all_goals simp only [Bool.and_eq_true, decide_eq_true_eq, Option.some.injEq, forall_eq', reduceCtorEq, false_implies, implies_true, and_true] at *
  all_goals omega

theorem widen_inRange_mono (n n0 : Nat) (v : Char × Nat × Option Nat) (h : InRange n0 v) :
    InRange n0 (widen n v) := by
  obtain ⟨c, m, M⟩ := v
  cases M <;> simp only [widen, InRange] at h ⊢ <;> repeat' split
  all_goals simp only [Bool.and_eq_true, decide_eq_true_eq, Option.some.injEq, forall_eq', reduceCtorEq, false_implies, implies_true, and_true] at *
  all_goals omega

theorem widen_m_zero (n : Nat) (v : Char × Nat × Option Nat) (h : v.2.1 = 0) : (widen n v).2.1 = 0 := by
  obtain ⟨c, m, M⟩ := v
  cases M <;> simp only [widen] at h ⊢ <;> repeat' split
  all_goals simp_all


/-- all entries have a non-empty range -/
def AllWF (v : List (Char × Nat × Option Nat)) : Prop := ∀ e ∈ v, WF e

/-- surplus entries: zero occurrences allowed -/
def zeroed (x : Char × Nat × Option Nat) : Char × Nat × Option Nat := (x.1, 0, x.2.2)

theorem cov_nil_of_zero (ext : List (Char × Nat × Option Nat)) (h : ∀ e ∈ ext, e.2.1 = 0) : Cov ext [] := by
  induction ext with
  | nil => trivial
  | cons e es ih => exact ⟨h e (by simp), ih (fun e' he' => h e' (by simp [he']))⟩

theorem cov_append_zero (o ext : List (Char × Nat × Option Nat)) (r0 : List (Char × Nat))
    (h : Cov o r0) (hz : ∀ e ∈ ext, e.2.1 = 0) : Cov (o ++ ext) r0 := by
  induction o generalizing r0 with
  | nil =>
    cases r0 with
    | nil => simpa using cov_nil_of_zero ext hz
    | cons x xs => simp [Cov] at h
  | cons e es ih =>
    cases r0 with
    | nil => exact ⟨h.1, ih [] h.2⟩
    | cons x xs => exact ⟨h.1, h.2.1, ih xs h.2.2⟩

theorem cov_append (a b : List (Char × Nat × Option Nat)) (x y : List (Char × Nat))
    (hl : a.length = x.length) (h1 : Cov a x) (h2 : Cov b y) : Cov (a ++ b) (x ++ y) := by
  induction a generalizing x with
  | nil =>
    cases x with
    | nil => simpa using h2
    | cons x xs => simp at hl
  | cons e es ih =>
    cases x with
    | nil => simp at hl
    | cons x xs => exact ⟨h1.1, h1.2.1, ih xs (by simpa using hl) h1.2.2⟩

theorem cov_zeroed (v2 : List (Char × Nat × Option Nat)) (r0 : List (Char × Nat)) (h : Cov v2 r0) :
    Cov (v2.map zeroed) r0 := by
  induction v2 generalizing r0 with
  | nil => cases r0 <;> simpa using h
  | cons e es ih =>
    cases r0 with
    | nil => exact ⟨rfl, ih [] h.2⟩
    | cons x xs => exact ⟨h.1, ⟨Nat.zero_le _, h.2.1.2⟩, ih xs h.2.2⟩

/-- the new run-length encoding is covered by the expanded VRLE -/
theorem expandZip_cov_self (r : List (Char × Nat)) (v o : List (Char × Nat × Option Nat))
    (hl : r.length = v.length) (hv : AllWF v) (h : expandZip r v = some o) : Cov o r := by
  induction r generalizing v o with
  | nil =>
    cases v with
    | nil => simp [expandZip] at h; subst h; trivial
    | cons e es => simp at hl
  | cons x xs ih =>
    cases v with
    | nil => simp at hl
    | cons e es =>
      rw [expandZip] at h
      split at h
      · rename_i hx
        cases ht : expandZip xs es with
        | none => simp [ht] at h
        | some t =>
          simp [ht] at h
          subst h
          exact ⟨by rw [widen_fst]; simpa using hx, widen_inRange_self _ _ (hv e (by simp)),
            ih es t (by simpa using hl) (fun e' he' => hv e' (by simp [he'])) ht⟩
      · simp at h

/-- everything covered before is still covered after the expansion -/
theorem expandZip_cov_mono (r : List (Char × Nat)) (v1 v2 o : List (Char × Nat × Option Nat))
    (hl : r.length = v1.length) (h : expandZip r v1 = some o) (r0 : List (Char × Nat))
    (h0 : Cov (v1 ++ v2) r0) : Cov (o ++ v2.map zeroed) r0 := by
  induction r generalizing v1 o r0 with
  | nil =>
    cases v1 with
    | nil => simp [expandZip] at h; subst h; simpa using cov_zeroed v2 r0 h0
    | cons e es => simp at hl
  | cons x xs ih =>
    cases v1 with
    | nil => simp at hl
    | cons e es =>
      rw [expandZip] at h
      split at h
      · rename_i hx
        cases ht : expandZip xs es with
        | none => simp [ht] at h
        | some t =>
          simp [ht] at h
          subst h
          cases r0 with
          | nil => exact ⟨widen_m_zero _ _ h0.1, ih es t (by simpa using hl) ht [] h0.2⟩
          | cons y ys =>
            exact ⟨by rw [widen_fst]; exact h0.1, widen_inRange_mono _ _ _ h0.2.1,
              ih es t (by simpa using hl) ht ys h0.2.2⟩
      · simp at h

theorem expandZip_cov_mono' (r : List (Char × Nat)) (v o : List (Char × Nat × Option Nat))
    (hl : r.length = v.length) (h : expandZip r v = some o) (r0 : List (Char × Nat))
    (h0 : Cov v r0) : Cov o r0 := by
  simpa using expandZip_cov_mono r v [] o hl h r0 (by simpa using h0)

theorem expandZip_wf (r : List (Char × Nat)) (v o : List (Char × Nat × Option Nat))
    (hv : AllWF v) (h : expandZip r v = some o) : AllWF o := by
  induction r generalizing v o with
  | nil => simp [expandZip] at h; subst h; intro e he; simp at he
  | cons x xs ih =>
    cases v with
    | nil => simp [expandZip] at h; subst h; intro e he; simp at he
    | cons e es =>
      rw [expandZip] at h
      split at h
      · cases ht : expandZip xs es with
        | none => simp [ht] at h
        | some t =>
          simp [ht] at h
          subst h
          intro e' he'
          simp only [List.mem_cons] at he'
          rcases he' with rfl | he'
          · exact widen_wf _ _ (hv e (by simp))
          · exact ih es t (fun e'' he'' => hv e'' (by simp [he''])) ht e' he'
      · simp at h


theorem expandZip_length (r : List (Char × Nat)) (v o : List (Char × Nat × Option Nat))
    (hl : r.length = v.length) (h : expandZip r v = some o) : o.length = r.length := by
  induction r generalizing v o with
  | nil => simp [expandZip] at h; subst h; rfl
  | cons x xs ih =>
    cases v with
    | nil => simp at hl
    | cons e es =>
      rw [expandZip] at h
      split at h
      · cases ht : expandZip xs es with
        | none => simp [ht] at h
        | some t =>
          simp [ht] at h
          subst h
          simp [ih es t (by simpa using hl) ht]
      · simp at h

theorem cov_init (r : List (Char × Nat)) : Cov (r.map (fun x => (x.1, x.2, some x.2))) r := by
  induction r with
  | nil => trivial
  | cons x xs ih => exact ⟨rfl, ⟨Nat.le_refl _, fun M hM => by simp at hM; omega⟩, ih⟩

theorem wf_init (r : List (Char × Nat)) : AllWF (r.map (fun x => (x.1, x.2, some x.2))) := by
  intro e he
  simp only [List.mem_map] at he
  obtain ⟨x, -, rfl⟩ := he
  intro M hM
  simp at hM
  simp [hM]

theorem cov_init0 (r : List (Char × Nat)) : Cov (r.map (fun x => (x.1, 0, some x.2))) r := by
  induction r with
  | nil => trivial
  | cons x xs ih => exact ⟨rfl, ⟨Nat.zero_le _, fun M hM => by simp at hM; omega⟩, ih⟩

theorem allWF_append (a b : List (Char × Nat × Option Nat)) (ha : AllWF a) (hb : AllWF b) : AllWF (a ++ b) := by
  intro e he
  rcases List.mem_append.1 he with h | h
  · exact ha e h
  · exact hb e h

/-- one step of the analysis from a VRLE so far -/
theorem expandOrFalsify_so (vlf : Bool) (r : List (Char × Nat)) (v v' : List (Char × Nat × Option Nat))
    (hv : AllWF v) (h : expandOrFalsify vlf r (.so v) = .so v') :
    AllWF v' ∧ Cov v' r ∧ ∀ r0, Cov v r0 → Cov v' r0 := by
  simp only [expandOrFalsify] at h
  split at h
  · rename_i hl
    have hl : r.length = v.length := by simpa using hl
    split at h
    · rename_i o ho
      injection h with h
      subst h
      exact ⟨expandZip_wf r v o hv ho, expandZip_cov_self r v o hl hv ho,
        fun r0 h0 => expandZip_cov_mono' r v o hl ho r0 h0⟩
    · simp at h
  · rename_i hl
    have hl : r.length ≠ v.length := by simpa using hl
    split at h
    · simp at h
    · split at h
      · simp at h
      · rename_i o ho
        split at h
        · rename_i hlc
          injection h with h
          subst h
          have hlc : v.length ≤ r.length := by simp at hlc; omega
          have hmin : min r.length v.length = v.length := by omega
          rw [hmin] at ho ⊢
          rw [List.take_of_length_le (Nat.le_refl _)] at ho
          have hlt : (r.take v.length).length = v.length := by simp; omega
          refine ⟨?_, ?_, ?_⟩
          · apply allWF_append _ _ (expandZip_wf _ v o hv ho)
            intro e he
            simp only [List.mem_map] at he
            obtain ⟨x, -, rfl⟩ := he
            intro M hM
            simp
          · have := cov_append o ((r.drop v.length).map (fun x => (x.1, 0, some x.2))) (r.take v.length)
              (r.drop v.length) (by rw [expandZip_length _ v o hlt ho])
              (expandZip_cov_self _ v o hlt hv ho) (cov_init0 _)
            simpa using this
          · intro r0 h0
            apply cov_append_zero
            · exact expandZip_cov_mono' _ v o hlt ho r0 h0
            · intro e he
              simp only [List.mem_map] at he
              obtain ⟨x, -, rfl⟩ := he
              rfl
        · rename_i hlc
          injection h with h
          subst h
          have hlc : r.length < v.length := by simp at hlc; omega
          have hmin : min r.length v.length = r.length := by omega
          rw [hmin] at ho ⊢
          rw [List.take_of_length_le (Nat.le_refl _)] at ho
          have hlt : r.length = (v.take r.length).length := by simp; omega
          have hvt : AllWF (v.take r.length) := fun e he => hv e (List.mem_of_mem_take he)
          refine ⟨?_, ?_, ?_⟩
          · apply allWF_append _ _ (expandZip_wf _ _ o hvt ho)
            intro e he
            simp only [List.mem_map] at he
            obtain ⟨x, hx, rfl⟩ := he
            intro M hM
            simp
          · apply cov_append_zero
            · exact expandZip_cov_self _ _ o hlt hvt ho
            · intro e he
              simp only [List.mem_map] at he
              obtain ⟨x, -, rfl⟩ := he
              rfl
          · intro r0 h0
            have := expandZip_cov_mono r (v.take r.length) (v.drop r.length) o hlt ho r0
              (by simpa using h0)
            exact this


/-! ### the analysis fold -/

/-- invariant of the analysis: a VRLE so far covers every string seen -/
def AnaInv (h : Line → List (Char × Nat)) (a : Ana) (seen : List Line) : Prop :=
  match a with
  | .notYet => seen = []
  | .failed => True
  | .so v => AllWF v ∧ ∀ g ∈ seen, Cov v (h g)

theorem anaInv_step (vlf : Bool) (h : Line → List (Char × Nat)) (a : Ana) (seen : List Line) (g : Line)
    (hi : AnaInv h a seen) : AnaInv h (expandOrFalsify vlf (h g) a) (seen ++ [g]) := by
  cases a with
  | notYet =>
    simp only [AnaInv] at hi
    subst hi
    simp only [expandOrFalsify, AnaInv]
    refine ⟨wf_init _, ?_⟩
    intro g' hg'
    simp at hg'
    subst hg'
    exact cov_init _
  | failed => simp [expandOrFalsify, AnaInv]
  | so v =>
    obtain ⟨hwf, hc⟩ := hi
    cases hr : expandOrFalsify vlf (h g) (.so v) with
    | notYet => simp [expandOrFalsify] at hr; repeat' split at hr
                all_goals simp at hr
    | failed => trivial
    | so v' =>
      obtain ⟨h1, h2, h3⟩ := expandOrFalsify_so vlf (h g) v v' hwf hr
      refine ⟨h1, ?_⟩
      intro g' hg'
      rcases List.mem_append.1 hg' with hg' | hg'
      · exact h3 _ (hc g' hg')
      · simp at hg'; subst hg'; exact h2

theorem anaInv_fold (vlf : Bool) (h : Line → List (Char × Nat)) (caps : List Line) (a : Ana) (seen : List Line)
    (hi : AnaInv h a seen) :
    AnaInv h (caps.foldl (fun a g => expandOrFalsify vlf (h g) a) a) (seen ++ caps) := by
  induction caps generalizing a seen with
  | nil => simpa using hi
  | cons g gs ih =>
    have := ih _ _ (anaInv_step vlf h a seen g hi)
    simpa using this

theorem rleFcC_eq (T : CharTable) (E : List Char) (vlf : Bool) (g : Line) (fc ch : Ana) :
    rleFcC T E vlf g fc ch =
      (expandOrFalsify vlf (rle (g.map (fineClass T E))) fc, expandOrFalsify vlf (rle g) ch) := by
  unfold rleFcC
  split
  · rename_i h
    simp only [Bool.and_eq_true, beq_iff_eq] at h
    rw [h.1, h.2]
    rfl
  · rfl

theorem fold_rleFcC (T : CharTable) (E : List Char) (vlf : Bool) (caps : List Line) (a b : Ana) :
    caps.foldl (fun (st : Ana × Ana) g => rleFcC T E vlf g st.1 st.2) (a, b) =
      (caps.foldl (fun a g => expandOrFalsify vlf (rle (g.map (fineClass T E))) a) a,
       caps.foldl (fun b g => expandOrFalsify vlf (rle g) b) b) := by
  simp only [rleFcC_eq]
  induction caps generalizing a b with
  | nil => rfl
  | cons g gs ih => simp only [List.foldl_cons, ih]

/-- what the analysis of an alphanumeric fragment establishes -/
theorem analysis_cov (T : CharTable) (E : List Char) (vlf : Bool) (caps : List Line) :
    (∀ v, (caps.foldl (fun (st : Ana × Ana) g => rleFcC T E vlf g st.1 st.2) (Ana.notYet, Ana.notYet)).1 = .so v →
      ∀ g ∈ caps, Cov v (rle (g.map (fineClass T E)))) ∧
    (∀ v, (caps.foldl (fun (st : Ana × Ana) g => rleFcC T E vlf g st.1 st.2) (Ana.notYet, Ana.notYet)).2 = .so v →
      ∀ g ∈ caps, Cov v (rle g)) := by
  rw [fold_rleFcC]
  constructor
  · intro v hv
    have := anaInv_fold vlf (fun g => rle (g.map (fineClass T E))) caps .notYet [] rfl
    rw [show List.foldl _ _ _ = Ana.so v from hv] at this
    simpa using this.2
  · intro v hv
    have := anaInv_fold vlf (fun g => rle g) caps .notYet [] rfl
    rw [show List.foldl _ _ _ = Ana.so v from hv] at this
    simpa using this.2

/-! ### runs -/

/-- the string splits into runs as described by the run-length encoding of its `f`-image -/
def Runs (f : Char → Char) : List (Char × Nat) → Line → Prop
  | [], s => s = []
  | r :: rs, s => ∃ p q, s = p ++ q ∧ p.length = r.2 ∧ (∀ c ∈ p, f c = r.1) ∧ Runs f rs q

theorem runs_rleAux (f : Char → Char) (cs : Line) (last : Char) (n : Nat) (pre : Line)
    (hn : pre.length = n) (hp : ∀ c ∈ pre, f c = last) :
    Runs f (rleAux (cs.map f) last n) (pre ++ cs) := by
  induction cs generalizing last n pre with
  | nil => exact ⟨pre, [], by simp, hn, hp, rfl⟩
  | cons c cs ih =>
    simp only [List.map_cons, rleAux]
    split
    · rename_i hc
      have hc : f c = last := by simpa using hc
      have := ih last (n + 1) (pre ++ [c]) (by simp [hn]) (by
        intro x hx
        rcases List.mem_append.1 hx with hx | hx
        · exact hp x hx
        · simp at hx; subst hx; exact hc)
      simpa using this
    · exact ⟨pre, c :: cs, rfl, hn, hp, by simpa using ih (f c) 1 [c] rfl (by simp)⟩

theorem runs_rle (f : Char → Char) (s : Line) : Runs f (rle (s.map f)) s := by
  cases s with
  | nil => rfl
  | cons c cs => simpa [rle] using runs_rleAux f cs (f c) 1 [c] rfl (by simp)


/-! ### from coverage to a match -/

theorem lo_le_m (f : Frag) : f.lo ≤ f.m := by
  unfold Frag.lo
  split
  · exact Nat.min_le_left _ _
  · exact Nat.le_refl _

theorem plusify_fst (v : Char × Nat × Option Nat) : (plusify v).1 = v.1 := by
  unfold plusify; repeat' split
  all_goals rfl

theorem plusify_m (v : Char × Nat × Option Nat) : (plusify v).2.1 = v.2.1 := by
  unfold plusify; repeat' split
  all_goals rfl

theorem plusify_M (v : Char × Nat × Option Nat) (M : Nat) (h : (plusify v).2.2 = some M) : v.2.2 = some M := by
  unfold plusify at h
  split at h
  · exact h
  · split at h
    · exact h
    · simp at h

theorem matches_of_cov (T : CharTable) (E : List Char) (A : Char → Atom) (hA : ∀ k lit, A k ≠ .escStr lit)
    (fx : Bool) (f : Char → Char) (v : List (Char × Nat × Option Nat)) (r : List (Char × Nat)) (s : Line)
    (hc : Cov v r) (hr : Runs f r s) (hs : ∀ c ∈ s, atomChar T E (A (f c)) c = true) :
    Matches T E ((v.map plusify).map (fun e => { atom := A e.1, m := e.2.1, M := e.2.2, fixed := fx })) s := by
  induction v generalizing r s with
  | nil =>
    cases r with
    | nil => simp only [Runs] at hr; subst hr; exact Matches.nil
    | cons x xs => simp [Cov] at hc
  | cons e es ih =>
    cases r with
    | nil =>
      simp only [Runs] at hr
      subst hr
      have := ih [] [] hc.2 rfl (by simp)
      refine Matches.cons _ _ [] [] ?_ this
      rw [fragAccepts_iff _ _ _ (fun lit => hA _ lit)]
      refine ⟨?_, by simp, by simp⟩
      refine Nat.le_trans (lo_le_m _) ?_
      simp [plusify_m, hc.1]
    | cons x xs =>
      obtain ⟨p, q, rfl, hpl, hpf, hq⟩ := hr
      obtain ⟨h1, h2, h3⟩ := hc
      have := ih xs q h3 hq (fun c hc' => hs c (by simp [hc']))
      refine Matches.cons _ _ p q ?_ this
      rw [fragAccepts_iff _ _ _ (fun lit => hA _ lit)]
      refine ⟨?_, ?_, ?_⟩
      · refine Nat.le_trans (lo_le_m _) ?_
        simp only [plusify_m, hpl]
        exact h2.1
      · intro M hM
        rw [hpl]
        exact h2.2 M (plusify_M e M hM)
      · intro c hc'
        have := hs c (by simp [hc'])
        rw [hpf c hc', h1] at this
        simpa [plusify_fst] using this


/-! ### strings and characters of the captures -/

theorem cappedStrings_single_aux (cap : Nat) (hcap : 1 ≤ cap) (s : Line) (gs : List Line) (acc : List Line)
    (h : gs.foldl (fun acc g => if acc.length ≤ cap && !acc.contains g then acc ++ [g] else acc) acc = [s]) :
    (acc = [] ∨ acc = [s]) ∧ ∀ g ∈ gs, g = s := by
  induction gs generalizing acc with
  | nil => exact ⟨Or.inr h, by simp⟩
  | cons g gs ih =>
    simp only [List.foldl_cons] at h
    obtain ⟨h1, h2⟩ := ih _ h
    split at h1
    · rename_i hc
      rcases h1 with h1 | h1
      · simp at h1
      · have : acc = [] ∧ g = s := by
          cases acc with
          | nil => simpa using h1
          | cons a as => cases as <;> simp at h1
        refine ⟨Or.inl this.1, ?_⟩
        intro g' hg'
        simp only [List.mem_cons] at hg'
        rcases hg' with rfl | hg'
        · exact this.2
        · exact h2 g' hg'
    · rename_i hc
      rcases h1 with h1 | h1
      · subst h1; simp at hc
      · subst h1
        refine ⟨Or.inr rfl, ?_⟩
        intro g' hg'
        simp only [List.mem_cons] at hg'
        rcases hg' with rfl | hg'
        · simp at hc
          exact hc hcap
        · exact h2 g' hg'

theorem cappedStrings_single (cap : Nat) (hcap : 1 ≤ cap) (s : Line) (gs : List Line)
    (h : cappedStrings cap gs = [s]) : ∀ g ∈ gs, g = s :=
  (cappedStrings_single_aux cap hcap s gs [] h).2

theorem mem_insertChar (x c : Char) (l : List Char) : c ∈ insertChar x l ↔ c = x ∨ c ∈ l := by
  induction l with
  | nil => simp [insertChar]
  | cons y ys ih =>
    simp only [insertChar]
    split
    · simp only [List.mem_cons, ih]
      constructor
      · rintro (h | h | h) <;> simp [h]
      · rintro (h | h | h) <;> simp [h]
    · split
      · rename_i hyx
        have : y = x := by simpa using hyx
        subst this
        simp
      · simp

theorem mem_charSet (ls : List Line) (c : Char) : c ∈ charSet ls ↔ ∃ l ∈ ls, c ∈ l := by
  unfold charSet
  have : ∀ l : List Char, c ∈ l.foldr insertChar [] ↔ c ∈ l := by
    intro l
    induction l with
    | nil => simp
    | cons a as ih => simp [mem_insertChar, ih]
  rw [this, List.mem_flatten]

/-- `fineClass_sound` without the (unused) normalisation hypothesis -/
theorem fineClass_sound' (T : CharTable) (hT : Consistent T) (E : List Char) (c : Char)
    (hc : inCat T E cUAlpha c = true) : inCat T E (fineClass T E c) c = true := by
  unfold fineClass
  split
  · rw [inCat_cDigit]; assumption
  · split
    · rw [inCat_cletter]; assumption
    · split
      · rw [inCat_cLETTER]; assumption
      · split
        · rename_i hcE; rw [inCat_cLETTER_, hcE]; simp
        · rename_i hd _ _ _
          rw [inCat_cULetter_]
          rw [inCat_cUAlpha] at hc
          have hnd : asciiDigit c = false := by
            cases h : asciiDigit c with
            | false => rfl
            | true => exact absurd (hT.2.1 c h) hd
          simpa [hnd] using hc

/-- a single fragment with the same quantifier and a more liberal atom accepts what the coarse one did -/
theorem single_frag (T : CharTable) (E : List Char) (k : Char) (m : Nat) (M : Option Nat) (a : Atom) (fx : Bool)
    (ha : ∀ lit, a ≠ .escStr lit) (g : Line)
    (h : fragAccepts T E { atom := .code k, m := m, M := M, fixed := false } g = true)
    (hg : ∀ c ∈ g, atomChar T E a c = true) :
    Matches T E [{ atom := a, m := m, M := M, fixed := fx }] g := by
  have hm : fragAccepts T E { atom := a, m := m, M := M, fixed := fx } g = true := by
    rw [fragAccepts_iff _ _ _ (by simpa using ha)]
    rw [fragAccepts_iff _ _ _ (by simp)] at h
    exact ⟨h.1, h.2.1, hg⟩
  simpa using Matches.cons _ [] g [] hm Matches.nil


/-! ### refining one fragment -/

theorem generalise_sound (T : CharTable) (E : List Char) (k0 : Char) (m : Nat) (M : Option Nat)
    (chars : List Char) (n : Nat) (g : Line)
    (h : fragAccepts T E { atom := .code k0, m := m, M := M, fixed := false } g = true)
    (hch : ∀ c ∈ g, c ∈ chars) :
    Matches T E (refineFrag.generalise T E k0 m M chars n).1 g := by
  unfold refineFrag.generalise
  split
  · rename_i k hk
    have := List.find?_some hk
    simp only [Bool.and_eq_true, List.all_eq_true] at this
    exact single_frag T E k0 m M (.code k) false (by simp) g h (fun c hc => this.2 c (hch c hc))
  · simpa using Matches.cons _ [] g [] h Matches.nil

/-- **Refining one fragment is sound**: every string captured by the coarse fragment
    `(c, m, M)` is matched by the list of fragments that replaces it. -/
theorem refineFrag_sound (T : CharTable) (hT : Consistent T) (E : List Char) (vlf : Bool) (sz : Sizes)
    (hcap0 : 1 ≤ sz.maxStringsInGroup)
    (fr : Char × Nat × Option Nat) (caps : List Line) (nGroups : Nat)
    (hcap : ∀ g ∈ caps, fragAccepts T E { atom := .code fr.1, m := fr.2.1, M := fr.2.2, fixed := false } g = true)
    (g : Line) (hg : g ∈ caps) :
    Matches T E (refineFrag T E vlf sz fr caps nGroups).1 g := by
  have hchars : ∀ c ∈ g, c ∈ charSet caps := fun c hc => (mem_charSet caps c).2 ⟨g, hg, hc⟩
  have hacc := hcap g hg
  unfold refineFrag
  simp only
  split
  · rename_i s hs
    have := cappedStrings_single _ hcap0 s caps hs g hg
    subst this
    have hm : fragAccepts T E { atom := .escStr g, m := 1, M := some 1, fixed := true } g = true := by
      simp [fragAccepts]
    simpa using Matches.cons _ [] g [] hm Matches.nil
  · split
    · rename_i x hx
      refine single_frag T E fr.1 fr.2.1 fr.2.2 (.escChar x) true (by simp) g hacc ?_
      intro c hc
      have := hchars c hc
      rw [hx] at this
      simp at this
      simp [atomChar, this]
    · split
      · rename_i hU
        have hU : fr.1 = cUAlpha := by simpa using hU
        obtain ⟨hfc, hch⟩ := analysis_cov T E vlf caps
        simp only [hU, beq_self_eq_true, if_true]
        have hgen := generalise_sound T E cUAlpha fr.2.1 fr.2.2 (charSet caps) nGroups g (hU ▸ hacc) hchars
        split
        · rename_i v hv
          split
          · have hr := runs_rle id g
            simp only [List.map_id] at hr
            exact matches_of_cov T E .rawChar (by simp) true id v (rle g) g (hch v hv g hg) hr
              (by intro c _; simp [atomChar])
          · exact hgen
        · rename_i v hv _
          split
          · have hr := runs_rle (fineClass T E) g
            refine matches_of_cov T E .code (by simp) false (fineClass T E) v _ g (hfc v hv g hg) hr ?_
            intro c hc
            have hacc' := hacc
            rw [fragAccepts_iff _ _ _ (by simp)] at hacc'
            have := hacc'.2.2 c hc
            simp only [atomChar, hU] at this ⊢
            exact fineClass_sound' T hT E c this
          · exact hgen
        · exact hgen
      · split
        · refine single_frag T E fr.1 fr.2.1 fr.2.2 (.bracket (charSet caps)) true (by simp) g hacc ?_
          intro c hc
          simpa [atomChar] using hchars c hc
        · simpa using Matches.cons _ [] g [] hacc Matches.nil


/-! ### refining a VRLE -/

/-- the optional-whitespace fragment -/
def wsFrag : Frag := { atom := .code cWhite, m := 0, M := none, fixed := false }

/-- what `wrapWs` puts on either side -/
def wsL (w : Bool) : Pattern := if w then [wsFrag] else []

theorem wrapWs_eq (w : Bool) (p : Pattern) : wrapWs w p = wsL w ++ p ++ wsL w := by
  cases w <;> simp [wrapWs, wsL, wsFrag]

theorem piecesOK_append (T : CharTable) (E : List Char) (p q : Pattern) (r : List Line)
    (h : PiecesOK T E (p ++ q) r) : ∃ r1 r2, r = r1 ++ r2 ∧ PiecesOK T E p r1 ∧ PiecesOK T E q r2 := by
  induction p generalizing r with
  | nil => exact ⟨[], r, rfl, trivial, by simpa using h⟩
  | cons f fs ih =>
    cases r with
    | nil => simp [PiecesOK] at h
    | cons g gs =>
      simp only [List.cons_append, PiecesOK] at h
      obtain ⟨r1, r2, rfl, h1, h2⟩ := ih gs h.2
      exact ⟨g :: r1, r2, rfl, ⟨h.1, h1⟩, h2⟩

theorem piecesOK_single (T : CharTable) (E : List Char) (f : Frag) (r : List Line)
    (h : PiecesOK T E [f] r) : ∃ x, r = [x] ∧ Matches T E [f] x := by
  cases r with
  | nil => simp [PiecesOK] at h
  | cons x xs =>
    cases xs with
    | nil => exact ⟨x, rfl, by simpa using Matches.cons f [] x [] h.1 Matches.nil⟩
    | cons y ys => simp [PiecesOK] at h

theorem fragsOfVrle_length (v : Vrle) : (fragsOfVrle v).length = v.length := by simp [fragsOfVrle]

theorem piecesOK_length (T : CharTable) (E : List Char) (p : Pattern) (r : List Line)
    (h : PiecesOK T E p r) : r.length = p.length := ((piecesOK_iff T E p r).1 h).1

/-- what a match of the wrapped coarse pattern gives for one example -/
theorem example_pieces (T : CharTable) (E : List Char) (w : Bool) (v : Vrle) (e : Line)
    (h : Matches T E (wrapWs w (fragsOfVrle v)) e) :
    ∃ r pre inner post, matchCap T E (wrapWs w (fragsOfVrle v)) e = some r ∧
      (if w then (r.drop 1).take v.length else r) = inner ∧ PiecesOK T E (fragsOfVrle v) inner ∧
      e = pre ++ inner.flatten ++ post ∧ Matches T E (wsL w) pre ∧ Matches T E (wsL w) post := by
  obtain ⟨r, hr⟩ := Option.isSome_iff_exists.1 (matchCap_complete T E _ e h)
  obtain ⟨hfl, hp⟩ := matchCap_piecesOK T E _ e r hr
  cases w with
  | false =>
    refine ⟨r, [], r, [], hr, by simp, by simpa [wrapWs] using hp, by simp [hfl], ?_, ?_⟩ <;>
      exact Matches.nil
  | true =>
    rw [wrapWs_eq] at hp
    obtain ⟨r12, r3, rfl, h12, h3⟩ := piecesOK_append T E _ _ r hp
    obtain ⟨r1, r2, rfl, h1, h2⟩ := piecesOK_append T E _ _ r12 h12
    obtain ⟨x, rfl, hx⟩ := piecesOK_single T E _ r1 h1
    obtain ⟨y, rfl, hy⟩ := piecesOK_single T E _ r3 h3
    have hl : r2.length = v.length := by
      rw [piecesOK_length T E _ r2 h2, fragsOfVrle_length]
    refine ⟨_, x, r2, y, hr, ?_, h2, ?_, hx, hy⟩
    · simp [← hl]
    · rw [← hfl]; simp

theorem mapM_some {α β : Type} (f : α → Option β) (l : List α) (h : ∀ a ∈ l, ∃ b, f a = some b) :
    ∃ bs, l.mapM f = some bs ∧ (∀ a ∈ l, ∃ b ∈ bs, f a = some b) ∧ (∀ b ∈ bs, ∃ a ∈ l, f a = some b) := by
  induction l with
  | nil => exact ⟨[], by simp, by simp, by simp⟩
  | cons a as ih =>
    obtain ⟨b, hb⟩ := h a (by simp)
    obtain ⟨bs, h1, h2, h3⟩ := ih (fun a' ha' => h a' (by simp [ha']))
    refine ⟨b :: bs, by simp [List.mapM_cons, hb, h1], ?_, ?_⟩
    · intro a' ha'
      simp only [List.mem_cons] at ha'
      rcases ha' with rfl | ha'
      · exact ⟨b, by simp, hb⟩
      · obtain ⟨b', hb', hf⟩ := h2 a' ha'
        exact ⟨b', by simp [hb'], hf⟩
    · intro b' hb'
      simp only [List.mem_cons] at hb'
      rcases hb' with rfl | hb'
      · exact ⟨a, by simp, hb⟩
      · obtain ⟨a', ha', hf⟩ := h3 b' hb'
        exact ⟨a', by simp [ha'], hf⟩

/-- concatenating blocks that match the pieces one by one -/
theorem fold_blocks (T : CharTable) (E : List Char) (R : Nat → Nat → List Frag × Nat) (P : Nat → Line)
    (idx : List Nat) (h : ∀ i ∈ idx, ∀ n, Matches T E (R i n).1 (P i))
    (st0 : List Frag × Nat) (s0 : Line) (h0 : Matches T E st0.1 s0) :
    Matches T E (idx.foldl (fun st i => (st.1 ++ (R i st.2).1, (R i st.2).2)) st0).1
      (s0 ++ (idx.map P).flatten) := by
  induction idx generalizing st0 s0 with
  | nil => simpa using h0
  | cons i is ih =>
    have := ih (fun j hj => h j (by simp [hj])) (st0.1 ++ (R i st0.2).1, (R i st0.2).2) (s0 ++ P i)
      (matches_append T E _ _ _ _ h0 (h i (by simp) st0.2))
    simpa using this

theorem range_map_getD (l : List Line) (n : Nat) (h : l.length = n) :
    (List.range n).map (fun i => l.getD i []) = l := by
  apply List.ext_getElem
  · simp [h]
  · intro i h1 h2
    simp [h2]

/-- the concatenation of the refined fragments (the body of `refineVrle`) -/
def blocks (T : CharTable) (E : List Char) (vlf : Bool) (sz : Sizes) (v : Vrle) (caps : List (List Line)) : Pattern :=
  ((List.range v.length).foldl (fun (st : List Frag × Nat) i =>
      ((st.1 ++ (refineFrag T E vlf sz (v.getD i ('?', 0, none)) (column caps i) st.2).1),
       (refineFrag T E vlf sz (v.getD i ('?', 0, none)) (column caps i) st.2).2)) ([], v.length)).1

theorem refineVrle_eq (T : CharTable) (E : List Char) (vlf : Bool) (sz : Sizes) (w : Bool) (v : Vrle)
    (examples : List Line) :
    refineVrle T E vlf sz w v examples =
      (examples.mapM (fun e => (matchCap T E (wrapWs w (fragsOfVrle v)) e).map
        (fun r => if w then (r.drop 1).take v.length else r))).map (blocks T E vlf sz v) := rfl

/-- **Refining a VRLE is sound**: if every example of the group is matched by the (possibly
    whitespace-wrapped) coarse pattern of the VRLE, refinement succeeds and every example is matched
    by the (equally wrapped) refined pattern. -/
theorem refineVrle_sound (T : CharTable) (hT : Consistent T) (E : List Char) (vlf : Bool) (sz : Sizes)
    (hcap0 : 1 ≤ sz.maxStringsInGroup)
    (wsWrap : Bool) (v : Vrle) (examples : List Line)
    (hm : ∀ e ∈ examples, Matches T E (wrapWs wsWrap (fragsOfVrle v)) e) :
    ∃ p, refineVrle T E vlf sz wsWrap v examples = some p ∧
      ∀ e ∈ examples, Matches T E (wrapWs wsWrap p) e := by
  have hA := fun e he => example_pieces T E wsWrap v e (hm e he)
  obtain ⟨caps, hcaps, h1, h2⟩ := mapM_some (fun e => (matchCap T E (wrapWs wsWrap (fragsOfVrle v)) e).map
        (fun r => if wsWrap then (r.drop 1).take v.length else r)) examples (by
    intro e he
    obtain ⟨r, pre, inner, post, hr, -⟩ := hA e he
    exact ⟨_, by rw [hr]; rfl⟩)
  -- every capture list is accepted piecewise by the coarse fragments
  have hcapsOK : ∀ b ∈ caps, PiecesOK T E (fragsOfVrle v) b := by
    intro b hb
    obtain ⟨e', he', hf⟩ := h2 b hb
    obtain ⟨r, pre, inner, post, hr, hin, hp, -⟩ := hA e' he'
    rw [hr] at hf
    simp only [Option.map_some, Option.some.injEq] at hf
    rw [← hf, hin]
    exact hp
  refine ⟨blocks T E vlf sz v caps, by rw [refineVrle_eq, hcaps]; rfl, ?_⟩
  intro e he
  obtain ⟨r, pre, inner, post, hr, hin, hp, hsplit, hpre, hpost⟩ := hA e he
  have hmem : inner ∈ caps := by
    obtain ⟨b, hb, hf⟩ := h1 e he
    rw [hr] at hf
    simp only [Option.map_some, Option.some.injEq] at hf
    rw [← hin, hf]
    exact hb
  have hlen : inner.length = v.length := by rw [piecesOK_length T E _ inner hp, fragsOfVrle_length]
  have hblocks : Matches T E (blocks T E vlf sz v caps) inner.flatten := by
    have := fold_blocks T E
      (fun i n => refineFrag T E vlf sz (v.getD i ('?', 0, none)) (column caps i) n)
      (fun i => inner.getD i []) (List.range v.length) ?_ ([], v.length) [] Matches.nil
    · rw [range_map_getD inner v.length hlen] at this
      simpa [blocks] using this
    · intro i hi n
      have hi : i < v.length := by simpa using hi
      apply refineFrag_sound T hT E vlf sz hcap0
      · intro g hg
        simp only [column, List.mem_map] at hg
        obtain ⟨b, hb, rfl⟩ := hg
        have := ((piecesOK_iff T E _ b).1 (hcapsOK b hb)).2 i (by rw [fragsOfVrle_length]; exact hi)
        simpa [fragsOfVrle, List.getD_eq_getElem?_getD, List.getElem?_map, hi] using this
      · simp only [column, List.mem_map]
        exact ⟨inner, hmem, rfl⟩
  rw [wrapWs_eq, hsplit]
  exact matches_append T E _ _ _ _ (matches_append T E _ _ _ _ hpre hblocks) hpost

end TddaVerif.Props.C03.Lemmas
