/- Stage lemmas for rexpy, part B: run-length encodings, VRLEs, cleaning, sorting. -/
import TddaVerif.Model.Rexpy
import TddaVerif.Props.C03Spec
import Mathlib.Data.List.Nodup
import Mathlib.Data.List.Perm.Subperm

namespace TddaVerif.Props.C03.Lemmas
open TddaVerif.Py TddaVerif.Rexpy TddaVerif.Props.C03

/-! ### run-length encoding -/

theorem rleAux_expand (cs : List Char) : ∀ (last : Char) (n : Nat),
    ((rleAux cs last n).map (fun r => List.replicate r.2 r.1)).flatten = List.replicate n last ++ cs ∧
    (0 < n → ∀ r ∈ rleAux cs last n, 0 < r.2) := by
  induction cs with
  | nil => intro last n; simp [rleAux]
  | cons c cs ih =>
    intro last n
    by_cases hc : c = last
    · subst hc
      obtain ⟨h1, h2⟩ := ih c (n + 1)
      simp only [rleAux, beq_self_eq_true, if_true]
      refine ⟨?_, fun _ => h2 (Nat.succ_pos n)⟩
      rw [h1, List.replicate_succ']; simp
    · obtain ⟨h1, h2⟩ := ih c 1
      have hc' : (c == last) = false := by simpa using hc
      simp only [rleAux, hc', Bool.false_eq_true, if_false]
      refine ⟨?_, ?_⟩
      · simp only [List.map_cons, List.flatten_cons, h1]; simp
      · intro hn r hr
        rcases List.mem_cons.1 hr with rfl | hr
        · exact hn
        · exact h2 Nat.one_pos r hr

/-- a run-length encoding describes its string: runs are non-empty and expand back to it -/
theorem rle_expand (s : List Char) :
    ((rle s).map (fun r => List.replicate r.2 r.1)).flatten = s ∧ ∀ r ∈ rle s, 0 < r.2 := by
  cases s with
  | nil => simp [rle]
  | cons c cs =>
    obtain ⟨h1, h2⟩ := rleAux_expand cs c 1
    exact ⟨by simpa [rle] using h1, h2 Nat.one_pos⟩

/-! ### strip -/

theorem lstrip_decompose (s : Line) : ∃ pre, s = pre ++ lstrip s ∧ ∀ c ∈ pre, isSpace c = true := by
  induction s with
  | nil => exact ⟨[], rfl, by simp⟩
  | cons c cs ih =>
    by_cases hc : isSpace c = true
    · obtain ⟨pre, h1, h2⟩ := ih
      refine ⟨c :: pre, ?_, ?_⟩
      · simp only [lstrip, hc, if_true, List.cons_append]; rw [← h1]
      · intro x hx
        rcases List.mem_cons.1 hx with rfl | hx
        · exact hc
        · exact h2 x hx
    · exact ⟨[], by simp [lstrip, hc], by simp⟩

theorem rstrip_decompose (s : Line) : ∃ post, s = rstrip s ++ post ∧ ∀ c ∈ post, isSpace c = true := by
  obtain ⟨pre, h1, h2⟩ := lstrip_decompose s.reverse
  refine ⟨pre.reverse, ?_, ?_⟩
  · have := congrArg List.reverse h1
    simpa [rstrip] using this
  · intro c hc; exact h2 c (List.mem_reverse.1 hc)

/-- `strip` removes a prefix and a suffix of whitespace characters -/
theorem strip_decompose (s : Line) :
    ∃ pre post, s = pre ++ strip s ++ post ∧ (∀ c ∈ pre, isSpace c = true) ∧ (∀ c ∈ post, isSpace c = true) := by
  obtain ⟨pre, h1, h2⟩ := lstrip_decompose s
  obtain ⟨post, h3, h4⟩ := rstrip_decompose (lstrip s)
  refine ⟨pre, post, ?_, h2, h4⟩
  show s = pre ++ rstrip (lstrip s) ++ post
  rw [List.append_assoc, ← h3, ← h1]

/-! ### sort_by_length -/

theorem insertByLen_perm (x : Pattern) (l : List Pattern) : (insertByLen x l).Perm (x :: l) := by
  induction l with
  | nil => simp [insertByLen]
  | cons y ys ih =>
    unfold insertByLen
    split
    · exact ((List.Perm.cons y ih).trans (List.Perm.swap x y ys))
    · exact List.Perm.refl _

theorem sortByLength_foldl_perm (ps : List Pattern) : ∀ acc : List Pattern,
    (ps.foldl (fun acc p => insertByLen p acc) acc).Perm (ps ++ acc) := by
  induction ps with
  | nil => intro acc; simp
  | cons p ps ih =>
    intro acc
    simp only [List.foldl_cons]
    refine (ih _).trans ?_
    refine ((insertByLen_perm p acc).append_left ps).trans ?_
    simp

/-- sort_by_length only reorders -/
theorem sortByLength_perm (ps : List Pattern) : (sortByLength ps).Perm ps := by
  simpa [sortByLength] using sortByLength_foldl_perm ps []

/-- the VRLE `v` covers the run-length encoding `r`: same categories, each count within the range -/
def Covers (v : Vrle) (r : List (Char × Nat)) : Prop :=
  sigOf v = sigOf r ∧
  ∀ i, i < r.length →
    let n := (r.getD i ('?', 0)).2
    let f := v.getD i ('?', 0, none)
    (match f.2.2 with | some M => f.2.1 ≤ n ∧ n ≤ M | none => min f.2.1 1 ≤ n)

/-! ### grouping by signature -/

theorem groupBySig_cons (r : List (Char × Nat)) (rs : List (List (Char × Nat))) :
    groupBySig (r :: rs) =
      (sigOf r, r :: (((groupBySig rs).find? (fun g => g.1 == sigOf r)).map (·.2)).getD []) ::
        (groupBySig rs).filter (fun g => g.1 != sigOf r) := rfl

theorem groupBySig_spec (rles : List (List (Char × Nat))) :
    ((groupBySig rles).map (·.1)).Nodup ∧
    (∀ g ∈ groupBySig rles, g.2 = rles.filter (fun r => sigOf r == g.1) ∧ g.2 ≠ []) ∧
    (∀ r ∈ rles, ∃ g ∈ groupBySig rles, g.1 = sigOf r) := by
  induction rles with
  | nil => simp [groupBySig]
  | cons r rs ih =>
    obtain ⟨ih1, ih2, ih3⟩ := ih
    rw [groupBySig_cons]
    refine ⟨?_, ?_, ?_⟩
    · rw [List.map_cons, List.nodup_cons]
      refine ⟨?_, ih1.sublist (List.filter_sublist.map _)⟩
      intro hmem
      obtain ⟨g, hg, hg1⟩ := List.mem_map.1 hmem
      have := (List.mem_filter.1 hg).2
      simp at this
      exact this hg1
    · intro g hg
      rcases List.mem_cons.1 hg with rfl | hg
      · refine ⟨?_, by simp⟩
        simp only [List.filter_cons, beq_self_eq_true, if_true]
        congr 1
        cases hf : (groupBySig rs).find? (fun g => g.1 == sigOf r) with
        | none =>
          simp only [Option.map_none, Option.getD_none]
          symm
          rw [List.filter_eq_nil_iff]
          intro r' hr' hsig
          obtain ⟨g, hg, hg1⟩ := ih3 r' hr'
          have := List.find?_eq_none.1 hf g hg
          apply this
          simp only [beq_iff_eq] at hsig ⊢
          rw [hg1, hsig]
        | some g' =>
          simp only [Option.map_some, Option.getD_some]
          have h1 := List.find?_some hf
          have h2 := List.mem_of_find?_eq_some hf
          simp only [beq_iff_eq] at h1
          rw [(ih2 g' h2).1, h1]
      · obtain ⟨hg, hne⟩ := List.mem_filter.1 hg
        have hne' : ¬ sigOf r = g.1 := by
          intro h; simp [h] at hne
        refine ⟨?_, (ih2 g hg).2⟩
        rw [(ih2 g hg).1]
        simp [hne']
    · intro r' hr'
      rcases List.mem_cons.1 hr' with rfl | hr'
      · exact ⟨_, List.mem_cons_self, rfl⟩
      · obtain ⟨g, hg, hg1⟩ := ih3 r' hr'
        by_cases hs : g.1 = sigOf r
        · exact ⟨_, List.mem_cons_self, by rw [← hs, hg1]⟩
        · exact ⟨g, List.mem_cons_of_mem _ (List.mem_filter.2 ⟨hg, by simpa using hs⟩), hg1⟩

theorem groupBySig_mem_group {rles : List (List (Char × Nat))} {g} (hg : g ∈ groupBySig rles)
    {r : List (Char × Nat)} : r ∈ g.2 ↔ r ∈ rles ∧ sigOf r = g.1 := by
  rw [((groupBySig_spec rles).2.1 g hg).1, List.mem_filter]
  simp

/-! ### min / max -/

theorem listMinNat_le {l : List Nat} {x : Nat} (hx : x ∈ l) : listMinNat l ≤ x := by
  induction l with
  | nil => cases hx
  | cons a l ih =>
    cases l with
    | nil => simp at hx; subst hx; simp [listMinNat]
    | cons b l =>
      simp only [listMinNat]
      rcases List.mem_cons.1 hx with rfl | hx
      · exact Nat.min_le_left _ _
      · exact Nat.le_trans (Nat.min_le_right _ _) (ih hx)

theorem le_listMaxNat {l : List Nat} {x : Nat} (hx : x ∈ l) : x ≤ listMaxNat l := by
  induction l with
  | nil => cases hx
  | cons a l ih =>
    simp only [listMaxNat]
    rcases List.mem_cons.1 hx with rfl | hx
    · exact Nat.le_max_left _ _
    · exact Nat.le_trans (ih hx) (Nat.le_max_right _ _)

/-! ### the VRLE of one group -/

theorem vrleOfGroup_length (sg : List Char) (rs) : (vrleOfGroup sg rs).length = sg.length := by
  simp [vrleOfGroup]

theorem sigOf_vrleOfGroup (sg : List Char) (rs : List (List (Char × Nat))) :
    sigOf (vrleOfGroup sg rs) = sg := by
  apply List.ext_getElem
  · simp [sigOf, vrleOfGroup]
  · intro i h1 h2
    simp only [sigOf, vrleOfGroup, List.map_map, List.getElem_map, List.getElem_range, Function.comp]
    split <;> simp [List.getD_eq_getElem?_getD, h2]

theorem vrleOfGroup_covers (sg : List Char) (rs : List (List (Char × Nat))) (r : List (Char × Nat))
    (hr : r ∈ rs) (hsig : sigOf r = sg) (hpos : ∀ x ∈ r, 0 < x.2) : Covers (vrleOfGroup sg rs) r := by
  refine ⟨by rw [sigOf_vrleOfGroup, hsig], ?_⟩
  intro i hi
  have hlen : r.length = sg.length := by rw [← hsig]; simp [sigOf]
  have hi' : i < sg.length := hlen ▸ hi
  have hn : (r.getD i ('?', 0)).2 ∈ rs.map (fun r => (r.getD i ('?', 0)).2) :=
    List.mem_map.2 ⟨r, hr, rfl⟩
  have h1 := listMinNat_le hn
  have h2 := le_listMaxNat hn
  have hp : 0 < (r.getD i ('?', 0)).2 := by
    apply hpos
    rw [List.getD_eq_getElem?_getD, List.getElem?_eq_getElem hi]
    simp
  have hv : (vrleOfGroup sg rs).getD i ('?', 0, none) =
      (if listMaxNat (rs.map (fun r => (r.getD i ('?', 0)).2)) - listMinNat (rs.map (fun r => (r.getD i ('?', 0)).2)) ≤ maxVrleRange
        then (sg.getD i '?', listMinNat (rs.map (fun r => (r.getD i ('?', 0)).2)), some (listMaxNat (rs.map (fun r => (r.getD i ('?', 0)).2))))
        else (sg.getD i '?', 1, none)) := by
    rw [List.getD_eq_getElem?_getD, List.getElem?_eq_getElem (by rw [vrleOfGroup_length]; exact hi')]
    simp [vrleOfGroup]
  dsimp only
  rw [hv]
  by_cases hc : listMaxNat (rs.map (fun r => (r.getD i ('?', 0)).2)) -
      listMinNat (rs.map (fun r => (r.getD i ('?', 0)).2)) ≤ maxVrleRange
  · rw [if_pos hc]; exact ⟨h1, h2⟩
  · rw [if_neg hc]; simp only [Nat.min_self]; exact hp

/-! ### to_vrles -/

theorem mem_insertVrle (x a : Vrle) (l : List Vrle) : a ∈ insertVrle x l ↔ a = x ∨ a ∈ l := by
  induction l with
  | nil => simp [insertVrle]
  | cons y ys ih =>
    unfold insertVrle
    split
    · simp only [List.mem_cons, ih]
      constructor
      · rintro (h | h | h) <;> simp [h]
      · rintro (h | h | h) <;> simp [h]
    · simp only [List.mem_cons]

theorem length_insertVrle (x : Vrle) (l : List Vrle) : (insertVrle x l).length = l.length + 1 := by
  induction l with
  | nil => simp [insertVrle]
  | cons y ys ih =>
    unfold insertVrle
    split <;> simp [ih]

theorem mem_foldr_insertVrle (a : Vrle) (l : List Vrle) : a ∈ l.foldr insertVrle [] ↔ a ∈ l := by
  induction l with
  | nil => simp
  | cons y ys ih => simp [List.foldr_cons, mem_insertVrle, ih]

theorem length_foldr_insertVrle (l : List Vrle) : (l.foldr insertVrle []).length = l.length := by
  induction l with
  | nil => simp
  | cons y ys ih => simp [List.foldr_cons, length_insertVrle, ih]

theorem mem_toVrles (rles : List (List (Char × Nat))) (v : Vrle) :
    v ∈ toVrles rles ↔ ∃ g ∈ groupBySig rles, v = vrleOfGroup g.1 g.2 := by
  unfold toVrles
  rw [mem_foldr_insertVrle, List.mem_eraseDups, List.mem_map]
  constructor
  · rintro ⟨g, hg, rfl⟩; exact ⟨g, hg, rfl⟩
  · rintro ⟨g, hg, rfl⟩; exact ⟨g, hg, rfl⟩

theorem eraseDups_length_le {α} [BEq α] : ∀ (n : Nat) (l : List α), l.length ≤ n → l.eraseDups.length ≤ l.length := by
  intro n
  induction n with
  | zero => intro l hl; cases l with
    | nil => simp
    | cons a as => simp at hl
  | succ n ih =>
    intro l hl
    cases l with
    | nil => simp
    | cons a as =>
      rw [List.eraseDups_cons]
      simp only [List.length_cons, Nat.add_le_add_iff_right] at hl ⊢
      have h1 : (as.filter (fun b => !b == a)).length ≤ as.length := List.length_filter_le _ _
      exact Nat.le_trans (ih _ (Nat.le_trans h1 hl)) h1

/-- to_vrles: every run-length encoding (with non-empty runs) is covered by the VRLE of its signature,
    and that VRLE is the only one with that signature -/
theorem toVrles_covers (rles : List (List (Char × Nat))) (hpos : ∀ r ∈ rles, ∀ x ∈ r, 0 < x.2)
    (r : List (Char × Nat)) (hr : r ∈ rles) :
    ∃ v ∈ toVrles rles, Covers v r := by
  obtain ⟨g, hg, hg1⟩ := (groupBySig_spec rles).2.2 r hr
  refine ⟨vrleOfGroup g.1 g.2, (mem_toVrles _ _).2 ⟨g, hg, rfl⟩, ?_⟩
  exact vrleOfGroup_covers g.1 g.2 r ((groupBySig_mem_group hg).2 ⟨hr, hg1.symm⟩) hg1.symm (hpos r hr)

theorem toVrles_sig_unique (rles : List (List (Char × Nat))) (v w : Vrle)
    (hv : v ∈ toVrles rles) (hw : w ∈ toVrles rles) (h : sigOf v = sigOf w) : v = w := by
  obtain ⟨g, hg, rfl⟩ := (mem_toVrles _ _).1 hv
  obtain ⟨g', hg', rfl⟩ := (mem_toVrles _ _).1 hw
  rw [sigOf_vrleOfGroup, sigOf_vrleOfGroup] at h
  have := List.inj_on_of_nodup_map (groupBySig_spec rles).1 hg hg' h
  rw [this]

/-- every VRLE comes from at least one of the run-length encodings -/
theorem toVrles_from (rles : List (List (Char × Nat))) (v : Vrle) (hv : v ∈ toVrles rles) :
    ∃ r ∈ rles, sigOf r = sigOf v := by
  obtain ⟨g, hg, rfl⟩ := (mem_toVrles _ _).1 hv
  obtain ⟨_, hne⟩ := (groupBySig_spec rles).2.1 g hg
  obtain ⟨r, hr⟩ := List.exists_mem_of_ne_nil _ hne
  obtain ⟨h1, h2⟩ := (groupBySig_mem_group hg).1 hr
  exact ⟨r, h1, by rw [sigOf_vrleOfGroup, h2]⟩

theorem toVrles_length_le (rles : List (List (Char × Nat))) : (toVrles rles).length ≤ rles.eraseDups.length := by
  unfold toVrles
  rw [length_foldr_insertVrle]
  refine Nat.le_trans (eraseDups_length_le _ _ (Nat.le_refl _)) ?_
  rw [List.length_map]
  have hsub : (groupBySig rles).map (·.1) ⊆ rles.eraseDups.map sigOf := by
    intro k hk
    obtain ⟨g, hg, rfl⟩ := List.mem_map.1 hk
    obtain ⟨_, hne⟩ := (groupBySig_spec rles).2.1 g hg
    obtain ⟨r, hr⟩ := List.exists_mem_of_ne_nil _ hne
    obtain ⟨h1, h2⟩ := (groupBySig_mem_group hg).1 hr
    exact List.mem_map.2 ⟨r, List.mem_eraseDups.2 h1, h2⟩
  have := ((groupBySig_spec rles).1.subperm hsub).length_le
  simpa using this

/-! ### clean -/

/-- one step of the loop in `clean` -/
def cleanStep (stripOpt removeEmpties : Bool) (st : List (Line × Nat) × Nat) (it : Option Line × Nat) :
    List (Line × Nat) × Nat :=
  match it.1 with
  | none => st
  | some s =>
    if it.2 == 0 then st
    else
      let t := if stripOpt then strip s else s
      if removeEmpties && t.isEmpty then st
      else (bump t it.2 st.1, if t.length != s.length then st.2 + it.2 else st.2)

theorem clean_strings_eq (so re : Bool) (items : List (Option Line × Nat)) :
    (clean so re items).strings = ((items.foldl (cleanStep so re) ([], 0)).1).map (·.1) := rfl

theorem clean_nStripped_eq (so re : Bool) (items : List (Option Line × Nat)) :
    (clean so re items).nStripped = (items.foldl (cleanStep so re) ([], 0)).2 := rfl

theorem bump_keys (k : Line) (n : Nat) (acc : List (Line × Nat)) :
    (bump k n acc).map (·.1) = if k ∈ acc.map (·.1) then acc.map (·.1) else acc.map (·.1) ++ [k] := by
  induction acc with
  | nil => simp [bump]
  | cons a acc ih =>
    obtain ⟨k', m⟩ := a
    by_cases hk : k' = k
    · subst hk; simp [bump]
    · have hk' : (k' == k) = false := by simpa using hk
      have hk2 : ¬ k = k' := fun h => hk h.symm
      simp only [bump, hk', Bool.false_eq_true, if_false, List.map_cons, ih, List.mem_cons, hk2, false_or]
      split <;> simp

/-- the stripped text of a kept item -/
def keptAs (so re : Bool) (it : Option Line × Nat) (t : Line) : Prop :=
  ∃ s, it.1 = some s ∧ it.2 ≠ 0 ∧ t = (if so then strip s else s) ∧ ¬ (re = true ∧ t = [])

theorem cleanStep_keys (so re : Bool) (st : List (Line × Nat) × Nat) (it : Option Line × Nat) :
    ((cleanStep so re st it).1.map (·.1) = st.1.map (·.1) ∧ (cleanStep so re st it).2 = st.2 ∧
        ∀ t, ¬ keptAs so re it t) ∨
    ∃ t, keptAs so re it t ∧ (∀ t', keptAs so re it t' → t' = t) ∧
      (cleanStep so re st it).1.map (·.1) = (if t ∈ st.1.map (·.1) then st.1.map (·.1) else st.1.map (·.1) ++ [t]) := by
  obtain ⟨o, n⟩ := it
  cases o with
  | none => left; exact ⟨rfl, rfl, by rintro t ⟨s, h, _⟩; cases h⟩
  | some s =>
    by_cases hn : n = 0
    · left; refine ⟨by simp [cleanStep, hn], by simp [cleanStep, hn], ?_⟩
      rintro t ⟨s', _, h, _⟩; exact h hn
    · by_cases hr : (re && (if so then strip s else s).isEmpty) = true
      · left; refine ⟨by simp [cleanStep, hr], by simp [cleanStep, hr], ?_⟩
        rintro t ⟨s', h1, _, h3, h4⟩
        cases h1
        apply h4
        subst h3
        simpa [List.isEmpty_iff] using hr
      · right
        refine ⟨if so then strip s else s, ⟨s, rfl, hn, rfl, ?_⟩, ?_, ?_⟩
        · simpa [List.isEmpty_iff] using hr
        · rintro t' ⟨s', h1, _, h3, _⟩
          cases h1; exact h3
        · simp only [cleanStep, beq_iff_eq, hn, if_false, hr, Bool.false_eq_true]
          exact bump_keys _ _ _

theorem cleanStep_mem (so re : Bool) (st : List (Line × Nat) × Nat) (it : Option Line × Nat) (t : Line) :
    t ∈ (cleanStep so re st it).1.map (·.1) ↔ t ∈ st.1.map (·.1) ∨ keptAs so re it t := by
  rcases cleanStep_keys so re st it with ⟨h1, _, h2⟩ | ⟨t0, h1, h2, h3⟩
  · rw [h1]; exact ⟨Or.inl, fun h => h.resolve_right (h2 t)⟩
  · rw [h3]
    constructor
    · intro h
      split at h
      · exact Or.inl h
      · rcases List.mem_append.1 h with h | h
        · exact Or.inl h
        · rw [List.mem_singleton.1 h]; exact Or.inr h1
    · rintro (h | h)
      · split
        · exact h
        · exact List.mem_append_left _ h
      · rw [h2 t h]
        split
        · assumption
        · simp

theorem cleanStep_nodup (so re : Bool) (st : List (Line × Nat) × Nat) (it : Option Line × Nat)
    (h : (st.1.map (·.1)).Nodup) : ((cleanStep so re st it).1.map (·.1)).Nodup := by
  rcases cleanStep_keys so re st it with ⟨h1, _, _⟩ | ⟨t0, _, _, h3⟩
  · rw [h1]; exact h
  · rw [h3]
    split
    · exact h
    · rename_i hnot
      exact List.nodup_append.2 ⟨h, List.nodup_singleton _, by
        intro a ha b hb; rw [List.mem_singleton.1 hb]; rintro rfl; exact hnot ha⟩

theorem cleanFold_mem (so re : Bool) (items : List (Option Line × Nat)) :
    ∀ (st : List (Line × Nat) × Nat) (t : Line),
      t ∈ (items.foldl (cleanStep so re) st).1.map (·.1) ↔
        t ∈ st.1.map (·.1) ∨ ∃ it ∈ items, keptAs so re it t := by
  induction items with
  | nil => intro st t; simp
  | cons it items ih =>
    intro st t
    rw [List.foldl_cons, ih, cleanStep_mem]
    simp only [List.mem_cons, exists_eq_or_imp, or_assoc]

theorem cleanFold_nodup (so re : Bool) (items : List (Option Line × Nat)) :
    ∀ (st : List (Line × Nat) × Nat), (st.1.map (·.1)).Nodup →
      ((items.foldl (cleanStep so re) st).1.map (·.1)).Nodup := by
  induction items with
  | nil => intro st h; exact h
  | cons it items ih =>
    intro st h
    rw [List.foldl_cons]
    exact ih _ (cleanStep_nodup so re st it h)

/-- clean: the cleaned strings are exactly the kept, stripped examples, each once -/
theorem clean_strings (stripOpt removeEmpties : Bool) (items : List (Option Line × Nat)) (t : Line) :
    t ∈ (clean stripOpt removeEmpties items).strings ↔
      ∃ s n, (some s, n) ∈ items ∧ n ≠ 0 ∧ t = (if stripOpt then strip s else s) ∧
             ¬ (removeEmpties = true ∧ t = []) := by
  rw [clean_strings_eq, cleanFold_mem]
  simp only [List.map_nil, List.not_mem_nil, false_or, keptAs]
  constructor
  · rintro ⟨⟨o, n⟩, hit, s, h1, h2, h3, h4⟩
    simp only at h1 h2
    subst h1
    exact ⟨s, n, hit, h2, h3, h4⟩
  · rintro ⟨s, n, hit, h2, h3, h4⟩
    exact ⟨(some s, n), hit, s, rfl, h2, h3, h4⟩

theorem clean_nodup (stripOpt removeEmpties : Bool) (items : List (Option Line × Nat)) :
    (clean stripOpt removeEmpties items).strings.Nodup := by
  rw [clean_strings_eq]
  exact cleanFold_nodup _ _ _ _ (by simp)

theorem cleanStep_mono (so re : Bool) (st : List (Line × Nat) × Nat) (it : Option Line × Nat) :
    st.2 ≤ (cleanStep so re st it).2 := by
  obtain ⟨o, n⟩ := it
  cases o with
  | none => exact Nat.le_refl _
  | some s =>
    by_cases hn : n = 0
    · simp [cleanStep, hn]
    · by_cases hr : (re && (if so then strip s else s).isEmpty) = true
      · simp [cleanStep, hr]
      · simp only [cleanStep, beq_iff_eq, hn, if_false, hr, Bool.false_eq_true]
        generalize (if so then strip s else s) = t
        by_cases hl : (t.length != s.length) = true <;> simp [hl]

theorem cleanFold_mono (so re : Bool) (items : List (Option Line × Nat)) :
    ∀ (st : List (Line × Nat) × Nat), st.2 ≤ (items.foldl (cleanStep so re) st).2 := by
  induction items with
  | nil => intro st; exact Nat.le_refl _
  | cons it items ih =>
    intro st
    rw [List.foldl_cons]
    exact Nat.le_trans (cleanStep_mono so re st it) (ih _)

theorem cleanFold_zero (re : Bool) (items : List (Option Line × Nat)) (s : Line) (n : Nat) (hn : n ≠ 0)
    (hne : ¬ (re = true ∧ strip s = [])) :
    ∀ (st : List (Line × Nat) × Nat), (items.foldl (cleanStep true re) st).2 = 0 →
      (some s, n) ∈ items → (strip s).length = s.length := by
  induction items with
  | nil => intro st _ h; cases h
  | cons it items ih =>
    intro st h0 hmem
    rw [List.foldl_cons] at h0
    rcases List.mem_cons.1 hmem with rfl | hmem
    · by_contra hlen
      have hr : ¬ ((re && (strip s).isEmpty) = true) := by
        simpa [List.isEmpty_iff] using hne
      have : (cleanStep true re st (some s, n)).2 = st.2 + n := by
        simp [cleanStep, hn, hr, hlen]
      have h1 := cleanFold_mono true re items (cleanStep true re st (some s, n))
      omega
    · exact ih _ h0 hmem

/-- if stripping changed no example, every kept example is unchanged by stripping.
    (Examples dropped by `remove_empties` are skipped before the length test, so they must be
    excluded: `clean true true [(some "  ", 1)]` has `nStripped = 0`.) -/
theorem clean_nStripped_zero (stripOpt removeEmpties : Bool) (items : List (Option Line × Nat))
    (h : (clean stripOpt removeEmpties items).nStripped = 0) (s : Line) (n : Nat)
    (hs : (some s, n) ∈ items) (hn : n ≠ 0) (hst : stripOpt = true)
    (hne : ¬ (removeEmpties = true ∧ strip s = [])) : (strip s).length = s.length := by
  subst hst
  rw [clean_nStripped_eq] at h
  exact cleanFold_zero removeEmpties items s n hn hne _ h hs

end TddaVerif.Props.C03.Lemmas
