/- Stage lemmas for rexpy, part B: run-length encodings, VRLEs, cleaning, sorting. -/
import TddaVerif.Model.Rexpy
import TddaVerif.Props.C03Spec

namespace TddaVerif.Props.C03.Lemmas
open TddaVerif.Py TddaVerif.Rexpy TddaVerif.Props.C03

/-- a run-length encoding describes its string: runs are non-empty and expand back to it -/
theorem rle_expand (s : List Char) :
    ((rle s).map (fun r => List.replicate r.2 r.1)).flatten = s ∧ ∀ r ∈ rle s, 0 < r.2 := by
  sorry

/-- the VRLE `v` covers the run-length encoding `r`: same categories, each count within the range -/
def Covers (v : Vrle) (r : List (Char × Nat)) : Prop :=
  sigOf v = sigOf r ∧
  ∀ i, i < r.length →
    let n := (r.getD i ('?', 0)).2
    let f := v.getD i ('?', 0, none)
    (match f.2.2 with | some M => f.2.1 ≤ n ∧ n ≤ M | none => min f.2.1 1 ≤ n)

/-- to_vrles: every run-length encoding (with non-empty runs) is covered by the VRLE of its signature,
    and that VRLE is the only one with that signature -/
theorem toVrles_covers (rles : List (List (Char × Nat))) (hpos : ∀ r ∈ rles, ∀ x ∈ r, 0 < x.2)
    (r : List (Char × Nat)) (hr : r ∈ rles) :
    ∃ v ∈ toVrles rles, Covers v r := by
  sorry

theorem toVrles_sig_unique (rles : List (List (Char × Nat))) (v w : Vrle)
    (hv : v ∈ toVrles rles) (hw : w ∈ toVrles rles) (h : sigOf v = sigOf w) : v = w := by
  sorry

/-- every VRLE comes from at least one of the run-length encodings -/
theorem toVrles_from (rles : List (List (Char × Nat))) (v : Vrle) (hv : v ∈ toVrles rles) :
    ∃ r ∈ rles, sigOf r = sigOf v := by
  sorry

theorem toVrles_length_le (rles : List (List (Char × Nat))) : (toVrles rles).length ≤ rles.eraseDups.length := by
  sorry

/-- sort_by_length only reorders -/
theorem sortByLength_perm (ps : List Pattern) : (sortByLength ps).Perm ps := by
  sorry

/-- clean: the cleaned strings are exactly the kept, stripped examples, each once -/
theorem clean_strings (stripOpt removeEmpties : Bool) (items : List (Option Line × Nat)) (t : Line) :
    t ∈ (clean stripOpt removeEmpties items).strings ↔
      ∃ s n, (some s, n) ∈ items ∧ n ≠ 0 ∧ t = (if stripOpt then strip s else s) ∧
             ¬ (removeEmpties = true ∧ t = []) := by
  sorry

theorem clean_nodup (stripOpt removeEmpties : Bool) (items : List (Option Line × Nat)) :
    (clean stripOpt removeEmpties items).strings.Nodup := by
  sorry

/-- if stripping changed no example, the cleaned strings are the kept examples themselves -/
theorem clean_nStripped_zero (stripOpt removeEmpties : Bool) (items : List (Option Line × Nat))
    (h : (clean stripOpt removeEmpties items).nStripped = 0) (s : Line) (n : Nat)
    (hs : (some s, n) ∈ items) (hn : n ≠ 0) (hst : stripOpt = true) : (strip s).length = s.length := by
  sorry

/-- `strip` removes a prefix and a suffix of whitespace characters -/
theorem strip_decompose (s : Line) :
    ∃ pre post, s = pre ++ strip s ++ post ∧ (∀ c ∈ pre, isSpace c = true) ∧ (∀ c ∈ post, isSpace c = true) := by
  sorry

end TddaVerif.Props.C03.Lemmas
