/- `sortLines` (insertion sort for the code-point order) characterises permutations. -/
import TddaVerif.Py.Text

namespace TddaVerif.Props.C04.Lemmas
open TddaVerif.Py

/-- `ltLine` is asymmetric -/
theorem ltLine_asymm : ∀ (a b : Line), ltLine a b = true → ltLine b a = false
  | [], [], h => by simp [ltLine] at h
  | [], _ :: _, _ => by simp [ltLine]
  | _ :: _, [], h => by simp [ltLine] at h
  | a :: as, b :: bs, h => by
    simp only [ltLine] at h ⊢
    by_cases h1 : a.toNat < b.toNat
    · have h2 : ¬ b.toNat < a.toNat := by omega
      simp [h1, h2]
    · by_cases h2 : b.toNat < a.toNat
      · simp [h1, h2] at h
      · simp only [h1, h2, if_false] at h ⊢
        exact ltLine_asymm as bs h

/-- the non-strict order `b ≮ a` is transitive -/
theorem leLine_trans : ∀ (x y z : Line),
    ltLine y x = false → ltLine z y = false → ltLine z x = false
  | [], _, [], _, _ => by simp [ltLine]
  | [], _, _ :: _, _, _ => by simp [ltLine]
  | _ :: _, [], [], h1, _ => by simp [ltLine] at h1
  | _ :: _, _ :: _, [], _, h2 => by simp [ltLine] at h2
  | _ :: _, [], _ :: _, h1, _ => by simp [ltLine] at h1
  | a :: as, b :: bs, c :: cs, h1, h2 => by
    simp only [ltLine] at h1 h2 ⊢
    by_cases hba : b.toNat < a.toNat
    · simp [hba] at h1
    · by_cases hab : a.toNat < b.toNat
      · by_cases hcb : c.toNat < b.toNat
        · simp [hcb] at h2
        · have h3 : ¬ c.toNat < a.toNat := by omega
          have h4 : a.toNat < c.toNat := by omega
          simp [h3, h4]
      · simp only [hba, hab, if_false] at h1
        by_cases hcb : c.toNat < b.toNat
        · simp [hcb] at h2
        · by_cases hbc : b.toNat < c.toNat
          · have h3 : ¬ c.toNat < a.toNat := by omega
            have h4 : a.toNat < c.toNat := by omega
            simp [h3, h4]
          · simp only [hcb, hbc, if_false] at h2
            have h3 : ¬ c.toNat < a.toNat := by omega
            have h4 : ¬ a.toNat < c.toNat := by omega
            simp only [h3, h4, if_false]
            exact leLine_trans as bs cs h1 h2

/-- trichotomy -/
theorem leLine_antisymm : ∀ (a b : Line), ltLine a b = false → ltLine b a = false → a = b
  | [], [], _, _ => rfl
  | [], _ :: _, h, _ => by simp [ltLine] at h
  | _ :: _, [], _, h => by simp [ltLine] at h
  | a :: as, b :: bs, h1, h2 => by
    simp only [ltLine] at h1 h2
    by_cases hab : a.toNat < b.toNat
    · simp [hab] at h1
    · by_cases hba : b.toNat < a.toNat
      · simp [hba] at h2
      · simp only [hab, hba, if_false] at h1 h2
        have hn : a.toNat = b.toNat := by omega
        have hc : a = b := Char.toNat_inj.mp hn
        rw [hc, leLine_antisymm as bs h1 h2]

theorem insertLine_perm (x : Line) (l : List Line) : (insertLine x l).Perm (x :: l) := by
  induction l with
  | nil => simp [insertLine]
  | cons y ys ih =>
    simp only [insertLine]
    split
    · exact (List.Perm.cons y ih).trans (List.Perm.swap x y ys)
    · exact List.Perm.refl _

theorem sortLines_perm (l : List Line) : (sortLines l).Perm l := by
  induction l with
  | nil => simp [sortLines]
  | cons x xs ih =>
    show (insertLine x (sortLines xs)).Perm (x :: xs)
    exact (insertLine_perm x _).trans (List.Perm.cons x ih)

theorem insertLine_sorted (x : Line) (l : List Line)
    (h : l.Pairwise (fun a b => ltLine b a = false)) :
    (insertLine x l).Pairwise (fun a b => ltLine b a = false) := by
  induction l with
  | nil => simp [insertLine]
  | cons y ys ih =>
    have hy := List.pairwise_cons.mp h
    simp only [insertLine]
    split
    · rename_i hyx
      refine List.pairwise_cons.mpr ⟨?_, ih hy.2⟩
      intro w hw
      rcases List.mem_cons.mp ((insertLine_perm x ys).subset hw) with rfl | hw'
      · exact ltLine_asymm _ _ hyx
      · exact hy.1 w hw'
    · rename_i hyx
      have hyx' : ltLine y x = false := by simpa using hyx
      refine List.pairwise_cons.mpr ⟨?_, h⟩
      intro w hw
      rcases List.mem_cons.mp hw with rfl | hw'
      · exact hyx'
      · exact leLine_trans _ _ _ hyx' (hy.1 w hw')

theorem sortLines_sorted (l : List Line) :
    (sortLines l).Pairwise (fun a b => ltLine b a = false) := by
  induction l with
  | nil => simp [sortLines]
  | cons x xs ih => exact insertLine_sorted x _ ih

theorem sorted_eq_iff_perm (x y : List Line) : sortLines x = sortLines y ↔ x.Perm y := by
  constructor
  · intro h
    exact (sortLines_perm x).symm.trans (h ▸ sortLines_perm y)
  · intro h
    refine List.Perm.eq_of_pairwise (le := fun a b => ltLine b a = false) ?_
      (sortLines_sorted x) (sortLines_sorted y)
      ((sortLines_perm x).trans (h.trans (sortLines_perm y).symm))
    intro a b _ _ h1 h2
    exact leLine_antisymm a b h2 h1

end TddaVerif.Props.C04.Lemmas
