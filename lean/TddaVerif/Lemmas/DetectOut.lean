/- Proofs about Model/DetectOut.lean. -/
import TddaVerif.Model.DetectOut

namespace TddaVerif.DetectOut.Lemmas
open TddaVerif.DetectOut

theorem mem_numberFrom (k : Nat) (l : List Nat) (r v : Nat) :
    (r, v) ∈ numberFrom k l ↔ ∃ i, i < l.length ∧ r = k + i ∧ l[i]? = some v := by
  induction l generalizing k with
  | nil => simp [numberFrom]
  | cons x xs ih =>
    simp only [numberFrom, List.mem_cons, Prod.mk.injEq, ih]
    constructor
    · rintro (⟨rfl, rfl⟩ | ⟨i, hi, hr, hv⟩)
      · exact ⟨0, by simp, by simp, by simp⟩
      · exact ⟨i + 1, by simp; omega, by omega, by simpa using hv⟩
    · rintro ⟨i, hi, hr, hv⟩
      cases i with
      | zero => left; simp at hv; exact ⟨by omega, hv.symm⟩
      | succ j => right; exact ⟨j, by simp at hi; omega, by omega, by simpa using hv⟩

/-- every row written carries the position (from 1) of its record in the input, and that record's count -/
theorem written_rows_are_positions (nf : List Nat) (wa : Bool) (r v : Nat) (h : (r, v) ∈ written nf wa) :
    1 ≤ r ∧ r ≤ nf.length ∧ nf[r - 1]? = some v := by
  have : (r, v) ∈ numberFrom 1 nf := by
    unfold written at h
    split at h
    · exact h
    · exact (List.mem_filter.mp h).1
  obtain ⟨i, hi, hr, hv⟩ := (mem_numberFrom 1 nf r v).mp this
  subst hr
  refine ⟨by omega, by omega, ?_⟩
  have : 1 + i - 1 = i := by omega
  rw [this]; exact hv

/-- without write_all only failing records are written -/
theorem written_failing (nf : List Nat) (r v : Nat) (h : (r, v) ∈ written nf false) : v > 0 := by
  unfold written at h
  simp only [Bool.false_eq_true, if_false] at h
  have := (List.mem_filter.mp h).2
  simpa using this

/-- and every failing record (every record with write_all) is written, under its own position -/
theorem failing_written (nf : List Nat) (wa : Bool) (i v : Nat) (hv : nf[i]? = some v) (h : wa = true ∨ v > 0) :
    (i + 1, v) ∈ written nf wa := by
  have hi : i < nf.length := by
    rcases Nat.lt_or_ge i nf.length with h1 | h1
    · exact h1
    · have : nf[i]? = none := List.getElem?_eq_none h1
      rw [this] at hv; cases hv
  have hm : (i + 1, v) ∈ numberFrom 1 nf := (mem_numberFrom 1 nf (i + 1) v).mpr ⟨i, hi, by omega, hv⟩
  unfold written
  split
  · exact hm
  · rename_i hw
    refine List.mem_filter.mpr ⟨hm, ?_⟩
    rcases h with h | h
    · exact absurd h hw
    · simpa using h

theorem numberFrom_sorted (k : Nat) (l : List Nat) : (numberFrom k l).Pairwise (fun a b => a.1 < b.1) := by
  induction l generalizing k with
  | nil => simp [numberFrom]
  | cons x xs ih =>
    simp only [numberFrom, List.pairwise_cons]
    refine ⟨?_, ih (k + 1)⟩
    intro p hp
    obtain ⟨i, _, hr, _⟩ := (mem_numberFrom (k + 1) xs p.1 p.2).mp hp
    show k < p.1
    omega

/-- the rows are written in the order of the input: row numbers strictly increase (no record twice) -/
theorem written_sorted (nf : List Nat) (wa : Bool) : (written nf wa).Pairwise (fun a b => a.1 < b.1) := by
  unfold written
  split
  · exact numberFrom_sorted 1 nf
  · exact (numberFrom_sorted 1 nf).filter _

end TddaVerif.DetectOut.Lemmas
