/-
`get_date (str (datetime))` gives the datetime back: the text written by `strDatetime` is
re-read by `getDate` as the same civil fields.
-/
import TddaVerif.Model.TddaFile
namespace TddaVerif.Props.C09.Aux
open TddaVerif.Py TddaVerif.TddaFile

theorem digit_facts :
    ∀ m, m < 10 → isDigit (Char.ofNat (48 + m)) = true ∧ (Char.ofNat (48 + m)).toNat - 48 = m := by
  decide

theorem isDigit_digitChar (n : Nat) : isDigit (digitChar n) = true :=
  (digit_facts (n % 10) (Nat.mod_lt _ (by omega))).1

theorem toNat_digitChar (n : Nat) : (digitChar n).toNat - 48 = n % 10 :=
  (digit_facts (n % 10) (Nat.mod_lt _ (by omega))).2

theorem length_pad (k n : Nat) : (pad k n).length = k := by
  induction k generalizing n with
  | zero => rfl
  | succ k ih => simp [pad, ih]

theorem all_pad (k n : Nat) : (pad k n).all isDigit = true := by
  induction k generalizing n with
  | zero => rfl
  | succ k ih =>
    rw [pad, List.all_append, ih]
    simp [isDigit_digitChar]

theorem natOfDigits_snoc (l : Line) (c : Char) :
    natOfDigits (l ++ [c]) = 10 * natOfDigits l + (c.toNat - 48) := by
  simp [natOfDigits, List.foldl_append]

theorem natOfDigits_pad (k n : Nat) : natOfDigits (pad k n) = n % 10 ^ k := by
  induction k generalizing n with
  | zero => simp [pad, natOfDigits, Nat.mod_one]
  | succ k ih =>
    rw [pad, natOfDigits_snoc, ih, toNat_digitChar, Nat.pow_succ', Nat.mod_mul]
    omega

theorem takeExact_pad (k n : Nat) (rest : Line) :
    takeExact k (pad k n ++ rest) = some (n % 10 ^ k, rest) := by
  have hl := length_pad k n
  have h1 : (pad k n ++ rest).take k = pad k n := List.take_left' hl
  have h2 : (pad k n ++ rest).drop k = rest := List.drop_left' hl
  simp only [takeExact, h1, h2, hl, all_pad, natOfDigits_pad]
  simp

theorem takeWhile_all (p : Line) (hp : p.all isDigit = true) : p.takeWhile isDigit = p := by
  induction p with
  | nil => rfl
  | cons a p ih =>
    rw [List.all_cons, Bool.and_eq_true] at hp
    rw [List.takeWhile_cons, hp.1]
    simp [ih hp.2]

theorem takeWhile_digits (p : Line) (hp : p.all isDigit = true) (c : Char) (rest : Line)
    (hc : isDigit c = false) : (p ++ c :: rest).takeWhile isDigit = p := by
  induction p with
  | nil => simp [hc]
  | cons a p ih =>
    rw [List.all_cons, Bool.and_eq_true] at hp
    rw [List.cons_append, List.takeWhile_cons, hp.1]
    simp [ih hp.2]

theorem takeDigits_pad2 (n : Nat) (c : Char) (rest : Line) (hc : isDigit c = false) :
    takeDigits 2 (pad 2 n ++ c :: rest) = some (n % 100, c :: rest) := by
  have hl := length_pad 2 n
  have h1 : (pad 2 n).take 2 = pad 2 n := List.take_of_length_le (by omega)
  have h2 : (pad 2 n ++ c :: rest).drop 2 = c :: rest := List.drop_left' hl
  have h3 : (pad 2 n).isEmpty = false := by
    cases h : pad 2 n with
    | nil => rw [h] at hl; simp at hl
    | cons a l => rfl
  simp only [takeDigits, takeWhile_digits _ (all_pad 2 n) c rest hc, h1, hl, h2, h3,
    natOfDigits_pad]
  simp

theorem parseDatePart_pad (y mo d : Nat) (rest : Line) :
    parseDatePart (pad 4 y ++ '-' :: (pad 2 mo ++ '-' :: (pad 2 d ++ ' ' :: rest))) =
      some (y % 10000, mo % 100, d % 100, ' ' :: rest) := by
  have h1 : isDigit '-' = false := by decide
  have h2 : isDigit ' ' = false := by decide
  simp [parseDatePart, takeExact_pad, expectOneOf, takeDigits_pad2 _ _ _ h1,
    takeDigits_pad2 _ _ _ h2]

theorem parseTimePart_pad (h mi s : Nat) (rest : Line) :
    parseTimePart (' ' :: (pad 2 h ++ ':' :: (pad 2 mi ++ ':' :: (pad 2 s ++ rest)))) =
      some (h % 100, mi % 100, s % 100, rest) := by
  have h1 : isDigit ':' = false := by decide
  simp [parseTimePart, takeExact_pad, expectOneOf, takeDigits_pad2 _ _ _ h1]

theorem strNaive_eq (t : Naive) :
    strNaive t = pad 4 t.y ++ '-' :: (pad 2 t.mo ++ '-' :: (pad 2 t.d ++ ' ' ::
      (pad 2 t.h ++ ':' :: (pad 2 t.mi ++ ':' :: (pad 2 t.s ++
        (if t.us == 0 then [] else '.' :: pad 6 t.us)))))) := by
  simp only [strNaive, List.append_assoc, List.cons_append, List.nil_append]

theorem daysInMonth_le (y m : Nat) : daysInMonth y m ≤ 31 := by
  unfold daysInMonth
  split
  · split <;> omega
  · split <;> omega

/-- the naive text is read back by the naive layouts, and it is not the date-only layout that matches -/
theorem getNaiveL_strNaive (t : Naive) (h : t.valid = true) : getNaiveL (strNaive t) = (.ok t, false) := by
  obtain ⟨y, mo, d, hh, mi, s, us⟩ := t
  have hv := h
  simp only [Naive.valid, Bool.and_eq_true, decide_eq_true_eq] at hv
  obtain ⟨⟨⟨⟨⟨⟨⟨⟨⟨hy1, hy2⟩, hm1⟩, hm2⟩, hd1⟩, hd2⟩, hh2⟩, hmi⟩, hs⟩, hus⟩ := hv
  have hd3 := daysInMonth_le y mo
  have ey : y % 10000 = y := Nat.mod_eq_of_lt (by omega)
  have emo : mo % 100 = mo := Nat.mod_eq_of_lt (by omega)
  have ed : d % 100 = d := Nat.mod_eq_of_lt (by omega)
  have eh : hh % 100 = hh := Nat.mod_eq_of_lt (by omega)
  have emi : mi % 100 = mi := Nat.mod_eq_of_lt (by omega)
  have es : s % 100 = s := Nat.mod_eq_of_lt (by omega)
  have eus : us % 1000000 = us := Nat.mod_eq_of_lt (by omega)
  rw [strNaive_eq]
  simp only [getNaiveL, parseDatePart_pad, parseTimePart_pad, ey, emo, ed, eh, emi, es]
  by_cases h0 : us = 0
  · subst h0
    simp [h]
  · have hb : (us == 0) = false := by simp [h0]
    have hne : (pad 6 us).isEmpty = false := by
      have hl := length_pad 6 us
      cases hp : pad 6 us with
      | nil => rw [hp] at hl; simp at hl
      | cons a l => rfl
    simp [hb, takeWhile_all _ (all_pad 6 us), hne, length_pad, natOfDigits_pad, eus, h]

theorem getNaive_strNaive (t : Naive) (h : t.valid = true) : getNaive (strNaive t) = .ok t := by
  simp [getNaive, getNaiveL_strNaive t h]

theorem pad_two (n : Nat) : pad 2 n = [digitChar (n / 10), digitChar n] := by
  simp [pad]

theorem pad_six (n : Nat) : pad 6 n = [digitChar (n / 10 / 10 / 10 / 10 / 10), digitChar (n / 10 / 10 / 10 / 10),
    digitChar (n / 10 / 10 / 10), digitChar (n / 10 / 10), digitChar (n / 10), digitChar n] := by
  simp [pad]

theorem digitChar_ne (n : Nat) (c : Char) (hc : isDigit c = false) : digitChar n ≠ c := by
  intro h
  have := isDigit_digitChar n
  rw [h, hc] at this
  cases this

theorem not_mem_pad (k n : Nat) (c : Char) (hc : isDigit c = false) : ¬ c ∈ pad k n := by
  intro hm
  have := all_pad k n
  rw [List.all_eq_true] at this
  have := this c hm
  rw [hc] at this
  cases this

theorem nl_not_mem_strNaive (t : Naive) : ¬ '\n' ∈ strNaive t := by
  have hd : isDigit '\n' = false := by decide
  have := fun k n => not_mem_pad k n '\n' hd
  rw [strNaive_eq]
  split <;> simp [this]

theorem nl_not_mem_strOffset (o : Int) : ¬ '\n' ∈ strOffset o := by
  have hd : isDigit '\n' = false := by decide
  have := fun k n => not_mem_pad k n '\n' hd
  unfold strOffset
  split <;> simp [this]

theorem splitOffset_six (body : Line) (sg h1 h2 c m1 m2 : Char)
    (hn : ¬ '\n' ∈ body ++ [sg, h1, h2, c, m1, m2]) :
    splitOffset (body ++ [sg, h1, h2, c, m1, m2]) =
      if (sg == '+' || sg == '-') && isDigit h1 && isDigit h2 && c == ':' && isDigit m1 && isDigit m2 &&
         endsWithSeconds body then
        some (body, if sg == '-' then -((natOfDigits [h1, h2] * 60 + natOfDigits [m1, m2] : Nat) : Int)
          else ((natOfDigits [h1, h2] * 60 + natOfDigits [m1, m2] : Nat) : Int))
      else none := by
  have hm2 : m2 ≠ '\n' := by
    intro h; apply hn; simp [h]
  have hl : (body ++ [sg, h1, h2, c, m1, m2]).getLast? = some m2 := by simp
  have hc : (body ++ [sg, h1, h2, c, m1, m2]).contains '\n' = false := by
    simpa using hn
  have hlen : (body ++ [sg, h1, h2, c, m1, m2]).length - 6 = body.length := by simp
  have hlt : ¬ (body ++ [sg, h1, h2, c, m1, m2]).length < 6 := by simp
  have e1 : (if (body ++ [sg, h1, h2, c, m1, m2]).getLast? == some '\n' then (body ++ [sg, h1, h2, c, m1, m2]).dropLast
      else body ++ [sg, h1, h2, c, m1, m2]) = body ++ [sg, h1, h2, c, m1, m2] := by
    rw [hl, if_neg]; simpa using hm2
  have e2 : (body ++ [sg, h1, h2, c, m1, m2]).take body.length = body := List.take_left' rfl
  have e3 : (body ++ [sg, h1, h2, c, m1, m2]).drop body.length = [sg, h1, h2, c, m1, m2] := List.drop_left' rfl
  simp only [splitOffset, e1, hc, hlen, e2, e3]
  simp
  intro h; omega

theorem endsWithSeconds_plain (P : Line) (a b : Char) (ha : isDigit a = true) (hb : isDigit b = true) :
    endsWithSeconds (P ++ [':', a, b]) = true := by
  simp [endsWithSeconds, ha, hb]

theorem endsWithSeconds_frac (P ds : Line) (a b : Char) (ha : isDigit a = true) (hb : isDigit b = true)
    (hds : ds.all isDigit = true) (hne : ds ≠ []) :
    endsWithSeconds (P ++ ':' :: a :: b :: '.' :: ds) = true := by
  have hr : (P ++ ':' :: a :: b :: '.' :: ds).reverse = ds.reverse ++ '.' :: b :: a :: ':' :: P.reverse := by
    simp
  have hall : ds.reverse.all isDigit = true := by simpa using hds
  have hdot : isDigit '.' = false := by decide
  have htw := takeWhile_digits ds.reverse hall '.' (b :: a :: ':' :: P.reverse) hdot
  have hdrop : (ds.reverse ++ '.' :: b :: a :: ':' :: P.reverse).drop ds.reverse.length =
      '.' :: b :: a :: ':' :: P.reverse := List.drop_left' rfl
  have hemp : ds.reverse.isEmpty = false := by simpa using hne
  simp only [endsWithSeconds, hr, htw, hdrop, hemp]
  simp [ha, hb]

theorem strNaive_zero (t : Naive) (h0 : t.us = 0) :
    strNaive t = (pad 4 t.y ++ '-' :: (pad 2 t.mo ++ '-' :: (pad 2 t.d ++ ' ' :: pad 2 t.h))) ++
      [':', digitChar (t.mi / 10), digitChar t.mi, ':', digitChar (t.s / 10), digitChar t.s] := by
  rw [strNaive_eq]
  simp [h0, pad_two]

theorem strNaive_nonzero (t : Naive) (h0 : t.us ≠ 0) :
    strNaive t = (pad 4 t.y ++ '-' :: (pad 2 t.mo ++ '-' :: (pad 2 t.d ++ ' ' :: (pad 2 t.h ++ ':' :: pad 2 t.mi)))) ++
      ':' :: digitChar (t.s / 10) :: digitChar t.s :: '.' :: pad 6 t.us := by
  rw [strNaive_eq]
  simp [h0, pad_two]

theorem endsWithSeconds_strNaive (t : Naive) : endsWithSeconds (strNaive t) = true := by
  by_cases h0 : t.us = 0
  · rw [strNaive_zero t h0]
    have := endsWithSeconds_plain
      ((pad 4 t.y ++ '-' :: (pad 2 t.mo ++ '-' :: (pad 2 t.d ++ ' ' :: pad 2 t.h))) ++
        [':', digitChar (t.mi / 10), digitChar t.mi]) (digitChar (t.s / 10)) (digitChar t.s)
      (isDigit_digitChar _) (isDigit_digitChar _)
    simpa using this
  · rw [strNaive_nonzero t h0]
    apply endsWithSeconds_frac _ _ _ _ (isDigit_digitChar _) (isDigit_digitChar _) (all_pad 6 t.us)
    intro h
    have := length_pad 6 t.us
    rw [h] at this
    cases this

/-- the naive text carries no UTC offset: RTZ does not match it -/
theorem splitOffset_strNaive (t : Naive) (h : t.valid = true) : splitOffset (strNaive t) = none := by
  have _ := h  -- the validity is not needed: no `strNaive` text has an offset
  have hn := nl_not_mem_strNaive t
  by_cases h0 : t.us = 0
  · rw [strNaive_zero t h0] at hn ⊢
    rw [splitOffset_six _ _ _ _ _ _ _ hn]
    simp
  · have e : strNaive t = (pad 4 t.y ++ '-' :: (pad 2 t.mo ++ '-' :: (pad 2 t.d ++ ' ' :: (pad 2 t.h ++ ':' ::
        (pad 2 t.mi ++ [':', digitChar (t.s / 10), digitChar t.s, '.']))))) ++
        [digitChar (t.us / 10 / 10 / 10 / 10 / 10), digitChar (t.us / 10 / 10 / 10 / 10),
          digitChar (t.us / 10 / 10 / 10), digitChar (t.us / 10 / 10), digitChar (t.us / 10), digitChar t.us] := by
      rw [strNaive_nonzero t h0, pad_six]
      simp
    rw [e] at hn ⊢
    rw [splitOffset_six _ _ _ _ _ _ _ hn]
    have hp := digitChar_ne (t.us / 10 / 10 / 10 / 10 / 10) '+' (by decide)
    have hm := digitChar_ne (t.us / 10 / 10 / 10 / 10 / 10) '-' (by decide)
    simp [hp, hm]

/-- the text of an aware datetime splits into the naive text and the offset -/
theorem splitOffset_strAware (t : Naive) (o : Int) (h : t.valid = true) (h1 : -1440 < o) (h2 : o < 1440) :
    splitOffset (strNaive t ++ strOffset o) = some (strNaive t, o) := by
  have _ := h  -- the validity of the naive part is not needed
  have hn : ¬ '\n' ∈ strNaive t ++ strOffset o := by
    simp [nl_not_mem_strNaive, nl_not_mem_strOffset]
  have e : strOffset o = [(if o < 0 then '-' else '+'), digitChar (o.natAbs / 60 / 10), digitChar (o.natAbs / 60),
      ':', digitChar (o.natAbs % 60 / 10), digitChar (o.natAbs % 60)] := by
    simp [strOffset, pad_two]
  rw [e] at hn ⊢
  rw [splitOffset_six _ _ _ _ _ _ _ hn]
  have n1 : natOfDigits [digitChar (o.natAbs / 60 / 10), digitChar (o.natAbs / 60)] = o.natAbs / 60 := by
    rw [← pad_two, natOfDigits_pad]; omega
  have n2 : natOfDigits [digitChar (o.natAbs % 60 / 10), digitChar (o.natAbs % 60)] = o.natAbs % 60 := by
    rw [← pad_two, natOfDigits_pad]; omega
  have hs : ((if o < 0 then '-' else '+') == '+' || (if o < 0 then '-' else '+') == '-') = true := by
    split <;> decide
  simp only [hs, isDigit_digitChar, endsWithSeconds_strNaive, n1, n2, Bool.and_self, beq_self_eq_true, if_true]
  by_cases ho : o < 0
  · simp [ho]; omega
  · simp [ho]; omega

theorem getDate_strDatetime (t : Civil) (h : t.valid = true) : getDate (strDatetime t) = .ok t := by
  obtain ⟨n, off⟩ := t
  cases off with
  | none =>
    have hv : n.valid = true := by simpa [Civil.valid] using h
    simp [getDate, strDatetime, splitOffset_strNaive n hv, getNaive_strNaive n hv]
  | some o =>
    have hv : n.valid = true ∧ -1440 < o ∧ o < 1440 := by simpa [Civil.valid] using h
    simp [getDate, strDatetime, splitOffset_strAware n o hv.1 hv.2.1 hv.2.2, getNaiveL_strNaive n hv.1, hv.2.1, hv.2.2]

end TddaVerif.Props.C09.Aux
