/-
`get_date (str (datetime))` gives the datetime back: the text written by `strDatetime` is
re-read by `getDate` as the same civil fields.
-/
import TddaVerif.Model.TddaFile
namespace TddaVerif.Props.C09.Aux
open TddaVerif.Py TddaVerif.TddaFile

theorem digit_facts :
    ∀ m, m < 10 → isDigit (Char.ofNat (48 + m)) = true ∧ (Char.ofNat (48 + m)).toNat - 48 = m := by
  decide

theorem isDigit_digitChar (n : Nat) : isDigit (digitChar n) = true :=
  (digit_facts (n % 10) (Nat.mod_lt _ (by omega))).1

theorem toNat_digitChar (n : Nat) : (digitChar n).toNat - 48 = n % 10 :=
  (digit_facts (n % 10) (Nat.mod_lt _ (by omega))).2

theorem length_pad (k n : Nat) : (pad k n).length = k := by
  induction k generalizing n with
  | zero => rfl
  | succ k ih => simp [pad, ih]

theorem all_pad (k n : Nat) : (pad k n).all isDigit = true := by
  induction k generalizing n with
  | zero => rfl
  | succ k ih =>
    rw [pad, List.all_append, ih]
    simp [isDigit_digitChar]

theorem natOfDigits_snoc (l : Line) (c : Char) :
    natOfDigits (l ++ [c]) = 10 * natOfDigits l + (c.toNat - 48) := by
  simp [natOfDigits, List.foldl_append]

theorem natOfDigits_pad (k n : Nat) : natOfDigits (pad k n) = n % 10 ^ k := by
  induction k generalizing n with
  | zero => simp [pad, natOfDigits, Nat.mod_one]
  | succ k ih =>
    rw [pad, natOfDigits_snoc, ih, toNat_digitChar, Nat.pow_succ', Nat.mod_mul]
    omega

theorem takeExact_pad (k n : Nat) (rest : Line) :
    takeExact k (pad k n ++ rest) = some (n % 10 ^ k, rest) := by
  have hl := length_pad k n
  have h1 : (pad k n ++ rest).take k = pad k n := List.take_left' hl
  have h2 : (pad k n ++ rest).drop k = rest := List.drop_left' hl
  simp only [takeExact, h1, h2, hl, all_pad, natOfDigits_pad]
  simp

theorem takeWhile_all (p : Line) (hp : p.all isDigit = true) : p.takeWhile isDigit = p := by
  induction p with
  | nil => rfl
  | cons a p ih =>
    rw [List.all_cons, Bool.and_eq_true] at hp
    rw [List.takeWhile_cons, hp.1]
    simp [ih hp.2]

theorem takeWhile_digits (p : Line) (hp : p.all isDigit = true) (c : Char) (rest : Line)
    (hc : isDigit c = false) : (p ++ c :: rest).takeWhile isDigit = p := by
  induction p with
  | nil => simp [hc]
  | cons a p ih =>
    rw [List.all_cons, Bool.and_eq_true] at hp
    rw [List.cons_append, List.takeWhile_cons, hp.1]
    simp [ih hp.2]

theorem takeDigits_pad2 (n : Nat) (c : Char) (rest : Line) (hc : isDigit c = false) :
    takeDigits 2 (pad 2 n ++ c :: rest) = some (n % 100, c :: rest) := by
  have hl := length_pad 2 n
  have h1 : (pad 2 n).take 2 = pad 2 n := List.take_of_length_le (by omega)
  have h2 : (pad 2 n ++ c :: rest).drop 2 = c :: rest := List.drop_left' hl
  have h3 : (pad 2 n).isEmpty = false := by
    cases h : pad 2 n with
    | nil => rw [h] at hl; simp at hl
    | cons a l => rfl
  simp only [takeDigits, takeWhile_digits _ (all_pad 2 n) c rest hc, h1, hl, h2, h3,
    natOfDigits_pad]
  simp

theorem parseDatePart_pad (y mo d : Nat) (rest : Line) :
    parseDatePart (pad 4 y ++ '-' :: (pad 2 mo ++ '-' :: (pad 2 d ++ ' ' :: rest))) =
      some (y % 10000, mo % 100, d % 100, ' ' :: rest) := by
  have h1 : isDigit '-' = false := by decide
  have h2 : isDigit ' ' = false := by decide
  simp [parseDatePart, takeExact_pad, expectOneOf, takeDigits_pad2 _ _ _ h1,
    takeDigits_pad2 _ _ _ h2]

theorem parseTimePart_pad (h mi s : Nat) (rest : Line) :
    parseTimePart (' ' :: (pad 2 h ++ ':' :: (pad 2 mi ++ ':' :: (pad 2 s ++ rest)))) =
      some (h % 100, mi % 100, s % 100, rest) := by
  have h1 : isDigit ':' = false := by decide
  simp [parseTimePart, takeExact_pad, expectOneOf, takeDigits_pad2 _ _ _ h1]

theorem strNaive_eq (t : Naive) :
    strNaive t = pad 4 t.y ++ '-' :: (pad 2 t.mo ++ '-' :: (pad 2 t.d ++ ' ' ::
      (pad 2 t.h ++ ':' :: (pad 2 t.mi ++ ':' :: (pad 2 t.s ++
        (if t.us == 0 then [] else '.' :: pad 6 t.us)))))) := by
  simp only [strNaive, List.append_assoc, List.cons_append, List.nil_append]

theorem daysInMonth_le (y m : Nat) : daysInMonth y m ≤ 31 := by
  unfold daysInMonth
  split
  · split <;> omega
  · split <;> omega

/-- the naive text is read back by the naive layouts, and it is not the date-only layout that matches -/
theorem getNaiveL_strNaive (t : Naive) (h : t.valid = true) : getNaiveL (strNaive t) = (.ok t, false) := by
  obtain ⟨y, mo, d, hh, mi, s, us⟩ := t
  have hv := h
  simp only [Naive.valid, Bool.and_eq_true, decide_eq_true_eq] at hv
  obtain ⟨⟨⟨⟨⟨⟨⟨⟨⟨hy1, hy2⟩, hm1⟩, hm2⟩, hd1⟩, hd2⟩, hh2⟩, hmi⟩, hs⟩, hus⟩ := hv
  have hd3 := daysInMonth_le y mo
  have ey : y % 10000 = y := Nat.mod_eq_of_lt (by omega)
  have emo : mo % 100 = mo := Nat.mod_eq_of_lt (by omega)
  have ed : d % 100 = d := Nat.mod_eq_of_lt (by omega)
  have eh : hh % 100 = hh := Nat.mod_eq_of_lt (by omega)
  have emi : mi % 100 = mi := Nat.mod_eq_of_lt (by omega)
  have es : s % 100 = s := Nat.mod_eq_of_lt (by omega)
  have eus : us % 1000000 = us := Nat.mod_eq_of_lt (by omega)
  rw [strNaive_eq]
  simp only [getNaiveL, parseDatePart_pad, parseTimePart_pad, ey, emo, ed, eh, emi, es]
  by_cases h0 : us = 0
  · subst h0
    simp [h]
  · have hb : (us == 0) = false := by simp [h0]
    have hne : (pad 6 us).isEmpty = false := by
      have hl := length_pad 6 us
      cases hp : pad 6 us with
      | nil => rw [hp] at hl; simp at hl
      | cons a l => rfl
    simp [hb, takeWhile_all _ (all_pad 6 us), hne, length_pad, natOfDigits_pad, eus, h]

theorem getNaive_strNaive (t : Naive) (h : t.valid = true) : getNaive (strNaive t) = .ok t := by
  simp [getNaive, getNaiveL_strNaive t h]

theorem pad_two (n : Nat) : pad 2 n = [digitChar (n / 10), digitChar n] := by
  simp [pad]

theorem pad_six (n : Nat) : pad 6 n = [digitChar (n / 10 / 10 / 10 / 10 / 10), digitChar (n / 10 / 10 / 10 / 10),
    digitChar (n / 10 / 10 / 10), digitChar (n / 10 / 10), digitChar (n / 10), digitChar n] := by
  simp [pad]

theorem digitChar_ne (n : Nat) (c : Char) (hc : isDigit c = false) : digitChar n ≠ c := by
  intro h
  have := isDigit_digitChar n
  rw [h, hc] at this
  cases this

theorem not_mem_pad (k n : Nat) (c : Char) (hc : isDigit c = false) : ¬ c ∈ pad k n := by
  intro hm
  have := all_pad k n
  rw [List.all_eq_true] at this
  have := this c hm
  rw [hc] at this
  cases this

theorem nl_not_mem_strNaive (t : Naive) : ¬ '\n' ∈ strNaive t := by
  have hd : isDigit '\n' = false := by decide
  have := fun k n => not_mem_pad k n '\n' hd
  rw [strNaive_eq]
  split <;> simp [this]

theorem nl_not_mem_strOffset (o : Int) : ¬ '\n' ∈ strOffset o := by
  have hd : isDigit '\n' = false := by decide
  have := fun k n => not_mem_pad k n '\n' hd
  unfold strOffset
  split <;> split <;> simp [this]

/-- preamble of splitOffset on a text without newline -/
theorem splitOffset_noNl (s : Line) (hn : ¬ '\n' ∈ s) :
    splitOffset s = splitOffsetEnd s := by
  have hc : s.contains '\n' = false := by simpa using hn
  have hl : (s.getLast? == some '\n') = false := by
    cases hg : s.getLast? with
    | none => rfl
    | some c =>
      have hm : c ∈ s := List.mem_of_getLast? hg
      have : c ≠ '\n' := fun e => hn (e ▸ hm)
      simp [this]
  simp [splitOffset, hl, hn]

theorem splitOffset6_six (body : Line) (sg h1 h2 c m1 m2 : Char) :
    splitOffset6 (body ++ [sg, h1, h2, c, m1, m2]) =
      if (sg == '+' || sg == '-') && isDigit h1 && isDigit h2 && c == ':' && isDigit m1 && isDigit m2 &&
         endsWithSeconds body then
        some (body, if sg == '-' then -((natOfDigits [h1, h2] * 3600 + natOfDigits [m1, m2] * 60 : Nat) : Int)
          else ((natOfDigits [h1, h2] * 3600 + natOfDigits [m1, m2] * 60 : Nat) : Int))
      else none := by
  simp [splitOffset6]

theorem splitOffset9_nine (body : Line) (sg h1 h2 c m1 m2 c2 s1 s2 : Char) :
    splitOffset9 (body ++ [sg, h1, h2, c, m1, m2, c2, s1, s2]) =
      if (sg == '+' || sg == '-') && isDigit h1 && isDigit h2 && c == ':' && isDigit m1 && isDigit m2 && c2 == ':' &&
         isDigit s1 && isDigit s2 && endsWithSeconds body then
        some (body, if sg == '-' then -((natOfDigits [h1, h2] * 3600 + natOfDigits [m1, m2] * 60 + natOfDigits [s1, s2] : Nat) : Int)
          else ((natOfDigits [h1, h2] * 3600 + natOfDigits [m1, m2] * 60 + natOfDigits [s1, s2] : Nat) : Int))
      else none := by
  simp [splitOffset9]

/-- a text that ends in sign, two digits, colon, two digits has not the longer ending (its sixth character from the end
    is the sign, not a colon) -/
theorem splitOffset9_six (body : Line) (sg h1 h2 c m1 m2 : Char) (hs : sg ≠ ':') :
    splitOffset9 (body ++ [sg, h1, h2, c, m1, m2]) = none := by
  have hr : (body ++ [sg, h1, h2, c, m1, m2]).reverse = m2 :: m1 :: c :: h2 :: h1 :: sg :: body.reverse := by simp
  unfold splitOffset9
  rw [hr]
  rcases body.reverse with _ | ⟨x, _ | ⟨y, _ | ⟨z, r⟩⟩⟩ <;> simp [hs]

theorem endsWithSeconds_plain (P : Line) (a b : Char) (ha : isDigit a = true) (hb : isDigit b = true) :
    endsWithSeconds (P ++ [':', a, b]) = true := by
  simp [endsWithSeconds, ha, hb]

theorem endsWithSeconds_frac (P ds : Line) (a b : Char) (ha : isDigit a = true) (hb : isDigit b = true)
    (hds : ds.all isDigit = true) (hne : ds ≠ []) :
    endsWithSeconds (P ++ ':' :: a :: b :: '.' :: ds) = true := by
  have hr : (P ++ ':' :: a :: b :: '.' :: ds).reverse = ds.reverse ++ '.' :: b :: a :: ':' :: P.reverse := by
    simp
  have hall : ds.reverse.all isDigit = true := by simpa using hds
  have hdot : isDigit '.' = false := by decide
  have htw := takeWhile_digits ds.reverse hall '.' (b :: a :: ':' :: P.reverse) hdot
  have hdrop : (ds.reverse ++ '.' :: b :: a :: ':' :: P.reverse).drop ds.reverse.length =
      '.' :: b :: a :: ':' :: P.reverse := List.drop_left' rfl
  have hemp : ds.reverse.isEmpty = false := by simpa using hne
  simp only [endsWithSeconds, hr, htw, hdrop, hemp]
  simp [ha, hb]

theorem strNaive_zero (t : Naive) (h0 : t.us = 0) :
    strNaive t = (pad 4 t.y ++ '-' :: (pad 2 t.mo ++ '-' :: (pad 2 t.d ++ ' ' :: pad 2 t.h))) ++
      [':', digitChar (t.mi / 10), digitChar t.mi, ':', digitChar (t.s / 10), digitChar t.s] := by
  rw [strNaive_eq]
  simp [h0, pad_two]

theorem strNaive_nonzero (t : Naive) (h0 : t.us ≠ 0) :
    strNaive t = (pad 4 t.y ++ '-' :: (pad 2 t.mo ++ '-' :: (pad 2 t.d ++ ' ' :: (pad 2 t.h ++ ':' :: pad 2 t.mi)))) ++
      ':' :: digitChar (t.s / 10) :: digitChar t.s :: '.' :: pad 6 t.us := by
  rw [strNaive_eq]
  simp [h0, pad_two]

theorem endsWithSeconds_strNaive (t : Naive) : endsWithSeconds (strNaive t) = true := by
  by_cases h0 : t.us = 0
  · rw [strNaive_zero t h0]
    have := endsWithSeconds_plain
      ((pad 4 t.y ++ '-' :: (pad 2 t.mo ++ '-' :: (pad 2 t.d ++ ' ' :: pad 2 t.h))) ++
        [':', digitChar (t.mi / 10), digitChar t.mi]) (digitChar (t.s / 10)) (digitChar t.s)
      (isDigit_digitChar _) (isDigit_digitChar _)
    simpa using this
  · rw [strNaive_nonzero t h0]
    apply endsWithSeconds_frac _ _ _ _ (isDigit_digitChar _) (isDigit_digitChar _) (all_pad 6 t.us)
    intro h
    have := length_pad 6 t.us
    rw [h] at this
    cases this

/-- the naive text carries no UTC offset: RTZ does not match it -/
theorem splitOffset_strNaive (t : Naive) (h : t.valid = true) : splitOffset (strNaive t) = none := by
  have _ := h  -- the validity is not needed: no `strNaive` text has an offset
  have hn := nl_not_mem_strNaive t
  rw [splitOffset_noNl _ hn]
  unfold splitOffsetEnd
  by_cases h0 : t.us = 0
  · -- ... ':' m m ':' s s : as a nine-character ending the sign position holds a digit or a blank; as a six-character one a colon
    have e : strNaive t = (pad 4 t.y ++ '-' :: (pad 2 t.mo ++ '-' :: (pad 2 t.d ++ [' ', digitChar (t.h / 10)]))) ++
        [digitChar t.h, ':', digitChar (t.mi / 10), digitChar t.mi, ':', digitChar (t.s / 10), digitChar t.s] := by
      rw [strNaive_zero t h0]; simp [pad_two]
    have e6 : strNaive t = (pad 4 t.y ++ '-' :: (pad 2 t.mo ++ '-' :: (pad 2 t.d ++ ' ' :: pad 2 t.h))) ++
        [':', digitChar (t.mi / 10), digitChar t.mi, ':', digitChar (t.s / 10), digitChar t.s] := strNaive_zero t h0
    have h9 : splitOffset9 (strNaive t) = none := by
      have e9 : strNaive t = (pad 4 t.y ++ '-' :: (pad 2 t.mo ++ '-' :: pad 2 t.d)) ++
          [' ', digitChar (t.h / 10), digitChar t.h, ':', digitChar (t.mi / 10), digitChar t.mi, ':', digitChar (t.s / 10), digitChar t.s] := by
        rw [e]; simp
      rw [e9, splitOffset9_nine]; simp
    rw [h9, e6, splitOffset6_six]; simp
  · have e6 : strNaive t = (pad 4 t.y ++ '-' :: (pad 2 t.mo ++ '-' :: (pad 2 t.d ++ ' ' :: (pad 2 t.h ++ ':' ::
        (pad 2 t.mi ++ [':', digitChar (t.s / 10), digitChar t.s, '.']))))) ++
        [digitChar (t.us / 10 / 10 / 10 / 10 / 10), digitChar (t.us / 10 / 10 / 10 / 10),
          digitChar (t.us / 10 / 10 / 10), digitChar (t.us / 10 / 10), digitChar (t.us / 10), digitChar t.us] := by
      rw [strNaive_nonzero t h0, pad_six]
      simp
    have hp := digitChar_ne (t.us / 10 / 10 / 10 / 10 / 10) '+' (by decide)
    have hm := digitChar_ne (t.us / 10 / 10 / 10 / 10 / 10) '-' (by decide)
    have h9 : splitOffset9 (strNaive t) = none := by
      have e9 : strNaive t = (pad 4 t.y ++ '-' :: (pad 2 t.mo ++ '-' :: (pad 2 t.d ++ ' ' :: (pad 2 t.h ++ ':' ::
          (pad 2 t.mi ++ [':']))))) ++
          [digitChar (t.s / 10), digitChar t.s, '.', digitChar (t.us / 10 / 10 / 10 / 10 / 10), digitChar (t.us / 10 / 10 / 10 / 10),
            digitChar (t.us / 10 / 10 / 10), digitChar (t.us / 10 / 10), digitChar (t.us / 10), digitChar t.us] := by
        rw [e6]; simp
      have hp' := digitChar_ne (t.s / 10) '+' (by decide)
      have hm' := digitChar_ne (t.s / 10) '-' (by decide)
      rw [e9, splitOffset9_nine]; simp [hp', hm']
    rw [h9, e6, splitOffset6_six]
    simp [hp, hm]

/-- the text of an aware datetime splits into the naive text and the offset (in seconds) -/
theorem splitOffset_strAware (t : Naive) (o : Int) (h : t.valid = true) (h1 : -86400 < o) (h2 : o < 86400) :
    splitOffset (strNaive t ++ strOffset o) = some (strNaive t, o) := by
  have _ := h  -- the validity of the naive part is not needed
  have hn : ¬ '\n' ∈ strNaive t ++ strOffset o := by
    simp [nl_not_mem_strNaive, nl_not_mem_strOffset]
  rw [splitOffset_noNl _ hn]
  unfold splitOffsetEnd
  have hs : ((if o < 0 then '-' else '+') == '+' || (if o < 0 then '-' else '+') == '-') = true := by
    split <;> decide
  have hsc : (if o < 0 then '-' else '+') ≠ ':' := by split <;> decide
  have nh : natOfDigits [digitChar (o.natAbs / 3600 / 10), digitChar (o.natAbs / 3600)] = o.natAbs / 3600 := by
    rw [← pad_two, natOfDigits_pad]; omega
  have nm : natOfDigits [digitChar (o.natAbs / 60 % 60 / 10), digitChar (o.natAbs / 60 % 60)] = o.natAbs / 60 % 60 := by
    rw [← pad_two, natOfDigits_pad]; omega
  have ns : natOfDigits [digitChar (o.natAbs % 60 / 10), digitChar (o.natAbs % 60)] = o.natAbs % 60 := by
    rw [← pad_two, natOfDigits_pad]; omega
  by_cases hz : o.natAbs % 60 = 0
  · have e : strOffset o = [(if o < 0 then '-' else '+'), digitChar (o.natAbs / 3600 / 10), digitChar (o.natAbs / 3600),
        ':', digitChar (o.natAbs / 60 % 60 / 10), digitChar (o.natAbs / 60 % 60)] := by
      simp [strOffset, pad_two, hz]
    rw [e, splitOffset9_six _ _ _ _ _ _ _ hsc, splitOffset6_six]
    simp only [hs, isDigit_digitChar, endsWithSeconds_strNaive, nh, nm, Bool.and_self, beq_self_eq_true, if_true]
    by_cases ho : o < 0
    · simp [ho]; omega
    · simp [ho]; omega
  · have e : strOffset o = [(if o < 0 then '-' else '+'), digitChar (o.natAbs / 3600 / 10), digitChar (o.natAbs / 3600),
        ':', digitChar (o.natAbs / 60 % 60 / 10), digitChar (o.natAbs / 60 % 60), ':', digitChar (o.natAbs % 60 / 10),
        digitChar (o.natAbs % 60)] := by
      simp [strOffset, pad_two, hz]
    rw [e, splitOffset9_nine]
    simp only [hs, isDigit_digitChar, endsWithSeconds_strNaive, nh, nm, ns, Bool.and_self, beq_self_eq_true, if_true]
    by_cases ho : o < 0
    · simp [ho]; omega
    · simp [ho]; omega

theorem getDate_strDatetime (t : Civil) (h : t.valid = true) : getDate (strDatetime t) = .ok t := by
  obtain ⟨n, off⟩ := t
  cases off with
  | none =>
    have hv : n.valid = true := by simpa [Civil.valid] using h
    simp [getDate, strDatetime, splitOffset_strNaive n hv, getNaive_strNaive n hv]
  | some o =>
    have hv : n.valid = true ∧ -86400 < o ∧ o < 86400 := by simpa [Civil.valid] using h
    simp [getDate, strDatetime, splitOffset_strAware n o hv.1 hv.2.1 hv.2.2, getNaiveL_strNaive n hv.1, hv.2.1, hv.2.2]

end TddaVerif.Props.C09.Aux
