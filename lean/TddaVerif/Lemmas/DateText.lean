/-
`get_date (str (datetime))` gives the datetime back: the text written by `strDatetime` is
re-read by `getDate` as the same civil fields.
-/
import TddaVerif.Model.TddaFile
namespace TddaVerif.Props.C09.Aux
open TddaVerif.Py TddaVerif.TddaFile

theorem digit_facts :
    ∀ m, m < 10 → isDigit (Char.ofNat (48 + m)) = true ∧ (Char.ofNat (48 + m)).toNat - 48 = m := by
  decide

theorem isDigit_digitChar (n : Nat) : isDigit (digitChar n) = true :=
  (digit_facts (n % 10) (Nat.mod_lt _ (by omega))).1

theorem toNat_digitChar (n : Nat) : (digitChar n).toNat - 48 = n % 10 :=
  (digit_facts (n % 10) (Nat.mod_lt _ (by omega))).2

theorem length_pad (k n : Nat) : (pad k n).length = k := by
  induction k generalizing n with
  | zero => rfl
  | succ k ih => simp [pad, ih]

theorem all_pad (k n : Nat) : (pad k n).all isDigit = true := by
  induction k generalizing n with
  | zero => rfl
  | succ k ih =>
    rw [pad, List.all_append, ih]
    simp [isDigit_digitChar]

theorem natOfDigits_snoc (l : Line) (c : Char) :
    natOfDigits (l ++ [c]) = 10 * natOfDigits l + (c.toNat - 48) := by
  simp [natOfDigits, List.foldl_append]

theorem natOfDigits_pad (k n : Nat) : natOfDigits (pad k n) = n % 10 ^ k := by
  induction k generalizing n with
  | zero => simp [pad, natOfDigits, Nat.mod_one]
  | succ k ih =>
    rw [pad, natOfDigits_snoc, ih, toNat_digitChar, Nat.pow_succ', Nat.mod_mul]
    omega

theorem takeExact_pad (k n : Nat) (rest : Line) :
    takeExact k (pad k n ++ rest) = some (n % 10 ^ k, rest) := by
  have hl := length_pad k n
  have h1 : (pad k n ++ rest).take k = pad k n := List.take_left' hl
  have h2 : (pad k n ++ rest).drop k = rest := List.drop_left' hl
  simp only [takeExact, h1, h2, hl, all_pad, natOfDigits_pad]
  simp

theorem takeWhile_all (p : Line) (hp : p.all isDigit = true) : p.takeWhile isDigit = p := by
  induction p with
  | nil => rfl
  | cons a p ih =>
    rw [List.all_cons, Bool.and_eq_true] at hp
    rw [List.takeWhile_cons, hp.1]
    simp [ih hp.2]

theorem takeWhile_digits (p : Line) (hp : p.all isDigit = true) (c : Char) (rest : Line)
    (hc : isDigit c = false) : (p ++ c :: rest).takeWhile isDigit = p := by
  induction p with
  | nil => simp [hc]
  | cons a p ih =>
    rw [List.all_cons, Bool.and_eq_true] at hp
    rw [List.cons_append, List.takeWhile_cons, hp.1]
    simp [ih hp.2]

theorem takeDigits_pad2 (n : Nat) (c : Char) (rest : Line) (hc : isDigit c = false) :
    takeDigits 2 (pad 2 n ++ c :: rest) = some (n % 100, c :: rest) := by
  have hl := length_pad 2 n
  have h1 : (pad 2 n).take 2 = pad 2 n := List.take_of_length_le (by omega)
  have h2 : (pad 2 n ++ c :: rest).drop 2 = c :: rest := List.drop_left' hl
  have h3 : (pad 2 n).isEmpty = false := by
    cases h : pad 2 n with
    | nil => rw [h] at hl; simp at hl
    | cons a l => rfl
  simp only [takeDigits, takeWhile_digits _ (all_pad 2 n) c rest hc, h1, hl, h2, h3,
    natOfDigits_pad]
  simp

theorem parseDatePart_pad (y mo d : Nat) (rest : Line) :
    parseDatePart (pad 4 y ++ '-' :: (pad 2 mo ++ '-' :: (pad 2 d ++ ' ' :: rest))) =
      some (y % 10000, mo % 100, d % 100, ' ' :: rest) := by
  have h1 : isDigit '-' = false := by decide
  have h2 : isDigit ' ' = false := by decide
  simp [parseDatePart, takeExact_pad, expectOneOf, takeDigits_pad2 _ _ _ h1,
    takeDigits_pad2 _ _ _ h2]

theorem parseTimePart_pad (h mi s : Nat) (rest : Line) :
    parseTimePart (' ' :: (pad 2 h ++ ':' :: (pad 2 mi ++ ':' :: (pad 2 s ++ rest)))) =
      some (h % 100, mi % 100, s % 100, rest) := by
  have h1 : isDigit ':' = false := by decide
  simp [parseTimePart, takeExact_pad, expectOneOf, takeDigits_pad2 _ _ _ h1]

theorem strDatetime_eq (t : Civil) :
    strDatetime t = pad 4 t.y ++ '-' :: (pad 2 t.mo ++ '-' :: (pad 2 t.d ++ ' ' ::
      (pad 2 t.h ++ ':' :: (pad 2 t.mi ++ ':' :: (pad 2 t.s ++
        (if t.us == 0 then [] else '.' :: pad 6 t.us)))))) := by
  simp only [strDatetime, List.append_assoc, List.cons_append, List.nil_append]

theorem daysInMonth_le (y m : Nat) : daysInMonth y m ≤ 31 := by
  unfold daysInMonth
  split
  · split <;> omega
  · split <;> omega

theorem getDate_strDatetime (t : Civil) (h : t.valid = true) : getDate (strDatetime t) = .ok t := by
  obtain ⟨y, mo, d, hh, mi, s, us⟩ := t
  have hv := h
  simp only [Civil.valid, Bool.and_eq_true, decide_eq_true_eq] at hv
  obtain ⟨⟨⟨⟨⟨⟨⟨⟨⟨hy1, hy2⟩, hm1⟩, hm2⟩, hd1⟩, hd2⟩, hh2⟩, hmi⟩, hs⟩, hus⟩ := hv
  have hd3 := daysInMonth_le y mo
  have ey : y % 10000 = y := Nat.mod_eq_of_lt (by omega)
  have emo : mo % 100 = mo := Nat.mod_eq_of_lt (by omega)
  have ed : d % 100 = d := Nat.mod_eq_of_lt (by omega)
  have eh : hh % 100 = hh := Nat.mod_eq_of_lt (by omega)
  have emi : mi % 100 = mi := Nat.mod_eq_of_lt (by omega)
  have es : s % 100 = s := Nat.mod_eq_of_lt (by omega)
  have eus : us % 1000000 = us := Nat.mod_eq_of_lt (by omega)
  rw [strDatetime_eq]
  simp only [getDate, parseDatePart_pad, parseTimePart_pad, ey, emo, ed, eh, emi, es]
  by_cases h0 : us = 0
  · subst h0
    simp [h]
  · have hb : (us == 0) = false := by simp [h0]
    have hne : (pad 6 us).isEmpty = false := by
      have hl := length_pad 6 us
      cases hp : pad 6 us with
      | nil => rw [hp] at hl; simp at hl
      | cons a l => rfl
    simp [hb, takeWhile_all _ (all_pad 6 us), hne, length_pad, natOfDigits_pad, eus, h]

end TddaVerif.Props.C09.Aux
