/-
Proofs about the pytest collection filter (Model/RefPytest.lean filterItems / printed).
-/
import TddaVerif.Model.RefPytest
namespace TddaVerif.Props.PytestLemmas
open TddaVerif.RefTestCase TddaVerif.RefPytest


/-- without either option the collection is left as it is -/
theorem no_option_untouched (items : List Item) : filterItems false false items = (items, []) := by
  simp [filterItems]

/-- with the option "tagged": exactly the tagged items stay, in their order, and nothing is printed -/
theorem tagged_selects_exactly (items : List Item) :
    filterItems true false items = (items.filter (·.tagged), []) := by
  simp [filterItems]

/-- an item stays under the tagged option iff it is a collected item that carries the tag itself or through its class -/
theorem tagged_mem_iff (items : List Item) (i : Item) :
    i ∈ (filterItems true false items).1 ↔ i ∈ items ∧ (i.fnTagged = true ∨ (i.cls.isSome = true ∧ i.clsTagged = true)) := by
  simp only [filterItems, Bool.or_false, Bool.not_true, Bool.false_eq_true, if_false, List.mem_filter, Item.tagged]
  cases i.fnTagged <;> cases i.cls.isSome <;> cases i.clsTagged <;> simp

/-- nothing is collected twice that was collected once -/
theorem tagged_nodup (items : List Item) (h : items.Nodup) : (filterItems true false items).1.Nodup := by
  simp only [filterItems, Bool.or_false, Bool.not_true, Bool.false_eq_true, if_false]
  exact h.filter _

/-- list-tagged option: no test is left to run, with or without the tagged option -/
theorem check_runs_none (run : Bool) (items : List Item) : (filterItems run true items).1 = [] := by
  cases run <;> simp [filterItems]

theorem mem_printed (items : List Item) (n : Name) : ∀ shown : List Name,
    n ∈ printed items shown ↔
      (∃ i ∈ items, i.tagged = true ∧ i.cls = some n ∧ n ∉ shown) ∨
      (∃ i ∈ items, i.tagged = true ∧ i.cls = none ∧ i.name = n) := by
  induction items with
  | nil => intro shown; simp [printed]
  | cons i rest ih =>
    intro shown
    unfold printed
    cases ht : i.tagged with
    | false => simp [ih, ht]
    | true =>
      cases hc : i.cls with
      | none =>
        simp only [if_true, List.mem_cons, ih, exists_eq_or_imp, ht, hc]
        grind
      | some c =>
        by_cases hs : c ∈ shown
        · simp only [if_true, List.contains_iff_mem, hs, ih, List.mem_cons, exists_eq_or_imp, ht, hc]
          grind
        · simp only [if_true, List.contains_iff_mem, hs, if_false, List.mem_cons, ih,
            exists_eq_or_imp, ht, hc]
          grind

/-- the list-tagged option names exactly the classes that contain a tagged test, and the tagged module-level functions -/
theorem check_lists_exactly (run : Bool) (items : List Item) (n : Name) :
    n ∈ (filterItems run true items).2 ↔
      (∃ i ∈ items, i.tagged = true ∧ i.cls = some n) ∨ (∃ i ∈ items, i.tagged = true ∧ i.cls = none ∧ i.name = n) := by
  have e : (filterItems run true items).2 = printed items [] := by cases run <;> simp [filterItems]
  rw [e, mem_printed]
  simp

theorem printed_nodup (items : List Item) (hm : ∀ i ∈ items, i.cls.isSome = true) : ∀ shown : List Name,
    (printed items shown).Nodup ∧ ∀ n ∈ printed items shown, n ∉ shown := by
  induction items with
  | nil => intro shown; simp [printed]
  | cons i rest ih =>
    intro shown
    have hi := hm i (by simp)
    have ih := ih (fun j hj => hm j (by simp [hj]))
    unfold printed
    cases ht : i.tagged with
    | false => simpa using ih shown
    | true =>
      cases hc : i.cls with
      | none => simp [hc] at hi
      | some c =>
        by_cases hs : c ∈ shown
        · simpa [hs] using ih shown
        · have := ih (c :: shown)
          simp only [if_true, List.contains_iff_mem, hs, if_false, List.nodup_cons, List.mem_cons]
          grind

/-- a class is named once however many tagged tests it has (items that are all methods) -/
theorem check_lists_classes_once (run : Bool) (items : List Item) (hm : ∀ i ∈ items, i.cls.isSome = true) :
    (filterItems run true items).2.Nodup := by
  have e : (filterItems run true items).2 = printed items [] := by cases run <;> simp [filterItems]
  rw [e]
  exact (printed_nodup items hm []).1

/- non-vacuity -/
example : filterItems true false
    [⟨"test_a".toList, some "TestA".toList, false, true⟩, ⟨"test_b".toList, some "TestA".toList, false, false⟩,
     ⟨"test_fn".toList, none, false, false⟩, ⟨"test_c".toList, some "TestB".toList, true, false⟩] =
    ([⟨"test_a".toList, some "TestA".toList, false, true⟩, ⟨"test_c".toList, some "TestB".toList, true, false⟩], []) := by decide
example : (filterItems false true
    [⟨"test_a".toList, some "TestA".toList, false, true⟩, ⟨"test_b".toList, some "TestA".toList, false, true⟩,
     ⟨"test_fn".toList, none, false, true⟩]).2 = ["TestA".toList, "test_fn".toList] := by decide

end TddaVerif.Props.PytestLemmas
