/- Lemmas for C08: the SQL text round-trips through the tokenizer; a violating row is noticed. -/
import TddaVerif.Model.Sql
import TddaVerif.Generated.Sql
import TddaVerif.Py.Str
import TddaVerif.Model.Constraints
import TddaVerif.Props.C02Spec
import TddaVerif.Props.C02

namespace TddaVerif.Props.C08.Lemmas
open TddaVerif.Sql TddaVerif.Constraints TddaVerif.Props.C02 TddaVerif.Constraints.Order

/-! ### the quoted text reads back -/

theorem lexBody_dbl (q : Char) (s rest : Text) (hrest : rest.head? ≠ some q) :
    lexBody q (dbl q s ++ q :: rest) = some (s, rest) := by
  induction s with
  | nil =>
    cases rest with
    | nil => simp [dbl, lexBody]
    | cons c cs =>
      have : (c == q) = false := by
        simp at hrest; simpa using hrest
      simp [dbl, lexBody, this]
  | cons c s ih =>
    have hd : dbl q (c :: s) = (if c == q then [q, q] else [c]) ++ dbl q s := by
      simp [dbl]
    rw [hd]
    by_cases hc : c = q
    · subst hc
      simp only [beq_self_eq_true, if_true, List.cons_append, List.nil_append, lexBody]
      have ih' : lexBody c (dbl c s ++ c :: rest) = some (s, rest) := ih
      simp [ih']
    · have hcq : (c == q) = false := by simpa using hc
      simp only [hcq, Bool.false_eq_true, if_false, List.cons_append, List.nil_append]
      -- tail is nonempty
      obtain ⟨x, xs, hx⟩ : ∃ x xs, dbl q s ++ q :: rest = x :: xs := by
        cases h : dbl q s ++ q :: rest with
        | nil => simp at h
        | cons x xs => exact ⟨x, xs, rfl⟩
      rw [hx] at ih ⊢
      simp [lexBody, hcq, ih]

/-- reading a quoted token back gives the original text, whatever it contains -/
theorem lex_quote (q : Char) (s rest : Text) (hrest : rest.head? ≠ some q) :
    lexQuoted q (quote q s ++ rest) = some (s, rest) := by
  simp [quote, lexQuoted, lexBody_dbl q s rest hrest]

/-- quoting is injective -/
theorem quote_injective (q : Char) (s t : Text) (h : quote q s = quote q t) : s = t := by
  have h1 := lex_quote q s [] (by simp)
  have h2 := lex_quote q t [] (by simp)
  rw [h] at h1
  rw [h1] at h2
  simpa using h2

theorem dropPrefix_append (p s : Text) : dropPrefix p (p ++ s) = some s := by
  induction p with
  | nil => cases s <;> simp [dropPrefix]
  | cons a p ih => simp [dropPrefix, ih]

/-- one term reads back as the column and the expression it was built from -/
theorem parse_rexTerm (name r rest : Text) :
    parseTerm (rexTerm name r ++ rest) = some (name, r, rest) := by
  have e : rexTerm name r ++ rest = "(".toList ++ (quoteIdent name ++ (" REGEXP ".toList ++ (stringLiteral r ++ (")".toList ++ rest)))) := by
    simp [rexTerm]
  rw [e]
  have h1 : lexQuoted '"' (quoteIdent name ++ (" REGEXP ".toList ++ (stringLiteral r ++ (")".toList ++ rest))))
      = some (name, " REGEXP ".toList ++ (stringLiteral r ++ (")".toList ++ rest))) :=
    lex_quote '"' name _ (by simp)
  have h2 : lexQuoted '\'' (stringLiteral r ++ (")".toList ++ rest)) = some (r, ")".toList ++ rest) :=
    lex_quote '\'' r _ (by simp)
  simp only [parseTerm, dropPrefix_append, h1, h2, Option.bind_eq_bind, Option.bind_some, Option.pure_def]

/-- the whole predicate reads back as exactly the given expressions on the given column -/
theorem parse_rexDisj (name : Text) (rs : List Text) (hne : rs ≠ []) (fuel : Nat) (hf : rs.length ≤ fuel) :
    parseDisj fuel (rexDisj name rs ++ ")".toList) = some (rs.map (fun r => (name, r)), ")".toList) := by
  induction rs generalizing fuel with
  | nil => exact absurd rfl hne
  | cons r rs ih =>
    cases fuel with
    | zero => simp at hf
    | succ fuel =>
      cases rs with
      | nil =>
        have e : rexDisj name [r] = rexTerm name r := rfl
        have hd : dropPrefix " OR ".toList ")".toList = none := by decide
        simp only [e, parseDisj, parse_rexTerm, hd, List.map]
      | cons r2 rs =>
        have e : rexDisj name (r :: r2 :: rs) ++ ")".toList
            = rexTerm name r ++ (" OR ".toList ++ (rexDisj name (r2 :: rs) ++ ")".toList)) := by
          simp only [rexDisj, List.map, intercalate, List.append_assoc]
        have ih' := ih (by simp) fuel (by simpa using hf)
        simp only [e, parseDisj, parse_rexTerm, dropPrefix_append, ih', Option.map_some, List.map]

/-! ### ties to the text of drivers.py (Generated/Sql.lean is rewritten from the source on every run) -/

/-- `s.replace(q, qq)` is the doubling of the model -/
theorem rep_dbl (q : Char) (s : Text) : Py.replace [q] [q, q] s = dbl q s := by
  unfold Py.replace
  induction s with
  | nil => simp [Py.rep, dbl]
  | cons c s ih =>
    have hd : dbl q (c :: s) = (if c == q then [q, q] else [c]) ++ dbl q s := by
      simp [dbl]
    rw [hd]
    by_cases hc : c = q
    · subst hc
      simp [Py.rep, Py.isPrefix, ih]
    · have h1 : (c == q) = false := by simpa using hc
      have h2 : (q == c) = false := by simpa using (Ne.symm hc)
      simp [Py.rep, Py.isPrefix, ih, h1, h2]

theorem tie_ident (name : Text) :
    quoteIdent name = fmt Generated.Sql.identFormat [Py.replace Generated.Sql.identOld Generated.Sql.identNew name] := by
  simp only [Generated.Sql.identFormat, Generated.Sql.identOld, Generated.Sql.identNew, rep_dbl]
  simp [fmt, quoteIdent, quote]

theorem tie_literal (s : Text) :
    stringLiteral s = fmt Generated.Sql.litFormat [Py.replace Generated.Sql.litOld Generated.Sql.litNew s] := by
  simp only [Generated.Sql.litFormat, Generated.Sql.litOld, Generated.Sql.litNew, rep_dbl]
  simp [fmt, stringLiteral, quote]

theorem tie_term (name r : Text) :
    rexTerm name r = fmt Generated.Sql.rexTermFormat [quoteIdent name, stringLiteral r] := by
  simp [fmt, Generated.Sql.rexTermFormat, rexTerm]

/-- a format without `%` is copied -/
theorem fmt_plain (p : Text) (hp : '%' ∉ p) (args : List Text) : fmt p args = p := by
  induction p with
  | nil => simp [fmt]
  | cons c p ih =>
    cases p with
    | nil => simp [fmt]
    | cons d p =>
      have hc : (c == '%') = false := by
        simp only [List.mem_cons, not_or] at hp
        simpa using Ne.symm hp.1
      have := ih (fun h => hp (List.mem_cons_of_mem _ h))
      simp [fmt, hc, this]

/-- text up to the first `%s`, then the first argument -/
theorem fmt_hole (p : Text) (hp : '%' ∉ p) (rest a : Text) (as : List Text) :
    fmt (p ++ '%' :: 's' :: rest) (a :: as) = p ++ (a ++ fmt rest as) := by
  induction p with
  | nil => simp [fmt]
  | cons c p ih =>
    have hc : (c == '%') = false := by
      simp only [List.mem_cons, not_or] at hp
      simpa using Ne.symm hp.1
    have ih' := ih (fun h => hp (List.mem_cons_of_mem _ h))
    cases p with
    | nil => simp [fmt, hc]
    | cons d p =>
      simp only [List.cons_append] at ih' ⊢
      simp [fmt, hc, ih']

theorem rexStatementFormat_eq : Generated.Sql.rexStatementFormat =
      "SELECT COUNT(*) FROM ".toList ++ '%' :: 's' :: (" WHERE ".toList ++ '%' :: 's' ::
        (" IS NOT NULL AND NOT(".toList ++ '%' :: 's' :: ")".toList)) := by
    simp [Generated.Sql.rexStatementFormat]

theorem rexJoiner_eq : Generated.Sql.rexJoiner = " OR ".toList := by simp [Generated.Sql.rexJoiner]

theorem tie_statement (table name : Text) (rs : List Text) :
    rexSql table name rs = fmt Generated.Sql.rexStatementFormat
      [table, quoteIdent name, intercalate Generated.Sql.rexJoiner (rs.map (rexTerm name))] := by
  rw [rexStatementFormat_eq, rexJoiner_eq]
  have h3 : '%' ∉ "SELECT COUNT(*) FROM ".toList := by simp
  have h4 : '%' ∉ " WHERE ".toList := by simp
  have h5 : '%' ∉ " IS NOT NULL AND NOT(".toList := by simp
  have h6 : '%' ∉ ")".toList := by simp
  rw [fmt_hole _ h3]
  rw [fmt_hole _ h4]
  rw [fmt_hole _ h5]
  rw [fmt_plain _ h6]
  unfold rexSql rexDisj
  simp only [List.append_assoc]

/-! ### a violating row is noticed (corollaries of C02's `verify_eq_spec`) -/

/-- a column with one more row -/
def push (c : Column) (cell : Option Val) : Column := { c with cells := c.cells ++ [cell] }

theorem push_nonNull_some (c : Column) (v : Val) : (push c (some v)).nonNull = c.nonNull ++ [v] := by
  simp [push, Column.nonNull, List.filterMap_append]

theorem mem_push (c : Column) (v : Val) : v ∈ (push c (some v)).nonNull := by
  simp [push_nonNull_some]

theorem push_ftype (c : Column) (v : Val) (hwf : (push c (some v)).WF = true) : c.ftype = v.ftype :=
  (wf_ftype _ hwf v (mem_push c v)).symm

theorem false_of_not_sat (cfg : Cfg) (heps : 0 ≤ cfg.epsilon) (c : Column) (hwf : c.WF = true) (detect : Bool)
    (k : Constraint) (h : ¬ Sat cfg c k) : verifyOn cfg c detect k = false := by
  cases hv : verifyOn cfg c detect k with
  | false => rfl
  | true => exact absurd ((verify_eq_spec cfg heps c hwf detect k).1 hv) h

/-- a row that does not meet the documented meaning makes verification fail -/
theorem violating_row_detected (cfg : Cfg) (heps : 0 ≤ cfg.epsilon) (c : Column) (cell : Option Val)
    (hwf : (push c cell).WF = true) (detect : Bool) (k : Constraint) (h : ¬ Sat cfg (push c cell) k) :
    verifyOn cfg (push c cell) detect k = false :=
  false_of_not_sat cfg heps _ hwf detect k h

theorem le_false_of_lt (a b : Val) (h : a.lt b = true) : b.le a = false := by
  have h1 := lt_asymm a b h
  have h2 : b.eqv a = false := by rw [eqv_comm]; exact lt_eqv_false a b h
  simp [Val.le, h1, h2]

theorem below_min_detected (cfg : Cfg) (heps : cfg.epsilon = 0) (c : Column) (v b : Val) (p : Precision)
    (hwf : (push c (some v)).WF = true) (detect : Bool) (hlt : v.lt b = true) :
    verifyOn cfg (push c (some v)) detect (.min (some b) p) = false := by
  apply false_of_not_sat cfg (by rw [heps]; exact Rat.le_refl) _ hwf
  intro hs
  have ha : AdmitsMin cfg p b v := hs v (mem_push c v)
  have hle := le_false_of_lt v b hlt
  have hlt' := lt_asymm v b hlt
  obtain ⟨_, ha⟩ := ha
  split at ha
  · simp [hle] at ha
  · split at ha
    · simp [hlt'] at ha
    · rcases ha with ha | ⟨x, y, hx, hy, hxy⟩
      · simp [hle] at ha
      · rw [lt_num v b x y hx hy] at hlt
        rw [heps] at hxy
        simp at hlt hxy
        grind

theorem above_max_detected (cfg : Cfg) (heps : cfg.epsilon = 0) (c : Column) (v b : Val) (p : Precision)
    (hwf : (push c (some v)).WF = true) (detect : Bool) (hlt : b.lt v = true) :
    verifyOn cfg (push c (some v)) detect (.max (some b) p) = false := by
  apply false_of_not_sat cfg (by rw [heps]; exact Rat.le_refl) _ hwf
  intro hs
  have ha : AdmitsMax cfg p b v := hs v (mem_push c v)
  have hle := le_false_of_lt b v hlt
  have hlt' := lt_asymm b v hlt
  obtain ⟨_, ha⟩ := ha
  split at ha
  · simp [hle] at ha
  · split at ha
    · simp [hlt'] at ha
    · rcases ha with ha | ⟨x, y, hx, hy, hxy⟩
      · simp [hle] at ha
      · rw [lt_num b v y x hy hx] at hlt
        rw [heps] at hxy
        simp at hlt hxy
        grind

theorem shorter_string_detected (cfg : Cfg) (heps : 0 ≤ cfg.epsilon) (c : Column) (x : List Char) (n : Int)
    (hwf : (push c (some (.s x))).WF = true) (detect : Bool) (h : (x.length : Int) < n) :
    verifyOn cfg (push c (some (.s x))) detect (.minLength (some n)) = false := by
  apply false_of_not_sat cfg heps _ hwf
  intro hs
  have := hs.2 _ (mem_push c (.s x)) x rfl
  omega

theorem longer_string_detected (cfg : Cfg) (heps : 0 ≤ cfg.epsilon) (c : Column) (x : List Char) (n : Int)
    (hwf : (push c (some (.s x))).WF = true) (detect : Bool) (h : n < (x.length : Int)) :
    verifyOn cfg (push c (some (.s x))) detect (.maxLength (some n)) = false := by
  apply false_of_not_sat cfg heps _ hwf
  intro hs
  have := hs.2 _ (mem_push c (.s x)) x rfl
  omega

theorem new_category_detected (cfg : Cfg) (heps : 0 ≤ cfg.epsilon) (c : Column) (v : Val) (vs : List Val)
    (hwf : (push c (some v)).WF = true) (detect : Bool) (h : ∀ a ∈ vs, a.eqv v = false) :
    verifyOn cfg (push c (some v)) detect (.allowedValues (some vs)) = false := by
  apply false_of_not_sat cfg heps _ hwf
  intro hs
  obtain ⟨a, ha, hav⟩ := hs v (mem_push c v)
  rw [h a ha] at hav
  exact absurd hav (by simp)

theorem duplicate_detected (cfg : Cfg) (heps : 0 ≤ cfg.epsilon) (c : Column) (v w : Val)
    (hwf : (push c (some v)).WF = true) (detect : Bool) (hw : w ∈ c.nonNull) (h : w.eqv v = true) :
    verifyOn cfg (push c (some v)) detect (.noDuplicates (some true)) = false := by
  apply false_of_not_sat cfg heps _ hwf
  intro hs
  have hs' : (c.nonNull ++ [v]).Pairwise (fun a b => a.eqv b = false) := by
    rw [← push_nonNull_some]; exact hs
  rw [List.pairwise_append] at hs'
  have := hs'.2.2 w hw v (by simp)
  rw [h] at this
  exact absurd this (by simp)

theorem nullCells_push_none (c : Column) : nullCells (push c none) = nullCells c + 1 := by
  simp [nullCells, push, List.filter_append]

/-- discovery writes max_nulls = the number of nulls; one more null breaks it -/
theorem extra_null_detected (cfg : Cfg) (heps : 0 ≤ cfg.epsilon) (c : Column) (n : Int)
    (hwf : (push c none).WF = true) (detect : Bool) (h : (nullCells c : Int) = n) :
    verifyOn cfg (push c none) detect (.maxNulls (some n)) = false := by
  apply false_of_not_sat cfg heps _ hwf
  intro hs
  have hs' : (nullCells (push c none) : Int) ≤ n := hs
  rw [nullCells_push_none] at hs'
  omega

theorem unmatched_string_detected (cfg : Cfg) (heps : 0 ≤ cfg.epsilon) (c : Column) (x : List Char) (rs : List Nat)
    (hwf : (push c (some (.s x))).WF = true) (detect : Bool) (h : ∀ r ∈ rs, cfg.rx r x = false) :
    verifyOn cfg (push c (some (.s x))) detect (.rex (some rs)) = false := by
  apply false_of_not_sat cfg heps _ hwf
  intro hs
  obtain ⟨y, hy, r, hr, hrx⟩ := hs.2 _ (mem_push c (.s x))
  cases hy
  rw [h r hr] at hrx
  exact absurd hrx (by simp)

theorem wrong_sign_detected (cfg : Cfg) (heps : 0 ≤ cfg.epsilon) (c : Column) (v : Val) (q : Rat) (s : Sign)
    (hwf : (push c (some v)).WF = true) (detect : Bool) (hq : v.num = some q) (h : ¬ SignHolds s q) :
    verifyOn cfg (push c (some v)) detect (.sign (some s)) = false := by
  apply false_of_not_sat cfg heps _ hwf
  intro hs
  obtain ⟨q', hq', hsq⟩ := hs v (mem_push c v)
  rw [hq] at hq'
  cases hq'
  exact h hsq

end TddaVerif.Props.C08.Lemmas
