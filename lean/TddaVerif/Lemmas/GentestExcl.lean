/-
Proofs for the exclusion rule of gentest (Model/GentestExcl.lean): where the generated ignore-substrings come from,
and that a changed line holding none of them makes the generated comparison fail (through C04).
-/
import TddaVerif.Model.CheckStrings
import TddaVerif.Props.C04
import TddaVerif.Props.C04Spec
import TddaVerif.Model.GentestExcl

namespace TddaVerif.Props.C12.ExclLemmas
open TddaVerif.Py TddaVerif.Gentest TddaVerif.CheckStrings TddaVerif.Props.C04

/-- what `specOf` records about a line it keeps -/
theorem specOf_some {env : Env} {l : LineInfo} {sp : Spec} (h : specOf env l = some sp) :
    sp.info = l ∧ (sp.host = true → contains l.text env.host = true) ∧
    (sp.ip = true → ∃ a, env.ip = some a ∧ contains l.text a = true) ∧
    (sp.cwd = true → contains l.text env.cwd = true) ∧
    (sp.tmpdir = true → ∃ t, env.tmpdir = some t ∧ contains l.text t = true) ∧
    (sp.user = true → contains l.text env.user = true) ∧
    (sp.datelike = true → l.plausibleDate = true) ∧
    (sp.dtlike = true → l.plausibleDate = true) := by
  unfold specOf at h
  simp only [Option.ite_none_right_eq_some, Option.some.injEq] at h
  obtain ⟨_, rfl⟩ := h
  refine ⟨rfl, id, ?_, id, ?_, ?_, ?_, ?_⟩
  · cases env.ip <;> simp
  · cases env.tmpdir <;> simp
  · simp; intro h _; exact h
  · simp; intro h _; exact h
  · simp; intro h _; exact h

theorem mem_ite_singleton_iff {c : Prop} [Decidable c] {s v : Line} :
    (s ∈ if c then [v] else []) ↔ s = v ∧ c := by
  split <;> simp_all

/-- where the members of the two lists of `exclusionsOfSpecs` come from -/
theorem mem_exclusionsOfSpecs {env : Env} {specs : List Spec} {s : Line}
    (h : s ∈ (exclusionsOfSpecs env specs).substrings ∨ s ∈ (exclusionsOfSpecs env specs).datesToRex) :
    (s = env.host ∧ ∃ sp ∈ specs, sp.host = true) ∨ (some s = env.ip ∧ ∃ sp ∈ specs, sp.ip = true) ∨
    (s = env.cwd ∧ ∃ sp ∈ specs, sp.cwd = true) ∨ (s = env.user ∧ ∃ sp ∈ specs, sp.user = true) ∨
    (some s = env.tmpdir ∧ ∃ sp ∈ specs, sp.tmpdir = true) ∨
    (∃ sp ∈ specs, sp.datelike = true ∧ s ∈ sp.info.dates) ∨
    (∃ sp ∈ specs, sp.dtlike = true ∧ s ∈ sp.info.dts) := by
  unfold exclusionsOfSpecs at h
  simp only at h
  split at h
  all_goals
    simp only [List.mem_append, List.mem_flatMap, List.mem_filter, List.not_mem_nil, or_false,
      List.any_eq_true] at h
    generalize env.ip = ip at h ⊢
    generalize env.tmpdir = tmp at h ⊢
    cases ip <;> cases tmp <;>
      simp only [List.not_mem_nil, or_false, mem_ite_singleton_iff, and_assoc, or_assoc] at h <;>
      simp only [Option.some.injEq, reduceCtorEq, false_and, false_or] <;>
      exact h

/-- the dates handed to rexpy are dates of specs flagged as such -/
theorem mem_datesToRex {env : Env} {specs : List Spec} {s : Line}
    (h : s ∈ (exclusionsOfSpecs env specs).datesToRex) :
    (∃ sp ∈ specs, sp.datelike = true ∧ s ∈ sp.info.dates) ∨
    (∃ sp ∈ specs, sp.dtlike = true ∧ s ∈ sp.info.dts) := by
  unfold exclusionsOfSpecs at h
  simp only at h
  split at h
  · simp at h
  · simpa only [List.mem_append, List.mem_flatMap, List.mem_filter, and_assoc] using h

/-- a single run generates no exclusion at all -/
theorem single_run_no_exclusions (env : Env) (lines : List LineInfo) :
    exclusions env 1 lines = { substrings := [], datesToRex := [] } := by
  simp [exclusions]

/-- **where an ignore-substring comes from**: it is the host name, the IP address, the working directory, the user name
    or TMPDIR - and then some line contains it - or a date / datetime the detectors found in a line that holds a date
    within the window of the generation run. Nothing else is ever excluded for a repeatable command. -/
theorem substring_origin (env : Env) (n : Nat) (lines : List LineInfo) (s : Line)
    (h : s ∈ (exclusions env n lines).substrings ∨ s ∈ (exclusions env n lines).datesToRex) :
    (∃ l ∈ lines, contains l.text s = true ∧
        (s = env.host ∨ some s = env.ip ∨ s = env.cwd ∨ s = env.user ∨ some s = env.tmpdir)) ∨
    (∃ l ∈ lines, l.plausibleDate = true ∧ (s ∈ l.dates ∨ s ∈ l.dts)) := by
  unfold exclusions at h
  split at h
  · simp at h
  · -- every spec comes from a line
    have hsp : ∀ sp ∈ lines.filterMap (specOf env), ∃ l ∈ lines, specOf env l = some sp := by
      intro sp hsp
      simpa [List.mem_filterMap] using hsp
    rcases mem_exclusionsOfSpecs h with ⟨rfl, sp, hm, hf⟩ | ⟨hs, sp, hm, hf⟩ | ⟨rfl, sp, hm, hf⟩ |
      ⟨rfl, sp, hm, hf⟩ | ⟨hs, sp, hm, hf⟩ | ⟨sp, hm, hf, hd⟩ | ⟨sp, hm, hf, hd⟩ <;>
      obtain ⟨l, hl, hspec⟩ := hsp sp hm <;>
      obtain ⟨hinfo, hhost, hip, hcwd, htmp, huser, hdate, hdt⟩ := specOf_some hspec
    · exact .inl ⟨l, hl, hhost hf, .inl rfl⟩
    · obtain ⟨a, ha, hc⟩ := hip hf
      have : s = a := by rw [ha] at hs; exact Option.some.inj hs
      subst this
      exact .inl ⟨l, hl, hc, .inr (.inl hs)⟩
    · exact .inl ⟨l, hl, hcwd hf, .inr (.inr (.inl rfl))⟩
    · exact .inl ⟨l, hl, huser hf, .inr (.inr (.inr (.inl rfl)))⟩
    · obtain ⟨a, ha, hc⟩ := htmp hf
      have : s = a := by rw [ha] at hs; exact Option.some.inj hs
      subst this
      exact .inl ⟨l, hl, hc, .inr (.inr (.inr (.inr hs)))⟩
    · exact .inr ⟨l, hl, hdate hf, .inl (hinfo ▸ hd)⟩
    · exact .inr ⟨l, hl, hdt hf, .inr (hinfo ▸ hd)⟩

/-- a date outside the window of the run excludes nothing: if no line holds a plausible date, every exclusion is one
    of the machine-specific strings, however date- or time-like the text is -/
theorem no_plausible_date_no_date_exclusion (env : Env) (n : Nat) (lines : List LineInfo)
    (hnone : ∀ l ∈ lines, l.plausibleDate = false) :
    (exclusions env n lines).datesToRex = [] ∧
    ∀ s ∈ (exclusions env n lines).substrings,
      s = env.host ∨ some s = env.ip ∨ s = env.cwd ∨ s = env.user ∨ some s = env.tmpdir := by
  unfold exclusions
  split
  · simp
  · -- no spec is flagged as holding a date
    have hno : ∀ sp ∈ lines.filterMap (specOf env), sp.datelike = false ∧ sp.dtlike = false := by
      intro sp hsp
      obtain ⟨l, hl, hspec⟩ : ∃ l ∈ lines, specOf env l = some sp := by
        simpa [List.mem_filterMap] using hsp
      obtain ⟨-, -, -, -, -, -, hdate, hdt⟩ := specOf_some hspec
      have := hnone l hl
      constructor
      · cases hd : sp.datelike
        · rfl
        · rw [hdate hd] at this; cases this
      · cases hd : sp.dtlike
        · rfl
        · rw [hdt hd] at this; cases this
    constructor
    · apply List.eq_nil_iff_forall_not_mem.mpr
      intro s hs
      rcases mem_datesToRex hs with ⟨sp, hm, hf, -⟩ | ⟨sp, hm, hf, -⟩
      · rw [(hno sp hm).1] at hf; cases hf
      · rw [(hno sp hm).2] at hf; cases hf
    · intro s hs
      rcases mem_exclusionsOfSpecs (.inl hs) with ⟨h, -⟩ | ⟨h, -⟩ | ⟨h, -⟩ | ⟨h, -⟩ | ⟨h, -⟩ |
        ⟨sp, hm, hf, -⟩ | ⟨sp, hm, hf, -⟩
      · exact .inl h
      · exact .inr (.inl h)
      · exact .inr (.inr (.inl h))
      · exact .inr (.inr (.inr (.inl h)))
      · exact .inr (.inr (.inr (.inr h)))
      · rw [(hno sp hm).1] at hf; cases hf
      · rw [(hno sp hm).2] at hf; cases hf

/-- a list that does not end in an empty line is compared as it stands -/
theorem dropTrailingEmpty_id {l : List Line} (h : l.getLast? ≠ some []) : dropTrailingEmpty l = l := by
  unfold dropTrailingEmpty
  split
  · contradiction
  · rfl

/-- without ignore-patterns the pattern check is plain equality, whatever the fuel -/
theorem checkPatterns_zero (pat : PatFn) (fuel : Nat) (a e : Line) :
    checkPatterns 0 pat fuel a e = (a == e) := by
  cases fuel <;> simp [checkPatterns]

/-- with ignore-substrings as the only option nothing is stripped or removed -/
theorem kept_subs_only (subs : List Line) {l : List Line} (h : l.getLast? ≠ some []) :
    kept { ignoreSubstrings := subs } l = l := by
  simp [kept, dropTrailingEmpty_id h, removable]

/-- **a changed line that holds none of the generated ignore-substrings makes the generated test fail**: the
    generated assertion is a plain check_strings comparison whose only option is the list of ignore-substrings
    (no pattern when the dates were few enough to be listed), so if reference and actual output have the same number
    of lines and differ in a line of the reference that contains none of the substrings, the comparison fails. -/
theorem changed_unexcluded_line_fails (subs : List Line) (pat : PatFn) (a e : List Line) (i : Nat)
    (hlen : a.length = e.length) (hi : i < e.length)
    (hlast : e.getLast? ≠ some [] ∧ a.getLast? ≠ some [])
    (hne : a.getD i [] ≠ e.getD i [])
    (hfree : ∀ s ∈ subs, contains (e.getD i []) s = false) :
    (checkStrings { ignoreSubstrings := subs } pat a e).failures = 1 := by
  apply unexcused_difference_fails _ _ _ _ rfl
  intro hbad
  have hia : i < a.length := hlen ▸ hi
  have hmem : (a.getD i [], e.getD i []) ∈ a.zip e := by
    refine List.mem_iff_getElem.mpr ⟨i, by rw [List.length_zip]; omega, ?_⟩
    simp [List.getElem_zip, hia, hi]
  generalize a.getD i [] = x at hmem hne
  generalize e.getD i [] = y at hmem hne hfree
  have hnot : lineOKb { ignoreSubstrings := subs } pat x y = false := by
    have hsub : subs.any (fun s => contains y s) = false := by
      simpa [List.any_eq_false] using hfree
    have hxy : (x == y) = false := by simpa using hne
    simp [lineOKb, canIgnore, normalize, checkPatterns_zero, hsub, hxy]
  have : (x, y) ∈ badPairs { ignoreSubstrings := subs } pat a e := by
    unfold badPairs
    rw [kept_subs_only subs hlast.2, kept_subs_only subs hlast.1]
    exact List.mem_filter.mpr ⟨hmem, by simp [hnot]⟩
  rw [hbad] at this
  cases this

/- non-vacuity of the last theorem, and the part played by each hypothesis -/
example : (checkStrings { ignoreSubstrings := ["vm".toList] } (fun _ _ => none)
    ["host vm".toList, "n = 1".toList] ["host vm".toList, "n = 2".toList]).failures = 1 := by decide
example : (checkStrings { ignoreSubstrings := ["vm".toList] } (fun _ _ => none)
    ["host vn".toList, "n = 1".toList] ["host vm".toList, "n = 1".toList]).failures = 0 := by decide
-- (`hlast` keeps the proof short; a dropped trailing empty line does not turn such a difference into a pass)
example : (checkStrings { ignoreSubstrings := ["vm".toList] } (fun _ _ => none)
    ["n = 1".toList, "".toList] ["n = 2".toList, "".toList]).failures = 1 := by decide
example : (checkStrings { ignoreSubstrings := ["vm".toList] } (fun _ _ => none)
    ["a".toList, "x".toList] ["a".toList, "".toList]).failures = 1 := by decide

/- non-vacuity: a line with the host name and a line with an old timestamp -/
example :
    (exclusions { host := "vm".toList, ip := some "10.0.0.7".toList, cwd := "/w".toList, homedir := "/root".toList,
                  user := "root".toList, tmpdir := none, userInHome := true, cwdInHome := false } 2
       [{ text := "host vm up".toList, plausibleDate := false, dtLike := false, dates := [], dts := [] },
        { text := "2019-03-04 12:00:01 done".toList, plausibleDate := false, dtLike := true, dates := [],
          dts := ["2019-03-04 12:00:01".toList] }]).substrings = ["vm".toList] := by decide


end TddaVerif.Props.C12.ExclLemmas
