/- Proofs about the dialect model (Model/CsvwDialect.lean). -/
import TddaVerif.Model.CsvwDialect

namespace TddaVerif.CsvwDialect.Lemmas
open TddaVerif.CsvwDialect

theorem eqZero_nvl1 (c : JV) : (nvl1 c).eqZero = c.eqZero := by
  cases c <;> rfl

theorem headerless_iff (h c : JV) : headerless h c = true ↔ (h.eqZero = true ∨ c.eqZero = true) := by
  unfold headerless headerRows
  by_cases hh : h.eqZero = true
  · rw [if_pos hh]; simp [hh]; rfl
  · rw [if_neg hh, eqZero_nvl1]; simp [hh]

theorem headerKw_names (h c : JV) (names : List (List Char)) :
    headerKw h c names = if (h.eqZero || c.eqZero) then some names else none := by
  unfold headerKw
  have := headerless_iff h c
  by_cases hl : headerless h c = true
  · have := this.mp hl
    simp only [hl, if_true]
    rcases this with h1 | h1 <;> simp [h1]
  · have h2 : ¬ (h.eqZero = true ∨ c.eqZero = true) := fun x => hl (this.mpr x)
    simp only [not_or] at h2
    simp [hl, h2.1, h2.2]

end TddaVerif.CsvwDialect.Lemmas
