/- Helper lemmas for C04 (text comparison). Statements mirror Props/C04.lean. -/
import TddaVerif.Model.CheckStrings
import TddaVerif.Props.C04Spec
import TddaVerif.Lemmas.SortLines

namespace TddaVerif.Props.C04.Lemmas
open TddaVerif.Py TddaVerif.CheckStrings TddaVerif.Props.C04

/-! ### ignore-patterns -/

theorem checkPatterns_sound (npats : Nat) (pat : PatFn) (fuel : Nat) (a e : Line)
    (h : checkPatterns npats pat fuel a e = true) : PatEquiv npats pat a e := by
  induction fuel generalizing a e with
  | zero =>
    simp only [checkPatterns, beq_iff_eq] at h
    subst h; exact PatEquiv.refl a
  | succ fuel ih =>
    simp only [checkPatterns, Bool.or_eq_true, beq_iff_eq, List.any_eq_true, List.mem_range] at h
    rcases h with rfl | ⟨p, hp, h⟩
    · exact PatEquiv.refl a
    · split at h
      · exact absurd h (by simp)
      · rename_i me hme
        split at h
        · exact absurd h (by simp)
        · rename_i ma hma
          by_cases h1 : me.groups = 1
          · exact PatEquiv.full p a e ma me hp hme hma h1
          · simp only [h1, if_false] at h
            by_cases h2 : me.groups = 2
            · simp only [h2, if_true] at h
              cases hsp : me.startParen with
              | true =>
                simp only [hsp, if_true] at h
                exact PatEquiv.restRight p a e ma me hp hme hma h2 hsp (ih _ _ h)
              | false =>
                simp only [hsp, Bool.false_eq_true, if_false] at h
                exact PatEquiv.restLeft p a e ma me hp hme hma h2 hsp (ih _ _ h)
            · simp only [h2, if_false, Bool.and_eq_true] at h
              exact PatEquiv.split p a e ma me hp hme hma h1 h2 (ih _ _ h.1) (ih _ _ h.2)

theorem checkPatterns_refl (npats : Nat) (pat : PatFn) (fuel : Nat) (a : Line) :
    checkPatterns npats pat fuel a a = true := by
  cases fuel <;> simp [checkPatterns]

/-- the expected side shrinks at every recursive call, so `e.length + 1` fuel is enough -/
theorem checkPatterns_complete_gen (npats : Nat) (pat : PatFn) (hs : Shrinks npats pat) (a e : Line)
    (h : PatEquiv npats pat a e) :
    ∀ fuel, e.length + 1 ≤ fuel → checkPatterns npats pat fuel a e = true := by
  induction h with
  | refl a => intro fuel _; exact checkPatterns_refl npats pat fuel a
  | full p a e ma me hp hme hma h1 =>
    intro fuel hf
    obtain ⟨f, rfl⟩ : ∃ f, fuel = f + 1 := ⟨fuel - 1, by omega⟩
    simp only [checkPatterns, Bool.or_eq_true, List.any_eq_true, List.mem_range]
    refine Or.inr ⟨p, hp, ?_⟩
    simp [hme, hma, h1]
  | restRight p a e ma me hp hme hma h2 hsp _ ih =>
    intro fuel hf
    obtain ⟨f, rfl⟩ : ∃ f, fuel = f + 1 := ⟨fuel - 1, by omega⟩
    have hsh := hs p e me hp hme (by omega)
    simp only [checkPatterns, Bool.or_eq_true, List.any_eq_true, List.mem_range]
    refine Or.inr ⟨p, hp, ?_⟩
    simp [hme, hma, h2, hsp, ih f (by omega)]
  | restLeft p a e ma me hp hme hma h2 hsp _ ih =>
    intro fuel hf
    obtain ⟨f, rfl⟩ : ∃ f, fuel = f + 1 := ⟨fuel - 1, by omega⟩
    have hsh := hs p e me hp hme (by omega)
    simp only [checkPatterns, Bool.or_eq_true, List.any_eq_true, List.mem_range]
    refine Or.inr ⟨p, hp, ?_⟩
    simp [hme, hma, h2, hsp, ih f (by omega)]
  | split p a e ma me hp hme hma h1 h2 _ _ ihl ihr =>
    intro fuel hf
    obtain ⟨f, rfl⟩ : ∃ f, fuel = f + 1 := ⟨fuel - 1, by omega⟩
    have hsh := hs p e me hp hme h1
    simp only [checkPatterns, Bool.or_eq_true, List.any_eq_true, List.mem_range]
    refine Or.inr ⟨p, hp, ?_⟩
    simp [hme, hma, h1, h2, ihl f (by omega), ihr f (by omega)]

theorem checkPatterns_complete (npats : Nat) (pat : PatFn) (hs : Shrinks npats pat) (a e : Line)
    (h : PatEquiv npats pat a e) : checkPatterns npats pat (patFuel a e) a e = true :=
  checkPatterns_complete_gen npats pat hs a e h _ (by unfold patFuel; omega)

theorem lineOKb_iff (o : Opts) (pat : PatFn) (hs : Shrinks o.npats pat) (a e : Line) :
    lineOKb o pat a e = true ↔ LineOK o pat a e := by
  unfold lineOKb LineOK canIgnore
  simp only [Bool.or_eq_true, beq_iff_eq, List.any_eq_true]
  constructor
  · rintro (h | h | h)
    · exact Or.inl h
    · exact Or.inr (Or.inl h)
    · exact Or.inr (Or.inr (checkPatterns_sound _ _ _ _ _ h))
  · rintro (h | h | h)
    · exact Or.inl h
    · exact Or.inr (Or.inl h)
    · exact Or.inr (Or.inr (checkPatterns_complete _ _ hs _ _ h))

/-! ### list plumbing -/

theorem filter_range_map_getD {α : Type} (p : α → Bool) (d : α) (l : List α) :
    ((List.range l.length).filter (fun i => p (l.getD i d))).map (fun i => l.getD i d)
      = l.filter p := by
  induction l with
  | nil => simp
  | cons x xs ih =>
    rw [List.length_cons, List.range_succ_eq_map, List.filter_cons]
    simp only [List.getD_cons_zero, List.filter_map]
    have e1 : ((fun i => p ((x :: xs).getD i d)) ∘ Nat.succ) = (fun i => p (xs.getD i d)) := by
      funext i; simp
    have e2 : ((fun i => (x :: xs).getD i d) ∘ Nat.succ) = (fun i => xs.getD i d) := by
      funext i; simp
    rw [e1]
    by_cases hp : p x = true
    · simp only [hp, if_true, List.map_cons, List.getD_cons_zero, List.map_map, e2, ih,
        List.filter_cons]
    · simp only [hp, Bool.false_eq_true, if_false, List.map_map, e2, ih, List.filter_cons]

theorem zip_eq_range_map (A E : List Line) (h : A.length = E.length) :
    A.zip E = (List.range A.length).map (fun i => (A.getD i [], E.getD i [])) := by
  apply List.ext_getElem
  · simp [h]
  · intro i h1 h2
    simp only [List.length_zip, Nat.lt_min] at h1
    simp [List.getD_eq_getElem?_getD, h1.1, h1.2]


theorem removable_nil (o : Opts) (h : o.removeLines = []) (x : Line) : removable o x = false := by
  simp [removable, h]

theorem after_eq_kept (o : Opts) (l : List Line) :
    (if (!o.removeLines.isEmpty) = true then (survivorIdx o l).map (fun i => l.getD i []) else l)
      = l.filter (fun x => !removable o x) := by
  split
  · exact filter_range_map_getD (fun x => !removable o x) [] l
  · rename_i h
    have h' : o.removeLines = [] := by simpa using h
    symm; apply List.filter_eq_self.mpr; intro x _; simp [removable_nil o h']


/-! ### the `wrong_content` fold -/

def wcStep (o : Opts) (pat : PatFn) (A E : List Line) (aMap eMap : Nat → Nat) (st : WC) (i : Nat) : WC :=
  let a := A.getD i []
  let e := E.getD i []
  if canIgnore o pat a e then
    { st with ndiffs := st.ndiffs - 1, aIgn := st.aIgn ++ [aMap i], eIgn := st.eIgn ++ [eMap i] }
  else
    { st with firstLine := (match st.firstLine with | none => some (i + 1) | some l => some l),
              cases := if st.cases.length < o.maxPerm then st.cases ++ [(i, a, e)] else st.cases }

theorem wrongContent_eq (o : Opts) (pat : PatFn) (A E : List Line) (aMap eMap : Nat → Nat)
    (diffs : List Nat) :
    wrongContent o pat A E aMap eMap diffs = diffs.foldl (wcStep o pat A E aMap eMap)
      { ndiffs := diffs.length, firstLine := none, cases := [], aIgn := [], eIgn := [] } := rfl

/-- index `i` of the after-removal lists holds a pair that `can_ignore` does not excuse -/
def badAt (o : Opts) (pat : PatFn) (A E : List Line) (i : Nat) : Bool :=
  !canIgnore o pat (A.getD i []) (E.getD i [])

def tripleAt (A E : List Line) (i : Nat) : Nat × Line × Line := (i, A.getD i [], E.getD i [])

theorem wcStep_ign (o : Opts) (pat : PatFn) (A E : List Line) (aMap eMap : Nat → Nat) (st : WC)
    (i : Nat) (h : badAt o pat A E i = false) :
    wcStep o pat A E aMap eMap st i =
      { st with ndiffs := st.ndiffs - 1, aIgn := st.aIgn ++ [aMap i], eIgn := st.eIgn ++ [eMap i] } := by
  have hc : canIgnore o pat (A.getD i []) (E.getD i []) = true := by
    simpa only [badAt, Bool.not_eq_false'] using h
  unfold wcStep
  simp only [hc, if_true]

theorem wcStep_bad (o : Opts) (pat : PatFn) (A E : List Line) (aMap eMap : Nat → Nat) (st : WC)
    (i : Nat) (h : badAt o pat A E i = true) :
    wcStep o pat A E aMap eMap st i =
      { st with firstLine := (match st.firstLine with | none => some (i + 1) | some l => some l),
                cases := if st.cases.length < o.maxPerm then st.cases ++ [tripleAt A E i] else st.cases } := by
  have hc : canIgnore o pat (A.getD i []) (E.getD i []) = false := by
    simpa only [badAt, Bool.not_eq_true'] using h
  unfold wcStep
  simp only [hc, Bool.false_eq_true, if_false, tripleAt]

theorem fold_ndiffs (o : Opts) (pat : PatFn) (A E : List Line) (aMap eMap : Nat → Nat)
    (diffs : List Nat) (st : WC) :
    (diffs.foldl (wcStep o pat A E aMap eMap) st).ndiffs
      = st.ndiffs - (diffs.length - (diffs.filter (badAt o pat A E)).length) := by
  induction diffs generalizing st with
  | nil => simp
  | cons i is ih =>
    rw [List.foldl_cons, ih]
    have hle : (is.filter (badAt o pat A E)).length ≤ is.length := List.length_filter_le _ _
    cases hb : badAt o pat A E i with
    | false =>
      rw [wcStep_ign _ _ _ _ _ _ _ _ hb, List.filter_cons_of_neg (by simp [hb])]
      simp only [List.length_cons]
      omega
    | true =>
      rw [wcStep_bad _ _ _ _ _ _ _ _ hb, List.filter_cons_of_pos hb]
      simp only [List.length_cons]
      omega

theorem fold_cases (o : Opts) (pat : PatFn) (A E : List Line) (aMap eMap : Nat → Nat)
    (diffs : List Nat) (st : WC) :
    (diffs.foldl (wcStep o pat A E aMap eMap) st).cases
      = st.cases ++ (((diffs.filter (badAt o pat A E)).map (tripleAt A E)).take
          (o.maxPerm - st.cases.length)) := by
  induction diffs generalizing st with
  | nil => simp
  | cons i is ih =>
    rw [List.foldl_cons, ih]
    cases hb : badAt o pat A E i with
    | false =>
      rw [wcStep_ign _ _ _ _ _ _ _ _ hb, List.filter_cons_of_neg (by simp [hb])]
    | true =>
      rw [wcStep_bad _ _ _ _ _ _ _ _ hb, List.filter_cons_of_pos hb]
      by_cases hl : st.cases.length < o.maxPerm
      · obtain ⟨k, hk⟩ : ∃ k, o.maxPerm - st.cases.length = k + 1 :=
          ⟨o.maxPerm - st.cases.length - 1, by omega⟩
        have hk' : o.maxPerm - (st.cases.length + 1) = k := by omega
        simp only [hl, if_true, List.length_append, List.length_cons, List.length_nil, Nat.zero_add,
          hk, hk', List.map_cons, List.take_succ_cons, List.append_assoc, List.singleton_append]
      · have hk : o.maxPerm - st.cases.length = 0 := by omega
        simp only [hl, if_false, hk, List.take_zero]

theorem wc_ndiffs (o : Opts) (pat : PatFn) (A E : List Line) (aMap eMap : Nat → Nat)
    (diffs : List Nat) :
    (wrongContent o pat A E aMap eMap diffs).ndiffs = (diffs.filter (badAt o pat A E)).length := by
  rw [wrongContent_eq, fold_ndiffs]
  have hle : (diffs.filter (badAt o pat A E)).length ≤ diffs.length := List.length_filter_le _ _
  simp only
  omega

theorem wc_cases (o : Opts) (pat : PatFn) (A E : List Line) (aMap eMap : Nat → Nat)
    (diffs : List Nat) :
    (wrongContent o pat A E aMap eMap diffs).cases
      = ((diffs.filter (badAt o pat A E)).map (tripleAt A E)).take o.maxPerm := by
  rw [wrongContent_eq, fold_cases]
  simp

/-! ### connecting indices with `badPairs` -/

def diffsOf (o : Opts) (A E : List Line) : List Nat :=
  (List.range A.length).filter (fun i => normalize o (A.getD i []) != normalize o (E.getD i []))

def badOf (o : Opts) (pat : PatFn) (A E : List Line) : List Nat :=
  (diffsOf o A E).filter (badAt o pat A E)

theorem badPairs_eq (o : Opts) (pat : PatFn) (A E : List Line) (h : A.length = E.length) :
    (A.zip E).filter (fun p => !lineOKb o pat p.1 p.2)
      = (badOf o pat A E).map (fun i => (A.getD i [], E.getD i [])) := by
  rw [zip_eq_range_map A E h, List.filter_map, badOf, diffsOf, List.filter_filter]
  congr 1
  apply List.filter_congr
  intro i _
  simp [lineOKb, badAt, Bool.and_comm, bne]


/-! ### `check_strings` -/

/-- what `failures` depends on: the difference count, the recorded cases, and whether the
    permutation allowance applies -/
def failuresOf (o : Opts) (permutable : Bool) (ndiffs0 : Nat) (cases : List (Nat × Line × Line)) : Nat :=
  let ndiffs := if permutable && ndiffs0 > 0 && ndiffs0 ≤ o.maxPerm then
      permutationFailures (cases.map (fun c => (c.1, normalize o c.2.1, normalize o c.2.2))) else ndiffs0
  if ndiffs > 0 then 1 else 0

theorem checkStrings_core (o : Opts) (pat : PatFn) (a e : List Line) :
    ((kept o a).length = (kept o e).length ∧
      (checkStrings o pat a e).failures = failuresOf o true (badOf o pat (kept o a) (kept o e)).length
        (((badOf o pat (kept o a) (kept o e)).map (tripleAt (kept o a) (kept o e))).take o.maxPerm)) ∨
    ((kept o a).length ≠ (kept o e).length ∧ (checkStrings o pat a e).failures = 1) := by
  unfold checkStrings
  extract_lets oa oe doRemove aRem eRem aSurv eSurv actual expected aMap eMap diffs wc wn w
  have hA : actual = kept o a := after_eq_kept o oa
  have hE : expected = kept o e := after_eq_kept o oe
  split
  rename_i firstError ndiffs0 cases aIgn eIgn permutable heq
  by_cases hlen : actual.length = expected.length
  · left
    refine ⟨hA ▸ hE ▸ hlen, ?_⟩
    have hb : (actual.length == expected.length) = true := by simpa using hlen
    rw [if_pos hb] at heq
    by_cases hd : diffs.isEmpty = true
    · rw [if_pos hd] at heq
      simp only [Prod.mk.injEq] at heq
      obtain ⟨_, rfl, rfl, _, _, rfl⟩ := heq
      have hd' : diffsOf o (kept o a) (kept o e) = [] := by
        rw [← hA, ← hE]; exact List.isEmpty_iff.mp hd
      simp [failuresOf, badOf, hd']
    · rw [if_neg hd] at heq
      simp only [Prod.mk.injEq] at heq
      obtain ⟨_, rfl, rfl, _, _, rfl⟩ := heq
      have h1 : wc.ndiffs = (badOf o pat (kept o a) (kept o e)).length := by
        rw [← hA, ← hE]; exact wc_ndiffs o pat actual expected aMap eMap diffs
      have h2 : wc.cases = ((badOf o pat (kept o a) (kept o e)).map
          (tripleAt (kept o a) (kept o e))).take o.maxPerm := by
        rw [← hA, ← hE]; exact wc_cases o pat actual expected aMap eMap diffs
      simp only [failuresOf, h1, h2]
  · right
    refine ⟨hA ▸ hE ▸ hlen, ?_⟩
    have hb : ¬ (actual.length == expected.length) = true := by simpa using hlen
    rw [if_neg hb] at heq
    simp only [Prod.mk.injEq] at heq
    obtain ⟨_, rfl, _, _, _, rfl⟩ := heq
    have hla : actual.length ≤ oa.length := by rw [hA]; exact List.length_filter_le _ _
    have hle : expected.length ≤ oe.length := by rw [hE]; exact List.length_filter_le _ _
    have hpos : max oa.length oe.length > 0 := by omega
    simp [hpos]


theorem badPairs_eq_map (o : Opts) (pat : PatFn) (a e : List Line)
    (h : (kept o a).length = (kept o e).length) :
    badPairs o pat a e = (badOf o pat (kept o a) (kept o e)).map
      (fun i => ((kept o a).getD i [], (kept o e).getD i [])) :=
  badPairs_eq o pat (kept o a) (kept o e) h

/-- with equal line counts: the verdict in terms of `badPairs` -/
theorem failures_eq (o : Opts) (pat : PatFn) (a e : List Line)
    (hlen : (kept o a).length = (kept o e).length) :
    (checkStrings o pat a e).failures =
      if 0 < (badPairs o pat a e).length ∧ (badPairs o pat a e).length ≤ o.maxPerm then
        (if sortLines ((badPairs o pat a e).map (fun p => normalize o p.1))
            = sortLines ((badPairs o pat a e).map (fun p => normalize o p.2)) then 0 else 1)
      else if 0 < (badPairs o pat a e).length then 1 else 0 := by
  rcases checkStrings_core o pat a e with ⟨_, h⟩ | ⟨h, _⟩
  · rw [h, badPairs_eq_map o pat a e hlen]
    simp only [failuresOf, List.length_map, List.map_map]
    by_cases hc : 0 < (badOf o pat (kept o a) (kept o e)).length ∧
        (badOf o pat (kept o a) (kept o e)).length ≤ o.maxPerm
    · have htake : ((badOf o pat (kept o a) (kept o e)).map
          (tripleAt (kept o a) (kept o e))).take o.maxPerm
          = (badOf o pat (kept o a) (kept o e)).map (tripleAt (kept o a) (kept o e)) :=
        List.take_of_length_le (by simpa using hc.2)
      have hc' : (true && decide ((badOf o pat (kept o a) (kept o e)).length > 0) &&
          decide ((badOf o pat (kept o a) (kept o e)).length ≤ o.maxPerm)) = true := by
        simp [hc.1, hc.2]
      rw [if_pos hc', if_pos hc, htake]
      simp only [permutationFailures, List.map_map, List.length_map]
      have e1 : ((fun x : Nat × Line × Line => x.2.1) ∘
          (fun c : Nat × Line × Line => (c.1, normalize o c.2.1, normalize o c.2.2)) ∘
          tripleAt (kept o a) (kept o e))
          = ((fun p : Line × Line => normalize o p.1) ∘
              fun i => ((kept o a).getD i [], (kept o e).getD i [])) := rfl
      have e2 : ((fun x : Nat × Line × Line => x.2.2) ∘
          (fun c : Nat × Line × Line => (c.1, normalize o c.2.1, normalize o c.2.2)) ∘
          tripleAt (kept o a) (kept o e))
          = ((fun p : Line × Line => normalize o p.2) ∘
              fun i => ((kept o a).getD i [], (kept o e).getD i [])) := rfl
      rw [e1, e2]
      generalize sortLines (List.map ((fun p : Line × Line => normalize o p.1) ∘ _) _) = S1
      generalize sortLines (List.map ((fun p : Line × Line => normalize o p.2) ∘ _) _) = S2
      have hpos := hc.1
      by_cases hs : S1 = S2
      · simp [hs]
      · simp [hs, hpos]
    · have hc' : ¬ (true && decide ((badOf o pat (kept o a) (kept o e)).length > 0) &&
          decide ((badOf o pat (kept o a) (kept o e)).length ≤ o.maxPerm)) = true := by
        simpa using hc
      rw [if_neg hc', if_neg hc]
  · exact absurd hlen h

theorem check_pass_iff (o : Opts) (pat : PatFn) (a e : List Line) :
    (checkStrings o pat a e).failures = 0 ↔ Agree o pat a e := by
  by_cases hlen : (kept o a).length = (kept o e).length
  · rw [failures_eq o pat a e hlen]
    unfold Agree
    simp only [hlen, true_and]
    by_cases hnil : badPairs o pat a e = []
    · simp [hnil]
    · have hpos : 0 < (badPairs o pat a e).length := List.length_pos_iff.mpr hnil
      by_cases hmax : (badPairs o pat a e).length ≤ o.maxPerm
      · simp only [hpos, hmax, and_self, if_true, hnil, false_or, true_and]
        rw [← sorted_eq_iff_perm]
        by_cases hs : sortLines ((badPairs o pat a e).map (fun p => normalize o p.1))
            = sortLines ((badPairs o pat a e).map (fun p => normalize o p.2))
        · simp [hs]
        · simp [hs]
      · simp [hpos, hmax, hnil]
  · rcases checkStrings_core o pat a e with ⟨h, _⟩ | ⟨_, h⟩
    · exact absurd h hlen
    · rw [h]
      unfold Agree
      simp [hlen]

theorem lineOKb_of_normalize_eq (o : Opts) (pat : PatFn) (x y : Line)
    (h : normalize o x = normalize o y) : lineOKb o pat x y = true := by
  simp [lineOKb, h]

theorem mem_zip_self {α : Type} (l : List α) (p : α × α) (h : p ∈ l.zip l) : p.1 = p.2 := by
  induction l with
  | nil => simp at h
  | cons x xs ih =>
    simp only [List.zip_cons_cons, List.mem_cons] at h
    rcases h with rfl | h
    · rfl
    · exact ih h

theorem identical_passes (o : Opts) (pat : PatFn) (a : List Line) :
    (checkStrings o pat a a).failures = 0 := by
  rw [check_pass_iff]
  refine ⟨rfl, Or.inl ?_⟩
  unfold badPairs
  rw [List.filter_eq_nil_iff]
  intro p hp
  have : p.1 = p.2 := mem_zip_self _ p hp
  simp [lineOKb, this]

theorem different_length_fails (o : Opts) (pat : PatFn) (a e : List Line)
    (h : (kept o a).length ≠ (kept o e).length) : (checkStrings o pat a e).failures = 1 := by
  rcases checkStrings_core o pat a e with ⟨h', _⟩ | ⟨_, h'⟩
  · exact absurd h' h
  · exact h'

theorem unexcused_difference_fails (o : Opts) (pat : PatFn) (a e : List Line)
    (hperm : o.maxPerm = 0) (h : badPairs o pat a e ≠ []) : (checkStrings o pat a e).failures = 1 := by
  by_cases hlen : (kept o a).length = (kept o e).length
  · have hpos : 0 < (badPairs o pat a e).length := List.length_pos_iff.mpr h
    rw [failures_eq o pat a e hlen, hperm]
    have : ¬ (badPairs o pat a e).length ≤ 0 := by omega
    simp [hpos, this]
  · exact different_length_fails o pat a e hlen

end TddaVerif.Props.C04.Lemmas
