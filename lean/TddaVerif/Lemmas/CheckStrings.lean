/- Helper lemmas for C04 (text comparison). Statements mirror Props/C04.lean. -/
import TddaVerif.Model.CheckStrings
import TddaVerif.Props.C04Spec

namespace TddaVerif.Props.C04.Lemmas
open TddaVerif.Py TddaVerif.CheckStrings TddaVerif.Props.C04

theorem checkPatterns_sound (npats : Nat) (pat : PatFn) (fuel : Nat) (a e : Line)
    (h : checkPatterns npats pat fuel a e = true) : PatEquiv npats pat a e := by
  sorry

theorem checkPatterns_complete (npats : Nat) (pat : PatFn) (hs : Shrinks npats pat) (a e : Line)
    (h : PatEquiv npats pat a e) : checkPatterns npats pat (patFuel a e) a e = true := by
  sorry

theorem lineOKb_iff (o : Opts) (pat : PatFn) (hs : Shrinks o.npats pat) (a e : Line) :
    lineOKb o pat a e = true ↔ LineOK o pat a e := by
  sorry

theorem sorted_eq_iff_perm (x y : List Line) : sortLines x = sortLines y ↔ x.Perm y := by
  sorry

theorem check_pass_iff (o : Opts) (pat : PatFn) (a e : List Line) :
    (checkStrings o pat a e).failures = 0 ↔ Agree o pat a e := by
  sorry

theorem identical_passes (o : Opts) (pat : PatFn) (a : List Line) :
    (checkStrings o pat a a).failures = 0 := by
  sorry

theorem different_length_fails (o : Opts) (pat : PatFn) (a e : List Line)
    (h : (kept o a).length ≠ (kept o e).length) : (checkStrings o pat a e).failures = 1 := by
  sorry

theorem unexcused_difference_fails (o : Opts) (pat : PatFn) (a e : List Line)
    (hperm : o.maxPerm = 0) (h : badPairs o pat a e ≠ []) : (checkStrings o pat a e).failures = 1 := by
  sorry

end TddaVerif.Props.C04.Lemmas
