/- Lemmas for C11 / C12 (gentest). -/
import TddaVerif.Model.Gentest
import Mathlib.Data.List.Nodup
import Mathlib.Data.List.Perm.Subperm
import Mathlib.Data.List.Range

namespace TddaVerif.Props.C11.Lemmas
open TddaVerif.Gentest

/-- one step of reading decimal digits back (left inverse of `natText`) -/
def decStep (acc : Nat) (c : Char) : Nat := acc * 10 + (c.toNat - 48)

theorem digit_toNat : ∀ k, k < 10 → (Char.ofNat (48 + k)).toNat - 48 = k := by decide

theorem digitsAux_decode : ∀ (fuel n : Nat) (acc : List Char), n < fuel →
    (digitsAux fuel n acc).foldl decStep 0 = acc.foldl decStep n := by
  intro fuel
  induction fuel with
  | zero => intro n acc h; omega
  | succ fuel ih =>
    intro n acc h
    unfold digitsAux
    simp only
    split
    · rename_i h0
      simp only [List.foldl_cons, decStep, digit_toNat (n % 10) (Nat.mod_lt _ (by omega))]
      congr 1; omega
    · rename_i h0
      rw [ih (n / 10) _ (by omega)]
      simp only [List.foldl_cons, decStep, digit_toNat (n % 10) (Nat.mod_lt _ (by omega))]
      congr 1; omega

theorem natText_decode (n : Nat) : (natText n).foldl decStep 0 = n := by
  unfold natText
  rw [digitsAux_decode _ _ _ (by omega)]
  rfl

theorem natText_injective (a b : Nat) (h : natText a = natText b) : a = b := by
  have := congrArg (fun l => l.foldl decStep 0) h
  simpa [natText_decode] using this

/-- if the loop's answer is taken, then so were all `fuel + 1` candidates it went through -/
theorem bump_mem_all (base : Name) (taken : List Name) : ∀ (fuel q : Nat),
    (bump base taken fuel q).1 ∈ taken → ∀ i, i ≤ fuel → base ++ natText (q + 1 + i) ∈ taken := by
  intro fuel
  induction fuel with
  | zero =>
    intro q h i hi
    have : i = 0 := by omega
    subst this
    simpa [bump] using h
  | succ fuel ih =>
    intro q h i hi
    unfold bump at h
    simp only at h
    split at h
    · rename_i hc
      cases i with
      | zero => simpa using hc
      | succ i =>
        have := ih (q + 1) h i (by omega)
        have e : q + 1 + (i + 1) = q + 1 + 1 + i := by omega
        rw [e]; exact this
    · rename_i hc
      simp at hc
      exact absurd h hc

/-- the loop finds a name that is not taken -/
theorem bump_fresh (base : Name) (taken : List Name) (q : Nat) :
    (bump base taken (taken.length + 1) q).1 ∉ taken := by
  intro h
  have hall := bump_mem_all base taken _ q h
  let cands := (List.range (taken.length + 2)).map (fun i => base ++ natText (q + 1 + i))
  have hnd : cands.Nodup := by
    apply List.Nodup.map_on _ List.nodup_range
    intro x _ y _ hxy
    have := natText_injective _ _ (List.append_cancel_left hxy)
    omega
  have hsub : cands ⊆ taken := by
    intro x hx
    simp only [cands, List.mem_map, List.mem_range] at hx
    obtain ⟨i, hi, rfl⟩ := hx
    exact hall i (by omega)
  have := (hnd.subperm hsub).length_le
  simp [cands] at this
  omega


/-- every name handed out is new -/
theorem testName_fresh (alnum : Char → Bool) (st : NameState) (b : Name) :
    (testName alnum st b).1 ∉ st.taken ∧ (testName alnum st b).2.taken = (testName alnum st b).1 :: st.taken := by
  unfold testName
  simp only
  split
  · exact ⟨bump_fresh _ _ _, rfl⟩
  · rename_i hc
    exact ⟨by simpa using hc, rfl⟩

/-- the test names of any list of files are pairwise distinct and differ from everything taken before
    (in particular from the four fixed names) -/
theorem testNames_nodup (alnum : Char → Bool) (st : NameState) (bs : List Name) :
    (testNames alnum st bs).Nodup ∧ ∀ n ∈ testNames alnum st bs, n ∉ st.taken := by
  induction bs generalizing st with
  | nil => simp [testNames]
  | cons b bs ih =>
    obtain ⟨hf, ht⟩ := testName_fresh alnum st b
    obtain ⟨hnd, hnot⟩ := ih (testName alnum st b).2
    rw [ht] at hnot
    simp only [testNames, List.nodup_cons, List.mem_cons]
    refine ⟨⟨?_, hnd⟩, ?_⟩
    · intro hm
      exact hnot _ hm (List.mem_cons_self ..)
    · rintro n (rfl | hn)
      · exact hf
      · intro hmem
        exact hnot n hn (List.mem_cons_of_mem _ hmem)

theorem testNames_length (alnum : Char → Bool) (st : NameState) (bs : List Name) :
    (testNames alnum st bs).length = bs.length := by
  induction bs generalizing st with
  | nil => rfl
  | cons b bs ih => simp [testNames, ih]

/-- the test written for one reference file (the function zipped in `plan`) -/
def fileTest (f : Name × Bool) (n : Name) : TestDef :=
  { name := n, kind := some (if f.2 then Kind.textFile else Kind.binaryFile), subject := f.1 }

theorem zipWith_names : ∀ (files : List (Name × Bool)) (names : List Name), files.length = names.length →
    (List.zipWith fileTest files names).map (·.name) = names := by
  intro files
  induction files with
  | nil => intro names h; cases names <;> simp_all
  | cons f fs ih =>
    intro names h
    cases names with
    | nil => simp at h
    | cons n ns => simp [fileTest, ih ns (by simpa using h)]

theorem zipWith_files : ∀ (files : List (Name × Bool)) (names : List Name), files.length = names.length →
    ((List.zipWith fileTest files names).filter (fun t => t.kind == some .textFile || t.kind == some .binaryFile)).map
        (fun t => (t.subject, t.kind == some .textFile)) = files := by
  intro files
  induction files with
  | nil => intro names h; cases names <;> simp_all
  | cons f fs ih =>
    intro names h
    cases names with
    | nil => simp at h
    | cons n ns =>
      obtain ⟨f1, f2⟩ := f
      cases f2 <;> simp [fileTest, ih ns (by simpa using h)]

theorem zipWith_filter_string (files : List (Name × Bool)) (names : List Name) :
    (List.zipWith fileTest files names).filter (fun t => t.kind == some .string) = [] := by
  induction files generalizing names with
  | nil => simp
  | cons f fs ih =>
    cases names with
    | nil => simp
    | cons n ns =>
      obtain ⟨f1, f2⟩ := f
      cases f2 <;> simp [fileTest, ih ns]

theorem zipWith_filter_none (files : List (Name × Bool)) (names : List Name) :
    (List.zipWith fileTest files names).filter (fun t => t.kind == none) = [] := by
  induction files generalizing names with
  | nil => simp
  | cons f fs ih =>
    cases names with
    | nil => simp
    | cons n ns =>
      simp only [List.zipWith_cons_cons, List.filter_cons, fileTest]
      simpa using ih ns

theorem plan_eq (alnum : Char → Bool) (so se : Bool) (files : List (Name × Bool)) :
    plan alnum so se files =
  [{ name := "no_exception".toList, kind := none, subject := [] },
   { name := "exit_code".toList, kind := none, subject := [] }] ++
  (if so then [{ name := "stdout".toList, kind := some .string, subject := "stdout".toList }] else []) ++
  (if se then [{ name := "stderr".toList, kind := some .string, subject := "stderr".toList }] else []) ++
  (List.zipWith fileTest files (testNames alnum {} (files.map (·.1)))) := rfl

/-- the script's test names are pairwise distinct: no test silently replaces another -/
theorem plan_names_nodup (alnum : Char → Bool) (so se : Bool) (files : List (Name × Bool)) :
    ((plan alnum so se files).map (·.name)).Nodup := by
  have hlen : files.length = (testNames alnum {} (files.map (·.1))).length := by
    simp [testNames_length]
  obtain ⟨hnd, hnot⟩ := testNames_nodup alnum {} (files.map (·.1))
  have hres : ∀ n ∈ reserved, n ∉ testNames alnum {} (files.map (·.1)) :=
    fun n hn hm => hnot n hm hn
  have h1 := hres "no_exception".toList (by simp [reserved])
  have h2 := hres "exit_code".toList (by simp [reserved])
  have h3 := hres "stdout".toList (by simp [reserved])
  have h4 := hres "stderr".toList (by simp [reserved])
  simp only [String.toList] at h1 h2 h3 h4
  rw [plan_eq]
  simp only [List.map_append, zipWith_names _ _ hlen]
  cases so <;> cases se <;> simp [hnd] <;>
    first | exact ⟨h1, h2⟩ | exact ⟨h1, h2, h4⟩ | exact ⟨h1, h2, h3⟩ | exact ⟨h1, h2, h3, h4⟩

/-- number of tests = files + the stream tests asked for + 2 -/
theorem plan_length (alnum : Char → Bool) (so se : Bool) (files : List (Name × Bool)) :
    (plan alnum so se files).length = files.length + (if so then 1 else 0) + (if se then 1 else 0) + 2 := by
  rw [plan_eq]
  cases so <;> cases se <;> simp [testNames_length]

/-- the file tests are, in order, exactly one per reference file, with the comparison its type asks for -/
theorem plan_files (alnum : Char → Bool) (so se : Bool) (files : List (Name × Bool)) :
    ((plan alnum so se files).filter (fun t => t.kind == some .textFile || t.kind == some .binaryFile)).map
        (fun t => (t.subject, t.kind == some .textFile)) = files := by
  have hlen : files.length = (testNames alnum {} (files.map (·.1))).length := by
    simp [testNames_length]
  rw [plan_eq]
  simp only [List.filter_append, List.map_append, zipWith_files _ _ hlen]
  cases so <;> cases se <;> simp

theorem plan_streams (alnum : Char → Bool) (so se : Bool) (files : List (Name × Bool)) :
    (((plan alnum so se files).filter (fun t => t.kind == some .string)).map (·.subject)
      = (if so then ["stdout".toList] else []) ++ (if se then ["stderr".toList] else [])) ∧
    ((plan alnum so se files).filter (fun t => t.kind == none)).map (·.name) = ["no_exception".toList, "exit_code".toList] := by
  rw [plan_eq]
  simp only [List.filter_append, List.map_append, zipWith_filter_string, zipWith_filter_none]
  cases so <;> cases se <;> simp

/-- the calendar, stated independently: month lengths by name -/
def RealDate (y m d : Nat) : Prop :=
  1 ≤ y ∧ y ≤ 9999 ∧ 1 ≤ d ∧
  ((m ∈ [1, 3, 5, 7, 8, 10, 12] ∧ d ≤ 31) ∨ (m ∈ [4, 6, 9, 11] ∧ d ≤ 30) ∨
   (m = 2 ∧ d ≤ 28) ∨ (m = 2 ∧ d = 29 ∧ (y % 400 = 0 ∨ (y % 4 = 0 ∧ y % 100 ≠ 0))))

theorem possibleDate_iff (y m d : Nat) : possibleDate y m d = true ↔ RealDate y m d := by
  unfold possibleDate RealDate daysInMonth isLeap
  simp only [Bool.and_eq_true, decide_eq_true_eq, List.mem_cons, List.not_mem_nil, or_false,
    Bool.or_eq_true, beq_iff_eq, bne_iff_ne, ne_eq]
  constructor
  · rintro ⟨⟨⟨⟨⟨h1, h2⟩, h3⟩, h4⟩, h5⟩, h6⟩
    refine ⟨h1, h2, h5, ?_⟩
    split at h6
    · split at h6 <;> omega
    · split at h6 <;> omega
  · rintro ⟨h1, h2, h3, h4⟩
    split <;> split <;> omega

/-- a number triple is date-like exactly when one of its three readings (d/m/y, y/m/d, m/d/y) is a real date in range -/
theorem numDateLike_iff (n1 n2 n3 : Nat) (inRange : Nat → Nat → Nat → Bool) :
    numDateLike n1 n2 n3 inRange = true ↔
      (RealDate n3 n2 n1 ∧ inRange n3 n2 n1 = true) ∨ (RealDate n1 n2 n3 ∧ inRange n1 n2 n3 = true) ∨
      (RealDate n3 n1 n2 ∧ inRange n3 n1 n2 = true) := by
  have key : ∀ y m d, possibleDate y m d = true → 1 ≤ d ∧ d ≤ 31 ∧ 1 ≤ m ∧ m ≤ 12 := by
    intro y m d h
    unfold possibleDate daysInMonth at h
    simp only [Bool.and_eq_true, decide_eq_true_eq] at h
    obtain ⟨⟨⟨⟨⟨h1, h2⟩, h3⟩, h4⟩, h5⟩, h6⟩ := h
    refine ⟨h5, ?_, h3, h4⟩
    split at h6
    · split at h6 <;> omega
    · split at h6 <;> omega
  simp only [← possibleDate_iff]
  unfold numDateLike
  simp only [Bool.or_eq_true, Bool.and_eq_true, decide_eq_true_eq]
  constructor
  · rintro ((h | h) | h)
    · exact Or.inl ⟨h.1.2, h.2⟩
    · exact Or.inr (Or.inl ⟨h.1.2, h.2⟩)
    · exact Or.inr (Or.inr ⟨h.1.2, h.2⟩)
  · rintro (⟨h, hr⟩ | ⟨h, hr⟩ | ⟨h, hr⟩)
    · have := key _ _ _ h
      exact Or.inl (Or.inl ⟨⟨⟨⟨this.1, this.2.1⟩, this.2.2⟩, h⟩, hr⟩)
    · have := key _ _ _ h
      exact Or.inl (Or.inr ⟨⟨⟨⟨this.1, this.2.1⟩, this.2.2⟩, h⟩, hr⟩)
    · have := key _ _ _ h
      exact Or.inr ⟨⟨⟨⟨this.1, this.2.1⟩, this.2.2⟩, h⟩, hr⟩

end TddaVerif.Props.C11.Lemmas
