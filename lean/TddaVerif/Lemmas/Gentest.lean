/- Lemmas for C11 / C12 (gentest). -/
import TddaVerif.Model.Gentest

namespace TddaVerif.Props.C11.Lemmas
open TddaVerif.Gentest

theorem natText_injective (a b : Nat) (h : natText a = natText b) : a = b := by
  sorry

/-- the loop finds a name that is not taken -/
theorem bump_fresh (base : Name) (taken : List Name) (q : Nat) :
    (bump base taken (taken.length + 1) q).1 ∉ taken := by
  sorry

/-- every name handed out is new -/
theorem testName_fresh (alnum : Char → Bool) (st : NameState) (b : Name) :
    (testName alnum st b).1 ∉ st.taken ∧ (testName alnum st b).2.taken = (testName alnum st b).1 :: st.taken := by
  sorry

/-- the test names of any list of files are pairwise distinct and differ from everything taken before
    (in particular from the four fixed names) -/
theorem testNames_nodup (alnum : Char → Bool) (st : NameState) (bs : List Name) :
    (testNames alnum st bs).Nodup ∧ ∀ n ∈ testNames alnum st bs, n ∉ st.taken := by
  sorry

theorem testNames_length (alnum : Char → Bool) (st : NameState) (bs : List Name) :
    (testNames alnum st bs).length = bs.length := by
  sorry

/-- the script's test names are pairwise distinct: no test silently replaces another -/
theorem plan_names_nodup (alnum : Char → Bool) (so se : Bool) (files : List (Name × Bool)) :
    ((plan alnum so se files).map (·.name)).Nodup := by
  sorry

/-- number of tests = files + the stream tests asked for + 2 -/
theorem plan_length (alnum : Char → Bool) (so se : Bool) (files : List (Name × Bool)) :
    (plan alnum so se files).length = files.length + (if so then 1 else 0) + (if se then 1 else 0) + 2 := by
  sorry

/-- the file tests are, in order, exactly one per reference file, with the comparison its type asks for -/
theorem plan_files (alnum : Char → Bool) (so se : Bool) (files : List (Name × Bool)) :
    ((plan alnum so se files).filter (fun t => t.kind == some .textFile || t.kind == some .binaryFile)).map
        (fun t => (t.subject, t.kind == some .textFile)) = files := by
  sorry

theorem plan_streams (alnum : Char → Bool) (so se : Bool) (files : List (Name × Bool)) :
    (((plan alnum so se files).filter (fun t => t.kind == some .string)).map (·.subject)
      = (if so then ["stdout".toList] else []) ++ (if se then ["stderr".toList] else [])) ∧
    ((plan alnum so se files).filter (fun t => t.kind == none)).map (·.name) = ["no_exception".toList, "exit_code".toList] := by
  sorry

/-- the calendar, stated independently: month lengths by name -/
def RealDate (y m d : Nat) : Prop :=
  1 ≤ y ∧ y ≤ 9999 ∧ 1 ≤ d ∧
  ((m ∈ [1, 3, 5, 7, 8, 10, 12] ∧ d ≤ 31) ∨ (m ∈ [4, 6, 9, 11] ∧ d ≤ 30) ∨
   (m = 2 ∧ d ≤ 28) ∨ (m = 2 ∧ d = 29 ∧ (y % 400 = 0 ∨ (y % 4 = 0 ∧ y % 100 ≠ 0))))

theorem possibleDate_iff (y m d : Nat) : possibleDate y m d = true ↔ RealDate y m d := by
  sorry

/-- a number triple is date-like exactly when one of its three readings (d/m/y, y/m/d, m/d/y) is a real date in range -/
theorem numDateLike_iff (n1 n2 n3 : Nat) (inRange : Nat → Nat → Nat → Bool) :
    numDateLike n1 n2 n3 inRange = true ↔
      (RealDate n3 n2 n1 ∧ inRange n3 n2 n1 = true) ∨ (RealDate n1 n2 n3 ∧ inRange n1 n2 n3 = true) ∨
      (RealDate n3 n1 n2 ∧ inRange n3 n1 n2 = true) := by
  sorry

end TddaVerif.Props.C11.Lemmas
