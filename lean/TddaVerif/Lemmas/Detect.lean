/- Helper lemmas for C06 (detection). Statements mirror Props/C06.lean. -/
import TddaVerif.Model.Constraints
import TddaVerif.Props.C02Spec
import TddaVerif.Lemmas.Verify
import TddaVerif.Lemmas.ValOrder

namespace TddaVerif.Props.C06
open TddaVerif.Constraints TddaVerif.Props.C02

/-- the column reduced to one record -/
def single' (c : Column) (v : Val) : Column := { c with cells := [some v] }

def ftCoarse' : FType → Option Coarse
  | .bool | .int | .real => some .number
  | .string => some .string
  | .date => some .date
  | .other => none

def RecordWise' (c : Column) : Constraint → Prop
  | .min (some b) _ => ftCoarse' c.ftype = some b.coarse
  | .max (some b) _ => ftCoarse' c.ftype = some b.coarse
  | .minLength (some _) => c.ftype = .string
  | .maxLength (some _) => c.ftype = .string
  | .sign (some s) => (c.ftype = .bool ∨ c.ftype = .int ∨ c.ftype = .real) ∧ s ≠ .null
  | .allowedValues (some _) => True
  | .rex (some _) => c.ftype = .string
  | _ => False

end TddaVerif.Props.C06

namespace TddaVerif.Props.C06.Lemmas
open TddaVerif.Constraints TddaVerif.Props.C02 TddaVerif.Props.C06 TddaVerif.Constraints.Order
open TddaVerif.Props.C02.Lemmas

theorem detect_verdicts_eq_verify (cfg : Cfg) (heps : 0 ≤ cfg.epsilon) (c : Column) (hwf : c.WF = true)
    (k : Constraint) : verifyOn cfg c true k = verifyOn cfg c false k :=
  verify_flag_irrelevant cfg heps c hwf k

/-! ### detection_field -/

theorem detField_length (cells : List (Option Val)) (d : Option Bool) (p : Val → Bool) :
    (detField cells d p).length = cells.length := by
  unfold detField; split <;> simp

theorem constFlags_length (c : Column) (b : Bool) : (constFlags c b).length = c.cells.length := by
  simp [constFlags]

theorem detField_getElem?_some (cells : List (Option Val)) (d : Option Bool) (p : Val → Bool)
    (i : Nat) (v : Val) (h : cells[i]? = some (some v)) :
    (detField cells d p)[i]? = some (some (p v)) := by
  unfold detField; split <;> simp [List.getElem?_map, h]

/-- a null record gets the default; when the default is `none` this is `none` in both branches -/
theorem detField_getElem?_none (cells : List (Option Val)) (d : Option Bool) (p : Val → Bool)
    (i : Nat) (h : cells[i]? = some none) :
    (detField cells d p)[i]? = some d := by
  unfold detField; split
  · rename_i hall
    have := List.all_eq_true.mp hall none (List.mem_of_getElem? h)
    simp at this
  · simp [List.getElem?_map, h]

theorem flags_length (cfg : Cfg) (c : Column) (k : Constraint) (fl : List (Option Bool))
    (h : detectFlags cfg c k = some fl) : fl.length = c.cells.length := by
  have hc := constFlags_length c
  have hd := detField_length c.cells
  cases k with
  | type ts => simp only [detectFlags, Option.some.injEq] at h; subst h; exact hc _
  | min b p =>
    cases b with
    | none => simp [detectFlags] at h
    | some b =>
      simp only [detectFlags] at h
      repeat' split at h
      all_goals (simp only [Option.some.injEq] at h; subst h; first | exact hc _ | exact hd _ _)
  | max b p =>
    cases b with
    | none => simp [detectFlags] at h
    | some b =>
      simp only [detectFlags] at h
      repeat' split at h
      all_goals (simp only [Option.some.injEq] at h; subst h; first | exact hc _ | exact hd _ _)
  | minLength n =>
    cases n with
    | none => simp [detectFlags] at h
    | some n =>
      simp only [detectFlags] at h
      split at h
      all_goals (simp only [Option.some.injEq] at h; subst h; first | exact hc _ | exact hd _ _)
  | maxLength n =>
    cases n with
    | none => simp [detectFlags] at h
    | some n =>
      simp only [detectFlags] at h
      split at h
      all_goals (simp only [Option.some.injEq] at h; subst h; first | exact hc _ | exact hd _ _)
  | sign s =>
    cases s with
    | none => simp [detectFlags] at h
    | some s =>
      simp only [detectFlags] at h
      split at h
      · simp only [Option.some.injEq] at h; subst h; exact hc _
      · cases s <;> (simp only [Option.some.injEq] at h; subst h; first | exact hc _ | exact hd _ _)
  | maxNulls n =>
    cases n with
    | none => simp [detectFlags] at h
    | some n => simp only [detectFlags, Option.some.injEq] at h; subst h; simp
  | noDuplicates v =>
    cases v with
    | none => simp [detectFlags] at h
    | some v =>
      cases v with
      | false => simp [detectFlags] at h
      | true => simp only [detectFlags, Option.some.injEq] at h; subst h; exact hd _ _
  | allowedValues vs =>
    cases vs with
    | none => simp [detectFlags] at h
    | some vs => simp only [detectFlags, Option.some.injEq] at h; subst h; exact hd _ _
  | rex rs =>
    cases rs with
    | none => simp [detectFlags] at h
    | some rs =>
      simp only [detectFlags] at h
      split at h
      all_goals (simp only [Option.some.injEq] at h; subst h; first | exact hc _ | exact hd _ _)


/-! ### record-wise kinds -/

theorem single_nonNull (c : Column) (v : Val) : (single' c v).nonNull = [v] := rfl
theorem single_ftype (c : Column) (v : Val) : (single' c v).ftype = c.ftype := rfl

theorem flags_of_detField (cfg : Cfg) (c : Column) (k : Constraint) (p : Val → Bool)
    (hp : ∀ v ∈ c.nonNull, p v = true ↔ Sat cfg (single' c v) k) (i : Nat) :
    (c.cells[i]? = some none → (detField c.cells none p)[i]? = some none) ∧
    (∀ v, c.cells[i]? = some (some v) →
      ∃ b, (detField c.cells none p)[i]? = some (some b) ∧ (b = true ↔ Sat cfg (single' c v) k)) := by
  refine ⟨fun h => detField_getElem?_none _ _ _ _ h,
    fun v hv => ⟨p v, detField_getElem?_some _ _ _ _ _ hv, hp v ?_⟩⟩
  rw [mem_nonNull]; exact List.mem_of_getElem? hv

theorem date_iff_of_coarse (ft : FType) (b : Val) (hk : ftCoarse' ft = some b.coarse) :
    (ft == FType.date) = (b.coarse == Coarse.date) := by
  cases ft <;> simp [ftCoarse'] at hk <;> rw [← hk] <;> decide

theorem coarse_of_wf (c : Column) (hwf : c.WF = true) (b : Val)
    (hk : ftCoarse' c.ftype = some b.coarse) (v : Val) (hv : v ∈ c.nonNull) : v.coarse = b.coarse := by
  have hvt := wf_ftype c hwf v hv
  rw [← hvt] at hk
  cases v <;> exact Option.some.inj hk

theorem min_unfold (cfg : Cfg) (c : Column) (b : Val) (p : Precision) :
    detectFlags cfg c (.min (some b) p) =
      if ftCoarse' c.ftype != some b.coarse then some (constFlags c false)
      else if p == .closed || c.ftype == .date then some (detField c.cells none (fun x => b.le x))
      else if p == .open_ then some (detField c.cells none (fun x => b.lt x))
      else some (detField c.cells none (fun x => fuzzyGe x b cfg.epsilon)) := rfl

theorem max_unfold (cfg : Cfg) (c : Column) (b : Val) (p : Precision) :
    detectFlags cfg c (.max (some b) p) =
      if ftCoarse' c.ftype != some b.coarse then some (constFlags c false)
      else if p == .closed || c.ftype == .date then some (detField c.cells none (fun x => x.le b))
      else if p == .open_ then some (detField c.cells none (fun x => x.lt b))
      else some (detField c.cells none (fun x => fuzzyLe x b cfg.epsilon)) := rfl

theorem min_flags_eq (cfg : Cfg) (c : Column) (b : Val) (p : Precision)
    (hk : ftCoarse' c.ftype = some b.coarse) :
    detectFlags cfg c (.min (some b) p) = some (detField c.cells none (fun x =>
      if p == .closed || b.coarse == .date then b.le x
      else if p == .open_ then b.lt x else fuzzyGe x b cfg.epsilon)) := by
  simp only [min_unfold, hk, bne_self_eq_false, Bool.false_eq_true, if_false,
    date_iff_of_coarse _ _ hk]
  split
  · rfl
  · split <;> rfl

theorem max_flags_eq (cfg : Cfg) (c : Column) (b : Val) (p : Precision)
    (hk : ftCoarse' c.ftype = some b.coarse) :
    detectFlags cfg c (.max (some b) p) = some (detField c.cells none (fun x =>
      if p == .closed || b.coarse == .date then x.le b
      else if p == .open_ then x.lt b else fuzzyLe x b cfg.epsilon)) := by
  simp only [max_unfold, hk, bne_self_eq_false, Bool.false_eq_true, if_false,
    date_iff_of_coarse _ _ hk]
  split
  · rfl
  · split <;> rfl

theorem flag_false_iff_violates (cfg : Cfg) (heps : 0 ≤ cfg.epsilon) (c : Column) (hwf : c.WF = true)
    (k : Constraint) (hk : RecordWise' c k) (fl : List (Option Bool))
    (h : detectFlags cfg c k = some fl) (i : Nat) (hi : i < c.cells.length) :
    (c.cells[i]? = some none → fl[i]? = some none) ∧
    (∀ v, c.cells[i]? = some (some v) → ∃ b, fl[i]? = some (some b) ∧ (b = true ↔ Sat cfg (single' c v) k)) := by
  have _ := heps
  have _ := hi
  cases k with
  | type ts => exact hk.elim
  | maxNulls n => exact hk.elim
  | noDuplicates n => exact hk.elim
  | min b p =>
    cases b with
    | none => exact hk.elim
    | some b =>
      have hk' : ftCoarse' c.ftype = some b.coarse := hk
      rw [min_flags_eq cfg c b p hk', Option.some.injEq] at h
      subst h
      apply flags_of_detField
      intro v hv
      have hc := coarse_of_wf c hwf b hk' v hv
      simp only [Sat, single_nonNull, List.mem_singleton, forall_eq]
      rw [← minOk_iff_admits]
      simp [minOk, hc]
  | max b p =>
    cases b with
    | none => exact hk.elim
    | some b =>
      have hk' : ftCoarse' c.ftype = some b.coarse := hk
      rw [max_flags_eq cfg c b p hk', Option.some.injEq] at h
      subst h
      apply flags_of_detField
      intro v hv
      have hc := coarse_of_wf c hwf b hk' v hv
      simp only [Sat, single_nonNull, List.mem_singleton, forall_eq]
      rw [← maxOk_iff_admits]
      simp [maxOk, hc]
  | minLength n =>
    cases n with
    | none => exact hk.elim
    | some n =>
      have hk' : c.ftype = .string := hk
      simp only [detectFlags, hk', bne_self_eq_false, Bool.false_eq_true, if_false,
        Option.some.injEq] at h
      subst h
      apply flags_of_detField
      intro v hv
      have hvt := wf_ftype c hwf v hv
      simp only [Sat, single_nonNull, single_ftype, hk', List.mem_singleton, forall_eq, true_and]
      cases v <;> simp [Val.ftype, hk'] at hvt ⊢
  | maxLength n =>
    cases n with
    | none => exact hk.elim
    | some n =>
      have hk' : c.ftype = .string := hk
      simp only [detectFlags, hk', bne_self_eq_false, Bool.false_eq_true, if_false,
        Option.some.injEq] at h
      subst h
      apply flags_of_detField
      intro v hv
      have hvt := wf_ftype c hwf v hv
      simp only [Sat, single_nonNull, single_ftype, hk', List.mem_singleton, forall_eq, true_and]
      cases v <;> simp [Val.ftype, hk'] at hvt ⊢
  | sign s =>
    cases s with
    | none => exact hk.elim
    | some s =>
      obtain ⟨hnum, hs⟩ : (c.ftype = .bool ∨ c.ftype = .int ∨ c.ftype = .real) ∧ s ≠ .null := hk
      have hg : (!(c.ftype == .bool || c.ftype == .int || c.ftype == .real)) = false := by
        rcases hnum with h1 | h1 | h1 <;> simp [h1]
      simp only [detectFlags, hg, Bool.false_eq_true, if_false] at h
      cases s with
      | null => exact absurd rfl hs
      | positive | nonNegative | zero | nonPositive | negative =>
        simp only [Option.some.injEq] at h
        subst h
        apply flags_of_detField
        intro v hv
        simp only [Sat, single_nonNull, List.mem_singleton, forall_eq]
        cases hn : v.num <;> simp [SignHolds]
  | allowedValues vs =>
    cases vs with
    | none => exact hk.elim
    | some vs =>
      simp only [detectFlags, Option.some.injEq] at h
      subst h
      apply flags_of_detField
      intro v hv
      simp [Sat, single_nonNull]
  | rex rs =>
    cases rs with
    | none => exact hk.elim
    | some rs =>
      have hk' : c.ftype = .string := hk
      simp only [detectFlags, hk', bne_self_eq_false, Bool.false_eq_true, if_false,
        Option.some.injEq] at h
      subst h
      apply flags_of_detField
      intro v hv
      have hvt := wf_ftype c hwf v hv
      simp only [Sat, single_nonNull, single_ftype, hk', List.mem_singleton, forall_eq, true_and]
      cases v <;> simp [Val.ftype, hk'] at hvt ⊢

/-! ### the non-record-wise kinds -/

theorem type_failure_flags_all (cfg : Cfg) (c : Column) (ts : Option (List FType)) :
    detectFlags cfg c (.type ts) = some (c.cells.map (fun _ => some false)) := rfl

theorem wrong_typed_bound_flags_all (cfg : Cfg) (c : Column) (b : Val) (p : Precision)
    (h : ftCoarse' c.ftype ≠ some b.coarse) :
    detectFlags cfg c (.min (some b) p) = some (c.cells.map (fun _ => some false)) ∧
    detectFlags cfg c (.max (some b) p) = some (c.cells.map (fun _ => some false)) := by
  have hne : (ftCoarse' c.ftype != some b.coarse) = true := by simpa using h
  constructor
  · rw [min_unfold, if_pos hne]; rfl
  · rw [max_unfold, if_pos hne]; rfl

theorem maxNulls_flags_nulls (cfg : Cfg) (c : Column) (n : Int) :
    detectFlags cfg c (.maxNulls (some n)) = some (c.cells.map (fun x => some x.isSome)) := rfl

theorem noDuplicates_flags (cfg : Cfg) (c : Column) (fl : List (Option Bool))
    (h : detectFlags cfg c (.noDuplicates (some true)) = some fl) (i : Nat) (hi : i < c.cells.length) :
    (c.cells[i]? = some none → fl[i]? = some (some true)) ∧
    (∀ v, c.cells[i]? = some (some v) →
        fl[i]? = some (some (decide ((c.nonNull.filter (fun w => w.eqv v)).length ≤ 1)))) := by
  have _ := hi
  simp only [detectFlags, Option.some.injEq] at h
  subst h
  refine ⟨fun h0 => detField_getElem?_none _ _ _ _ h0, fun v hv => ?_⟩
  rw [detField_getElem?_some _ _ _ _ _ hv]
  congr 2
  rw [Bool.eq_iff_iff]
  simp [isDuplicated]

/-! ### failure counts -/

theorem row_split (row : List (Option Bool)) :
    row.length = (row.filter (· == some true)).length + (row.filter (· == none)).length
      + (row.filter (· == some false)).length := by
  induction row with
  | nil => rfl
  | cons x xs ih =>
    rcases x with _ | _ | _ <;> simp at ih ⊢ <;> omega

theorem row_count (cols : List (List (Option Bool))) (i : Nat) :
    (let row := cols.map (fun col => col.getD i none)
     row.length - (row.filter (· == some true)).length - (row.filter (· == none)).length)
      = (cols.filter (fun col => col.getD i none == some false)).length := by
  have h := row_split (cols.map (fun col => col.getD i none))
  have h2 : ((cols.map (fun col => col.getD i none)).filter (· == some false)).length
      = (cols.filter (fun col => col.getD i none == some false)).length := by
    rw [List.filter_map, List.length_map]; rfl
  simp only
  omega

theorem nFailures_eq (cols : List (List (Option Bool))) (n : Nat) :
    nFailures cols n = (List.range n).map (fun i =>
      (cols.filter (fun col => col.getD i none == some false)).length) := by
  unfold nFailures
  apply List.map_congr_left
  intro i _
  exact row_count cols i

theorem nFailures_exact (cols : List (List (Option Bool))) (n : Nat) (i : Nat) (hi : i < n) :
    (nFailures cols n)[i]? = some ((cols.filter (fun col => col.getD i none == some false)).length) := by
  rw [nFailures_eq, List.getElem?_map, List.getElem?_range hi]
  rfl

theorem filter_length_pos {α : Type} (l : List α) (p : α → Bool) :
    decide ((l.filter p).length > 0) = l.any p := by
  induction l with
  | nil => rfl
  | cons x xs ih =>
    cases hp : p x <;> simp [hp] at ih ⊢
    exact ih

theorem counts_partition (cols : List (List (Option Bool))) (n : Nat) :
    nPassing (nFailures cols n) + nFailing (nFailures cols n) = n ∧
    nFailing (nFailures cols n) =
      ((List.range n).filter (fun i => cols.any (fun col => col.getD i none == some false))).length := by
  constructor
  · have hlen : (nFailures cols n).length = n := by simp [nFailures]
    have hle : nFailing (nFailures cols n) ≤ (nFailures cols n).length := by
      unfold nFailing; exact List.length_filter_le _ _
    unfold nPassing
    omega
  · rw [nFailures_eq]
    unfold nFailing
    rw [List.filter_map, List.length_map]
    congr 1
    apply List.filter_congr
    intro i _
    exact filter_length_pos cols _

end TddaVerif.Props.C06.Lemmas
