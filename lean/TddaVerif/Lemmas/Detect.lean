/- Helper lemmas for C06 (detection). Statements mirror Props/C06.lean. -/
import TddaVerif.Model.Constraints
import TddaVerif.Props.C02Spec
import TddaVerif.Lemmas.Verify
import TddaVerif.Lemmas.ValOrder

namespace TddaVerif.Props.C06
open TddaVerif.Constraints TddaVerif.Props.C02

/-- the column reduced to one record -/
def single' (c : Column) (v : Val) : Column := { c with cells := [some v] }

def ftCoarse' : FType → Option Coarse
  | .bool | .int | .real => some .number
  | .string => some .string
  | .date => some .date
  | .other => none

def RecordWise' (c : Column) : Constraint → Prop
  | .min (some b) _ => ftCoarse' c.ftype = some b.coarse
  | .max (some b) _ => ftCoarse' c.ftype = some b.coarse
  | .minLength (some _) => c.ftype = .string
  | .maxLength (some _) => c.ftype = .string
  | .sign (some s) => (c.ftype = .bool ∨ c.ftype = .int ∨ c.ftype = .real) ∧ s ≠ .null
  | .allowedValues (some _) => True
  | .rex (some _) => c.ftype = .string
  | _ => False

end TddaVerif.Props.C06

namespace TddaVerif.Props.C06.Lemmas
open TddaVerif.Constraints TddaVerif.Props.C02 TddaVerif.Props.C06

theorem detect_verdicts_eq_verify (cfg : Cfg) (heps : 0 ≤ cfg.epsilon) (c : Column) (hwf : c.WF = true)
    (k : Constraint) : verifyOn cfg c true k = verifyOn cfg c false k := by
  sorry

theorem flags_length (cfg : Cfg) (c : Column) (k : Constraint) (fl : List (Option Bool))
    (h : detectFlags cfg c k = some fl) : fl.length = c.cells.length := by
  sorry

theorem flag_false_iff_violates (cfg : Cfg) (heps : 0 ≤ cfg.epsilon) (c : Column) (hwf : c.WF = true)
    (k : Constraint) (hk : RecordWise' c k) (fl : List (Option Bool))
    (h : detectFlags cfg c k = some fl) (i : Nat) (hi : i < c.cells.length) :
    (c.cells[i]? = some none → fl[i]? = some none) ∧
    (∀ v, c.cells[i]? = some (some v) → ∃ b, fl[i]? = some (some b) ∧ (b = true ↔ Sat cfg (single' c v) k)) := by
  sorry

theorem type_failure_flags_all (cfg : Cfg) (c : Column) (ts : Option (List FType)) :
    detectFlags cfg c (.type ts) = some (c.cells.map (fun _ => some false)) := by
  sorry

theorem wrong_typed_bound_flags_all (cfg : Cfg) (c : Column) (b : Val) (p : Precision)
    (h : ftCoarse' c.ftype ≠ some b.coarse) :
    detectFlags cfg c (.min (some b) p) = some (c.cells.map (fun _ => some false)) ∧
    detectFlags cfg c (.max (some b) p) = some (c.cells.map (fun _ => some false)) := by
  sorry

theorem maxNulls_flags_nulls (cfg : Cfg) (c : Column) (n : Int) :
    detectFlags cfg c (.maxNulls (some n)) = some (c.cells.map (fun x => some x.isSome)) := by
  sorry

theorem noDuplicates_flags (cfg : Cfg) (c : Column) (fl : List (Option Bool))
    (h : detectFlags cfg c (.noDuplicates (some true)) = some fl) (i : Nat) (hi : i < c.cells.length) :
    (c.cells[i]? = some none → fl[i]? = some (some true)) ∧
    (∀ v, c.cells[i]? = some (some v) →
        fl[i]? = some (some (decide ((c.nonNull.filter (fun w => w.eqv v)).length ≤ 1)))) := by
  sorry

theorem nFailures_exact (cols : List (List (Option Bool))) (n : Nat) (i : Nat) (hi : i < n) :
    (nFailures cols n)[i]? = some ((cols.filter (fun col => col.getD i none == some false)).length) := by
  sorry

theorem counts_partition (cols : List (List (Option Bool))) (n : Nat) :
    nPassing (nFailures cols n) + nFailing (nFailures cols n) = n ∧
    nFailing (nFailures cols n) =
      ((List.range n).filter (fun i => cols.any (fun col => col.getD i none == some false))).length := by
  sorry

end TddaVerif.Props.C06.Lemmas
