/- Helper lemmas for C07 (discovery is exact). Statements mirror Props/C07.lean. -/
import TddaVerif.Model.Constraints
import TddaVerif.Props.C02Spec
import TddaVerif.Lemmas.DiscoverAux

namespace TddaVerif.Props.C07
open TddaVerif.Constraints TddaVerif.Props.C02

/-- `s'` is a strictly stronger sign class than `s` -/
def Stronger' : Sign → Sign → Bool
  | .zero, .nonNegative | .zero, .nonPositive | .positive, .nonNegative | .negative, .nonPositive => true
  | _, _ => false

end TddaVerif.Props.C07

namespace TddaVerif.Props.C07.Lemmas
open TddaVerif.Constraints TddaVerif.Props.C02 TddaVerif.Props.C07 TddaVerif.Constraints.DiscAux

/-! ### plumbing -/

theorem ks_eq {incRex : Bool} {rexOf : List Val → List Nat} {c : Column} {n : Nat} {ks : List Constraint}
    (ho : c.ftype ≠ .other) (hn : 0 < n) (h : discoverField incRex rexOf c n = .ok (some ks)) :
    ks = allParts incRex rexOf c := by
  rw [discover_nf' incRex rexOf c n ho (by omega)] at h
  injection h with h; injection h with h; exact h.symm

section mem
variable (incRex : Bool) (rexOf : List Val → List Nat) (c : Column)

theorem mem_type (ts) : Constraint.type ts ∈ allParts incRex rexOf c ↔ Constraint.type ts ∈ typePart c := by
  rw [mem_allParts]; simp [kind]
theorem mem_min (v p) : Constraint.min v p ∈ allParts incRex rexOf c ↔ Constraint.min v p ∈ minPart c := by
  rw [mem_allParts]; simp [kind]
theorem mem_max (v p) : Constraint.max v p ∈ allParts incRex rexOf c ↔ Constraint.max v p ∈ maxPart c := by
  rw [mem_allParts]; simp [kind]
theorem mem_minLength (v) : Constraint.minLength v ∈ allParts incRex rexOf c ↔ Constraint.minLength v ∈ lengthPart c := by
  rw [mem_allParts]; simp [kind]
theorem mem_maxLength (v) : Constraint.maxLength v ∈ allParts incRex rexOf c ↔ Constraint.maxLength v ∈ lengthPart c := by
  rw [mem_allParts]; simp [kind]
theorem mem_sign (v) : Constraint.sign v ∈ allParts incRex rexOf c ↔ Constraint.sign v ∈ signPart c := by
  rw [mem_allParts]; simp [kind]
theorem mem_maxNulls (v) : Constraint.maxNulls v ∈ allParts incRex rexOf c ↔ Constraint.maxNulls v ∈ maxNullsPart c := by
  rw [mem_allParts]; simp [kind]
theorem mem_noDup (v) : Constraint.noDuplicates v ∈ allParts incRex rexOf c ↔ Constraint.noDuplicates v ∈ noDupPart c := by
  rw [mem_allParts]; simp [kind]
theorem mem_allowed (v) : Constraint.allowedValues v ∈ allParts incRex rexOf c ↔ Constraint.allowedValues v ∈ allowedPart c := by
  rw [mem_allParts]; simp [kind]

end mem

/-! ### the parts -/

theorem mem_minPart (c : Column) (k : Constraint) :
    k ∈ minPart c ↔ c.nonNull ≠ [] ∧ c.ftype ≠ .string ∧ ∃ m, minOf c.nonNull = some m ∧ k = .min (some m) .fuzzy := by
  unfold minPart calcMin
  split
  · rename_i h
    rw [nonStr_iff] at h
    split
    · rename_i v hv; simp [h, hv]
    · rename_i hv; simp [hv]
  · rename_i h
    rw [nonStr_iff] at h
    simp; intro h1 h2; exact absurd ⟨h1, h2⟩ h

theorem mem_maxPart (c : Column) (k : Constraint) :
    k ∈ maxPart c ↔ c.nonNull ≠ [] ∧ c.ftype ≠ .string ∧ ∃ m, maxOf c.nonNull = some m ∧ k = .max (some m) .fuzzy := by
  unfold maxPart calcMax
  split
  · rename_i h
    rw [nonStr_iff] at h
    split
    · rename_i v hv; simp [h, hv]
    · rename_i hv; simp [hv]
  · rename_i h
    rw [nonStr_iff] at h
    simp; intro h1 h2; exact absurd ⟨h1, h2⟩ h

/-! ### theorems -/

theorem discover_total (incRex : Bool) (rexOf : List Val → List Nat) (c : Column) (hwf : c.WF = true) :
    ∃ ks, discoverField incRex rexOf c c.cells.length = .ok (some ks) := by
  have ho := wf_other hwf
  by_cases hn : c.cells.length = 0
  · unfold discoverField
    have h1 : (c.ftype == .other) = false := by simpa using ho
    rw [hn]
    simp only [h1, Bool.false_eq_true, if_false, BEq.rfl, if_true]
    exact ⟨_, rfl⟩
  · exact ⟨_, discover_nf' incRex rexOf c _ ho hn⟩

theorem type_is_column_type (incRex : Bool) (rexOf : List Val → List Nat) (c : Column) (n : Nat)
    (ks : List Constraint) (h : discoverField incRex rexOf c n = .ok (some ks)) :
    ks.head? = some (.type (some [c.ftype])) ∧
    ∀ ts, Constraint.type ts ∈ ks → ts = some [c.ftype] := by
  by_cases ho : c.ftype = .other
  · unfold discoverField at h
    simp [ho] at h
  · by_cases hn : n = 0
    · unfold discoverField at h
      have h1 : (c.ftype == .other) = false := by simpa using ho
      subst hn
      simp only [h1, Bool.false_eq_true, if_false, BEq.rfl, if_true] at h
      injection h with h; injection h with h; subst h
      constructor
      · simp
      · intro ts hts
        split at hts <;> simpa using hts
    · have := ks_eq ho (by omega) h
      subst this
      constructor
      · simp [allParts, typePart]
      · intro ts hts
        rw [mem_type] at hts
        simpa [typePart] using hts

theorem nothing_for_absent (incRex : Bool) (rexOf : List Val → List Nat) (c : Column)
    (ks : List Constraint) (h : discoverField incRex rexOf c 0 = .ok (some ks)) :
    ks = .type (some [c.ftype]) ::
          (if c.ftype == .string && incRex then [Constraint.rex (some (rexOf []))] else []) := by
  unfold discoverField at h
  by_cases ho : c.ftype = .other
  · simp [ho] at h
  · have h1 : (c.ftype == .other) = false := by simpa using ho
    simp only [h1, Bool.false_eq_true, if_false, BEq.rfl, if_true] at h
    injection h with h; injection h with h; exact h.symm

theorem min_exact (incRex : Bool) (rexOf : List Val → List Nat) (c : Column) (hwf : c.WF = true)
    (ks : List Constraint) (hn : 0 < c.cells.length)
    (h : discoverField incRex rexOf c c.cells.length = .ok (some ks)) :
    (∀ v p, Constraint.min v p ∈ ks → ∃ m, v = some m ∧ m ∈ c.nonNull ∧ ∀ x ∈ c.nonNull, m.le x = true) ∧
    ((∃ v p, Constraint.min v p ∈ ks) ↔ (c.ftype ≠ .string ∧ c.nonNull ≠ [])) := by
  have := ks_eq (wf_other hwf) hn h
  subst this
  simp only [mem_min, mem_minPart]
  constructor
  · rintro v p ⟨_, _, m, hm, hk⟩
    injection hk with hv hp
    exact ⟨m, hv, minOf_spec _ m (wf_allT hwf) hm⟩
  · constructor
    · rintro ⟨v, p, h1, h2, _⟩; exact ⟨h2, h1⟩
    · rintro ⟨h2, h1⟩
      cases hm : minOf c.nonNull with
      | none => exact absurd ((minOf_eq_none _).mp hm) h1
      | some m => exact ⟨some m, .fuzzy, h1, h2, m, rfl, rfl⟩

theorem max_exact (incRex : Bool) (rexOf : List Val → List Nat) (c : Column) (hwf : c.WF = true)
    (ks : List Constraint) (hn : 0 < c.cells.length)
    (h : discoverField incRex rexOf c c.cells.length = .ok (some ks)) :
    (∀ v p, Constraint.max v p ∈ ks → ∃ m, v = some m ∧ m ∈ c.nonNull ∧ ∀ x ∈ c.nonNull, x.le m = true) ∧
    ((∃ v p, Constraint.max v p ∈ ks) ↔ (c.ftype ≠ .string ∧ c.nonNull ≠ [])) := by
  have := ks_eq (wf_other hwf) hn h
  subst this
  simp only [mem_max, mem_maxPart]
  constructor
  · rintro v p ⟨_, _, m, hm, hk⟩
    injection hk with hv hp
    exact ⟨m, hv, maxOf_spec _ m (wf_allT hwf) hm⟩
  · constructor
    · rintro ⟨v, p, h1, h2, _⟩; exact ⟨h2, h1⟩
    · rintro ⟨h2, h1⟩
      cases hm : maxOf c.nonNull with
      | none => exact absurd ((maxOf_eq_none _).mp hm) h1
      | some m => exact ⟨some m, .fuzzy, h1, h2, m, rfl, rfl⟩

theorem uniques_exact (c : Column) (hwf : c.WF = true) :
    (∀ v, v ∈ calcUniques c ↔ v ∈ c.nonNull) ∧
    (calcUniques c).Pairwise (fun a b => a.lt b = true) := by
  have ht := wf_allT hwf
  unfold calcUniques
  constructor
  · intro v; rw [mem_sortVals, mem_dedup _ ht]
  · exact sortVals_sorted _ (fun v hv => ht v (dedup_sub _ v hv)) (dedup_pairwise _)

theorem calcUniques_length (c : Column) : (calcUniques c).length = calcNunique c := by
  unfold calcUniques calcNunique; exact length_sortVals _

theorem calcNunique_pos (c : Column) (hne : c.nonNull ≠ []) : 0 < calcNunique c := by
  unfold calcNunique
  have := dedup_eq_nil c.nonNull
  cases hd : dedup c.nonNull with
  | nil => exact absurd (this.mp hd) hne
  | cons _ _ => simp

theorem uniqs_string (c : Column) (hs : c.ftype = .string) (hne : c.nonNull ≠ []) :
    uniqs c = some (calcUniques c) := by
  have hpos := calcNunique_pos c hne
  have hnn := (nonNullCount_pos c).mpr hne
  unfold uniqs uniqs0 nUniq
  by_cases h20 : (calcNunique c : Int) ≤ maxCategories
  · simp [hs, h20]
  · simp [hs, h20, hnn, hpos]

theorem mem_lensOf (l : List Val) (n : Nat) : n ∈ lensOf l ↔ ∃ x, Val.s x ∈ l ∧ x.length = n := by
  unfold lensOf
  rw [List.mem_filterMap]
  constructor
  · rintro ⟨v, hv, h⟩
    cases v <;> simp at h
    exact ⟨_, hv, h⟩
  · rintro ⟨x, hx, h⟩
    exact ⟨_, hx, by simp [h]⟩

theorem lengthPart_nil (c : Column) (h : ¬ (c.ftype = .string ∧ c.nonNull ≠ [])) : lengthPart c = [] := by
  unfold lengthPart
  rw [if_neg]
  simp only [Bool.and_eq_true, decide_eq_true_eq, beq_iff_eq, nonNullCount_pos]
  intro hh; exact h ⟨hh.2, hh.1⟩

theorem lengthPart_eq (c : Column) (hwf : c.WF = true) (hs : c.ftype = .string) (hne : c.nonNull ≠ []) :
    ∃ m M, listMin (lensOf (calcUniques c)) = some m ∧ listMax (lensOf (calcUniques c)) = some M ∧
      lengthPart c = [.minLength (some (m : Int)), .maxLength (some (M : Int))] := by
  have hu := uniqs_string c hs hne
  have hmem := (uniques_exact c hwf).1
  cases hcu : calcUniques c with
  | nil =>
    exfalso
    cases hnn : c.nonNull with
    | nil => exact hne hnn
    | cons v vs =>
      have := (hmem v).mpr (by rw [hnn]; exact List.mem_cons_self)
      rw [hcu] at this; cases this
  | cons u us =>
    have hus : ∃ x, u = Val.s x := by
      have h1 : u ∈ c.nonNull := (hmem u).mp (by rw [hcu]; exact List.mem_cons_self)
      have h2 := wf_allT hwf u h1
      rw [hs] at h2
      cases u <;> simp [Val.ftype] at h2
      exact ⟨_, rfl⟩
    obtain ⟨x, rfl⟩ := hus
    have hls : lensOf (Val.s x :: us) ≠ [] := by simp [lensOf]
    cases hm : listMin (lensOf (Val.s x :: us)) with
    | none => exact absurd ((listMin_eq_none _).mp hm) hls
    | some m =>
      cases hM : listMax (lensOf (Val.s x :: us)) with
      | none => exact absurd ((listMax_eq_none _).mp hM) hls
      | some M =>
        refine ⟨m, M, rfl, rfl, ?_⟩
        have hnn := (nonNullCount_pos c).mpr hne
        unfold lengthPart
        rw [if_pos (by simp [hnn, hs])]
        rw [hu, hcu]
        simp only [hm, hM]

theorem length_exact (incRex : Bool) (rexOf : List Val → List Nat) (c : Column) (hwf : c.WF = true)
    (ks : List Constraint) (hn : 0 < c.cells.length)
    (h : discoverField incRex rexOf c c.cells.length = .ok (some ks)) :
    (∀ v, Constraint.minLength v ∈ ks → ∃ m : Nat, v = some (m : Int) ∧
        (∃ x, Val.s x ∈ c.nonNull ∧ x.length = m) ∧ ∀ x, Val.s x ∈ c.nonNull → m ≤ x.length) ∧
    (∀ v, Constraint.maxLength v ∈ ks → ∃ m : Nat, v = some (m : Int) ∧
        (∃ x, Val.s x ∈ c.nonNull ∧ x.length = m) ∧ ∀ x, Val.s x ∈ c.nonNull → x.length ≤ m) ∧
    ((∃ v, Constraint.minLength v ∈ ks) ↔ (c.ftype = .string ∧ c.nonNull ≠ [])) ∧
    ((∃ v, Constraint.maxLength v ∈ ks) ↔ (c.ftype = .string ∧ c.nonNull ≠ [])) := by
  have := ks_eq (wf_other hwf) hn h
  subst this
  simp only [mem_minLength, mem_maxLength]
  by_cases hc : c.ftype = .string ∧ c.nonNull ≠ []
  · obtain ⟨m, M, hm, hM, hl⟩ := lengthPart_eq c hwf hc.1 hc.2
    have hmem := (uniques_exact c hwf).1
    have hm' := listMin_spec _ _ hm
    have hM' := listMax_spec _ _ hM
    simp only [mem_lensOf, hmem] at hm' hM'
    rw [hl]
    refine ⟨?_, ?_, ?_, ?_⟩
    · intro v hv
      simp at hv
      refine ⟨m, hv, hm'.1, ?_⟩
      intro x hx
      exact hm'.2 _ ⟨x, hx, rfl⟩
    · intro v hv
      simp at hv
      refine ⟨M, hv, hM'.1, ?_⟩
      intro x hx
      exact hM'.2 _ ⟨x, hx, rfl⟩
    · simp [hc]
    · simp [hc]
  · rw [lengthPart_nil c hc]
    simp [hc]

theorem num_of_numeric (v : Val) (h : v.ftype = .bool ∨ v.ftype = .int ∨ v.ftype = .real) :
    ∃ q, v.num = some q := by
  cases v <;> simp [Val.ftype, Val.num] at h ⊢

theorem le_num {a b : Val} {x q : Rat} (ha : a.num = some x) (hb : b.num = some q)
    (h : a.le b = true) : x ≤ q := by
  simp [Val.le, Val.lt, Val.eqv, ha, hb] at h; grind

/-- the sign list computed from the minimum `x` and the maximum `y` -/
def signOf (x y : Rat) : List Constraint :=
  if x == 0 && y == 0 then [Constraint.sign (some .zero)]
  else if x ≥ 0 then [Constraint.sign (some (if x > 0 then .positive else .nonNegative))]
  else if y ≤ 0 then [Constraint.sign (some (if y < 0 then .negative else .nonPositive))]
  else []

theorem signOf_cases (x y : Rat) (hxy : x ≤ y) :
    (x = 0 ∧ y = 0 ∧ signOf x y = [.sign (some .zero)]) ∨
    (0 < x ∧ signOf x y = [.sign (some .positive)]) ∨
    (x = 0 ∧ 0 < y ∧ signOf x y = [.sign (some .nonNegative)]) ∨
    (y < 0 ∧ signOf x y = [.sign (some .negative)]) ∨
    (x < 0 ∧ y = 0 ∧ signOf x y = [.sign (some .nonPositive)]) ∨
    (x < 0 ∧ 0 < y ∧ signOf x y = []) := by
  unfold signOf
  by_cases h0 : x = 0 ∧ y = 0
  · left; simp [h0]
  · have h0' : (x == 0 && y == 0) = false := by
      cases hh : (x == 0 && y == 0)
      · rfl
      · simp at hh; exact absurd hh h0
    simp only [h0', Bool.false_eq_true, if_false]
    by_cases h1 : x ≥ 0
    · simp only [h1, if_true]
      by_cases h2 : x > 0
      · right; left; simp [h2]
      · right; right; left; simp [h2]; grind
    · simp only [h1, if_false]
      by_cases h3 : y ≤ 0
      · simp only [h3, if_true]
        by_cases h4 : y < 0
        · right; right; right; left; simp [h4]
        · right; right; right; right; left; simp [h4]; grind
      · right; right; right; right; right; simp [h3]; grind

theorem sign_strongest (incRex : Bool) (rexOf : List Val → List Nat) (c : Column) (hwf : c.WF = true)
    (ks : List Constraint) (hn : 0 < c.cells.length) (hne : c.nonNull ≠ [])
    (hnum : c.ftype = .bool ∨ c.ftype = .int ∨ c.ftype = .real)
    (h : discoverField incRex rexOf c c.cells.length = .ok (some ks)) :
    (∀ s, Constraint.sign (some s) ∈ ks →
        (∀ v ∈ c.nonNull, ∃ q, v.num = some q ∧ SignHolds s q) ∧
        ∀ s', Stronger' s' s = true → ¬ ∀ v ∈ c.nonNull, ∃ q, v.num = some q ∧ SignHolds s' q) ∧
    ((¬ ∃ s, Constraint.sign s ∈ ks) →
        ∀ s, ¬ ∀ v ∈ c.nonNull, ∃ q, v.num = some q ∧ SignHolds s q) := by
  have := ks_eq (wf_other hwf) hn h
  subst this
  simp only [mem_sign]
  have ht := wf_allT hwf
  cases ha : minOf c.nonNull with
  | none => exact absurd ((minOf_eq_none _).mp ha) hne
  | some a =>
  cases hb : maxOf c.nonNull with
  | none => exact absurd ((maxOf_eq_none _).mp hb) hne
  | some b =>
  obtain ⟨ha_mem, ha_le⟩ := minOf_spec _ a ht ha
  obtain ⟨hb_mem, hb_ge⟩ := maxOf_spec _ b ht hb
  have hnumT : ∀ v ∈ c.nonNull, ∃ q, v.num = some q :=
    fun v hv => num_of_numeric v (by rw [ht v hv]; exact hnum)
  obtain ⟨x, hx⟩ := hnumT a ha_mem
  obtain ⟨y, hy⟩ := hnumT b hb_mem
  have hAll : ∀ (p : Rat → Prop), (∀ q, x ≤ q → q ≤ y → p q) →
      ∀ v ∈ c.nonNull, ∃ q, v.num = some q ∧ p q := by
    intro p hp v hv
    obtain ⟨q, hq⟩ := hnumT v hv
    exact ⟨q, hq, hp q (le_num hx hq (ha_le v hv)) (le_num hq hy (hb_ge v hv))⟩
  have hEx : ∀ (p : Rat → Prop), (∀ v ∈ c.nonNull, ∃ q, v.num = some q ∧ p q) → p x ∧ p y := by
    intro p hp
    obtain ⟨q, hq, hpq⟩ := hp a ha_mem
    obtain ⟨q', hq', hpq'⟩ := hp b hb_mem
    rw [hx] at hq; rw [hy] at hq'
    cases hq; cases hq'
    exact ⟨hpq, hpq'⟩
  have hxy : x ≤ y := le_num hx hy (ha_le b hb_mem)
  have hsp : signPart c = signOf x y := by
    have hns : nonStr c = true := by
      rw [nonStr_iff]; refine ⟨hne, ?_⟩
      rcases hnum with h | h | h <;> simp [h]
    have hd : (c.ftype != .date) = true := by
      rcases hnum with h | h | h <;> simp [h]
    unfold signPart calcMin calcMax signOf
    simp only [hns, hd, Bool.and_self, if_true, ha, hb, hx, hy]
  rw [hsp]
  rcases signOf_cases x y hxy with ⟨h1, h2, he⟩ | ⟨h1, he⟩ | ⟨h1, h2, he⟩ | ⟨h1, he⟩ | ⟨h1, h2, he⟩ | ⟨h1, h2, he⟩ <;>
    rw [he]
  · refine ⟨?_, fun hno => absurd ⟨_, List.mem_singleton.mpr rfl⟩ hno⟩
    intro s hs
    simp at hs; subst hs
    refine ⟨hAll _ (fun q _ _ => by simp only [SignHolds]; grind), ?_⟩
    intro s' hs'; cases s' <;> simp [Stronger'] at hs'
  · refine ⟨?_, fun hno => absurd ⟨_, List.mem_singleton.mpr rfl⟩ hno⟩
    intro s hs
    simp at hs; subst hs
    refine ⟨hAll _ (fun q _ _ => by simp only [SignHolds]; grind), ?_⟩
    intro s' hs'; cases s' <;> simp [Stronger'] at hs'
  · refine ⟨?_, fun hno => absurd ⟨_, List.mem_singleton.mpr rfl⟩ hno⟩
    intro s hs
    simp at hs; subst hs
    refine ⟨hAll _ (fun q _ _ => by simp only [SignHolds]; grind), ?_⟩
    intro s' hs' hall
    have := hEx _ hall
    cases s' <;> simp [Stronger'] at hs' <;> simp only [SignHolds] at this <;> grind
  · refine ⟨?_, fun hno => absurd ⟨_, List.mem_singleton.mpr rfl⟩ hno⟩
    intro s hs
    simp at hs; subst hs
    refine ⟨hAll _ (fun q _ _ => by simp only [SignHolds]; grind), ?_⟩
    intro s' hs'; cases s' <;> simp [Stronger'] at hs'
  · refine ⟨?_, fun hno => absurd ⟨_, List.mem_singleton.mpr rfl⟩ hno⟩
    intro s hs
    simp at hs; subst hs
    refine ⟨hAll _ (fun q _ _ => by simp only [SignHolds]; grind), ?_⟩
    intro s' hs' hall
    have := hEx _ hall
    cases s' <;> simp [Stronger'] at hs' <;> simp only [SignHolds] at this <;> grind
  · refine ⟨by simp, ?_⟩
    intro _ s hall
    have := hEx _ hall
    cases s <;> simp only [SignHolds] at this <;> grind

theorem length_filterMap_id_add (l : List (Option Val)) :
    (l.filterMap id).length + (l.filter (·.isNone)).length = l.length := by
  induction l with
  | nil => rfl
  | cons a as ih => cases a <;> simp <;> omega

theorem calcNullCount_eq (c : Column) : calcNullCount c = nullCells c := by
  unfold calcNullCount nullCells Column.nonNull
  have := length_filterMap_id_add c.cells
  omega

theorem maxNulls_iff (incRex : Bool) (rexOf : List Val → List Nat) (c : Column) (hwf : c.WF = true)
    (ks : List Constraint) (hn : 0 < c.cells.length)
    (h : discoverField incRex rexOf c c.cells.length = .ok (some ks)) (v : Option Int) :
    Constraint.maxNulls v ∈ ks ↔ (v = some (nullCells c : Int) ∧ nullCells c < 2) := by
  have := ks_eq (wf_other hwf) hn h
  subst this
  rw [mem_maxNulls, ← calcNullCount_eq]
  unfold maxNullsPart
  split
  · rename_i h2; simp [h2]
  · rename_i h2; simp [h2]

theorem noDuplicates_iff (incRex : Bool) (rexOf : List Val → List Nat) (c : Column) (hwf : c.WF = true)
    (ks : List Constraint) (hn : 0 < c.cells.length)
    (h : discoverField incRex rexOf c c.cells.length = .ok (some ks)) (v : Option Bool) :
    Constraint.noDuplicates v ∈ ks ↔
      (v = some true ∧ c.ftype ≠ .real ∧ 1 < c.nonNull.length ∧
       c.nonNull.Pairwise (fun a b => a.eqv b = false)) := by
  have := ks_eq (wf_other hwf) hn h
  subst this
  rw [mem_noDup, ← dedup_length_eq_iff]
  unfold noDupPart
  by_cases hreal : c.ftype = .real
  · have hu : nUniq c = -1 := by
      unfold nUniq
      rw [if_neg]
      simp [hreal]
    rw [hu, if_neg]
    · simp; intro _ h1; exact absurd hreal h1
    · simp only [Bool.and_eq_true, beq_iff_eq, decide_eq_true_eq]
      intro hh; omega
  · have hu : nUniq c = (calcNunique c : Int) := by
      unfold nUniq; simp [hreal]
    have hr : c.ftype ≠ .real := hreal
    rw [hu]
    unfold calcNunique calcNonNullCount
    by_cases hcond : (dedup c.nonNull).length = c.nonNull.length ∧ 1 < c.nonNull.length
    · rw [if_pos]
      · simp [hr, hcond]
      · simp [hcond, hr]; omega
    · rw [if_neg]
      · simp; intro _ _ h1 h2; exact hcond ⟨h2, h1⟩
      · simp only [Bool.and_eq_true, beq_iff_eq, decide_eq_true_eq]
        intro hh; apply hcond
        omega

theorem allowedValues_iff (incRex : Bool) (rexOf : List Val → List Nat) (c : Column) (hwf : c.WF = true)
    (ks : List Constraint) (hn : 0 < c.cells.length)
    (h : discoverField incRex rexOf c c.cells.length = .ok (some ks)) (v : Option (List Val)) :
    Constraint.allowedValues v ∈ ks ↔
      (c.ftype = .string ∧ v = some (calcUniques c) ∧ 0 < (calcUniques c).length ∧
       (calcUniques c).length ≤ 20) := by
  have := ks_eq (wf_other hwf) hn h
  subst this
  rw [mem_allowed]
  unfold allowedPart uniqs0
  by_cases hs : c.ftype = .string
  · have hu : nUniq c = (calcNunique c : Int) := by unfold nUniq; simp [hs]
    rw [hu, ← calcUniques_length]
    by_cases h20 : (calcUniques c).length ≤ 20
    · rw [if_pos (by
        rw [Bool.and_eq_true]
        exact ⟨by simp [hs], decide_eq_true (by simp only [maxCategories]; omega)⟩)]
      cases hcu : calcUniques c with
      | nil => simp
      | cons u us =>
        rw [hcu] at h20
        simp at h20
        simp [hs]; intro _; omega
    · rw [if_neg (by
        rw [Bool.and_eq_true]
        rintro ⟨_, hd⟩
        have := of_decide_eq_true hd
        simp only [maxCategories] at this; omega)]
      simp; intro _ _ _; omega
  · rw [if_neg (by simp [hs])]
    simp [hs]

end TddaVerif.Props.C07.Lemmas
