/- Helper lemmas for C07 (discovery is exact). Statements mirror Props/C07.lean. -/
import TddaVerif.Model.Constraints
import TddaVerif.Props.C02Spec

namespace TddaVerif.Props.C07
open TddaVerif.Constraints TddaVerif.Props.C02

/-- `s'` is a strictly stronger sign class than `s` -/
def Stronger' : Sign → Sign → Bool
  | .zero, .nonNegative | .zero, .nonPositive | .positive, .nonNegative | .negative, .nonPositive => true
  | _, _ => false

end TddaVerif.Props.C07

namespace TddaVerif.Props.C07.Lemmas
open TddaVerif.Constraints TddaVerif.Props.C02 TddaVerif.Props.C07

theorem discover_total (incRex : Bool) (rexOf : List Val → List Nat) (c : Column) (hwf : c.WF = true)
    (h : 0 < c.cells.length ∨ incRex = false ∨ c.ftype ≠ .string) :
    ∃ ks, discoverField incRex rexOf c c.cells.length = .ok (some ks) := by
  sorry

theorem type_is_column_type (incRex : Bool) (rexOf : List Val → List Nat) (c : Column) (n : Nat)
    (ks : List Constraint) (h : discoverField incRex rexOf c n = .ok (some ks)) :
    ks.head? = some (.type (some [c.ftype])) ∧
    ∀ ts, Constraint.type ts ∈ ks → ts = some [c.ftype] := by
  sorry

theorem nothing_for_absent (incRex : Bool) (rexOf : List Val → List Nat) (c : Column)
    (ks : List Constraint) (h : discoverField incRex rexOf c 0 = .ok (some ks)) :
    ks = [.type (some [c.ftype])] := by
  sorry

theorem min_exact (incRex : Bool) (rexOf : List Val → List Nat) (c : Column) (hwf : c.WF = true)
    (ks : List Constraint) (hn : 0 < c.cells.length)
    (h : discoverField incRex rexOf c c.cells.length = .ok (some ks)) :
    (∀ v p, Constraint.min v p ∈ ks → ∃ m, v = some m ∧ m ∈ c.nonNull ∧ ∀ x ∈ c.nonNull, m.le x = true) ∧
    ((∃ v p, Constraint.min v p ∈ ks) ↔ (c.ftype ≠ .string ∧ c.nonNull ≠ [])) := by
  sorry

theorem max_exact (incRex : Bool) (rexOf : List Val → List Nat) (c : Column) (hwf : c.WF = true)
    (ks : List Constraint) (hn : 0 < c.cells.length)
    (h : discoverField incRex rexOf c c.cells.length = .ok (some ks)) :
    (∀ v p, Constraint.max v p ∈ ks → ∃ m, v = some m ∧ m ∈ c.nonNull ∧ ∀ x ∈ c.nonNull, x.le m = true) ∧
    ((∃ v p, Constraint.max v p ∈ ks) ↔ (c.ftype ≠ .string ∧ c.nonNull ≠ [])) := by
  sorry

theorem length_exact (incRex : Bool) (rexOf : List Val → List Nat) (c : Column) (hwf : c.WF = true)
    (ks : List Constraint) (hn : 0 < c.cells.length)
    (h : discoverField incRex rexOf c c.cells.length = .ok (some ks)) :
    (∀ v, Constraint.minLength v ∈ ks → ∃ m : Nat, v = some (m : Int) ∧
        (∃ x, Val.s x ∈ c.nonNull ∧ x.length = m) ∧ ∀ x, Val.s x ∈ c.nonNull → m ≤ x.length) ∧
    (∀ v, Constraint.maxLength v ∈ ks → ∃ m : Nat, v = some (m : Int) ∧
        (∃ x, Val.s x ∈ c.nonNull ∧ x.length = m) ∧ ∀ x, Val.s x ∈ c.nonNull → x.length ≤ m) ∧
    ((∃ v, Constraint.minLength v ∈ ks) ↔ (c.ftype = .string ∧ c.nonNull ≠ [])) ∧
    ((∃ v, Constraint.maxLength v ∈ ks) ↔ (c.ftype = .string ∧ c.nonNull ≠ [])) := by
  sorry

theorem sign_strongest (incRex : Bool) (rexOf : List Val → List Nat) (c : Column) (hwf : c.WF = true)
    (ks : List Constraint) (hn : 0 < c.cells.length) (hne : c.nonNull ≠ [])
    (hnum : c.ftype = .bool ∨ c.ftype = .int ∨ c.ftype = .real)
    (h : discoverField incRex rexOf c c.cells.length = .ok (some ks)) :
    (∀ s, Constraint.sign (some s) ∈ ks →
        (∀ v ∈ c.nonNull, ∃ q, v.num = some q ∧ SignHolds s q) ∧
        ∀ s', Stronger' s' s = true → ¬ ∀ v ∈ c.nonNull, ∃ q, v.num = some q ∧ SignHolds s' q) ∧
    ((¬ ∃ s, Constraint.sign s ∈ ks) →
        ∀ s, ¬ ∀ v ∈ c.nonNull, ∃ q, v.num = some q ∧ SignHolds s q) := by
  sorry

theorem maxNulls_iff (incRex : Bool) (rexOf : List Val → List Nat) (c : Column) (hwf : c.WF = true)
    (ks : List Constraint) (hn : 0 < c.cells.length)
    (h : discoverField incRex rexOf c c.cells.length = .ok (some ks)) (v : Option Int) :
    Constraint.maxNulls v ∈ ks ↔ (v = some (nullCells c : Int) ∧ nullCells c < 2) := by
  sorry

theorem noDuplicates_iff (incRex : Bool) (rexOf : List Val → List Nat) (c : Column) (hwf : c.WF = true)
    (ks : List Constraint) (hn : 0 < c.cells.length)
    (h : discoverField incRex rexOf c c.cells.length = .ok (some ks)) (v : Option Bool) :
    Constraint.noDuplicates v ∈ ks ↔
      (v = some true ∧ (c.ftype = .string ∨ c.ftype = .int) ∧ 1 < c.nonNull.length ∧
       c.nonNull.Pairwise (fun a b => a.eqv b = false)) := by
  sorry

theorem allowedValues_iff (incRex : Bool) (rexOf : List Val → List Nat) (c : Column) (hwf : c.WF = true)
    (ks : List Constraint) (hn : 0 < c.cells.length)
    (h : discoverField incRex rexOf c c.cells.length = .ok (some ks)) (v : Option (List Val)) :
    Constraint.allowedValues v ∈ ks ↔
      (c.ftype = .string ∧ v = some (calcUniques c) ∧ 0 < (calcUniques c).length ∧
       (calcUniques c).length ≤ 20) := by
  sorry

theorem uniques_exact (c : Column) (hwf : c.WF = true) :
    (∀ v, v ∈ calcUniques c ↔ v ∈ c.nonNull) ∧
    (calcUniques c).Pairwise (fun a b => a.lt b = true) := by
  sorry

end TddaVerif.Props.C07.Lemmas
