/- Proofs about Model/Encoding.lean. -/
import TddaVerif.Model.Encoding

namespace TddaVerif.Encoding.Lemmas
open TddaVerif.Encoding TddaVerif.Applicable TddaVerif.Py

theorem default_encoding (k : Consts) (path : Line) (h : shortExt path ≠ k.specialExt) :
    getEncoding k path none = k.dflt := by
  simp [getEncoding, guessEncoding, h]

theorem explicit_encoding_wins (k : Consts) (p q : Line) (e : Enc) :
    getEncoding k p (some e) = getEncoding k q (some e) := rfl

end TddaVerif.Encoding.Lemmas
