/- Helper lemmas for C02 (verification = documented meaning). Statements mirror Props/C02.lean. -/
import TddaVerif.Model.Constraints
import TddaVerif.Props.C02Spec
import TddaVerif.Lemmas.ValOrder

namespace TddaVerif.Props.C02.Lemmas
open TddaVerif.Constraints TddaVerif.Props.C02 TddaVerif.Constraints.Order

theorem fuzzDown_eq (y eps : Rat) : fuzzDown y eps = y - eps * absRat y := by
  unfold fuzzDown absRat; split <;> grind

theorem fuzzUp_eq (y eps : Rat) : fuzzUp y eps = y + eps * absRat y := by
  unfold fuzzUp absRat; split <;> grind

/-! ### min / max: the comparison at one value is the documented admission test -/

theorem fuzzyGe_iff (v b : Val) (eps : Rat) : fuzzyGe v b eps = true ↔
    (b.le v = true ∨ ∃ x y, v.num = some x ∧ b.num = some y ∧ y - eps * absRat y ≤ x) := by
  unfold fuzzyGe
  rw [Bool.or_eq_true]
  cases hv : v.num <;> cases hb : b.num <;> simp [fuzzDown_eq]

theorem fuzzyLe_iff (v b : Val) (eps : Rat) : fuzzyLe v b eps = true ↔
    (v.le b = true ∨ ∃ x y, v.num = some x ∧ b.num = some y ∧ x ≤ y + eps * absRat y) := by
  unfold fuzzyLe
  rw [Bool.or_eq_true]
  cases hv : v.num <;> cases hb : b.num <;> simp [fuzzUp_eq]

theorem minOk_iff_admits (cfg : Cfg) (p : Precision) (v b : Val) :
    minOk cfg p v b = true ↔ AdmitsMin cfg p b v := by
  unfold minOk AdmitsMin
  by_cases hc : v.coarse = b.coarse
  · simp only [hc, bne_self_eq_false, Bool.false_eq_true, if_false, true_and, Bool.or_eq_true,
      beq_iff_eq]
    split
    · rfl
    · split
      · rfl
      · exact fuzzyGe_iff v b cfg.epsilon
  · simp [hc]

theorem maxOk_iff_admits (cfg : Cfg) (p : Precision) (v b : Val) :
    maxOk cfg p v b = true ↔ AdmitsMax cfg p b v := by
  unfold maxOk AdmitsMax
  by_cases hc : v.coarse = b.coarse
  · simp only [hc, bne_self_eq_false, Bool.false_eq_true, if_false, true_and, Bool.or_eq_true,
      beq_iff_eq]
    split
    · rfl
    · split
      · rfl
      · exact fuzzyLe_iff v b cfg.epsilon
  · simp [hc]

/-- if the bound admits `m` as a minimum it admits every larger value -/
theorem admitsMin_mono (cfg : Cfg) (p : Precision) (b m v : Val) (hle : m.le v = true)
    (h : AdmitsMin cfg p b m) : AdmitsMin cfg p b v := by
  have hc : m.coarse = v.coarse := le_coarse m v hle
  unfold AdmitsMin at *
  refine ⟨hc ▸ h.1, ?_⟩
  have h2 := h.2
  split at h2
  · rename_i hcond; rw [if_pos hcond]; exact le_trans _ _ _ h2 hle
  · rename_i hcond; rw [if_neg hcond]
    split at h2
    · rename_i hp; rw [if_pos hp]; exact lt_of_lt_of_le _ _ _ h2 hle
    · rename_i hp; rw [if_neg hp]
      rcases h2 with h2 | ⟨x, y, hx, hy, hxy⟩
      · exact Or.inl (le_trans _ _ _ h2 hle)
      · obtain ⟨x', hx'⟩ := num_of_coarse m v x hc hx
        have : x ≤ x' := (le_num m v x x' hx hx').mp hle
        exact Or.inr ⟨x', y, hx', hy, by grind⟩

theorem admitsMax_mono (cfg : Cfg) (p : Precision) (b m v : Val) (hle : v.le m = true)
    (h : AdmitsMax cfg p b m) : AdmitsMax cfg p b v := by
  have hc : v.coarse = m.coarse := le_coarse v m hle
  unfold AdmitsMax at *
  refine ⟨hc ▸ h.1, ?_⟩
  have h2 := h.2
  split at h2
  · rename_i hcond; rw [if_pos hcond]; exact le_trans _ _ _ hle h2
  · rename_i hcond; rw [if_neg hcond]
    split at h2
    · rename_i hp; rw [if_pos hp]; exact lt_of_le_of_lt _ _ _ hle h2
    · rename_i hp; rw [if_neg hp]
      rcases h2 with h2 | ⟨x, y, hx, hy, hxy⟩
      · exact Or.inl (le_trans _ _ _ hle h2)
      · obtain ⟨x', hx'⟩ := num_of_coarse m v x hc.symm hx
        have : x' ≤ x := (le_num v m x' x hx' hx).mp hle
        exact Or.inr ⟨x', y, hx', hy, by grind⟩

theorem spec_min (cfg : Cfg) (c : Column) (hwf : c.WF = true) (detect : Bool) (b : Val)
    (p : Precision) : verifyOn cfg c detect (.min (some b) p) = true ↔ Sat cfg c (.min (some b) p) := by
  simp only [verifyOn, Sat, calcMin]
  have hs := wf_sameCoarse c hwf
  cases hm : minOf c.nonNull with
  | none =>
    have : c.nonNull = [] := (minOf_eq_none _).mp hm
    simp [this]
  | some m =>
    simp only
    rw [minOk_iff_admits]
    constructor
    · intro h v hv
      exact admitsMin_mono cfg p b m v (minOf_le _ m hs hm v hv) h
    · intro h
      exact h m (minOf_mem _ m hm)

theorem spec_max (cfg : Cfg) (c : Column) (hwf : c.WF = true) (detect : Bool) (b : Val)
    (p : Precision) : verifyOn cfg c detect (.max (some b) p) = true ↔ Sat cfg c (.max (some b) p) := by
  simp only [verifyOn, Sat, calcMax]
  have hs := wf_sameCoarse c hwf
  cases hm : maxOf c.nonNull with
  | none =>
    have : c.nonNull = [] := (maxOf_eq_none _).mp hm
    simp [this]
  | some m =>
    simp only
    rw [maxOk_iff_admits]
    constructor
    · intro h v hv
      exact admitsMax_mono cfg p b m v (maxOf_ge _ m hs hm v hv) h
    · intro h
      exact h m (maxOf_mem _ m hm)

/-! ### sign -/

theorem signOk_iff (s : Sign) (l : List Val) (hs : SameCoarse l) (m M : Val)
    (hm : minOf l = some m) (hM : maxOf l = some M) :
    signOk s m M = true ↔ ∀ v ∈ l, ∃ q, v.num = some q ∧ SignHolds s q := by
  have hmm := minOf_mem l m hm
  have hMm := maxOf_mem l M hM
  unfold signOk
  cases ha : m.num with
  | none =>
    simp only [Bool.false_eq_true, false_iff]
    intro h
    obtain ⟨q, hq, _⟩ := h m hmm
    rw [ha] at hq; exact absurd hq (by simp)
  | some a =>
    obtain ⟨b, hb⟩ := num_of_coarse m M a (hs m hmm M hMm) ha
    rw [hb]
    simp only
    have hall : ∀ v ∈ l, ∃ q, v.num = some q ∧ a ≤ q ∧ q ≤ b := by
      intro v hv
      obtain ⟨q, hq⟩ := num_of_coarse m v a (hs m hmm v hv) ha
      exact ⟨q, hq, (le_num m v a q ha hq).mp (minOf_le l m hs hm v hv),
        (le_num v M q b hq hb).mp (maxOf_ge l M hs hM v hv)⟩
    constructor
    · intro h v hv
      obtain ⟨q, hq, h1, h2⟩ := hall v hv
      refine ⟨q, hq, ?_⟩
      cases s <;> simp [SignHolds] at h ⊢ <;> grind
    · intro h
      obtain ⟨qa, hqa, h1⟩ := h m hmm
      obtain ⟨qb, hqb, h2⟩ := h M hMm
      rw [ha] at hqa; rw [hb] at hqb
      simp only [Option.some.injEq] at hqa hqb
      subst hqa; subst hqb
      cases s <;> simp [SignHolds] at h1 h2 ⊢ <;> grind

theorem spec_sign (cfg : Cfg) (c : Column) (hwf : c.WF = true) (detect : Bool) (s : Sign) :
    verifyOn cfg c detect (.sign (some s)) = true ↔ Sat cfg c (.sign (some s)) := by
  simp only [verifyOn, Sat, calcMin, calcMax]
  have hs := wf_sameCoarse c hwf
  cases hm : minOf c.nonNull with
  | none =>
    have : c.nonNull = [] := (minOf_eq_none _).mp hm
    simp [this]
  | some m =>
    cases hM : maxOf c.nonNull with
    | none =>
      have : c.nonNull = [] := (maxOf_eq_none _).mp hM
      simp [this, minOf] at hm
    | some M =>
      simp only
      exact signOk_iff s _ hs m M hm hM

/-! ### max_nulls -/

theorem filter_isNone_length (cells : List (Option Val)) :
    (cells.filter (·.isNone)).length + (cells.filterMap id).length = cells.length := by
  induction cells with
  | nil => simp
  | cons x xs ih => cases x <;> simp <;> omega

theorem nullCells_eq (c : Column) : calcNullCount c = nullCells c := by
  have := filter_isNone_length c.cells
  unfold calcNullCount nullCells Column.nonNull
  omega

/-! ### lengths -/

theorem listMin_eq_none (l : List Nat) : listMin l = none ↔ l = [] := by
  cases l with
  | nil => simp [listMin]
  | cons v vs => simp only [listMin]; split <;> simp

theorem listMax_eq_none (l : List Nat) : listMax l = none ↔ l = [] := by
  cases l with
  | nil => simp [listMax]
  | cons v vs => simp only [listMax]; split <;> simp

theorem le_listMin_iff : ∀ (l : List Nat) (m : Nat), listMin l = some m →
    ∀ n : Int, n ≤ (m : Int) ↔ ∀ x ∈ l, n ≤ (x : Int)
  | [], _ => by simp [listMin]
  | x :: xs, m => by
    have ih := le_listMin_iff xs
    simp only [listMin]
    split
    · rename_i hn
      have : xs = [] := (listMin_eq_none xs).mp hn
      subst this
      intro h n; simp at h; subst h; simp
    · rename_i m' hm'
      intro h n; simp at h; subst h
      simp only [List.mem_cons, forall_eq_or_imp]
      rw [← ih m' hm' n]
      omega

theorem listMax_le_iff : ∀ (l : List Nat) (m : Nat), listMax l = some m →
    ∀ n : Int, (m : Int) ≤ n ↔ ∀ x ∈ l, (x : Int) ≤ n
  | [], _ => by simp [listMax]
  | x :: xs, m => by
    have ih := listMax_le_iff xs
    simp only [listMax]
    split
    · rename_i hn
      have : xs = [] := (listMax_eq_none xs).mp hn
      subst this
      intro h n; simp at h; subst h; simp
    · rename_i m' hm'
      intro h n; simp at h; subst h
      simp only [List.mem_cons, forall_eq_or_imp]
      rw [← ih m' hm' n]
      omega

theorem mem_strLens (c : Column) (n : Nat) :
    n ∈ strLens c ↔ ∃ x, Val.s x ∈ c.nonNull ∧ x.length = n := by
  unfold strLens
  rw [List.mem_filterMap]
  constructor
  · rintro ⟨v, hv, h⟩
    cases v <;> simp at h
    rename_i x
    exact ⟨x, hv, h⟩
  · rintro ⟨x, hx, h⟩
    exact ⟨.s x, hx, by simp [h]⟩

theorem spec_minLength (cfg : Cfg) (c : Column) (detect : Bool) (n : Int) :
    verifyOn cfg c detect (.minLength (some n)) = true ↔ Sat cfg c (.minLength (some n)) := by
  simp only [verifyOn, Sat, calcMinLength]
  by_cases hf : c.ftype = .string
  · simp only [hf, bne_self_eq_false, Bool.false_eq_true, if_false, true_and]
    cases hm : listMin (strLens c) with
    | none =>
      have h0 : strLens c = [] := (listMin_eq_none _).mp hm
      simp only [true_iff]
      intro v hv x hx
      subst hx
      have : x.length ∈ strLens c := (mem_strLens c _).mpr ⟨x, hv, rfl⟩
      rw [h0] at this; exact absurd this (by simp)
    | some m =>
      simp only [decide_eq_true_eq]
      rw [le_listMin_iff _ m hm n]
      constructor
      · intro h v hv x hx
        subst hx
        exact h _ ((mem_strLens c _).mpr ⟨x, hv, rfl⟩)
      · intro h k hk
        obtain ⟨x, hx, hlen⟩ := (mem_strLens c k).mp hk
        subst hlen
        exact h _ hx x rfl
  · simp [hf]

theorem spec_maxLength (cfg : Cfg) (c : Column) (detect : Bool) (n : Int) :
    verifyOn cfg c detect (.maxLength (some n)) = true ↔ Sat cfg c (.maxLength (some n)) := by
  simp only [verifyOn, Sat, calcMaxLength]
  by_cases hf : c.ftype = .string
  · simp only [hf, bne_self_eq_false, Bool.false_eq_true, if_false, true_and]
    cases hm : listMax (strLens c) with
    | none =>
      have h0 : strLens c = [] := (listMax_eq_none _).mp hm
      simp only [true_iff]
      intro v hv x hx
      subst hx
      have : x.length ∈ strLens c := (mem_strLens c _).mpr ⟨x, hv, rfl⟩
      rw [h0] at this; exact absurd this (by simp)
    | some m =>
      simp only [decide_eq_true_eq]
      rw [listMax_le_iff _ m hm n]
      constructor
      · intro h v hv x hx
        subst hx
        exact h _ ((mem_strLens c _).mpr ⟨x, hv, rfl⟩)
      · intro h k hk
        obtain ⟨x, hx, hlen⟩ := (mem_strLens c k).mp hk
        subst hlen
        exact h _ hx x rfl
  · simp [hf]

/-! ### type -/

theorem nonInteger_zero_iff (c : Column) :
    (calcNonIntegerCount c == 0) = true ↔ ∀ v ∈ c.nonNull, ∀ q, v = Val.r q → q.den = 1 := by
  unfold calcNonIntegerCount
  rw [beq_iff_eq, List.length_eq_zero_iff, List.filter_eq_nil_iff]
  constructor
  · intro h v hv q hq
    subst hq
    have := h _ hv
    simpa [Rat.isWhole] using this
  · intro h v hv
    cases v <;> simp
    rename_i q
    simpa [Rat.isWhole] using h _ hv q rfl

theorem allBoolean_iff (c : Column) :
    calcAllNonNullsBoolean c = true ↔ ∀ v ∈ c.nonNull, ∃ b, v = Val.b b := by
  unfold calcAllNonNullsBoolean
  rw [List.all_eq_true]
  constructor
  · intro h v hv
    have := h v hv
    cases v <;> simp at this ⊢
  · intro h v hv
    obtain ⟨b, hb⟩ := h v hv
    subst hb; rfl

theorem spec_type (cfg : Cfg) (c : Column) (detect : Bool) (ts : List FType) :
    verifyOn cfg c detect (.type (some ts)) = true ↔ Sat cfg c (.type (some ts)) := by
  simp only [verifyOn, Sat]
  by_cases h1 : c.ftype ∈ ts
  · simp [h1]
  · have h1' : ts.contains c.ftype = false := by simpa using h1
    simp only [h1', Bool.false_eq_true, if_false, h1, false_or]
    cases hstrict : cfg.strict with
    | true => simp
    | false =>
      simp only [Bool.false_eq_true, if_false, true_and]
      rw [← nonInteger_zero_iff, ← allBoolean_iff]
      by_cases hr : c.ftype = .real
      · simp [hr]
        by_cases hi : FType.int ∈ ts <;> by_cases hb : FType.bool ∈ ts <;> simp [hi, hb]
      · by_cases hstr : c.ftype = .string
        · simp [hstr]
        · simp [hr, hstr]

/-! ### no_duplicates / allowed_values / rex -/

theorem spec_noDup (cfg : Cfg) (c : Column) (detect : Bool) :
    verifyOn cfg c detect (.noDuplicates (some true)) = true ↔ Sat cfg c (.noDuplicates (some true)) := by
  simp only [verifyOn, Sat, calcNunique, calcNonNullCount, beq_iff_eq]
  exact dedup_length_eq_iff _

theorem allowed_all_iff (l vs : List Val) :
    (dedup l).all (fun u => vs.any (fun a => a.eqv u)) = true ↔
      ∀ v ∈ l, ∃ a ∈ vs, a.eqv v = true := by
  rw [dedup_all (fun u => vs.any (fun a => a.eqv u))]
  · simp [List.all_eq_true, List.any_eq_true]
  · intro a b hab h
    simp only [List.any_eq_true] at h ⊢
    obtain ⟨w, hw, hwa⟩ := h
    exact ⟨w, hw, eqv_trans _ _ _ hwa hab⟩

theorem spec_allowed (cfg : Cfg) (c : Column) (detect : Bool) (vs : List Val) :
    verifyOn cfg c detect (.allowedValues (some vs)) = true ↔ Sat cfg c (.allowedValues (some vs)) := by
  simp only [verifyOn, Sat]
  split
  · rename_i hcond
    simp only [calcNunique, Bool.and_eq_true, Bool.not_eq_eq_eq_not, Bool.not_true, gt_iff_lt,
      decide_eq_true_eq] at hcond
    have hlt := hcond.2
    simp only [Bool.false_eq_true, false_iff]
    intro h
    have := length_le_of_matched (dedup c.nonNull) vs (dedup_pairwise _)
      (fun u hu => h u (mem_of_mem_dedup _ u hu))
    omega
  · exact allowed_all_iff _ _

theorem spec_rex (cfg : Cfg) (c : Column) (detect : Bool) (rs : List Nat) :
    verifyOn cfg c detect (.rex (some rs)) = true ↔ Sat cfg c (.rex (some rs)) := by
  simp only [verifyOn, Sat]
  by_cases hf : c.ftype = .string
  · simp only [hf, bne_self_eq_false, Bool.false_eq_true, if_false, true_and, List.all_eq_true]
    constructor
    · intro h v hv
      have := h v hv
      cases v <;> simp at this
      rename_i x
      exact ⟨x, rfl, by simpa using this⟩
    · intro h v hv
      obtain ⟨x, hx, r, hr, hrx⟩ := h v hv
      subst hx
      simp only [List.any_eq_true]
      exact ⟨r, hr, hrx⟩
  · simp [hf]

/-! ### the main statement -/

theorem verify_eq_spec (cfg : Cfg) (heps : 0 ≤ cfg.epsilon) (c : Column) (hwf : c.WF = true)
    (detect : Bool) (k : Constraint) : verifyOn cfg c detect k = true ↔ Sat cfg c k := by
  have _ := heps  -- the equivalence holds for every ε; the hypothesis is kept for the interface
  cases k with
  | type ts => cases ts with
    | none => simp [verifyOn, Sat]
    | some ts => exact spec_type cfg c detect ts
  | min v p => cases v with
    | none => simp [verifyOn, Sat]
    | some b => exact spec_min cfg c hwf detect b p
  | max v p => cases v with
    | none => simp [verifyOn, Sat]
    | some b => exact spec_max cfg c hwf detect b p
  | minLength n => cases n with
    | none => simp [verifyOn, Sat]
    | some n => exact spec_minLength cfg c detect n
  | maxLength n => cases n with
    | none => simp [verifyOn, Sat]
    | some n => exact spec_maxLength cfg c detect n
  | sign s => cases s with
    | none => simp [verifyOn, Sat]
    | some s => exact spec_sign cfg c hwf detect s
  | maxNulls n => cases n with
    | none => simp [verifyOn, Sat]
    | some n => simp only [verifyOn, Sat, nullCells_eq, decide_eq_true_eq]
  | noDuplicates v => cases v with
    | none => simp [verifyOn, Sat]
    | some b => cases b with
      | false => simp [verifyOn, Sat]
      | true => exact spec_noDup cfg c detect
  | allowedValues vs => cases vs with
    | none => simp [verifyOn, Sat]
    | some vs => exact spec_allowed cfg c detect vs
  | rex rs => cases rs with
    | none => simp [verifyOn, Sat]
    | some rs => exact spec_rex cfg c detect rs

theorem verify_flag_irrelevant (cfg : Cfg) (heps : 0 ≤ cfg.epsilon) (c : Column) (hwf : c.WF = true)
    (k : Constraint) : verifyOn cfg c true k = verifyOn cfg c false k := by
  rw [Bool.eq_iff_iff, verify_eq_spec cfg heps c hwf true k, verify_eq_spec cfg heps c hwf false k]

theorem missing_field_fails (cfg : Cfg) (frame : List Column) (f : List Char) (detect : Bool)
    (k : Constraint) (h : findCol frame f = none) : verifyOne cfg frame f detect k = false := by
  simp [verifyOne, h]

theorem null_value_passes (cfg : Cfg) (c : Column) (detect : Bool) (k : Constraint)
    (h : isNullC k = true) : verifyOn cfg c detect k = true := by
  cases k with
  | type v => cases v <;> simp [isNullC] at h <;> simp [verifyOn]
  | min v p => cases v <;> simp [isNullC] at h <;> simp [verifyOn]
  | max v p => cases v <;> simp [isNullC] at h <;> simp [verifyOn]
  | minLength v => cases v <;> simp [isNullC] at h <;> simp [verifyOn]
  | maxLength v => cases v <;> simp [isNullC] at h <;> simp [verifyOn]
  | sign v => cases v <;> simp [isNullC] at h <;> simp [verifyOn]
  | maxNulls v => cases v <;> simp [isNullC] at h <;> simp [verifyOn]
  | noDuplicates v => cases v <;> simp [isNullC] at h <;> simp [verifyOn]
  | allowedValues v => cases v <;> simp [isNullC] at h <;> simp [verifyOn]
  | rex v => cases v <;> simp [isNullC] at h <;> simp [verifyOn]

/-! ### totals -/

theorem countTrue_add_countFalse (l : List Bool) : countTrue l + countFalse l = l.length := by
  induction l with
  | nil => rfl
  | cons b bs ih =>
    cases b <;> simp [countTrue, countFalse] at ih ⊢ <;> omega

theorem countTrue_append (a b : List Bool) : countTrue (a ++ b) = countTrue a + countTrue b := by
  simp [countTrue]

theorem countFalse_append (a b : List Bool) : countFalse (a ++ b) = countFalse a + countFalse b := by
  simp [countFalse]

theorem countTrue_flatten (ls : List (List Bool)) :
    countTrue ls.flatten = (ls.map countTrue).sum := by
  induction ls with
  | nil => rfl
  | cons l ls ih => simp [countTrue_append, ih]

theorem countFalse_flatten (ls : List (List Bool)) :
    countFalse ls.flatten = (ls.map countFalse).sum := by
  induction ls with
  | nil => rfl
  | cons l ls ih => simp [countFalse_append, ih]

theorem totals_exact (cfg : Cfg) (frame : List Column) (detect : Bool)
    (cs : List (List Char × List Constraint)) :
    let v := verifyAll cfg frame detect cs
    (∀ f ∈ v.fields, f.passes = countTrue f.verdicts ∧ f.failures = countFalse f.verdicts ∧
                      f.passes + f.failures = f.verdicts.length) ∧
    v.passes = countTrue (v.fields.map (·.verdicts)).flatten ∧
    v.failures = countFalse (v.fields.map (·.verdicts)).flatten ∧
    v.fields.map (·.field) = cs.map (·.1) ∧
    v.fields.map (·.verdicts.length) = cs.map (·.2.length) := by
  intro v
  refine ⟨?_, ?_, ?_, ?_, ?_⟩
  · intro f hf
    simp only [v, verifyAll, List.mem_map] at hf
    obtain ⟨fc, _, rfl⟩ := hf
    exact ⟨rfl, rfl, countTrue_add_countFalse _⟩
  · simp only [v, verifyAll, countTrue_flatten, List.map_map]
    rfl
  · simp only [v, verifyAll, countFalse_flatten, List.map_map]
    rfl
  · simp only [v, verifyAll, List.map_map]
    rfl
  · simp only [v, verifyAll, List.map_map]
    apply List.map_congr_left
    intro fc _
    simp

/-- the verdict lists are the verifier applied to each constraint, field by field, in order -/
theorem verdicts_eq (cfg : Cfg) (frame : List Column) (detect : Bool)
    (cs : List (List Char × List Constraint)) :
    (verifyAll cfg frame detect cs).fields.map (·.verdicts)
      = cs.map (fun fc => fc.2.map (verifyOne cfg frame fc.1 detect)) := by
  simp only [verifyAll, List.map_map]
  rfl

theorem null_constraint_inert (cfg : Cfg) (frame : List Column) (detect : Bool)
    (pre post : List (List Char × List Constraint)) (f : List Char) (ks : List Constraint)
    (k : Constraint) (hk : isNullC k = true) (hf : (findCol frame f).isSome = true) :
    let v := verifyAll cfg frame detect (pre ++ (f, ks) :: post)
    let v' := verifyAll cfg frame detect (pre ++ (f, ks ++ [k]) :: post)
    v'.passes = v.passes + 1 ∧ v'.failures = v.failures ∧ verifyOne cfg frame f detect k = true := by
  have hone : verifyOne cfg frame f detect k = true := by
    unfold verifyOne
    cases hc : findCol frame f with
    | none => rw [hc] at hf; exact absurd hf (by simp)
    | some c => exact null_value_passes cfg c detect k hk
  intro v v'
  refine ⟨?_, ?_, hone⟩
  · simp only [v, v', verifyAll, List.map_append, List.map_cons, List.sum_append, List.sum_cons,
      countTrue_append, hone]
    simp [countTrue]
    omega
  · simp only [v, v', verifyAll, List.map_append, List.map_cons, List.sum_append, List.sum_cons,
      countFalse_append, hone]
    simp [countFalse]

end TddaVerif.Props.C02.Lemmas
