/- Helper lemmas for C02 (verification = documented meaning). Statements mirror Props/C02.lean. -/
import TddaVerif.Model.Constraints
import TddaVerif.Props.C02Spec

namespace TddaVerif.Props.C02.Lemmas
open TddaVerif.Constraints TddaVerif.Props.C02

theorem fuzzDown_eq (y eps : Rat) : fuzzDown y eps = y - eps * absRat y := by
  sorry

theorem fuzzUp_eq (y eps : Rat) : fuzzUp y eps = y + eps * absRat y := by
  sorry

theorem verify_eq_spec (cfg : Cfg) (heps : 0 ≤ cfg.epsilon) (c : Column) (hwf : c.WF = true)
    (detect : Bool) (k : Constraint) : verifyOn cfg c detect k = true ↔ Sat cfg c k := by
  sorry

theorem verify_flag_irrelevant (cfg : Cfg) (heps : 0 ≤ cfg.epsilon) (c : Column) (hwf : c.WF = true)
    (k : Constraint) : verifyOn cfg c true k = verifyOn cfg c false k := by
  sorry

theorem missing_field_fails (cfg : Cfg) (frame : List Column) (f : List Char) (detect : Bool)
    (k : Constraint) (h : findCol frame f = none) : verifyOne cfg frame f detect k = false := by
  sorry

theorem null_value_passes (cfg : Cfg) (c : Column) (detect : Bool) (k : Constraint)
    (h : isNullC k = true) : verifyOn cfg c detect k = true := by
  sorry

theorem totals_exact (cfg : Cfg) (frame : List Column) (detect : Bool)
    (cs : List (List Char × List Constraint)) :
    let v := verifyAll cfg frame detect cs
    (∀ f ∈ v.fields, f.passes = countTrue f.verdicts ∧ f.failures = countFalse f.verdicts ∧
                      f.passes + f.failures = f.verdicts.length) ∧
    v.passes = countTrue (v.fields.map (·.verdicts)).flatten ∧
    v.failures = countFalse (v.fields.map (·.verdicts)).flatten ∧
    v.fields.map (·.field) = cs.map (·.1) ∧
    v.fields.map (·.verdicts.length) = cs.map (·.2.length) := by
  sorry

/-- the verdict lists are the verifier applied to each constraint, field by field, in order -/
theorem verdicts_eq (cfg : Cfg) (frame : List Column) (detect : Bool)
    (cs : List (List Char × List Constraint)) :
    (verifyAll cfg frame detect cs).fields.map (·.verdicts)
      = cs.map (fun fc => fc.2.map (verifyOne cfg frame fc.1 detect)) := by
  sorry

theorem null_constraint_inert (cfg : Cfg) (frame : List Column) (detect : Bool)
    (pre post : List (List Char × List Constraint)) (f : List Char) (ks : List Constraint)
    (k : Constraint) (hk : isNullC k = true) (hf : (findCol frame f).isSome = true) :
    let v := verifyAll cfg frame detect (pre ++ (f, ks) :: post)
    let v' := verifyAll cfg frame detect (pre ++ (f, ks ++ [k]) :: post)
    v'.passes = v.passes + 1 ∧ v'.failures = v.failures ∧ verifyOne cfg frame f detect k = true := by
  sorry

end TddaVerif.Props.C02.Lemmas
