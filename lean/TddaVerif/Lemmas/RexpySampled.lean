/- Lemmas for C03 / C13 under sampling (the loop of Extractor.extract). -/
import TddaVerif.Model.Rexpy
import TddaVerif.Model.RexpySampled
import TddaVerif.Props.C03Spec
import TddaVerif.Lemmas.RexpySound

namespace TddaVerif.Props.C03.SampledLemmas
open TddaVerif.Py TddaVerif.Rexpy TddaVerif.Props.C03 TddaVerif.Props.C03.Lemmas

set_option linter.unusedSimpArgs false
set_option linter.unusedVariables false

/-- what is assumed of `random.sample(l, k)`: it returns elements of `l`, and at least one when asked for at
    least one of a non-empty list -/
def PickOK (pick : Pick) : Prop :=
  ∀ ev k l, (∀ x ∈ pick ev k l, x ∈ l) ∧ (1 ≤ k → l ≠ [] → pick ev k l ≠ [])

/-- `batchExtract` is `batchExtractE` at the extra letters thinned against its own examples -/
theorem batchExtract_eq_E (T : CharTable) (o : Opts) (cl : Cleaned) :
    batchExtract T o cl = (batchExtractE T o (thinExtras o.extras cl.strings) cl).map
      (fun ps => (ps, thinExtras o.extras cl.strings)) := by
  unfold batchExtract batchExtractE
  simp only [Option.map_map]
  rfl

theorem wrapP_eq_wrapWs (w : Bool) (p : Pattern) : wrapP w p = wrapWs w p := rfl

/-! ### the batch pipeline for arbitrary extra letters `E`

`RexpySound.lean` assembles the stage lemmas for `batchExtract`, whose extra letters are
`thinExtras o.extras cl.strings`; the stage lemmas themselves are generic in `E`, and are re-assembled here for
`batchExtractE`.  (`coarse_sound` there asks for `E = normExtras E` but does not use it; it is re-proved here without
that hypothesis, so nothing below restricts `E`.) -/

theorem coarse_sound' (T : CharTable) (hT : Consistent T) (E : List Char) (c : Char) :
    inCat T E (coarse T E c) c = true := by
  unfold coarse
  split
  · assumption
  · split
    · assumption
    · split
      · assumption
      · rename_i h1 h2 h3
        rw [inCat_cUAlpha] at h1
        rw [inCat_cWhite] at h2
        rw [inCat_cPunc] at h3
        rw [inCat_cOther]
        have h2' : T.s c = false := by simpa using h2
        simp only [h2', Bool.not_false, Bool.and_true, Bool.not_eq_true', Bool.and_eq_false_iff,
          decide_eq_false_iff_not]
        by_cases hr : 33 ≤ c.toNat ∧ c.toNat ≤ 126
        · exfalso
          obtain ⟨hr1, hr2⟩ := hr
          have hr0 : 32 ≤ c.toNat := by omega
          simp [h2', hr0, hr2] at h3
          simp at h1
          obtain ⟨hw, hin⟩ := h1
          by_cases hal : asciiUpper c = true ∨ asciiLower c = true ∨ asciiDigit c = true
          · have hwc : T.w c = true := hT.1 c (by rcases hal with h | h | h <;> simp [h])
            obtain ⟨rfl, -⟩ := hw hwc
            revert hal; decide
          · have hcE : c ∈ E := h3 (by simpa using fun h => hal (Or.inl h))
              (by simpa using fun h => hal (Or.inr (Or.inl h)))
              (by simpa using fun h => hal (Or.inr (Or.inr h)))
            have hc := hin hcE
            subst hc
            exact (hw (hT.1 '_' (by simp))).2 hcE
        · omega

theorem coarseRle_runs' (T : CharTable) (hT : Consistent T) (E : List Char) (s : Line) :
    ∃ f : Char → Char, Runs f (coarseRle T E s) s ∧ ∀ c, inCat T E (f c) c = true := by
  unfold coarseRle
  simp only
  split
  · exact ⟨coarse T E, runs_rle _ s, coarse_sound' T hT E⟩
  · exact ⟨fun _ => cAny, runs_rle _ s, fun c => inCat_cAny T E c⟩

def gRles (T : CharTable) (E : List Char) (cl : Cleaned) : List (List (Char × Nat)) :=
  cl.strings.map (coarseRle T E)

def gVrles (T : CharTable) (E : List Char) (cl : Cleaned) : List Vrle := toVrles (gRles T E cl).eraseDups

/-- the examples of the signature group of `v` -/
def gEx (T : CharTable) (E : List Char) (cl : Cleaned) (v : Vrle) : List Line :=
  (cl.strings.zip (gRles T E cl)).filterMap (fun sr => if sigOf sr.2 == sigOf v then some sr.1 else none)

def gF (T : CharTable) (o : Opts) (E : List Char) (cl : Cleaned) (v : Vrle) : Option Pattern :=
  refineVrle T E o.vlf o.sizes (decide (cl.nStripped > 0)) v (gEx T E cl v)

theorem batchExtractE_eq (T : CharTable) (o : Opts) (E : List Char) (cl : Cleaned) :
    batchExtractE T o E cl = ((gVrles T E cl).mapM (gF T o E cl)).map merged := rfl

/-- `batchExtractE` looks only at the strings and at whether anything was stripped -/
theorem batchExtractE_congr (T : CharTable) (o : Opts) (E : List Char) (cl cl' : Cleaned)
    (hs : cl.strings = cl'.strings) (hn : decide (cl.nStripped > 0) = decide (cl'.nStripped > 0)) :
    batchExtractE T o E cl = batchExtractE T o E cl' := by
  unfold batchExtractE
  simp only [hs, hn]

theorem mem_gEx (T : CharTable) (E : List Char) (cl : Cleaned) (v : Vrle) (e : Line) :
    e ∈ gEx T E cl v ↔ e ∈ cl.strings ∧ sigOf (coarseRle T E e) = sigOf v := by
  have := mem_zip_filterMap cl.strings (coarseRle T E) (fun r => sigOf r == sigOf v) e
  simpa [gEx, gRles] using this

theorem gRles_pos (T : CharTable) (E : List Char) (cl : Cleaned) :
    ∀ r ∈ (gRles T E cl).eraseDups, ∀ x ∈ r, 0 < x.2 := by
  intro r hr
  obtain ⟨s, -, rfl⟩ := List.mem_map.1 (List.mem_eraseDups.1 hr)
  exact coarseRle_pos T _ s

theorem cover_of_stringE (T : CharTable) (hT : Consistent T) (E : List Char) (cl : Cleaned) (s : Line)
    (hs : s ∈ cl.strings) :
    ∃ v ∈ gVrles T E cl, sigOf v = sigOf (coarseRle T E s) ∧ Matches T E (fragsOfVrle v) s := by
  have hr : coarseRle T E s ∈ (gRles T E cl).eraseDups :=
    List.mem_eraseDups.2 (List.mem_map.2 ⟨s, hs, rfl⟩)
  obtain ⟨v, hv, hcov⟩ := toVrles_covers _ (gRles_pos T E cl) _ hr
  obtain ⟨f, hruns, hf⟩ := coarseRle_runs' T hT E s
  exact ⟨v, hv, hcov.1, matches_of_covers T _ f v _ s hcov hruns (fun c _ => hf c)⟩

/-- every example of a signature group is matched by the (wrapped) coarse pattern of the group's VRLE -/
theorem gEx_matches (T : CharTable) (hT : Consistent T) (E : List Char) (cl : Cleaned) (w : Bool) (v : Vrle)
    (hv : v ∈ gVrles T E cl) : ∀ e ∈ gEx T E cl v, Matches T E (wrapWs w (fragsOfVrle v)) e := by
  intro e he
  obtain ⟨hes, hsig⟩ := (mem_gEx T E cl v e).1 he
  obtain ⟨v', hv', hsig', hm⟩ := cover_of_stringE T hT E cl e hes
  have : v' = v := toVrles_sig_unique _ v' v hv' hv (hsig'.trans hsig)
  subst this
  exact matches_wrap T _ _ _ e hm

/-- refinement succeeds (the `assert m is not None` holds) whenever the coarse pattern matches the examples;
    the Size settings play no role in this -/
theorem refineVrle_some (T : CharTable) (E : List Char) (vlf : Bool) (sz : Sizes) (wsWrap : Bool) (v : Vrle)
    (examples : List Line) (hm : ∀ e ∈ examples, Matches T E (wrapWs wsWrap (fragsOfVrle v)) e) :
    ∃ p, refineVrle T E vlf sz wsWrap v examples = some p := by
  obtain ⟨caps, hcaps, -, -⟩ := mapM_some (fun e => (matchCap T E (wrapWs wsWrap (fragsOfVrle v)) e).map
        (fun r => if wsWrap then (r.drop 1).take v.length else r)) examples (by
    intro e he
    obtain ⟨r, pre, inner, post, hr, -⟩ := example_pieces T E wsWrap v e (hm e he)
    exact ⟨_, by rw [hr]; rfl⟩)
  exact ⟨blocks T E vlf sz v caps, by rw [refineVrle_eq, hcaps]; rfl⟩

theorem gF_sound (T : CharTable) (hT : Consistent T) (o : Opts) (hsz : 1 ≤ o.sizes.maxStringsInGroup)
    (E : List Char) (cl : Cleaned) (v : Vrle) (hv : v ∈ gVrles T E cl) :
    ∃ p, gF T o E cl v = some p ∧
      ∀ e ∈ gEx T E cl v, Matches T E (wrapWs (decide (cl.nStripped > 0)) p) e :=
  refineVrle_sound T hT _ _ _ hsz _ _ _ (gEx_matches T hT E cl _ v hv)

theorem gEx_nonempty (T : CharTable) (E : List Char) (cl : Cleaned) (v : Vrle) (hv : v ∈ gVrles T E cl) :
    ∃ s, s ∈ gEx T E cl v := by
  obtain ⟨r, hr, hsig⟩ := toVrles_from _ v hv
  obtain ⟨s, hs, rfl⟩ := List.mem_map.1 (List.mem_eraseDups.1 hr)
  exact ⟨s, (mem_gEx T E cl v s).2 ⟨hs, hsig⟩⟩

/-- no internal assertion of a pass fails (for any Size settings and any extra letters) -/
theorem batchE_some (T : CharTable) (hT : Consistent T) (o : Opts) (E : List Char) (cl : Cleaned) :
    ∃ ps, batchExtractE T o E cl = some ps := by
  obtain ⟨qs, hqs, -, -⟩ := mapM_some (gF T o E cl) (gVrles T E cl) (fun v hv =>
    refineVrle_some T E _ _ _ v _ (gEx_matches T hT E cl _ v hv))
  exact ⟨merged qs, by rw [batchExtractE_eq, hqs]; rfl⟩

theorem batchE_parts (T : CharTable) (o : Opts) (E : List Char) (cl : Cleaned) (ps : List Pattern)
    (h : batchExtractE T o E cl = some ps) :
    ∃ qs, (gVrles T E cl).mapM (gF T o E cl) = some qs ∧ ps = merged qs := by
  rw [batchExtractE_eq] at h
  cases hq : (gVrles T E cl).mapM (gF T o E cl) with
  | none => simp [hq] at h
  | some qs =>
    simp only [hq, Option.map_some, Option.some.injEq] at h
    exact ⟨qs, rfl, h.symm⟩

/-- one pass is sound for the working examples it was given -/
theorem batchE_sound (T : CharTable) (hT : Consistent T) (o : Opts) (hsz : 1 ≤ o.sizes.maxStringsInGroup)
    (E : List Char) (cl : Cleaned) (ps : List Pattern) (h : batchExtractE T o E cl = some ps) :
    ∀ s ∈ cl.strings, ∃ p ∈ ps, Matches T E (wrapWs (decide (cl.nStripped > 0)) p) s := by
  obtain ⟨qs, hqs, rfl⟩ := batchE_parts T o E cl ps h
  intro s hs
  obtain ⟨v, hv, hsig, -⟩ := cover_of_stringE T hT E cl s hs
  obtain ⟨p, hp, hm⟩ := gF_sound T hT o hsz E cl v hv
  obtain ⟨qs', hqs', h1, -⟩ := mapM_some (gF T o E cl) (gVrles T E cl) (fun v hv => by
    obtain ⟨p, hp, -⟩ := gF_sound T hT o hsz E cl v hv
    exact ⟨p, hp⟩)
  rw [hqs] at hqs'
  obtain rfl : qs = qs' := Option.some.inj hqs'
  obtain ⟨p', hp', hpf⟩ := h1 v hv
  rw [hp] at hpf
  obtain rfl : p = p' := Option.some.inj hpf
  exact ⟨p, (mem_merged qs p).2 hp', hm s ((mem_gEx T E cl v s).2 ⟨hs, hsig.symm⟩)⟩

/-- every pattern of a pass matches one of the working examples it was given -/
theorem batchE_witness (T : CharTable) (hT : Consistent T) (o : Opts) (hsz : 1 ≤ o.sizes.maxStringsInGroup)
    (E : List Char) (cl : Cleaned) (ps : List Pattern) (h : batchExtractE T o E cl = some ps) :
    ∀ p ∈ ps, ∃ s ∈ cl.strings, Matches T E (wrapWs (decide (cl.nStripped > 0)) p) s := by
  obtain ⟨qs, hqs, rfl⟩ := batchE_parts T o E cl ps h
  intro p hp
  obtain ⟨v, hv, hf⟩ := mapM_mem _ _ _ hqs p ((mem_merged qs p).1 hp)
  obtain ⟨p', hp', hm⟩ := gF_sound T hT o hsz E cl v hv
  rw [hp'] at hf
  obtain rfl : p' = p := Option.some.inj hf
  obtain ⟨s, hs⟩ := gEx_nonempty T E cl v hv
  exact ⟨s, ((mem_gEx T E cl v s).1 hs).1, hm s hs⟩

/-! ### the loop, one pass at a time -/

/-- the failures of a pass -/
def lF (T : CharTable) (E : List Char) (A : Cleaned) (ps : List Pattern) : List (Line × Nat) :=
  nonMatches T E (decide (A.nStripped > 0)) ps (A.strings.zip A.freqs)

/-- are the failures sampled? -/
def lS1 (cfg : SampleCfg) (attempt : Nat) (F : List (Line × Nat)) : Bool :=
  decide (attempt ≤ cfg.maxAttempts) && decide (F.length > cfg.doAllExceptions)

/-- the failures looked at -/
def lFail (cfg : SampleCfg) (pick : Pick) (attempt ev : Nat) (F : List (Line × Nat)) : List (Line × Nat) :=
  if lS1 cfg attempt F then pick ev (max 1 cfg.doAllExceptions) F else F

def lEv (cfg : SampleCfg) (attempt ev : Nat) (F : List (Line × Nat)) : Nat :=
  if lS1 cfg attempt F then ev + 1 else ev

theorem sampledLoop_zero (T : CharTable) (o : Opts) (cfg : SampleCfg) (pick : Pick) (A : Cleaned) (E : List Char)
    (attempt ev : Nat) (W : Cleaned) : sampledLoop T o cfg pick A E 0 attempt ev W = none := rfl

theorem sampledLoop_succ (T : CharTable) (o : Opts) (cfg : SampleCfg) (pick : Pick) (A : Cleaned) (E : List Char)
    (fuel attempt ev : Nat) (W : Cleaned) :
    sampledLoop T o cfg pick A E (fuel + 1) attempt ev W =
      match batchExtractE T o E W with
      | none => none
      | some ps =>
        if (lFail cfg pick attempt ev (lF T E A ps)).all (fun e => W.strings.contains e.1) then some ps
        else if decide ((lFail cfg pick attempt ev (lF T E A ps)).length ≤ cfg.doAllExceptions) ||
            !decide (attempt ≤ cfg.maxAttempts) then
          sampledLoop T o cfg pick A E fuel (attempt + 1) (lEv cfg attempt ev (lF T E A ps))
            (addTo W (lFail cfg pick attempt ev (lF T E A ps)))
        else
          sampledLoop T o cfg pick A E fuel (attempt + 1) (lEv cfg attempt ev (lF T E A ps) + 1)
            (addTo W (pick (lEv cfg attempt ev (lF T E A ps)) cfg.doAllExceptions
              (lFail cfg pick attempt ev (lF T E A ps)))) := rfl

theorem mem_lF (T : CharTable) (E : List Char) (A : Cleaned) (ps : List Pattern) (e : Line × Nat) :
    e ∈ lF T E A ps ↔ e ∈ A.strings.zip A.freqs ∧
      ∀ p ∈ ps, matchB T E (wrapP (decide (A.nStripped > 0)) p) e.1 = false := by
  unfold lF nonMatches
  split
  · rename_i hemp
    have : ps = [] := by simpa [List.isEmpty_iff] using hemp
    subst this
    simp
  · simp [List.mem_filter]

theorem lF_fst_mem (T : CharTable) (E : List Char) (A : Cleaned) (ps : List Pattern) (e : Line × Nat)
    (h : e ∈ lF T E A ps) : e.1 ∈ A.strings :=
  (List.of_mem_zip (((mem_lF T E A ps e).1 h).1 : (e.1, e.2) ∈ A.strings.zip A.freqs)).1

theorem lFail_sub {pick : Pick} (hp : PickOK pick) (cfg : SampleCfg) (attempt ev : Nat) (F : List (Line × Nat)) :
    ∀ x ∈ lFail cfg pick attempt ev F, x ∈ F := by
  unfold lFail
  split
  · exact (hp ev _ F).1
  · exact fun x hx => hx

theorem lFail_ne_nil {pick : Pick} (hp : PickOK pick) (cfg : SampleCfg) (attempt ev : Nat) (F : List (Line × Nat))
    (hF : F ≠ []) : lFail cfg pick attempt ev F ≠ [] := by
  unfold lFail
  split
  · exact (hp ev _ F).2 (Nat.le_max_left _ _) hF
  · exact hF

theorem addTo_strings (W : Cleaned) (xs : List (Line × Nat)) :
    (addTo W xs).strings = W.strings ++ xs.map (·.1) := rfl

theorem addTo_nStripped (W : Cleaned) (xs : List (Line × Nat)) : (addTo W xs).nStripped = W.nStripped := rfl

theorem addTo_sub (A W : Cleaned) (xs : List (Line × Nat)) (hW : ∀ s ∈ W.strings, s ∈ A.strings)
    (hxs : ∀ x ∈ xs, x.1 ∈ A.strings) : ∀ s ∈ (addTo W xs).strings, s ∈ A.strings := by
  intro s hs
  rw [addTo_strings, List.mem_append] at hs
  rcases hs with hs | hs
  · exact hW s hs
  · obtain ⟨x, hx, rfl⟩ := List.mem_map.1 hs
    exact hxs x hx

/-- the state the loop ends in: working examples that are examples, the patterns extracted from them, and the
    end-of-loop test passed -/
theorem sampledLoop_final (T : CharTable) (o : Opts) (cfg : SampleCfg) (pick : Pick) (hp : PickOK pick)
    (A : Cleaned) (E : List Char) (ps : List Pattern) :
    ∀ (fuel attempt ev : Nat) (W : Cleaned), (∀ s ∈ W.strings, s ∈ A.strings) →
      sampledLoop T o cfg pick A E fuel attempt ev W = some ps →
      ∃ W' attempt' ev', (∀ s ∈ W'.strings, s ∈ A.strings) ∧ W'.nStripped = W.nStripped ∧
        batchExtractE T o E W' = some ps ∧
        (lFail cfg pick attempt' ev' (lF T E A ps)).all (fun e => W'.strings.contains e.1) = true := by
  intro fuel
  induction fuel with
  | zero =>
    intro attempt ev W _ h
    rw [sampledLoop_zero] at h
    cases h
  | succ n ih =>
    intro attempt ev W hW h
    rw [sampledLoop_succ] at h
    cases hb : batchExtractE T o E W with
    | none => simp [hb] at h
    | some qs =>
      simp only [hb] at h
      have hsubF : ∀ x ∈ lFail cfg pick attempt ev (lF T E A qs), x.1 ∈ A.strings :=
        fun x hx => lF_fst_mem T E A qs x (lFail_sub hp cfg attempt ev _ x hx)
      by_cases hall : (lFail cfg pick attempt ev (lF T E A qs)).all (fun e => W.strings.contains e.1) = true
      · rw [if_pos hall] at h
        obtain rfl : qs = ps := Option.some.inj h
        exact ⟨W, attempt, ev, hW, rfl, hb, hall⟩
      · rw [if_neg hall] at h
        split at h
        · obtain ⟨W', a', e', h1, h2, h3, h4⟩ := ih _ _ _ (addTo_sub A W _ hW hsubF) h
          exact ⟨W', a', e', h1, h2, h3, h4⟩
        · obtain ⟨W', a', e', h1, h2, h3, h4⟩ := ih _ _ _
            (addTo_sub A W _ hW (fun x hx => hsubF x ((hp _ _ _).1 x hx))) h
          exact ⟨W', a', e', h1, h2, h3, h4⟩

theorem mem_zip_of_mem {α β : Type} : ∀ (l : List α) (l' : List β), l.length = l'.length → ∀ a ∈ l,
    ∃ b, (a, b) ∈ l.zip l'
  | [], _, _, a, ha => by cases ha
  | x :: xs, [], h, _, _ => by simp at h
  | x :: xs, y :: ys, h, a, ha => by
    rcases List.mem_cons.1 ha with rfl | ha
    · exact ⟨y, by simp⟩
    · obtain ⟨b, hb⟩ := mem_zip_of_mem xs ys (by simpa using h) a ha
      exact ⟨b, by simp [hb]⟩

/-- when the loop ends, every (cleaned) example is matched in full by one of the patterns it ends with -/
theorem sampledLoop_covers (T : CharTable) (hT : Consistent T) (o : Opts) (hsz : 1 ≤ o.sizes.maxStringsInGroup)
    (cfg : SampleCfg) (pick : Pick) (hp : PickOK pick)
    (A : Cleaned) (E : List Char) (fuel attempt ev : Nat) (W : Cleaned) (hW : ∀ s ∈ W.strings, s ∈ A.strings)
    (hns : 0 < W.nStripped → 0 < A.nStripped)
    (hlen : A.strings.length = A.freqs.length)
    (ps : List Pattern) (h : sampledLoop T o cfg pick A E fuel attempt ev W = some ps) :
    ∀ s ∈ A.strings, ∃ p ∈ ps, matchB T E (wrapP (decide (A.nStripped > 0)) p) s = true := by
  obtain ⟨W', at', ev', hW', hn', hb, hall⟩ := sampledLoop_final T o cfg pick hp A E ps fuel attempt ev W hW h
  have hsound := batchE_sound T hT o hsz E W' ps hb
  -- a working example is never a failure
  have hnotF : ∀ e ∈ lF T E A ps, e.1 ∉ W'.strings := by
    intro e heF heW
    obtain ⟨p, hpp, hm⟩ := hsound e.1 heW
    have hfalse := ((mem_lF T E A ps e).1 heF).2 p hpp
    have hm' : Matches T E (wrapWs (decide (A.nStripped > 0)) p) e.1 := by
      by_cases hw : 0 < W'.nStripped
      · have ha : 0 < A.nStripped := hns (hn' ▸ hw)
        simpa [hw, ha] using hm
      · have : p = wrapWs (decide (W'.nStripped > 0)) p := by simp [hw, wrapWs]
        rw [← this] at hm
        exact matches_wrap T E _ p e.1 hm
    have := matchCap_complete T E _ e.1 hm'
    rw [wrapP_eq_wrapWs, matchB, this] at hfalse
    cases hfalse
  -- so the end-of-loop test can only have passed with no failure at all
  have hF : lF T E A ps = [] := by
    by_contra hne
    obtain ⟨e, he⟩ := List.exists_mem_of_ne_nil _ (lFail_ne_nil hp cfg at' ev' _ hne)
    have heW : e.1 ∈ W'.strings := by simpa using (List.all_eq_true.1 hall) e he
    exact hnotF e (lFail_sub hp cfg at' ev' _ e he) heW
  intro s hs
  obtain ⟨n, hn⟩ := mem_zip_of_mem A.strings A.freqs hlen s hs
  by_contra hno
  have : (s, n) ∈ lF T E A ps := by
    rw [mem_lF]
    refine ⟨hn, fun p hpp => ?_⟩
    cases hmb : matchB T E (wrapP (decide (A.nStripped > 0)) p) s with
    | false => rfl
    | true => exact absurd ⟨p, hpp, hmb⟩ hno
  rw [hF] at this
  cases this

/-! ### `extractSampled`, unfolded -/

abbrev cA (o : Opts) (items : List (Option Line × Nat)) : Cleaned := clean o.stripOpt o.removeEmpties items

def sEx (o : Opts) (items : List (Option Line × Nat)) : List (Line × Nat) := (cA o items).strings.zip (cA o items).freqs

def sS0 (o : Opts) (cfg : SampleCfg) (items : List (Option Line × Nat)) : Bool :=
  decide ((sEx o items).length > cfg.doAll) && decide ((sEx o items).length > cfg.doAllExceptions)

def sFirst (o : Opts) (cfg : SampleCfg) (pick : Pick) (items : List (Option Line × Nat)) : List (Line × Nat) :=
  if sS0 o cfg items then pick 0 (max 1 cfg.doAllExceptions) (sEx o items) else sEx o items

def sW0 (o : Opts) (cfg : SampleCfg) (pick : Pick) (items : List (Option Line × Nat)) : Cleaned :=
  { strings := (sFirst o cfg pick items).map (·.1), freqs := (sFirst o cfg pick items).map (fun _ => 1),
    nStripped := (cA o items).nStripped }

def sE (o : Opts) (cfg : SampleCfg) (pick : Pick) (items : List (Option Line × Nat)) : List Char :=
  thinExtras o.extras (sW0 o cfg pick items).strings

def pruned (T : CharTable) (o : Opts) (E : List Char) (A : Cleaned) (ps : List Pattern) : List Pattern :=
  (List.range ps.length).filterMap (fun i =>
    if (badPatterns o (reFreqs T E (decide (A.nStripped > 0)) ps A)).contains i then none else ps[i]?)

theorem extractSampled_eq (T : CharTable) (o : Opts) (cfg : SampleCfg) (pick : Pick)
    (items : List (Option Line × Nat)) :
    extractSampled T o cfg pick items =
      if (sW0 o cfg pick items).strings.isEmpty then some ([], [], false)
      else
        match sampledLoop T o cfg pick (cA o items) (sE o cfg pick items)
            ((cA o items).strings.length + cfg.maxAttempts + 2) 1 (if sS0 o cfg items then 1 else 0)
            (sW0 o cfg pick items) with
        | none => none
        | some ps => some (pruned T o (sE o cfg pick items) (cA o items) ps, sE o cfg pick items,
            decide ((cA o items).nStripped > 0)) := rfl

theorem mem_pruned (T : CharTable) (o : Opts) (E : List Char) (A : Cleaned) (ps : List Pattern) (p : Pattern)
    (h : p ∈ pruned T o E A ps) : p ∈ ps := by
  unfold pruned at h
  rw [List.mem_filterMap] at h
  obtain ⟨i, -, hi⟩ := h
  split at hi
  · cases hi
  · exact List.mem_of_getElem? hi

theorem pruned_nil (T : CharTable) (o : Opts) (hprune : o.maxPatterns = none ∧ o.minStrings ≤ 1) (E : List Char)
    (A : Cleaned) (ps : List Pattern) : pruned T o E A ps = ps := by
  unfold pruned
  rw [badPatterns_nil o hprune]
  simp [range_filterMap_getElem?]

theorem clean_length (so re : Bool) (items : List (Option Line × Nat)) :
    (clean so re items).strings.length = (clean so re items).freqs.length := by
  have h1 : (clean so re items).strings = ((items.foldl (cleanStep so re) ([], 0)).1).map (·.1) := rfl
  have h2 : (clean so re items).freqs = ((items.foldl (cleanStep so re) ([], 0)).1).map (·.2) := rfl
  rw [h1, h2]
  simp

theorem sEx_fst (o : Opts) (items : List (Option Line × Nat)) : (sEx o items).map (·.1) = (cA o items).strings := by
  unfold sEx
  exact List.map_fst_zip (Nat.le_of_eq (clean_length _ _ items))

theorem sEx_length (o : Opts) (items : List (Option Line × Nat)) : (sEx o items).length = (cA o items).strings.length := by
  rw [← sEx_fst, List.length_map]

theorem sFirst_sub {pick : Pick} (hp : PickOK pick) (o : Opts) (cfg : SampleCfg) (items : List (Option Line × Nat)) :
    ∀ x ∈ sFirst o cfg pick items, x ∈ sEx o items := by
  unfold sFirst
  split
  · exact (hp 0 _ _).1
  · exact fun x hx => hx

theorem sW0_sub {pick : Pick} (hp : PickOK pick) (o : Opts) (cfg : SampleCfg) (items : List (Option Line × Nat)) :
    ∀ s ∈ (sW0 o cfg pick items).strings, s ∈ (cA o items).strings := by
  intro s hs
  obtain ⟨x, hx, rfl⟩ := List.mem_map.1 hs
  have := sFirst_sub hp o cfg items x hx
  rw [← sEx_fst]
  exact List.mem_map.2 ⟨x, this, rfl⟩

/-- with a sampler that returns something, no working examples means no examples -/
theorem sW0_empty {pick : Pick} (hp : PickOK pick) (o : Opts) (cfg : SampleCfg) (items : List (Option Line × Nat))
    (h : (sW0 o cfg pick items).strings = []) : (cA o items).strings = [] := by
  have hf : sFirst o cfg pick items = [] := by simpa [sW0] using h
  have hex : sEx o items = [] := by
    unfold sFirst at hf
    split at hf
    · rename_i hs0
      by_contra hne
      exact (hp 0 _ _).2 (Nat.le_max_left _ _) hne hf
    · exact hf
  rw [← sEx_fst, hex]
  rfl

/-- **soundness under sampling**: whatever the sampler returns, every example that is
    not discarded is matched by one of the expressions returned (no pruning options) -/
theorem extractSampled_sound (T : CharTable) (hT : Consistent T) (o : Opts)
    (hsz : 1 ≤ o.sizes.maxStringsInGroup) (cfg : SampleCfg) (pick : Pick)
    (hp : PickOK pick) (hprune : o.maxPatterns = none ∧ o.minStrings ≤ 1) (items : List (Option Line × Nat))
    (ps : List Pattern) (E : List Char) (w : Bool) (h : extractSampled T o cfg pick items = some (ps, E, w)) :
    ∀ s ∈ keptExamples o items, ∃ p ∈ ps, Matches T E (wrapWs w p) s := by
  have hkept : ∀ s ∈ keptExamples o items, ∃ n, (some s, n) ∈ items ∧ n ≠ 0 ∧
      ¬ (o.removeEmpties = true ∧ (if o.stripOpt then strip s else s) = []) ∧
      (if o.stripOpt then strip s else s) ∈ (cA o items).strings := by
    intro s hs
    obtain ⟨n, hit, hn, hre⟩ := mem_keptExamples o items s hs
    exact ⟨n, hit, hn, hre, (clean_strings _ _ items _).2 ⟨s, n, hit, hn, rfl, hre⟩⟩
  rw [extractSampled_eq] at h
  by_cases hemp : (sW0 o cfg pick items).strings.isEmpty = true
  · rw [if_pos hemp] at h
    have hA := sW0_empty hp o cfg items (by simpa [List.isEmpty_iff] using hemp)
    intro s hs
    obtain ⟨n, -, -, -, hmem⟩ := hkept s hs
    rw [hA] at hmem
    cases hmem
  · rw [if_neg hemp] at h
    cases hl : sampledLoop T o cfg pick (cA o items) (sE o cfg pick items)
        ((cA o items).strings.length + cfg.maxAttempts + 2) 1 (if sS0 o cfg items then 1 else 0)
        (sW0 o cfg pick items) with
    | none => simp [hl] at h
    | some qs =>
      simp only [hl, Option.some.injEq, Prod.mk.injEq] at h
      obtain ⟨h1, h2, h3⟩ := h
      rw [pruned_nil T o hprune] at h1
      subst h1 h2 h3
      have hcov := sampledLoop_covers T hT o hsz cfg pick hp (cA o items) (sE o cfg pick items) _ _ _ _
        (sW0_sub hp o cfg items) (fun h => h) (clean_length _ _ items) qs hl
      intro s hs
      obtain ⟨n, hit, hn, hre, hmem⟩ := hkept s hs
      obtain ⟨p, hpq, hmb⟩ := hcov _ hmem
      obtain ⟨caps, hcaps⟩ := Option.isSome_iff_exists.1 hmb
      have hmatch := (matchCap_sound T _ _ _ caps hcaps).2.2.2
      rw [wrapP_eq_wrapWs] at hmatch
      refine ⟨p, hpq, ?_⟩
      by_cases hso : o.stripOpt = true
      · rw [if_pos hso] at hmatch hre
        apply matches_unstrip T hT _ _ p s _ hmatch
        intro hw
        have h0 : (clean o.stripOpt o.removeEmpties items).nStripped = 0 := by
          have h' : ¬ ((clean o.stripOpt o.removeEmpties items).nStripped > 0) := of_decide_eq_false hw
          omega
        exact clean_nStripped_zero _ _ items h0 s n hit hn hso hre
      · rw [if_neg hso] at hmatch
        exact hmatch

/-! ### termination -/

/-- the examples that are not yet working examples -/
def missing (A W : Cleaned) : Nat := (A.strings.filter (fun s => !W.strings.contains s)).length

theorem missing_le (A W : Cleaned) : missing A W ≤ A.strings.length := List.length_filter_le _ _

theorem filter_length_mono {α : Type} (p q : α → Bool) (hpq : ∀ a, p a = true → q a = true) :
    ∀ l : List α, (l.filter p).length ≤ (l.filter q).length
  | [] => by simp
  | a :: l => by
    have ih := filter_length_mono p q hpq l
    simp only [List.filter_cons]
    by_cases hpa : p a = true
    · simp only [hpa, hpq a hpa, if_true, List.length_cons]; omega
    · simp only [hpa, if_false, Bool.false_eq_true]
      split
      · simp only [List.length_cons]; omega
      · exact ih

theorem filter_length_lt {α : Type} (p q : α → Bool) (hpq : ∀ a, p a = true → q a = true) :
    ∀ l : List α, (∃ a ∈ l, q a = true ∧ p a = false) → (l.filter p).length < (l.filter q).length
  | [], h => by obtain ⟨a, ha, -⟩ := h; cases ha
  | a :: l, h => by
    have hmono := filter_length_mono p q hpq l
    simp only [List.filter_cons]
    by_cases hpa : p a = true
    · have ih := filter_length_lt p q hpq l (by
        obtain ⟨b, hb, hq, hpb⟩ := h
        rcases List.mem_cons.1 hb with rfl | hb
        · rw [hpa] at hpb; cases hpb
        · exact ⟨b, hb, hq, hpb⟩)
      simp only [hpa, hpq a hpa, if_true, List.length_cons]; omega
    · simp only [hpa, if_false, Bool.false_eq_true]
      by_cases hqa : q a = true
      · simp only [hqa, if_true, List.length_cons]; omega
      · have ih := filter_length_lt p q hpq l (by
          obtain ⟨b, hb, hq, hpb⟩ := h
          rcases List.mem_cons.1 hb with rfl | hb
          · exact absurd hq hqa
          · exact ⟨b, hb, hq, hpb⟩)
        simp only [hqa, if_false, Bool.false_eq_true]
        exact ih

theorem missing_addTo_le (A W : Cleaned) (xs : List (Line × Nat)) : missing A (addTo W xs) ≤ missing A W := by
  unfold missing
  apply filter_length_mono
  intro s hs
  simp only [addTo_strings, Bool.not_eq_true', List.contains_eq_mem, List.mem_append,
    decide_eq_false_iff_not, not_or] at hs ⊢
  exact hs.1

theorem missing_addTo_lt (A W : Cleaned) (xs : List (Line × Nat)) (e : Line × Nat) (he : e ∈ xs)
    (heA : e.1 ∈ A.strings) (heW : e.1 ∉ W.strings) : missing A (addTo W xs) < missing A W := by
  unfold missing
  apply filter_length_lt
  · intro s hs
    simp only [addTo_strings, Bool.not_eq_true', List.contains_eq_mem, List.mem_append,
      decide_eq_false_iff_not, not_or] at hs ⊢
    exact hs.1
  · refine ⟨e.1, heA, ?_, ?_⟩
    · simpa using heW
    · simp only [addTo_strings, Bool.not_eq_false', List.contains_eq_mem, List.mem_append, decide_eq_true_eq]
      exact Or.inr (List.mem_map.2 ⟨e, he, rfl⟩)

/-- the loop ends when given at least (sampled attempts left) + (examples not yet working examples) + 1 passes:
    each pass that does not end the loop either uses up one of the sampled attempts or adds an example that
    was not among the working examples.  (Nothing is assumed of the sampler, nor of the Size settings.) -/
theorem sampledLoop_some (T : CharTable) (hT : Consistent T) (o : Opts) (cfg : SampleCfg) (pick : Pick)
    (A : Cleaned) (E : List Char) :
    ∀ (fuel attempt ev : Nat) (W : Cleaned),
      (cfg.maxAttempts + 1 - attempt) + missing A W + 1 ≤ fuel →
      ∃ ps, sampledLoop T o cfg pick A E fuel attempt ev W = some ps := by
  intro fuel
  induction fuel with
  | zero => intro attempt ev W h; omega
  | succ n ih =>
    intro attempt ev W hfuel
    obtain ⟨ps, hb⟩ := batchE_some T hT o E W
    rw [sampledLoop_succ]
    simp only [hb]
    by_cases hall : (lFail cfg pick attempt ev (lF T E A ps)).all (fun e => W.strings.contains e.1) = true
    · exact ⟨ps, by rw [if_pos hall]⟩
    · rw [if_neg hall]
      by_cases hsamp : attempt ≤ cfg.maxAttempts
      · -- a sampled attempt is used up
        split
        · apply ih
          have := missing_addTo_le A W (lFail cfg pick attempt ev (lF T E A ps))
          omega
        · apply ih
          have := missing_addTo_le A W (pick (lEv cfg attempt ev (lF T E A ps)) cfg.doAllExceptions
              (lFail cfg pick attempt ev (lF T E A ps)))
          omega
      · -- all the failures become working examples, and one of them was not
        have hs1 : lS1 cfg attempt (lF T E A ps) = false := by simp [lS1, hsamp]
        have hfail : lFail cfg pick attempt ev (lF T E A ps) = lF T E A ps := by simp [lFail, hs1]
        rw [hfail] at hall ⊢
        have hc : (decide ((lF T E A ps).length ≤ cfg.doAllExceptions) || !decide (attempt ≤ cfg.maxAttempts)) = true := by
          simp [hsamp]
        rw [if_pos hc]
        apply ih
        have hex : ∃ e ∈ lF T E A ps, e.1 ∉ W.strings := by
          by_contra hno
          apply hall
          rw [List.all_eq_true]
          intro e he
          by_contra hne
          exact hno ⟨e, he, by simpa using hne⟩
        obtain ⟨e, he, heW⟩ := hex
        have := missing_addTo_lt A W (lF T E A ps) e he (lF_fst_mem T E A ps e he) heW
        omega

/-- the loop ends within the fuel the model gives it -/
theorem extractSampled_terminates (T : CharTable) (hT : Consistent T) (o : Opts)
    (cfg : SampleCfg) (pick : Pick)
    (items : List (Option Line × Nat)) : ∃ r, extractSampled T o cfg pick items = some r := by
  rw [extractSampled_eq]
  split
  · exact ⟨_, rfl⟩
  · obtain ⟨ps, hps⟩ := sampledLoop_some T hT o cfg pick (cA o items) (sE o cfg pick items)
      ((cA o items).strings.length + cfg.maxAttempts + 2) 1 (if sS0 o cfg items then 1 else 0)
      (sW0 o cfg pick items) (by
        have := missing_le (cA o items) (sW0 o cfg pick items)
        omega)
    rw [hps]
    exact ⟨_, rfl⟩

/-- every returned pattern still matches one of the examples (it was extracted from working examples, which are examples) -/
theorem extractSampled_witness (T : CharTable) (hT : Consistent T) (o : Opts)
    (hsz : 1 ≤ o.sizes.maxStringsInGroup) (cfg : SampleCfg) (pick : Pick) (hp : PickOK pick)
    (items : List (Option Line × Nat)) (ps : List Pattern) (E : List Char) (w : Bool)
    (h : extractSampled T o cfg pick items = some (ps, E, w)) :
    ∀ p ∈ ps, ∃ s ∈ (clean o.stripOpt o.removeEmpties items).strings, Matches T E (wrapWs w p) s := by
  rw [extractSampled_eq] at h
  by_cases hemp : (sW0 o cfg pick items).strings.isEmpty = true
  · rw [if_pos hemp] at h
    simp only [Option.some.injEq, Prod.mk.injEq] at h
    obtain ⟨rfl, -, -⟩ := h
    intro p hp'
    cases hp'
  · rw [if_neg hemp] at h
    cases hl : sampledLoop T o cfg pick (cA o items) (sE o cfg pick items)
        ((cA o items).strings.length + cfg.maxAttempts + 2) 1 (if sS0 o cfg items then 1 else 0)
        (sW0 o cfg pick items) with
    | none => simp [hl] at h
    | some qs =>
      simp only [hl, Option.some.injEq, Prod.mk.injEq] at h
      obtain ⟨h1, h2, h3⟩ := h
      subst h1 h2 h3
      obtain ⟨W', at', ev', hW', hn', hb, -⟩ := sampledLoop_final T o cfg pick hp (cA o items) (sE o cfg pick items) qs
        _ _ _ _ (sW0_sub hp o cfg items) hl
      intro p hpp
      obtain ⟨s, hs, hm⟩ := batchE_witness T hT o hsz _ W' qs hb p (mem_pruned T o _ _ qs p hpp)
      have hn'' : W'.nStripped = (cA o items).nStripped := hn'
      rw [hn''] at hm
      exact ⟨s, hW' s hs, hm⟩

/-- below the thresholds nothing is sampled and the result is the batch result -/
theorem extractSampled_eq_extract (T : CharTable) (hT : Consistent T) (o : Opts) (hsz : 1 ≤ o.sizes.maxStringsInGroup)
    (cfg : SampleCfg) (pick : Pick)
    (items : List (Option Line × Nat))
    (hsmall : (clean o.stripOpt o.removeEmpties items).strings.length ≤ cfg.doAll) :
    extractSampled T o cfg pick items = extract T o items := by
  have hs0 : sS0 o cfg items = false := by
    have := sEx_length o items
    simp only [sS0, this, Bool.and_eq_false_iff, decide_eq_false_iff_not]
    left
    have : (cA o items).strings.length ≤ cfg.doAll := hsmall
    omega
  have hfirst : sFirst o cfg pick items = sEx o items := by simp [sFirst, hs0]
  have hWs : (sW0 o cfg pick items).strings = (cA o items).strings := by
    simp only [sW0, hfirst]
    exact sEx_fst o items
  have hE : sE o cfg pick items = thinExtras o.extras (cA o items).strings := by rw [sE, hWs]
  have hWb : ∀ E, batchExtractE T o E (sW0 o cfg pick items) = batchExtractE T o E (cA o items) :=
    fun E => batchExtractE_congr T o E _ _ hWs rfl
  rw [extractSampled_eq, hWs, hs0]
  unfold extract
  show (if (cA o items).strings.isEmpty = true then _ else _) = (if (cA o items).strings.isEmpty = true then _ else _)
  by_cases hemp : (cA o items).strings.isEmpty = true
  · rw [if_pos hemp, if_pos hemp]
  · rw [if_neg hemp, if_neg hemp]
    rw [batchExtract_eq_E, ← hE, sampledLoop_succ, hWb]
    cases hb : batchExtractE T o (sE o cfg pick items) (cA o items) with
    | none => rfl
    | some ps =>
      -- the batch result covers all the examples, so there is no failure and the loop ends at once
      have hsound := batchE_sound T hT o hsz _ (cA o items) ps hb
      have hF : lF T (sE o cfg pick items) (cA o items) ps = [] := by
        rw [List.eq_nil_iff_forall_not_mem]
        intro e he
        obtain ⟨p, hpp, hm⟩ := hsound e.1 (lF_fst_mem _ _ _ _ e he)
        have hfalse := ((mem_lF _ _ _ _ e).1 he).2 p hpp
        have := matchCap_complete T _ _ e.1 hm
        rw [wrapP_eq_wrapWs, matchB, this] at hfalse
        cases hfalse
      have hfail : lFail cfg pick 1 (if false = true then 1 else 0) (lF T (sE o cfg pick items) (cA o items) ps) = [] := by
        simp [lFail, lS1, hF]
      simp only [hfail, List.all_nil, if_true, Option.map_some]
      rfl

/-- the same with an honest sampler in place of soundness of a pass (no assumption on the character table or the
    Size settings): every failure is one of the examples, all of which are working examples -/
theorem extractSampled_eq_extract_of_pick (T : CharTable) (o : Opts)
    (cfg : SampleCfg) (pick : Pick) (hp : PickOK pick)
    (items : List (Option Line × Nat))
    (hsmall : (clean o.stripOpt o.removeEmpties items).strings.length ≤ cfg.doAll) :
    extractSampled T o cfg pick items = extract T o items := by
  have hs0 : sS0 o cfg items = false := by
    have := sEx_length o items
    simp only [sS0, this, Bool.and_eq_false_iff, decide_eq_false_iff_not]
    left
    have : (cA o items).strings.length ≤ cfg.doAll := hsmall
    omega
  have hfirst : sFirst o cfg pick items = sEx o items := by simp [sFirst, hs0]
  have hWs : (sW0 o cfg pick items).strings = (cA o items).strings := by
    simp only [sW0, hfirst]
    exact sEx_fst o items
  have hE : sE o cfg pick items = thinExtras o.extras (cA o items).strings := by rw [sE, hWs]
  have hWb : ∀ E, batchExtractE T o E (sW0 o cfg pick items) = batchExtractE T o E (cA o items) :=
    fun E => batchExtractE_congr T o E _ _ hWs rfl
  rw [extractSampled_eq, hWs, hs0]
  unfold extract
  show (if (cA o items).strings.isEmpty = true then _ else _) = (if (cA o items).strings.isEmpty = true then _ else _)
  by_cases hemp : (cA o items).strings.isEmpty = true
  · rw [if_pos hemp, if_pos hemp]
  · rw [if_neg hemp, if_neg hemp]
    rw [batchExtract_eq_E, ← hE, sampledLoop_succ, hWb, hWs]
    cases hb : batchExtractE T o (sE o cfg pick items) (cA o items) with
    | none => rfl
    | some ps =>
      have hall : (lFail cfg pick 1 (if false = true then 1 else 0) (lF T (sE o cfg pick items) (cA o items) ps)).all
          (fun e => (cA o items).strings.contains e.1) = true := by
        rw [List.all_eq_true]
        intro e he
        have := lF_fst_mem _ _ _ _ e (lFail_sub hp cfg _ _ _ e he)
        simpa using this
      simp only [hall, if_true, Option.map_some]
      rfl

end TddaVerif.Props.C03.SampledLemmas

