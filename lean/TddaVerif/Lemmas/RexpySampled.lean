/- Lemmas for C03 / C13 under sampling (the loop of Extractor.extract). -/
import TddaVerif.Model.Rexpy
import TddaVerif.Model.RexpySampled
import TddaVerif.Props.C03Spec
import TddaVerif.Lemmas.RexpySound

namespace TddaVerif.Props.C03.SampledLemmas
open TddaVerif.Py TddaVerif.Rexpy TddaVerif.Props.C03

/-- what is assumed of `random.sample(l, k)`: it returns elements of `l`, and at least one when asked for at
    least one of a non-empty list -/
def PickOK (pick : Pick) : Prop :=
  ∀ ev k l, (∀ x ∈ pick ev k l, x ∈ l) ∧ (1 ≤ k → l ≠ [] → pick ev k l ≠ [])

/-- when the loop ends, every (cleaned) example is matched in full by one of the patterns it ends with -/
theorem batchExtract_eq_E (T : CharTable) (o : Opts) (cl : Cleaned) :
    batchExtract T o cl = (batchExtractE T o (thinExtras o.extras cl.strings) cl).map
      (fun ps => (ps, thinExtras o.extras cl.strings)) := by
  sorry

theorem sampledLoop_covers (T : CharTable) (o : Opts) (cfg : SampleCfg) (pick : Pick) (hp : PickOK pick)
    (A : Cleaned) (E : List Char) (fuel attempt ev : Nat) (W : Cleaned) (hW : ∀ s ∈ W.strings, s ∈ A.strings)
    (hlen : A.strings.length = A.freqs.length)
    (ps : List Pattern) (h : sampledLoop T o cfg pick A E fuel attempt ev W = some ps) :
    ∀ s ∈ A.strings, ∃ p ∈ ps, matchB T E (wrapP (decide (A.nStripped > 0)) p) s = true := by
  sorry

/-- **soundness under sampling**: whatever the sampler returns, whatever the Size settings, every example that is
    not discarded is matched by one of the expressions returned (no pruning options) -/
theorem extractSampled_sound (T : CharTable) (hT : Consistent T) (o : Opts) (cfg : SampleCfg) (pick : Pick)
    (hp : PickOK pick) (hprune : o.maxPatterns = none ∧ o.minStrings ≤ 1) (items : List (Option Line × Nat))
    (ps : List Pattern) (E : List Char) (w : Bool) (h : extractSampled T o cfg pick items = some (ps, E, w)) :
    ∀ s ∈ keptExamples o items, ∃ p ∈ ps, Matches T E (wrapWs w p) s := by
  sorry

/-- the loop ends within the fuel the model gives it: each pass that does not end the loop either uses up one of
    the sampled attempts or adds an example that was not among the working examples -/
theorem extractSampled_terminates (T : CharTable) (hT : Consistent T) (o : Opts)
    (hsz : 1 ≤ o.sizes.maxStringsInGroup) (cfg : SampleCfg) (pick : Pick) (hp : PickOK pick)
    (items : List (Option Line × Nat)) : ∃ r, extractSampled T o cfg pick items = some r := by
  sorry

/-- every returned pattern still matches one of the examples (it was extracted from working examples, which are examples) -/
theorem extractSampled_witness (T : CharTable) (hT : Consistent T) (o : Opts)
    (hsz : 1 ≤ o.sizes.maxStringsInGroup) (cfg : SampleCfg) (pick : Pick) (hp : PickOK pick)
    (items : List (Option Line × Nat)) (ps : List Pattern) (E : List Char) (w : Bool)
    (h : extractSampled T o cfg pick items = some (ps, E, w)) :
    ∀ p ∈ ps, ∃ s ∈ (clean o.stripOpt o.removeEmpties items).strings, Matches T E (wrapWs w p) s := by
  sorry

/-- below the thresholds nothing is sampled and the result is the batch result -/
theorem extractSampled_eq_extract (T : CharTable) (hT : Consistent T) (o : Opts) (hsz : 1 ≤ o.sizes.maxStringsInGroup)
    (cfg : SampleCfg) (pick : Pick)
    (items : List (Option Line × Nat))
    (hsmall : (clean o.stripOpt o.removeEmpties items).strings.length ≤ cfg.doAll) :
    extractSampled T o cfg pick items = extract T o items := by
  sorry

end TddaVerif.Props.C03.SampledLemmas
