/- Proofs about Model/TddaMeta.lean. -/
import TddaVerif.Model.TddaMeta

namespace TddaVerif.TddaMeta.Lemmas
open TddaVerif.TddaMeta

theorem foldl_assign_no_key (k : Key) (l : List (Key × MV)) (acc : MV) (h : ∀ e ∈ l, e.1 ≠ k) :
    l.foldl (assign k) acc = acc := by
  induction l generalizing acc with
  | nil => rfl
  | cons e es ih =>
    simp only [List.foldl_cons]
    have he : e.1 ≠ k := h e (List.mem_cons_self ..)
    have : assign k acc e = acc := by simp [assign, he]
    rw [this]
    exact ih acc (fun x hx => h x (List.mem_cons_of_mem _ hx))

theorem filterMap_congr' {α β} (f g : α → Option β) : ∀ (l : List α), (∀ x ∈ l, f x = g x) → l.filterMap f = l.filterMap g
  | [], _ => rfl
  | a :: l, h => by
    simp only [List.filterMap_cons, h a (List.mem_cons_self ..)]
    rw [filterMap_congr' f g l (fun x hx => h x (List.mem_cons_of_mem _ hx))]

theorem mem_getMeta_key (ks : List Key) (obj : Key → MV) (e : Key × MV) (h : e ∈ getMeta ks obj) : e.1 ∈ ks := by
  unfold getMeta at h
  obtain ⟨k, hk, hf⟩ := List.mem_filterMap.mp h
  split at hf
  · cases hf
  · cases hf; exact hk

theorem foldl_getMeta (ks : List Key) (hnd : ks.Nodup) (obj : Key → MV) (k : Key) (acc : MV) :
    (getMeta ks obj).foldl (assign k) acc = if k ∈ ks then (match obj k with | .null => acc | v => v) else acc := by
  induction ks generalizing acc with
  | nil => simp [getMeta]
  | cons a as ih =>
    have hna : a ∉ as := (List.nodup_cons.mp hnd).1
    have hnd' : as.Nodup := (List.nodup_cons.mp hnd).2
    have hcons : getMeta (a :: as) obj = (match obj a with | .null => [] | v => [(a, v)]) ++ getMeta as obj := by
      unfold getMeta
      simp only [List.filterMap_cons]
      cases obj a <;> simp
    rw [hcons, List.foldl_append]
    by_cases hka : k = a
    · subst hka
      have hrest : ∀ e ∈ getMeta as obj, e.1 ≠ k := fun e he hek => hna (hek ▸ mem_getMeta_key as obj e he)
      rw [foldl_assign_no_key k _ _ hrest]
      cases hobj : obj k <;> simp [assign]
    · have hfirst : (match obj a with | .null => [] | v => [(a, v)]).foldl (assign k) acc = acc := by
        cases obj a <;> simp [assign, Ne.symm hka]
      rw [hfirst, ih hnd' acc]
      simp [hka]

/-- **metadata round trip.** What is written after loading what was written is what was written: every known key whose
    value is not null comes back with its value - 0, an empty string and false included -/
theorem meta_roundtrip (keys : List Key) (hnd : keys.Nodup) (obj : Key → MV) :
    getMeta keys (loadMeta keys (getMeta keys obj)) = getMeta keys obj := by
  unfold getMeta
  apply filterMap_congr'
  intro k hk
  have := foldl_getMeta keys hnd obj k .null
  unfold getMeta at this
  simp only [loadMeta, hk, if_true, this]
  cases obj k <;> rfl

/-- a value that is not null is kept whatever it is (the guard is `is not None`, not truthiness) -/
theorem falsy_value_kept (keys : List Key) (k : Key) (hk : k ∈ keys) (t : List Char) :
    loadMeta keys [(k, .val t)] k = .val t := by
  simp [loadMeta, hk, assign]

/-- unknown keys and null values load nothing -/
theorem unknown_or_null_ignored (keys : List Key) (k k' : Key) (v : MV) (h : k' ∉ keys ∨ v = .null) :
    loadMeta keys [(k', v)] k = .null := by
  unfold loadMeta
  split
  · rename_i hk
    rcases h with h | h
    · have : k' ≠ k := fun e => h (e ▸ hk)
      simp [assign, this]
    · subst h; simp [assign]
  · rfl

end TddaVerif.TddaMeta.Lemmas
