/- Helper lemmas for C18 (coverage accounting). -/
import TddaVerif.Model.Coverage

namespace TddaVerif.Props.C18.Lemmas
open TddaVerif.Coverage

theorem coverage_exact (row : List (Bool × Nat)) :
    rexCoverage1 false row = ((row.filter (·.1)).map (·.2)).sum := by
  sorry

theorem coverage_dedup_exact (row : List (Bool × Nat)) :
    rexCoverage1 true row = (row.filter (·.1)).length := by
  sorry

theorem incr_terminates {α ε} [DecidableEq α] (m : α → ε → Bool) (pats : List α) (idx : List Nat)
    (exs : List ε) (freqs : List Nat) (hlen : freqs.length = exs.length) (sd : Bool) :
    ∃ r, fullIncr pats idx (bsOf m pats exs) freqs sd = some r := by
  sorry

theorem incr_sum_exact {α ε} [DecidableEq α] (m : α → ε → Bool) (pats : List α) (idx : List Nat)
    (exs : List ε) (freqs : List Nat) (hlen : freqs.length = exs.length)
    (hpos : ∀ f ∈ freqs, 0 < f) (sd : Bool) (r : List (α × Cov))
    (h : fullIncr pats idx (bsOf m pats exs) freqs sd = some r) :
    (r.map (·.2.incr)).sum
        = (((exs.zip freqs).filter (fun xf => pats.any (fun p => m p xf.1))).map (·.2)).sum
    ∧ (r.map (·.2.incrUniq)).sum
        = (exs.filter (fun x => pats.any (fun p => m p x))).length := by
  sorry

theorem incr_nonincreasing {α ε} [DecidableEq α] (m : α → ε → Bool) (pats : List α) (idx : List Nat)
    (exs : List ε) (freqs : List Nat) (hlen : freqs.length = exs.length) (sd : Bool)
    (r : List (α × Cov))
    (h : fullIncr pats idx (bsOf m pats exs) freqs sd = some r) :
    (r.map (fun kc => if sd then kc.2.incrUniq else kc.2.incr)).Pairwise (· ≥ ·) := by
  sorry

theorem incr_fields_exact {α ε} [DecidableEq α] (m : α → ε → Bool) (pats : List α) (idx : List Nat)
    (exs : List ε) (freqs : List Nat) (hlen : freqs.length = exs.length) (sd : Bool)
    (r : List (α × Cov))
    (h : fullIncr pats idx (bsOf m pats exs) freqs sd = some r) :
    (keys r).Nodup ∧
    ∀ kc ∈ r, kc.1 ∈ pats ∧
      kc.2.n = rexCoverage1 false ((exs.map (m kc.1)).zip freqs) ∧
      kc.2.nUniq = rexCoverage1 true ((exs.map (m kc.1)).zip freqs) := by
  sorry

end TddaVerif.Props.C18.Lemmas
