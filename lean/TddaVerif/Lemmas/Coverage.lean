/- Helper lemmas for C18 (coverage accounting).

   Proof idea: the loop state matrix is always `M m pats l` for a list `l` of
   (example, live frequency) pairs; zeroing the rows hit by pattern `k` is
   `kill m k l` (set the live frequency to 0).  `loopL_succ` unfolds one
   iteration in these terms, `loopL_ind` / `loopL_total` are the induction
   principles (partial / total correctness) used by all C18 theorems. -/
import TddaVerif.Model.Coverage

namespace TddaVerif.Props.C18.Lemmas
open TddaVerif.Coverage

theorem coverage_exact (row : List (Bool × Nat)) :
    rexCoverage1 false row = ((row.filter (·.1)).map (·.2)).sum := by
  induction row with
  | nil => rfl
  | cons a t ih =>
    obtain ⟨b, n⟩ := a
    cases b <;> simp_all [rexCoverage1]

theorem coverage_dedup_exact (row : List (Bool × Nat)) :
    rexCoverage1 true row = (row.filter (·.1)).length := by
  induction row with
  | nil => rfl
  | cons a t ih =>
    obtain ⟨b, n⟩ := a
    cases b <;> simp_all [rexCoverage1] <;> omega

/-! ### listMax / firstGE -/

theorem foldl_max_ge (l : List Nat) (a : Nat) : a ≤ l.foldl max a := by
  induction l generalizing a with
  | nil => simp
  | cons x xs ih => simp only [List.foldl_cons]; have := ih (max a x); omega

theorem foldl_max_mem_ge (l : List Nat) (a x : Nat) (hx : x ∈ l) : x ≤ l.foldl max a := by
  induction l generalizing a with
  | nil => simp at hx
  | cons y ys ih =>
    simp only [List.foldl_cons]
    rcases List.mem_cons.1 hx with rfl | h
    · have := foldl_max_ge ys (max a x); omega
    · exact ih _ h

theorem foldl_max_mem (l : List Nat) (a : Nat) : l.foldl max a = a ∨ l.foldl max a ∈ l := by
  induction l generalizing a with
  | nil => simp
  | cons y ys ih =>
    simp only [List.foldl_cons]
    rcases ih (max a y) with h | h
    · rw [h]
      by_cases hay : a ≤ y
      · right; rw [Nat.max_eq_right hay]; exact List.mem_cons_self
      · left; omega
    · right; exact List.mem_cons_of_mem _ h

theorem le_listMax {l : List Nat} {x : Nat} (hx : x ∈ l) : x ≤ listMax l :=
  foldl_max_mem_ge l 0 x hx

theorem listMax_mem {l : List Nat} (h : 0 < listMax l) : listMax l ∈ l := by
  rcases foldl_max_mem l 0 with h' | h'
  · unfold listMax at h; omega
  · exact h'

theorem firstGE_spec (l : List Nat) (t : Nat) (h : ∃ x ∈ l, t ≤ x) :
    firstGE l t < l.length ∧ t ≤ l.getD (firstGE l t) 0 := by
  induction l with
  | nil => simp at h
  | cons y ys ih =>
    simp only [firstGE]
    split
    · next hlt =>
      have : ∃ x ∈ ys, t ≤ x := by
        obtain ⟨x, hx, hxt⟩ := h
        rcases List.mem_cons.1 hx with rfl | hx'
        · omega
        · exact ⟨x, hx', hxt⟩
      have := ih this
      simpa using this
    · next hge => simp; omega

theorem firstGE_listMax (l : List Nat) (h : 0 < listMax l) :
    firstGE l (listMax l) < l.length ∧ l.getD (firstGE l (listMax l)) 0 = listMax l := by
  have hm := listMax_mem h
  have := firstGE_spec l (listMax l) ⟨_, hm, Nat.le_refl _⟩
  refine ⟨this.1, ?_⟩
  have h2 : l.getD (firstGE l (listMax l)) 0 ≤ listMax l := by
    apply le_listMax
    rw [List.getD_eq_getElem?_getD, List.getElem?_eq_getElem this.1]
    simp
  omega

/-- pigeonhole: a duplicate-free sublist-as-set of `l₂` that is at least as long covers `l₂`. -/
theorem subset_of_nodup_length_le {α} [DecidableEq α] {l₁ l₂ : List α} (h₁ : l₁.Nodup)
    (hsub : l₁ ⊆ l₂) (hlen : l₂.length ≤ l₁.length) : l₂ ⊆ l₁ := by
  induction l₁ generalizing l₂ with
  | nil => 
    have : l₂ = [] := List.eq_nil_of_length_eq_zero (by simpa using hlen)
    simp [this]
  | cons a t ih =>
    rw [List.nodup_cons] at h₁
    have ha : a ∈ l₂ := hsub List.mem_cons_self
    have htsub : t ⊆ l₂.erase a := by
      intro x hx
      have hxa : x ≠ a := fun h => h₁.1 (h ▸ hx)
      exact (List.mem_erase_of_ne hxa).2 (hsub (List.mem_cons_of_mem _ hx))
    have hl : (l₂.erase a).length = l₂.length - 1 := by rw [List.length_erase]; simp [ha]
    have hih := ih h₁.2 htsub (by rw [hl]; simp at hlen; omega)
    intro x hx
    by_cases hxa : x = a
    · simp [hxa]
    · exact List.mem_cons_of_mem _ (hih ((List.mem_erase_of_ne hxa).2 hx))

/-! ### The matrix as a function of the list of (example, live frequency) -/

section Mat
variable {α ε : Type _} (m : α → ε → Bool) (pats : List α)

/-- matrix whose row for `(x, f)` is `f if pattern matches x else 0`. -/
def M (l : List (ε × Nat)) : List (List Nat) :=
  l.map (fun xf => pats.map (fun p => if m p xf.1 then xf.2 else 0))

/-- column sum for pattern `k`. -/
def cs (k : α) (l : List (ε × Nat)) : Nat :=
  (l.map (fun xf => if m k xf.1 then xf.2 else 0)).sum

def dd1 (l : List (ε × Nat)) : List (ε × Nat) :=
  l.map (fun xf => (xf.1, if xf.2 ≠ 0 then 1 else 0))

def kill (k : α) (l : List (ε × Nat)) : List (ε × Nat) :=
  l.map (fun xf => (xf.1, if m k xf.1 then 0 else xf.2))

/-- the sort key of pattern `k` -/
def sk (sd : Bool) (k : α) (l : List (ε × Nat)) : Nat :=
  if sd then cs m k (dd1 l) else cs m k l

theorem matrixOf_bsOf (exs : List ε) (freqs : List Nat) :
    matrixOf (bsOf m pats exs) freqs = M m pats (exs.zip freqs) := by
  simp [matrixOf, bsOf, M, List.zip_map_left, List.map_map, Function.comp_def]

theorem dedupOf_M (l : List (ε × Nat)) : dedupOf (M m pats l) = M m pats (dd1 l) := by
  simp only [dedupOf, M, dd1, List.map_map, Function.comp_def]
  congr 1; funext xf; congr 1; funext p
  by_cases h : m p xf.1 = true <;> simp [h]

theorem dd1_kill (k : α) (l : List (ε × Nat)) : dd1 (kill m k l) = kill m k (dd1 l) := by
  simp only [dd1, kill, List.map_map, Function.comp_def]
  congr 1; funext xf
  by_cases h : m k xf.1 = true <;> simp [h]

theorem colSum_M (l : List (ε × Nat)) {p : Nat} {k : α} (h : pats[p]? = some k) :
    colSum (M m pats l) p = cs m k l := by
  simp [colSum, M, cs, List.map_map, Function.comp_def, List.getD_eq_getElem?_getD, h]

theorem length_totals (mx : List (List Nat)) (np : Nat) : (totals mx np).length = np := by
  simp [totals]

theorem totals_M (l : List (ε × Nat)) :
    totals (M m pats l) pats.length = pats.map (fun k => cs m k l) := by
  apply List.ext_getElem
  · simp [totals]
  · intro i h1 h2
    simp only [totals, List.getElem_map, List.getElem_range]
    apply colSum_M
    simp at h2
    simp [h2]

theorem zeroRows_M (l : List (ε × Nat)) {p : Nat} {k : α} (h : pats[p]? = some k) :
    zeroRows (M m pats l) (M m pats l) p pats.length = M m pats (kill m k l) := by
  simp only [zeroRows, M, kill, List.zip_map', List.map_map, Function.comp_def]
  apply List.map_congr_left
  intro xf _
  simp only [List.getD_eq_getElem?_getD, List.getElem?_map, h, Option.map_some, Option.getD_some]
  by_cases hk : m k xf.1 = true
  · simp only [hk, if_true]
    by_cases hf : xf.2 = 0
    · simp [hf]
    · simp [hf, List.map_const']
  · simp [hk]

theorem dedupOf_zeroRows (mx : List (List Nat)) (p np : Nat) :
    dedupOf (zeroRows mx mx p np) = zeroRows mx (dedupOf mx) p np := by
  simp only [dedupOf, zeroRows, List.map_map, Function.comp_def, List.zip_map_right]
  apply List.map_congr_left
  intro rr _
  by_cases h : rr.1[p]?.getD 0 = 0 <;> simp [h]

theorem cs_eq_zero_iff (k : α) (l : List (ε × Nat)) :
    cs m k l = 0 ↔ ∀ xf ∈ l, m k xf.1 = true → xf.2 = 0 := by
  simp only [cs, List.sum_eq_zero_iff_forall_eq_nat, List.mem_map]
  constructor
  · intro h xf hxf hm
    have := h _ ⟨xf, hxf, rfl⟩
    simpa [hm] using this
  · rintro h _ ⟨xf, hxf, rfl⟩
    by_cases hm : m k xf.1 = true
    · simp [hm, h xf hxf hm]
    · simp [hm]

theorem cs_dd1_eq_zero_iff (k : α) (l : List (ε × Nat)) :
    cs m k (dd1 l) = 0 ↔ ∀ xf ∈ l, m k xf.1 = true → xf.2 = 0 := by
  rw [cs_eq_zero_iff]
  simp only [dd1, List.mem_map]
  constructor
  · intro h xf hxf hm
    have := h _ ⟨xf, hxf, rfl⟩ hm
    simpa using this
  · rintro h _ ⟨xf, hxf, rfl⟩ hm
    simp [h xf hxf hm]

theorem sk_eq_zero_iff (sd : Bool) (k : α) (l : List (ε × Nat)) :
    sk m sd k l = 0 ↔ ∀ xf ∈ l, m k xf.1 = true → xf.2 = 0 := by
  unfold sk; split
  · exact cs_dd1_eq_zero_iff m k l
  · exact cs_eq_zero_iff m k l

theorem cs_kill_le (k k' : α) (l : List (ε × Nat)) : cs m k' (kill m k l) ≤ cs m k' l := by
  induction l with
  | nil => simp [cs, kill]
  | cons a t ih =>
    simp only [cs, kill, List.map_cons, List.sum_cons] at ih ⊢
    have : (if m k' a.1 = true then (if m k a.1 = true then 0 else a.2) else 0)
        ≤ (if m k' a.1 = true then a.2 else 0) := by
      split
      · split <;> omega
      · omega
    omega

theorem sk_kill_le (sd : Bool) (k k' : α) (l : List (ε × Nat)) :
    sk m sd k' (kill m k l) ≤ sk m sd k' l := by
  unfold sk; split
  · rw [dd1_kill]; exact cs_kill_le m k k' _
  · exact cs_kill_le m k k' l

theorem kill_zero (k : α) (l : List (ε × Nat)) :
    ∀ xf ∈ kill m k l, m k xf.1 = true → xf.2 = 0 := by
  simp only [kill, List.mem_map]
  rintro _ ⟨xf, _, rfl⟩ hm
  simp at hm; simp [hm]

theorem kill_zero_of_zero (k k' : α) (l : List (ε × Nat))
    (h : ∀ xf ∈ l, m k' xf.1 = true → xf.2 = 0) :
    ∀ xf ∈ kill m k l, m k' xf.1 = true → xf.2 = 0 := by
  simp only [kill, List.mem_map]
  rintro _ ⟨xf, hxf, rfl⟩ hm
  have := h xf hxf hm
  simp [this]

end Mat

/-! ### One unfolding of the loop -/

section Loop
variable {α ε : Type _} [DecidableEq α] (m : α → ε → Bool) (pats : List α)
  (idx pf pu : List Nat) (sd : Bool)

/-- the loop started from the matrix of `l` -/
def loopL (fuel : Nat) (l : List (ε × Nat)) (res : List (α × Cov)) : Option (List (α × Cov)) :=
  incrLoop pats idx pf pu sd fuel (M m pats l) (dedupOf (M m pats l)) res

def entry (p : Nat) (k : α) (l : List (ε × Nat)) : α × Cov :=
  (k, { n := pf.getD p 0, nUniq := pu.getD p 0, incr := cs m k l, incrUniq := cs m k (dd1 l),
        index := idx.getD p 0 })

omit [DecidableEq α] in
theorem sortTotals_eq (l : List (ε × Nat)) :
    (if sd = true then totals (dedupOf (M m pats l)) pats.length else totals (M m pats l) pats.length)
      = pats.map (fun k => sk m sd k l) := by
  cases sd <;> simp [sk, dedupOf_M, totals_M]

theorem loopL_succ (fuel : Nat) (l : List (ε × Nat)) (res : List (α × Cov)) :
    (loopL m pats idx pf pu sd (fuel + 1) l res = some res ∧
        (pats.length ≤ res.length ∨ ∀ k ∈ pats, sk m sd k l = 0))
    ∨ (res.length < pats.length ∧ ∃ p k, pats[p]? = some k ∧ 0 < sk m sd k l ∧
        (∀ k' ∈ pats, sk m sd k' l ≤ sk m sd k l) ∧
        loopL m pats idx pf pu sd (fuel + 1) l res =
          if k ∈ keys res then loopL m pats idx pf pu sd fuel l res
          else loopL m pats idx pf pu sd fuel (kill m k l) (res ++ [entry m idx pf pu p k l])) := by
  unfold loopL
  simp only [incrLoop]
  rw [sortTotals_eq]
  by_cases hlen : res.length < pats.length
  · by_cases ht : 0 < listMax (pats.map (fun k => sk m sd k l))
    · right
      obtain ⟨hp, hv⟩ := firstGE_listMax _ ht
      generalize firstGE (pats.map (fun k => sk m sd k l)) (listMax (pats.map (fun k => sk m sd k l))) = p at hp hv ⊢
      have hp' : p < pats.length := by simpa using hp
      have hk : pats[p]? = some pats[p] := List.getElem?_eq_getElem hp'
      have hv' : sk m sd pats[p] l = listMax (pats.map (fun k => sk m sd k l)) := by
        rw [← hv]; simp [List.getD_eq_getElem?_getD, hk]
      refine ⟨hlen, p, pats[p], hk, ?_, ?_, ?_⟩
      · omega
      · intro k' hk'
        rw [hv']
        exact le_listMax (List.mem_map.2 ⟨k', hk', rfl⟩)
      · simp only [hlen, ht, if_true, hk]
        rw [← dedupOf_zeroRows, zeroRows_M m pats l hk, dedupOf_M, totals_M, totals_M]
        simp [entry, List.getD_eq_getElem?_getD, hk]
    · left
      simp only [hlen, ht, if_true, if_false, true_and]
      right
      intro k hk
      have := le_listMax (List.mem_map.2 ⟨k, hk, rfl⟩ : sk m sd k l ∈ pats.map (fun k => sk m sd k l))
      omega
  · left
    simp only [hlen, if_false, true_and]
    left; omega

end Loop

/-! ### Induction principles for the loop -/

section LoopInd
variable {α ε : Type _} [DecidableEq α] (m : α → ε → Bool) (pats : List α)
  (idx pf pu : List Nat) (sd : Bool)

/-- partial correctness: an invariant preserved by productive steps holds at exit,
    together with the exit condition. -/
theorem loopL_ind (P : List (ε × Nat) → List (α × Cov) → Prop)
    (hstep : ∀ l res p k, P l res → res.length < pats.length → pats[p]? = some k → k ∉ keys res →
      0 < sk m sd k l → (∀ k' ∈ pats, sk m sd k' l ≤ sk m sd k l) →
      P (kill m k l) (res ++ [entry m idx pf pu p k l])) :
    ∀ fuel l res r, P l res → loopL m pats idx pf pu sd fuel l res = some r →
      ∃ l', P l' r ∧ (pats.length ≤ r.length ∨ ∀ k ∈ pats, sk m sd k l' = 0) := by
  intro fuel
  induction fuel with
  | zero => intro l res r _ h; simp [loopL, incrLoop] at h
  | succ n ih =>
    intro l res r hP h
    rcases loopL_succ m pats idx pf pu sd n l res with ⟨h1, h2⟩ | ⟨hlen, p, k, hk, hpos, hmax, heq⟩
    · rw [h1] at h; cases h; exact ⟨l, hP, h2⟩
    · rw [heq] at h
      by_cases hmem : k ∈ keys res
      · rw [if_pos hmem] at h; exact ih l res r hP h
      · rw [if_neg hmem] at h
        exact ih _ _ r (hstep l res p k hP hlen hk hmem hpos hmax) h

/-- total correctness: if moreover the sort key of every recorded pattern is zero,
    enough fuel always yields a result. -/
theorem loopL_total (P : List (ε × Nat) → List (α × Cov) → Prop)
    (hstep : ∀ l res p k, P l res → res.length < pats.length → pats[p]? = some k → k ∉ keys res →
      0 < sk m sd k l → (∀ k' ∈ pats, sk m sd k' l ≤ sk m sd k l) →
      P (kill m k l) (res ++ [entry m idx pf pu p k l]))
    (hkey : ∀ l res k, P l res → k ∈ keys res → sk m sd k l = 0) :
    ∀ fuel l res, P l res → 1 ≤ fuel → pats.length + 1 ≤ fuel + res.length →
      ∃ r, loopL m pats idx pf pu sd fuel l res = some r := by
  intro fuel
  induction fuel with
  | zero => intro l res _ h; omega
  | succ n ih =>
    intro l res hP _ hfuel
    rcases loopL_succ m pats idx pf pu sd n l res with ⟨h1, _⟩ | ⟨hlen, p, k, hk, hpos, hmax, heq⟩
    · exact ⟨res, h1⟩
    · rw [heq]
      by_cases hmem : k ∈ keys res
      · have := hkey l res k hP hmem; omega
      · rw [if_neg hmem]
        apply ih _ _ (hstep l res p k hP hlen hk hmem hpos hmax)
        · omega
        · simp; omega

/-- every recorded pattern has only dead rows left -/
def Dead (l : List (ε × Nat)) (res : List (α × Cov)) : Prop :=
  ∀ k ∈ keys res, ∀ xf ∈ l, m k xf.1 = true → xf.2 = 0

omit [DecidableEq α] in
theorem keys_append (res : List (α × Cov)) (e : α × Cov) : keys (res ++ [e]) = keys res ++ [e.1] := by
  simp [keys]

omit [DecidableEq α] in
theorem Dead.step {l : List (ε × Nat)} {res : List (α × Cov)} (h : Dead m l res) (k : α) (c : Cov) :
    Dead m (kill m k l) (res ++ [(k, c)]) := by
  intro k' hk'
  rw [keys_append, List.mem_append] at hk'
  rcases hk' with hk' | hk'
  · exact kill_zero_of_zero m k k' l (h k' hk')
  · simp at hk'; subst hk'; exact kill_zero m k' l

theorem fullIncr_eq (exs : List ε) (freqs : List Nat) :
    fullIncr pats idx (bsOf m pats exs) freqs sd =
      loopL m pats idx (totals (M m pats (exs.zip freqs)) pats.length)
        (totals (dedupOf (M m pats (exs.zip freqs))) pats.length) sd (pats.length + 1)
        (exs.zip freqs) [] := by
  simp only [fullIncr, matrices2incr, matrixOf_bsOf, loopL]

end LoopInd

set_option linter.unusedVariables false in
theorem incr_terminates {α ε} [DecidableEq α] (m : α → ε → Bool) (pats : List α) (idx : List Nat)
    (exs : List ε) (freqs : List Nat) (hlen : freqs.length = exs.length) (sd : Bool) :
    ∃ r, fullIncr pats idx (bsOf m pats exs) freqs sd = some r := by
  rw [fullIncr_eq]
  apply loopL_total m pats idx _ _ sd (Dead m)
  · intro l res p k hP _ _ _ _ _
    exact hP.step m k _
  · intro l res k hP hk
    exact (sk_eq_zero_iff m sd k l).2 (hP k hk)
  · intro k hk; simp [keys] at hk
  · omega
  · simp

/-! ### Non-increasing order -/

section Order
variable {α ε : Type _} [DecidableEq α] (m : α → ε → Bool) (pats : List α)
  (idx pf pu : List Nat) (sd : Bool)

def ckey (kc : α × Cov) : Nat := if sd then kc.2.incrUniq else kc.2.incr

omit [DecidableEq α] in
theorem ckey_entry (p : Nat) (k : α) (l : List (ε × Nat)) :
    ckey sd (entry m idx pf pu p k l) = sk m sd k l := by
  cases sd <;> simp [ckey, entry, sk]

theorem loopL_nonincreasing (fuel : Nat) (l : List (ε × Nat)) (r : List (α × Cov))
    (h : loopL m pats idx pf pu sd fuel l [] = some r) :
    (r.map (ckey sd)).Pairwise (· ≥ ·) := by
  obtain ⟨l', hP, _⟩ := loopL_ind m pats idx pf pu sd
    (fun l res => (res.map (ckey sd)).Pairwise (· ≥ ·) ∧
      ∀ kc ∈ res, ∀ k' ∈ pats, sk m sd k' l ≤ ckey sd kc)
    (by
      intro l res p k ⟨h1, h2⟩ _ hk _ _ hmax
      have hkp : k ∈ pats := List.mem_of_getElem? hk
      refine ⟨?_, ?_⟩
      · rw [List.map_append, List.pairwise_append]
        refine ⟨h1, by simp, ?_⟩
        intro a ha b hb
        simp only [List.map_cons, List.map_nil, List.mem_singleton] at hb
        obtain ⟨kc, hkc, rfl⟩ := List.mem_map.1 ha
        rw [hb, ckey_entry]
        exact h2 kc hkc k hkp
      · intro kc hkc k' hk'
        rcases List.mem_append.1 hkc with hkc | hkc
        · exact Nat.le_trans (sk_kill_le m sd k k' l) (h2 kc hkc k' hk')
        · simp only [List.mem_singleton] at hkc
          rw [hkc, ckey_entry]
          exact Nat.le_trans (sk_kill_le m sd k k' l) (hmax k' hk'))
    fuel l [] r ⟨by simp, by simp⟩ h
  exact hP.1

end Order

set_option linter.unusedVariables false in
theorem incr_nonincreasing {α ε} [DecidableEq α] (m : α → ε → Bool) (pats : List α) (idx : List Nat)
    (exs : List ε) (freqs : List Nat) (hlen : freqs.length = exs.length) (sd : Bool)
    (r : List (α × Cov))
    (h : fullIncr pats idx (bsOf m pats exs) freqs sd = some r) :
    (r.map (fun kc => if sd then kc.2.incrUniq else kc.2.incr)).Pairwise (· ≥ ·) := by
  rw [fullIncr_eq] at h
  exact loopL_nonincreasing m pats idx _ _ sd _ _ r h

/-! ### Field exactness -/

section Fields
variable {α ε : Type _} [DecidableEq α] (m : α → ε → Bool) (pats : List α)
  (idx : List Nat) (sd : Bool)

theorem loopL_fields (fuel : Nat) (l0 l : List (ε × Nat)) (r : List (α × Cov))
    (h : loopL m pats idx (totals (M m pats l0) pats.length)
      (totals (dedupOf (M m pats l0)) pats.length) sd fuel l [] = some r) :
    (keys r).Nodup ∧ ∀ kc ∈ r, kc.1 ∈ pats ∧ kc.2.n = cs m kc.1 l0 ∧
      kc.2.nUniq = cs m kc.1 (dd1 l0) := by
  obtain ⟨l', hP, _⟩ := loopL_ind m pats idx _ _ sd
    (fun _ res => (keys res).Nodup ∧ ∀ kc ∈ res, kc.1 ∈ pats ∧ kc.2.n = cs m kc.1 l0 ∧
      kc.2.nUniq = cs m kc.1 (dd1 l0))
    (by
      intro l res p k ⟨h1, h2⟩ _ hk hmem _ _
      have hkp : k ∈ pats := List.mem_of_getElem? hk
      refine ⟨?_, ?_⟩
      · rw [keys_append, List.nodup_append]
        refine ⟨h1, by simp, ?_⟩
        intro a ha b hb
        simp only [entry, List.mem_singleton] at hb
        rintro rfl; exact hmem (hb ▸ ha)
      · intro kc hkc
        rcases List.mem_append.1 hkc with hkc | hkc
        · exact h2 kc hkc
        · simp only [List.mem_singleton] at hkc
          subst hkc
          refine ⟨hkp, ?_, ?_⟩
          · simp [entry, totals_M, List.getD_eq_getElem?_getD, hk]
          · simp [entry, dedupOf_M, totals_M, List.getD_eq_getElem?_getD, hk])
    fuel l [] r ⟨by simp [keys], by simp⟩ h
  exact hP

end Fields

theorem cs_zip_eq {α ε} (m : α → ε → Bool) (k : α) (exs : List ε) (freqs : List Nat) :
    cs m k (exs.zip freqs) = rexCoverage1 false ((exs.map (m k)).zip freqs) := by
  simp [cs, rexCoverage1, List.zip_map_left, List.map_map, Function.comp_def]

theorem cs_dd1_zip_eq {α ε} (m : α → ε → Bool) (k : α) (exs : List ε) (freqs : List Nat)
    (hpos : ∀ f ∈ freqs, 0 < f) :
    cs m k (dd1 (exs.zip freqs)) = rexCoverage1 true ((exs.map (m k)).zip freqs) := by
  simp only [cs, dd1, rexCoverage1, List.zip_map_left, List.map_map, Function.comp_def]
  congr 1
  apply List.map_congr_left
  rintro ⟨x, f⟩ hxf
  have := hpos f (List.of_mem_zip hxf).2
  have hf : f ≠ 0 := by omega
  simp [hf]

set_option linter.unusedVariables false in
theorem incr_fields_exact {α ε} [DecidableEq α] (m : α → ε → Bool) (pats : List α) (idx : List Nat)
    (exs : List ε) (freqs : List Nat) (hlen : freqs.length = exs.length)
    (hpos : ∀ f ∈ freqs, 0 < f) (sd : Bool)
    (r : List (α × Cov))
    (h : fullIncr pats idx (bsOf m pats exs) freqs sd = some r) :
    (keys r).Nodup ∧
    ∀ kc ∈ r, kc.1 ∈ pats ∧
      kc.2.n = rexCoverage1 false ((exs.map (m kc.1)).zip freqs) ∧
      kc.2.nUniq = rexCoverage1 true ((exs.map (m kc.1)).zip freqs) := by
  rw [fullIncr_eq] at h
  obtain ⟨h1, h2⟩ := loopL_fields m pats idx sd _ _ _ r h
  refine ⟨h1, fun kc hkc => ?_⟩
  obtain ⟨ha, hb, hc⟩ := h2 kc hkc
  exact ⟨ha, by rw [hb, cs_zip_eq], by rw [hc, cs_dd1_zip_eq _ _ _ _ hpos]⟩

/-! ### The incremental counts add up -/

section Sum
variable {α ε : Type _} (m : α → ε → Bool) (pats : List α)

/-- total live frequency of the examples matched by some pattern -/
def alive (l : List (ε × Nat)) : Nat :=
  (l.map (fun xf => if pats.any (fun p => m p xf.1) then xf.2 else 0)).sum

theorem alive_kill {k : α} (hk : k ∈ pats) (l : List (ε × Nat)) :
    alive m pats l = cs m k l + alive m pats (kill m k l) := by
  induction l with
  | nil => simp [alive, cs, kill]
  | cons a t ih =>
    simp only [alive, cs, kill, List.map_cons, List.sum_cons] at ih ⊢
    by_cases hm : m k a.1 = true
    · have hany : pats.any (fun p => m p a.1) = true := List.any_eq_true.2 ⟨k, hk, hm⟩
      simp only [hm, hany, if_true]
      omega
    · have hm' : m k a.1 = false := by simpa using hm
      simp only [hm', Bool.false_eq_true, if_false]
      omega

/-- every row matched by some pattern is dead -/
def AllDead (l : List (ε × Nat)) : Prop :=
  ∀ k ∈ pats, ∀ xf ∈ l, m k xf.1 = true → xf.2 = 0

theorem AllDead.alive_eq_zero {l : List (ε × Nat)} (h : AllDead m pats l) : alive m pats l = 0 := by
  simp only [alive, List.sum_eq_zero_iff_forall_eq_nat, List.mem_map]
  rintro _ ⟨xf, hxf, rfl⟩
  split
  · next hany =>
    obtain ⟨k, hk, hm⟩ := List.any_eq_true.1 hany
    exact h k hk xf hxf hm
  · rfl

theorem AllDead.dd1 {l : List (ε × Nat)} (h : AllDead m pats l) : AllDead m pats (dd1 l) := by
  intro k hk xf hxf hm
  simp only [Lemmas.dd1, List.mem_map] at hxf
  obtain ⟨yf, hyf, rfl⟩ := hxf
  simp [h k hk yf hyf hm]

theorem alive_zip (exs : List ε) (freqs : List Nat) :
    alive m pats (exs.zip freqs)
      = (((exs.zip freqs).filter (fun xf => pats.any (fun p => m p xf.1))).map (·.2)).sum := by
  unfold alive
  induction exs.zip freqs with
  | nil => rfl
  | cons a t ih =>
    by_cases h : pats.any (fun p => m p a.1) = true
    · simp only [List.map_cons, List.sum_cons, List.filter_cons, h, if_true, ih]
    · simp only [List.map_cons, List.sum_cons, List.filter_cons, h, if_false, ih,
        Bool.false_eq_true, Nat.zero_add]

theorem alive_dd1_zip (exs : List ε) (freqs : List Nat) (hlen : freqs.length = exs.length)
    (hpos : ∀ f ∈ freqs, 0 < f) :
    alive m pats (dd1 (exs.zip freqs))
      = (exs.filter (fun x => pats.any (fun p => m p x))).length := by
  induction exs generalizing freqs with
  | nil => simp [alive, dd1]
  | cons x xs ih =>
    cases freqs with
    | nil => simp at hlen
    | cons f fs =>
      have hf : f ≠ 0 := by have := hpos f List.mem_cons_self; omega
      have ih' := ih fs (by simpa using hlen) (fun g hg => hpos g (List.mem_cons_of_mem _ hg))
      simp only [alive, dd1, List.zip_cons_cons, List.map_cons, List.sum_cons] at ih' ⊢
      by_cases h : pats.any (fun p => m p x) = true
      · simp only [h, if_pos hf, List.filter_cons_of_pos, List.length_cons, if_true]
        omega
      · simp only [h, List.filter_cons_of_neg, if_false, Bool.false_eq_true, not_false_eq_true]
        omega

variable [DecidableEq α] (idx pf pu : List Nat) (sd : Bool)

theorem loopL_sum (fuel : Nat) (l : List (ε × Nat)) (r : List (α × Cov))
    (h : loopL m pats idx pf pu sd fuel l [] = some r) :
    (r.map (·.2.incr)).sum = alive m pats l ∧
    (r.map (·.2.incrUniq)).sum = alive m pats (dd1 l) := by
  obtain ⟨l', ⟨hd, hn, hs, e1, e2⟩, hexit⟩ := loopL_ind m pats idx pf pu sd
    (fun l' res => Dead m l' res ∧ (keys res).Nodup ∧ (∀ k ∈ keys res, k ∈ pats) ∧
      (res.map (·.2.incr)).sum + alive m pats l' = alive m pats l ∧
      (res.map (·.2.incrUniq)).sum + alive m pats (dd1 l') = alive m pats (dd1 l))
    (by
      intro l' res p k ⟨hd, hn, hs, e1, e2⟩ _ hk hmem _ _
      have hkp : k ∈ pats := List.mem_of_getElem? hk
      refine ⟨hd.step m k _, ?_, ?_, ?_, ?_⟩
      · rw [keys_append, List.nodup_append]
        refine ⟨hn, by simp, ?_⟩
        intro a ha b hb
        simp only [entry, List.mem_singleton] at hb
        rintro rfl; exact hmem (hb ▸ ha)
      · intro k' hk'
        rw [keys_append, List.mem_append] at hk'
        rcases hk' with hk' | hk'
        · exact hs k' hk'
        · simp only [entry, List.mem_singleton] at hk'; exact hk' ▸ hkp
      · have := alive_kill m pats hkp l'
        simp only [List.map_append, List.sum_append_nat, List.map_cons, List.map_nil,
          List.sum_cons, List.sum_nil, entry]
        omega
      · have := alive_kill m pats hkp (dd1 l')
        rw [← dd1_kill] at this
        simp only [List.map_append, List.sum_append_nat, List.map_cons, List.map_nil,
          List.sum_cons, List.sum_nil, entry]
        omega)
    fuel l [] r ⟨by intro k hk; simp [keys] at hk, by simp [keys], by simp [keys], by simp, by simp⟩ h
  have hall : AllDead m pats l' := by
    rcases hexit with hlen | hz
    · have hsub : pats ⊆ keys r :=
        subset_of_nodup_length_le hn (fun k hk => hs k hk) (by simpa [keys] using hlen)
      intro k hk
      exact hd k (hsub hk)
    · intro k hk
      exact (sk_eq_zero_iff m sd k l').1 (hz k hk)
  have z1 := hall.alive_eq_zero
  have z2 := hall.dd1.alive_eq_zero
  omega

end Sum

theorem incr_sum_exact {α ε} [DecidableEq α] (m : α → ε → Bool) (pats : List α) (idx : List Nat)
    (exs : List ε) (freqs : List Nat) (hlen : freqs.length = exs.length)
    (hpos : ∀ f ∈ freqs, 0 < f) (sd : Bool) (r : List (α × Cov))
    (h : fullIncr pats idx (bsOf m pats exs) freqs sd = some r) :
    (r.map (·.2.incr)).sum
        = (((exs.zip freqs).filter (fun xf => pats.any (fun p => m p xf.1))).map (·.2)).sum
    ∧ (r.map (·.2.incrUniq)).sum
        = (exs.filter (fun x => pats.any (fun p => m p x))).length := by
  rw [fullIncr_eq] at h
  obtain ⟨h1, h2⟩ := loopL_sum m pats idx _ _ sd _ _ r h
  exact ⟨by rw [h1, alive_zip], by rw [h2, alive_dd1_zip m pats exs freqs hlen hpos]⟩

end TddaVerif.Props.C18.Lemmas
