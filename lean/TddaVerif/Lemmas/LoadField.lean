import TddaVerif.Model.TddaFile
namespace TddaVerif.Props.C09.Aux
open TddaVerif.Py TddaVerif.TddaFile

/-- one step of the `loadField` fold -/
def step (name : Line) (isDate : Bool) (acc : List Con × List (Line × Line)) (kv : Line × JVal) :
    Except LoadErr (List Con × List (Line × Line)) :=
  if standardKinds.contains kv.1 then
    match construct kv.1 kv.2 with
    | .error e => .error e
    | .ok con =>
      let con := if isDate && (kv.1 == lit "min" || kv.1 == lit "max") then reparseDate con else con
      .ok (putCon acc.1 con, acc.2)
  else if kv.1.head? == some '#' then .ok acc
  else .ok (acc.1, acc.2 ++ [(name, kv.1)])

def dictIsDate (c : List (Line × JVal)) : Bool :=
  loadField.lookupKindVal c == some (JVal.atom (.str (lit "date")))

theorem loadField_eq (name : Line) (c : List (Line × JVal)) :
    loadField name c = c.foldlM (step name (dictIsDate c)) ([], []) := rfl

theorem type_std : standardKinds.contains (lit "type") = true := by decide

theorem dictIsDate_filter (c : List (Line × JVal)) :
    dictIsDate (c.filter (fun kv => standardKinds.contains kv.1)) = dictIsDate c := by
  unfold dictIsDate loadField.lookupKindVal
  rw [List.find?_filter]
  congr 3
  funext kv
  by_cases h : kv.1 = lit "type"
  · have := type_std; simp [h] at this ⊢; exact this
  · simp [h]

theorem foldlM_filter_fst (name : Line) (isDate : Bool) (c : List (Line × JVal)) :
    ∀ (acc acc' : List Con × List (Line × Line)), acc.1 = acc'.1 →
    (c.foldlM (step name isDate) acc).map (·.1) =
      ((c.filter (fun kv => standardKinds.contains kv.1)).foldlM (step name isDate) acc').map (·.1) := by
  induction c with
  | nil => intro acc acc' h; simp [List.foldlM, pure, Except.pure, Except.map, h]
  | cons kv rest ih =>
    intro acc acc' h
    by_cases hs : standardKinds.contains kv.1 = true
    · rw [List.filter_cons, if_pos (by exact hs), List.foldlM_cons, List.foldlM_cons]
      unfold step
      simp only [hs, if_true]
      cases hc : construct kv.1 kv.2 with
      | error e => rfl
      | ok con =>
        simp only [h]
        exact ih _ _ rfl
    · rw [List.filter_cons, if_neg (by exact hs), List.foldlM_cons]
      unfold step
      simp only [hs]
      by_cases hh : (kv.1.head? == some '#') = true
      · simp only [hh, if_true]
        exact ih _ _ h
      · simp only [hh]
        exact ih _ _ h

theorem unknown_ignored (name : Line) (c : List (Line × JVal)) :
    (loadField name c).map (·.1) =
      (loadField name (c.filter (fun kv => standardKinds.contains kv.1))).map (·.1) := by
  rw [loadField_eq, loadField_eq, dictIsDate_filter]
  exact foldlM_filter_fst name _ c _ _ rfl

theorem hash_key_silent (name : Line) (pre post : List (Line × JVal)) (k : Line) (v : JVal)
    (hk : k.head? = some '#') (hs : standardKinds.contains k = false) :
    loadField name (pre ++ (k, v) :: post) = loadField name (pre ++ post) := by
  have hkt : (k == lit "type") = false := by
    cases hkt : k == lit "type" with
    | false => rfl
    | true =>
      have : k = lit "type" := by simpa using hkt
      rw [this] at hs; rw [type_std] at hs; cases hs
  have hd : dictIsDate (pre ++ (k, v) :: post) = dictIsDate (pre ++ post) := by
    unfold dictIsDate loadField.lookupKindVal
    rw [List.find?_append, List.find?_append, List.find?_cons]
    simp only [hkt]
  rw [loadField_eq, loadField_eq, hd, List.foldlM_append, List.foldlM_append]
  congr 1
  funext acc
  rw [List.foldlM_cons]
  have : step name (dictIsDate (pre ++ post)) acc (k, v) = .ok acc := by
    unfold step
    simp only [hs, hk, Bool.false_eq_true, if_false, beq_self_eq_true, if_true]
  rw [this]
  rfl

end TddaVerif.Props.C09.Aux
