/- Helper lemmas for C09 (.tdda round trip). Statements mirror Props/C09.lean.
   Date text: Lemmas/DateText.lean; strip_lines: Lemmas/StripLines.lean; unknown keys: Lemmas/LoadField.lean. -/
import TddaVerif.Model.TddaFile
import TddaVerif.Lemmas.DateText
import TddaVerif.Lemmas.LoadField
import TddaVerif.Lemmas.StripLines

namespace TddaVerif.Props.C09.Lemmas
open TddaVerif.Py TddaVerif.TddaFile

/-- the field's own `type` constraint is the string `date` -/
def isDateField (cs : List Con) : Bool :=
  (cs.find? (fun c => c.kind == lit "type")).map (·.value) == some (JVal.atom (.str (lit "date")))

def isBound (k : Line) : Bool := k == lit "min" || k == lit "max"

/-- a well-formed in-memory constraint (in a field that is / is not a date field) -/
def WFCon (isDate : Bool) (c : Con) : Bool :=
  standardKinds.contains c.kind &&
  -- shape of the value: an atom or a list of non-datetime atoms, never a dict
  (match c.value with
   | .atom (.datetime t) => isDate && isBound c.kind && t.valid
   | .atom (.str s) => !(isDate && isBound c.kind) || (match getDate s with | .ok _ => false | _ => true)
   | .atom _ => true
   | .list xs => xs.all (fun a => match a with | .datetime _ => false | _ => true)
   | .dict _ => false) &&
  -- precision only on min / max, from the documented set, and only on atom-valued bounds
  (match c.precision with
   | none => true
   | some p => isBound c.kind && precisions.contains p &&
               (match c.value with | .atom _ => true | _ => false)) &&
  -- enumerated values
  (if c.kind == lit "sign" then (match c.value with | .atom a => validEnum signs a | _ => false)
   else if c.kind == lit "type" then
     (match c.value with
      | .atom a => validEnum types a
      | .list xs => xs.all (fun a => match a with | .str s => types.contains s | _ => false)
      | _ => false)
   else if c.kind == lit "no_duplicates" then
     (match c.value with | .atom .null | .atom (.bool _) => true | _ => false)
   else if c.kind == lit "rex" then
     (match c.value with | .atom .null | .list _ => true | _ => false)
   else true)

/-- a well-formed field: at least one constraint, one per kind -/
def WFField (cs : List Con) : Bool :=
  !cs.isEmpty && (cs.map (·.kind)).eraseDups.length == cs.length && cs.all (WFCon (isDateField cs))

/-- a well-formed constraint set: distinct field names, well-formed fields -/
def WFSet (fields : List (Line × List Con)) : Prop :=
  (fields.map (·.1)).Nodup ∧ ∀ f ∈ fields, WFField f.2 = true

/-- the constraints of a field in the preferred key order -/
def canonField (cs : List Con) : List Con :=
  (toPreferredOrder (cs.map (·.kind)) standardKinds).filterMap (fun k => cs.find? (fun c => c.kind == k))

def canonSet (fields : List (Line × List Con)) : List (Line × List Con) :=
  fields.map (fun f => (f.1, canonField f.2))

theorem getDate_strDatetime (t : Civil) (h : t.valid = true) : getDate (strDatetime t) = .ok t :=
  Aux.getDate_strDatetime t h

theorem construct_dict (kind : Line) (a : Atom) (p : Line) (hb : isBound kind = true)
    (hp : precisions.contains p = true) :
    construct kind (.dict [(lit "value", a), (lit "precision", .str p)])
      = .ok ⟨kind, .atom a, some p⟩ := by
  have h1 : acceptsPrecision kind = true := hb
  have h2 : (kind == lit "min" || kind == lit "max") = true := hb
  have e1 : (lit "precision" == lit "value") = false := by decide
  have e2 : (lit "value" == lit "precision") = false := by decide
  have e3 : (lit "precision" == lit "comment") = false := by decide
  unfold construct
  simp only [List.any, lookupKw, List.find?, beq_self_eq_true, h1, h2, e1, e2, e3, Bool.true_or, Bool.not_true,
    Bool.and_true, Bool.or_true, Bool.or_false, Bool.false_and, if_true, Option.map]
  simpa using hp


/-- the enumerated-value clause of `WFCon` -/
def enumOK (kind : Line) (value : JVal) : Bool :=
  (if kind == lit "sign" then (match value with | .atom a => validEnum signs a | _ => false)
   else if kind == lit "type" then
     (match value with
      | .atom a => validEnum types a
      | .list xs => xs.all (fun a => match a with | .str s => types.contains s | _ => false)
      | _ => false)
   else if kind == lit "no_duplicates" then
     (match value with | .atom .null | .atom (.bool _) => true | _ => false)
   else if kind == lit "rex" then
     (match value with | .atom .null | .list _ => true | _ => false)
   else true)

theorem construct_plain (kind : Line) (v : JVal) (hv : ∀ kvs, v ≠ .dict kvs)
    (h : isBound kind = true ∨ enumOK kind v = true) :
    construct kind v = .ok ⟨kind, v, none⟩ := by
  by_cases hb : (kind == lit "min" || kind == lit "max") = true
  · unfold construct
    cases v with
    | dict kvs => exact absurd rfl (hv kvs)
    | atom a => simp only [hb, if_true]
    | list xs => simp only [hb, if_true]
  · have he : enumOK kind v = true := by
      rcases h with h | h
      · exact absurd h hb
      · exact h
    unfold enumOK at he
    unfold construct
    by_cases h1 : (kind == lit "sign") = true
    · simp only [h1, if_true] at he
      cases v with
      | dict kvs => exact absurd rfl (hv kvs)
      | atom a => simp only [hb, h1, if_true]; simp only at he; simp [he]
      | list xs => simp at he
    · by_cases h2 : (kind == lit "type") = true
      · simp only [h1, h2, if_true, Bool.false_eq_true, if_false] at he
        cases v with
        | dict kvs => exact absurd rfl (hv kvs)
        | atom a => simp only [hb, h1, h2, if_true]; simp only at he; simp [he]
        | list xs => simp only [hb, h1, h2, if_true, Bool.false_eq_true, if_false]; simp only at he; exact if_pos he
      · by_cases h3 : (kind == lit "no_duplicates") = true
        · simp only [h1, h2, h3, if_true, Bool.false_eq_true, if_false] at he
          cases v with
          | dict kvs => exact absurd rfl (hv kvs)
          | atom a => cases a <;> simp_all
          | list xs => simp at he
        · by_cases h4 : (kind == lit "rex") = true
          · simp only [h1, h2, h3, h4, if_true, Bool.false_eq_true, if_false] at he
            cases v with
            | dict kvs => exact absurd rfl (hv kvs)
            | atom a => cases a <;> simp_all
            | list xs => simp_all
          · cases v with
            | dict kvs => exact absurd rfl (hv kvs)
            | atom a => simp only [hb, h1, h2, h3, h4]; rfl
            | list xs => simp only [hb, h1, h2, h3, h4]; rfl


/-- the value-shape clause of `WFCon` -/
def valOK (isDate : Bool) (kind : Line) (value : JVal) : Bool :=
  (match value with
   | .atom (.datetime t) => isDate && isBound kind && t.valid
   | .atom (.str s) => !(isDate && isBound kind) || (match getDate s with | .ok _ => false | _ => true)
   | .atom _ => true
   | .list xs => xs.all (fun a => match a with | .datetime _ => false | _ => true)
   | .dict _ => false)

def precOK (kind : Line) (value : JVal) (prec : Option Line) : Bool :=
  (match prec with
   | none => true
   | some p => isBound kind && precisions.contains p &&
               (match value with | .atom _ => true | _ => false))

theorem WFCon_iff (isDate : Bool) (c : Con) :
    WFCon isDate c = true ↔
      (standardKinds.contains c.kind = true ∧ valOK isDate c.kind c.value = true ∧
        precOK c.kind c.value c.precision = true ∧ enumOK c.kind c.value = true) := by
  unfold WFCon
  rw [Bool.and_eq_true, Bool.and_eq_true, Bool.and_eq_true]
  constructor
  · rintro ⟨⟨⟨h1, h2⟩, h3⟩, h4⟩; exact ⟨h1, h2, h3, h4⟩
  · rintro ⟨h1, h2, h3, h4⟩; exact ⟨⟨⟨h1, h2⟩, h3⟩, h4⟩

/-- the date re-parse undoes the rendering of an atom -/
theorem reparse_render (isDate : Bool) (kind : Line) (a : Atom) (prec : Option Line)
    (h : valOK isDate kind (.atom a) = true) :
    (if (isDate && (kind == lit "min" || kind == lit "max")) = true
      then reparseDate ⟨kind, .atom (renderAtom a), prec⟩ else ⟨kind, .atom (renderAtom a), prec⟩)
      = (⟨kind, .atom a, prec⟩ : Con) := by
  cases a with
  | datetime t =>
    simp only [valOK, Bool.and_eq_true] at h
    have hc : (isDate && (kind == lit "min" || kind == lit "max")) = true := by
      rw [Bool.and_eq_true]; exact h.1
    rw [if_pos hc]
    simp only [renderAtom, reparseDate, getDate_strDatetime t h.2]
  | str s =>
    by_cases hc : (isDate && (kind == lit "min" || kind == lit "max")) = true
    · rw [if_pos hc]
      have hc' : (isDate && isBound kind) = true := hc
      simp only [valOK, hc', Bool.not_true, Bool.false_or] at h
      simp only [renderAtom, reparseDate]
      cases hg : getDate s with
      | ok t => rw [hg] at h; simp at h
      | notDate => rfl
      | invalid => rfl
    · rw [if_neg hc]; rfl
  | null => split <;> rfl
  | bool b => split <;> rfl
  | int n => split <;> rfl
  | float r => split <;> rfl

theorem step_conToDict (name : Line) (isDate : Bool) (acc : List Con × List (Line × Line)) (c : Con)
    (hwf : WFCon isDate c = true) :
    Aux.step name isDate acc (c.kind, conToDict c) = .ok (putCon acc.1 c, acc.2) := by
  obtain ⟨h1, h2, h3, h4⟩ := (WFCon_iff isDate c).mp hwf
  obtain ⟨kind, value, prec⟩ := c
  simp only at h1 h2 h3 h4
  unfold Aux.step
  simp only [h1, if_true]
  cases prec with
  | some p =>
    simp only [precOK, Bool.and_eq_true] at h3
    obtain ⟨⟨hb, hp⟩, hv⟩ := h3
    cases value with
    | atom a =>
      have e : conToDict ⟨kind, .atom a, some p⟩ = .dict [(lit "value", renderAtom a), (lit "precision", .str p)] := rfl
      rw [e, construct_dict kind _ p hb hp]
      simp only
      rw [reparse_render isDate kind a (some p) h2]
    | list xs => simp at hv
    | dict kvs => simp at hv
  | none =>
    cases value with
    | dict kvs => simp [valOK] at h2
    | list xs =>
      have e : conToDict ⟨kind, .list xs, none⟩ = .list xs := rfl
      rw [e, construct_plain kind _ (by intro kvs; simp) (Or.inr h4)]
      simp only
      split <;> rfl
    | atom a =>
      have e : conToDict ⟨kind, .atom a, none⟩ = .atom (renderAtom a) := rfl
      have hcp : construct kind (.atom (renderAtom a)) = .ok ⟨kind, .atom (renderAtom a), none⟩ := by
        apply construct_plain kind _ (by intro kvs; simp)
        cases a with
        | datetime t =>
          simp only [valOK, Bool.and_eq_true] at h2
          exact Or.inl h2.1.2
        | str s => exact Or.inr h4
        | null => exact Or.inr h4
        | bool b => exact Or.inr h4
        | int n => exact Or.inr h4
        | float r => exact Or.inr h4
      rw [e, hcp]
      simp only
      rw [reparse_render isDate kind a none h2]


/-! ### lists of constraints -/

theorem putCon_new (cs : List Con) (c : Con) (h : c.kind ∉ cs.map (·.kind)) : putCon cs c = cs ++ [c] := by
  unfold putCon
  have : cs.any (fun x => x.kind == c.kind) = false := by
    rw [List.any_eq_false]
    intro x hx hk
    apply h
    have : x.kind = c.kind := by simpa using hk
    rw [← this]
    exact List.mem_map_of_mem hx
  rw [this]; rfl

/-- the dictionary entry of one constraint -/
def entry (c : Con) : Line × JVal := (c.kind, conToDict c)

theorem fold_step (name : Line) (isDate : Bool) :
    ∀ (l : List Con) (acc : List Con × List (Line × Line)),
      (∀ c ∈ l, WFCon isDate c = true) → ((acc.1 ++ l).map (·.kind)).Nodup →
      (l.map entry).foldlM (Aux.step name isDate) acc = .ok (acc.1 ++ l, acc.2) := by
  intro l
  induction l with
  | nil => intro acc _ _; simp [pure, Except.pure]
  | cons c rest ih =>
    intro acc hwf hnd
    rw [List.map_cons, List.foldlM_cons]
    have hs : Aux.step name isDate acc (entry c) = .ok (putCon acc.1 c, acc.2) :=
      step_conToDict name isDate acc c (hwf c (List.mem_cons_self ..))
    rw [hs]
    have hnew : c.kind ∉ acc.1.map (·.kind) := by
      rw [List.map_append, List.map_cons] at hnd
      intro hmem
      have := (List.nodup_append.mp hnd).2.2 _ hmem _ (List.mem_cons_self ..)
      exact this rfl
    rw [putCon_new _ _ hnew]
    show List.foldlM (Aux.step name isDate) (acc.1 ++ [c], acc.2) (rest.map entry) = _
    rw [ih (acc.1 ++ [c], acc.2) (fun x hx => hwf x (List.mem_cons_of_mem _ hx))
      (by simpa [List.append_assoc] using hnd)]
    simp [List.append_assoc]

/-! ### the preferred order -/

theorem std_nodup : standardKinds.Nodup := by decide

theorem toPreferredOrder_std (keys : List Line) (h : ∀ k ∈ keys, standardKinds.contains k = true) :
    toPreferredOrder keys standardKinds = standardKinds.filter (fun k => keys.contains k) := by
  unfold toPreferredOrder
  have : keys.filter (fun k => !standardKinds.contains k) = [] := by
    rw [List.filter_eq_nil_iff]
    intro k hk
    have := h k hk
    simp only [this, Bool.not_true]; exact Bool.false_ne_true
  rw [this]
  simp [sortLines]

theorem find_kind (cs : List Con) (k : Line) (h : k ∈ cs.map (·.kind)) :
    ∃ c, cs.find? (fun c => c.kind == k) = some c ∧ c.kind = k ∧ c ∈ cs := by
  cases hf : cs.find? (fun c => c.kind == k) with
  | none =>
    rw [List.find?_eq_none] at hf
    obtain ⟨c, hc, rfl⟩ := List.mem_map.mp h
    exact absurd (by simp) (hf c hc)
  | some c =>
    refine ⟨c, rfl, ?_, List.mem_of_find?_eq_some hf⟩
    have := List.find?_some hf
    simpa using this

theorem find_of_nodup (l : List Con) (c : Con) (hn : (l.map (·.kind)).Nodup) (hc : c ∈ l) :
    l.find? (fun x => x.kind == c.kind) = some c := by
  induction l with
  | nil => cases hc
  | cons x xs ih =>
    rw [List.map_cons, List.nodup_cons] at hn
    rcases List.mem_cons.mp hc with rfl | hc'
    · simp
    · have hne : (x.kind == c.kind) = false := by
        cases hxc : x.kind == c.kind with
        | false => rfl
        | true =>
          have : x.kind = c.kind := by simpa using hxc
          exact absurd (this ▸ List.mem_map_of_mem hc') hn.1
      rw [List.find?_cons, hne]
      exact ih hn.2 hc'

/-- kinds all standard -/
def AllStd (cs : List Con) : Prop := ∀ c ∈ cs, standardKinds.contains c.kind = true

theorem canonField_eq (cs : List Con) (h : AllStd cs) :
    canonField cs = (standardKinds.filter (fun k => (cs.map (·.kind)).contains k)).filterMap
      (fun k => cs.find? (fun c => c.kind == k)) := by
  unfold canonField
  rw [toPreferredOrder_std]
  intro k hk
  obtain ⟨c, hc, rfl⟩ := List.mem_map.mp hk
  exact h c hc

theorem filterMap_find_kinds (cs : List Con) :
    ∀ (M : List Line), (∀ k ∈ M, k ∈ cs.map (·.kind)) →
      (M.filterMap (fun k => cs.find? (fun c => c.kind == k))).map (·.kind) = M := by
  intro M
  induction M with
  | nil => intro _; rfl
  | cons k M ih =>
    intro h
    obtain ⟨c, hf, hk, _⟩ := find_kind cs k (h k (List.mem_cons_self ..))
    rw [List.filterMap_cons, hf]
    simp only [List.map_cons, hk]
    rw [ih (fun k' hk' => h k' (List.mem_cons_of_mem _ hk'))]

theorem canonField_kinds (cs : List Con) (h : AllStd cs) :
    (canonField cs).map (·.kind) = standardKinds.filter (fun k => (cs.map (·.kind)).contains k) := by
  rw [canonField_eq cs h]
  apply filterMap_find_kinds
  intro k hk
  have := (List.mem_filter.mp hk).2
  simpa using this

theorem canonField_nodup (cs : List Con) (h : AllStd cs) : ((canonField cs).map (·.kind)).Nodup := by
  rw [canonField_kinds cs h]
  exact List.Pairwise.sublist List.filter_sublist std_nodup

theorem canonField_mem (cs : List Con) (c : Con) (hc : c ∈ canonField cs) :
    cs.find? (fun x => x.kind == c.kind) = some c := by
  unfold canonField at hc
  obtain ⟨k, _, hf⟩ := List.mem_filterMap.mp hc
  have : c.kind = k := by simpa using List.find?_some hf
  rw [this]; exact hf

theorem canonField_sub (cs : List Con) (c : Con) (hc : c ∈ canonField cs) : c ∈ cs :=
  List.mem_of_find?_eq_some (canonField_mem cs c hc)

theorem canonField_find (cs : List Con) (h : AllStd cs) (k : Line) :
    (canonField cs).find? (fun c => c.kind == k) = cs.find? (fun c => c.kind == k) := by
  cases hf : cs.find? (fun c => c.kind == k) with
  | none =>
    rw [List.find?_eq_none] at hf ⊢
    intro c hc
    exact hf c (canonField_sub cs c hc)
  | some c =>
    have hk : c.kind = k := by simpa using List.find?_some hf
    have hmem : c ∈ cs := List.mem_of_find?_eq_some hf
    have hcL : c ∈ canonField cs := by
      rw [canonField_eq cs h]
      refine List.mem_filterMap.mpr ⟨k, ?_, hf⟩
      rw [List.mem_filter]
      refine ⟨?_, ?_⟩
      · have := h c hmem
        rw [hk] at this
        simpa using this
      · have : k ∈ cs.map (·.kind) := hk ▸ List.mem_map_of_mem hmem
        simpa using this
    rw [← hk]
    exact find_of_nodup _ c (canonField_nodup cs h) hcL

theorem filterMap_congr' {α β : Type} (f g : α → Option β) :
    ∀ (l : List α), (∀ a ∈ l, f a = g a) → l.filterMap f = l.filterMap g := by
  intro l
  induction l with
  | nil => intro _; rfl
  | cons a l ih =>
    intro h
    rw [List.filterMap_cons, List.filterMap_cons, h a (List.mem_cons_self ..),
      ih (fun b hb => h b (List.mem_cons_of_mem _ hb))]

theorem fieldToDict_eq (cs : List Con) : fieldToDict cs = (canonField cs).map entry := by
  unfold fieldToDict canonField
  rw [List.map_filterMap]
  apply filterMap_congr'
  intro k _
  cases hf : cs.find? (fun c => c.kind == k) with
  | none => rfl
  | some c =>
    have hk : c.kind = k := by simpa using List.find?_some hf
    simp [entry, hk]

theorem isDateField_canon (cs : List Con) (h : AllStd cs) : isDateField (canonField cs) = isDateField cs := by
  unfold isDateField
  rw [canonField_find cs h]


/-! ### one field -/

theorem WFField_iff (cs : List Con) :
    WFField cs = true ↔ cs ≠ [] ∧ (cs.map (·.kind)).eraseDups.length = cs.length ∧
      ∀ c ∈ cs, WFCon (isDateField cs) c = true := by
  unfold WFField
  rw [Bool.and_eq_true, Bool.and_eq_true, List.all_eq_true]
  simp [and_assoc]

theorem WFField.allStd {cs : List Con} (h : WFField cs = true) : AllStd cs := by
  intro c hc
  exact ((WFCon_iff _ c).mp (((WFField_iff cs).mp h).2.2 c hc)).1

theorem canonField_ne_nil (cs : List Con) (h : AllStd cs) (hne : cs ≠ []) : canonField cs ≠ [] := by
  cases cs with
  | nil => exact absurd rfl hne
  | cons c rest =>
    intro hnil
    have hfind := canonField_find (c :: rest) h c.kind
    rw [hnil] at hfind
    simp at hfind

/-- the dictionary's own `type` entry tells whether the field is a date field -/
theorem dictIsDate_fieldToDict (cs : List Con) (h : WFField cs = true) :
    Aux.dictIsDate (fieldToDict cs) = isDateField cs := by
  have hstd := WFField.allStd h
  unfold Aux.dictIsDate loadField.lookupKindVal isDateField
  rw [fieldToDict_eq, List.find?_map]
  have : ((fun kv : Line × JVal => kv.1 == lit "type") ∘ entry) = (fun c : Con => c.kind == lit "type") := rfl
  rw [this, canonField_find cs hstd]
  cases hf : cs.find? (fun c => c.kind == lit "type") with
  | none => rfl
  | some c =>
    have hk : c.kind = lit "type" := by simpa using List.find?_some hf
    have hmem : c ∈ cs := List.mem_of_find?_eq_some hf
    obtain ⟨_, h2, h3, _⟩ := (WFCon_iff _ c).mp (((WFField_iff cs).mp h).2.2 c hmem)
    obtain ⟨kind, value, prec⟩ := c
    simp only at hk h2 h3
    subst hk
    have hnb : isBound (lit "type") = false := by decide
    have hprec : prec = none := by
      cases prec with
      | none => rfl
      | some p => simp [precOK, hnb] at h3
    subst hprec
    have hval : conToDict ⟨lit "type", value, none⟩ = value := by
      cases value with
      | atom a =>
        cases a with
        | datetime t => simp [valOK, hnb] at h2
        | _ => rfl
      | _ => rfl
    simp only [Option.map_some, entry, hval]

theorem loadField_fieldToDict (name : Line) (cs : List Con) (h : WFField cs = true) :
    loadField name (fieldToDict cs) = .ok (canonField cs, []) := by
  have hstd := WFField.allStd h
  rw [Aux.loadField_eq, dictIsDate_fieldToDict cs h, fieldToDict_eq]
  have := fold_step name (isDateField cs) (canonField cs) ([], [])
    (fun c hc => ((WFField_iff cs).mp h).2.2 c (canonField_sub cs c hc))
    (by simpa using canonField_nodup cs hstd)
  simpa using this

/-! ### the whole set -/

/-- one step of the `fromDict` fold -/
def stepF (acc : Loaded) (f : Line × List (Line × JVal)) : Except LoadErr Loaded :=
  match loadField f.1 f.2 with
  | .error e => .error e
  | .ok (cs, ws) =>
    .ok { fields := if cs.isEmpty then acc.fields else putField acc.fields f.1 cs,
          warnings := acc.warnings ++ ws }

theorem fromDict_eq (d : List (Line × List (Line × JVal))) :
    fromDict d = d.foldlM stepF { fields := [], warnings := [] } := rfl

theorem putField_new (fs : List (Line × List Con)) (name : Line) (cs : List Con)
    (h : name ∉ fs.map (·.1)) : putField fs name cs = fs ++ [(name, cs)] := by
  unfold putField
  have : fs.any (fun f => f.1 == name) = false := by
    rw [List.any_eq_false]
    intro x hx hk
    apply h
    have : x.1 = name := by simpa using hk
    rw [← this]
    exact List.mem_map_of_mem hx
  rw [this]; rfl

theorem fold_fields :
    ∀ (fs : List (Line × List Con)) (acc : Loaded),
      (∀ f ∈ fs, WFField f.2 = true) → ((acc.fields ++ fs).map (·.1)).Nodup →
      (toDict fs).foldlM stepF acc = .ok { fields := acc.fields ++ canonSet fs, warnings := acc.warnings } := by
  intro fs
  induction fs with
  | nil => intro acc _ _; simp [toDict, canonSet, pure, Except.pure]
  | cons f rest ih =>
    intro acc hwf hnd
    have hf := hwf f (List.mem_cons_self ..)
    have hstd := WFField.allStd hf
    have hne : (canonField f.2).isEmpty = false := by
      have := canonField_ne_nil f.2 hstd ((WFField_iff f.2).mp hf).1
      cases hc : canonField f.2 with
      | nil => exact absurd hc this
      | cons _ _ => rfl
    have hnew : f.1 ∉ acc.fields.map (·.1) := by
      rw [List.map_append, List.map_cons] at hnd
      intro hmem
      exact (List.nodup_append.mp hnd).2.2 _ hmem _ (List.mem_cons_self ..) rfl
    have hs : stepF acc (f.1, fieldToDict f.2) =
        .ok { fields := acc.fields ++ [(f.1, canonField f.2)], warnings := acc.warnings } := by
      unfold stepF
      simp only [loadField_fieldToDict f.1 f.2 hf, hne, putField_new _ _ _ hnew, List.append_nil]
      rfl
    show List.foldlM stepF acc ((f.1, fieldToDict f.2) :: toDict rest) = _
    rw [List.foldlM_cons, hs]
    show List.foldlM stepF { fields := acc.fields ++ [(f.1, canonField f.2)], warnings := acc.warnings }
      (toDict rest) = _
    rw [ih _ (fun x hx => hwf x (List.mem_cons_of_mem _ hx)) (by simpa [List.append_assoc] using hnd)]
    simp [canonSet, List.append_assoc]

theorem load_dump (fields : List (Line × List Con)) (hwf : WFSet fields) :
    fromDict (toDict fields) = .ok { fields := canonSet fields, warnings := [] } := by
  rw [fromDict_eq]
  have := fold_fields fields { fields := [], warnings := [] } hwf.2 (by simpa using hwf.1)
  simpa using this

theorem nodup_eraseDups : ∀ (l : List Line), l.Nodup → l.eraseDups = l := by
  intro l
  induction l with
  | nil => intro _; rfl
  | cons a l ih =>
    intro h
    rw [List.nodup_cons] at h
    rw [List.eraseDups_cons]
    have : l.filter (fun b => !b == a) = l := by
      rw [List.filter_eq_self]
      intro b hb
      have : b ≠ a := fun e => h.1 (e ▸ hb)
      simpa using this
    rw [this, ih h.2]

theorem canonField_canon (cs : List Con) (h : AllStd cs) : canonField (canonField cs) = canonField cs := by
  have hstd' : AllStd (canonField cs) := fun c hc => h c (canonField_sub cs c hc)
  rw [canonField_eq (canonField cs) hstd', canonField_kinds cs h, canonField_eq cs h]
  have hfilt : (standardKinds.filter (fun k =>
      (standardKinds.filter (fun k => (cs.map (·.kind)).contains k)).contains k))
      = standardKinds.filter (fun k => (cs.map (·.kind)).contains k) := by
    apply List.filter_congr
    intro k hk
    cases hc : (cs.map (·.kind)).contains k with
    | false =>
      rw [List.contains_eq_mem, decide_eq_false_iff_not, List.mem_filter]
      rintro ⟨_, h2⟩
      rw [hc] at h2; cases h2
    | true =>
      rw [List.contains_eq_mem, decide_eq_true_eq, List.mem_filter]
      exact ⟨hk, hc⟩
  rw [hfilt]
  apply filterMap_congr'
  intro k _
  rw [← canonField_eq cs h]
  exact canonField_find cs h k

theorem WFField_canon (cs : List Con) (h : WFField cs = true) : WFField (canonField cs) = true := by
  have hstd := WFField.allStd h
  obtain ⟨hne, _, hall⟩ := (WFField_iff cs).mp h
  rw [WFField_iff]
  refine ⟨canonField_ne_nil cs hstd hne, ?_, ?_⟩
  · rw [nodup_eraseDups _ (canonField_nodup cs hstd), List.length_map]
  · intro c hc
    rw [isDateField_canon cs hstd]
    exact hall c (canonField_sub cs c hc)

theorem dump_load_dump (fields : List (Line × List Con)) (hwf : WFSet fields) :
    toDict (canonSet fields) = toDict fields ∧ WFSet (canonSet fields) := by
  refine ⟨?_, ?_, ?_⟩
  · unfold toDict canonSet
    rw [List.map_map]
    apply List.map_congr_left
    intro f hf
    have hstd := WFField.allStd (hwf.2 f hf)
    simp only [Function.comp]
    rw [fieldToDict_eq, fieldToDict_eq, canonField_canon f.2 hstd]
  · have : (canonSet fields).map (·.1) = fields.map (·.1) := by
      unfold canonSet; rw [List.map_map]; rfl
    rw [this]; exact hwf.1
  · intro f hf
    unfold canonSet at hf
    obtain ⟨g, hg, rfl⟩ := List.mem_map.mp hf
    exact WFField_canon g.2 (hwf.2 g hg)

theorem same_constraints (fields : List (Line × List Con)) (hwf : WFSet fields) (name kind : Line) :
    (((canonSet fields).find? (fun f => f.1 == name)).bind (fun f => f.2.find? (fun c => c.kind == kind)))
      = ((fields.find? (fun f => f.1 == name)).bind (fun f => f.2.find? (fun c => c.kind == kind))) := by
  unfold canonSet
  rw [List.find?_map]
  have : ((fun f : Line × List Con => f.1 == name) ∘ (fun f : Line × List Con => (f.1, canonField f.2)))
      = (fun f : Line × List Con => f.1 == name) := rfl
  rw [this]
  cases hf : fields.find? (fun f => f.1 == name) with
  | none => rfl
  | some f =>
    have hmem : f ∈ fields := List.mem_of_find?_eq_some hf
    have hstd := WFField.allStd (hwf.2 f hmem)
    simp only [Option.map_some, Option.bind_some]
    exact canonField_find f.2 hstd kind

theorem unknown_ignored (name : Line) (c : List (Line × JVal)) :
    (loadField name c).map (·.1) =
      (loadField name (c.filter (fun kv => standardKinds.contains kv.1))).map (·.1) :=
  Aux.unknown_ignored name c

theorem hash_key_silent (name : Line) (pre post : List (Line × JVal)) (k : Line) (v : JVal)
    (hk : k.head? = some '#') (hs : standardKinds.contains k = false) :
    loadField name (pre ++ (k, v) :: post) = loadField name (pre ++ post) :=
  Aux.hash_key_silent name pre post k v hk hs

theorem stripLines_no_trailing_ws (s : Line) :
    ∀ l ∈ splitNl (stripLines s) [], rstrip l = l :=
  Aux.stripLines_no_trailing_ws s

theorem stripLines_id (s : Line) (h : ∀ l ∈ splitNl s [], rstrip l = l) : stripLines s = s :=
  Aux.stripLines_id s h

theorem stripLines_lines (s : Line) :
    (splitNl (stripLines s) []).length = (splitNl s []).length :=
  Aux.stripLines_lines s

end TddaVerif.Props.C09.Lemmas
