/- Helper lemmas for C09 (.tdda round trip). Statements mirror Props/C09.lean. -/
import TddaVerif.Model.TddaFile

namespace TddaVerif.Props.C09.Lemmas
open TddaVerif.Py TddaVerif.TddaFile

/-- the field's own `type` constraint is the string `date` -/
def isDateField (cs : List Con) : Bool :=
  (cs.find? (fun c => c.kind == lit "type")).map (·.value) == some (JVal.atom (.str (lit "date")))

def isBound (k : Line) : Bool := k == lit "min" || k == lit "max"

/-- a well-formed in-memory constraint (in a field that is / is not a date field) -/
def WFCon (isDate : Bool) (c : Con) : Bool :=
  standardKinds.contains c.kind &&
  -- shape of the value: an atom or a list of non-datetime atoms, never a dict
  (match c.value with
   | .atom (.datetime t) => isDate && isBound c.kind && t.valid
   | .atom (.str s) => !(isDate && isBound c.kind) || (match getDate s with | .ok _ => false | _ => true)
   | .atom _ => true
   | .list xs => xs.all (fun a => match a with | .datetime _ => false | _ => true)
   | .dict _ => false) &&
  -- precision only on min / max, from the documented set, and only on atom-valued bounds
  (match c.precision with
   | none => true
   | some p => isBound c.kind && precisions.contains p &&
               (match c.value with | .atom _ => true | _ => false)) &&
  -- enumerated values
  (if c.kind == lit "sign" then (match c.value with | .atom a => validEnum signs a | _ => false)
   else if c.kind == lit "type" then
     (match c.value with
      | .atom a => validEnum types a
      | .list xs => xs.all (fun a => match a with | .str s => types.contains s | _ => false)
      | _ => false)
   else if c.kind == lit "no_duplicates" then
     (match c.value with | .atom .null | .atom (.bool _) => true | _ => false)
   else if c.kind == lit "rex" then
     (match c.value with | .atom .null | .list _ => true | _ => false)
   else true)

/-- a well-formed field: at least one constraint, one per kind -/
def WFField (cs : List Con) : Bool :=
  !cs.isEmpty && (cs.map (·.kind)).eraseDups.length == cs.length && cs.all (WFCon (isDateField cs))

/-- a well-formed constraint set: distinct field names, well-formed fields -/
def WFSet (fields : List (Line × List Con)) : Prop :=
  (fields.map (·.1)).Nodup ∧ ∀ f ∈ fields, WFField f.2 = true

/-- the constraints of a field in the preferred key order -/
def canonField (cs : List Con) : List Con :=
  (toPreferredOrder (cs.map (·.kind)) standardKinds).filterMap (fun k => cs.find? (fun c => c.kind == k))

def canonSet (fields : List (Line × List Con)) : List (Line × List Con) :=
  fields.map (fun f => (f.1, canonField f.2))

theorem getDate_strDatetime (t : Civil) (h : t.valid = true) : getDate (strDatetime t) = .ok t := by
  sorry

theorem load_dump (fields : List (Line × List Con)) (hwf : WFSet fields) :
    fromDict (toDict fields) = .ok { fields := canonSet fields, warnings := [] } := by
  sorry

theorem dump_load_dump (fields : List (Line × List Con)) (hwf : WFSet fields) :
    toDict (canonSet fields) = toDict fields ∧ WFSet (canonSet fields) := by
  sorry

theorem same_constraints (fields : List (Line × List Con)) (hwf : WFSet fields) (name kind : Line) :
    (((canonSet fields).find? (fun f => f.1 == name)).bind (fun f => f.2.find? (fun c => c.kind == kind)))
      = ((fields.find? (fun f => f.1 == name)).bind (fun f => f.2.find? (fun c => c.kind == kind))) := by
  sorry

theorem unknown_ignored (name : Line) (c : List (Line × JVal)) :
    (loadField name c).map (·.1) =
      (loadField name (c.filter (fun kv => standardKinds.contains kv.1))).map (·.1) := by
  sorry

theorem hash_key_silent (name : Line) (pre post : List (Line × JVal)) (k : Line) (v : JVal)
    (hk : k.head? = some '#') (hs : standardKinds.contains k = false) :
    loadField name (pre ++ (k, v) :: post) = loadField name (pre ++ post) := by
  sorry

theorem stripLines_no_trailing_ws (s : Line) :
    ∀ l ∈ splitNl (stripLines s) [], rstrip l = l := by
  sorry

theorem stripLines_id (s : Line) (h : ∀ l ∈ splitNl s [], rstrip l = l) : stripLines s = s := by
  sorry

theorem stripLines_lines (s : Line) :
    (splitNl (stripLines s) []).length = (splitNl s []).length := by
  sorry

end TddaVerif.Props.C09.Lemmas
