/-
Proofs about the dispatch test of the command line (Model/Applicable.lean).
-/
import TddaVerif.Model.Applicable
import TddaVerif.Generated.Flags
namespace TddaVerif.Props.C17.AppLemmas
open TddaVerif.Py TddaVerif.Applicable

/-- the dispatch test does not depend on where the input stands among the arguments -/
theorem applicable_perm (exts : List Line) (argv argv' : List Line) (h : argv.Perm argv') :
    applicable exts argv = applicable exts argv' := by
  unfold applicable
  rw [Bool.eq_iff_iff]
  simp only [List.any_eq_true]
  constructor
  · rintro ⟨a, ha, hp⟩; exact ⟨a, h.mem_iff.mp ha, hp⟩
  · rintro ⟨a, ha, hp⟩; exact ⟨a, h.mem_iff.mpr ha, hp⟩

/-- flags and their values before, between or after the file arguments change nothing: the test is a disjunction over the arguments -/
theorem applicable_append (exts : List Line) (xs ys : List Line) :
    applicable exts (xs ++ ys) = (applicable exts xs || applicable exts ys) := by
  simp [applicable, List.any_append]

/-- one flat-file argument (or `-`) anywhere is enough -/
theorem applicable_of_mem (exts : List Line) (argv : List Line) (a : Line) (ha : a ∈ argv)
    (h : a = ['-'] ∨ exts.contains (splitextExt a) = true) : applicable exts argv = true := by
  unfold applicable
  rw [List.any_eq_true]
  refine ⟨a, ha, ?_⟩
  cases h with
  | inl h => simp [h]
  | inr h => exact Or.inr (by simpa using h) |> fun x => by simpa using x

/-- ... and without one the command is not taken -/
theorem not_applicable_iff (exts : List Line) (argv : List Line) :
    applicable exts argv = false ↔ ∀ a ∈ argv, a ≠ ['-'] ∧ exts.contains (splitextExt a) = false := by
  unfold applicable
  rw [List.any_eq_false]
  constructor
  · intro h a ha
    have := h a ha
    simp only [Bool.or_eq_true, beq_iff_eq, not_or] at this
    exact ⟨this.1, by simpa using this.2⟩
  · intro h a ha
    have := h a ha
    have h2 : ¬ splitextExt a ∈ exts := by simpa using this.2
    simp [this.1, h2]

/- what the model's splitext says on the kinds of name that matter (as os.path.splitext does) -/
example : splitextExt "data.csv".toList = ".csv".toList := by decide
example : splitextExt "dir.v2/data".toList = [] := by decide
example : splitextExt ".csv".toList = [] := by decide
example : splitextExt "a.b/.hidden".toList = [] := by decide
example : splitextExt "archive.tar.json".toList = ".json".toList := by decide
example : splitextExt "x.".toList = ".".toList := by decide
example : splitextExt "..yaml".toList = [] := by decide
example : splitextExt "x.tsv/".toList = [] := by decide
example : applicable TddaVerif.Generated.Flags.applicableExts ["-t".toList, "strict".toList, "data.csv".toList, "c.tdda".toList] = true := by decide
example : applicable TddaVerif.Generated.Flags.applicableExts ["-t".toList, "strict".toList, "sqlite:t".toList] = false := by decide

/-- **Tie**: the extensions the model is instantiated with are the ones in pd/extension.py today -/
theorem tie_applicable_exts :
    TddaVerif.Generated.Flags.applicableExts =
      [".csv".toList, ".psv".toList, ".tsv".toList, ".parquet".toList, ".json".toList, ".yaml".toList] := by decide

end TddaVerif.Props.C17.AppLemmas
