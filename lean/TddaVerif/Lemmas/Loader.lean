/- C19 helper lemmas: the tagged test loader (classTagged / classMethods / testNames). -/
import TddaVerif.Model.RefTestCase
import TddaVerif.Props.C19Spec
import TddaVerif.Lemmas.SortLines

namespace TddaVerif.Props.C19.Lemmas
open TddaVerif.Py TddaVerif.RefTestCase TddaVerif.Props.C19

/-! ### generic list facts about `find?` on the first component -/

theorem find_name_fst {l : List (Arg × Bool)} {m : Arg} {x : Arg × Bool}
    (h : l.find? (fun x => x.1 == m) = some x) : x.1 = m := by
  have := List.find?_some h
  simpa using this

theorem find_none_iff (l : List (Arg × Bool)) (m : Arg) :
    l.find? (fun x => x.1 == m) = none ↔ (l.map (·.1)).contains m = false := by
  induction l with
  | nil => simp
  | cons a as ih =>
    by_cases h : a.1 = m
    · simp [h]
    · have h' : (a.1 == m) = false := by simpa using h
      have h'' : ¬ m = a.1 := fun e => h e.symm
      simp only [List.find?_cons, h', List.map_cons, List.contains_cons]
      rw [ih]
      simp [h'']

theorem mem_names_iff_find (l : List (Arg × Bool)) (m : Arg) :
    m ∈ l.map (·.1) ↔ ∃ tg, l.find? (fun x => x.1 == m) = some (m, tg) := by
  constructor
  · intro h
    cases hf : l.find? (fun x => x.1 == m) with
    | none =>
      have h1 := (find_none_iff l m).mp hf
      have h2 : (l.map (·.1)).contains m = true := List.contains_iff_mem.mpr h
      rw [h1] at h2
      cases h2
    | some x =>
      have hx := find_name_fst hf
      refine ⟨x.2, ?_⟩
      rw [← hx]
  · rintro ⟨tg, h⟩
    have := List.mem_of_find?_eq_some h
    exact List.mem_map.mpr ⟨(m, tg), this, rfl⟩

theorem mem_iff_find_of_nodup (l : List (Arg × Bool)) (hn : (l.map (·.1)).Nodup) (m : Arg) (tg : Bool) :
    (m, tg) ∈ l ↔ l.find? (fun x => x.1 == m) = some (m, tg) := by
  constructor
  · intro h
    induction l with
    | nil => simp at h
    | cons a as ih =>
      simp only [List.map_cons, List.nodup_cons] at hn
      rcases List.mem_cons.mp h with rfl | h'
      · simp
      · have hne : ¬ a.1 = m := by
          intro e
          apply hn.1
          rw [e]
          exact List.mem_map.mpr ⟨(m, tg), h', rfl⟩
        have h'' : (a.1 == m) = false := by simpa using hne
        simp only [List.find?_cons, h'']
        exact ih hn.2 h'
  · intro h
    exact List.mem_of_find?_eq_some h

theorem find_filter_names (own inh : List (Arg × Bool)) (m : Arg)
    (h : (own.map (·.1)).contains m = false) :
    (inh.filter (fun x => !(own.map (·.1)).contains x.1)).find? (fun x => x.1 == m) =
      inh.find? (fun x => x.1 == m) := by
  induction inh with
  | nil => simp
  | cons a as ih =>
    by_cases ha : a.1 = m
    · have : (own.map (·.1)).contains a.1 = false := by rw [ha]; exact h
      have hb : (a.1 == m) = true := by simpa using ha
      simp only [List.filter_cons, this, Bool.not_false, if_true, List.find?_cons, hb]
    · have h' : (a.1 == m) = false := by simpa using ha
      by_cases hq : (own.map (·.1)).contains a.1 = true
      · simp only [List.filter_cons, hq, Bool.not_true, List.find?_cons, h']
        simpa using ih
      · have hq' : (own.map (·.1)).contains a.1 = false := by simpa using hq
        simp only [List.filter_cons, hq', Bool.not_false, if_true, List.find?_cons, h']
        exact ih

/-! ### the fuelled functions agree with the inductive relations -/

theorem classTagged_iff (cs : List TestClass) (hac : Acyclic cs) :
    ∀ (i fuel : Nat), i < fuel → (classTagged cs fuel i = true ↔ ClassTagged cs i) := by
  intro i
  induction i using Nat.strongRecOn with
  | ind i ih =>
    intro fuel hf
    cases fuel with
    | zero => omega
    | succ f =>
      simp only [classTagged]
      cases hc : cs[i]? with
      | none =>
        constructor
        · intro h; simp at h
        · intro h
          cases h with
          | own _ c h1 _ => rw [hc] at h1; cases h1
          | inherited _ b c h1 _ _ => rw [hc] at h1; cases h1
      | some c =>
        simp only
        constructor
        · intro h
          by_cases ho : c.ownTag = true
          · exact ClassTagged.own i c hc ho
          · have ho' : c.ownTag = false := by simpa using ho
            rw [ho', Bool.false_or] at h
            cases hb : c.base with
            | none => rw [hb] at h; simp at h
            | some b =>
              rw [hb] at h
              have hbi : b < i := hac i c b hc hb
              exact ClassTagged.inherited i b c hc hb ((ih b hbi f (by omega)).mp h)
        · intro h
          cases h with
          | own _ c' h1 h2 =>
            rw [hc] at h1; cases h1
            simp [h2]
          | inherited _ b c' h1 h2 h3 =>
            rw [hc] at h1; cases h1
            have hbi : b < i := hac i c b hc h2
            have := (ih b hbi f (by omega)).mpr h3
            simp [h2, this]

theorem visible_iff_find (cs : List TestClass) (hac : Acyclic cs) (m : Arg) (tg : Bool) :
    ∀ (i fuel : Nat), i < fuel →
      (Visible cs i m tg ↔ (classMethods cs fuel i).find? (fun x => x.1 == m) = some (m, tg)) := by
  intro i
  induction i using Nat.strongRecOn with
  | ind i ih =>
    intro fuel hf
    cases fuel with
    | zero => omega
    | succ f =>
      simp only [classMethods]
      cases hc : cs[i]? with
      | none =>
        constructor
        · intro h
          cases h with
          | own _ c _ _ h1 _ => rw [hc] at h1; cases h1
          | inherited _ b c _ _ h1 _ _ _ => rw [hc] at h1; cases h1
        · intro h; simp at h
      | some c =>
        simp only [List.find?_append]
        constructor
        · intro h
          cases h with
          | own _ c' _ _ h1 h2 =>
            rw [hc] at h1; cases h1
            simp [h2]
          | inherited _ b c' _ _ h1 h2 h3 h4 =>
            rw [hc] at h1; cases h1
            have hbi : b < i := hac i c b hc h2
            have hfn := (find_none_iff c.own m).mpr h3
            rw [hfn, h2]
            simp only [Option.none_or]
            rw [find_filter_names c.own _ m h3]
            exact (ih b hbi f (by omega)).mp h4
        · intro h
          cases hown : c.own.find? (fun x => x.1 == m) with
          | some x =>
            rw [hown] at h
            simp only [Option.some_or, Option.some.injEq] at h
            subst h
            exact Visible.own i c m tg hc hown
          | none =>
            rw [hown] at h
            simp only [Option.none_or] at h
            have h3 := (find_none_iff c.own m).mp hown
            rw [find_filter_names c.own _ m h3] at h
            cases hb : c.base with
            | none => rw [hb] at h; simp at h
            | some b =>
              rw [hb] at h
              have hbi : b < i := hac i c b hc hb
              exact Visible.inherited i b c m tg hc hb h3 ((ih b hbi f (by omega)).mpr h)

theorem classMethods_nodup (cs : List TestClass)
    (hd : ∀ c ∈ cs, (c.own.map (·.1)).Nodup) :
    ∀ (fuel i : Nat), ((classMethods cs fuel i).map (·.1)).Nodup := by
  intro fuel
  induction fuel with
  | zero => intro i; simp [classMethods]
  | succ f ih =>
    intro i
    simp only [classMethods]
    cases hc : cs[i]? with
    | none => simp
    | some c =>
      have hcm : c ∈ cs := List.mem_of_getElem? hc
      simp only [List.map_append]
      refine List.nodup_append.mpr ⟨hd c hcm, ?_, ?_⟩
      · have hinh : ((match c.base with | some b => classMethods cs f b | none => [] : List (Arg × Bool)).map (·.1)).Nodup := by
          cases c.base with
          | none => simp
          | some b => exact ih b
        exact (List.Sublist.map _ List.filter_sublist).nodup hinh
      · intro a ha b hb hab
        subst hab
        obtain ⟨x, hx, rfl⟩ := List.mem_map.mp hb
        have := (List.mem_filter.mp hx).2
        simp only [Bool.not_eq_eq_eq_not, Bool.not_true] at this
        have hcon : (c.own.map (·.1)).contains x.1 = true := by
          simpa using ha
        rw [hcon] at this
        cases this

/-! ### testNames -/

theorem mem_testNames (cs : List TestClass) (i : Nat) (t : Bool) (m : Arg) :
    m ∈ testNames cs i t ↔
      m ∈ ((if !t || classTagged cs (cs.length + 1) i then classMethods cs (cs.length + 1) i
            else (classMethods cs (cs.length + 1) i).filter (·.2)).map (·.1)) := by
  unfold testNames
  exact (TddaVerif.Props.C04.Lemmas.sortLines_perm _).mem_iff

theorem untagged_selects_all' (cs : List TestClass) (hac : Acyclic cs) (i : Nat) (hi : i < cs.length)
    (m : Arg) : m ∈ testNames cs i false ↔ ∃ tg, Visible cs i m tg := by
  rw [mem_testNames]
  simp only [Bool.not_false, Bool.true_or, if_true]
  rw [mem_names_iff_find]
  constructor
  · rintro ⟨tg, h⟩
    exact ⟨tg, (visible_iff_find cs hac m tg i _ (by omega)).mpr h⟩
  · rintro ⟨tg, h⟩
    exact ⟨tg, (visible_iff_find cs hac m tg i _ (by omega)).mp h⟩

theorem tagged_selects_exactly' (cs : List TestClass) (hac : Acyclic cs)
    (hd : ∀ c ∈ cs, (c.own.map (·.1)).Nodup) (i : Nat) (hi : i < cs.length)
    (m : Arg) : m ∈ testNames cs i true ↔ CarriesTag cs i m := by
  rw [mem_testNames]
  simp only [Bool.not_true, Bool.false_or]
  have hv : ∀ tg, Visible cs i m tg ↔
      (classMethods cs (cs.length + 1) i).find? (fun x => x.1 == m) = some (m, tg) :=
    fun tg => visible_iff_find cs hac m tg i _ (by omega)
  have hct := classTagged_iff cs hac i (cs.length + 1) (by omega)
  by_cases hT : classTagged cs (cs.length + 1) i = true
  · rw [if_pos hT, mem_names_iff_find]
    constructor
    · rintro ⟨tg, h⟩
      exact ⟨tg, (hv tg).mpr h, Or.inr (hct.mp hT)⟩
    · rintro ⟨tg, h, _⟩
      exact ⟨tg, (hv tg).mp h⟩
  · rw [if_neg hT]
    have hnd := classMethods_nodup cs hd (cs.length + 1) i
    constructor
    · intro h
      obtain ⟨x, hx, hxm⟩ := List.mem_map.mp h
      obtain ⟨hx1, hx2⟩ := List.mem_filter.mp hx
      have hx' : (m, true) ∈ classMethods cs (cs.length + 1) i := by
        have : x = (m, true) := by
          cases x with
          | mk a b => simp at hxm hx2; simp [hxm, hx2]
        rw [← this]; exact hx1
      exact ⟨true, (hv true).mpr ((mem_iff_find_of_nodup _ hnd m true).mp hx'), Or.inl rfl⟩
    · rintro ⟨tg, h, ht⟩
      rcases ht with rfl | ht
      · have := (mem_iff_find_of_nodup _ hnd m true).mpr ((hv true).mp h)
        exact List.mem_map.mpr ⟨(m, true), List.mem_filter.mpr ⟨this, rfl⟩, rfl⟩
      · exact absurd (hct.mpr ht) hT

theorem selected_once' (cs : List TestClass)
    (hd : ∀ c ∈ cs, (c.own.map (·.1)).Nodup) (i : Nat) (tagged : Bool) :
    (testNames cs i tagged).Nodup := by
  unfold testNames
  refine (TddaVerif.Props.C04.Lemmas.sortLines_perm _).nodup_iff.mpr ?_
  have hnd := classMethods_nodup cs hd (cs.length + 1) i
  split
  · exact hnd
  · exact (List.Sublist.map _ List.filter_sublist).nodup hnd

theorem selectTests_mem' (cs : List TestClass) (tagged : Bool) (n m : Arg) :
    (n, m) ∈ selectTests cs tagged false ↔
      ∃ i c, cs[i]? = some c ∧ c.name = n ∧ m ∈ testNames cs i tagged := by
  simp only [selectTests, Bool.false_eq_true, if_false, List.mem_flatten, List.mem_map,
    List.mem_range]
  constructor
  · rintro ⟨l, ⟨i, hi, rfl⟩, hm⟩
    obtain ⟨m', hm', he⟩ := List.mem_map.mp hm
    simp only [Prod.mk.injEq] at he
    obtain ⟨he1, rfl⟩ := he
    refine ⟨i, cs[i], List.getElem?_eq_getElem hi, ?_, hm'⟩
    rw [← he1]
    simp [List.getD_eq_getElem?_getD, List.getElem?_eq_getElem hi]
  · rintro ⟨i, c, hc, rfl, hm⟩
    have hi : i < cs.length := (List.getElem?_eq_some_iff.mp hc).1
    refine ⟨_, ⟨i, hi, rfl⟩, ?_⟩
    refine List.mem_map.mpr ⟨m, hm, ?_⟩
    simp [List.getD_eq_getElem?_getD, hc]

theorem check_lists_exactly' (cs : List TestClass) (hac : Acyclic cs)
    (hd : ∀ c ∈ cs, (c.own.map (·.1)).Nodup) (n : Arg) :
    n ∈ listedClasses cs true ↔
      ∃ i c, cs[i]? = some c ∧ c.name = n ∧ ∃ m, CarriesTag cs i m := by
  simp only [listedClasses, if_true, List.mem_map, List.mem_filter, List.mem_range]
  constructor
  · rintro ⟨i, ⟨hi, hne⟩, rfl⟩
    refine ⟨i, cs[i], List.getElem?_eq_getElem hi, ?_, ?_⟩
    · simp [List.getD_eq_getElem?_getD, List.getElem?_eq_getElem hi]
    · cases ht : testNames cs i true with
      | nil => rw [ht] at hne; simp at hne
      | cons m ms =>
        exact ⟨m, (tagged_selects_exactly' cs hac hd i hi m).mp (by rw [ht]; simp)⟩
  · rintro ⟨i, c, hc, rfl, m, hm⟩
    have hi : i < cs.length := (List.getElem?_eq_some_iff.mp hc).1
    refine ⟨i, ⟨hi, ?_⟩, ?_⟩
    · have := (tagged_selects_exactly' cs hac hd i hi m).mpr hm
      cases ht : testNames cs i true with
      | nil => rw [ht] at this; simp at this
      | cons _ _ => simp
    · simp [List.getD_eq_getElem?_getD, hc]

end TddaVerif.Props.C19.Lemmas
