/- Lemmas for C05: rounding to a precision. -/
import TddaVerif.Model.Round

namespace TddaVerif.Props.C05.RoundLemmas
open TddaVerif.Round

def absR (q : Rat) : Rat := if q ≥ 0 then q else -q

theorem pow10_pos (p : Nat) : 0 < pow10 p := by
  unfold pow10
  rw [Rat.natCast_pos]
  exact Nat.pow_pos (by decide)

theorem half_unit (P : Rat) (hP : 0 < P) : 1 / (2 * P) = P⁻¹ / 2 := by
  grind

theorem scale_le (P a b : Rat) (hP : 0 < P) (h : a ≤ b) : a * P⁻¹ ≤ b * P⁻¹ :=
  Rat.mul_le_mul_of_nonneg_right h (Rat.le_of_lt (Rat.inv_pos.mpr hP))

theorem close_aux (P x : Rat) (r : Rat) (hP : 0 < P) (h1 : r - x * P ≤ 1/2) (h2 : x * P - r ≤ 1/2) :
    absR (r / P - x) ≤ 1 / (2 * P) := by
  have a1 := scale_le P _ _ hP h1
  have a2 := scale_le P _ _ hP h2
  have hi : P * P⁻¹ = 1 := Rat.mul_inv_cancel P (by grind)
  have e1 : (r - x * P) * P⁻¹ = r * P⁻¹ - x := by grind
  have e2 : (x * P - r) * P⁻¹ = x - r * P⁻¹ := by grind
  rw [e1] at a1; rw [e2] at a2
  rw [half_unit P hP, Rat.div_def]
  unfold absR
  split <;> grind

/-- round half to even moves a value by at most one half -/
theorem rint_spec (q : Rat) : (rint q : Rat) - q ≤ 1/2 ∧ q - (rint q : Rat) ≤ 1/2 := by
  have h1 := Rat.floor_le q
  have h2 := Rat.lt_floor_add_one q
  simp only [rint]
  split
  · grind
  · split
    · grind
    · split <;> grind

/-- a value strictly within one half of an integer rounds to that integer -/
theorem rint_near (q : Rat) (k : Int) (h1 : q - k < 1/2) (h2 : (k:Rat) - q < 1/2) : rint q = k := by
  have hf1 := Rat.floor_le q
  have hf2 := Rat.lt_floor_add_one q
  have h3 : k - 1 ≤ q.floor := by
    rw [Rat.le_floor_iff]; simp [Rat.intCast_sub]; grind
  have h4 : q.floor < k + 1 := by
    rw [Rat.floor_lt_iff]; simp [Rat.intCast_add]; grind
  have h5 : q.floor = k ∨ q.floor = k - 1 := by omega
  simp only [rint]
  rcases h5 with h5 | h5
  · rw [h5] at hf1 hf2 ⊢
    simp [Rat.intCast_add] at hf2
    split
    · rfl
    · grind
  · rw [h5] at hf1 hf2 ⊢
    simp [Rat.intCast_sub] at hf1 hf2 ⊢
    split
    · grind
    · split
      · rfl
      · grind

/-- rounding moves a value by at most half a unit of the last place kept -/
theorem roundTo_close (p : Nat) (x : Rat) : absR (roundTo p x - x) ≤ 1 / (2 * pow10 p) := by
  have h := rint_spec (x * pow10 p)
  exact close_aux (pow10 p) x _ (pow10_pos p) h.1 h.2

theorem near_aux (P x : Rat) (k : Int) (hP : 0 < P) (h : absR (x - (k : Rat) / P) < 1 / (2 * P)) :
    rint (x * P) = k := by
  have hi : P⁻¹ * P = 1 := by rw [Rat.mul_comm]; exact Rat.mul_inv_cancel P (by grind)
  rw [half_unit P hP, Rat.div_def] at h
  apply rint_near
  · have : x - k * P⁻¹ < P⁻¹ / 2 := by unfold absR at h; grind
    have a := Rat.mul_lt_mul_of_pos_right this hP
    have e1 : (x - k * P⁻¹) * P = x * P - k := by grind
    have e2 : P⁻¹ / 2 * P = 1 / 2 := by grind
    rw [e1, e2] at a; exact a
  · have : k * P⁻¹ - x < P⁻¹ / 2 := by unfold absR at h; grind
    have a := Rat.mul_lt_mul_of_pos_right this hP
    have e1 : (k * P⁻¹ - x) * P = k - x * P := by grind
    have e2 : P⁻¹ / 2 * P = 1 / 2 := by grind
    rw [e1, e2] at a; exact a

/-- a value strictly within half a unit of a grid point rounds to that grid point -/
theorem roundTo_near (p : Nat) (k : Int) (x : Rat)
    (hx : absR (x - (k : Rat) / pow10 p) < 1 / (2 * pow10 p)) : roundTo p x = (k : Rat) / pow10 p := by
  unfold roundTo
  rw [near_aux (pow10 p) x k (pow10_pos p) hx]

/-- a value on the grid of the precision is left alone -/
theorem roundTo_grid (p : Nat) (k : Int) : roundTo p ((k : Rat) / pow10 p) = (k : Rat) / pow10 p := by
  apply roundTo_near
  have hP := pow10_pos p
  have : 0 < 1 / (2 * pow10 p) := by
    rw [half_unit _ hP]; have := Rat.inv_pos.mpr hP; grind
  unfold absR; grind

/-- two values further apart than one unit of the last place kept never compare equal:
    changing a checked value by more than the precision always fails -/
theorem far_apart_differ (p : Nat) (x y : Rat) (h : absR (x - y) > 1 / pow10 p) : roundTo p x ≠ roundTo p y := by
  intro he
  have hx := roundTo_close p x
  have hy := roundTo_close p y
  rw [he] at hx
  rw [half_unit _ (pow10_pos p)] at hx hy
  rw [Rat.div_def, Rat.one_mul] at h
  unfold absR at *
  grind

theorem cellsEqual_far (p : Nat) (x y : Rat) (h : absR (x - y) > 1 / pow10 p) :
    cellsEqual p (some x) (some y) = false := by
  simp [cellsEqual, far_apart_differ p x y h]

/-- equal values compare equal; a null equals only a null -/
theorem cellsEqual_refl (p : Nat) (x : Option Rat) : cellsEqual p x x = true := by
  cases x <;> simp [cellsEqual]

theorem cellsEqual_null (p : Nat) (x : Rat) : cellsEqual p none (some x) = false ∧ cellsEqual p (some x) none = false := by
  simp [cellsEqual]

theorem cellsEqual_symm (p : Nat) (x y : Option Rat) : cellsEqual p x y = cellsEqual p y x := by
  cases x <;> cases y <;> simp [cellsEqual]
  exact BEq.comm

/-- values within the same rounding cell compare equal: both round to the same grid point `k / 10^p` when they lie
    strictly within half a unit of it -/
theorem cellsEqual_near_grid (p : Nat) (k : Int) (x y : Rat)
    (hx : absR (x - (k : Rat) / pow10 p) < 1 / (2 * pow10 p)) (hy : absR (y - (k : Rat) / pow10 p) < 1 / (2 * pow10 p)) :
    cellsEqual p (some x) (some y) = true := by
  simp [cellsEqual, roundTo_near p k x hx, roundTo_near p k y hy]

end TddaVerif.Props.C05.RoundLemmas
