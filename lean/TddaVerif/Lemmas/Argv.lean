/- C19 helper lemmas: the argv scanner `parseArgv`, phase by phase. -/
import TddaVerif.Model.RefTestCase
import TddaVerif.Props.C19Spec

namespace TddaVerif.Props.C19.Lemmas
open TddaVerif.Py TddaVerif.RefTestCase TddaVerif.Props.C19

/-! ### phase 1: `scanLeading` as a map and three `any`-folds -/

def scanArg (a : Arg) : Arg :=
  if isSingleDash a then (if stripCluster a == ['-'] then [] else stripCluster a) else a

def hasFlag (ch : Char) (a : Arg) : Bool := isSingleDash a && (a.drop 1).contains ch

theorem scanLeading_eq (l : List Arg) (f : Flags) :
    scanLeading l f =
      (l.map scanArg,
       { tagged := f.tagged || l.any (hasFlag '1'),
         check := f.check || l.any (hasFlag '0'),
         regenerate := f.regenerate || l.any (hasFlag 'W') }) := by
  induction l generalizing f with
  | nil => simp [scanLeading]
  | cons a as ih =>
    simp only [scanLeading]
    by_cases h : isSingleDash a = true
    · simp only [h, if_true, ih, clusterFlags, scanArg, hasFlag, List.map_cons, List.any_cons,
        Bool.true_and, Bool.or_assoc]
    · have h' : isSingleDash a = false := by simpa using h
      simp only [h', Bool.false_eq_true, if_false, ih, scanArg, hasFlag, List.map_cons,
        List.any_cons, Bool.false_and, Bool.false_or]

/-! ### `indexOf?` / `removeAt` against `filter` -/

theorem indexOf_eq_none {x : Arg} {l : List Arg} : indexOf? x l = none ↔ x ∉ l := by
  induction l with
  | nil => simp [indexOf?]
  | cons a as ih =>
    by_cases h : a = x
    · simp [indexOf?, h]
    · have h' : (a == x) = false := by simpa using h
      have h'' : ¬ x = a := fun e => h e.symm
      simp [indexOf?, h', ih, h'']

theorem indexOf_cons_ne {x p : Arg} (l : List Arg) (h : p ≠ x) :
    indexOf? x (p :: l) = (indexOf? x l).map (· + 1) := by
  have h' : (p == x) = false := by simpa using h
  simp [indexOf?, h']

theorem removeAt_succ (p : Arg) (l : List Arg) (i : Nat) :
    removeAt (p :: l) (i + 1) = p :: removeAt l i := by
  simp [removeAt]

theorem filter_eq_self_of_countP {p : Arg → Bool} {l : List Arg} (h : l.countP p = 0) :
    l.filter (fun a => !p a) = l := by
  rw [List.filter_eq_self]
  intro a ha
  have := List.countP_eq_zero.mp h a ha
  simpa using this

theorem not_mem_of_countP {x : Arg} {p : Arg → Bool} {l : List Arg} (hx : p x = true)
    (h : l.countP p = 0) : x ∉ l := by
  intro hm
  exact List.countP_eq_zero.mp h x hm hx

/-- removing the first occurrence of a value that occurs at most once is a filter -/
theorem removeFirst_eq_filter (x : Arg) (l : List Arg) (hc : l.countP (· == x) ≤ 1) :
    (match indexOf? x l with
     | some i => removeAt l i
     | none => l) = l.filter (fun a => !(a == x)) := by
  induction l with
  | nil => simp [indexOf?]
  | cons a as ih =>
    by_cases h : a = x
    · subst h
      have hc0 : as.countP (· == a) = 0 := by
        simp only [List.countP_cons, beq_self_eq_true, if_true] at hc
        omega
      simp only [indexOf?, beq_self_eq_true, if_true, removeAt, List.take_zero, List.nil_append,
        Nat.zero_add, List.drop_one, List.tail_cons, List.filter_cons, Bool.not_true,
        Bool.false_eq_true, if_false]
      exact (filter_eq_self_of_countP hc0).symm
    · have h' : (a == x) = false := by simpa using h
      have hc' : as.countP (· == x) ≤ 1 := by
        simpa [List.countP_cons, h'] using hc
      rw [indexOf_cons_ne as h]
      simp only [List.filter_cons, h', Bool.not_false, if_true]
      rw [← ih hc']
      cases indexOf? x as with
      | none => rfl
      | some i => simp [removeAt_succ]

/-- the same for two alternative values tried in turn, at most one occurrence in all -/
theorem removeFirst2_eq_filter (x y : Arg) (hxy : x ≠ y) (l : List Arg)
    (hc : l.countP (fun a => a == x || a == y) ≤ 1) :
    (match indexOf? x l with
     | some i => removeAt l i
     | none =>
       match indexOf? y l with
       | some i => removeAt l i
       | none => l) = l.filter (fun a => !(a == x || a == y)) := by
  induction l with
  | nil => simp [indexOf?]
  | cons a as ih =>
    by_cases h : a = x
    · subst h
      have hc0 : as.countP (fun b => b == a || b == y) = 0 := by
        simp only [List.countP_cons, beq_self_eq_true, Bool.true_or, if_true] at hc
        omega
      simp only [indexOf?, beq_self_eq_true, if_true, removeAt, List.take_zero, List.nil_append,
        Nat.zero_add, List.drop_one, List.tail_cons, List.filter_cons, Bool.true_or, Bool.not_true,
        Bool.false_eq_true, if_false]
      exact (filter_eq_self_of_countP hc0).symm
    · have h' : (a == x) = false := by simpa using h
      by_cases hy : a = y
      · subst hy
        have hc0 : as.countP (fun b => b == x || b == a) = 0 := by
          simp only [List.countP_cons, beq_self_eq_true, Bool.or_true, if_true] at hc
          omega
        have hx : x ∉ as := not_mem_of_countP (p := fun b => b == x || b == a) (by simp) hc0
        rw [indexOf_cons_ne as h, indexOf_eq_none.mpr hx]
        simp only [Option.map_none, indexOf?, beq_self_eq_true, if_true, removeAt, List.take_zero,
          List.nil_append, Nat.zero_add, List.drop_one, List.tail_cons, List.filter_cons,
          Bool.or_true, Bool.not_true, Bool.false_eq_true, if_false]
        exact (filter_eq_self_of_countP hc0).symm
      · have hy' : (a == y) = false := by simpa using hy
        have hc' : as.countP (fun b => b == x || b == y) ≤ 1 := by
          simpa [List.countP_cons, h', hy'] using hc
        rw [indexOf_cons_ne as h, indexOf_cons_ne as hy]
        simp only [List.filter_cons, h', hy', Bool.or_false, Bool.not_false, if_true]
        rw [← ih hc']
        cases indexOf? x as with
        | some i => simp [removeAt_succ]
        | none =>
          cases indexOf? y as with
          | some i => simp [removeAt_succ]
          | none => rfl

/-! ### the removal phases -/

theorem contains_of_indexOf_some {x : Arg} {l : List Arg} {i : Nat} (h : indexOf? x l = some i) :
    l.contains x = true := by
  have : ¬ x ∉ l := fun hn => by rw [indexOf_eq_none.mpr hn] at h; cases h
  simpa using this

theorem contains_of_indexOf_none {x : Arg} {l : List Arg} (h : indexOf? x l = none) :
    l.contains x = false := by
  have := indexOf_eq_none.mp h
  simpa using this

theorem dropQuiet_eq (x : Arg) (l : List Arg) (q : Bool) (hc : l.countP (· == x) ≤ 1) :
    dropQuiet x (l, q) = (l.filter (fun a => !(a == x)), q || l.contains x) := by
  have h := removeFirst_eq_filter x l hc
  unfold dropQuiet
  cases hi : indexOf? x l with
  | none =>
    rw [hi] at h
    simp only [contains_of_indexOf_none hi, Bool.or_false]
    rw [← h]
  | some i =>
    rw [hi] at h
    simp only [contains_of_indexOf_some hi, Bool.or_true]
    rw [← h]

theorem tagPhase_eq (x p : Arg) (l : List Arg) (hp : p ≠ x) (hc : l.countP (· == x) ≤ 1) :
    tagPhase x (p :: l) = (p :: l.filter (fun a => !(a == x)), l.contains x) := by
  have h := removeFirst_eq_filter x l hc
  unfold tagPhase
  rw [indexOf_cons_ne l hp]
  cases hi : indexOf? x l with
  | none =>
    rw [hi] at h
    simp only [Option.map_none, contains_of_indexOf_none hi]
    rw [← h]
  | some i =>
    rw [hi] at h
    simp only [Option.map_some, contains_of_indexOf_some hi, removeAt_succ]
    rw [← h]

theorem writeAllPhase_eq (p : Arg) (l : List Arg) (r : Bool) (hp1 : p ≠ writeAll1) (hp2 : p ≠ writeAll2)
    (hc : l.countP (fun a => a == writeAll1 || a == writeAll2) ≤ 1) :
    writeAllPhase (p :: l) r =
      (p :: l.filter (fun a => !(a == writeAll1 || a == writeAll2)),
       (l.contains writeAll1 || l.contains writeAll2) || r) := by
  have h := removeFirst2_eq_filter writeAll1 writeAll2 (by decide) l hc
  unfold writeAllPhase
  rw [indexOf_cons_ne l hp1, indexOf_cons_ne l hp2]
  cases hi : indexOf? writeAll1 l with
  | some i =>
    rw [hi] at h
    simp only [Option.map_some, contains_of_indexOf_some hi, removeAt_succ, Bool.true_or]
    rw [← h]
  | none =>
    rw [hi] at h
    simp only [Option.map_none, contains_of_indexOf_none hi, Bool.false_or]
    cases hj : indexOf? writeAll2 l with
    | some j =>
      rw [hj] at h
      simp only [Option.map_some, contains_of_indexOf_some hj, removeAt_succ, Bool.true_or]
      rw [← h]
    | none =>
      rw [hj] at h
      simp only [Option.map_none, contains_of_indexOf_none hj, Bool.false_or]
      rw [← h]

/-! ### the write phase -/

theorem indexOf_append_self {x : Arg} (A r : List Arg) (h : x ∉ A) :
    indexOf? x (A ++ x :: r) = some A.length := by
  induction A with
  | nil => simp [indexOf?]
  | cons a as ih =>
    have ha : a ≠ x := fun e => h (by simp [e])
    have has : x ∉ as := fun e => h (by simp [e])
    rw [List.cons_append, indexOf_cons_ne _ ha, ih has]
    simp

theorem writeAt_end (A : List Arg) (w : Arg) (kinds : List Arg) (hA : A ≠ []) :
    writeAt (A ++ w :: kinds) A.length =
      if kinds = [] then .error .writeNeedsParams
      else .ok (A, ((kinds.map (fun r => splitComma r [])).flatten.map some)) := by
  unfold writeAt
  have hl : 0 < A.length := List.length_pos_iff.mpr hA
  have h0 : (A.length == 0) = false := by simp; omega
  simp only [h0, Bool.false_eq_true, if_false, List.length_append, List.length_cons]
  cases kinds with
  | nil => simp
  | cons k ks =>
    simp

theorem writePhase_none (l : List Arg) (h1 : write1 ∉ l) (h2 : write2 ∉ l) (h3 : write3 ∉ l) :
    writePhase l = .ok (l, []) := by
  unfold writePhase
  rw [indexOf_eq_none.mpr h1, indexOf_eq_none.mpr h2, indexOf_eq_none.mpr h3]

theorem writePhase_some (A : List Arg) (s : Nat) (kinds : List Arg) (hA : A ≠ [])
    (hA1 : write1 ∉ A) (hA2 : write2 ∉ A) (hA3 : write3 ∉ A)
    (hk1 : write1 ∉ kinds) (hk2 : write2 ∉ kinds) :
    writePhase (A ++ writeSpelling s :: kinds) =
      if kinds = [] then .error .writeNeedsParams
      else .ok (A, ((kinds.map (fun r => splitComma r [])).flatten.map some)) := by
  unfold writePhase
  match s with
  | 0 =>
    simp only [writeSpelling]
    rw [indexOf_append_self A kinds hA1]
    exact writeAt_end A _ kinds hA
  | 1 =>
    simp only [writeSpelling]
    have hn : write1 ∉ A ++ write2 :: kinds := by
      simp only [List.mem_append, List.mem_cons, not_or]
      exact ⟨hA1, by decide, hk1⟩
    rw [indexOf_eq_none.mpr hn, indexOf_append_self A kinds hA2]
    exact writeAt_end A _ kinds hA
  | n + 2 =>
    simp only [writeSpelling]
    have hn : write1 ∉ A ++ write3 :: kinds := by
      simp only [List.mem_append, List.mem_cons, not_or]
      exact ⟨hA1, by decide, hk1⟩
    have hn2 : write2 ∉ A ++ write3 :: kinds := by
      simp only [List.mem_append, List.mem_cons, not_or]
      exact ⟨hA2, by decide, hk2⟩
    rw [indexOf_eq_none.mpr hn, indexOf_eq_none.mpr hn2, indexOf_append_self A kinds hA3]
    exact writeAt_end A _ kinds hA

/-! ### everything after the first loop, on a list `p :: L` -/

/-- `parseArgv` from the `-wquiet` phase on -/
def post (argv1 : List Arg) (f : Flags) : Except ArgvErr Parsed :=
  let (argv2, quiet) := dropQuiet wquiet2 (dropQuiet wquiet1 (argv1, false))
  let (argv3, regen) := writeAllPhase argv2 f.regenerate
  match writePhase argv3 with
  | .error e => .error e
  | .ok (argv4, kinds) =>
    let (argv5, t) := tagPhase taggedOpt argv4
    let (argv6, c) := tagPhase istaggedOpt argv5
    .ok { argv := argv6, tagged := f.tagged || t, check := f.check || c, quiet := quiet,
          regen := kinds ++ (if regen then [none] else []) }

theorem parseArgv_eq_post (argv : List Arg) :
    parseArgv argv =
      post (((argv.take 1) ++ (scanLeading (argv.drop 1) {}).1).filter (fun a => !a.isEmpty))
        (scanLeading (argv.drop 1) {}).2 := by
  unfold parseArgv post
  cases scanLeading (argv.drop 1) {} with
  | mk a b => rfl

/-- the argument list after the `-wquiet` and `--write-all` phases -/
def F3 (L : List Arg) : List Arg :=
  ((L.filter (fun a => !(a == wquiet1))).filter (fun a => !(a == wquiet2))).filter
    (fun a => !(a == writeAll1 || a == writeAll2))

theorem post_front (p : Arg) (L : List Arg) (f : Flags)
    (hp1 : p ≠ wquiet1) (hp2 : p ≠ wquiet2) (hp3 : p ≠ writeAll1) (hp4 : p ≠ writeAll2)
    (h1 : L.countP (· == wquiet1) ≤ 1) (h2 : L.countP (· == wquiet2) ≤ 1)
    (h3 : L.countP (fun a => a == writeAll1 || a == writeAll2) ≤ 1) :
    post (p :: L) f =
      match writePhase (p :: F3 L) with
      | .error e => .error e
      | .ok (argv4, kinds) =>
        .ok { argv := (tagPhase istaggedOpt (tagPhase taggedOpt argv4).1).1,
              tagged := f.tagged || (tagPhase taggedOpt argv4).2,
              check := f.check || (tagPhase istaggedOpt (tagPhase taggedOpt argv4).1).2,
              quiet := L.contains wquiet1 || L.contains wquiet2,
              regen := kinds ++
                (if (L.contains writeAll1 || L.contains writeAll2) || f.regenerate then [none] else []) } := by
  have e1 : (p == wquiet1) = false := beq_eq_false_iff_ne.mpr hp1
  have e2 : (p == wquiet2) = false := beq_eq_false_iff_ne.mpr hp2
  have e3 : (p == writeAll1) = false := beq_eq_false_iff_ne.mpr hp3
  have e4 : (p == writeAll2) = false := beq_eq_false_iff_ne.mpr hp4
  have c1 : (p :: L).countP (· == wquiet1) ≤ 1 := by simpa [List.countP_cons, e1] using h1
  have hf1 : (p :: L).filter (fun a => !(a == wquiet1)) = p :: L.filter (fun a => !(a == wquiet1)) := by
    simp [e1]
  have c2 : (p :: L.filter (fun a => !(a == wquiet1))).countP (· == wquiet2) ≤ 1 := by
    have := (List.filter_sublist (l := L) (p := fun a => !(a == wquiet1))).countP_le (p := (· == wquiet2))
    simp only [List.countP_cons, e2]
    simp only [Bool.false_eq_true, if_false, Nat.add_zero]
    omega
  have hf2 : (p :: L.filter (fun a => !(a == wquiet1))).filter (fun a => !(a == wquiet2)) =
      p :: (L.filter (fun a => !(a == wquiet1))).filter (fun a => !(a == wquiet2)) := by
    simp [e2]
  have c3 : (((L.filter (fun a => !(a == wquiet1))).filter (fun a => !(a == wquiet2)))).countP
      (fun a => a == writeAll1 || a == writeAll2) ≤ 1 := by
    have s1 := (List.filter_sublist (l := L) (p := fun a => !(a == wquiet1)))
    have s2 := (List.filter_sublist (l := L.filter (fun a => !(a == wquiet1))) (p := fun a => !(a == wquiet2)))
    have := (s2.trans s1).countP_le (p := fun a => a == writeAll1 || a == writeAll2)
    omega
  have q2 : (L.filter (fun a => !(a == wquiet1))).contains wquiet2 = L.contains wquiet2 := by
    rw [Bool.eq_iff_iff]
    simp only [List.contains_iff_mem, List.mem_filter]
    constructor
    · exact fun h => h.1
    · exact fun h => ⟨h, by decide⟩
  have q3 : ∀ x, x ≠ wquiet1 → x ≠ wquiet2 →
      ((L.filter (fun a => !(a == wquiet1))).filter (fun a => !(a == wquiet2))).contains x = L.contains x := by
    intro x hx1 hx2
    rw [Bool.eq_iff_iff]
    simp only [List.contains_iff_mem, List.mem_filter]
    constructor
    · exact fun h => h.1.1
    · intro h
      exact ⟨⟨h, by simpa using hx1⟩, by simpa using hx2⟩
  unfold post
  rw [dropQuiet_eq wquiet1 (p :: L) false c1, hf1]
  rw [dropQuiet_eq wquiet2 _ _ c2, hf2]
  simp only []
  rw [writeAllPhase_eq p _ f.regenerate hp3 hp4 c3]
  simp only []
  have hq : (false || (p :: L).contains wquiet1 ||
      (p :: L.filter (fun a => !(a == wquiet1))).contains wquiet2) =
      (L.contains wquiet1 || L.contains wquiet2) := by
    have n1 : (wquiet1 == p) = false := beq_eq_false_iff_ne.mpr (fun e => hp1 e.symm)
    have n2 : (wquiet2 == p) = false := beq_eq_false_iff_ne.mpr (fun e => hp2 e.symm)
    simp only [List.contains_cons, n1, n2, Bool.false_or, q2]
  rw [hq, q3 writeAll1 (by decide) (by decide), q3 writeAll2 (by decide) (by decide)]
  show (match writePhase (p :: F3 L) with | .error e => _ | .ok (argv4, kinds) => _) = _
  cases writePhase (p :: F3 L) with
  | error e => rfl
  | ok r =>
    obtain ⟨argv4, kinds⟩ := r
    rfl

/-! ### tokens -/

def strip3 (ls : List Char) : List Char := ls.filter (fun c => !(c == 'W' || c == '1' || c == '0'))

/-- the per-token clause of `Cmd.WF` -/
def tokOK (t : Tok) : Bool :=
  match t with
  | .cluster ls =>
    let r := ls.filter (fun c => !(c == 'W' || c == '1' || c == '0'))
    !ls.isEmpty && !ls.contains '-' && ('-' :: r) != write1 && ('-' :: r) != wquiet1
  | .other a => plainArg a
  | _ => true

/-- what a token looks like after the first loop and the removal of empty arguments -/
def keep1 : Tok → Option Arg
  | .cluster ls => if (strip3 ls).isEmpty then none else some ('-' :: strip3 ls)
  | t => some t.render

theorem plainArg_iff (a : Arg) :
    plainArg a = true ↔ a ≠ [] ∧ isSingleDash a = false ∧ tddaSpellings.contains a = false := by
  unfold plainArg
  cases a <;> simp

theorem scanArg_of_not_single {a : Arg} (h : isSingleDash a = false) : scanArg a = a := by
  simp [scanArg, h]

theorem hasFlag_of_not_single {a : Arg} (ch : Char) (h : isSingleDash a = false) :
    hasFlag ch a = false := by
  simp [hasFlag, h]

theorem isSingleDash_cluster (ls : List Char) (h1 : ls ≠ []) (h2 : '-' ∉ ls) :
    isSingleDash ('-' :: ls) = true := by
  cases ls with
  | nil => exact absurd rfl h1
  | cons c cs =>
    have hc : c ≠ '-' := fun e => h2 (by simp [e])
    unfold isSingleDash
    split
    · rename_i heq
      simp only [List.cons.injEq, true_and] at heq
      exact absurd heq.1 hc
    · rfl
    · rename_i _ hne
      exact absurd rfl (hne _)

theorem stripCluster_cluster (ls : List Char) : stripCluster ('-' :: ls) = '-' :: strip3 ls := by
  unfold stripCluster strip3
  have hd : ('-' :: ls).drop 1 = ls := rfl
  simp only [hd]
  rw [List.filter_cons]
  have h0 : (!(('-' == 'W' && ls.contains 'W') || ('-' == '1' && ls.contains '1') ||
      ('-' == '0' && ls.contains '0'))) = true := by
    have e1 : ('-' == 'W') = false := by decide
    have e2 : ('-' == '1') = false := by decide
    have e3 : ('-' == '0') = false := by decide
    simp [e1, e2, e3]
  rw [if_pos h0]
  congr 1
  apply List.filter_congr
  intro c hc
  by_cases hW : c = 'W'
  · subst hW; simp [hc]
  · by_cases h1 : c = '1'
    · subst h1; simp [hc]
    · by_cases h0 : c = '0'
      · subst h0; simp [hc]
      · have e1 : (c == 'W') = false := beq_eq_false_iff_ne.mpr hW
        have e2 : (c == '1') = false := beq_eq_false_iff_ne.mpr h1
        have e3 : (c == '0') = false := beq_eq_false_iff_ne.mpr h0
        simp only [e1, e2, e3, Bool.false_and, Bool.or_false]

theorem scanArg_cluster (ls : List Char) (h1 : ls ≠ []) (h2 : '-' ∉ ls) :
    scanArg ('-' :: ls) = if (strip3 ls).isEmpty then [] else '-' :: strip3 ls := by
  unfold scanArg
  rw [isSingleDash_cluster ls h1 h2, if_pos rfl, stripCluster_cluster]
  cases strip3 ls with
  | nil => simp
  | cons c cs => simp

theorem hasFlag_cluster (ch : Char) (ls : List Char) (h1 : ls ≠ []) (h2 : '-' ∉ ls) :
    hasFlag ch ('-' :: ls) = ls.contains ch := by
  unfold hasFlag
  rw [isSingleDash_cluster ls h1 h2]
  rfl

theorem tokOK_cluster {ls : List Char} (h : tokOK (.cluster ls) = true) :
    ls ≠ [] ∧ '-' ∉ ls ∧ '-' :: strip3 ls ≠ write1 ∧ '-' :: strip3 ls ≠ wquiet1 := by
  unfold tokOK at h
  simp only [Bool.and_eq_true, Bool.not_eq_true', bne_iff_ne, ne_eq] at h
  obtain ⟨⟨⟨h1, h2⟩, h3⟩, h4⟩ := h
  refine ⟨?_, ?_, h3, h4⟩
  · intro e; subst e; simp at h1
  · intro hm
    rw [List.contains_iff_mem.mpr hm] at h2
    cases h2

theorem notSp_ne {a : Arg} (h : tddaSpellings.contains a = false) :
    ∀ x ∈ tddaSpellings, a ≠ x := by
  intro x hx e
  subst e
  rw [List.contains_iff_mem.mpr hx] at h
  cases h

theorem notSp_cluster (r : List Char) (h1 : '-' ∉ r) (h2 : '-' :: r ≠ write1)
    (h3 : '-' :: r ≠ wquiet1) : tddaSpellings.contains ('-' :: r) = false := by
  cases r with
  | nil => decide
  | cons c cs =>
    have hc : c ≠ '-' := fun e => h1 (by simp [e])
    rw [Bool.eq_false_iff]
    intro hcon
    have hm : ('-' :: c :: cs) ∈ tddaSpellings := List.contains_iff_mem.mp hcon
    simp only [tddaSpellings, List.mem_cons, List.not_mem_nil, or_false] at hm
    rcases hm with e | e | e | e | e | e | e | e | e
    · exact h3 e
    · simp [wquiet2] at e; exact hc e.1
    · simp [writeAll1] at e; exact hc e.1
    · simp [writeAll2] at e; exact hc e.1
    · exact h2 e
    · simp [write2] at e; exact hc e.1
    · simp [write3] at e; exact hc e.1
    · simp [taggedOpt] at e; exact hc e.1
    · simp [istaggedOpt] at e; exact hc e.1

theorem strip3_subset (ls : List Char) : ∀ c ∈ strip3 ls, c ∈ ls :=
  fun _ hc => (List.mem_filter.mp hc).1

/-- classification of what a well-formed token leaves after the first loop -/
theorem keep1_cases (t : Tok) (h : tokOK t = true) (a : Arg) (ha : keep1 t = some a) :
    (tddaSpellings.contains a = false ∧ a ≠ [] ∧ t.residue = some a) ∨
    (t.residue = none ∧
      ((t = .tagged ∧ a = taggedOpt) ∨ (t = .istagged ∧ a = istaggedOpt) ∨
       (t = .writeAll true ∧ a = writeAll1) ∨ (t = .writeAll false ∧ a = writeAll2) ∨
       (t = .wquiet true ∧ a = wquiet1) ∨ (t = .wquiet false ∧ a = wquiet2))) := by
  cases t with
  | cluster ls =>
    obtain ⟨h1, h2, h3, h4⟩ := tokOK_cluster h
    left
    simp only [keep1] at ha
    split at ha
    · cases ha
    · rename_i hne
      cases ha
      refine ⟨notSp_cluster _ (fun hm => h2 (strip3_subset ls _ hm)) h3 h4, by simp, ?_⟩
      show (if (strip3 ls).isEmpty then none else some ('-' :: strip3 ls)) = _
      rw [if_neg hne]
  | tagged => right; cases ha; exact ⟨rfl, Or.inl ⟨rfl, rfl⟩⟩
  | istagged => right; cases ha; exact ⟨rfl, Or.inr (Or.inl ⟨rfl, rfl⟩)⟩
  | writeAll b =>
    right; cases ha
    cases b
    · exact ⟨rfl, Or.inr (Or.inr (Or.inr (Or.inl ⟨rfl, rfl⟩)))⟩
    · exact ⟨rfl, Or.inr (Or.inr (Or.inl ⟨rfl, rfl⟩))⟩
  | wquiet b =>
    right; cases ha
    cases b
    · exact ⟨rfl, Or.inr (Or.inr (Or.inr (Or.inr (Or.inr ⟨rfl, rfl⟩))))⟩
    · exact ⟨rfl, Or.inr (Or.inr (Or.inr (Or.inr (Or.inl ⟨rfl, rfl⟩))))⟩
  | other a' =>
    left; cases ha
    have := (plainArg_iff a').mp h
    exact ⟨this.2.2, this.1, rfl⟩

theorem keep1_none (t : Tok) (h : keep1 t = none) : t.residue = none := by
  cases t with
  | cluster ls =>
    simp only [keep1] at h
    split at h
    · rename_i he
      show (if (strip3 ls).isEmpty then none else some ('-' :: strip3 ls)) = _
      rw [if_pos he]
    · cases h
  | tagged => cases h
  | istagged => cases h
  | writeAll b => cases h
  | wquiet b => cases h
  | other a => cases h

theorem scanArg_render (t : Tok) (h : tokOK t = true) :
    scanArg t.render = (keep1 t).getD [] := by
  cases t with
  | cluster ls =>
    obtain ⟨h1, h2, _, _⟩ := tokOK_cluster h
    simp only [Tok.render, keep1]
    rw [scanArg_cluster ls h1 h2]
    split <;> rfl
  | tagged => decide
  | istagged => decide
  | writeAll b => cases b <;> decide
  | wquiet b => cases b <;> decide
  | other a =>
    have := (plainArg_iff a).mp h
    simp [Tok.render, keep1, scanArg_of_not_single this.2.1]

theorem hasFlag_render (t : Tok) (h : tokOK t = true) (ch : Char)
    (hch : ch = 'W' ∨ ch = '1' ∨ ch = '0') : hasFlag ch t.render = clusterHas ch t := by
  cases t with
  | cluster ls =>
    obtain ⟨h1, h2, _, _⟩ := tokOK_cluster h
    exact hasFlag_cluster ch ls h1 h2
  | tagged => rcases hch with rfl | rfl | rfl <;> decide
  | istagged => rcases hch with rfl | rfl | rfl <;> decide
  | writeAll b => cases b <;> rcases hch with rfl | rfl | rfl <;> decide
  | wquiet b => cases b <;> rcases hch with rfl | rfl | rfl <;> decide
  | other a =>
    have := (plainArg_iff a).mp h
    simp [Tok.render, clusterHas, hasFlag_of_not_single ch this.2.1]

/-! ### lists of tokens -/

def isWq (t : Tok) : Bool := match t with | .wquiet _ => true | _ => false
def isWA (t : Tok) : Bool := match t with | .writeAll _ => true | _ => false

theorem keep1_ne_nil (t : Tok) (h : tokOK t = true) (a : Arg) (ha : keep1 t = some a) : a ≠ [] := by
  rcases keep1_cases t h a ha with ⟨_, h, _⟩ | ⟨_, hh⟩
  · exact h
  · rcases hh with ⟨_, e⟩ | ⟨_, e⟩ | ⟨_, e⟩ | ⟨_, e⟩ | ⟨_, e⟩ | ⟨_, e⟩ <;> subst e <;> decide

/-- a well-formed token leaves a tdda spelling exactly when it is that option -/
theorem keep1_spelling (t : Tok) (h : tokOK t = true) :
    (keep1 t = some taggedOpt ↔ t = .tagged) ∧ (keep1 t = some istaggedOpt ↔ t = .istagged) ∧
    (keep1 t = some writeAll1 ↔ t = .writeAll true) ∧ (keep1 t = some writeAll2 ↔ t = .writeAll false) ∧
    (keep1 t = some wquiet1 ↔ t = .wquiet true) ∧ (keep1 t = some wquiet2 ↔ t = .wquiet false) := by
  refine ⟨⟨?_, ?_⟩, ⟨?_, ?_⟩, ⟨?_, ?_⟩, ⟨?_, ?_⟩, ⟨?_, ?_⟩, ⟨?_, ?_⟩⟩
  any_goals (intro e; subst e; rfl)
  all_goals
    intro hk
    rcases keep1_cases t h _ hk with ⟨hs, _, _⟩ | ⟨_, hh⟩
    · exact absurd rfl (notSp_ne hs _ (by decide))
    · rcases hh with ⟨e1, e2⟩ | ⟨e1, e2⟩ | ⟨e1, e2⟩ | ⟨e1, e2⟩ | ⟨e1, e2⟩ | ⟨e1, e2⟩
      all_goals first | exact e1 | exact absurd e2 (by decide)

theorem keep1_not_write (t : Tok) (h : tokOK t = true) (a : Arg) (ha : keep1 t = some a) :
    a ≠ write1 ∧ a ≠ write2 ∧ a ≠ write3 := by
  rcases keep1_cases t h a ha with ⟨hs, _, _⟩ | ⟨_, hh⟩
  · exact ⟨notSp_ne hs _ (by decide), notSp_ne hs _ (by decide), notSp_ne hs _ (by decide)⟩
  · rcases hh with ⟨_, e⟩ | ⟨_, e⟩ | ⟨_, e⟩ | ⟨_, e⟩ | ⟨_, e⟩ | ⟨_, e⟩ <;> subst e <;> decide

theorem phase2_toks (toks : List Tok) (ht : toks.all tokOK = true) :
    (toks.map (fun t => scanArg t.render)).filter (fun a => !a.isEmpty) = toks.filterMap keep1 := by
  induction toks with
  | nil => rfl
  | cons t ts ih =>
    simp only [List.all_cons, Bool.and_eq_true] at ht
    rw [List.map_cons, scanArg_render t ht.1]
    cases hk : keep1 t with
    | none =>
      rw [List.filterMap_cons_none hk]
      simp only [Option.getD_none, List.filter_cons, List.isEmpty_nil, Bool.not_true,
        Bool.false_eq_true, if_false]
      exact ih ht.2
    | some a =>
      have hne := keep1_ne_nil t ht.1 a hk
      have : (!a.isEmpty) = true := by cases a with
        | nil => exact absurd rfl hne
        | cons _ _ => rfl
      rw [List.filterMap_cons_some hk]
      simp only [Option.getD_some, List.filter_cons, this, if_true]
      rw [ih ht.2]

theorem flags_toks (toks : List Tok) (ht : toks.all tokOK = true) (ch : Char)
    (hch : ch = 'W' ∨ ch = '1' ∨ ch = '0') :
    (toks.map Tok.render).any (hasFlag ch) = toks.any (clusterHas ch) := by
  induction toks with
  | nil => rfl
  | cons t ts ih =>
    simp only [List.all_cons, Bool.and_eq_true] at ht
    simp only [List.map_cons, List.any_cons, hasFlag_render t ht.1 ch hch, ih ht.2]

theorem countP_keep1_le (P : Arg → Bool) (q : Tok → Bool)
    (hq : ∀ t a, tokOK t = true → keep1 t = some a → P a = true → q t = true)
    (toks : List Tok) (ht : toks.all tokOK = true) :
    (toks.filterMap keep1).countP P ≤ (toks.filter q).length := by
  induction toks with
  | nil => simp
  | cons t ts ih =>
    simp only [List.all_cons, Bool.and_eq_true] at ht
    have ih' := ih ht.2
    cases hk : keep1 t with
    | none =>
      rw [List.filterMap_cons_none hk]
      have := (List.filter_sublist (l := ts) (p := q)).length_le
      rw [List.filter_cons]
      split
      · simp only [List.length_cons]; omega
      · exact ih'
    | some a =>
      rw [List.filterMap_cons_some hk, List.countP_cons]
      by_cases hP : P a = true
      · rw [List.filter_cons, if_pos (hq t a ht.1 hk hP), if_pos hP]
        simp only [List.length_cons]; omega
      · rw [if_neg hP, List.filter_cons]
        split
        · simp only [List.length_cons]; omega
        · exact ih'

theorem mem_K_iff (toks : List Tok) (ht : toks.all tokOK = true) :
    (taggedOpt ∈ toks.filterMap keep1 ↔ Tok.tagged ∈ toks) ∧
    (istaggedOpt ∈ toks.filterMap keep1 ↔ Tok.istagged ∈ toks) ∧
    (writeAll1 ∈ toks.filterMap keep1 ↔ Tok.writeAll true ∈ toks) ∧
    (writeAll2 ∈ toks.filterMap keep1 ↔ Tok.writeAll false ∈ toks) ∧
    (wquiet1 ∈ toks.filterMap keep1 ↔ Tok.wquiet true ∈ toks) ∧
    (wquiet2 ∈ toks.filterMap keep1 ↔ Tok.wquiet false ∈ toks) := by
  have hall : ∀ t ∈ toks, tokOK t = true := List.all_eq_true.mp ht
  simp only [List.mem_filterMap]
  refine ⟨⟨?_, ?_⟩, ⟨?_, ?_⟩, ⟨?_, ?_⟩, ⟨?_, ?_⟩, ⟨?_, ?_⟩, ⟨?_, ?_⟩⟩
  · rintro ⟨t, hm, hk⟩; rw [(keep1_spelling t (hall t hm)).1.mp hk] at hm; exact hm
  · intro hm; exact ⟨_, hm, rfl⟩
  · rintro ⟨t, hm, hk⟩; rw [(keep1_spelling t (hall t hm)).2.1.mp hk] at hm; exact hm
  · intro hm; exact ⟨_, hm, rfl⟩
  · rintro ⟨t, hm, hk⟩; rw [(keep1_spelling t (hall t hm)).2.2.1.mp hk] at hm; exact hm
  · intro hm; exact ⟨_, hm, rfl⟩
  · rintro ⟨t, hm, hk⟩; rw [(keep1_spelling t (hall t hm)).2.2.2.1.mp hk] at hm; exact hm
  · intro hm; exact ⟨_, hm, rfl⟩
  · rintro ⟨t, hm, hk⟩; rw [(keep1_spelling t (hall t hm)).2.2.2.2.1.mp hk] at hm; exact hm
  · intro hm; exact ⟨_, hm, rfl⟩
  · rintro ⟨t, hm, hk⟩; rw [(keep1_spelling t (hall t hm)).2.2.2.2.2.mp hk] at hm; exact hm
  · intro hm; exact ⟨_, hm, rfl⟩

/-! ### the last filter: what is left is the residue -/

def P6 (a : Arg) : Bool :=
  !(a == istaggedOpt) && (!(a == taggedOpt) && (!(a == writeAll1 || a == writeAll2) &&
    (!(a == wquiet2) && !(a == wquiet1))))

theorem F5_eq (L : List Arg) :
    ((F3 L).filter (fun a => !(a == taggedOpt))).filter (fun a => !(a == istaggedOpt)) = L.filter P6 := by
  simp only [F3, List.filter_filter]
  rfl

theorem keep1_filter_P6 (t : Tok) (h : tokOK t = true) : (keep1 t).filter P6 = t.residue := by
  cases hk : keep1 t with
  | none => rw [keep1_none t hk]; rfl
  | some a =>
    rcases keep1_cases t h a hk with ⟨hs, _, hr⟩ | ⟨hr, hh⟩
    · have e1 : (a == istaggedOpt) = false := beq_eq_false_iff_ne.mpr (notSp_ne hs _ (by decide))
      have e2 : (a == taggedOpt) = false := beq_eq_false_iff_ne.mpr (notSp_ne hs _ (by decide))
      have e3 : (a == writeAll1) = false := beq_eq_false_iff_ne.mpr (notSp_ne hs _ (by decide))
      have e4 : (a == writeAll2) = false := beq_eq_false_iff_ne.mpr (notSp_ne hs _ (by decide))
      have e5 : (a == wquiet2) = false := beq_eq_false_iff_ne.mpr (notSp_ne hs _ (by decide))
      have e6 : (a == wquiet1) = false := beq_eq_false_iff_ne.mpr (notSp_ne hs _ (by decide))
      have : P6 a = true := by simp only [P6, e1, e2, e3, e4, e5, e6]; rfl
      rw [hr, Option.filter_some, if_pos this]
    · rw [hr]
      rcases hh with ⟨_, e⟩ | ⟨_, e⟩ | ⟨_, e⟩ | ⟨_, e⟩ | ⟨_, e⟩ | ⟨_, e⟩ <;> subst e <;> decide

theorem filter_P6_K (toks : List Tok) (ht : toks.all tokOK = true) :
    (toks.filterMap keep1).filter P6 = toks.filterMap Tok.residue := by
  rw [List.filter_filterMap]
  have hall := List.all_eq_true.mp ht
  clear ht
  induction toks with
  | nil => rfl
  | cons t ts ih =>
    have e := keep1_filter_P6 t (hall t (by simp))
    have ih' := ih (fun x hx => hall x (by simp [hx]))
    simp only [List.filterMap_cons, e, ih']

theorem contains_F3 (L : List Arg) (x : Arg) (h1 : x ≠ wquiet1) (h2 : x ≠ wquiet2)
    (h3 : x ≠ writeAll1) (h4 : x ≠ writeAll2) : (F3 L).contains x = L.contains x := by
  rw [Bool.eq_iff_iff]
  simp only [F3, List.contains_iff_mem, List.mem_filter]
  constructor
  · exact fun h => h.1.1.1
  · intro h
    refine ⟨⟨⟨h, by simpa using h1⟩, by simpa using h2⟩, ?_⟩
    have e3 : (x == writeAll1) = false := beq_eq_false_iff_ne.mpr h3
    have e4 : (x == writeAll2) = false := beq_eq_false_iff_ne.mpr h4
    simp only [e3, e4]; rfl

theorem F3_sublist (L : List Arg) : (F3 L).Sublist L :=
  (List.filter_sublist.trans List.filter_sublist).trans List.filter_sublist

theorem F3_append_right (K W : List Arg)
    (hW : ∀ a ∈ W, a ≠ wquiet1 ∧ a ≠ wquiet2 ∧ a ≠ writeAll1 ∧ a ≠ writeAll2) :
    F3 (K ++ W) = F3 K ++ W := by
  have f1 : W.filter (fun a => !(a == wquiet1)) = W :=
    List.filter_eq_self.mpr (fun a ha => by simpa using (hW a ha).1)
  have f2 : W.filter (fun a => !(a == wquiet2)) = W :=
    List.filter_eq_self.mpr (fun a ha => by simpa using (hW a ha).2.1)
  have f3 : W.filter (fun a => !(a == writeAll1 || a == writeAll2)) = W :=
    List.filter_eq_self.mpr (fun a ha => by
      have e3 : (a == writeAll1) = false := beq_eq_false_iff_ne.mpr (hW a ha).2.2.1
      have e4 : (a == writeAll2) = false := beq_eq_false_iff_ne.mpr (hW a ha).2.2.2
      simp only [e3, e4]; rfl)
  have : F3 W = W := by
    unfold F3
    rw [f1, f2, f3]
  unfold F3 at this ⊢
  simp only [List.filter_append]
  rw [this]

/-! ### the arguments after the tokens: a write spelling or plain -/

def tailArg (a : Arg) : Prop := a = write1 ∨ a = write2 ∨ a = write3 ∨ plainArg a = true

theorem tailArg_facts {a : Arg} (h : tailArg a) :
    scanArg a = a ∧ a ≠ [] ∧ hasFlag 'W' a = false ∧ hasFlag '1' a = false ∧ hasFlag '0' a = false ∧
      a ≠ wquiet1 ∧ a ≠ wquiet2 ∧ a ≠ writeAll1 ∧ a ≠ writeAll2 := by
  rcases h with rfl | rfl | rfl | h
  · decide
  · decide
  · decide
  · obtain ⟨h1, h2, h3⟩ := (plainArg_iff a).mp h
    exact ⟨scanArg_of_not_single h2, h1, hasFlag_of_not_single _ h2, hasFlag_of_not_single _ h2,
      hasFlag_of_not_single _ h2, notSp_ne h3 _ (by decide), notSp_ne h3 _ (by decide),
      notSp_ne h3 _ (by decide), notSp_ne h3 _ (by decide)⟩

theorem any_or_any {α : Type} (l : List α) (p q : α → Bool) :
    (l.any p || l.any q) = l.any (fun t => p t || q t) := by
  induction l with
  | nil => rfl
  | cons a as ih =>
    simp only [List.any_cons, ← ih]
    cases p a <;> cases q a <;> cases as.any p <;> cases as.any q <;> rfl

theorem contains_eq_any_beq (toks : List Tok) (x : Tok) : toks.contains x = toks.any (· == x) := by
  induction toks with
  | nil => rfl
  | cons t ts ih =>
    simp only [List.contains_cons, List.any_cons, ih]
    have : (x == t) = (t == x) := by
      rw [Bool.eq_iff_iff]; simp only [beq_iff_eq]; exact eq_comm
    rw [this]

theorem any_isWq (toks : List Tok) :
    (toks.contains (.wquiet true) || toks.contains (.wquiet false)) = toks.any isWq := by
  rw [Bool.eq_iff_iff]
  simp only [Bool.or_eq_true, List.contains_iff_mem, List.any_eq_true]
  constructor
  · rintro (h | h)
    · exact ⟨_, h, rfl⟩
    · exact ⟨_, h, rfl⟩
  · rintro ⟨t, hm, ht⟩
    cases t with
    | wquiet b => cases b
                  · exact Or.inr hm
                  · exact Or.inl hm
    | _ => cases ht

theorem any_isWA (toks : List Tok) :
    (toks.contains (.writeAll true) || toks.contains (.writeAll false)) = toks.any isWA := by
  rw [Bool.eq_iff_iff]
  simp only [Bool.or_eq_true, List.contains_iff_mem, List.any_eq_true]
  constructor
  · rintro (h | h)
    · exact ⟨_, h, rfl⟩
    · exact ⟨_, h, rfl⟩
  · rintro ⟨t, hm, ht⟩
    cases t with
    | writeAll b => cases b
                    · exact Or.inr hm
                    · exact Or.inl hm
    | _ => cases ht

/-! ### assembling phases 1–4 -/

theorem scanLeading_init (l : List Arg) :
    scanLeading l {} =
      (l.map scanArg,
       { tagged := l.any (hasFlag '1'), check := l.any (hasFlag '0'),
         regenerate := l.any (hasFlag 'W') }) := by
  rw [scanLeading_eq]
  rfl

theorem contains_append_right (K W : List Arg) (x : Arg) (h : ∀ a ∈ W, a ≠ x) :
    (K ++ W).contains x = K.contains x := by
  rw [Bool.eq_iff_iff]
  simp only [List.contains_iff_mem, List.mem_append]
  constructor
  · rintro (h' | h')
    · exact h'
    · exact absurd rfl (h x h')
  · exact Or.inl

theorem countP_append_right (K W : List Arg) (P : Arg → Bool) (h : ∀ a ∈ W, P a = false) :
    (K ++ W).countP P = K.countP P := by
  rw [List.countP_append]
  have : W.countP P = 0 := List.countP_eq_zero.mpr (fun a ha => by simp [h a ha])
  omega

theorem parse_toks (p : Arg) (toks : List Tok) (W : List Arg)
    (hp : plainArg p = true) (ht : toks.all tokOK = true)
    (c3 : (toks.filter isWA).length ≤ 1) (c4 : (toks.filter isWq).length ≤ 1)
    (hW : ∀ a ∈ W, tailArg a) :
    parseArgv (p :: toks.map Tok.render ++ W) =
      match writePhase ((p :: F3 (toks.filterMap keep1)) ++ W) with
      | .error e => .error e
      | .ok (argv4, kinds) =>
        .ok { argv := (tagPhase istaggedOpt (tagPhase taggedOpt argv4).1).1,
              tagged := toks.any (clusterHas '1') || (tagPhase taggedOpt argv4).2,
              check := toks.any (clusterHas '0') || (tagPhase istaggedOpt (tagPhase taggedOpt argv4).1).2,
              quiet := toks.any isWq,
              regen := kinds ++
                (if toks.any isWA || toks.any (clusterHas 'W') then [none] else []) } := by
  obtain ⟨hp1, hp2, hp3⟩ := (plainArg_iff p).mp hp
  have hall := List.all_eq_true.mp ht
  have hWf := fun a ha => tailArg_facts (hW a ha)
  rw [parseArgv_eq_post]
  have hd : (p :: toks.map Tok.render ++ W).drop 1 = toks.map Tok.render ++ W := rfl
  have htk : (p :: toks.map Tok.render ++ W).take 1 = [p] := rfl
  rw [hd, htk, scanLeading_init]
  simp only []
  -- phase 2
  have eW : W.map scanArg = W := by
    rw [List.map_congr_left (fun a ha => (hWf a ha).1)]
    exact List.map_id' W
  have fW : W.filter (fun a => !a.isEmpty) = W :=
    List.filter_eq_self.mpr (fun a ha => by
      have := (hWf a ha).2.1
      cases a with
      | nil => exact absurd rfl this
      | cons _ _ => rfl)
  have pne : (!p.isEmpty) = true := by
    cases p with
    | nil => exact absurd rfl hp1
    | cons _ _ => rfl
  have e1 : ([p] ++ (toks.map Tok.render ++ W).map scanArg).filter (fun a => !a.isEmpty) =
      p :: (toks.filterMap keep1 ++ W) := by
    rw [List.map_append, List.map_map, eW]
    simp only [List.cons_append, List.nil_append, List.filter_cons, pne, if_true, List.filter_append, fW]
    have := phase2_toks toks ht
    simp only [Function.comp_def] at this ⊢
    rw [this]
  -- flags of phase 1
  have fl : ∀ ch, (ch = 'W' ∨ ch = '1' ∨ ch = '0') →
      (toks.map Tok.render ++ W).any (hasFlag ch) = toks.any (clusterHas ch) := by
    intro ch hch
    rw [List.any_append, flags_toks toks ht ch hch]
    have : W.any (hasFlag ch) = false := by
      rw [List.any_eq_false]
      intro a ha
      have := hWf a ha
      rcases hch with rfl | rfl | rfl
      · simp [this.2.2.1]
      · simp [this.2.2.2.1]
      · simp [this.2.2.2.2.1]
    rw [this, Bool.or_false]
  rw [e1, fl 'W' (Or.inl rfl), fl '1' (Or.inr (Or.inl rfl)), fl '0' (Or.inr (Or.inr rfl))]
  -- counts
  have k1 : (toks.filterMap keep1 ++ W).countP (· == wquiet1) ≤ 1 := by
    rw [countP_append_right _ _ _ (fun a ha => beq_eq_false_iff_ne.mpr (hWf a ha).2.2.2.2.2.1)]
    refine Nat.le_trans (countP_keep1_le _ isWq ?_ toks ht) c4
    intro t a hk ha hP
    have : a = wquiet1 := by simpa using hP
    subst this
    rw [(keep1_spelling t hk).2.2.2.2.1.mp ha]; rfl
  have k2 : (toks.filterMap keep1 ++ W).countP (· == wquiet2) ≤ 1 := by
    rw [countP_append_right _ _ _ (fun a ha => beq_eq_false_iff_ne.mpr (hWf a ha).2.2.2.2.2.2.1)]
    refine Nat.le_trans (countP_keep1_le _ isWq ?_ toks ht) c4
    intro t a hk ha hP
    have : a = wquiet2 := by simpa using hP
    subst this
    rw [(keep1_spelling t hk).2.2.2.2.2.mp ha]; rfl
  have k3 : (toks.filterMap keep1 ++ W).countP (fun a => a == writeAll1 || a == writeAll2) ≤ 1 := by
    rw [countP_append_right _ _ _ (fun a ha => by
      have e3 : (a == writeAll1) = false := beq_eq_false_iff_ne.mpr (hWf a ha).2.2.2.2.2.2.2.1
      have e4 : (a == writeAll2) = false := beq_eq_false_iff_ne.mpr (hWf a ha).2.2.2.2.2.2.2.2
      simp only [e3, e4]; rfl)]
    refine Nat.le_trans (countP_keep1_le _ isWA ?_ toks ht) c3
    intro t a hk ha hP
    simp only [Bool.or_eq_true, beq_iff_eq] at hP
    rcases hP with rfl | rfl
    · rw [(keep1_spelling t hk).2.2.1.mp ha]; rfl
    · rw [(keep1_spelling t hk).2.2.2.1.mp ha]; rfl
  rw [post_front p _ _ (notSp_ne hp3 _ (by decide)) (notSp_ne hp3 _ (by decide))
    (notSp_ne hp3 _ (by decide)) (notSp_ne hp3 _ (by decide)) k1 k2 k3]
  rw [F3_append_right _ W (fun a ha => (hWf a ha).2.2.2.2.2)]
  -- the flags found by the removal phases
  obtain ⟨_, _, m3, m4, m5, m6⟩ := mem_K_iff toks ht
  have q1 : (toks.filterMap keep1 ++ W).contains wquiet1 = toks.contains (.wquiet true) := by
    rw [contains_append_right _ _ _ (fun a ha => (hWf a ha).2.2.2.2.2.1), Bool.eq_iff_iff]
    simpa only [List.contains_iff_mem] using m5
  have q2 : (toks.filterMap keep1 ++ W).contains wquiet2 = toks.contains (.wquiet false) := by
    rw [contains_append_right _ _ _ (fun a ha => (hWf a ha).2.2.2.2.2.2.1), Bool.eq_iff_iff]
    simpa only [List.contains_iff_mem] using m6
  have q3 : (toks.filterMap keep1 ++ W).contains writeAll1 = toks.contains (.writeAll true) := by
    rw [contains_append_right _ _ _ (fun a ha => (hWf a ha).2.2.2.2.2.2.2.1), Bool.eq_iff_iff]
    simpa only [List.contains_iff_mem] using m3
  have q4 : (toks.filterMap keep1 ++ W).contains writeAll2 = toks.contains (.writeAll false) := by
    rw [contains_append_right _ _ _ (fun a ha => (hWf a ha).2.2.2.2.2.2.2.2), Bool.eq_iff_iff]
    simpa only [List.contains_iff_mem] using m4
  rw [q1, q2, q3, q4, any_isWq, any_isWA]
  rfl

/-! ### the tag phases and the final result -/

theorem WF_parts (c : Cmd) (h : c.WF = true) :
    plainArg c.prog = true ∧ c.toks.all tokOK = true ∧
    (c.toks.filter (· == .tagged)).length ≤ 1 ∧ (c.toks.filter (· == .istagged)).length ≤ 1 ∧
    (c.toks.filter isWA).length ≤ 1 ∧ (c.toks.filter isWq).length ≤ 1 ∧
    (match c.write with
     | none => True
     | some (_, kinds) => kinds ≠ [] ∧ ∀ k ∈ kinds, plainArg k = true) := by
  unfold Cmd.WF at h
  simp only [Bool.and_eq_true, decide_eq_true_eq] at h
  obtain ⟨⟨⟨⟨⟨⟨h1, h2⟩, h3⟩, h4⟩, h5⟩, h6⟩, h7⟩ := h
  refine ⟨h1, h2, h3, h4, h5, h6, ?_⟩
  cases hw : c.write with
  | none => trivial
  | some sk =>
    obtain ⟨s, kinds⟩ := sk
    rw [hw] at h7
    simp only [Bool.and_eq_true, List.all_eq_true] at h7
    refine ⟨?_, h7.2⟩
    intro e
    rw [e] at h7
    simp at h7

theorem parse_finish (p : Arg) (toks : List Tok) (W : List Arg) (R : List (Option Arg))
    (hp : plainArg p = true) (ht : toks.all tokOK = true)
    (c1 : (toks.filter (· == .tagged)).length ≤ 1) (c2 : (toks.filter (· == .istagged)).length ≤ 1)
    (c3 : (toks.filter isWA).length ≤ 1) (c4 : (toks.filter isWq).length ≤ 1)
    (hW : ∀ a ∈ W, tailArg a)
    (hw : writePhase ((p :: F3 (toks.filterMap keep1)) ++ W) = .ok (p :: F3 (toks.filterMap keep1), R)) :
    parseArgv (p :: toks.map Tok.render ++ W) =
      .ok { argv := p :: toks.filterMap Tok.residue,
            tagged := toks.any (fun t => t == .tagged || clusterHas '1' t),
            check := toks.any (fun t => t == .istagged || clusterHas '0' t),
            quiet := toks.any isWq,
            regen := R ++ (if toks.any (fun t => clusterHas 'W' t || isWA t) then [none] else []) } := by
  obtain ⟨hp1, hp2, hp3⟩ := (plainArg_iff p).mp hp
  rw [parse_toks p toks W hp ht c3 c4 hW, hw]
  simp only []
  have s3 := F3_sublist (toks.filterMap keep1)
  have k1 : (F3 (toks.filterMap keep1)).countP (· == taggedOpt) ≤ 1 := by
    refine Nat.le_trans (s3.countP_le (p := (· == taggedOpt))) ?_
    refine Nat.le_trans (countP_keep1_le _ (· == .tagged) ?_ toks ht) c1
    intro t a hk ha hP
    have : a = taggedOpt := by simpa using hP
    subst this
    rw [(keep1_spelling t hk).1.mp ha]; rfl
  have k2 : ((F3 (toks.filterMap keep1)).filter (fun a => !(a == taggedOpt))).countP (· == istaggedOpt) ≤ 1 := by
    refine Nat.le_trans ((List.filter_sublist.trans s3).countP_le (p := (· == istaggedOpt))) ?_
    refine Nat.le_trans (countP_keep1_le _ (· == .istagged) ?_ toks ht) c2
    intro t a hk ha hP
    have : a = istaggedOpt := by simpa using hP
    subst this
    rw [(keep1_spelling t hk).2.1.mp ha]; rfl
  rw [tagPhase_eq taggedOpt p _ (notSp_ne hp3 _ (by decide)) k1]
  simp only []
  rw [tagPhase_eq istaggedOpt p _ (notSp_ne hp3 _ (by decide)) k2]
  simp only []
  rw [F5_eq, filter_P6_K toks ht]
  obtain ⟨m1, m2, _⟩ := mem_K_iff toks ht
  have q1 : (F3 (toks.filterMap keep1)).contains taggedOpt = toks.any (· == .tagged) := by
    rw [contains_F3 _ _ (by decide) (by decide) (by decide) (by decide), ← contains_eq_any_beq,
      Bool.eq_iff_iff]
    simpa only [List.contains_iff_mem] using m1
  have q2 : ((F3 (toks.filterMap keep1)).filter (fun a => !(a == taggedOpt))).contains istaggedOpt =
      toks.any (· == .istagged) := by
    have : ((F3 (toks.filterMap keep1)).filter (fun a => !(a == taggedOpt))).contains istaggedOpt =
        (F3 (toks.filterMap keep1)).contains istaggedOpt := by
      rw [Bool.eq_iff_iff]
      simp only [List.contains_iff_mem, List.mem_filter]
      constructor
      · exact fun h => h.1
      · exact fun h => ⟨h, by decide⟩
    rw [this, contains_F3 _ _ (by decide) (by decide) (by decide) (by decide), ← contains_eq_any_beq,
      Bool.eq_iff_iff]
    simpa only [List.contains_iff_mem] using m2
  rw [q1, q2]
  rw [Bool.or_comm (toks.any (clusterHas '1')), Bool.or_comm (toks.any (clusterHas '0')),
    Bool.or_comm (toks.any isWA), any_or_any, any_or_any, any_or_any]

theorem not_write_F3K (p : Arg) (toks : List Tok) (hp : plainArg p = true) (ht : toks.all tokOK = true) :
    write1 ∉ p :: F3 (toks.filterMap keep1) ∧ write2 ∉ p :: F3 (toks.filterMap keep1) ∧
    write3 ∉ p :: F3 (toks.filterMap keep1) := by
  obtain ⟨hp1, hp2, hp3⟩ := (plainArg_iff p).mp hp
  have hall := List.all_eq_true.mp ht
  have key : ∀ a ∈ p :: F3 (toks.filterMap keep1), a ≠ write1 ∧ a ≠ write2 ∧ a ≠ write3 := by
    intro a ha
    rcases List.mem_cons.mp ha with rfl | ha
    · exact ⟨notSp_ne hp3 _ (by decide), notSp_ne hp3 _ (by decide), notSp_ne hp3 _ (by decide)⟩
    · obtain ⟨t, hm, hk⟩ := List.mem_filterMap.mp ((F3_sublist _).subset ha)
      exact keep1_not_write t (hall t hm) a hk
  exact ⟨fun h => (key _ h).1 rfl, fun h => (key _ h).2.1 rfl, fun h => (key _ h).2.2 rfl⟩

theorem parseArgv_spec' (c : Cmd) (h : c.WF = true) : parseArgv c.render = .ok c.meaning := by
  obtain ⟨hp, ht, c1, c2, c3, c4, hwr⟩ := WF_parts c h
  obtain ⟨n1, n2, n3⟩ := not_write_F3K c.prog c.toks hp ht
  unfold Cmd.render Cmd.meaning
  cases hcw : c.write with
  | none =>
    have hw : writePhase ((c.prog :: F3 (c.toks.filterMap keep1)) ++ []) =
        .ok (c.prog :: F3 (c.toks.filterMap keep1), []) := by
      rw [List.append_nil]
      exact writePhase_none _ n1 n2 n3
    exact parse_finish c.prog c.toks [] [] hp ht c1 c2 c3 c4 (by simp) hw
  | some sk =>
    obtain ⟨s, kinds⟩ := sk
    rw [hcw] at hwr
    obtain ⟨hk0, hk⟩ := hwr
    have hkn : ∀ k ∈ kinds, k ≠ write1 ∧ k ≠ write2 := by
      intro k hm
      have := (plainArg_iff k).mp (hk k hm)
      exact ⟨notSp_ne this.2.2 _ (by decide), notSp_ne this.2.2 _ (by decide)⟩
    have hw := writePhase_some (c.prog :: F3 (c.toks.filterMap keep1)) s kinds (by simp) n1 n2 n3
      (fun hm => (hkn _ hm).1 rfl) (fun hm => (hkn _ hm).2 rfl)
    rw [if_neg hk0] at hw
    have hW : ∀ a ∈ writeSpelling s :: kinds, tailArg a := by
      intro a ha
      rcases List.mem_cons.mp ha with rfl | ha
      · match s with
        | 0 => exact Or.inl rfl
        | 1 => exact Or.inr (Or.inl rfl)
        | n + 2 => exact Or.inr (Or.inr (Or.inl rfl))
      · exact Or.inr (Or.inr (Or.inr (hk a ha)))
    exact parse_finish c.prog c.toks _ _ hp ht c1 c2 c3 c4 hW hw

theorem write_needs_kinds' (prog : Arg) (toks : List Tok) (s : Nat)
    (h : (Cmd.mk prog toks none).WF = true) :
    parseArgv (prog :: toks.map Tok.render ++ [writeSpelling s]) = .error .writeNeedsParams := by
  obtain ⟨hp, ht, c1, c2, c3, c4, _⟩ := WF_parts _ h
  obtain ⟨n1, n2, n3⟩ := not_write_F3K prog toks hp ht
  have hW : ∀ a ∈ [writeSpelling s], tailArg a := by
    intro a ha
    rw [List.mem_singleton] at ha
    subst ha
    match s with
    | 0 => exact Or.inl rfl
    | 1 => exact Or.inr (Or.inl rfl)
    | n + 2 => exact Or.inr (Or.inr (Or.inl rfl))
  have hw := writePhase_some (prog :: F3 (toks.filterMap keep1)) s [] (by simp) n1 n2 n3
    (by simp) (by simp)
  rw [if_pos rfl] at hw
  rw [parse_toks prog toks _ hp ht c3 c4 hW, hw]

end TddaVerif.Props.C19.Lemmas
