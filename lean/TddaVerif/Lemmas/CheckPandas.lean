/- Lemmas for C05 (DataFrame comparison). -/
import TddaVerif.Model.CheckPandas
import TddaVerif.Props.C05Spec
namespace TddaVerif.Props.C05.Lemmas
open TddaVerif.Py TddaVerif.CheckPandas TddaVerif.Props.C05

theorem typesMatch_iff (a b : Line) (level : Level) : typesMatch a b level = true ↔ TypesAgree a b level := by
  unfold typesMatch TypesAgree
  by_cases hab : a = b
  · subst hab; simp
  · cases level <;> simp [hab, or_assoc]

theorem eraseDups_eq_nil {α} [BEq α] (l : List α) : l.eraseDups = [] ↔ l = [] := by
  cases l with
  | nil => simp
  | cons a as => simp [List.eraseDups_cons]

theorem map_name_cat (l : List Col) : (l.map catAsString).map (·.name) = l.map (·.name) := by
  rw [List.map_map]
  apply List.map_congr_left
  intro c _
  simp only [Function.comp, catAsString]
  split <;> rfl


theorem same_iff (act ref : List Col) (ct ce : Flag) (co : Option Flag) (level : Level) :
    (structureOf act ref ct ce co level).same = true ↔
      (∀ c ∈ resolve ct (ref.map (·.name)), c ∈ act.map (·.name) ∧ c ∈ ref.map (·.name) ∧
            ∀ ta tr, dtypeC act c = some ta → dtypeC ref c = some tr → TypesAgree ta tr level) ∧
      (∀ c ∈ resolve ce (act.map (·.name)), c ∈ ref.map (·.name)) ∧
      (∀ f, co = some f →
        (act.map (·.name)).filter (fun c => (resolve f (ref.map (·.name))).contains c && (ref.map (·.name)).contains c)
        = (ref.map (·.name)).filter (fun c => (resolve f (ref.map (·.name))).contains c && (act.map (·.name)).contains c)) := by
  unfold Structure.same structureOf
  simp only [map_name_cat, Bool.and_eq_true, List.isEmpty_iff, List.filter_eq_nil_iff, eraseDups_eq_nil,
    List.append_eq_nil_iff, ← typesMatch_iff, dtypeC]
  generalize List.map (fun x => x.name) act = an
  generalize List.map (fun x => x.name) ref = rn
  generalize resolve ct rn = CT
  generalize resolve ce an = CE
  generalize dtypeOf (List.map catAsString act) = A
  generalize dtypeOf (List.map catAsString ref) = R
  constructor
  · rintro ⟨⟨⟨hmiss, hextra, hunexp⟩, hwrong⟩, hord⟩
    have hmiss' : ∀ a ∈ CT, a ∈ an := fun a ha => by simpa using hmiss a ha
    have hnil : List.filter (fun c => !an.contains c) CT = [] := by
      simp only [List.filter_eq_nil_iff]; exact hmiss
    refine ⟨fun c hc => ⟨hmiss' c hc, ?_, ?_⟩, ?_, ?_⟩
    · have := hunexp c hc
      simpa [hmiss' c hc] using this
    · intro ta tr hta htr
      have := hwrong c hc
      simpa [hmiss' c hc, hta, htr] using this
    · intro c hc; simpa using hextra c hc
    · intro f hf
      subst hf
      simp only [hnil] at hord
      simpa using hord
  · rintro ⟨htypes, hextra, hord⟩
    have hnil : List.filter (fun c => !an.contains c) CT = [] := by
      simp only [List.filter_eq_nil_iff]
      intro a ha; simp [(htypes a ha).1]
    refine ⟨⟨⟨?_, ?_, ?_⟩, ?_⟩, ?_⟩
    · intro a ha; simp [(htypes a ha).1]
    · intro a ha; simp [hextra a ha]
    · intro a ha; simp [(htypes a ha).2.1]
    · intro a ha
      have h3 := (htypes a ha).2.2
      cases hA : A a <;> cases hR : R a <;> simp
      rename_i ta tr
      intro _
      exact h3 ta tr hA hR
    · cases co with
      | none => simp
      | some f =>
        simp only [hnil]
        simpa using hord f rfl


theorem filter_const_true {α} (l : List α) : l.filter (fun _ => true) = l := by
  induction l with
  | nil => rfl
  | cons a as ih => simp [List.filter]

theorem missing_nil_of_same {s : Structure} (h : s.same = true) : s.missing = [] := by
  simp only [Structure.same, Bool.and_eq_true, List.isEmpty_iff] at h
  exact h.1.1.1

/-- the model's verdict is the stated rule -/
theorem check_iff_agree (act ref : List Col) (nact nref : Nat) (cd ct ce : Flag) (co : Option Flag)
    (level : Level) (ve : List Line → Bool) :
    checkDataframe act ref nact nref cd ct ce co level ve = true ↔ Agree act ref nact nref cd ct ce co level ve := by
  unfold checkDataframe
  by_cases hs : (structureOf act ref ct ce co level).same = true
  · have hm := missing_nil_of_same hs
    obtain ⟨h1, h2, h3⟩ := (same_iff act ref ct ce co level).1 hs
    simp only [hs, hm]
    by_cases hn : nact = nref
    · subst hn
      simp
      constructor
      · rintro ⟨hd, hv⟩
        refine ⟨h1, h2, h3, rfl, ?_, ?_⟩
        · intro c hc
          obtain ⟨x, hx, hxn, y, hy, hyn⟩ := hd c hc
          exact ⟨List.mem_map.2 ⟨x, hx, hxn⟩, List.mem_map.2 ⟨y, hy, hyn⟩⟩
        · intro hne
          cases hv with
          | inl h => exact absurd h hne
          | inr h => rwa [filter_const_true] at h
      · intro h
        refine ⟨?_, ?_⟩
        · intro c hc
          obtain ⟨ha, hr⟩ := h.dataCols c hc
          obtain ⟨x, hx, hxn⟩ := List.mem_map.1 ha
          obtain ⟨y, hy, hyn⟩ := List.mem_map.1 hr
          exact ⟨x, hx, hxn, y, hy, hyn⟩
        · by_cases hne : resolve cd (List.map (fun x => x.name) ref) = []
          · exact Or.inl hne
          · right; rw [filter_const_true]; exact h.values hne
    · simp [hn]
      exact fun h => hn h.rows
  · simp only [hs]
    simp
    intro h
    exact hs ((same_iff act ref ct ce co level).2 ⟨h.types, h.extra, h.order⟩)


theorem typesMatch_refl (a : Line) (level : Level) : typesMatch a a level = true :=
  (typesMatch_iff a a level).2 (Or.inl rfl)

theorem typesAgree_symm {a b : Line} {level : Level} (h : TypesAgree a b level) : TypesAgree b a level := by
  rcases h with h | ⟨hl, h | h | h | ⟨hp, ha, hb⟩⟩
  · exact Or.inl h.symm
  · exact Or.inr ⟨hl, Or.inl h.symm⟩
  · exact Or.inr ⟨hl, Or.inr (Or.inr (Or.inl h))⟩
  · exact Or.inr ⟨hl, Or.inr (Or.inl h)⟩
  · exact Or.inr ⟨hl, Or.inr (Or.inr (Or.inr ⟨hp, hb, ha⟩))⟩

theorem typesMatch_symm (a b : Line) (level : Level) : typesMatch a b level = typesMatch b a level := by
  rw [Bool.eq_iff_iff, typesMatch_iff, typesMatch_iff]
  exact ⟨typesAgree_symm, typesAgree_symm⟩

theorem typesMatch_strict_to_medium (a b : Line) (h : typesMatch a b .strict = true) : typesMatch a b .medium = true := by
  rw [typesMatch_iff] at *
  rcases h with h | ⟨hl, _⟩
  · exact Or.inl h
  · exact absurd rfl hl

theorem typesMatch_medium_to_permissive (a b : Line) (h : typesMatch a b .medium = true) :
    typesMatch a b .permissive = true := by
  rw [typesMatch_iff] at *
  rcases h with h | ⟨_, h | h | h | ⟨hp, _, _⟩⟩
  · exact Or.inl h
  · exact Or.inr ⟨by decide, Or.inl h⟩
  · exact Or.inr ⟨by decide, Or.inr (Or.inl h)⟩
  · exact Or.inr ⟨by decide, Or.inr (Or.inr (Or.inl h))⟩
  · exact absurd hp (by decide)

theorem copy_passes (f : List Col) (n : Nat) (cd ct ce : Flag) (co : Option Flag) (level : Level)
    (ve : List Line → Bool) (hve : ∀ cols, ve cols = true)
    (hct : ∀ c ∈ resolve ct (f.map (·.name)), c ∈ f.map (·.name))
    (hcd : ∀ c ∈ resolve cd (f.map (·.name)), c ∈ f.map (·.name))
    (hce : ∀ c ∈ resolve ce (f.map (·.name)), c ∈ f.map (·.name)) :
    checkDataframe f f n n cd ct ce co level ve = true := by
  rw [check_iff_agree]
  refine ⟨?_, hce, fun _ _ => rfl, rfl, fun c hc => ⟨hcd c hc, hcd c hc⟩, fun _ => hve _⟩
  intro c hc
  refine ⟨hct c hc, hct c hc, ?_⟩
  intro ta tr ha hr
  rw [ha] at hr
  exact Or.inl (Option.some.inj hr)

theorem fails_of_not_agree {act ref : List Col} {nact nref : Nat} {cd ct ce : Flag} {co : Option Flag}
    {level : Level} {ve : List Line → Bool} (h : ¬ Agree act ref nact nref cd ct ce co level ve) :
    checkDataframe act ref nact nref cd ct ce co level ve = false := by
  rw [← Bool.not_eq_true, check_iff_agree]; exact h

theorem rowcount_fails (act ref : List Col) (nact nref : Nat) (cd ct ce : Flag) (co : Option Flag)
    (level : Level) (ve : List Line → Bool) (h : nact ≠ nref) :
    checkDataframe act ref nact nref cd ct ce co level ve = false :=
  fails_of_not_agree fun hA => h hA.rows

theorem missing_column_fails (act ref : List Col) (nact nref : Nat) (cd ct ce : Flag) (co : Option Flag)
    (level : Level) (ve : List Line → Bool) (c : Line)
    (hc : c ∈ resolve ct (ref.map (·.name))) (hm : c ∉ act.map (·.name)) :
    checkDataframe act ref nact nref cd ct ce co level ve = false :=
  fails_of_not_agree fun hA => hm (hA.types c hc).1

theorem extra_column_fails (act ref : List Col) (nact nref : Nat) (cd ct ce : Flag) (co : Option Flag)
    (level : Level) (ve : List Line → Bool) (c : Line)
    (hc : c ∈ resolve ce (act.map (·.name))) (hm : c ∉ ref.map (·.name)) :
    checkDataframe act ref nact nref cd ct ce co level ve = false :=
  fails_of_not_agree fun hA => hm (hA.extra c hc)

theorem wrong_type_fails (act ref : List Col) (nact nref : Nat) (cd ct ce : Flag) (co : Option Flag)
    (level : Level) (ve : List Line → Bool) (c ta tr : Line)
    (hc : c ∈ resolve ct (ref.map (·.name)))
    (ha : dtypeC act c = some ta) (hr : dtypeC ref c = some tr) (hne : ¬ TypesAgree ta tr level) :
    checkDataframe act ref nact nref cd ct ce co level ve = false :=
  fails_of_not_agree fun hA => hne ((hA.types c hc).2.2 ta tr ha hr)

theorem wrong_order_fails (act ref : List Col) (nact nref : Nat) (cd ct ce : Flag) (f : Flag)
    (level : Level) (ve : List Line → Bool)
    (h : (act.map (·.name)).filter (fun c => (resolve f (ref.map (·.name))).contains c && (ref.map (·.name)).contains c)
       ≠ (ref.map (·.name)).filter (fun c => (resolve f (ref.map (·.name))).contains c && (act.map (·.name)).contains c)) :
    checkDataframe act ref nact nref cd ct ce (some f) level ve = false :=
  fails_of_not_agree fun hA => h (hA.order f rfl)

theorem value_difference_fails (act ref : List Col) (nact nref : Nat) (cd ct ce : Flag) (co : Option Flag)
    (level : Level) (ve : List Line → Bool)
    (hne : resolve cd (ref.map (·.name)) ≠ []) (h : ve (resolve cd (ref.map (·.name))) = false) :
    checkDataframe act ref nact nref cd ct ce co level ve = false :=
  fails_of_not_agree fun hA => by
    have := hA.values hne
    rw [h] at this
    exact Bool.false_ne_true this

theorem filter_eq_self_of_forall {α} {p : α → Bool} {l : List α} (h : ∀ x ∈ l, p x = true) : l.filter p = l :=
  List.filter_eq_self.2 h

/-- swapping two distinct adjacent-or-not columns of a frame with distinct names changes the order
    (the `Nodup` hypothesis is not needed by the proof) -/
theorem swap_changes_order (pre mid post : List Line) (a b : Line) (hab : a ≠ b)
    (_hnd : (pre ++ a :: mid ++ b :: post).Nodup) :
    (pre ++ b :: mid ++ a :: post).filter (fun c => (pre ++ a :: mid ++ b :: post).contains c && (pre ++ a :: mid ++ b :: post).contains c)
      ≠ (pre ++ a :: mid ++ b :: post).filter (fun c => (pre ++ a :: mid ++ b :: post).contains c && (pre ++ b :: mid ++ a :: post).contains c) := by
  have hmem : ∀ c, c ∈ pre ++ b :: mid ++ a :: post ↔ c ∈ pre ++ a :: mid ++ b :: post := by
    intro c
    simp only [List.mem_append, List.mem_cons]
    constructor <;> (intro h; rcases h with (h | h | h) | h | h <;> simp [h])
  rw [filter_eq_self_of_forall, filter_eq_self_of_forall]
  · intro h
    rw [List.append_assoc, List.append_assoc] at h
    have h' := List.append_cancel_left h
    exact hab (List.cons.inj h').1.symm
  · intro c hc
    have h2 := (hmem c).2 hc
    simp only [Bool.and_eq_true, List.contains_iff_mem]
    exact ⟨hc, h2⟩
  · intro c hc
    have h2 := (hmem c).1 hc
    simp only [Bool.and_eq_true, List.contains_iff_mem]
    exact ⟨h2, h2⟩

end TddaVerif.Props.C05.Lemmas
