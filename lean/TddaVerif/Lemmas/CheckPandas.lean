/- Lemmas for C05 (DataFrame comparison). -/
import TddaVerif.Model.CheckPandas
import TddaVerif.Props.C05Spec

namespace TddaVerif.Props.C05.Lemmas
open TddaVerif.Py TddaVerif.CheckPandas TddaVerif.Props.C05

theorem typesMatch_iff (a b : Line) (level : Level) : typesMatch a b level = true ↔ TypesAgree a b level := by
  sorry

theorem typesMatch_refl (a : Line) (level : Level) : typesMatch a a level = true := by
  sorry

theorem typesMatch_symm (a b : Line) (level : Level) : typesMatch a b level = typesMatch b a level := by
  sorry

theorem typesMatch_strict_to_medium (a b : Line) (h : typesMatch a b .strict = true) : typesMatch a b .medium = true := by
  sorry

theorem typesMatch_medium_to_permissive (a b : Line) (h : typesMatch a b .medium = true) :
    typesMatch a b .permissive = true := by
  sorry

/-- the model's verdict is the stated rule -/
theorem check_iff_agree (act ref : List Col) (nact nref : Nat) (cd ct ce : Flag) (co : Option Flag)
    (level : Level) (ve : List Line → Bool) :
    checkDataframe act ref nact nref cd ct ce co level ve = true ↔ Agree act ref nact nref cd ct ce co level ve := by
  sorry

/-- a copy of a frame passes whatever the options, provided the listed names exist and the values of a
    copy compare equal -/
theorem copy_passes (f : List Col) (n : Nat) (cd ct ce : Flag) (co : Option Flag) (level : Level)
    (ve : List Line → Bool) (hve : ∀ cols, ve cols = true)
    (hct : ∀ c ∈ resolve ct (f.map (·.name)), c ∈ f.map (·.name))
    (hcd : ∀ c ∈ resolve cd (f.map (·.name)), c ∈ f.map (·.name))
    (hce : ∀ c ∈ resolve ce (f.map (·.name)), c ∈ f.map (·.name)) :
    checkDataframe f f n n cd ct ce co level ve = true := by
  sorry

theorem rowcount_fails (act ref : List Col) (nact nref : Nat) (cd ct ce : Flag) (co : Option Flag)
    (level : Level) (ve : List Line → Bool) (h : nact ≠ nref) :
    checkDataframe act ref nact nref cd ct ce co level ve = false := by
  sorry

/-- a column selected for the type check that the actual frame lacks (dropped or renamed) fails -/
theorem missing_column_fails (act ref : List Col) (nact nref : Nat) (cd ct ce : Flag) (co : Option Flag)
    (level : Level) (ve : List Line → Bool) (c : Line)
    (hc : c ∈ resolve ct (ref.map (·.name))) (hm : c ∉ act.map (·.name)) :
    checkDataframe act ref nact nref cd ct ce co level ve = false := by
  sorry

/-- a selected actual column the reference lacks (added or renamed) fails -/
theorem extra_column_fails (act ref : List Col) (nact nref : Nat) (cd ct ce : Flag) (co : Option Flag)
    (level : Level) (ve : List Line → Bool) (c : Line)
    (hc : c ∈ resolve ce (act.map (·.name))) (hm : c ∉ ref.map (·.name)) :
    checkDataframe act ref nact nref cd ct ce co level ve = false := by
  sorry

/-- a selected column whose types do not match at the requested level fails -/
theorem wrong_type_fails (act ref : List Col) (nact nref : Nat) (cd ct ce : Flag) (co : Option Flag)
    (level : Level) (ve : List Line → Bool) (c ta tr : Line)
    (hc : c ∈ resolve ct (ref.map (·.name)))
    (ha : dtypeC act c = some ta) (hr : dtypeC ref c = some tr) (hne : ¬ TypesAgree ta tr level) :
    checkDataframe act ref nact nref cd ct ce co level ve = false := by
  sorry

/-- a different relative order of the selected common columns fails -/
theorem wrong_order_fails (act ref : List Col) (nact nref : Nat) (cd ct ce : Flag) (f : Flag)
    (level : Level) (ve : List Line → Bool)
    (h : (act.map (·.name)).filter (fun c => (resolve f (ref.map (·.name))).contains c && (ref.map (·.name)).contains c)
       ≠ (ref.map (·.name)).filter (fun c => (resolve f (ref.map (·.name))).contains c && (act.map (·.name)).contains c)) :
    checkDataframe act ref nact nref cd ct ce (some f) level ve = false := by
  sorry

/-- a difference in the selected values fails -/
theorem value_difference_fails (act ref : List Col) (nact nref : Nat) (cd ct ce : Flag) (co : Option Flag)
    (level : Level) (ve : List Line → Bool)
    (hne : resolve cd (ref.map (·.name)) ≠ []) (h : ve (resolve cd (ref.map (·.name))) = false) :
    checkDataframe act ref nact nref cd ct ce co level ve = false := by
  sorry

/-- swapping two distinct adjacent-or-not columns of a frame with distinct names changes the order -/
theorem swap_changes_order (pre mid post : List Line) (a b : Line) (hab : a ≠ b)
    (hnd : (pre ++ a :: mid ++ b :: post).Nodup) :
    (pre ++ b :: mid ++ a :: post).filter (fun c => (pre ++ a :: mid ++ b :: post).contains c && (pre ++ a :: mid ++ b :: post).contains c)
      ≠ (pre ++ a :: mid ++ b :: post).filter (fun c => (pre ++ a :: mid ++ b :: post).contains c && (pre ++ b :: mid ++ a :: post).contains c) := by
  sorry

end TddaVerif.Props.C05.Lemmas
