/-
Auxiliary lemmas about `splitNl` / `joinNl` / `rstrip` and the three `stripLines` facts used by C09.
-/
import TddaVerif.Model.TddaFile
namespace TddaVerif.Props.C09.Aux
open TddaVerif.Py TddaVerif.TddaFile

/-! ### lstrip / rstrip -/

theorem mem_of_mem_lstrip (s : Line) : ∀ x ∈ lstrip s, x ∈ s := by
  induction s with
  | nil => simp [lstrip]
  | cons c cs ih =>
    intro x hx
    simp only [lstrip] at hx
    split at hx
    · exact List.mem_cons_of_mem _ (ih x hx)
    · exact hx

theorem lstrip_idem (s : Line) : lstrip (lstrip s) = lstrip s := by
  induction s with
  | nil => simp [lstrip]
  | cons c cs ih =>
    by_cases h : isSpace c
    · simp [lstrip, h, ih]
    · simp [lstrip, h]

theorem rstrip_idem (l : Line) : rstrip (rstrip l) = rstrip l := by
  simp [rstrip, lstrip_idem]

theorem rstrip_nil : rstrip ([] : Line) = [] := by simp [rstrip, lstrip]

theorem not_mem_rstrip (l : Line) (c : Char) (h : c ∉ l) : c ∉ rstrip l := by
  intro hc
  simp only [rstrip, List.mem_reverse] at hc
  have := mem_of_mem_lstrip _ _ hc
  exact h (by simpa using this)

/-! ### splitNl / joinNl -/

theorem splitNl_ne_nil (s cur : Line) : splitNl s cur ≠ [] := by
  induction s generalizing cur with
  | nil => simp [splitNl]
  | cons c cs ih =>
    simp only [splitNl]
    split
    · simp
    · exact ih _

theorem joinNl_cons_of_ne_nil (l : Line) (ls : List Line) (h : ls ≠ []) :
    joinNl (l :: ls) = l ++ '\n' :: joinNl ls := by
  cases ls with
  | nil => exact absurd rfl h
  | cons m r => simp [joinNl]

theorem joinNl_splitNl (s cur : Line) : joinNl (splitNl s cur) = cur.reverse ++ s := by
  induction s generalizing cur with
  | nil => simp [splitNl, joinNl]
  | cons c cs ih =>
    simp only [splitNl]
    split
    · rename_i h
      have hc : c = '\n' := by simpa using h
      subst hc
      rw [joinNl_cons_of_ne_nil _ _ (splitNl_ne_nil cs []), ih]
      simp
    · rw [ih]; simp

theorem splitNl_noNl (s cur : Line) (hcur : '\n' ∉ cur) : ∀ l ∈ splitNl s cur, '\n' ∉ l := by
  induction s generalizing cur with
  | nil => simpa [splitNl] using hcur
  | cons c cs ih =>
    intro l hl
    simp only [splitNl] at hl
    split at hl
    · rcases List.mem_cons.1 hl with h | h
      · subst h; simpa using hcur
      · exact ih [] (by simp) l h
    · rename_i h
      have hc : c ≠ '\n' := by simpa using h
      refine ih (c :: cur) ?_ l hl
      simp only [List.mem_cons, not_or]
      exact ⟨fun e => hc e.symm, hcur⟩

theorem splitNl_append_noNl (l t cur : Line) (h : '\n' ∉ l) :
    splitNl (l ++ t) cur = splitNl t (l.reverse ++ cur) := by
  induction l generalizing cur with
  | nil => simp
  | cons c cs ih =>
    have hc : c ≠ '\n' := fun e => h (by simp [e])
    have hcs : '\n' ∉ cs := fun e => h (List.mem_cons_of_mem _ e)
    simp only [List.cons_append, splitNl]
    have : (c == '\n') = false := by simpa using hc
    rw [this]
    simp [ih _ hcs]

theorem splitNl_joinNl_cons (l : Line) (rest : List Line) (cur : Line)
    (h : ∀ x ∈ l :: rest, '\n' ∉ x) :
    splitNl (joinNl (l :: rest)) cur = (cur.reverse ++ l) :: rest := by
  induction rest generalizing l cur with
  | nil =>
    have hl : '\n' ∉ l := h l (by simp)
    have := splitNl_append_noNl l [] cur hl
    simp only [List.append_nil] at this
    simp [joinNl, this, splitNl]
  | cons m r ih =>
    have hl : '\n' ∉ l := h l (by simp)
    have hr : ∀ x ∈ m :: r, '\n' ∉ x := fun x hx => h x (List.mem_cons_of_mem _ hx)
    rw [joinNl_cons_of_ne_nil _ _ (by simp), splitNl_append_noNl _ _ _ hl]
    simp only [splitNl]
    simp [ih m [] hr]

theorem splitNl_joinNl (ls : List Line) (hne : ls ≠ []) (h : ∀ x ∈ ls, '\n' ∉ x) :
    splitNl (joinNl ls) [] = ls := by
  cases ls with
  | nil => exact absurd rfl hne
  | cons l rest => simpa using splitNl_joinNl_cons l rest [] h

theorem splitNl_append_nl (a cur : Line) :
    splitNl (a ++ ['\n']) cur = splitNl a cur ++ [[]] := by
  induction a generalizing cur with
  | nil => simp [splitNl]
  | cons c cs ih =>
    simp only [List.cons_append, splitNl]
    split
    · simp [ih]
    · exact ih _

theorem eq_dropLast_append_of_endsWithNl (s : Line) (h : endsWithNl s = true) :
    s = s.dropLast ++ ['\n'] := by
  have : s.getLast? = some '\n' := by simpa [endsWithNl] using h
  obtain ⟨ys, hys⟩ := List.getLast?_eq_some_iff.1 this
  rw [hys]; simp

/-! ### the lines of `stripLines s` -/

theorem map_rstrip_ne_nil (s : Line) : (splitNl s []).map rstrip ≠ [] := by
  simpa using splitNl_ne_nil s []

theorem map_rstrip_noNl (s : Line) : ∀ x ∈ (splitNl s []).map rstrip, '\n' ∉ x := by
  intro x hx
  obtain ⟨l, hl, rfl⟩ := List.mem_map.1 hx
  exact not_mem_rstrip _ _ (splitNl_noNl s [] (by simp) l hl)

theorem splitNl_stripLines (s : Line) :
    splitNl (stripLines s) [] =
      if endsWithNl s then (splitNl s.dropLast []).map rstrip ++ [[]]
      else (splitNl s []).map rstrip := by
  unfold stripLines
  split
  · rw [splitNl_append_nl, splitNl_joinNl _ (map_rstrip_ne_nil _) (map_rstrip_noNl _)]
  · rw [splitNl_joinNl _ (map_rstrip_ne_nil _) (map_rstrip_noNl _)]

theorem stripLines_no_trailing_ws (s : Line) :
    ∀ l ∈ splitNl (stripLines s) [], rstrip l = l := by
  intro l hl
  rw [splitNl_stripLines] at hl
  split at hl
  · rcases List.mem_append.1 hl with h | h
    · obtain ⟨x, _, rfl⟩ := List.mem_map.1 h
      exact rstrip_idem x
    · have : l = [] := by simpa using h
      subst this; exact rstrip_nil
  · obtain ⟨x, _, rfl⟩ := List.mem_map.1 hl
    exact rstrip_idem x

theorem stripLines_id (s : Line) (h : ∀ l ∈ splitNl s [], rstrip l = l) : stripLines s = s := by
  unfold stripLines
  split
  · rename_i hnl
    have hs := eq_dropLast_append_of_endsWithNl s hnl
    have h' : ∀ l ∈ splitNl s.dropLast [], rstrip l = l := by
      intro l hl
      apply h
      rw [hs, splitNl_append_nl]
      exact List.mem_append_left _ hl
    have hm : (splitNl s.dropLast []).map rstrip = splitNl s.dropLast [] := by
      conv => rhs; rw [← List.map_id (splitNl s.dropLast [])]
      exact List.map_congr_left (by simpa using h')
    rw [hm, joinNl_splitNl]
    simpa using hs.symm
  · have hm : (splitNl s []).map rstrip = splitNl s [] := by
      conv => rhs; rw [← List.map_id (splitNl s [])]
      exact List.map_congr_left (by simpa using h)
    rw [hm, joinNl_splitNl]
    simp

theorem stripLines_lines (s : Line) :
    (splitNl (stripLines s) []).length = (splitNl s []).length := by
  rw [splitNl_stripLines]
  split
  · rename_i hnl
    have hs := eq_dropLast_append_of_endsWithNl s hnl
    conv => rhs; rw [hs, splitNl_append_nl]
    simp
  · simp

end TddaVerif.Props.C09.Aux
