/-
More Python `str` semantics over `List Char`: whitespace, strip, splitlines, join,
ordering (used by `sorted`).  Structural recursion only.
-/
import TddaVerif.Py.Str
namespace TddaVerif.Py

abbrev Line := List Char

/-- `str.isspace()` for one character (CPython `_PyUnicode_IsWhitespace`). -/
def isSpace (c : Char) : Bool :=
  let n := c.toNat
  (9 ≤ n && n ≤ 13) || (28 ≤ n && n ≤ 32) || n == 0x85 || n == 0xA0 || n == 0x1680 ||
  (0x2000 ≤ n && n ≤ 0x200A) || n == 0x2028 || n == 0x2029 || n == 0x202F || n == 0x205F || n == 0x3000

def lstrip : Line → Line
  | [] => []
  | c :: cs => if isSpace c then lstrip cs else c :: cs

def rstrip (s : Line) : Line := (lstrip s.reverse).reverse
def strip (s : Line) : Line := rstrip (lstrip s)

/-- line boundaries of `str.splitlines()` other than `\r\n` -/
def isLineBreak (c : Char) : Bool :=
  let n := c.toNat
  n == 10 || n == 13 || n == 11 || n == 12 || n == 0x1c || n == 0x1d || n == 0x1e ||
  n == 0x85 || n == 0x2028 || n == 0x2029

/-- `str.splitlines()` (keepends=False): `cur` is the current line, reversed;
    `afterCR` says the previous character was `\r` (so a `\n` now belongs to it). -/
def splitlinesAux : Line → Line → Bool → List Line
  | [], cur, _ => if cur.isEmpty then [] else [cur.reverse]
  | c :: cs, cur, afterCR =>
    if afterCR && c == '\n' then splitlinesAux cs cur false
    else if isLineBreak c then cur.reverse :: splitlinesAux cs [] (c == '\r')
    else splitlinesAux cs (c :: cur) false

def splitlines (s : Line) : List Line := splitlinesAux s [] false

/-- `'\n'.join(lines)` -/
def joinNl : List Line → Line
  | [] => []
  | [l] => l
  | l :: ls => l ++ '\n' :: joinNl ls

/-- `s.endswith('\n')` -/
def endsWithNl (s : Line) : Bool := s.getLast? == some '\n'

/-- Python string `<` (code point order). -/
def ltLine : Line → Line → Bool
  | [], [] => false
  | [], _ :: _ => true
  | _ :: _, [] => false
  | a :: as, b :: bs => if a.toNat < b.toNat then true else if b.toNat < a.toNat then false else ltLine as bs

def insertLine (x : Line) : List Line → List Line
  | [] => [x]
  | y :: ys => if ltLine y x then y :: insertLine x ys else x :: y :: ys

/-- `sorted(lines)` -/
def sortLines (l : List Line) : List Line := l.foldr insertLine []

end TddaVerif.Py
