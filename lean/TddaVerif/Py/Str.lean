/-
Python `str` semantics used by the models, over `List Char` (code points).
Structural recursion only, so that everything reduces under `decide`.
-/
namespace TddaVerif.Py

/-- `s.startswith(p)` on the remaining text. -/
def isPrefix : List Char → List Char → Bool
  | [], _ => true
  | _ :: _, [] => false
  | a :: as, b :: bs => a == b && isPrefix as bs

/-- `str.replace(old, new)` for non-empty `old`: leftmost, non-overlapping.
    `skip` counts the characters of a match still to be dropped. -/
def rep (old new : List Char) : Nat → List Char → List Char
  | _, [] => []
  | skip + 1, _ :: cs => rep old new skip cs
  | 0, c :: cs =>
    if isPrefix old (c :: cs) then new ++ rep old new (old.length - 1) cs
    else c :: rep old new 0 cs

def replace (old new s : List Char) : List Char := rep old new 0 s

/-- `sub in s` -/
def contains (s sub : List Char) : Bool :=
  match s with
  | [] => sub.isEmpty
  | c :: cs => isPrefix sub (c :: cs) || contains cs sub

/-- `'X'.join(parts)` with a single-character separator list. -/
def joinSep (sep : List Char) : List (List Char) → List Char
  | [] => []
  | [p] => p
  | p :: ps => p ++ sep ++ joinSep sep ps

theorem isPrefix_length {p s : List Char} (h : isPrefix p s = true) : p.length ≤ s.length := by
  induction p generalizing s with
  | nil => simp
  | cons a as ih =>
    cases s with
    | nil => simp [isPrefix] at h
    | cons b bs =>
      simp [isPrefix] at h
      have := ih h.2
      simp; omega

/-- a separator character that does not occur in the searched text cannot be
    part of a match, so the prefix test does not see past it -/
theorem isPrefix_append_sep {old a b : List Char} {c : Char} (hc : c ∉ old) :
    isPrefix old (a ++ c :: b) = isPrefix old a := by
  induction old generalizing a with
  | nil => simp [isPrefix]
  | cons o os ih =>
    cases a with
    | nil =>
      have : (o == c) = false := by
        simp only [List.mem_cons, not_or] at hc
        simp [Ne.symm hc.1]
      simp [isPrefix, this]
    | cons x xs =>
      have hc' : c ∉ os := fun h => hc (List.mem_cons_of_mem _ h)
      simp [isPrefix, ih hc']

/-- `str.replace` distributes over a character that does not occur in `old`. -/
theorem rep_append_sep (old new : List Char) (c : Char) (hc : c ∉ old) (hne : old ≠ [])
    (a b : List Char) (k : Nat) (hk : k ≤ a.length) :
    rep old new k (a ++ c :: b) = rep old new k a ++ c :: rep old new 0 b := by
  induction a generalizing k with
  | nil =>
    have : k = 0 := by simpa using hk
    subst this
    have hp : isPrefix old (c :: b) = false := by
      cases old with
      | nil => exact absurd rfl hne
      | cons o os =>
        have : (o == c) = false := by
          simp only [List.mem_cons, not_or] at hc
          simp [Ne.symm hc.1]
        simp [isPrefix, this]
    simp [rep, hp]
  | cons x xs ih =>
    cases k with
    | succ k =>
      simp only [List.cons_append, rep]
      exact ih k (by simpa using hk)
    | zero =>
      simp only [List.cons_append, rep]
      have hpre : isPrefix old (x :: (xs ++ c :: b)) = isPrefix old (x :: xs) := by
        have := @isPrefix_append_sep old (x :: xs) b c hc
        simpa using this
      rw [hpre]
      split
      · rename_i hp
        have hl := isPrefix_length hp
        have : old.length - 1 ≤ xs.length := by simp at hl; omega
        rw [ih _ this]; simp
      · rw [ih 0 (Nat.zero_le _)]; simp

theorem replace_append_sep (old new : List Char) (c : Char) (hc : c ∉ old) (hne : old ≠ [])
    (a b : List Char) :
    replace old new (a ++ c :: b) = replace old new a ++ c :: replace old new b :=
  rep_append_sep old new c hc hne a b 0 (Nat.zero_le _)

end TddaVerif.Py
