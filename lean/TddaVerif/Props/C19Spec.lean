/-
C19 — specification side (definitions only): the shape of a command line and what the
tdda flags on it mean; which tests carry the tag.
-/
import TddaVerif.Model.RefTestCase

namespace TddaVerif.Props.C19
open TddaVerif.Py TddaVerif.RefTestCase

/-- every spelling the scanner treats specially as a whole argument -/
def tddaSpellings : List Arg :=
  [wquiet1, wquiet2, writeAll1, writeAll2, write1, write2, write3, taggedOpt, istaggedOpt]

/-- one argument of a command line, by meaning -/
inductive Tok
  /-- `-xyz`: a cluster of single-letter options (unittest's and tdda's `W`, `1`, `0`) -/
  | cluster (letters : List Char)
  | tagged
  | istagged
  /-- `--write-all` (false) or `--W` (true) -/
  | writeAll (short : Bool)
  /-- `--wquiet` (false) or `-wquiet` (true) -/
  | wquiet (short : Bool)
  /-- a class / test name or an option that is not tdda's -/
  | other (a : Arg)
deriving Repr, DecidableEq

def Tok.render : Tok → Arg
  | .cluster ls => '-' :: ls
  | .tagged => taggedOpt
  | .istagged => istaggedOpt
  | .writeAll s => if s then writeAll1 else writeAll2
  | .wquiet s => if s then wquiet1 else wquiet2
  | .other a => a

/-- a command line: program, arguments, and optionally a write option followed by kind arguments -/
structure Cmd where
  prog : Arg
  toks : List Tok
  /-- which spelling (0 = `-w`, 1 = `--w`, 2 = `--write`) and the kind arguments after it -/
  write : Option (Nat × List Arg)
deriving Repr

def writeSpelling : Nat → Arg
  | 0 => write1
  | 1 => write2
  | _ => write3

def Cmd.render (c : Cmd) : List Arg :=
  c.prog :: c.toks.map Tok.render ++
    (match c.write with
     | none => []
     | some (s, kinds) => writeSpelling s :: kinds)

def plainArg (a : Arg) : Bool := !a.isEmpty && !isSingleDash a && !tddaSpellings.contains a

/-- well-formed command line: a program name; clusters are non-empty, contain no `-`, and what is
    left of them once W / 1 / 0 are taken out is not the spelling `-w` / `-wquiet` (`-w1` IS read as
    the write option followed by nothing tagged-related: outside the documented spellings); foreign arguments and kinds are plain; each tdda long option is
    given at most once (in either spelling); kinds are present if a write option is. -/
def Cmd.WF (c : Cmd) : Bool :=
  plainArg c.prog &&
  c.toks.all (fun t => match t with
    | .cluster ls =>
      let r := ls.filter (fun c => !(c == 'W' || c == '1' || c == '0'))
      !ls.isEmpty && !ls.contains '-' && ('-' :: r) != write1 && ('-' :: r) != wquiet1
    | .other a => plainArg a
    | _ => true) &&
  (c.toks.filter (· == .tagged)).length ≤ 1 &&
  (c.toks.filter (· == .istagged)).length ≤ 1 &&
  (c.toks.filter (fun t => match t with | .writeAll _ => true | _ => false)).length ≤ 1 &&
  (c.toks.filter (fun t => match t with | .wquiet _ => true | _ => false)).length ≤ 1 &&
  (match c.write with
   | none => true
   | some (_, kinds) => !kinds.isEmpty && kinds.all plainArg)

def clusterHas (ch : Char) : Tok → Bool
  | .cluster ls => ls.contains ch
  | _ => false

/-- what is left for unittest: the tdda letters leave their clusters, tdda options disappear -/
def Tok.residue : Tok → Option Arg
  | .cluster ls =>
    let r := ls.filter (fun c => !(c == 'W' || c == '1' || c == '0'))
    if r.isEmpty then none else some ('-' :: r)
  | .other a => some a
  | _ => none

/-- the meaning of a command line -/
def Cmd.meaning (c : Cmd) : Parsed :=
  { argv := c.prog :: c.toks.filterMap Tok.residue,
    tagged := c.toks.any (fun t => t == .tagged || clusterHas '1' t),
    check := c.toks.any (fun t => t == .istagged || clusterHas '0' t),
    quiet := c.toks.any (fun t => match t with | .wquiet _ => true | _ => false),
    regen := (match c.write with
              | none => []
              | some (_, kinds) => (kinds.map (fun k => splitComma k [])).flatten.map some) ++
             (if c.toks.any (fun t => clusterHas 'W' t || (match t with | .writeAll _ => true | _ => false))
              then [none] else []) }

/-! ### which tests carry the tag -/

/-- base classes come earlier in the list (as in any Python module) -/
def Acyclic (cs : List TestClass) : Prop :=
  ∀ (i : Nat) (c : TestClass) (b : Nat), cs[i]? = some c → c.base = some b → b < i

/-- the class, or one of its ancestors, is decorated with `@tag` -/
inductive ClassTagged (cs : List TestClass) : Nat → Prop
  | own (i : Nat) (c : TestClass) : cs[i]? = some c → c.ownTag = true → ClassTagged cs i
  | inherited (i b : Nat) (c : TestClass) : cs[i]? = some c → c.base = some b → ClassTagged cs b →
      ClassTagged cs i

/-- `Visible cs i m tg`: class `i` has a test method `m`, and the definition it sees (its own, else the
    nearest ancestor's) is decorated (`tg = true`) or not -/
inductive Visible (cs : List TestClass) : Nat → Arg → Bool → Prop
  | own (i : Nat) (c : TestClass) (m : Arg) (tg : Bool) :
      cs[i]? = some c → c.own.find? (fun x => x.1 == m) = some (m, tg) → Visible cs i m tg
  | inherited (i b : Nat) (c : TestClass) (m : Arg) (tg : Bool) :
      cs[i]? = some c → c.base = some b → (c.own.map (·.1)).contains m = false →
      Visible cs b m tg → Visible cs i m tg

/-- the test `m` of class `i` carries the tag itself or through its class -/
def CarriesTag (cs : List TestClass) (i : Nat) (m : Arg) : Prop :=
  ∃ tg, Visible cs i m tg ∧ (tg = true ∨ ClassTagged cs i)

end TddaVerif.Props.C19
