/-
C11 — gentest: for a repeatable command the generated test exists, compiles and passes.

What a theorem can carry here is the logic of the generator and of the assertions the generated script makes:
 * the script contains the two fixed tests, the stream tests that were asked for and exactly one test per
   reference file, all with distinct names (no test silently replaces another);
 * the date detector is total and flags exactly the number triples one of whose readings is a real date
   (so output such as `version 1.2.0 build 15` or `31/02/2020` cannot make generation crash);
 * every comparison the script makes is check_strings (C04): on content identical to the reference it passes
   whatever exclusions (patterns, substrings, removals) were generated.
Running the command, copying outputs, detecting file types, rendering valid Python and leaving bystander files
alone are runtime behaviour: decided by the oracle, which generates and runs real scripts.
Proofs: Lemmas/Gentest.lean, Lemmas/CheckStrings.lean.
-/
import TddaVerif.Model.Gentest
import TddaVerif.Model.CheckStrings
import TddaVerif.Props.C04
import TddaVerif.Lemmas.Gentest
import TddaVerif.Lemmas.GentestScript
import TddaVerif.Generated.Gentest

namespace TddaVerif.Props.C11
open TddaVerif.Gentest

theorem testNames_nodup (alnum : Char → Bool) (st : NameState) (bs : List Name) :
    (testNames alnum st bs).Nodup ∧ ∀ n ∈ testNames alnum st bs, n ∉ st.taken := Lemmas.testNames_nodup alnum st bs

/-- the script's test names are pairwise distinct -/
theorem plan_names_nodup (alnum : Char → Bool) (so se : Bool) (files : List (Name × Bool)) :
    ((plan alnum so se files).map (·.name)).Nodup := Lemmas.plan_names_nodup alnum so se files

theorem plan_length (alnum : Char → Bool) (so se : Bool) (files : List (Name × Bool)) :
    (plan alnum so se files).length = files.length + (if so then 1 else 0) + (if se then 1 else 0) + 2 :=
  Lemmas.plan_length alnum so se files

/-- exactly one test per reference file, in order, with the comparison its type asks for -/
theorem plan_files (alnum : Char → Bool) (so se : Bool) (files : List (Name × Bool)) :
    ((plan alnum so se files).filter (fun t => t.kind == some .textFile || t.kind == some .binaryFile)).map
        (fun t => (t.subject, t.kind == some .textFile)) = files := Lemmas.plan_files alnum so se files

theorem plan_streams (alnum : Char → Bool) (so se : Bool) (files : List (Name × Bool)) :
    (((plan alnum so se files).filter (fun t => t.kind == some .string)).map (·.subject)
      = (if so then ["stdout".toList] else []) ++ (if se then ["stderr".toList] else [])) ∧
    ((plan alnum so se files).filter (fun t => t.kind == none)).map (·.name) = ["no_exception".toList, "exit_code".toList] :=
  Lemmas.plan_streams alnum so se files

abbrev RealDate := @Lemmas.RealDate

theorem possibleDate_iff (y m d : Nat) : possibleDate y m d = true ↔ RealDate y m d := Lemmas.possibleDate_iff y m d

/-- the date detector is a total function of the numbers found, true exactly for real dates in range -/
theorem numDateLike_iff (n1 n2 n3 : Nat) (inRange : Nat → Nat → Nat → Bool) :
    numDateLike n1 n2 n3 inRange = true ↔
      (RealDate n3 n2 n1 ∧ inRange n3 n2 n1 = true) ∨ (RealDate n1 n2 n3 ∧ inRange n1 n2 n3 = true) ∨
      (RealDate n3 n1 n2 ∧ inRange n3 n1 n2 = true) := Lemmas.numDateLike_iff n1 n2 n3 inRange

/-- a comparison of the command's output with a reference holding the same content passes, whatever
    patterns, substrings and removals the generator wrote into it (C04) -/
theorem unchanged_output_passes (o : TddaVerif.CheckStrings.Opts) (pat : TddaVerif.CheckStrings.PatFn)
    (content : List TddaVerif.Py.Line) : (TddaVerif.CheckStrings.checkStrings o pat content content).failures = 0 :=
  C04.identical_passes o pat content

/- non-vacuity: the collisions that used to lose a test -/
example : testNames isAsciiAlnum {} ["a_b2".toList, "a.b".toList, "a_b".toList, "stdout".toList]
    = ["a_b2".toList, "a_b".toList, "a_b3".toList, "stdout4".toList] := by decide +kernel
example : numDateLike 31 2 2020 (fun _ _ _ => true) = false := by decide
example : numDateLike 1 2 0 (fun _ _ _ => true) = false := by decide
example : numDateLike 29 2 2020 (fun _ _ _ => true) = true := by decide

/-! ### the script template (Model/GentestScript.lean; the template is regenerated from gentest_boilerplate.py) -/
open TddaVerif.GentestScript in
/-- in the class body of the template, in the order of the source, every class-level name a statement reads when the
    class is created (cwd by refdir, cwd and tmpdir by the list of generated files) is defined before it -/
theorem class_body_well_ordered : wellOrdered (TddaVerif.Generated.Gentest.classBody.map partOf) = true := by decide

open TddaVerif.GentestScript in
/-- what well-ordered means -/
theorem wellOrdered_spec (ps : List Part) (h : wellOrdered ps = true) (pre : List Part) (p : Part) (post : List Part)
    (hs : ps = pre ++ p :: post) (u : List Char) (hu : u ∈ p.uses) : ∃ q ∈ pre, u ∈ q.defines :=
  GentestScript.Lemmas.wellOrdered_spec ps h pre p post hs u hu

/-- **tie.** The template's class body, its two fixed tests and its entry point are the ones the model reads -/
theorem tie_script_template :
    TddaVerif.Generated.Gentest.classBody = ["command", "cwd", "refdir", "%SET_TMPDIR", "%GENERATED_FILES", "setUpClass",
      "test_no_exception", "test_exit_code"].map String.toList ∧
    TddaVerif.Generated.Gentest.noExceptionTest = "self.assertIsNone(self.exception)".toList ∧
    TddaVerif.Generated.Gentest.exitCodeTest = "self.assertEqual(self.exit_code, %(EXIT_CODE)d)".toList ∧
    TddaVerif.Generated.Gentest.tailMain = "if __name__ == '__main__':; ReferenceTestCase.main()".toList := by decide

end TddaVerif.Props.C11
