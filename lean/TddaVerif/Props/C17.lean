/-
C17 — the tdda command line gives the same constraints and verdicts as the library.
Proved here: what the command line *means* — for every command line written the documented way the scanner
(parametric in the option tables regenerated from flags.py and pd/*.py on every run) returns exactly the options
and files written; unknown options, missing input, too many file arguments and contradictory options never run
the command; an accepted invocation passes exactly the documented keywords to the library.
That the library call made with these keywords gives the same constraints / verdicts / detection output as a
direct call on the loaded DataFrame, and that failing invocations leave no output file, is runtime behaviour
(pandas, file system, process exit) decided by the oracle.  Proofs: Lemmas/Flags.lean.
-/
import TddaVerif.Model.Applicable
import TddaVerif.Lemmas.Applicable
import TddaVerif.Model.Flags
import TddaVerif.Generated.Flags
import TddaVerif.Props.C17Spec
import TddaVerif.Lemmas.Flags

namespace TddaVerif.Props.C17
open TddaVerif.Flags

abbrev tableOf := @Lemmas.tableOf

/-- positionals first, then options written the documented way: the scanner returns exactly what was written -/
theorem scan_positionals_then_options (opts : List Opt) (ps : List Tok) (is : List Item) (fuel : Nat)
    (hT : TableWF opts)
    (hps : ∀ p ∈ ps, looksLikeOption p = false) (his : ∀ i ∈ is, i.WF opts)
    (hfuel : (ps ++ renderAll is).length < fuel) :
    scan opts fuel (ps ++ renderAll is) {} = .ok (meaning opts is { positionals := ps }) :=
  Lemmas.scan_positionals_then_options opts ps is fuel hT hps his hfuel

/-- options first (the last one not a list, which would swallow what follows), then positionals -/
theorem scan_options_then_positionals (opts : List Opt) (ps : List Tok) (is : List Item) (fuel : Nat)
    (hT : TableWF opts)
    (hps : ∀ p ∈ ps, looksLikeOption p = false) (his : ∀ i ∈ is, i.WF opts)
    (hlast : ∀ i, is.getLast? = some i → isList i = false)
    (hfuel : (renderAll is ++ ps).length < fuel) :
    scan opts fuel (renderAll is ++ ps) {} = .ok { meaning opts is {} with positionals := ps } :=
  Lemmas.scan_options_then_positionals opts ps is fuel hT hps his hlast hfuel

/-- an option-like token that no parser entry names, written where an option may stand, is never accepted:
    the command does not run -/
theorem unknown_option_never_runs (cmd : Cmd) (opts : List Opt) (ps : List Tok) (is : List Item) (u : Tok) (rest : List Tok)
    (hps : ∀ p ∈ ps, looksLikeOption p = false) (his : ∀ i ∈ is, i.WF opts)
    (hu : looksLikeOption u = true) (hunk : findOpt opts u = none) :
    ∀ params, run cmd opts (ps ++ renderAll is ++ u :: rest) ≠ .run params :=
  Lemmas.unknown_option_never_runs cmd opts ps is u rest hps his hu hunk

/-- no input named: rejected -/
theorem no_input_rejected (cmd : Cmd) (opts : List Opt) (is : List Item) (hT : TableWF opts)
    (his : ∀ i ∈ is, i.WF opts) :
    run cmd opts (renderAll is) = .reject :=
  Lemmas.no_input_rejected cmd opts is hT his

/-- too many file arguments: rejected -/
theorem too_many_positionals_rejected (cmd : Cmd) (opts : List Opt) (ps : List Tok) (is : List Item)
    (hps : ∀ p ∈ ps, looksLikeOption p = false) (his : ∀ i ∈ is, i.WF opts) (hn : 3 < ps.length) :
    run cmd opts (ps ++ renderAll is) = .reject :=
  Lemmas.too_many_positionals_rejected cmd opts ps is hps his hn

theorem rex_norex_rejected (p : Parsed) (h1 : p.flag "rex" = true) (h2 : p.flag "norex" = true) :
    discoverParams p = .reject :=
  Lemmas.rex_norex_rejected p h1 h2

theorem all_fields_rejected (p : Parsed) (h1 : p.flag "all" = true) (h2 : p.flag "fields" = true) :
    verifyParams p = .reject ∧ detectParams p = .reject :=
  Lemmas.all_fields_rejected p h1 h2

theorem per_constraint_contradiction_rejected (p : Parsed) (h1 : p.flag "per_constraint" = true)
    (h2 : p.flag "no_per_constraint" = true) : detectParams p = .reject :=
  Lemmas.per_constraint_contradiction_rejected p h1 h2

theorem output_fields_contradiction_rejected (p : Parsed) (l : List Tok) (h1 : p.list "output_fields" = some l)
    (h2 : p.flag "no_output_fields" = true) : detectParams p = .reject :=
  Lemmas.output_fields_contradiction_rejected p l h1 h2

/-- what an accepted `discover` invocation asks the library for -/
theorem discover_params_exact (p : Parsed) (ps : Params) (h : discoverParams p = .run ps) :
    ps = [("inc_rex", .b (p.flag "rex")), ("df_path", optS p.positionals[0]?), ("constraints_path", optS p.positionals[1]?)]
    ∧ 1 ≤ p.positionals.length ∧ p.positionals.length ≤ 2 ∧ p.unknown = [] ∧ ¬ (p.flag "rex" = true ∧ p.flag "norex" = true) :=
  Lemmas.discover_params_exact p ps h

/-- the keywords an accepted `verify` invocation passes: each is present exactly when its option was given -/
theorem verify_params_exact (p : Parsed) (ps : Params) (h : verifyParams p = .run ps) :
    ps.lookup "report" = some (.s (if p.flag "fields" && !p.flag "all" then "fields".toList else "all".toList)) ∧
    ps.lookup "ascii" = some (.b (p.flag "ascii")) ∧
    ps.lookup "type_checking" = (p.value "type_checking").map PVal.s ∧
    ps.lookup "epsilon" = (p.value "epsilon").map PVal.f ∧
    ps.lookup "df_path" = some (optS p.positionals[0]?) ∧
    ps.lookup "constraints_path" = some (optS p.positionals[1]?) :=
  Lemmas.verify_params_exact p ps h

theorem detect_params_exact (p : Parsed) (ps : Params) (h : detectParams p = .run ps) :
    ps.lookup "report" = some (.s "records".toList) ∧
    ps.lookup "ascii" = some (.b (p.flag "ascii")) ∧
    ps.lookup "type_checking" = (p.value "type_checking").map PVal.s ∧
    ps.lookup "epsilon" = (p.value "epsilon").map PVal.f ∧
    ps.lookup "write_all" = (if p.flag "write_all" then some (.b true) else none) ∧
    ps.lookup "per_constraint" = (if p.flag "no_per_constraint" then none else some (.b true)) ∧
    ps.lookup "index" = (if p.flag "index" then some (.b true) else none) ∧
    ps.lookup "boolean_ints" = (if p.flag "boolean_ints" then some (.b true) else none) ∧
    ps.lookup "interleave" = (if p.flag "interleave" then some (.b true) else none) ∧
    ps.lookup "output_fields" = (match p.list "output_fields" with
                                 | some l => some (.l l)
                                 | none => if p.flag "no_output_fields" then none else some (.l [])) ∧
    ps.lookup "in_place" = some (.b false) ∧
    ps.lookup "df_path" = some (optS p.positionals[0]?) ∧
    ps.lookup "constraints_path" = some (optS p.positionals[1]?) ∧
    ps.lookup "outpath" = some (optS p.positionals[2]?) :=
  Lemmas.detect_params_exact p ps h

theorem tie_tables_wf :
    TableWF (tableOf Generated.Flags.discoverOpts) ∧ TableWF (tableOf Generated.Flags.verifyOpts) ∧
    TableWF (tableOf Generated.Flags.detectOpts) :=
  Lemmas.tie_tables_wf 

/-- the destinations the mapping functions read exist, with the kind they are read as -/
theorem tie_dests :
    (∀ d ∈ ["rex", "norex"], ∃ o ∈ tableOf Generated.Flags.discoverOpts, o.dest = d.toList ∧ o.kind = 0) ∧
    (∀ d ∈ ["all", "fields", "ascii"], ∃ o ∈ tableOf Generated.Flags.verifyOpts, o.dest = d.toList ∧ o.kind = 0) ∧
    (∀ d ∈ ["type_checking", "epsilon"], ∃ o ∈ tableOf Generated.Flags.verifyOpts, o.dest = d.toList ∧ o.kind = 1) ∧
    (∀ d ∈ ["all", "fields", "ascii", "write_all", "per_constraint", "no_per_constraint", "no_output_fields", "interleave",
            "index", "boolean_ints"], ∃ o ∈ tableOf Generated.Flags.detectOpts, o.dest = d.toList ∧ o.kind = 0) ∧
    (∀ d ∈ ["type_checking", "epsilon"], ∃ o ∈ tableOf Generated.Flags.detectOpts, o.dest = d.toList ∧ o.kind = 1) ∧
    (∃ o ∈ tableOf Generated.Flags.detectOpts, o.dest = "output_fields".toList ∧ o.kind = 2) :=
  Lemmas.tie_dests 

/-- the documented spelling `--no-original-fields` is accepted by the detect parser -/
theorem tie_documented_spelling :
    (findOpt (tableOf Generated.Flags.detectOpts) "--no-original-fields".toList).map (·.dest) = some "no_output_fields".toList :=
  Lemmas.tie_documented_spelling 

/-- positional arities assumed by the mapping: discover / verify: input [constraints]; detect: input [constraints [outpath]] -/
theorem tie_positionals :
    Generated.Flags.discoverPositionals.map (·.2.1) = [true, false] ∧
    Generated.Flags.verifyPositionals.map (·.2.1) = [true, false] ∧
    Generated.Flags.detectPositionals.map (·.2.1) = [true, false, false] :=
  Lemmas.tie_positionals 

/- non-vacuity: a documented detect invocation -/
example : run .detect (tableOf Generated.Flags.detectOpts)
    ["in.csv".toList, "c.tdda".toList, "o.csv".toList, "--no-original-fields".toList, "--epsilon".toList, "0.5".toList]
    = .run [("report", .s "records".toList), ("ascii", .b false), ("epsilon", .f "0.5".toList), ("per_constraint", .b true),
            ("in_place", .b false), ("df_path", .s "in.csv".toList), ("constraints_path", .s "c.tdda".toList),
            ("outpath", .s "o.csv".toList)] := by decide +kernel
example : run .verify (tableOf Generated.Flags.verifyOpts) ["in.csv".toList, "-a".toList, "-f".toList] = .reject := by decide +kernel

/-! ### dispatch: which invocations the pandas front-end takes (pd/extension.py applicable, console.py) -/
open TddaVerif.Applicable in
/-- the dispatch test does not depend on where the input stands among the arguments -/
theorem applicable_perm (exts : List TddaVerif.Py.Line) (argv argv' : List TddaVerif.Py.Line) (h : argv.Perm argv') :
    applicable exts argv = applicable exts argv' := AppLemmas.applicable_perm exts argv argv' h

open TddaVerif.Applicable in
/-- flags and their values before, between or after the file arguments change nothing -/
theorem applicable_append (exts : List TddaVerif.Py.Line) (xs ys : List TddaVerif.Py.Line) :
    applicable exts (xs ++ ys) = (applicable exts xs || applicable exts ys) := AppLemmas.applicable_append exts xs ys

open TddaVerif.Applicable in
/-- one flat-file argument (or `-`) anywhere is enough -/
theorem applicable_of_mem (exts : List TddaVerif.Py.Line) (argv : List TddaVerif.Py.Line) (a : TddaVerif.Py.Line) (ha : a ∈ argv)
    (h : a = ['-'] ∨ exts.contains (splitextExt a) = true) : applicable exts argv = true :=
  AppLemmas.applicable_of_mem exts argv a ha h

open TddaVerif.Applicable in
/-- ... and without one the command is not taken -/
theorem not_applicable_iff (exts : List TddaVerif.Py.Line) (argv : List TddaVerif.Py.Line) :
    applicable exts argv = false ↔ ∀ a ∈ argv, a ≠ ['-'] ∧ exts.contains (splitextExt a) = false :=
  AppLemmas.not_applicable_iff exts argv

/-- **Tie**: the extensions the model is instantiated with are the ones in pd/extension.py today -/
theorem tie_applicable_exts :
    TddaVerif.Generated.Flags.applicableExts =
      [".csv".toList, ".psv".toList, ".tsv".toList, ".parquet".toList, ".json".toList, ".yaml".toList] :=
  AppLemmas.tie_applicable_exts

end TddaVerif.Props.C17
