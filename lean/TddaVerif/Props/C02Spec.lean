/-
C02 — the documented meaning of each constraint kind (definitions only), written as
quantified statements over the non-null cells, never through the aggregates.
-/
import TddaVerif.Model.Constraints

namespace TddaVerif.Props.C02
open TddaVerif.Constraints

def absRat (q : Rat) : Rat := if q ≥ 0 then q else -q

/-- the bound `b` admits the value `v` as a minimum: `b ≤ v` (closed, and always for dates),
    `b < v` (open), or `b − ε·|b| ≤ v` (fuzzy; so a zero bound is never fuzzy) -/
def AdmitsMin (cfg : Cfg) (p : Precision) (b v : Val) : Prop :=
  v.coarse = b.coarse ∧
  (if p = .closed ∨ b.coarse = .date then b.le v = true
   else if p = .open_ then b.lt v = true
   else b.le v = true ∨ ∃ x y, v.num = some x ∧ b.num = some y ∧ y - cfg.epsilon * absRat y ≤ x)

def AdmitsMax (cfg : Cfg) (p : Precision) (b v : Val) : Prop :=
  v.coarse = b.coarse ∧
  (if p = .closed ∨ b.coarse = .date then v.le b = true
   else if p = .open_ then v.lt b = true
   else v.le b = true ∨ ∃ x y, v.num = some x ∧ b.num = some y ∧ x ≤ y + cfg.epsilon * absRat y)

def SignHolds (s : Sign) (q : Rat) : Prop :=
  match s with
  | .positive => 0 < q
  | .nonNegative => 0 ≤ q
  | .zero => q = 0
  | .nonPositive => q ≤ 0
  | .negative => q < 0
  | .null => False

/-- number of null cells, counted directly -/
def nullCells (c : Column) : Nat := (c.cells.filter (·.isNone)).length

/-- **Documented meaning** of a constraint on a field that exists. -/
def Sat (cfg : Cfg) (c : Column) : Constraint → Prop
  | .type none => True
  | .type (some ts) =>
      c.ftype ∈ ts ∨
      (cfg.strict = false ∧ c.ftype = .real ∧ (FType.int ∈ ts ∨ FType.bool ∈ ts) ∧
         ∀ v ∈ c.nonNull, ∀ q, v = .r q → q.den = 1) ∨
      (cfg.strict = false ∧ c.ftype = .string ∧ FType.bool ∈ ts ∧ ∀ v ∈ c.nonNull, ∃ b, v = .b b)
  | .min none _ => True
  | .min (some b) p => ∀ v ∈ c.nonNull, AdmitsMin cfg p b v
  | .max none _ => True
  | .max (some b) p => ∀ v ∈ c.nonNull, AdmitsMax cfg p b v
  | .minLength none => True
  | .minLength (some n) => c.ftype = .string ∧ ∀ v ∈ c.nonNull, ∀ x, v = .s x → n ≤ (x.length : Int)
  | .maxLength none => True
  | .maxLength (some n) => c.ftype = .string ∧ ∀ v ∈ c.nonNull, ∀ x, v = .s x → (x.length : Int) ≤ n
  | .sign none => True
  | .sign (some s) => ∀ v ∈ c.nonNull, ∃ q, v.num = some q ∧ SignHolds s q
  | .maxNulls none => True
  | .maxNulls (some n) => (nullCells c : Int) ≤ n
  | .noDuplicates none => True
  | .noDuplicates (some false) => True
  | .noDuplicates (some true) => c.nonNull.Pairwise (fun a b => a.eqv b = false)
  | .allowedValues none => True
  | .allowedValues (some vs) => ∀ v ∈ c.nonNull, ∃ a ∈ vs, a.eqv v = true
  | .rex none => True
  | .rex (some rs) => c.ftype = .string ∧ ∀ v ∈ c.nonNull, ∃ x, v = .s x ∧ ∃ r ∈ rs, cfg.rx r x = true

/-- a constraint whose value is null -/
def isNullC : Constraint → Bool
  | .type none | .min none _ | .max none _ | .minLength none | .maxLength none | .sign none
  | .maxNulls none | .noDuplicates none | .allowedValues none | .rex none => true
  | _ => false

end TddaVerif.Props.C02
