/-
C08 — database discovery is sound and database verification notices violating rows.

The discovery and verification logic is the shared tdda/constraints/baseconstraints.py that Model/Constraints.lean
models; the database calculator supplies the aggregates by SQL. What is specific to the database path is
 (a) the SQL text it builds (Model/Sql.lean): proved to read back, through a SQL tokenizer, as exactly the column
     name and the expressions it was built from, whatever characters they contain;
 (b) the aggregates themselves (MIN, MAX, COUNT, LENGTH, DISTINCT evaluated by SQLite): tied by running discovery
     and verification of generated SQLite tables against the model (not proved: SQLite is not modelled).
On top of the model: closure (C01) and "a violating row is noticed" for each kind of perturbation.
Proofs: Lemmas/Sql.lean, Lemmas/Closure.lean.
-/
import TddaVerif.Model.Sql
import TddaVerif.Generated.Sql
import TddaVerif.Model.Constraints
import TddaVerif.Props.C01
import TddaVerif.Props.C02Spec
import TddaVerif.Lemmas.Sql

namespace TddaVerif.Props.C08
open TddaVerif.Sql TddaVerif.Constraints TddaVerif.Props.C02

/-! ### (a) the SQL text -/

theorem lex_quote (q : Char) (s rest : Text) (hrest : rest.head? ≠ some q) :
    lexQuoted q (quote q s ++ rest) = some (s, rest) := Lemmas.lex_quote q s rest hrest

/-- a quoted column name reads back as the name -/
theorem ident_roundtrip (name rest : Text) (hrest : rest.head? ≠ some '"') :
    lexQuoted '"' (quoteIdent name ++ rest) = some (name, rest) := Lemmas.lex_quote '"' name rest hrest

/-- a string literal reads back as the string -/
theorem literal_roundtrip (s rest : Text) (hrest : rest.head? ≠ some '\'') :
    lexQuoted '\'' (stringLiteral s ++ rest) = some (s, rest) := Lemmas.lex_quote '\'' s rest hrest

theorem quote_injective (q : Char) (s t : Text) (h : quote q s = quote q t) : s = t := Lemmas.quote_injective q s t h

/-- the REGEXP predicate reads back as exactly the given expressions on the given column -/
theorem rex_predicate_roundtrip (name : Text) (rs : List Text) (hne : rs ≠ []) (fuel : Nat) (hf : rs.length ≤ fuel) :
    parseDisj fuel (rexDisj name rs ++ ")".toList) = some (rs.map (fun r => (name, r)), ")".toList) :=
  Lemmas.parse_rexDisj name rs hne fuel hf

theorem tie_ident (name : Text) :
    quoteIdent name = fmt Generated.Sql.identFormat [Py.replace Generated.Sql.identOld Generated.Sql.identNew name] :=
  Lemmas.tie_ident name
theorem tie_literal (s : Text) :
    stringLiteral s = fmt Generated.Sql.litFormat [Py.replace Generated.Sql.litOld Generated.Sql.litNew s] :=
  Lemmas.tie_literal s
theorem tie_term (name r : Text) :
    rexTerm name r = fmt Generated.Sql.rexTermFormat [quoteIdent name, stringLiteral r] := Lemmas.tie_term name r
theorem tie_statement (table name : Text) (rs : List Text) :
    rexSql table name rs = fmt Generated.Sql.rexStatementFormat
      [table, quoteIdent name, intercalate Generated.Sql.rexJoiner (rs.map (rexTerm name))] :=
  Lemmas.tie_statement table name rs

/-- the column types of the quantifier map to the tdda types the model uses -/
theorem tie_types :
    lookup Generated.Sql.typeMap "integer".toList = some "int".toList ∧
    lookup Generated.Sql.typeMap "real".toList = some "real".toList ∧
    lookup Generated.Sql.typeMap "text".toList = some "string".toList ∧
    lookup Generated.Sql.typeMap "varchar".toList = some "string".toList ∧
    lookup Generated.Sql.typeMap "boolean".toList = some "bool".toList ∧
    lookup Generated.Sql.typeMap "datetime".toList = some "date".toList := by decide

/-! ### (b) closure and perturbation, over the shared model -/

/-- constraints discovered from a table column verify against that column (C01's closure; the database
    verifier's defaults are ε = 0 and strict typing, but it holds for every configuration) -/
theorem discovered_constraints_verify (cfg : Cfg) (heps : 0 ≤ cfg.epsilon) (incRex : Bool) (rexOf : List Val → List Nat)
    (c : Column) (hwf : c.WF = true) (hrex : C01.RexSound cfg rexOf c) (ks : List Constraint)
    (h : discoverField incRex rexOf c c.cells.length = .ok (some ks)) (detect : Bool) :
    ∀ k ∈ ks, verifyOn cfg c detect k = true :=
  C01.closure cfg heps incRex rexOf c hwf hrex ks h detect

abbrev push := @Lemmas.push

theorem violating_row_detected (cfg : Cfg) (heps : 0 ≤ cfg.epsilon) (c : Column) (cell : Option Val)
    (hwf : (push c cell).WF = true) (detect : Bool) (k : Constraint) (h : ¬ Sat cfg (push c cell) k) :
    verifyOn cfg (push c cell) detect k = false := Lemmas.violating_row_detected cfg heps c cell hwf detect k h

theorem below_min_detected (cfg : Cfg) (heps : cfg.epsilon = 0) (c : Column) (v b : Val) (p : Precision)
    (hwf : (push c (some v)).WF = true) (detect : Bool) (hlt : v.lt b = true) :
    verifyOn cfg (push c (some v)) detect (.min (some b) p) = false :=
  Lemmas.below_min_detected cfg heps c v b p hwf detect hlt

theorem above_max_detected (cfg : Cfg) (heps : cfg.epsilon = 0) (c : Column) (v b : Val) (p : Precision)
    (hwf : (push c (some v)).WF = true) (detect : Bool) (hlt : b.lt v = true) :
    verifyOn cfg (push c (some v)) detect (.max (some b) p) = false :=
  Lemmas.above_max_detected cfg heps c v b p hwf detect hlt

theorem shorter_string_detected (cfg : Cfg) (heps : 0 ≤ cfg.epsilon) (c : Column) (x : List Char) (n : Int)
    (hwf : (push c (some (.s x))).WF = true) (detect : Bool) (h : (x.length : Int) < n) :
    verifyOn cfg (push c (some (.s x))) detect (.minLength (some n)) = false :=
  Lemmas.shorter_string_detected cfg heps c x n hwf detect h

theorem longer_string_detected (cfg : Cfg) (heps : 0 ≤ cfg.epsilon) (c : Column) (x : List Char) (n : Int)
    (hwf : (push c (some (.s x))).WF = true) (detect : Bool) (h : n < (x.length : Int)) :
    verifyOn cfg (push c (some (.s x))) detect (.maxLength (some n)) = false :=
  Lemmas.longer_string_detected cfg heps c x n hwf detect h

theorem new_category_detected (cfg : Cfg) (heps : 0 ≤ cfg.epsilon) (c : Column) (v : Val) (vs : List Val)
    (hwf : (push c (some v)).WF = true) (detect : Bool) (h : ∀ a ∈ vs, a.eqv v = false) :
    verifyOn cfg (push c (some v)) detect (.allowedValues (some vs)) = false :=
  Lemmas.new_category_detected cfg heps c v vs hwf detect h

theorem duplicate_detected (cfg : Cfg) (heps : 0 ≤ cfg.epsilon) (c : Column) (v w : Val)
    (hwf : (push c (some v)).WF = true) (detect : Bool) (hw : w ∈ c.nonNull) (h : w.eqv v = true) :
    verifyOn cfg (push c (some v)) detect (.noDuplicates (some true)) = false :=
  Lemmas.duplicate_detected cfg heps c v w hwf detect hw h

theorem extra_null_detected (cfg : Cfg) (heps : 0 ≤ cfg.epsilon) (c : Column) (n : Int)
    (hwf : (push c none).WF = true) (detect : Bool) (h : (nullCells c : Int) = n) :
    verifyOn cfg (push c none) detect (.maxNulls (some n)) = false :=
  Lemmas.extra_null_detected cfg heps c n hwf detect h

theorem unmatched_string_detected (cfg : Cfg) (heps : 0 ≤ cfg.epsilon) (c : Column) (x : List Char) (rs : List Nat)
    (hwf : (push c (some (.s x))).WF = true) (detect : Bool) (h : ∀ r ∈ rs, cfg.rx r x = false) :
    verifyOn cfg (push c (some (.s x))) detect (.rex (some rs)) = false :=
  Lemmas.unmatched_string_detected cfg heps c x rs hwf detect h

theorem wrong_sign_detected (cfg : Cfg) (heps : 0 ≤ cfg.epsilon) (c : Column) (v : Val) (q : Rat) (s : Sign)
    (hwf : (push c (some v)).WF = true) (detect : Bool) (hq : v.num = some q) (h : ¬ SignHolds s q) :
    verifyOn cfg (push c (some v)) detect (.sign (some s)) = false :=
  Lemmas.wrong_sign_detected cfg heps c v q s hwf detect hq h

/- non-vacuity: a name and an expression full of quotes -/
example : lexQuoted '"' (quoteIdent "sel\"ect".toList ++ " IS NULL".toList) = some ("sel\"ect".toList, " IS NULL".toList) := by
  decide
example : parseDisj 2 (rexDisj "a\"b".toList ["^it's$".toList, "^''$".toList] ++ ")".toList)
    = some ([("a\"b".toList, "^it's$".toList), ("a\"b".toList, "^''$".toList)], ")".toList) := by decide

end TddaVerif.Props.C08
