/-
C04 — the independent statement of the comparison rule (definitions only).
Imported by both the property theorems (Props/C04.lean) and their proofs
(Lemmas/CheckStrings.lean).
-/
import TddaVerif.Model.CheckStrings

namespace TddaVerif.Props.C04
open TddaVerif.Py TddaVerif.CheckStrings

/-- "the two lines differ only in parts matched by an ignore-pattern", as the code
    reads it: equal, or some pattern matches both lines and the text on either side
    of the matched expression is again equivalent. -/
inductive PatEquiv (npats : Nat) (pat : PatFn) : Line → Line → Prop
  | refl (a : Line) : PatEquiv npats pat a a
  | full (p : Nat) (a e : Line) (ma me : PatRes) :
      p < npats → pat p e = some me → pat p a = some ma → me.groups = 1 → PatEquiv npats pat a e
  | restRight (p : Nat) (a e : Line) (ma me : PatRes) :
      p < npats → pat p e = some me → pat p a = some ma → me.groups = 2 → me.startParen = true →
      PatEquiv npats pat ma.right me.right → PatEquiv npats pat a e
  | restLeft (p : Nat) (a e : Line) (ma me : PatRes) :
      p < npats → pat p e = some me → pat p a = some ma → me.groups = 2 → me.startParen = false →
      PatEquiv npats pat ma.left me.left → PatEquiv npats pat a e
  | split (p : Nat) (a e : Line) (ma me : PatRes) :
      p < npats → pat p e = some me → pat p a = some ma → me.groups ≠ 1 → me.groups ≠ 2 →
      PatEquiv npats pat ma.left me.left → PatEquiv npats pat ma.right me.right →
      PatEquiv npats pat a e

/-- The pieces the comparison recurses on are strictly shorter than the line they
    were cut from (true of `re` whenever the ignore-pattern matches non-empty text;
    for a pattern that can match the empty string the real code recurses without
    bound and raises RecursionError). -/
def Shrinks (npats : Nat) (pat : PatFn) : Prop :=
  ∀ p l r, p < npats → pat p l = some r → r.groups ≠ 1 →
    r.left.length < l.length ∧ r.right.length < l.length

/-- a pair of lines is excused: after the stripping requested they are equal, or the reference line contains an
    ignore-substring, or they differ only in parts matched by an ignore-pattern -/
def LineOK (o : Opts) (pat : PatFn) (a e : Line) : Prop :=
  normalize o a = normalize o e ∨ (∃ s ∈ o.ignoreSubstrings, contains (normalize o e) s = true) ∨
  PatEquiv o.npats pat (normalize o a) (normalize o e)

/-- the executable form of `LineOK` used to state the rule -/
def lineOKb (o : Opts) (pat : PatFn) (a e : Line) : Bool :=
  normalize o a == normalize o e || canIgnore o pat a e

/-- the lines that take part in the comparison: one trailing empty line is dropped,
    then lines containing a remove-substring -/
def kept (o : Opts) (l : List Line) : List Line :=
  (dropTrailingEmpty l).filter (fun x => !removable o x)

/-- the pairs of corresponding lines that are not excused -/
def badPairs (o : Opts) (pat : PatFn) (a e : List Line) : List (Line × Line) :=
  ((kept o a).zip (kept o e)).filter (fun p => !lineOKb o pat p.1 p.2)

/-- **The comparison rule** (the statement of C04): same number of lines after
    removal, and every pair excused — or the unexcused pairs are, within the
    permitted number, permutations of each other (after the requested stripping). -/
def Agree (o : Opts) (pat : PatFn) (a e : List Line) : Prop :=
  (kept o a).length = (kept o e).length ∧
  (badPairs o pat a e = [] ∨
   ((badPairs o pat a e).length ≤ o.maxPerm ∧
    ((badPairs o pat a e).map (fun p => normalize o p.1)).Perm
      ((badPairs o pat a e).map (fun p => normalize o p.2))))

end TddaVerif.Props.C04
