import TddaVerif.Py.Text
namespace TddaVerif.Props.C14
end TddaVerif.Props.C14
