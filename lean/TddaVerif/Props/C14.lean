/-
C14 — rexpy results depend only on the multiset of examples and the seed.
Proved here (for the batch path, i.e. below the sampling threshold): reordering the examples changes nothing
(the whole result - patterns in order, extra letters, whitespace wrapping - is equal, with or without pruning
options); list form = dictionary form; frequencies are irrelevant without pruning options; repeating an example
is a no-op; the pandas-column form (pdextract) equals the list form; a call is a pure function of its inputs (the
model has no hidden state). The behaviour under
sampling, seeds, the regex memo and the global PRNG are decided by the oracle on the real code.
-/
import TddaVerif.Model.Rexpy
import TddaVerif.Props.C03Spec
import TddaVerif.Lemmas.RexpyInvariance
import TddaVerif.Lemmas.RexpyPerm
import TddaVerif.Model.RexpySeries
import TddaVerif.Lemmas.RexpySeries

namespace TddaVerif.Props.C14
open TddaVerif.Py TddaVerif.Rexpy TddaVerif.Props.C03

/-- **order independence**: any reordering of the examples gives the same result. (The cap on remembered
    fragment strings must be at least 1 - it is 10; with a cap of 0 the first example would win:
    `PermLemmas.refineFrag_cap0_order_dependent`.) -/
theorem order_independent (T : CharTable) (o : Opts) (hcap : 1 ≤ o.sizes.maxStringsInGroup)
    (items items' : List (Option Line × Nat)) (h : items.Perm items') : extract T o items = extract T o items' :=
  PermLemmas.extract_perm T o hcap items items' h

/-- **order independence for every Size setting**: the code reads the cap as `max(cap, 1)` (what it computes for the
    options `o` is `extract T o.norm`), so no condition on the sizes is left -/
theorem order_independent_every_size (T : CharTable) (o : Opts)
    (items items' : List (Option Line × Nat)) (h : items.Perm items') : extract T o.norm items = extract T o.norm items' :=
  order_independent T o.norm (Nat.le_max_right _ _) items items' h

/-- the default Size satisfies the cap hypothesis -/
example : 1 ≤ ({} : Opts).sizes.maxStringsInGroup := by decide

theorem clean_dict_eq_list (stripOpt removeEmpties : Bool) (items : List (Option Line × Nat)) :
    clean stripOpt removeEmpties (Lemmas.expand items) = clean stripOpt removeEmpties items :=
  Lemmas.clean_expand stripOpt removeEmpties items

/-- a frequency dictionary and the list it stands for give the same result -/
theorem dict_eq_list (T : CharTable) (o : Opts) (items : List (Option Line × Nat)) :
    extract T o (Lemmas.expand items) = extract T o items :=
  Lemmas.extract_dict_eq_list T o items

/-- without pruning options only which strings were supplied matters, not how often -/
theorem freq_irrelevant (T : CharTable) (o : Opts)
    (hprune : o.maxPatterns = none ∧ o.minStrings ≤ 1) (items items' : List (Option Line × Nat))
    (hs : (clean o.stripOpt o.removeEmpties items).strings = (clean o.stripOpt o.removeEmpties items').strings)
    (hn : decide ((clean o.stripOpt o.removeEmpties items).nStripped > 0)
            = decide ((clean o.stripOpt o.removeEmpties items').nStripped > 0)) :
    extract T o items = extract T o items' :=
  Lemmas.extract_freq_irrelevant T o hprune items items' hs hn

/-- repeating an example changes nothing -/
theorem repeat_is_noop (T : CharTable) (o : Opts)
    (hprune : o.maxPatterns = none ∧ o.minStrings ≤ 1) (items : List (Option Line × Nat)) (s : Line) (n k : Nat)
    (hin : (some s, n) ∈ items) (hn : n ≠ 0) :
    extract T o (items ++ [(some s, k)]) = extract T o items :=
  Lemmas.repeat_is_noop T o hprune items s n k hin hn

/-- **pandas-column form** (pdextract): the distinct non-null values of each column, columns concatenated, give the
    same result as the plain list of all the values - nulls and repeats included, any number of columns -/
theorem series_eq_list (T : CharTable) (cols : List (List (Option Line))) :
    extract T {} (pdextractItems cols) = extract T {} (cols.flatten.map (fun s => (s, 1))) :=
  TddaVerif.Props.C03.Lemmas.series_eq_list T cols

/- non-vacuity: two columns with a null, repeats within and across columns -/
example : pdextractItems [[some "ab".toList, none, some "ab".toList], [some "ab".toList, some "c".toList]] =
    [(some "ab".toList, 1), (some "ab".toList, 1), (some "c".toList, 1)] := by decide

end TddaVerif.Props.C14
