/-
C17 — what a documented command line means, written independently of the scanner.
-/
import TddaVerif.Model.Flags
namespace TddaVerif.Props.C17
open TddaVerif.Flags

/-- an option as the user writes it -/
inductive Item
  | flag (spelling : Tok)
  | value (spelling : Tok) (v : Tok)
  | list (spelling : Tok) (items : List Tok)
deriving Repr, DecidableEq

def Item.render : Item → List Tok
  | .flag s => [s]
  | .value s v => [s, v]
  | .list s items => s :: items

def renderAll (is : List Item) : List Tok := (is.map Item.render).flatten

/-- the item is written the documented way for the parser `opts`: its spelling is one of an option of the
    matching kind, a value is acceptable (not option-like, among the choices, a float where a float is asked for),
    list items are not option-like -/
def Item.WF (opts : List Opt) : Item → Prop
  | .flag s => ∃ o, findOpt opts s = some o ∧ o.kind = 0
  | .value s v => ∃ o, findOpt opts s = some o ∧ o.kind = 1 ∧ looksLikeOption v = false ∧
      (o.choices = [] ∨ v ∈ o.choices) ∧ (o.type = "float".toList → isFloatTok v = true)
  | .list s items => ∃ o, findOpt opts s = some o ∧ o.kind = 2 ∧ ∀ x ∈ items, looksLikeOption x = false

/-- every spelling of the table is option-like (so `findOpt` is only ever asked about option-like tokens) -/
def TableWF (opts : List Opt) : Prop := ∀ o ∈ opts, ∀ s ∈ o.spellings, looksLikeOption s = true

def destOf (opts : List Opt) (s : Tok) : Tok := ((findOpt opts s).map (·.dest)).getD []

/-- what the items say, accumulated left to right -/
def meaning (opts : List Opt) : List Item → Parsed → Parsed
  | [], p => p
  | .flag s :: is, p => meaning opts is { p with bools := p.bools ++ [destOf opts s] }
  | .value s v :: is, p => meaning opts is { p with values := (destOf opts s, v) :: p.values }
  | .list s items :: is, p => meaning opts is { p with lists := (destOf opts s, items) :: p.lists }

def isList : Item → Bool
  | .list _ _ => true
  | _ => false

end TddaVerif.Props.C17
