/-
C02 — verification verdicts equal the documented meaning of each constraint.
Property theorems only; proofs in TddaVerif/Lemmas/Verify.lean.
-/
import TddaVerif.Model.Report
import TddaVerif.Lemmas.Report
import TddaVerif.Model.Constraints
import TddaVerif.Props.C02Spec
import TddaVerif.Lemmas.Verify

namespace TddaVerif.Props.C02
open TddaVerif.Constraints

/-- **Main theorem.** On a well-typed column, for every constraint kind, every precision, every
    ε ≥ 0, strict or sloppy typing, in verification or detection mode, the verdict is `true`
    exactly when the documented meaning holds. -/
theorem verify_eq_spec (cfg : Cfg) (heps : 0 ≤ cfg.epsilon) (c : Column) (hwf : c.WF = true)
    (detect : Bool) (k : Constraint) : verifyOn cfg c detect k = true ↔ Sat cfg c k :=
  Lemmas.verify_eq_spec cfg heps c hwf detect k

/-- the verdict does not depend on whether detection was requested -/
theorem verify_flag_irrelevant (cfg : Cfg) (heps : 0 ≤ cfg.epsilon) (c : Column) (hwf : c.WF = true)
    (k : Constraint) : verifyOn cfg c true k = verifyOn cfg c false k :=
  Lemmas.verify_flag_irrelevant cfg heps c hwf k

/-- a constraint on a field the data lacks is reported failed -/
theorem missing_field_fails (cfg : Cfg) (frame : List Column) (f : List Char) (detect : Bool)
    (k : Constraint) (h : findCol frame f = none) : verifyOne cfg frame f detect k = false :=
  Lemmas.missing_field_fails cfg frame f detect k h

/-- a null-valued constraint on an existing field is reported satisfied -/
theorem null_value_passes (cfg : Cfg) (c : Column) (detect : Bool) (k : Constraint)
    (h : isNullC k = true) : verifyOn cfg c detect k = true :=
  Lemmas.null_value_passes cfg c detect k h

/-- fuzzy lower bound, in closed form: `fuzz_down(b, ε) = b − ε·|b|` -/
theorem fuzzDown_eq (y eps : Rat) : fuzzDown y eps = y - eps * absRat y := Lemmas.fuzzDown_eq y eps
theorem fuzzUp_eq (y eps : Rat) : fuzzUp y eps = y + eps * absRat y := Lemmas.fuzzUp_eq y eps

/-- the totals are the counts of the verdicts, per field and overall -/
theorem totals_exact (cfg : Cfg) (frame : List Column) (detect : Bool)
    (cs : List (List Char × List Constraint)) :
    let v := verifyAll cfg frame detect cs
    (∀ f ∈ v.fields, f.passes = countTrue f.verdicts ∧ f.failures = countFalse f.verdicts ∧
                      f.passes + f.failures = f.verdicts.length) ∧
    v.passes = countTrue (v.fields.map (·.verdicts)).flatten ∧
    v.failures = countFalse (v.fields.map (·.verdicts)).flatten ∧
    v.fields.map (·.field) = cs.map (·.1) ∧
    v.fields.map (·.verdicts.length) = cs.map (·.2.length) :=
  Lemmas.totals_exact cfg frame detect cs

/-- the verdict lists are the verifier applied to each constraint, field by field, in order -/
theorem verdicts_eq (cfg : Cfg) (frame : List Column) (detect : Bool)
    (cs : List (List Char × List Constraint)) :
    (verifyAll cfg frame detect cs).fields.map (·.verdicts)
      = cs.map (fun fc => fc.2.map (verifyOne cfg frame fc.1 detect)) :=
  Lemmas.verdicts_eq cfg frame detect cs

/-- adding a null-valued constraint to an existing field adds exactly one pass and changes no
    other verdict -/
theorem null_constraint_inert (cfg : Cfg) (frame : List Column) (detect : Bool)
    (pre post : List (List Char × List Constraint)) (f : List Char) (ks : List Constraint)
    (k : Constraint) (hk : isNullC k = true) (hf : (findCol frame f).isSome = true) :
    let v := verifyAll cfg frame detect (pre ++ (f, ks) :: post)
    let v' := verifyAll cfg frame detect (pre ++ (f, ks ++ [k]) :: post)
    v'.passes = v.passes + 1 ∧ v'.failures = v.failures ∧ verifyOne cfg frame f detect k = true :=
  Lemmas.null_constraint_inert cfg frame detect pre post f ks k hk hf

/- non-vacuity -/
example : verifyOn { epsilon := 1/2, strict := false, rx := fun _ _ => false }
    { name := ['a'], ftype := .real, cells := [some (.r (-8)), some (.r 4), none] } false
    (.min (some (.r (-6))) .fuzzy) = true := by decide +kernel
example : verifyOn { epsilon := 1/2, strict := false, rx := fun _ _ => false }
    { name := ['a'], ftype := .real, cells := [some (.r (-8)), some (.r 4), none] } false
    (.max (some (.r 2)) .fuzzy) = false := by decide +kernel

/-! ### the printed report (Verification.__str__, tcn): each constraint is *reported* as satisfied exactly when its verdict says so -/
open TddaVerif.Report in
/-- the mark printed for a constraint determines its verdict (satisfied / failed / no verifier), for any mark set whose
    three texts differ -/
theorem mark_determines_verdict (m : MarkSet) (hd : ReportLemmas.Distinct m) (a b : Option Bool)
    (h : m.text (tcn a) = m.text (tcn b)) : a = b := ReportLemmas.mark_determines_verdict m hd a b h

open TddaVerif.Report in
/-- report mode `all` shows every field; `fields` and `records` exactly the fields with failures -/
theorem report_shows (fs : List Field) (f : Field) :
    shown .all fs = fs ∧ (f ∈ shown .fields fs ↔ f ∈ fs ∧ f.failures > 0) ∧ shown .records fs = shown .fields fs :=
  ⟨ReportLemmas.shown_all fs, ReportLemmas.mem_shown_fields fs f, ReportLemmas.shown_records fs⟩

/-- **Tie**: the two mark sets in the source today (Generated/Report.lean is rewritten from base.py on every run) have
    pairwise different texts, so `mark_determines_verdict` applies to both -/
theorem tie_marks_distinct :
    ReportLemmas.Distinct (ReportLemmas.markSetOf TddaVerif.Generated.Report.marks) ∧
    ReportLemmas.Distinct (ReportLemmas.markSetOf TddaVerif.Generated.Report.safeMarks) := ReportLemmas.tie_marks_distinct

end TddaVerif.Props.C02
