/-
C07 — discovery reports exact statistics of the data (constraints are tight).
Property theorems only; proofs in TddaVerif/Lemmas/Discover.lean.
All theorems are about a well-typed column `c` with `n = c.cells.length` records and the
constraint list `ks` that `discoverField` returns for it.
-/
import TddaVerif.Model.Constraints
import TddaVerif.Props.C02Spec
import TddaVerif.Lemmas.Discover

namespace TddaVerif.Props.C07
open TddaVerif.Constraints TddaVerif.Props.C02

/-- discovery succeeds on every well-typed column, including columns with no records -/
theorem discover_total (incRex : Bool) (rexOf : List Val → List Nat) (c : Column) (hwf : c.WF = true) :
    ∃ ks, discoverField incRex rexOf c c.cells.length = .ok (some ks) :=
  Lemmas.discover_total incRex rexOf c hwf

/-- the field type is the column's type, reported first and once -/
theorem type_is_column_type (incRex : Bool) (rexOf : List Val → List Nat) (c : Column) (n : Nat)
    (ks : List Constraint) (h : discoverField incRex rexOf c n = .ok (some ks)) :
    ks.head? = some (.type (some [c.ftype])) ∧
    ∀ ts, Constraint.type ts ∈ ks → ts = some [c.ftype] :=
  Lemmas.type_is_column_type incRex rexOf c n ks h

/-- nothing but the type is discovered for data that is absent (plus, on request, the regular
    expressions of no examples) -/
theorem nothing_for_absent (incRex : Bool) (rexOf : List Val → List Nat) (c : Column)
    (ks : List Constraint) (h : discoverField incRex rexOf c 0 = .ok (some ks)) :
    ks = .type (some [c.ftype]) ::
          (if c.ftype == .string && incRex then [Constraint.rex (some (rexOf []))] else []) :=
  Lemmas.nothing_for_absent incRex rexOf c ks h

/-- min is attained by some record and is below every non-null value; it is reported exactly
    when a non-string column has a non-null value -/
theorem min_exact (incRex : Bool) (rexOf : List Val → List Nat) (c : Column) (hwf : c.WF = true)
    (ks : List Constraint) (hn : 0 < c.cells.length)
    (h : discoverField incRex rexOf c c.cells.length = .ok (some ks)) :
    (∀ v p, Constraint.min v p ∈ ks → ∃ m, v = some m ∧ m ∈ c.nonNull ∧ ∀ x ∈ c.nonNull, m.le x = true) ∧
    ((∃ v p, Constraint.min v p ∈ ks) ↔ (c.ftype ≠ .string ∧ c.nonNull ≠ [])) :=
  Lemmas.min_exact incRex rexOf c hwf ks hn h

theorem max_exact (incRex : Bool) (rexOf : List Val → List Nat) (c : Column) (hwf : c.WF = true)
    (ks : List Constraint) (hn : 0 < c.cells.length)
    (h : discoverField incRex rexOf c c.cells.length = .ok (some ks)) :
    (∀ v p, Constraint.max v p ∈ ks → ∃ m, v = some m ∧ m ∈ c.nonNull ∧ ∀ x ∈ c.nonNull, x.le m = true) ∧
    ((∃ v p, Constraint.max v p ∈ ks) ↔ (c.ftype ≠ .string ∧ c.nonNull ≠ [])) :=
  Lemmas.max_exact incRex rexOf c hwf ks hn h

/-- minimum and maximum length are attained and extremal over the string lengths (in characters);
    reported exactly when a string column has a non-null value -/
theorem length_exact (incRex : Bool) (rexOf : List Val → List Nat) (c : Column) (hwf : c.WF = true)
    (ks : List Constraint) (hn : 0 < c.cells.length)
    (h : discoverField incRex rexOf c c.cells.length = .ok (some ks)) :
    (∀ v, Constraint.minLength v ∈ ks → ∃ m : Nat, v = some (m : Int) ∧
        (∃ x, Val.s x ∈ c.nonNull ∧ x.length = m) ∧ ∀ x, Val.s x ∈ c.nonNull → m ≤ x.length) ∧
    (∀ v, Constraint.maxLength v ∈ ks → ∃ m : Nat, v = some (m : Int) ∧
        (∃ x, Val.s x ∈ c.nonNull ∧ x.length = m) ∧ ∀ x, Val.s x ∈ c.nonNull → x.length ≤ m) ∧
    ((∃ v, Constraint.minLength v ∈ ks) ↔ (c.ftype = .string ∧ c.nonNull ≠ [])) ∧
    ((∃ v, Constraint.maxLength v ∈ ks) ↔ (c.ftype = .string ∧ c.nonNull ≠ [])) :=
  Lemmas.length_exact incRex rexOf c hwf ks hn h

/-- sign is the strongest class all values share; none is reported when the values share no class -/
theorem sign_strongest (incRex : Bool) (rexOf : List Val → List Nat) (c : Column) (hwf : c.WF = true)
    (ks : List Constraint) (hn : 0 < c.cells.length) (hne : c.nonNull ≠ [])
    (hnum : c.ftype = .bool ∨ c.ftype = .int ∨ c.ftype = .real)
    (h : discoverField incRex rexOf c c.cells.length = .ok (some ks)) :
    (∀ s, Constraint.sign (some s) ∈ ks →
        (∀ v ∈ c.nonNull, ∃ q, v.num = some q ∧ SignHolds s q) ∧
        ∀ s', Stronger' s' s = true → ¬ ∀ v ∈ c.nonNull, ∃ q, v.num = some q ∧ SignHolds s' q) ∧
    ((¬ ∃ s, Constraint.sign s ∈ ks) →
        ∀ s, ¬ ∀ v ∈ c.nonNull, ∃ q, v.num = some q ∧ SignHolds s q) :=
  Lemmas.sign_strongest incRex rexOf c hwf ks hn hne hnum h

/-- max-nulls is the null count when that is 0 or 1, otherwise absent -/
theorem maxNulls_iff (incRex : Bool) (rexOf : List Val → List Nat) (c : Column) (hwf : c.WF = true)
    (ks : List Constraint) (hn : 0 < c.cells.length)
    (h : discoverField incRex rexOf c c.cells.length = .ok (some ks)) (v : Option Int) :
    Constraint.maxNulls v ∈ ks ↔ (v = some (nullCells c : Int) ∧ nullCells c < 2) :=
  Lemmas.maxNulls_iff incRex rexOf c hwf ks hn h v

/-- no-duplicates is present exactly when a string or int field has more than one non-null value and
    all are distinct (the statement's "non-real field" also covers bool and date fields, for which the
    code never computes the distinct count: the recorded C07 findings) -/
theorem noDuplicates_iff (incRex : Bool) (rexOf : List Val → List Nat) (c : Column) (hwf : c.WF = true)
    (ks : List Constraint) (hn : 0 < c.cells.length)
    (h : discoverField incRex rexOf c c.cells.length = .ok (some ks)) (v : Option Bool) :
    Constraint.noDuplicates v ∈ ks ↔
      (v = some true ∧ c.ftype ≠ .real ∧ 1 < c.nonNull.length ∧
       c.nonNull.Pairwise (fun a b => a.eqv b = false)) :=
  Lemmas.noDuplicates_iff incRex rexOf c hwf ks hn h v

/-- allowed-values is exactly the sorted list of distinct non-null strings when there are between
    one and twenty of them, otherwise absent -/
theorem allowedValues_iff (incRex : Bool) (rexOf : List Val → List Nat) (c : Column) (hwf : c.WF = true)
    (ks : List Constraint) (hn : 0 < c.cells.length)
    (h : discoverField incRex rexOf c c.cells.length = .ok (some ks)) (v : Option (List Val)) :
    Constraint.allowedValues v ∈ ks ↔
      (c.ftype = .string ∧ v = some (calcUniques c) ∧ 0 < (calcUniques c).length ∧
       (calcUniques c).length ≤ 20) :=
  Lemmas.allowedValues_iff incRex rexOf c hwf ks hn h v

/-- `calcUniques` is what it is called: the distinct non-null values, each once, in ascending order -/
theorem uniques_exact (c : Column) (hwf : c.WF = true) :
    (∀ v, v ∈ calcUniques c ↔ v ∈ c.nonNull) ∧
    (calcUniques c).Pairwise (fun a b => a.lt b = true) :=
  Lemmas.uniques_exact c hwf

/- non-vacuity -/
def exampleCol : Column :=
  { name := ['s'], ftype := FType.string, cells := [some (Val.s ['b']), none, some (Val.s ['a', 'b'])] }

example : discoverField false (fun _ => []) exampleCol 3
    = .ok (some [.type (some [.string]), .minLength (some 1), .maxLength (some 2), .maxNulls (some 1),
                 .noDuplicates (some true), .allowedValues (some [.s ['a', 'b'], .s ['b']])]) := by
  rfl

end TddaVerif.Props.C07
