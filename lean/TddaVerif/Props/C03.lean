/-
C03 — every example string is matched by one of the regular expressions rexpy returns.
Property theorems only; proofs in TddaVerif/Lemmas/Rexpy*.lean.
-/
import TddaVerif.Model.Rexpy
import TddaVerif.Props.C03Spec
import TddaVerif.Lemmas.RexpySound
import TddaVerif.Model.RexpySampled
import TddaVerif.Lemmas.RexpySampled
import TddaVerif.Generated.Rexpy

namespace TddaVerif.Props.C03
open TddaVerif.Py TddaVerif.Rexpy

/-- the backtracking matcher is sound: what it captures is a split of the string into accepted pieces -/
theorem matchCap_sound (T : CharTable) (E : List Char) (p : Pattern) (s : Line) (caps : List Line)
    (h : matchCap T E p s = some caps) :
    caps.flatten = s ∧ caps.length = p.length ∧
    (∀ i, i < p.length → fragAccepts T E (p.getD i ⟨.code ' ', 0, none, false⟩) (caps.getD i []) = true) ∧
    Matches T E p s :=
  Lemmas.matchCap_sound T E p s caps h

/-- … and complete: whenever some split exists it finds one (this is the `assert m is not None`) -/
theorem matchCap_complete (T : CharTable) (E : List Char) (p : Pattern) (s : Line)
    (h : Matches T E p s) : (matchCap T E p s).isSome = true :=
  Lemmas.matchCap_complete T E p s h

/-- every character is accepted by the coarse class it is given -/
theorem coarse_sound (T : CharTable) (hT : Consistent T) (E : List Char) (hE : E = normExtras E) (c : Char) :
    inCat T E (coarse T E c) c = true :=
  Lemmas.coarse_sound T hT E hE c

/-- **Batch extraction is sound**: no internal assertion fails, and every cleaned example is matched
    by one of the patterns (with the optional-whitespace wrap once any example needed stripping), for every option combination (strip, empties, variable-length fragments,
    extra letters). `hsz`: the cap on remembered strings per group is at least 1 (rexpy's default
    is 10; with 0 the single-string test of refine_fragments would misfire). -/
theorem batch_extract_sound (T : CharTable) (hT : Consistent T) (o : Opts)
    (hsz : 1 ≤ o.sizes.maxStringsInGroup) (cl : Cleaned) :
    ∃ ps E, batchExtract T o cl = some (ps, E) ∧
      ∀ s ∈ cl.strings, ∃ p ∈ ps, Matches T E (wrapWs (decide (cl.nStripped > 0)) p) s :=
  Lemmas.batch_extract_sound T hT o hsz cl

/-- **Extraction is sound**: with no pruning option, every supplied example that an explicit option
    does not discard — as supplied, before stripping — is matched by one of the returned patterns
    (with the optional-whitespace wrap when stripping changed something). -/
theorem extract_sound (T : CharTable) (hT : Consistent T) (o : Opts)
    (hsz : 1 ≤ o.sizes.maxStringsInGroup)
    (hprune : o.maxPatterns = none ∧ o.minStrings ≤ 1) (items : List (Option Line × Nat)) :
    ∃ ps E w, extract T o items = some (ps, E, w) ∧
      ∀ s ∈ keptExamples o items, ∃ p ∈ ps, Matches T E (wrapWs w p) s :=
  Lemmas.extract_sound T hT o hsz hprune items

/-! ### with sampling (Size settings below the number of distinct examples)

`extractSampled` models Extractor.__init__ / extract with the first sample, the loop and the pruning;
`random.sample` is the parameter `pick`. -/

abbrev PickOK := @SampledLemmas.PickOK

/-- **soundness under sampling**: for every Size setting and whatever `random.sample` returns (as long as it returns
    elements of the list it is given, and at least one when asked for at least one of a non-empty list), every
    example that is not discarded is matched by one of the expressions returned -/
theorem extract_sampled_sound (T : CharTable) (hT : Consistent T) (o : Opts)
    (hsz : 1 ≤ o.sizes.maxStringsInGroup) (cfg : SampleCfg) (pick : Pick)
    (hp : PickOK pick) (hprune : o.maxPatterns = none ∧ o.minStrings ≤ 1) (items : List (Option Line × Nat))
    (ps : List Pattern) (E : List Char) (w : Bool) (h : extractSampled T o cfg pick items = some (ps, E, w)) :
    ∀ s ∈ keptExamples o items, ∃ p ∈ ps, Matches T E (wrapWs w p) s :=
  SampledLemmas.extractSampled_sound T hT o hsz cfg pick hp hprune items ps E w h

/-- the loop always ends (within the fuel the model gives it) and returns a result, for any sampler at all -/
theorem extract_sampled_terminates (T : CharTable) (hT : Consistent T) (o : Opts)
    (cfg : SampleCfg) (pick : Pick) (items : List (Option Line × Nat)) :
    ∃ r, extractSampled T o cfg pick items = some r :=
  SampledLemmas.extractSampled_terminates T hT o cfg pick items

/-- with no more distinct examples than Size.do_all nothing is sampled: the result is the batch result -/
theorem extract_sampled_eq_batch (T : CharTable) (hT : Consistent T) (o : Opts) (hsz : 1 ≤ o.sizes.maxStringsInGroup)
    (cfg : SampleCfg) (pick : Pick) (items : List (Option Line × Nat))
    (hsmall : (clean o.stripOpt o.removeEmpties items).strings.length ≤ cfg.doAll) :
    extractSampled T o cfg pick items = extract T o items :=
  SampledLemmas.extractSampled_eq_extract T hT o hsz cfg pick items hsmall

/-! ### for every Size setting

`analyse_fragments` reads the cap on remembered strings as `max(cap, 1)` (rexpy.py:1063): what the code computes for
the options `o` is `extract T o.norm` / `extractSampled T o.norm`. The hypothesis `1 ≤ cap` of the theorems above is
then met by every Size setting, so the statements hold with no condition on the sizes at all. -/

theorem norm_cap (o : Opts) : 1 ≤ o.norm.sizes.maxStringsInGroup := Nat.le_max_right _ _

/-- **Extraction is sound for every Size setting** (no hypothesis on the cap) -/
theorem extract_sound_every_size (T : CharTable) (hT : Consistent T) (o : Opts)
    (hprune : o.maxPatterns = none ∧ o.minStrings ≤ 1) (items : List (Option Line × Nat)) :
    ∃ ps E w, extract T o.norm items = some (ps, E, w) ∧
      ∀ s ∈ keptExamples o items, ∃ p ∈ ps, Matches T E (wrapWs w p) s :=
  extract_sound T hT o.norm (norm_cap o) hprune items

/-- **soundness under sampling for every Size setting** -/
theorem extract_sampled_sound_every_size (T : CharTable) (hT : Consistent T) (o : Opts) (cfg : SampleCfg) (pick : Pick)
    (hp : PickOK pick) (hprune : o.maxPatterns = none ∧ o.minStrings ≤ 1) (items : List (Option Line × Nat))
    (ps : List Pattern) (E : List Char) (w : Bool) (h : extractSampled T o.norm cfg pick items = some (ps, E, w)) :
    ∀ s ∈ keptExamples o items, ∃ p ∈ ps, Matches T E (wrapWs w p) s :=
  extract_sampled_sound T hT o.norm (norm_cap o) cfg pick hp hprune items ps E w h

/-- with no more distinct examples than Size.do_all the sampled path is the batch path, for every Size setting -/
theorem extract_sampled_eq_batch_every_size (T : CharTable) (hT : Consistent T) (o : Opts)
    (cfg : SampleCfg) (pick : Pick) (items : List (Option Line × Nat))
    (hsmall : (clean o.stripOpt o.removeEmpties items).strings.length ≤ cfg.doAll) :
    extractSampled T o.norm cfg pick items = extract T o.norm items :=
  extract_sampled_eq_batch T hT o.norm (norm_cap o) cfg pick items hsmall

/- a cap of 0 is such a setting: the normalised options keep two strings, the raw ones would keep one -/
example : ({ sizes := { maxStringsInGroup := 0 } } : Opts).norm.sizes.maxStringsInGroup = 1 := by decide

/-- **Tie**: the constants the model hard-codes are the ones in the source today
    (Generated/Rexpy.lean is rewritten from tdda/rexpy/rexpy.py on every run) -/
theorem tie_constants :
    Generated.Rexpy.maxGroups = maxGroups ∧ Generated.Rexpy.maxVrleRange = maxVrleRange ∧
    Generated.Rexpy.nAlignmentLevels = 1 ∧
    Generated.Rexpy.maxPuncInGroup = ({} : Sizes).maxPuncInGroup ∧
    Generated.Rexpy.maxStringsInGroup = ({} : Sizes).maxStringsInGroup ∧
    Generated.Rexpy.coarsestAlnumCode = cUAlpha ∧ Generated.Rexpy.codeAny = cAny ∧
    Generated.Rexpy.codePunc = cPunc ∧
    Generated.Rexpy.coarseOrder = [cUAlpha, cWhite, cPunc, cOther] := by decide

/-- **Tie**: the order in which alphanumeric classes are tried, for every set of extra letters -/
theorem tie_general_alnums :
    Generated.Rexpy.generalAlnums.all (fun e => generalAlnums e.1 == e.2) = true := by decide

/- non-vacuity -/
example : Consistent { w := fun c => asciiUpper c || asciiLower c || asciiDigit c || c == '_',
                       d := asciiDigit, s := isSpace } := by
  refine ⟨?_, ?_, ?_⟩
  · intro c h; rcases h with h | h | h | h <;> simp_all
  · intro c h; exact h
  · intro c h; exact h

end TddaVerif.Props.C03
