import TddaVerif.Py.Text
namespace TddaVerif.Props.C03
end TddaVerif.Props.C03
