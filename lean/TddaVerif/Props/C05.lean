/-
C05 — two DataFrames compare as correct exactly when the checked structure and values agree.
Model: Model/CheckPandas.lean (structure checks, verdict); value comparison enters as the parameter
`valuesEqual` (DataFrame.round/equals are not modelled - the oracle recomputes them cell by cell).
Proofs: Lemmas/CheckPandas.lean.
-/
import TddaVerif.Model.CheckPandas
import TddaVerif.Props.C05Spec
import TddaVerif.Lemmas.CheckPandas
import TddaVerif.Model.Round
import TddaVerif.Lemmas.Round

namespace TddaVerif.Props.C05
open TddaVerif.Py TddaVerif.CheckPandas

/-- types_match is the documented relation of the three levels -/
theorem typesMatch_iff (a b : Line) (level : Level) : typesMatch a b level = true ↔ TypesAgree a b level :=
  Lemmas.typesMatch_iff a b level
theorem typesMatch_refl (a : Line) (level : Level) : typesMatch a a level = true := Lemmas.typesMatch_refl a level
theorem typesMatch_symm (a b : Line) (level : Level) : typesMatch a b level = typesMatch b a level :=
  Lemmas.typesMatch_symm a b level
/-- each level accepts everything the stricter one accepts -/
theorem typesMatch_strict_to_medium (a b : Line) (h : typesMatch a b .strict = true) : typesMatch a b .medium = true :=
  Lemmas.typesMatch_strict_to_medium a b h
theorem typesMatch_medium_to_permissive (a b : Line) (h : typesMatch a b .medium = true) :
    typesMatch a b .permissive = true := Lemmas.typesMatch_medium_to_permissive a b h

/-- **the property**: the comparison passes exactly when the stated rule holds -/
theorem check_iff_agree (act ref : List Col) (nact nref : Nat) (cd ct ce : Flag) (co : Option Flag)
    (level : Level) (ve : List Line → Bool) :
    checkDataframe act ref nact nref cd ct ce co level ve = true ↔ Agree act ref nact nref cd ct ce co level ve :=
  Lemmas.check_iff_agree act ref nact nref cd ct ce co level ve

theorem copy_passes (f : List Col) (n : Nat) (cd ct ce : Flag) (co : Option Flag) (level : Level)
    (ve : List Line → Bool) (hve : ∀ cols, ve cols = true)
    (hct : ∀ c ∈ resolve ct (f.map (·.name)), c ∈ f.map (·.name))
    (hcd : ∀ c ∈ resolve cd (f.map (·.name)), c ∈ f.map (·.name))
    (hce : ∀ c ∈ resolve ce (f.map (·.name)), c ∈ f.map (·.name)) :
    checkDataframe f f n n cd ct ce co level ve = true :=
  Lemmas.copy_passes f n cd ct ce co level ve hve hct hcd hce

theorem rowcount_fails (act ref : List Col) (nact nref : Nat) (cd ct ce : Flag) (co : Option Flag)
    (level : Level) (ve : List Line → Bool) (h : nact ≠ nref) :
    checkDataframe act ref nact nref cd ct ce co level ve = false :=
  Lemmas.rowcount_fails act ref nact nref cd ct ce co level ve h

theorem missing_column_fails (act ref : List Col) (nact nref : Nat) (cd ct ce : Flag) (co : Option Flag)
    (level : Level) (ve : List Line → Bool) (c : Line)
    (hc : c ∈ resolve ct (ref.map (·.name))) (hm : c ∉ act.map (·.name)) :
    checkDataframe act ref nact nref cd ct ce co level ve = false :=
  Lemmas.missing_column_fails act ref nact nref cd ct ce co level ve c hc hm

theorem extra_column_fails (act ref : List Col) (nact nref : Nat) (cd ct ce : Flag) (co : Option Flag)
    (level : Level) (ve : List Line → Bool) (c : Line)
    (hc : c ∈ resolve ce (act.map (·.name))) (hm : c ∉ ref.map (·.name)) :
    checkDataframe act ref nact nref cd ct ce co level ve = false :=
  Lemmas.extra_column_fails act ref nact nref cd ct ce co level ve c hc hm

theorem wrong_type_fails (act ref : List Col) (nact nref : Nat) (cd ct ce : Flag) (co : Option Flag)
    (level : Level) (ve : List Line → Bool) (c ta tr : Line)
    (hc : c ∈ resolve ct (ref.map (·.name)))
    (ha : dtypeC act c = some ta) (hr : dtypeC ref c = some tr) (hne : ¬ TypesAgree ta tr level) :
    checkDataframe act ref nact nref cd ct ce co level ve = false :=
  Lemmas.wrong_type_fails act ref nact nref cd ct ce co level ve c ta tr hc ha hr hne

theorem wrong_order_fails (act ref : List Col) (nact nref : Nat) (cd ct ce : Flag) (f : Flag)
    (level : Level) (ve : List Line → Bool)
    (h : (act.map (·.name)).filter (fun c => (resolve f (ref.map (·.name))).contains c && (ref.map (·.name)).contains c)
       ≠ (ref.map (·.name)).filter (fun c => (resolve f (ref.map (·.name))).contains c && (act.map (·.name)).contains c)) :
    checkDataframe act ref nact nref cd ct ce (some f) level ve = false :=
  Lemmas.wrong_order_fails act ref nact nref cd ct ce f level ve h

theorem value_difference_fails (act ref : List Col) (nact nref : Nat) (cd ct ce : Flag) (co : Option Flag)
    (level : Level) (ve : List Line → Bool)
    (hne : resolve cd (ref.map (·.name)) ≠ []) (h : ve (resolve cd (ref.map (·.name))) = false) :
    checkDataframe act ref nact nref cd ct ce co level ve = false :=
  Lemmas.value_difference_fails act ref nact nref cd ct ce co level ve hne h

/-- moving a column really is a different relative order (frames with distinct names, everything selected) -/
theorem swap_changes_order (pre mid post : List Line) (a b : Line) (hab : a ≠ b)
    (hnd : (pre ++ a :: mid ++ b :: post).Nodup) :
    (pre ++ b :: mid ++ a :: post).filter (fun c => (pre ++ a :: mid ++ b :: post).contains c && (pre ++ a :: mid ++ b :: post).contains c)
      ≠ (pre ++ a :: mid ++ b :: post).filter (fun c => (pre ++ a :: mid ++ b :: post).contains c && (pre ++ b :: mid ++ a :: post).contains c) :=
  Lemmas.swap_changes_order pre mid post a b hab hnd

/-! ### values: equal after rounding to the requested precision (numpy.round on exact values; Model/Round.lean) -/
section rounding
open TddaVerif.Round
abbrev absR := @RoundLemmas.absR

/-- rounding moves a value by at most half a unit of the last place kept -/
theorem roundTo_close (p : Nat) (x : Rat) : absR (roundTo p x - x) ≤ 1 / (2 * pow10 p) :=
  RoundLemmas.roundTo_close p x

/-- a value on the grid of the precision is left alone -/
theorem roundTo_grid (p : Nat) (k : Int) : roundTo p ((k : Rat) / pow10 p) = (k : Rat) / pow10 p :=
  RoundLemmas.roundTo_grid p k

/-- two values further apart than one unit of the last place kept never compare equal:
    changing a checked value by more than the precision always fails -/
theorem far_apart_differ (p : Nat) (x y : Rat) (h : absR (x - y) > 1 / pow10 p) : roundTo p x ≠ roundTo p y :=
  RoundLemmas.far_apart_differ p x y h

theorem cellsEqual_far (p : Nat) (x y : Rat) (h : absR (x - y) > 1 / pow10 p) :
    cellsEqual p (some x) (some y) = false :=
  RoundLemmas.cellsEqual_far p x y h

/-- equal values compare equal; a null equals only a null -/
theorem cellsEqual_refl (p : Nat) (x : Option Rat) : cellsEqual p x x = true :=
  RoundLemmas.cellsEqual_refl p x

theorem cellsEqual_null (p : Nat) (x : Rat) : cellsEqual p none (some x) = false ∧ cellsEqual p (some x) none = false :=
  RoundLemmas.cellsEqual_null p x

theorem cellsEqual_symm (p : Nat) (x y : Option Rat) : cellsEqual p x y = cellsEqual p y x :=
  RoundLemmas.cellsEqual_symm p x y

/-- values within the same rounding cell compare equal: both round to the same grid point `k / 10^p` when they lie
    strictly within half a unit of it -/
theorem cellsEqual_near_grid (p : Nat) (k : Int) (x y : Rat)
    (hx : absR (x - (k : Rat) / pow10 p) < 1 / (2 * pow10 p)) (hy : absR (y - (k : Rat) / pow10 p) < 1 / (2 * pow10 p)) :
    cellsEqual p (some x) (some y) = true :=
  RoundLemmas.cellsEqual_near_grid p k x y hx hy

end rounding

/- non-vacuity: a two-column frame, medium matching, int64 vs Int32 agree, int64 vs float64 do not -/
example : typesMatch "int64".toList "Int32".toList .medium = true := by decide
example : typesMatch "int64".toList "float64".toList .medium = false := by decide
example : typesMatch "int64".toList "float64".toList .permissive = true := by decide
example : typesMatch "object".toList "datetime64[ns]".toList .medium = true := by decide

end TddaVerif.Props.C05
