import TddaVerif.Model.CheckPandas
namespace TddaVerif.Props.C05
end TddaVerif.Props.C05
