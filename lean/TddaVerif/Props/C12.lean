/-
C12 — gentest: the generated test fails when the command behaves differently.

Carried by theorems: each stream and each reference file has its own test (C11.plan_*, distinct names, so a change
is reported by the test for that stream or file and by no stand-in); each such test is a check_strings comparison
(C04) against the reference, which fails on any difference that no generated exclusion excuses and on a different
number of lines. Which lines the generator excuses, that a deleted file or a changed exit status is reported,
and binary comparison are runtime: decided by the oracle, which changes the command after generation and re-runs
the generated script.
-/
import TddaVerif.Model.Gentest
import TddaVerif.Model.CheckStrings
import TddaVerif.Props.C04
import TddaVerif.Props.C04Spec
import TddaVerif.Props.C11

namespace TddaVerif.Props.C12
open TddaVerif.Gentest TddaVerif.CheckStrings TddaVerif.Props.C04

/-- a changed line that no exclusion excuses makes the comparison fail -/
theorem changed_line_fails (o : Opts) (pat : PatFn) (a e : List TddaVerif.Py.Line)
    (hperm : o.maxPerm = 0) (h : badPairs o pat a e ≠ []) : (checkStrings o pat a e).failures = 1 :=
  C04.unexcused_difference_fails o pat a e hperm h

/-- an added or removed line (a different number of kept lines) makes the comparison fail -/
theorem added_or_removed_line_fails (o : Opts) (pat : PatFn) (a e : List TddaVerif.Py.Line)
    (h : (kept o a).length ≠ (kept o e).length) : (checkStrings o pat a e).failures = 1 :=
  C04.different_length_fails o pat a e h

/-- the comparison passes exactly when the stated rule holds: nothing else makes it pass -/
theorem passes_only_by_the_rule (o : Opts) (pat : PatFn) (a e : List TddaVerif.Py.Line) :
    (checkStrings o pat a e).failures = 0 ↔ C04.Agree o pat a e := C04.check_pass_iff o pat a e

/-- every stream asked for and every reference file has a test of its own, under a name no other test has -/
theorem every_output_has_its_own_test (alnum : Char → Bool) (so se : Bool) (files : List (Name × Bool)) :
    ((plan alnum so se files).map (·.name)).Nodup ∧
    ((plan alnum so se files).filter (fun t => t.kind == some .textFile || t.kind == some .binaryFile)).map
        (fun t => (t.subject, t.kind == some .textFile)) = files ∧
    ((plan alnum so se files).filter (fun t => t.kind == some .string)).map (·.subject)
      = (if so then ["stdout".toList] else []) ++ (if se then ["stderr".toList] else []) :=
  ⟨C11.plan_names_nodup alnum so se files, C11.plan_files alnum so se files, (C11.plan_streams alnum so se files).1⟩

end TddaVerif.Props.C12
