/-
C12 — gentest: the generated test fails when the command behaves differently.

Carried by theorems: each stream and each reference file has its own test (C11.plan_*, distinct names, so a change
is reported by the test for that stream or file and by no stand-in); each such test is a check_strings comparison
(C04) against the reference, which fails on any difference that no generated exclusion excuses and on a different
number of lines; for a repeatable command the generated exclusions are ignore-substrings that are machine-specific
strings found in the text or dates within a day of the generation run, and nothing else (Model/GentestExcl.lean, the
date detectors' answers being inputs), so a changed line that holds none of them makes the test fail. That a deleted
file or a changed exit status is reported, and binary comparison, are runtime: decided by the oracle, which changes
the command after generation and re-runs the generated script.
-/
import TddaVerif.Model.Gentest
import TddaVerif.Model.CheckStrings
import TddaVerif.Props.C04
import TddaVerif.Props.C04Spec
import TddaVerif.Props.C11
import TddaVerif.Model.GentestExcl
import TddaVerif.Lemmas.GentestExcl
import TddaVerif.Generated.Gentest

namespace TddaVerif.Props.C12
open TddaVerif.Gentest TddaVerif.CheckStrings TddaVerif.Props.C04

/-- a changed line that no exclusion excuses makes the comparison fail -/
theorem changed_line_fails (o : Opts) (pat : PatFn) (a e : List TddaVerif.Py.Line)
    (hperm : o.maxPerm = 0) (h : badPairs o pat a e ≠ []) : (checkStrings o pat a e).failures = 1 :=
  C04.unexcused_difference_fails o pat a e hperm h

/-- an added or removed line (a different number of kept lines) makes the comparison fail -/
theorem added_or_removed_line_fails (o : Opts) (pat : PatFn) (a e : List TddaVerif.Py.Line)
    (h : (kept o a).length ≠ (kept o e).length) : (checkStrings o pat a e).failures = 1 :=
  C04.different_length_fails o pat a e h

/-- the comparison passes exactly when the stated rule holds: nothing else makes it pass -/
theorem passes_only_by_the_rule (o : Opts) (pat : PatFn) (a e : List TddaVerif.Py.Line) :
    (checkStrings o pat a e).failures = 0 ↔ C04.Agree o pat a e := C04.check_pass_iff o pat a e

/-- every stream asked for and every reference file has a test of its own, under a name no other test has -/
theorem every_output_has_its_own_test (alnum : Char → Bool) (so se : Bool) (files : List (Name × Bool)) :
    ((plan alnum so se files).map (·.name)).Nodup ∧
    ((plan alnum so se files).filter (fun t => t.kind == some .textFile || t.kind == some .binaryFile)).map
        (fun t => (t.subject, t.kind == some .textFile)) = files ∧
    ((plan alnum so se files).filter (fun t => t.kind == some .string)).map (·.subject)
      = (if so then ["stdout".toList] else []) ++ (if se then ["stderr".toList] else []) :=
  ⟨C11.plan_names_nodup alnum so se files, C11.plan_files alnum so se files, (C11.plan_streams alnum so se files).1⟩

/-! ### which lines the generator excuses (repeatable command) -/

/-- a single run generates no exclusion at all -/
theorem single_run_no_exclusions (env : Env) (lines : List LineInfo) :
    exclusions env 1 lines = { substrings := [], datesToRex := [] } :=
  ExclLemmas.single_run_no_exclusions env lines

/-- **where an exclusion comes from**: it is the host name, the IP address, the working directory, the user name or
    TMPDIR - and then some line contains it - or a date / datetime the detectors found in a line that holds a date
    within the window of the generation run. Nothing else is ever excluded for a repeatable command. -/
theorem substring_origin (env : Env) (n : Nat) (lines : List LineInfo) (s : TddaVerif.Py.Line)
    (h : s ∈ (exclusions env n lines).substrings ∨ s ∈ (exclusions env n lines).datesToRex) :
    (∃ l ∈ lines, TddaVerif.Py.contains l.text s = true ∧
        (s = env.host ∨ some s = env.ip ∨ s = env.cwd ∨ s = env.user ∨ some s = env.tmpdir)) ∨
    (∃ l ∈ lines, l.plausibleDate = true ∧ (s ∈ l.dates ∨ s ∈ l.dts)) :=
  ExclLemmas.substring_origin env n lines s h

/-- a date outside the window of the run excludes nothing, however date- or time-like the text is -/
theorem no_plausible_date_no_date_exclusion (env : Env) (n : Nat) (lines : List LineInfo)
    (hnone : ∀ l ∈ lines, l.plausibleDate = false) :
    (exclusions env n lines).datesToRex = [] ∧
    ∀ s ∈ (exclusions env n lines).substrings,
      s = env.host ∨ some s = env.ip ∨ s = env.cwd ∨ s = env.user ∨ some s = env.tmpdir :=
  ExclLemmas.no_plausible_date_no_date_exclusion env n lines hnone

/-- **a changed line that holds none of the generated ignore-substrings makes the generated test fail** (the generated
    assertion is a check_strings comparison whose only option is the list of ignore-substrings) -/
theorem changed_unexcluded_line_fails (subs : List TddaVerif.Py.Line) (pat : PatFn) (a e : List TddaVerif.Py.Line) (i : Nat)
    (hlen : a.length = e.length) (hi : i < e.length)
    (hlast : e.getLast? ≠ some [] ∧ a.getLast? ≠ some [])
    (hne : a.getD i [] ≠ e.getD i [])
    (hfree : ∀ s ∈ subs, TddaVerif.Py.contains (e.getD i []) s = false) :
    (checkStrings { ignoreSubstrings := subs } pat a e).failures = 1 :=
  ExclLemmas.changed_unexcluded_line_fails subs pat a e i hlen hi hlast hne hfree

/-- **Tie**: the constants and the shape of the rule are the ones in the source today (Generated/Gentest.lean is
    rewritten from tdda/referencetest/gentest.py on every run): the limit on listed dates and the comparison it is used
    in, the run count below which nothing is excluded, the machine-specific kinds in the order the model appends them
    (homedir only warns) -/
theorem tie_exclusion_rule :
    Generated.Gentest.maxSpecificDateVariants = maxDateVariants ∧
    Generated.Gentest.minRunsForExclusions = 2 ∧
    Generated.Gentest.tokenKinds = ["host".toList, "ip".toList, "cwd".toList, "user".toList, "homedir".toList, "tmpdir".toList] ∧
    Generated.Gentest.warningOnlyKinds = ["homedir".toList] := by decide

end TddaVerif.Props.C12
