/-
C18 — rexpy coverage figures equal true match counts and account for all examples.

Property theorems only (helper lemmas live in TddaVerif/Lemmas/Coverage.lean).
The regular-expression engine is the parameter `m : α → ε → Bool`
("pattern p matches example x"); everything else is the model of
rex_coverage / coverage_matrices / matrices2incremental_coverage.
-/
import TddaVerif.Model.Coverage
import TddaVerif.Lemmas.Coverage

namespace TddaVerif.Props.C18
open TddaVerif.Coverage

/-- each expression's coverage, counting repeats, is the total frequency of the
    examples it really matches -/
theorem coverage_exact (row : List (Bool × Nat)) :
    rexCoverage1 false row = ((row.filter (·.1)).map (·.2)).sum :=
  Lemmas.coverage_exact row

/-- … and ignoring repeats it is the number of distinct examples matched -/
theorem coverage_dedup_exact (row : List (Bool × Nat)) :
    rexCoverage1 true row = (row.filter (·.1)).length :=
  Lemmas.coverage_dedup_exact row

/-- the reported number of examples is the number supplied (with / without repeats) -/
theorem n_examples_exact (freqs : List Nat) :
    nExamples false freqs = freqs.sum ∧ nExamples true freqs = freqs.length := by
  simp [nExamples]

/-- The greedy loop never diverges and never indexes out of range: for every
    pattern list (duplicates allowed), example list, frequencies and sort mode
    there is a result. -/
theorem incr_terminates {α ε} [DecidableEq α] (m : α → ε → Bool) (pats : List α) (idx : List Nat)
    (exs : List ε) (freqs : List Nat) (hlen : freqs.length = exs.length) (sd : Bool) :
    ∃ r, fullIncr pats idx (bsOf m pats exs) freqs sd = some r :=
  Lemmas.incr_terminates m pats idx exs freqs hlen sd

/-- The incremental counts sum to the total number of examples explained by at
    least one expression, each example being credited exactly once: with repeats
    (`incr`) it is the sum of the frequencies of the examples matched by some
    pattern, without repeats (`incrUniq`) their number. -/
theorem incr_sum_exact {α ε} [DecidableEq α] (m : α → ε → Bool) (pats : List α) (idx : List Nat)
    (exs : List ε) (freqs : List Nat) (hlen : freqs.length = exs.length)
    (hpos : ∀ f ∈ freqs, 0 < f) (sd : Bool) (r : List (α × Cov))
    (h : fullIncr pats idx (bsOf m pats exs) freqs sd = some r) :
    (r.map (·.2.incr)).sum
        = (((exs.zip freqs).filter (fun xf => pats.any (fun p => m p xf.1))).map (·.2)).sum
    ∧ (r.map (·.2.incrUniq)).sum
        = (exs.filter (fun x => pats.any (fun p => m p x))).length :=
  Lemmas.incr_sum_exact m pats idx exs freqs hlen hpos sd r h

/-- Expressions are listed in non-increasing order of newly explained examples
    (in the requested counting mode). -/
theorem incr_nonincreasing {α ε} [DecidableEq α] (m : α → ε → Bool) (pats : List α) (idx : List Nat)
    (exs : List ε) (freqs : List Nat) (hlen : freqs.length = exs.length) (sd : Bool)
    (r : List (α × Cov))
    (h : fullIncr pats idx (bsOf m pats exs) freqs sd = some r) :
    (r.map (fun kc => if sd then kc.2.incrUniq else kc.2.incr)).Pairwise (· ≥ ·) :=
  Lemmas.incr_nonincreasing m pats idx exs freqs hlen sd r h

/-- Every reported entry is one of the input patterns, reported once, and its
    `n` / `n_uniq` fields are that pattern's coverage over all the examples.
    `hpos`: frequencies are positive — `Extractor.clean` drops zero counts
    (rexpy.py:647-648); with a zero frequency `n_uniq` under-counts (the deduped
    matrix is derived from `n if match else 0`), witness below. -/
theorem incr_fields_exact {α ε} [DecidableEq α] (m : α → ε → Bool) (pats : List α) (idx : List Nat)
    (exs : List ε) (freqs : List Nat) (hlen : freqs.length = exs.length)
    (hpos : ∀ f ∈ freqs, 0 < f) (sd : Bool)
    (r : List (α × Cov))
    (h : fullIncr pats idx (bsOf m pats exs) freqs sd = some r) :
    (keys r).Nodup ∧
    ∀ kc ∈ r, kc.1 ∈ pats ∧
      kc.2.n = rexCoverage1 false ((exs.map (m kc.1)).zip freqs) ∧
      kc.2.nUniq = rexCoverage1 true ((exs.map (m kc.1)).zip freqs) :=
  Lemmas.incr_fields_exact m pats idx exs freqs hlen hpos sd r h

/-- the guard `hpos` is needed: a matched example of frequency 0 is not counted in `n_uniq` -/
example :
    fullIncr ["p"] [0] (bsOf (fun _ _ => true) ["p"] [10, 11]) [0, 1] false
      = some [("p", ⟨1, 1, 1, 1, 0⟩)]
    ∧ rexCoverage1 true (([10, 11].map ((fun _ _ => true : String → Nat → Bool) "p")).zip [0, 1]) = 2 := by
  decide

/- Non-vacuity: a concrete overlapping instance on which the hypotheses hold and
   the loop does real work (two productive iterations, one pattern dropped). -/
example :
    fullIncr ["^a+$", "^[ab]+$", "^b+$"] [0, 1, 2]
      [[true, true, false], [false, true, false], [false, true, true], [false, false, false]]
      [1, 2, 2, 5] false
    = some [("^[ab]+$", ⟨5, 3, 5, 3, 1⟩)] := by decide

example :
    fullIncr ["p", "q"] [0, 1] [[true, false], [false, true], [true, true]] [1, 4, 2] false
    = some [("q", ⟨6, 2, 6, 2, 1⟩), ("p", ⟨3, 2, 1, 1, 0⟩)] := by decide

end TddaVerif.Props.C18
