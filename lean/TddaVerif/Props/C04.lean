/-
C04 — text comparison passes exactly when the texts agree modulo the declared exclusions.

Property theorems only; proofs are in TddaVerif/Lemmas/CheckStrings.lean.
`pat` is Python's `re.match` on the anchored ignore-patterns (a parameter).
-/
import TddaVerif.Model.CheckStrings
import TddaVerif.Props.C04Spec
import TddaVerif.Lemmas.CheckStrings
import TddaVerif.Lemmas.Encoding
import TddaVerif.Generated.Utils

namespace TddaVerif.Props.C04
open TddaVerif.Py TddaVerif.CheckStrings

/-- the code's pattern check is sound for `PatEquiv`, whatever the fuel -/
theorem checkPatterns_sound (npats : Nat) (pat : PatFn) (fuel : Nat) (a e : Line)
    (h : checkPatterns npats pat fuel a e = true) : PatEquiv npats pat a e :=
  Lemmas.checkPatterns_sound npats pat fuel a e h

/-- … and complete when the recursion is well-founded (`Shrinks`), with the fuel the model uses -/
theorem checkPatterns_complete (npats : Nat) (pat : PatFn) (hs : Shrinks npats pat) (a e : Line)
    (h : PatEquiv npats pat a e) : checkPatterns npats pat (patFuel a e) a e = true :=
  Lemmas.checkPatterns_complete npats pat hs a e h

/-- hence the executable excuse test decides `LineOK` -/
theorem lineOKb_iff (o : Opts) (pat : PatFn) (hs : Shrinks o.npats pat) (a e : Line) :
    lineOKb o pat a e = true ↔ LineOK o pat a e :=
  Lemmas.lineOKb_iff o pat hs a e

/-- **Main theorem.** The comparison passes exactly when the texts agree by the rule. -/
theorem check_pass_iff (o : Opts) (pat : PatFn) (a e : List Line) :
    (checkStrings o pat a e).failures = 0 ↔ Agree o pat a e :=
  Lemmas.check_pass_iff o pat a e

/-- identical content passes under every option combination -/
theorem identical_passes (o : Opts) (pat : PatFn) (a : List Line) :
    (checkStrings o pat a a).failures = 0 :=
  Lemmas.identical_passes o pat a

/-- different numbers of lines after removal always fail -/
theorem different_length_fails (o : Opts) (pat : PatFn) (a e : List Line)
    (h : (kept o a).length ≠ (kept o e).length) : (checkStrings o pat a e).failures = 1 :=
  Lemmas.different_length_fails o pat a e h

/-- any difference not excused by an option fails (no permutation allowance) -/
theorem unexcused_difference_fails (o : Opts) (pat : PatFn) (a e : List Line)
    (hperm : o.maxPerm = 0) (h : badPairs o pat a e ≠ []) : (checkStrings o pat a e).failures = 1 :=
  Lemmas.unexcused_difference_fails o pat a e hperm h

/-- `sorted(x) == sorted(y)` is "x is a permutation of y" -/
theorem sorted_eq_iff_perm (x y : List Line) : sortLines x = sortLines y ↔ x.Perm y :=
  Lemmas.sorted_eq_iff_perm x y

/- non-vacuity -/
example : (checkStrings {} (fun _ _ => none) ["ab".toList, "c".toList] ["ab".toList, "d".toList]).failures = 1 := by
  decide
example : (checkStrings { maxPerm := 2 } (fun _ _ => none) ["x".toList, "y".toList] ["y".toList, "x".toList]).failures = 0 := by
  decide
example : (checkStrings { removeLines := ["#".toList] } (fun _ _ => none)
    ["a".toList, "# c".toList] ["a".toList]).failures = 0 := by decide

/-! ### the encoding files are read in (Model/Encoding.lean; the constants are regenerated from utils.py) -/
open TddaVerif.Encoding in
/-- the constants of the source -/
def encConsts : Consts :=
  { specialExt := TddaVerif.Generated.Utils.specialExt, specialEnc := TddaVerif.Generated.Utils.specialEnc,
    dflt := TddaVerif.Generated.Utils.defaultEnc }

open TddaVerif.Encoding in
/-- with no encoding given, every file but the one special extension is read in the default encoding -/
theorem default_encoding (path : TddaVerif.Py.Line) (h : shortExt path ≠ encConsts.specialExt) :
    getEncoding encConsts path none = encConsts.dflt := Encoding.Lemmas.default_encoding encConsts path h

open TddaVerif.Encoding in
/-- an encoding that is given is used whatever the files are called (so both sides of a comparison are read alike) -/
theorem explicit_encoding_wins (p q : TddaVerif.Py.Line) (e : Enc) :
    getEncoding encConsts p (some e) = getEncoding encConsts q (some e) := rfl

/-- **tie.** guess_encoding's constants and the three helper bodies are the ones the model translates: plain UTF-8 (no
    byte-order-mark variant) unless the file is a PDF -/
theorem tie_guess_encoding :
    TddaVerif.Generated.Utils.specialExt = "pdf".toList ∧ TddaVerif.Generated.Utils.specialEnc = "iso-8859-1".toList ∧
    TddaVerif.Generated.Utils.defaultEnc = "utf-8".toList ∧
    TddaVerif.Generated.Utils.getShortExtSrc = "return os.path.splitext(path)[1].lower()[1:] if path else ''".toList ∧
    TddaVerif.Generated.Utils.normalizeEncodingSrc = "lc = encoding.lower(); return 'utf-8' if lc == 'utf8' else lc".toList ∧
    TddaVerif.Generated.Utils.getEncodingSrc =
      "if encoding is None:\n    return guess_encoding(path)\nelse:\n    return normalize_encoding(encoding)".toList := by decide

open TddaVerif.Encoding in
example : getEncoding encConsts "ref/Report.PDF".toList none = "iso-8859-1".toList ∧
    getEncoding encConsts "ref/out.csv".toList none = "utf-8".toList ∧
    getEncoding encConsts "x.pdf".toList (some "UTF8".toList) = "utf-8".toList := by decide

end TddaVerif.Props.C04
