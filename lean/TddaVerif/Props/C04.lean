/-
C04 — text comparison passes exactly when the texts agree modulo the declared exclusions.

Property theorems only; proofs are in TddaVerif/Lemmas/CheckStrings.lean.
`pat` is Python's `re.match` on the anchored ignore-patterns (a parameter).
-/
import TddaVerif.Model.CheckStrings
import TddaVerif.Props.C04Spec
import TddaVerif.Lemmas.CheckStrings

namespace TddaVerif.Props.C04
open TddaVerif.Py TddaVerif.CheckStrings

/-- the code's pattern check is sound for `PatEquiv`, whatever the fuel -/
theorem checkPatterns_sound (npats : Nat) (pat : PatFn) (fuel : Nat) (a e : Line)
    (h : checkPatterns npats pat fuel a e = true) : PatEquiv npats pat a e :=
  Lemmas.checkPatterns_sound npats pat fuel a e h

/-- … and complete when the recursion is well-founded (`Shrinks`), with the fuel the model uses -/
theorem checkPatterns_complete (npats : Nat) (pat : PatFn) (hs : Shrinks npats pat) (a e : Line)
    (h : PatEquiv npats pat a e) : checkPatterns npats pat (patFuel a e) a e = true :=
  Lemmas.checkPatterns_complete npats pat hs a e h

/-- hence the executable excuse test decides `LineOK` -/
theorem lineOKb_iff (o : Opts) (pat : PatFn) (hs : Shrinks o.npats pat) (a e : Line) :
    lineOKb o pat a e = true ↔ LineOK o pat a e :=
  Lemmas.lineOKb_iff o pat hs a e

/-- **Main theorem.** The comparison passes exactly when the texts agree by the rule. -/
theorem check_pass_iff (o : Opts) (pat : PatFn) (a e : List Line) :
    (checkStrings o pat a e).failures = 0 ↔ Agree o pat a e :=
  Lemmas.check_pass_iff o pat a e

/-- identical content passes under every option combination -/
theorem identical_passes (o : Opts) (pat : PatFn) (a : List Line) :
    (checkStrings o pat a a).failures = 0 :=
  Lemmas.identical_passes o pat a

/-- different numbers of lines after removal always fail -/
theorem different_length_fails (o : Opts) (pat : PatFn) (a e : List Line)
    (h : (kept o a).length ≠ (kept o e).length) : (checkStrings o pat a e).failures = 1 :=
  Lemmas.different_length_fails o pat a e h

/-- any difference not excused by an option fails (no permutation allowance) -/
theorem unexcused_difference_fails (o : Opts) (pat : PatFn) (a e : List Line)
    (hperm : o.maxPerm = 0) (h : badPairs o pat a e ≠ []) : (checkStrings o pat a e).failures = 1 :=
  Lemmas.unexcused_difference_fails o pat a e hperm h

/-- `sorted(x) == sorted(y)` is "x is a permutation of y" -/
theorem sorted_eq_iff_perm (x y : List Line) : sortLines x = sortLines y ↔ x.Perm y :=
  Lemmas.sorted_eq_iff_perm x y

/- non-vacuity -/
example : (checkStrings {} (fun _ _ => none) ["ab".toList, "c".toList] ["ab".toList, "d".toList]).failures = 1 := by
  decide
example : (checkStrings { maxPerm := 2 } (fun _ _ => none) ["x".toList, "y".toList] ["y".toList, "x".toList]).failures = 0 := by
  decide
example : (checkStrings { removeLines := ["#".toList] } (fun _ _ => none)
    ["a".toList, "# c".toList] ["a".toList]).failures = 0 := by decide

end TddaVerif.Props.C04
