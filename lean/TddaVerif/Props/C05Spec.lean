/-
C05 — the stated rule for DataFrame comparison, written independently of the code's control flow.
-/
import TddaVerif.Model.CheckPandas
namespace TddaVerif.Props.C05
open TddaVerif.Py TddaVerif.CheckPandas

/-- the documented type-matching levels, on dtype names: strict = same dtype; medium = same kind ignoring
    bit width / nullability / unit, `object` standing for string, boolean or datetime; permissive =
    additionally any two of bool / int / float -/
def TypesAgree (a b : Line) (level : Level) : Prop :=
  a = b ∨ (level ≠ .strict ∧
    (loosenType a = loosenType b
     ∨ (loosenType a = "object".toList ∧ loosenType b ∈ objectTypes)
     ∨ (loosenType b = "object".toList ∧ loosenType a ∈ objectTypes)
     ∨ (level = .permissive ∧ loosenType a ∈ numericTypes ∧ loosenType b ∈ numericTypes)))

/-- dtype of a named column, categoricals read as strings -/
def dtypeC (cols : List Col) (n : Line) : Option Line := dtypeOf (cols.map catAsString) n

/-- "compare as correct": on the columns selected for each kind of check the frames have the same columns,
    relative order and types; the same number of rows; and the selected values are equal -/
structure Agree (act ref : List Col) (nact nref : Nat) (checkData checkTypes checkExtra : Flag)
    (checkOrder : Option Flag) (level : Level) (valuesEqual : List Line → Bool) : Prop where
  /-- every column selected for the type check is in both frames with matching types -/
  types : ∀ c ∈ resolve checkTypes (ref.map (·.name)), c ∈ act.map (·.name) ∧ c ∈ ref.map (·.name) ∧
            ∀ ta tr, dtypeC act c = some ta → dtypeC ref c = some tr → TypesAgree ta tr level
  /-- no selected actual column is absent from the reference -/
  extra : ∀ c ∈ resolve checkExtra (act.map (·.name)), c ∈ ref.map (·.name)
  /-- the selected common columns come in the same relative order -/
  order : ∀ f, checkOrder = some f →
            (act.map (·.name)).filter (fun c => (resolve f (ref.map (·.name))).contains c && (ref.map (·.name)).contains c)
            = (ref.map (·.name)).filter (fun c => (resolve f (ref.map (·.name))).contains c && (act.map (·.name)).contains c)
  rows : nact = nref
  /-- every column selected for the value check is in both frames, and the values agree -/
  dataCols : ∀ c ∈ resolve checkData (ref.map (·.name)), c ∈ act.map (·.name) ∧ c ∈ ref.map (·.name)
  values : resolve checkData (ref.map (·.name)) ≠ [] → valuesEqual (resolve checkData (ref.map (·.name))) = true

end TddaVerif.Props.C05
