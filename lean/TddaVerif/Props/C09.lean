/-
C09 — .tdda files round-trip: same text, same constraints (hence same verdicts), unknown keys ignored.
Property theorems only; proofs in TddaVerif/Lemmas/TddaFile.lean.  `json.dumps` / `json.loads` are
outside the model (trusted contract: loads (dumps x) = x): the theorems are at the level of the
dictionary that is handed to `json.dumps` and received from `json.loads`, and of the text filter
`strip_lines` that is applied to the dumped text.
-/
import TddaVerif.Model.TddaFile
import TddaVerif.Lemmas.TddaFile
import TddaVerif.Lemmas.TddaMeta
import TddaVerif.Generated.Meta

namespace TddaVerif.Props.C09
open TddaVerif.Py TddaVerif.TddaFile

/-- str() of a valid datetime is read back as that datetime — with or without fractional seconds, naive or with a
    UTC offset of whole seconds (as written for timezone-aware columns: +HH:MM, or +HH:MM:SS for a local mean time) -/
theorem getDate_strDatetime (t : Civil) (h : t.valid = true) : getDate (strDatetime t) = .ok t :=
  Lemmas.getDate_strDatetime t h

/-- **Load ∘ dump.** Serialising a well-formed in-memory constraint set to its dictionary and
    loading that dictionary back gives the same constraints (each field's constraints now in the
    preferred key order), with no warning and no error — for every kind, precision-qualified bounds,
    date-valued bounds, any names and strings. -/
theorem load_dump (fields : List (Line × List Con)) (hwf : Lemmas.WFSet fields) :
    fromDict (toDict fields) = .ok { fields := Lemmas.canonSet fields, warnings := [] } :=
  Lemmas.load_dump fields hwf

/-- … and the reloaded set serialises to the identical dictionary (hence, json.dumps being a
    function, to the identical text), for any number of further cycles -/
theorem dump_load_dump (fields : List (Line × List Con)) (hwf : Lemmas.WFSet fields) :
    toDict (Lemmas.canonSet fields) = toDict fields ∧ Lemmas.WFSet (Lemmas.canonSet fields) :=
  Lemmas.dump_load_dump fields hwf

/-- the reloaded set holds exactly the same constraint for every field and kind, so every verdict,
    which is a function of (field, kind, constraint), is the same before and after -/
theorem same_constraints (fields : List (Line × List Con)) (hwf : Lemmas.WFSet fields) (name kind : Line) :
    (((Lemmas.canonSet fields).find? (fun f => f.1 == name)).bind (fun f => f.2.find? (fun c => c.kind == kind)))
      = ((fields.find? (fun f => f.1 == name)).bind (fun f => f.2.find? (fun c => c.kind == kind))) :=
  Lemmas.same_constraints fields hwf name kind

/-- **Unknown kinds and # keys are ignored**: the constraints loaded from a field's dictionary
    depend only on its entries of standard kinds (the rest at most produce warnings) -/
theorem unknown_ignored (name : Line) (c : List (Line × JVal)) :
    (loadField name c).map (·.1) =
      (loadField name (c.filter (fun kv => standardKinds.contains kv.1))).map (·.1) :=
  Lemmas.unknown_ignored name c

/-- a key starting with `#` never even warns -/
theorem hash_key_silent (name : Line) (pre post : List (Line × JVal)) (k : Line) (v : JVal)
    (hk : k.head? = some '#') (hs : standardKinds.contains k = false) :
    loadField name (pre ++ (k, v) :: post) = loadField name (pre ++ post) :=
  Lemmas.hash_key_silent name pre post k v hk hs

/-- `strip_lines` leaves no line ending in whitespace … -/
theorem stripLines_no_trailing_ws (s : Line) :
    ∀ l ∈ splitNl (stripLines s) [], rstrip l = l :=
  Lemmas.stripLines_no_trailing_ws s

/-- … and is the identity on text that has none (such as the output of json.dumps(indent=4)) -/
theorem stripLines_id (s : Line) (h : ∀ l ∈ splitNl s [], rstrip l = l) : stripLines s = s :=
  Lemmas.stripLines_id s h

/-- it never touches anything but trailing blanks: the text keeps its line structure -/
theorem stripLines_lines (s : Line) :
    (splitNl (stripLines s) []).length = (splitNl s []).length :=
  Lemmas.stripLines_lines s

/- non-vacuity -/
example : getDate (strDatetime ⟨⟨1999, 12, 31, 23, 59, 59, 500000⟩, none⟩) = .ok ⟨⟨1999, 12, 31, 23, 59, 59, 500000⟩, none⟩ := by decide
example : strDatetime ⟨⟨2020, 1, 2, 3, 4, 5, 0⟩, none⟩ = "2020-01-02 03:04:05".toList := by decide
example : strDatetime ⟨⟨2020, 1, 2, 3, 4, 5, 0⟩, some (-12600)⟩ = "2020-01-02 03:04:05-03:30".toList := by decide
example : strDatetime ⟨⟨1900, 1, 1, 0, 0, 0, 633563⟩, some 19270⟩ = "1900-01-01 00:00:00.633563+05:21:10".toList := by decide
example : getDate "1900-01-01 00:00:00.633563-03:30:52".toList = .ok ⟨⟨1900, 1, 1, 0, 0, 0, 633563⟩, some (-12652)⟩ := by decide
example : getDate "2020-01-02 03:04:05.250000-00:30".toList = .ok ⟨⟨2020, 1, 2, 3, 4, 5, 250000⟩, some (-1800)⟩ := by decide
example : getDate "2020-01-02 03:04:05+25:00".toList = .invalid := by decide
example : getDate "2020-01-02+01:00".toList = .notDate := by decide
example : (⟨⟨2020, 1, 2, 3, 4, 5, 0⟩, some (-12600)⟩ : Civil).valid = true := by decide
example : stripLines "a  \nb\t\n".toList = "a\nb\n".toList := by decide

/-! ### creation metadata (Model/TddaMeta.lean; the keys and the two guards are regenerated from base.py) -/
open TddaVerif.TddaMeta in
/-- the keys of the source are pairwise different (the round trip below needs it) -/
theorem metadata_keys_nodup : TddaVerif.Generated.Meta.metadataKeys.Nodup := by decide

open TddaVerif.TddaMeta in
/-- **metadata round trip.** With the keys of the source: what is written after loading what was written is what was
    written - n_records 0, an empty dataset name and every other value that is not null included -/
theorem meta_roundtrip (obj : Key → MV) :
    getMeta TddaVerif.Generated.Meta.metadataKeys
        (loadMeta TddaVerif.Generated.Meta.metadataKeys (getMeta TddaVerif.Generated.Meta.metadataKeys obj))
      = getMeta TddaVerif.Generated.Meta.metadataKeys obj :=
  TddaMeta.Lemmas.meta_roundtrip _ metadata_keys_nodup obj

open TddaVerif.TddaMeta in
/-- a value that is not null is kept whatever it is -/
theorem falsy_value_kept (k : Key) (hk : k ∈ TddaVerif.Generated.Meta.metadataKeys) (t : List Char) :
    loadMeta TddaVerif.Generated.Meta.metadataKeys [(k, .val t)] k = .val t :=
  TddaMeta.Lemmas.falsy_value_kept _ k hk t

open TddaVerif.TddaMeta in
/-- unknown keys and null values load nothing -/
theorem meta_unknown_or_null_ignored (k k' : Key) (v : MV) (h : k' ∉ TddaVerif.Generated.Meta.metadataKeys ∨ v = .null) :
    loadMeta TddaVerif.Generated.Meta.metadataKeys [(k', v)] k = .null :=
  TddaMeta.Lemmas.unknown_or_null_ignored _ k k' v h

/-- **tie.** The guards of the two loops in base.py are the ones the model translates -/
theorem tie_meta_guards :
    TddaVerif.Generated.Meta.loadGuard = "k in METADATA_KEYS and v is not None".toList ∧
    TddaVerif.Generated.Meta.loadAction = "self.__dict__[k] = v".toList ∧
    TddaVerif.Generated.Meta.getGuard = "getattr(self, k, None) is not None".toList := by decide

example : "n_records".toList ∈ TddaVerif.Generated.Meta.metadataKeys := by decide

end TddaVerif.Props.C09
