/-
C03 / C13 / C14 — specification side for rexpy (definitions only): what it means for a pattern
(an AST of fragments) to match a string, independent of the backtracking matcher the model uses.
-/
import TddaVerif.Model.Rexpy

namespace TddaVerif.Props.C03
open TddaVerif.Py TddaVerif.Rexpy

/-- the piece `g` is accepted by the fragment `f` -/
def fragAccepts (T : CharTable) (E : List Char) (f : Frag) (g : Line) : Bool :=
  match f.atom with
  | .escStr lit => g == lit
  | a => f.lo ≤ g.length && (match f.M with | some M => g.length ≤ M | none => true) && g.all (atomChar T E a)

/-- **Matching**: the string splits into consecutive pieces, one per fragment, each accepted -/
inductive Matches (T : CharTable) (E : List Char) : Pattern → Line → Prop
  | nil : Matches T E [] []
  | cons (f : Frag) (fs : Pattern) (g rest : Line) :
      fragAccepts T E f g = true → Matches T E fs rest → Matches T E (f :: fs) (g ++ rest)

/-- what the theorems need to know about the engine's three Unicode classes:
    ASCII letters, digits and `_` are word characters; ASCII digits are digits; what `str.strip`
    removes, `\s` matches -/
def Consistent (T : CharTable) : Prop :=
  (∀ c, asciiUpper c = true ∨ asciiLower c = true ∨ asciiDigit c = true ∨ c = '_' → T.w c = true) ∧
  (∀ c, asciiDigit c = true → T.d c = true) ∧
  (∀ c, isSpace c = true → T.s c = true)

/-- optional whitespace around a pattern (the form used once any example needed stripping) -/
def wrapWs (wsWrap : Bool) (p : Pattern) : Pattern :=
  let ws : Frag := { atom := .code cWhite, m := 0, M := none, fixed := false }
  if wsWrap then [ws] ++ p ++ [ws] else p

/-- the supplied examples that an explicit option does not discard (as supplied, unstripped) -/
def keptExamples (o : Opts) (items : List (Option Line × Nat)) : List Line :=
  items.filterMap (fun it =>
    match it.1 with
    | none => none
    | some s => if it.2 == 0 then none
                else if o.removeEmpties && (if o.stripOpt then strip s else s).isEmpty then none
                else some s)

end TddaVerif.Props.C03
